import JunoModel.C04.ProofsBC
/-!
C04 helper lemmas, round 6: the store-time guards of the contract sections of a state diff
(`core/state/state.go Update`: `ErrContractAlreadyDeployed`, `getStateObject` of a missing contract;
`core/deprecatedstate` `DeployContract`, `NewContractUpdater`): what `Store` has checked about every
deployment, class replacement, nonce and storage write of a block it accepted — the revert side relies on
it (it purges every deployed address, so a block allowed to deploy an existing address cannot be undone).
-/
set_option linter.unusedSectionVars false
namespace Juno.C04
open Map

/-- the contract steps of a successful `State.Update`, either backend -/
theorem update_contract_steps {cfg : Cfg} {s s' : State} {b : Block} (h : updateState cfg b s = .ok s') :
    ∃ cs0 cs1 cs2 cs3,
      applyDeployed b.number s.contracts b.diff.deployed = .ok cs0 ∧
      applyReplaced cs0 b.diff.replaced = .ok cs1 ∧
      applyNonces cs1 b.diff.nonces = .ok cs2 ∧
      touchStorage b.number cs2 b.diff.storage = .ok cs3 := by
  unfold updateState at h
  by_cases hro : rootOf b.ver s = b.oldRoot
  · simp only [hro, ne_eq, not_true_eq_false, if_false, bind, Except.bind, pure, Except.pure] at h
    cases hau : applyUpdate cfg b s with
    | error e => simp [hau] at h
    | ok st =>
      unfold applyUpdate at hau
      simp only [bind, Except.bind, pure, Except.pure] at hau
      cases h0 : applyDeployed b.number s.contracts b.diff.deployed with
      | error e => simp [h0] at hau
      | ok cs0 =>
        cases h1 : applyReplaced cs0 b.diff.replaced with
        | error e => simp [h0, h1] at hau
        | ok cs1 =>
          cases h2 : applyNonces cs1 b.diff.nonces with
          | error e => simp [h0, h1, h2] at hau
          | ok cs2 =>
            cases h3 : touchStorage b.number cs2 b.diff.storage with
            | error e => simp [h0, h1, h2, h3] at hau
            | ok cs3 => exact ⟨cs0, cs1, cs2, cs3, rfl, h1, h2, h3⟩
  · simp [hro, bind, Except.bind] at h

/-- a read-modify-write of a section neither adds nor removes contract records -/
theorem updAll_isSome {ν α : Type} (bad : ν → α → Bool) (g : ν → α → ν) (err : Err) {d : Map Nat α} (hd : Sorted d)
    {m m' : Map Nat ν} (hm : Sorted m) (h : updAll bad g err m d = .ok m') (a : Nat) :
    (Map.get m' a).isSome = (Map.get m a).isSome := by
  obtain ⟨_, hget, _⟩ := updAll_spec bad g err hd hm h
  rw [hget a]
  cases Map.get d a with
  | none => rfl
  | some x => cases Map.get m a <;> rfl

/-- What `State.Update` has checked about the contract sections of a block it accepted. -/
theorem updateState_contract_guard {cfg : Cfg} {s s' : State} {b : Block}
    (hs : Sorted s.contracts) (hd : Sorted b.diff.deployed) (hr : Sorted b.diff.replaced) (hn : Sorted b.diff.nonces)
    (h : updateState cfg b s = .ok s') :
    (∀ a c, Map.get b.diff.deployed a = some c → Map.get s.contracts a = none) ∧
    (∀ a c, Map.get b.diff.replaced a = some c →
      (Map.get s.contracts a).isSome = true ∨ (Map.get b.diff.deployed a).isSome = true) ∧
    (∀ a x, Map.get b.diff.nonces a = some x →
      (Map.get s.contracts a).isSome = true ∨ (Map.get b.diff.deployed a).isSome = true) ∧
    (∀ a, a ∈ addrsOf b.diff.storage →
      (Map.get s.contracts a).isSome = true ∨ (Map.get b.diff.deployed a).isSome = true ∨ isSys a = true) := by
  obtain ⟨cs0, cs1, cs2, cs3, h0, h1, h2, h3⟩ := update_contract_steps h
  obtain ⟨hs0, hget0, hall0⟩ := applyDeployed_spec b.number hd hs h0
  have back0 : ∀ a, (Map.get cs0 a).isSome = true →
      (Map.get s.contracts a).isSome = true ∨ (Map.get b.diff.deployed a).isSome = true := by
    intro a ha
    rw [hget0 a] at ha
    cases hda : Map.get b.diff.deployed a with
    | some c => exact Or.inr rfl
    | none => rw [hda] at ha; exact Or.inl ha
  unfold applyReplaced at h1
  unfold applyNonces at h2
  obtain ⟨hs1, _, hall1⟩ := updAll_spec _ _ _ hr hs0 h1
  have e1 := updAll_isSome _ _ _ hr hs0 h1
  obtain ⟨hs2, _, hall2⟩ := updAll_spec _ _ _ hn hs1 h2
  have e2 := updAll_isSome _ _ _ hn hs1 h2
  obtain ⟨_, _, hall3⟩ := touchStorage_spec b.number b.diff.storage hs2 h3
  refine ⟨hall0, ?_, ?_, ?_⟩
  · intro a c hac
    obtain ⟨v, hv, _⟩ := hall1 a c hac
    exact back0 a (by rw [hv]; rfl)
  · intro a x hax
    obtain ⟨v, hv, _⟩ := hall2 a x hax
    exact back0 a (by rw [← e1 a, hv]; rfl)
  · intro a ha
    rcases hall3 a ha with h' | h'
    · rw [e2 a, e1 a] at h'
      rcases back0 a h' with h'' | h''
      · exact Or.inl h''
      · exact Or.inr (Or.inl h'')
    · exact Or.inr (Or.inr h')

theorem store_state_of_ok {cfg : Cfg} {nd nd' : Node} {b : Block} (h : store cfg nd b = .ok nd') :
    updateState cfg b nd.st = .ok nd'.st := by
  obtain ⟨st', casm', f', p', hn, hus, hsc, hfi, hnd⟩ := store_parts h
  rw [hus, hnd]

/-- a failing operation leaves the node as it is (`step`: the batch is dropped) -/
theorem step_store_refused {cfg : Cfg} {nd : Node} {b : Block} (h : ∀ nd', store cfg nd b ≠ .ok nd') :
    step cfg nd (.store b) = nd := by
  cases hs : store cfg nd b with
  | ok nd' => exact absurd hs (h nd')
  | error e => simp only [step, hs]

end Juno.C04
