import JunoModel.C04.Model
import JunoModel.C04.ProofsMap
/-!
C04 helper lemmas, part 2: the per-block index families (`writeBlockContent` / `deleteBlockContent`),
the CASM metadata and the running event filter. Each `revert`-side operation is shown to be the
exact inverse of the `store`-side one on sorted buckets that do not yet mention the new block.
-/
set_option linter.unusedSectionVars false
namespace Juno.C04
open Map

section generic
variable {κ ν : Type} [DecidableEq κ] [KOrd κ]

theorem get_setAll_notin (m : Map κ ν) (d : List (κ × ν)) (k : κ) (h : k ∉ d.map Prod.fst) :
    get (setAll m d) k = get m k := by
  induction d generalizing m with
  | nil => rfl
  | cons e d ih =>
    have h1 : k ≠ e.1 := fun hh => h (by simp [hh])
    have h2 : k ∉ d.map Prod.fst := fun hh => h (by simp [hh])
    show get (setAll (set m e.1 e.2) d) k = get m k
    rw [ih _ h2, get_set_ne m e.2 h1]

/-- Deleting the keys of a batch of Puts undoes it when none of the keys was present. -/
theorem delAll_setAll_absent {m : Map κ ν} (hs : Sorted m) (d : List (κ × ν))
    (habs : ∀ e ∈ d, get m e.1 = none) : delAll (setAll m d) (d.map Prod.fst) = m := by
  apply ext (sorted_delAll (sorted_setAll hs d) _) hs
  intro k
  rw [get_delAll (sorted_setAll hs d)]
  by_cases hk : k ∈ d.map Prod.fst
  · simp only [hk, if_true]
    obtain ⟨e, he, rfl⟩ := List.mem_map.1 hk
    exact (habs e he).symm
  · simp only [hk, if_false]
    exact get_setAll_notin m d k hk

theorem delAll_absent {m : Map κ ν} (hs : Sorted m) (ks : List κ) (habs : ∀ k ∈ ks, get m k = none) :
    delAll m ks = m := by
  apply ext (sorted_delAll hs ks) hs
  intro k
  rw [get_delAll hs]
  by_cases hk : k ∈ ks
  · simp [hk, habs k hk]
  · simp [hk]

end generic

/-! ### Transaction and L1-message lookups -/

theorem indexTxs_eq (n : Nat) (loc : Map Nat (Nat × Nat)) (txs : List Tx) :
    indexTxs n loc txs = setAll loc ((txs.zipIdx).map (fun e => (e.1.hash, (n, e.2)))) := by
  unfold indexTxs setAll
  rw [List.foldl_map]

theorem zipIdx_keys (txs : List Tx) (n i : Nat) :
    ((txs.zipIdx i).map (fun e => (e.1.hash, (n, e.2)))).map Prod.fst = txs.map (·.hash) := by
  induction txs generalizing i with
  | nil => rfl
  | cons t ts ih => simp [List.zipIdx_cons, ih]

/-- `DeleteTransactionsAndReceipts` undoes `WriteTransactionsAndReceipts` on the hash lookup when
the block's transaction hashes were not yet indexed. -/
theorem txLoc_inverse {loc : Map Nat (Nat × Nat)} (hs : Sorted loc) (n : Nat) (txs : List Tx)
    (hfresh : ∀ t ∈ txs, get loc t.hash = none) :
    delAll (indexTxs n loc txs) (txs.map (·.hash)) = loc := by
  rw [indexTxs_eq, ← zipIdx_keys txs n 0]
  apply delAll_setAll_absent hs
  intro e he
  obtain ⟨p, hp, rfl⟩ := List.mem_map.1 he
  have : p.1 ∈ txs := by
    have := List.mem_zipIdx hp
    exact (List.mem_iff_getElem.2 ⟨p.2 - 0, by omega, by simpa using this.2.2.symm⟩)
  exact hfresh _ this

def l1Pairs (txs : List Tx) : List (Nat × Nat) :=
  txs.filterMap (fun t => t.l1msg.map (fun h => (h, t.hash)))

theorem indexL1_eq (l1 : Map Nat Nat) (txs : List Tx) : indexL1 l1 txs = setAll l1 (l1Pairs txs) := by
  unfold indexL1 setAll l1Pairs
  induction txs generalizing l1 with
  | nil => rfl
  | cons t ts ih =>
    cases h : t.l1msg with
    | none => simp [List.filterMap_cons, h, ih]
    | some m => simp [List.filterMap_cons, h, ih]

theorem l1Pairs_keys (txs : List Tx) : (l1Pairs txs).map Prod.fst = txs.filterMap (·.l1msg) := by
  unfold l1Pairs
  induction txs with
  | nil => rfl
  | cons t ts ih =>
    cases h : t.l1msg with
    | none => simp [List.filterMap_cons, h, ih]
    | some m => simp [List.filterMap_cons, h, ih]

theorem l1msg_inverse {l1 : Map Nat Nat} (hs : Sorted l1) (txs : List Tx)
    (hfresh : ∀ t ∈ txs, ∀ m, t.l1msg = some m → get l1 m = none) :
    delAll (indexL1 l1 txs) (txs.filterMap (·.l1msg)) = l1 := by
  rw [indexL1_eq, ← l1Pairs_keys]
  apply delAll_setAll_absent hs
  intro e he
  unfold l1Pairs at he
  obtain ⟨t, ht, hte⟩ := List.mem_filterMap.1 he
  cases hm : t.l1msg with
  | none => simp [hm] at hte
  | some m =>
    simp [hm] at hte
    subst hte
    exact hfresh t ht m hm

end Juno.C04
