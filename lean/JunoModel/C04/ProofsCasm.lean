import JunoModel.C04.ProofsIndex
/-!
C04 helper lemmas, part 3: `updAll` (read-modify-write of a diff section), the CASM hash metadata
(`storeCasmHashMetadata` / `revertCasmHashMetadata`) and the running event filter
(`insert` / `onReorg`).
-/
set_option linter.unusedSectionVars false
namespace Juno.C04
open Map

theorem sorted_mapVal {κ α β : Type} [DecidableEq κ] [KOrd κ] {d : Map κ α} (hd : Sorted d) (f : κ × α → β) :
    Sorted (d.map (fun e => (e.1, f e)) : Map κ β) := by
  induction d with
  | nil => trivial
  | cons e d ih =>
    obtain ⟨h0, hd'⟩ := hd
    refine ⟨?_, ih hd'⟩
    intro e' he'
    obtain ⟨p, hp, rfl⟩ := List.mem_map.1 he'
    exact h0 p hp

theorem get_mapVal {κ α β : Type} [DecidableEq κ] [KOrd κ] (d : Map κ α) (f : κ × α → β) (k : κ) :
    Map.get (d.map (fun e => (e.1, f e)) : Map κ β) k = (Map.get d k).map (fun x => f (k, x)) := by
  induction d with
  | nil => rfl
  | cons e d ih =>
    obtain ⟨k0, x0⟩ := e
    simp only [List.map_cons, Map.get]
    by_cases hk : k = k0
    · subst hk; simp
    · simp [hk, ih]

theorem keys_mapVal {κ α β : Type} (d : Map κ α) (f : κ × α → β) :
    (d.map (fun e => (e.1, f e)) : Map κ β).map Prod.fst = Map.keys d := by
  unfold Map.keys
  induction d with
  | nil => rfl
  | cons e d ih => simp [ih]

theorem mem_keys_iff {κ α : Type} [DecidableEq κ] [KOrd κ] {d : Map κ α} (hd : Sorted d) (k : κ) :
    k ∈ Map.keys d ↔ ∃ x, Map.get d k = some x := by
  unfold Map.keys
  constructor
  · intro h
    obtain ⟨e, he, rfl⟩ := List.mem_map.1 h
    exact ⟨e.2, get_of_mem hd he⟩
  · rintro ⟨x, hx⟩
    exact List.mem_map.2 ⟨(k, x), mem_keys_of_get hx, rfl⟩

/-! ### updAll -/

section upd
variable {ν α : Type}

theorem updAll_spec (bad : ν → α → Bool) (g : ν → α → ν) (err : Err) {d : Map Nat α} (hd : Sorted d)
    {m m' : Map Nat ν} (hm : Sorted m) (h : updAll bad g err m d = .ok m') :
    Sorted m' ∧
    (∀ k, Map.get m' k = match Map.get d k with
                     | some x => (Map.get m k).map (fun v => g v x)
                     | none => Map.get m k) ∧
    (∀ k x, Map.get d k = some x → ∃ v, Map.get m k = some v ∧ bad v x = false) := by
  induction d generalizing m with
  | nil =>
    simp only [updAll] at h
    cases h
    exact ⟨hm, fun k => rfl, fun k x hk => by simp [Map.get] at hk⟩
  | cons e d ih =>
    obtain ⟨k0, x0⟩ := e
    obtain ⟨h0, hd'⟩ := hd
    cases hg : Map.get m k0 with
    | none => simp only [updAll, hg] at h; cases h
    | some v =>
      cases hb : bad v x0 with
      | true => simp only [updAll, hg, hb, if_true] at h; cases h
      | false =>
        simp only [updAll, hg, hb, Bool.false_eq_true, if_false] at h
        obtain ⟨s', hget, hall⟩ := ih hd' (sorted_set hm k0 (g v x0)) h
        have hd0 : Map.get d k0 = none := get_none_of_lt_all h0
        refine ⟨s', ?_, ?_⟩
        · intro k
          rw [hget k]
          by_cases hk : k = k0
          · subst hk
            simp [Map.get, hd0, get_set_self, hg]
          · simp only [Map.get, hk, if_false]
            cases Map.get d k with
            | some x => simp [get_set_ne m _ hk]
            | none => simp [get_set_ne m _ hk]
        · intro k x hkx
          by_cases hk : k = k0
          · subst hk
            simp [Map.get] at hkx
            subst hkx
            exact ⟨v, hg, hb⟩
          · simp only [Map.get, hk, if_false] at hkx
            obtain ⟨v', hv', hb'⟩ := hall k x hkx
            rw [get_set_ne m _ hk] at hv'
            exact ⟨v', hv', hb'⟩

theorem updAll_succeeds (bad : ν → α → Bool) (g : ν → α → ν) (err : Err) {d : Map Nat α} (hd : Sorted d)
    {m : Map Nat ν}
    (hall : ∀ k x, Map.get d k = some x → ∃ v, Map.get m k = some v ∧ bad v x = false) :
    ∃ m', updAll bad g err m d = .ok m' := by
  induction d generalizing m with
  | nil => exact ⟨m, rfl⟩
  | cons e d ih =>
    obtain ⟨k0, x0⟩ := e
    obtain ⟨h0, hd'⟩ := hd
    obtain ⟨v, hv, hb⟩ := hall k0 x0 (get_cons_self ..)
    simp only [updAll, hv, hb, Bool.false_eq_true, if_false]
    apply ih hd'
    intro k x hkx
    have hk : k ≠ k0 := by
      intro e
      subst e
      rw [get_none_of_lt_all h0] at hkx
      cases hkx
    have : Map.get ((k0, x0) :: d) k = some x := by simp [Map.get, hk, hkx]
    obtain ⟨v', hv', hb'⟩ := hall k x this
    exact ⟨v', by rw [get_set_ne m _ hk]; exact hv', hb'⟩

end upd

/-! ### CASM metadata -/

theorem get_setAll_mapVal {α β : Type} {d : Map Nat α} (hd : Sorted d) (m : Map Nat β) (f : Nat × α → β) (k : Nat) :
    Map.get (setAll m (d.map (fun e => (e.1, f e)))) k =
      match Map.get d k with
      | some x => some (f (k, x))
      | none => Map.get m k := by
  rw [get_setAll (sorted_mapVal hd f), get_mapVal]
  cases Map.get d k <;> rfl

/-- Hypotheses on a block for the CASM metadata to be restored exactly: the Sierra classes it
declares have no metadata yet (no re-declaration), and the diff sections are duplicate free
(they are Go maps). -/
structure CasmOK (casm : Map Nat CasmMeta) (b : Block) : Prop where
  sortedCasm : Sorted casm
  sortedDecl : Sorted b.diff.declV1
  sortedMig : Sorted b.diff.migrated
  fresh : ∀ c x, Map.get b.diff.declV1 c = some x → Map.get casm c = none
  /-- migrations only occur from protocol 0.14.1 on -/
  migVer : b.ver < 2 → b.diff.migrated = []

theorem revertCasm_v2 {casm casm' : Map Nat CasmMeta} {b : Block} (n : Nat) (ok : CasmOK casm b)
    (h : updAll (fun (md : CasmMeta) (_ : Nat) => md.v1.isNone || decide (n ≤ md.declaredAt) || decide (md.migratedAt > 0))
      (fun md _ => { md with migratedAt := n }) Err.casm
      (setAll casm (b.diff.declV1.map (fun e => (e.1, (⟨n, e.2, 0, none⟩ : CasmMeta))))) b.diff.migrated = .ok casm') :
    updAll (fun (md : CasmMeta) (_ : Nat) => decide (md.migratedAt = 0)) (fun md _ => { md with migratedAt := 0 }) Err.casm
      (delAll casm' (Map.keys b.diff.declV1)) b.diff.migrated = .ok casm := by
  obtain ⟨hs, hsd, hsm, hfresh, _⟩ := ok
  have hc1 : Sorted (setAll casm (b.diff.declV1.map (fun e => (e.1, (⟨n, e.2, 0, none⟩ : CasmMeta))))) :=
    sorted_setAll hs _
  obtain ⟨hs', hget, hall⟩ := updAll_spec _ _ _ hsm hc1 h
  have hc1' : Sorted (delAll casm' (Map.keys b.diff.declV1)) := sorted_delAll hs' _
  -- lookups after deleting the declared classes
  have key : ∀ k, Map.get (delAll casm' (Map.keys b.diff.declV1)) k =
      match Map.get b.diff.migrated k with
      | some _ => (Map.get casm k).map (fun md => { md with migratedAt := n })
      | none => Map.get casm k := by
    intro k
    rw [get_delAll hs', hget k, get_setAll_mapVal hsd]
    by_cases hk : k ∈ Map.keys b.diff.declV1
    · obtain ⟨x, hx⟩ := (mem_keys_iff hsd k).1 hk
      have hcn : Map.get casm k = none := hfresh k x hx
      simp only [hk, if_true, hcn]
      cases Map.get b.diff.migrated k <;> rfl
    · simp only [hk, if_false]
      have hx : Map.get b.diff.declV1 k = none := by
        cases hx : Map.get b.diff.declV1 k with
        | none => rfl
        | some x => exact absurd ((mem_keys_iff hsd k).2 ⟨x, hx⟩) hk
      rw [hx]
      cases Map.get b.diff.migrated k <;> rfl
  -- every migrated key was present, unmigrated, and is not one of the declared ones
  have hpos : ∀ k y, Map.get b.diff.migrated k = some y →
      ∃ md, Map.get casm k = some md ∧ md.migratedAt = 0 ∧ 0 < n := by
    intro k y hky
    obtain ⟨v, hv1, hbad⟩ := hall k y hky
    rw [get_setAll_mapVal hsd] at hv1
    cases hx : Map.get b.diff.declV1 k with
    | some x =>
      rw [hx] at hv1
      cases hv1
      simp at hbad
    | none =>
      rw [hx] at hv1
      simp only [Bool.or_eq_false_iff, decide_eq_false_iff_not, Nat.not_le, Nat.not_lt, Nat.le_zero_eq] at hbad
      exact ⟨v, hv1, hbad.2, by omega⟩
  obtain ⟨res, hres⟩ := updAll_succeeds (fun (md : CasmMeta) (_ : Nat) => decide (md.migratedAt = 0))
    (fun md _ => { md with migratedAt := 0 }) Err.casm hsm
    (m := delAll casm' (Map.keys b.diff.declV1))
    (fun k y hky => by
      obtain ⟨md, hmd, _, hn⟩ := hpos k y hky
      refine ⟨{ md with migratedAt := n }, ?_, ?_⟩
      · rw [key k, hky, hmd]; rfl
      · simp only [decide_eq_false_iff_not]; omega)
  obtain ⟨hsres, hgres, _⟩ := updAll_spec _ _ _ hsm hc1' hres
  have : res = casm := by
    apply ext hsres hs
    intro k
    rw [hgres k, key k]
    cases hm : Map.get b.diff.migrated k with
    | none => rfl
    | some y =>
      obtain ⟨md, hmd, hm0, _⟩ := hpos k y hm
      rw [hmd]
      simp only [Option.map_some]
      congr 1
      cases md
      simp_all
  rw [hres, this]

theorem revertCasm_storeCasm {casm casm' : Map Nat CasmMeta} {b : Block} (n : Nat) (ok : CasmOK casm b)
    (h : storeCasm n b casm = .ok casm') : revertCasm b.diff casm' = .ok casm := by
  have ok' := ok
  obtain ⟨hs, hsd, hsm, hfresh, hmv⟩ := ok
  unfold storeCasm at h
  by_cases hv : b.ver ≥ 2
  · simp only [hv, if_true] at h
    split at h
    · exact revertCasm_v2 n ok' h
    · cases h
  · simp only [hv, if_false] at h
    have hmig : b.diff.migrated = [] := hmv (by omega)
    split at h
    · cases h
      unfold revertCasm
      simp only [hmig, updAll]
      have : delAll (setAll casm (b.diff.declV1.map (fun e =>
          (e.1, (⟨n, ((Map.get b.classes e.1).map (·.v2)).getD 0, 0, some e.2⟩ : CasmMeta)))))
          (Map.keys b.diff.declV1) = casm := by
        rw [← keys_mapVal b.diff.declV1 (fun e => (⟨n, ((Map.get b.classes e.1).map (·.v2)).getD 0, 0, some e.2⟩ : CasmMeta))]
        apply delAll_setAll_absent hs
        intro e he
        obtain ⟨p, hp, rfl⟩ := List.mem_map.1 he
        exact hfresh p.1 p.2 (get_of_mem hsd hp)
      rw [this]
    · cases h

end Juno.C04
