import JunoModel.C04.ModelMap
/-!
C04 model, part 2: the node as a record of database buckets, with `store` and `revert`.

Transcribed from (paths relative to /repo):
* `blockchain/statebackend/statebackend.go` `Store`/`RevertHead` (new backend) and
  `blockchain/statebackend/deprecated.go` (legacy backend),
* `blockchain/statebackend/block_ops.go` `verifyBlockSuccession`, `writeBlockContent`, `deleteBlockContent`,
* `blockchain/statebackend/casm_metadata.go` `storeCasmHashMetadata`, `revertCasmHashMetadata`,
  `core/class.go` `ClassCasmHashMetadata.Migrate/Unmigrate`,
* `core/state/state.go` `Update`, `Revert`, `commit` (system-contract purge), `flush`, `writeHistory`,
  `deleteHistory`; `core/state/state_reader.go` `GetReverseStateDiff`, `valueAt`,
* `core/deprecatedstate/state.go` `Update`, `updateContracts`, `updateContractStorages`, `Revert`,
  `removeDeclaredClasses`, `revertMigratedCasmClasses`, `GetReverseStateDiff`, `performStateDeletions`,
  `purgeContract`, `purgesystemContracts`, `valueAt`; `core/deprecatedstate/contract.go` `UpdateStorage`,
* `core/accessors.go` `WriteTransactionsAndReceipts`, `DeleteTransactionsAndReceipts`, `WriteL1HandlerMsgHashes`,
* `core/running_event_filter.go` `insert`, `onReorg`.

Abstractions (each is tied to the code by the harness, see notes/C04.md):
* every identifier (address, slot, value, class hash, block hash, transaction hash, message hash) is a `Nat`;
* a trie is the key/value map it commits to (C01 proves the tries canonical); a state root is the
  committed content itself (`Root`): roots are equal iff the committed contents are equal, i.e. the
  hash functions are ideal (collision free);
* the legacy backend's three per-contract buckets (class hash, nonce, deployment height) are one
  `Contract` record (they are always written and deleted together);
* a block's bloom filter is an opaque number (0 = no bit set); an aggregated filter is the map
  block number -> bloom of the blocks inserted and not cleared;
* CBOR payloads that `store` writes and `revert` deletes as a whole (header fields, receipts,
  commitments) are an opaque `payload`.

The model follows the code as found, including its defects; `Cfg` selects the backend and, for the
defects that have a proposed repair, whether the repair is applied.
-/
namespace Juno.C04

/-- Backend and repair switches. The harness derives them from the real code (one probe per
switch), so the model always describes the tree being checked. -/
structure Cfg where
  /-- legacy backend (`core/deprecatedstate`) instead of the new one (`core/state`) -/
  legacy : Bool
  /-- commit 05cf200: legacy reverse diff falls back to the head value when no log exists -/
  zeroWriteFix : Bool
  /-- repair of "reopened window stays persisted" (`onReorg` also deletes the window it reopens) -/
  dropReopenedWindow : Bool
  /-- repair of "class supplied for a deployed contract survives the revert" -/
  removeImplicitClasses : Bool
  /-- proposed repair of the legacy backend (C01): `Update` also purges system contracts whose
  storage became empty, as the new backend does -/
  legacyPurgeOnUpdate : Bool
  /-- proposed repair of the legacy backend (C04): `removeDeclaredClasses` tolerates a class hash
  that is listed twice in `DeclaredV0Classes` (a slice copied from the feeder), as the new backend does -/
  legacyDedupDeclared : Bool
  /-- blocks per aggregated bloom filter (`core.NumBlocksPerFilter` = 8192) -/
  window : Nat
deriving DecidableEq, Repr

structure Contract where
  nonce : Nat
  classHash : Nat
  deployedAt : Nat
deriving DecidableEq, Repr

structure ClassDef where
  sierra : Bool
  /-- `Compiled.Hash(HashVersionV2)` of a Sierra class (0 for Cairo 0) -/
  v2 : Nat
  /-- a Sierra class comes with a compiled class whose V2 hash can be computed (`Compiled != nil` and a bytecode
  as long as its segment lengths add up to: `compiledClassHashV2`, 302c657); `true` for Cairo 0 -/
  compiled : Bool
deriving DecidableEq, Repr

structure ClassRec where
  declaredAt : Nat
  defn : ClassDef
deriving DecidableEq, Repr

structure CasmMeta where
  declaredAt : Nat
  v2 : Nat
  /-- 0 = not migrated (`IsMigrated` is `migratedAt > 0`) -/
  migratedAt : Nat
  v1 : Option Nat
deriving DecidableEq, Repr

structure Diff where
  deployed : Map Nat Nat
  replaced : Map Nat Nat
  nonces : Map Nat Nat
  /-- `StorageDiffs`, flattened to (address, slot) -> value -/
  storage : Map (Nat × Nat) Nat
  declV0 : List Nat
  declV1 : Map Nat Nat
  migrated : Map Nat Nat
deriving DecidableEq, Repr

def Diff.empty : Diff := ⟨[], [], [], [], [], [], []⟩

/-- What a state root commits to. -/
inductive Root where
  | zero
  | contractsOnly (contracts : Map Nat (Nat × Nat)) (storage : Map (Nat × Nat) Nat)
  | full (contracts : Map Nat (Nat × Nat)) (storage : Map (Nat × Nat) Nat) (classes : Map Nat Nat)
deriving DecidableEq, Repr

structure State where
  contracts : Map Nat Contract
  /-- non-zero storage values only -/
  storage : Map (Nat × Nat) Nat
  classes : Map Nat ClassRec
  /-- class trie: Sierra class hash -> compiled class hash -/
  classTrie : Map Nat Nat
  /-- history buckets, keyed (prefix, block number) -/
  hStorage : Map ((Nat × Nat) × Nat) Nat
  hNonce : Map (Nat × Nat) Nat
  hClass : Map (Nat × Nat) Nat
deriving DecidableEq, Repr

def State.empty : State := ⟨[], [], [], [], [], [], []⟩

structure Tx where
  hash : Nat
  /-- message hash when the transaction is an L1 handler -/
  l1msg : Option Nat
deriving DecidableEq, Repr

structure Block where
  number : Nat
  hash : Nat
  parent : Nat
  /-- protocol version class: 0 = below 0.14.0, 1 = 0.14.0, 2 = 0.14.1 up to the latest supported minor,
  3 = above it (`CheckBlockVersion` refuses the block) -/
  ver : Nat
  txs : List Tx
  bloom : Nat
  payload : Nat
  diff : Diff
  /-- `newClasses` -/
  classes : Map Nat ClassDef
  oldRoot : Root
  newRoot : Root
deriving DecidableEq, Repr

structure Header where
  hash : Nat
  parent : Nat
  ver : Nat
  bloom : Nat
  payload : Nat
  root : Root
deriving DecidableEq, Repr

structure SU where
  diff : Diff
  oldRoot : Root
  newRoot : Root
deriving DecidableEq, Repr

structure Filter where
  fromBlock : Nat
  next : Nat
  blooms : Map Nat Nat
deriving DecidableEq, Repr

structure Node where
  height : Option Nat
  headers : Map Nat Header
  numByHash : Map Nat Nat
  blockTxs : Map Nat (List Tx)
  txLoc : Map Nat (Nat × Nat)
  l1msg : Map Nat Nat
  sus : Map Nat SU
  commitments : Map Nat Nat
  casm : Map Nat CasmMeta
  /-- persisted aggregated filters, by first block of the window -/
  persisted : Map Nat (Map Nat Nat)
  running : Filter
  st : State
deriving DecidableEq, Repr

def Node.init : Node :=
  { height := none, headers := [], numByHash := [], blockTxs := [], txLoc := [], l1msg := [], sus := [],
    commitments := [], casm := [], persisted := [], running := ⟨0, 0, []⟩, st := State.empty }

inductive Err where
  | version | blockNumber | parentHash | rootOld | rootNew | contractExists | contractMissing
  | classMissing | casm | checkHeadState | revRootNew | revRootOld | filterRange | noHead | notFound
deriving DecidableEq, Repr

/-! ### State root -/

def isSys (a : Nat) : Bool := a == 1 || a == 2

/-- `stateCommitment(contractRoot, classRoot, version)` over the committed content. -/
def rootOf (ver : Nat) (s : State) : Root :=
  let cs : Map Nat (Nat × Nat) := s.contracts.map (fun e => (e.1, (e.2.classHash, e.2.nonce)))
  let stor := Map.filterK s.storage (fun k => Map.has s.contracts k.1)
  if cs.isEmpty && s.classTrie.isEmpty then Root.zero
  else if s.classTrie.isEmpty && ver == 0 then Root.contractsOnly cs stor
  else Root.full cs stor s.classTrie

/-! ### History logs -/

/-- the (block, value) entries of one prefix, in ascending block order -/
def entriesOf {P : Type} [DecidableEq P] (h : Map (P × Nat) Nat) (p : P) : List (Nat × Nat) :=
  (h.filter (fun e => e.1.1 = p)).map (fun e => (e.1.2, e.2))

/-- new backend `valueAt` (`Seek (prefix, n)`; on a miss `Prev`): the entry at `n`, else the
closest entry below it -/
def valueAtNew {P : Type} [DecidableEq P] (h : Map (P × Nat) Nat) (p : P) : Nat → Option Nat
  | 0 => Map.get h (p, 0)
  | n + 1 => match Map.get h (p, n + 1) with
    | some v => some v
    | none => valueAtNew h p n

/-- legacy backend `valueAt`: the first entry strictly above `n` (the old value logged there);
`none` is `ErrCheckHeadState` -/
def valueAtOld {P : Type} [DecidableEq P] (h : Map (P × Nat) Nat) (p : P) (n : Nat) : Option Nat :=
  ((entriesOf h p).find? (fun e => n < e.1)).map (fun e => e.2)

/-! ### Applying a diff to the contract records and storage -/

/-- Read-modify-write of every key of a diff section: the key must be present and pass `bad`
(else the whole operation fails with `err`), its value becomes `g old x`. -/
def updAll {ν α : Type} (bad : ν → α → Bool) (g : ν → α → ν) (err : Err) (m : Map Nat ν) :
    List (Nat × α) → Except Err (Map Nat ν)
  | [] => .ok m
  | (k, x) :: d =>
    match Map.get m k with
    | none => .error err
    | some v => if bad v x then .error err else updAll bad g err (Map.set m k (g v x)) d

/-- `ReplacedClasses`: `getStateObject` fails for an unknown contract -/
def applyReplaced (cs : Map Nat Contract) (d : List (Nat × Nat)) : Except Err (Map Nat Contract) :=
  updAll (fun _ _ => false) (fun ct c => { ct with classHash := c }) .contractMissing cs d

/-- `Nonces` -/
def applyNonces (cs : Map Nat Contract) (d : List (Nat × Nat)) : Except Err (Map Nat Contract) :=
  updAll (fun _ _ => false) (fun ct n => { ct with nonce := n }) .contractMissing cs d

def applyDeployed (n : Nat) (cs : Map Nat Contract) : List (Nat × Nat) → Except Err (Map Nat Contract)
  | [] => .ok cs
  | (a, c) :: d =>
    match Map.get cs a with
    | some _ => .error .contractExists
    | none => applyDeployed n (Map.set cs a ⟨0, c, n⟩) d

/-- every address of a storage diff must be a contract; a missing system contract is created with
class hash 0 at block `n` -/
def touchStorage (n : Nat) (cs : Map Nat Contract) : List ((Nat × Nat) × Nat) → Except Err (Map Nat Contract)
  | [] => .ok cs
  | ((a, _), _) :: d =>
    match Map.get cs a with
    | some _ => touchStorage n cs d
    | none => if isSys a then touchStorage n (Map.set cs a ⟨0, 0, n⟩) d else .error .contractMissing

def writeStorage (st : Map (Nat × Nat) Nat) (d : List ((Nat × Nat) × Nat)) : Map (Nat × Nat) Nat :=
  d.foldl (fun m e => if e.2 = 0 then Map.del m e.1 else Map.set m e.1 e.2) st

def storageEmpty (st : Map (Nat × Nat) Nat) (a : Nat) : Bool :=
  (Map.filterK st (fun k => k.1 == a)).isEmpty

def touched (d : Diff) (a : Nat) : Bool :=
  Map.has d.deployed a || Map.has d.replaced a || Map.has d.nonces a || d.storage.any (fun e => e.1.1 == a)

/-- new backend `commit` (Update and Revert): a touched system contract whose storage is empty
is removed (trie leaf and contract record). -/
def purgeSysNew (d : Diff) (s : State) : State :=
  [1, 2].foldl (fun s a =>
    if Map.has s.contracts a && touched d a && storageEmpty s.storage a then
      { s with contracts := Map.del s.contracts a }
    else s) s

/-- legacy `purgesystemContracts` (Revert only): every system contract whose storage is empty is
removed, whether or not the reverted block created it. -/
def purgeSysLegacy (s : State) : State :=
  [1, 2].foldl (fun s a =>
    if Map.has s.contracts a && storageEmpty s.storage a then
      { s with contracts := Map.del s.contracts a }
    else s) s

/-! ### Classes -/

def registerClasses (n : Nat) (cl : Map Nat ClassRec) (defs : List (Nat × ClassDef)) : Map Nat ClassRec :=
  defs.foldl (fun m e => if Map.has m e.1 then m else Map.set m e.1 ⟨n, e.2⟩) cl

def updateClassTrie (tr : Map Nat Nat) (b : Block) : Map Nat Nat :=
  let tr1 := b.diff.declV1.foldl (fun m e => if Map.has b.classes e.1 then Map.set m e.1 e.2 else m) tr
  Map.setAll tr1 b.diff.migrated

/-- revert of the declared classes: those declared at block `n` are deleted (Sierra ones also
from the class trie); a listed class that is unknown is an error. The new backend looks every class
up on disk (`orig`: the batch's own deletions are not visible, so a hash listed twice is handled
twice, harmlessly); the legacy backend looks it up in its transaction (`s.classes`: the second
occurrence of a hash that was just deleted is "not found"). `tolerant` selects the first. -/
def removeDeclared (tolerant : Bool) (n : Nat) (orig : Map Nat ClassRec) (s : State) : List Nat → Except Err State
  | [] => .ok s
  | c :: cs =>
    match Map.get (if tolerant then orig else s.classes) c with
    | none => .error .classMissing
    | some r =>
      if r.declaredAt = n then
        removeDeclared tolerant n orig { s with classes := Map.del s.classes c,
                                                classTrie := if r.defn.sierra then Map.del s.classTrie c else s.classTrie } cs
      else removeDeclared tolerant n orig s cs

/-- does `removeDeclaredClasses` tolerate a repeated class hash? -/
def Cfg.dupTolerant (cfg : Cfg) : Bool := !cfg.legacy || cfg.legacyDedupDeclared

/-- repair `removeImplicitClasses`: classes registered at block `n` for deployed contracts -/
def removeImplicit (n : Nat) (s : State) : List Nat → State
  | [] => s
  | c :: cs =>
    match Map.get s.classes c with
    | none => removeImplicit n s cs
    | some r =>
      if r.declaredAt = n then
        removeImplicit n { s with classes := Map.del s.classes c,
                                   classTrie := if r.defn.sierra then Map.del s.classTrie c else s.classTrie } cs
      else removeImplicit n s cs

def CasmMeta.casmHash (m : CasmMeta) : Nat :=
  match m.v1 with
  | none => m.v2
  | some h => if m.migratedAt > 0 then m.v2 else h

/-- revert of the class trie leaves of migrated classes: back to the V1 hash -/
def unmigrateTrie (casm : Map Nat CasmMeta) (tr : Map Nat Nat) : List (Nat × Nat) → Except Err (Map Nat Nat)
  | [] => .ok tr
  | (c, _) :: d =>
    match Map.get casm c with
    | none => .error .casm
    | some m =>
      if m.migratedAt = 0 then .error .casm
      else unmigrateTrie casm (Map.set tr c ({ m with migratedAt := 0 }).casmHash) d

/-! ### State update and revert -/

def histKeys (n : Nat) (ks : List (Nat × Nat)) : List ((Nat × Nat) × Nat) := ks.map (fun k => (k, n))
def histKeys1 (n : Nat) (ks : List Nat) : List (Nat × Nat) := ks.map (fun a => (a, n))

/-- legacy storage write with its conditional log: a zero written to an absent slot is a no-op
of `trie.Put` and is not logged -/
def writeStorageLegacy (n : Nat) (st : Map (Nat × Nat) Nat) (h : Map ((Nat × Nat) × Nat) Nat)
    (log : Bool) : List ((Nat × Nat) × Nat) → Map (Nat × Nat) Nat × Map ((Nat × Nat) × Nat) Nat
  | [] => (st, h)
  | (k, v) :: d =>
    let old := Map.get st k
    let st' := if v = 0 then Map.del st k else Map.set st k v
    let h' := if log && !(v = 0 && old.isNone) then Map.set h (k, n) (old.getD 0) else h
    writeStorageLegacy n st' h' log d

def logOld (n : Nat) (cs : Map Nat Contract) (f : Contract → Nat) (h : Map (Nat × Nat) Nat) (ks : List Nat) :
    Map (Nat × Nat) Nat :=
  ks.foldl (fun m a => match Map.get cs a with | some ct => Map.set m (a, n) (f ct) | none => m) h

/-- `State.Update` of either backend without the two root verifications. -/
def applyUpdate (cfg : Cfg) (b : Block) (s : State) : Except Err State := do
  let n := b.number
  let classes := registerClasses n s.classes b.classes
  let classTrie := updateClassTrie s.classTrie b
  let cs0 ← applyDeployed n s.contracts b.diff.deployed
  let cs1 ← applyReplaced cs0 b.diff.replaced
  let cs2 ← applyNonces cs1 b.diff.nonces
  let cs3 ← touchStorage n cs2 b.diff.storage
  let s' : State :=
    if cfg.legacy then
      let hClass := logOld n cs0 (·.classHash) s.hClass (Map.keys b.diff.replaced)
      let hNonce := logOld n cs1 (·.nonce) s.hNonce (Map.keys b.diff.nonces)
      let (stor, hStorage) := writeStorageLegacy n s.storage s.hStorage true b.diff.storage
      let s1 : State := { contracts := cs3, storage := stor, classes := classes, classTrie := classTrie,
                          hStorage := hStorage, hNonce := hNonce, hClass := hClass }
      if cfg.legacyPurgeOnUpdate then purgeSysLegacy s1 else s1
    else
      let stor := writeStorage s.storage b.diff.storage
      let s1 : State := { s with contracts := cs3, storage := stor, classes := classes, classTrie := classTrie }
      let s2 := purgeSysNew b.diff s1
      { s2 with
        hStorage := Map.setAll s.hStorage (b.diff.storage.map (fun e => ((e.1, n), e.2))),
        hNonce := Map.setAll s.hNonce (b.diff.nonces.map (fun e => ((e.1, n), e.2))),
        -- same order as the diff is applied (904a370): deployments, then replacements
        hClass := Map.setAll (Map.setAll s.hClass (b.diff.deployed.map (fun e => ((e.1, n), e.2))))
                    (b.diff.replaced.map (fun e => ((e.1, n), e.2))) }
  return s'

/-- `State.Update`: verify the old root, apply, verify the new root. -/
def updateState (cfg : Cfg) (b : Block) (s : State) : Except Err State := do
  if rootOf b.ver s ≠ b.oldRoot then throw .rootOld
  let s' ← applyUpdate cfg b s
  if rootOf b.ver s' ≠ b.newRoot then throw .rootNew
  return s'

/-- reverse-diff entry of one storage slot -/
def revStorage (cfg : Cfg) (n : Nat) (s : State) (e : (Nat × Nat) × Nat) : Except Err ((Nat × Nat) × Nat) :=
  if n = 0 then pure (e.1, 0)
  else if cfg.legacy then
    match valueAtOld s.hStorage e.1 (n - 1) with
    | some v => pure (e.1, v)
    | none =>
      -- no log above n-1 (`ErrCheckHeadState`): since 05cf200 the head value is used
      if cfg.zeroWriteFix then pure (e.1, (Map.get s.storage e.1).getD 0)
      else throw Err.checkHeadState
  else pure (e.1, (valueAtNew s.hStorage e.1 (n - 1)).getD 0)

/-- reverse-diff entry of a nonce (`h = hNonce`) or of a replaced class (`h = hClass`) -/
def revField (cfg : Cfg) (n : Nat) (h : Map (Nat × Nat) Nat) (e : Nat × Nat) : Except Err (Nat × Nat) :=
  if n = 0 then pure (e.1, 0)
  else if cfg.legacy then
    match valueAtOld h e.1 (n - 1) with
    | some v => pure (e.1, v)
    | none => throw Err.checkHeadState
  else pure (e.1, (valueAtNew h e.1 (n - 1)).getD 0)

/-- `GetReverseStateDiff`: the values before block `n`, recovered from the history logs. -/
def reverseDiff (cfg : Cfg) (n : Nat) (d : Diff) (s : State) : Except Err Diff := do
  let stor ← d.storage.mapM (revStorage cfg n s)
  let nonces ← d.nonces.mapM (revField cfg n s.hNonce)
  let replaced ← d.replaced.mapM (revField cfg n s.hClass)
  return { Diff.empty with storage := stor, nonces := nonces, replaced := replaced }

/-- class part of `State.Revert`: `removeDeclaredClasses` and `revertMigratedCasmClasses`
(`casm` is the CASM metadata bucket as it is on disk) -/
def revertClasses (cfg : Cfg) (n : Nat) (d : Diff) (casm : Map Nat CasmMeta) (s : State) : Except Err State := do
  let s1 ← removeDeclared cfg.dupTolerant n s.classes s (d.declV0 ++ Map.keys d.declV1)
  let s1 := if cfg.removeImplicitClasses then removeImplicit n s1 (d.deployed.map (·.2)) else s1
  let tr ← unmigrateTrie casm s1.classTrie d.migrated
  return { s1 with classTrie := tr }

/-- purge of the deployed contracts (`purgeContract` fails when the contract is not there) -/
def purgeDeployed (cs : Map Nat Contract) (dep : List (Nat × Nat)) : Except Err (Map Nat Contract) :=
  dep.foldlM (fun (cs : Map Nat Contract) e =>
    match Map.get cs e.1 with
    | none => (throw Err.contractMissing : Except Err (Map Nat Contract))
    | some _ => pure (Map.del cs e.1)) cs

/-- contract part of the legacy `Revert`: apply the reverse diff without logging, delete the logs
of the block, purge the deployed contracts, purge system contracts with empty storage -/
def revertContractsLegacy (n : Nat) (d rd : Diff) (s2 : State) : Except Err State := do
  let cs1 ← applyReplaced s2.contracts rd.replaced
  let cs2 ← applyNonces cs1 rd.nonces
  let cs3 ← touchStorage n cs2 rd.storage
  let hStorage := Map.delAll s2.hStorage (histKeys n (Map.keys d.storage))
  let hNonce := Map.delAll s2.hNonce (histKeys1 n (Map.keys d.nonces))
  let hClass := Map.delAll s2.hClass (histKeys1 n (Map.keys d.replaced))
  let stor := (writeStorageLegacy n s2.storage [] false rd.storage).1
  let cs4 ← purgeDeployed cs3 d.deployed
  return purgeSysLegacy { s2 with contracts := cs4, storage := stor, hStorage := hStorage, hNonce := hNonce, hClass := hClass }

/-- contract part of the new backend's `Revert`: apply the reverse diff, delete the deployed
contracts with their storage nodes, commit (system-contract purge), delete the history entries -/
def revertContractsNew (n : Nat) (d rd : Diff) (s2 : State) : Except Err State := do
  let cs1 ← applyReplaced s2.contracts rd.replaced
  let cs2 ← applyNonces cs1 rd.nonces
  let cs3 ← touchStorage n cs2 rd.storage
  let stor := writeStorage s2.storage rd.storage
  let cs4 := Map.delAll cs3 (Map.keys d.deployed)
  let stor := Map.filterK stor (fun k => !(Map.has d.deployed k.1))
  let sA := purgeSysNew { d with deployed := [] } { s2 with contracts := cs4, storage := stor }
  return { sA with
    hStorage := Map.delAll s2.hStorage (histKeys n (Map.keys d.storage)),
    hNonce := Map.delAll (Map.delAll s2.hNonce (histKeys1 n (Map.keys d.nonces))) (histKeys1 n (Map.keys d.deployed)),
    hClass := Map.delAll (Map.delAll s2.hClass (histKeys1 n (Map.keys d.replaced))) (histKeys1 n (Map.keys d.deployed)) }

/-- `State.Revert` of either backend: verify the new root, build the reverse diff, revert
classes, contracts and logs, verify the old root. -/
def revertState (cfg : Cfg) (n ver : Nat) (su : SU) (casm : Map Nat CasmMeta) (s : State) : Except Err State := do
  if rootOf ver s ≠ su.newRoot then throw .revRootNew
  let rd ← reverseDiff cfg n su.diff s
  let s2 ← revertClasses cfg n su.diff casm s
  let s3 ← (if cfg.legacy then revertContractsLegacy n su.diff rd s2 else revertContractsNew n su.diff rd s2)
  if rootOf ver s3 ≠ su.oldRoot then throw .revRootOld
  return s3

/-! ### CASM hash metadata -/

/-- every declared Sierra class comes with its Sierra definition in `newClasses` -/
def declaredDefsOK (b : Block) : Bool :=
  b.diff.declV1.all (fun e => match Map.get b.classes e.1 with | some cd => cd.sierra | none => false)

/-- below 0.14.1 the V2 hash is computed from the compiled class of every declared class (`compiledClassHashV2`):
a class delivered without one, or with a malformed one, makes `Store` refuse the block (302c657: before it the
hash function panicked inside the batch) -/
def declaredDefsOKV1 (b : Block) : Bool :=
  b.diff.declV1.all (fun e => match Map.get b.classes e.1 with | some cd => cd.sierra && cd.compiled | none => false)

def storeCasm (n : Nat) (b : Block) (casm : Map Nat CasmMeta) : Except Err (Map Nat CasmMeta) := do
  if b.ver ≥ 2 then
    -- V2 declarations: the definition must be supplied and be a Sierra class (fecbdb1: before it a
    -- declaration without definition was stored and overwrote the metadata of a known class)
    if declaredDefsOK b then
      let c1 := Map.setAll casm (b.diff.declV1.map (fun e => (e.1, (⟨n, e.2, 0, none⟩ : CasmMeta))))
      -- `Migrate`: not declared with V2, not before/at its declaration, not migrated already
      updAll (fun (md : CasmMeta) (_ : Nat) => md.v1.isNone || decide (n ≤ md.declaredAt) || decide (md.migratedAt > 0))
        (fun md _ => { md with migratedAt := n }) Err.casm c1 b.diff.migrated
    else throw Err.casm
  else
    -- V1 declarations: the definition must be supplied, be a Sierra class and have a usable compiled class
    if declaredDefsOKV1 b then
      pure (Map.setAll casm (b.diff.declV1.map (fun e =>
        (e.1, (⟨n, ((Map.get b.classes e.1).map (·.v2)).getD 0, 0, some e.2⟩ : CasmMeta)))))
    else throw Err.casm

def revertCasm (d : Diff) (casm : Map Nat CasmMeta) : Except Err (Map Nat CasmMeta) := do
  let c1 := Map.delAll casm (Map.keys d.declV1)
  -- `Unmigrate`: fails when the class is not migrated
  updAll (fun (md : CasmMeta) (_ : Nat) => decide (md.migratedAt = 0)) (fun md _ => { md with migratedAt := 0 }) Err.casm c1 d.migrated

/-! ### Running event filter -/

def filterInsert (cfg : Cfg) (f : Filter) (persisted : Map Nat (Map Nat Nat)) (bloom n : Nat) :
    Except Err (Filter × Map Nat (Map Nat Nat)) :=
  if n < f.fromBlock || f.fromBlock + cfg.window - 1 < n then .error .filterRange
  else
    let blooms := if bloom = 0 then f.blooms else Map.set f.blooms n bloom
    if n = f.fromBlock + cfg.window - 1 then
      .ok (⟨n + 1, n + 1, []⟩, Map.set persisted f.fromBlock blooms)
    else .ok (⟨f.fromBlock, n + 1, blooms⟩, persisted)

def filterReorg (cfg : Cfg) (f : Filter) (persisted : Map Nat (Map Nat Nat)) :
    Except Err (Filter × Map Nat (Map Nat Nat)) :=
  let cur := f.next - 1
  if f.fromBlock > 0 && cur = f.fromBlock - 1 then
    -- falls into the previous window: drop the persisted copy of the current window, reopen the
    -- previous one from its persisted copy
    let p1 := Map.del persisted f.fromBlock
    let start := cur - cur % cfg.window
    match Map.get persisted start with
    | none => .error .notFound
    | some blooms =>
      let p2 := if cfg.dropReopenedWindow then Map.del p1 start else p1
      .ok (⟨start, cur, Map.del blooms cur⟩, p2)
  else if cur < f.fromBlock || f.fromBlock + cfg.window - 1 < cur then .error .filterRange
  else .ok (⟨f.fromBlock, cur, Map.del f.blooms cur⟩, persisted)

/-! ### Store and RevertHead -/

/-- `verifyBlockSuccession`: `CheckBlockVersion` first (version class 3 = a minor version above the latest
supported one, `core.LatestVer`), then the number and the parent hash against the head. -/
def checkSuccession (nd : Node) (b : Block) : Except Err Unit :=
  if b.ver ≥ 3 then .error .version
  else
    match nd.height with
    | none =>
      if b.number ≠ 0 then .error .blockNumber else if b.parent ≠ 0 then .error .parentHash else .ok ()
    | some h =>
      match Map.get nd.headers h with
      | none => .error .notFound
      | some hd =>
        if b.number ≠ h + 1 then .error .blockNumber
        else if b.parent ≠ hd.hash then .error .parentHash else .ok ()

def indexTxs (n : Nat) (loc : Map Nat (Nat × Nat)) (txs : List Tx) : Map Nat (Nat × Nat) :=
  (txs.zipIdx).foldl (fun m e => Map.set m e.1.hash (n, e.2)) loc

def indexL1 (l1 : Map Nat Nat) (txs : List Tx) : Map Nat Nat :=
  txs.foldl (fun m t => match t.l1msg with | some h => Map.set m h t.hash | none => m) l1

/-- `Store`: everything in one batch (an error leaves the node unchanged). -/
def store (cfg : Cfg) (nd : Node) (b : Block) : Except Err Node := do
  checkSuccession nd b
  let st ← updateState cfg b nd.st
  let n := b.number
  let casm ← storeCasm n b nd.casm
  let (running, persisted) ← filterInsert cfg nd.running nd.persisted b.bloom n
  return { height := some n,
           headers := Map.set nd.headers n ⟨b.hash, b.parent, b.ver, b.bloom, b.payload, b.newRoot⟩,
           numByHash := Map.set nd.numByHash b.hash n,
           blockTxs := Map.set nd.blockTxs n b.txs,
           txLoc := indexTxs n nd.txLoc b.txs,
           l1msg := indexL1 nd.l1msg b.txs,
           sus := Map.set nd.sus n ⟨b.diff, b.oldRoot, b.newRoot⟩,
           commitments := Map.set nd.commitments n b.payload,
           casm := casm, persisted := persisted, running := running, st := st }

/-- `RevertHead`. -/
def revert (cfg : Cfg) (nd : Node) : Except Err Node := do
  let n ← match nd.height with | some h => pure h | none => throw Err.noHead
  let su ← match Map.get nd.sus n with | some s => pure s | none => throw Err.notFound
  let hd ← match Map.get nd.headers n with | some h => pure h | none => throw Err.notFound
  let st ← revertState cfg n hd.ver su nd.casm nd.st
  let casm ← revertCasm su.diff nd.casm
  let txs ← match Map.get nd.blockTxs n with | some t => pure t | none => throw Err.notFound
  let (running, persisted) ← filterReorg cfg nd.running nd.persisted
  return { height := if n = 0 then none else some (n - 1),
           headers := Map.del nd.headers n,
           numByHash := Map.del nd.numByHash hd.hash,
           blockTxs := Map.del nd.blockTxs n,
           txLoc := Map.delAll nd.txLoc (txs.map (·.hash)),
           l1msg := Map.delAll nd.l1msg (txs.filterMap (·.l1msg)),
           sus := Map.del nd.sus n,
           commitments := Map.del nd.commitments n,
           casm := casm, persisted := persisted, running := running, st := st }

/-- `Finalise` as the chain generator uses it: the roots are computed, not given. -/
def withRoots (cfg : Cfg) (nd : Node) (b : Block) : Block :=
  let b1 := { b with oldRoot := rootOf b.ver nd.st }
  match applyUpdate cfg b1 nd.st with
  | .ok s => { b1 with newRoot := rootOf b.ver s }
  | .error _ => b1

end Juno.C04
