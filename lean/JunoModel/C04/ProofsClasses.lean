import JunoModel.C04.ProofsLegacy
/-!
C04 helper lemmas, part 8: declared classes and the class trie
(`putClass`/`updateClassTrie` against `removeDeclaredClasses`/`revertMigratedCasmClasses`).
-/
set_option linter.unusedSectionVars false
namespace Juno.C04
open Map

theorem registerClasses_spec (n : Nat) {defs : Map Nat ClassDef} (hd : Sorted defs) {cl : Map Nat ClassRec} (hs : Sorted cl) :
    Sorted (registerClasses n cl defs) ∧
    ∀ c, Map.get (registerClasses n cl defs) c =
      match Map.get cl c with
      | some r => some r
      | none => (Map.get defs c).map (fun d => ⟨n, d⟩) := by
  induction defs generalizing cl with
  | nil =>
    refine ⟨hs, fun c => ?_⟩
    show Map.get cl c = _
    cases Map.get cl c <;> rfl
  | cons e d ih =>
    obtain ⟨c0, d0⟩ := e
    obtain ⟨h0, hd'⟩ := hd
    have hd0 : Map.get d c0 = none := get_none_of_lt_all h0
    have hstep : registerClasses n cl ((c0, d0) :: d) =
        registerClasses n (if Map.has cl c0 = true then cl else Map.set cl c0 ⟨n, d0⟩) d := rfl
    rw [hstep]
    have hs1 : Sorted (if Map.has cl c0 = true then cl else Map.set cl c0 ⟨n, d0⟩) := by
      split
      · exact hs
      · exact sorted_set hs _ _
    obtain ⟨s', hget⟩ := ih hd' hs1
    refine ⟨s', ?_⟩
    intro c
    rw [hget c]
    by_cases hc : c = c0
    · subst hc
      cases hg : Map.get cl c with
      | some r =>
        have hh : Map.has cl c = true := by unfold Map.has; rw [hg]; rfl
        simp only [hh, if_true, hg]
      | none =>
        have hh : Map.has cl c = false := by unfold Map.has; rw [hg]; rfl
        simp only [hh, Bool.false_eq_true, if_false, get_set_self, get_cons_self, Option.map_some]
    · have : Map.get (if Map.has cl c0 = true then cl else Map.set cl c0 ⟨n, d0⟩) c = Map.get cl c := by
        split
        · rfl
        · exact get_set_ne cl _ hc
      rw [this]
      simp [Map.get, hc]

theorem declTrie_spec (defs : Map Nat ClassDef) {decl : Map Nat Nat} (hd : Sorted decl) {tr : Map Nat Nat} (hs : Sorted tr) :
    Sorted (decl.foldl (fun m e => if Map.has defs e.1 then Map.set m e.1 e.2 else m) tr) ∧
    ∀ c, Map.get (decl.foldl (fun m e => if Map.has defs e.1 then Map.set m e.1 e.2 else m) tr) c =
      match Map.get decl c with
      | some h => if Map.has defs c = true then some h else Map.get tr c
      | none => Map.get tr c := by
  induction decl generalizing tr with
  | nil => exact ⟨hs, fun c => rfl⟩
  | cons e d ih =>
    obtain ⟨c0, h0v⟩ := e
    obtain ⟨h0, hd'⟩ := hd
    have hd0 : Map.get d c0 = none := get_none_of_lt_all h0
    simp only [List.foldl_cons]
    have hs1 : Sorted (if Map.has defs c0 = true then Map.set tr c0 h0v else tr) := by
      split
      · exact sorted_set hs _ _
      · exact hs
    obtain ⟨s', hget⟩ := ih hd' hs1
    refine ⟨s', ?_⟩
    intro c
    rw [hget c]
    by_cases hc : c = c0
    · subst hc
      simp only [hd0, get_cons_self]
      split
      · simp [get_set_self]
      · rfl
    · simp only [Map.get, hc, if_false]
      have : Map.get (if Map.has defs c0 = true then Map.set tr c0 h0v else tr) c = Map.get tr c := by
        split
        · exact get_set_ne tr _ hc
        · rfl
      rw [this]

/-- `removeDeclared` on a duplicate-free list of class hashes that are all known. -/
theorem removeDeclared_spec (n : Nat) (orig : Map Nat ClassRec) {L : List Nat} (hnd : L.Nodup) {s : State}
    (hsc : Sorted s.classes) (hst : Sorted s.classTrie)
    (hknown : ∀ c ∈ L, (Map.get s.classes c).isSome = true) :
    ∃ s', removeDeclared false n orig s L = .ok s' ∧
      s'.contracts = s.contracts ∧ s'.storage = s.storage ∧ s'.hStorage = s.hStorage ∧ s'.hNonce = s.hNonce ∧
      s'.hClass = s.hClass ∧ Sorted s'.classes ∧ Sorted s'.classTrie ∧
      (∀ c, Map.get s'.classes c =
        if c ∈ L ∧ ((Map.get s.classes c).map (·.declaredAt)) = some n then none else Map.get s.classes c) ∧
      (∀ c, Map.get s'.classTrie c =
        if c ∈ L ∧ ((Map.get s.classes c).map (fun r => (r.declaredAt, r.defn.sierra))) = some (n, true) then none
        else Map.get s.classTrie c) := by
  induction L generalizing s with
  | nil => exact ⟨s, rfl, rfl, rfl, rfl, rfl, rfl, hsc, hst, fun c => by simp, fun c => by simp⟩
  | cons c0 L ih =>
    have hnd' : L.Nodup := (List.nodup_cons.1 hnd).2
    have hc0 : c0 ∉ L := (List.nodup_cons.1 hnd).1
    have hk0 := hknown c0 (List.mem_cons_self ..)
    cases hg : Map.get s.classes c0 with
    | none => rw [hg] at hk0; cases hk0
    | some r =>
      by_cases hat : r.declaredAt = n
      · -- deleted
        let s1 : State := { s with classes := Map.del s.classes c0,
                                   classTrie := if r.defn.sierra then Map.del s.classTrie c0 else s.classTrie }
        have hs1c : Sorted s1.classes := sorted_del hsc c0
        have hs1t : Sorted s1.classTrie := by
          show Sorted (if r.defn.sierra then Map.del s.classTrie c0 else s.classTrie)
          split
          · exact sorted_del hst c0
          · exact hst
        have hk1 : ∀ c ∈ L, (Map.get s1.classes c).isSome = true := by
          intro c hc
          have hne : c ≠ c0 := fun e => hc0 (e ▸ hc)
          show (Map.get (Map.del s.classes c0) c).isSome = true
          rw [get_del_ne s.classes hne]
          exact hknown c (List.mem_cons_of_mem _ hc)
        obtain ⟨s', hok, e1, e2, e3, e4, e5, e6, e7, hgc, hgt⟩ := ih hnd' hs1c hs1t hk1
        refine ⟨s', ?_, e1, e2, e3, e4, e5, e6, e7, ?_, ?_⟩
        · simp only [removeDeclared, Bool.false_eq_true, if_false, hg, hat, if_true]
          exact hok
        · intro c
          rw [hgc c]
          show (if c ∈ L ∧ ((Map.get (Map.del s.classes c0) c).map (·.declaredAt)) = some n then none
                else Map.get (Map.del s.classes c0) c) = _
          by_cases hc : c = c0
          · subst hc
            simp [hc0, get_del_self hsc, hg, hat]
          · rw [get_del_ne s.classes hc]
            simp [hc]
        · intro c
          rw [hgt c]
          show (if c ∈ L ∧ ((Map.get (Map.del s.classes c0) c).map (fun r => (r.declaredAt, r.defn.sierra))) = some (n, true) then none
                else Map.get (if r.defn.sierra then Map.del s.classTrie c0 else s.classTrie) c) = _
          by_cases hc : c = c0
          · subst hc
            simp only [hc0, false_and, if_false, List.mem_cons, true_or, true_and, hg, Option.map_some, hat]
            cases hsi : r.defn.sierra with
            | true => simp [get_del_self hst]
            | false => simp
          · rw [get_del_ne s.classes hc]
            have : Map.get (if r.defn.sierra then Map.del s.classTrie c0 else s.classTrie) c = Map.get s.classTrie c := by
              split
              · exact get_del_ne s.classTrie hc
              · rfl
            rw [this]
            simp [hc]
      · obtain ⟨s', hok, e1, e2, e3, e4, e5, e6, e7, hgc, hgt⟩ :=
          ih hnd' hsc hst (fun c hc => hknown c (List.mem_cons_of_mem _ hc))
        refine ⟨s', ?_, e1, e2, e3, e4, e5, e6, e7, ?_, ?_⟩
        · simp only [removeDeclared, Bool.false_eq_true, if_false, hg, hat]
          exact hok
        · intro c
          rw [hgc c]
          by_cases hc : c = c0
          · subst hc; simp [hc0, hg, hat]
          · simp [hc]
        · intro c
          rw [hgt c]
          by_cases hc : c = c0
          · subst hc; simp [hc0, hg, hat]
          · simp [hc]

/-- `removeDeclared` in the tolerant mode (lookups in the bucket as it was before the revert): no
duplicate-freeness needed. -/
theorem removeDeclared_spec_tol (n : Nat) (orig : Map Nat ClassRec) (L : List Nat) {s : State}
    (hsc : Sorted s.classes) (hst : Sorted s.classTrie)
    (hknown : ∀ c ∈ L, (Map.get orig c).isSome = true) :
    ∃ s', removeDeclared true n orig s L = .ok s' ∧
      s'.contracts = s.contracts ∧ s'.storage = s.storage ∧ s'.hStorage = s.hStorage ∧ s'.hNonce = s.hNonce ∧
      s'.hClass = s.hClass ∧ Sorted s'.classes ∧ Sorted s'.classTrie ∧
      (∀ c, Map.get s'.classes c =
        if c ∈ L ∧ ((Map.get orig c).map (·.declaredAt)) = some n then none else Map.get s.classes c) ∧
      (∀ c, Map.get s'.classTrie c =
        if c ∈ L ∧ ((Map.get orig c).map (fun r => (r.declaredAt, r.defn.sierra))) = some (n, true) then none
        else Map.get s.classTrie c) := by
  induction L generalizing s with
  | nil => exact ⟨s, rfl, rfl, rfl, rfl, rfl, rfl, hsc, hst, fun c => by simp, fun c => by simp⟩
  | cons c0 L ih =>
    have hk0 := hknown c0 (List.mem_cons_self ..)
    have hk' : ∀ c ∈ L, (Map.get orig c).isSome = true := fun c hc => hknown c (List.mem_cons_of_mem _ hc)
    cases hg : Map.get orig c0 with
    | none => rw [hg] at hk0; cases hk0
    | some r =>
      by_cases hat : r.declaredAt = n
      · have hs1c : Sorted (Map.del s.classes c0) := sorted_del hsc c0
        have hs1t : Sorted (if r.defn.sierra then Map.del s.classTrie c0 else s.classTrie) := by
          split
          · exact sorted_del hst c0
          · exact hst
        obtain ⟨s', hok, e1, e2, e3, e4, e5, e6, e7, hgc, hgt⟩ :=
          ih (s := { s with classes := Map.del s.classes c0,
                            classTrie := if r.defn.sierra then Map.del s.classTrie c0 else s.classTrie }) hs1c hs1t hk'
        refine ⟨s', ?_, e1, e2, e3, e4, e5, e6, e7, ?_, ?_⟩
        · simp only [removeDeclared, if_true, hg, hat]
          exact hok
        · intro c
          rw [hgc c]
          show (if c ∈ L ∧ ((Map.get orig c).map (·.declaredAt)) = some n then none
                else Map.get (Map.del s.classes c0) c) = _
          by_cases hc : c = c0
          · subst hc
            simp [hg, hat, get_del_self hsc]
          · rw [get_del_ne s.classes hc]; simp [hc]
        · intro c
          rw [hgt c]
          show (if c ∈ L ∧ ((Map.get orig c).map (fun r => (r.declaredAt, r.defn.sierra))) = some (n, true) then none
                else Map.get (if r.defn.sierra then Map.del s.classTrie c0 else s.classTrie) c) = _
          by_cases hc : c = c0
          · subst hc
            simp only [hg, Option.map_some, hat, List.mem_cons, true_or, true_and]
            cases hsi : r.defn.sierra with
            | true => simp [get_del_self hst]
            | false => simp
          · have : Map.get (if r.defn.sierra then Map.del s.classTrie c0 else s.classTrie) c = Map.get s.classTrie c := by
              split
              · exact get_del_ne s.classTrie hc
              · rfl
            rw [this]; simp [hc]
      · obtain ⟨s', hok, e1, e2, e3, e4, e5, e6, e7, hgc, hgt⟩ := ih hsc hst hk'
        refine ⟨s', ?_, e1, e2, e3, e4, e5, e6, e7, ?_, ?_⟩
        · simp only [removeDeclared, if_true, hg, hat, if_false]
          exact hok
        · intro c
          rw [hgc c]
          by_cases hc : c = c0
          · subst hc; simp [hg, hat]
          · simp [hc]
        · intro c
          rw [hgt c]
          by_cases hc : c = c0
          · subst hc; simp [hg, hat]
          · simp [hc]

/-- `unmigrateTrie` when every migrated class has metadata that says "migrated". -/
theorem unmigrateTrie_spec (casm : Map Nat CasmMeta) {mig : Map Nat Nat} (hd : Sorted mig) {tr : Map Nat Nat} (hs : Sorted tr)
    (hall : ∀ c y, Map.get mig c = some y → ∃ md, Map.get casm c = some md ∧ md.migratedAt ≠ 0) :
    ∃ tr', unmigrateTrie casm tr mig = .ok tr' ∧ Sorted tr' ∧
      ∀ c, Map.get tr' c =
        match Map.get mig c with
        | some _ => (Map.get casm c).map (fun md => ({ md with migratedAt := 0 } : CasmMeta).casmHash)
        | none => Map.get tr c := by
  induction mig generalizing tr with
  | nil => exact ⟨tr, rfl, hs, fun c => rfl⟩
  | cons e d ih =>
    obtain ⟨c0, y0⟩ := e
    obtain ⟨h0, hd'⟩ := hd
    have hd0 : Map.get d c0 = none := get_none_of_lt_all h0
    obtain ⟨md, hmd, hmig⟩ := hall c0 y0 (get_cons_self ..)
    have hall' : ∀ c y, Map.get d c = some y → ∃ md, Map.get casm c = some md ∧ md.migratedAt ≠ 0 := by
      intro c y hcy
      have hc : c ≠ c0 := by
        intro e; subst e; rw [hd0] at hcy; cases hcy
      exact hall c y (by simp [Map.get, hc, hcy])
    obtain ⟨tr', hok, hs', hget⟩ := ih hd' (sorted_set hs c0 ({ md with migratedAt := 0 } : CasmMeta).casmHash) hall'
    refine ⟨tr', ?_, hs', ?_⟩
    · simp only [unmigrateTrie, hmd, hmig, if_false]
      exact hok
    · intro c
      rw [hget c]
      by_cases hc : c = c0
      · subst hc
        simp [hd0, get_cons_self, get_set_self, hmd]
      · simp only [Map.get, hc, if_false]
        cases Map.get d c with
        | some y => rfl
        | none => simp [get_set_ne tr _ hc]

end Juno.C04
