import JunoModel.C04.ProofsNode
/-!
C04 helper lemmas, part 6: lookup characterisations ("specs") of the operations `State.Update` and
`State.Revert` are made of. Every spec has the form: if the operation succeeds on sorted inputs,
the result is sorted and its lookups are a closed formula of the inputs' lookups.
-/
set_option linter.unusedSectionVars false
namespace Juno.C04
open Map

/-! ### deployments -/

theorem applyDeployed_spec (n : Nat) {d : Map Nat Nat} (hd : Sorted d) {cs cs' : Map Nat Contract}
    (hs : Sorted cs) (h : applyDeployed n cs d = .ok cs') :
    Sorted cs' ∧
    (∀ a, Map.get cs' a = match Map.get d a with | some c => some ⟨0, c, n⟩ | none => Map.get cs a) ∧
    (∀ a c, Map.get d a = some c → Map.get cs a = none) := by
  induction d generalizing cs with
  | nil =>
    simp only [applyDeployed] at h
    cases h
    exact ⟨hs, fun a => rfl, fun a c hc => by simp [Map.get] at hc⟩
  | cons e d ih =>
    obtain ⟨a0, c0⟩ := e
    obtain ⟨h0, hd'⟩ := hd
    cases hg : Map.get cs a0 with
    | some ct => simp only [applyDeployed, hg] at h; cases h
    | none =>
      simp only [applyDeployed, hg] at h
      obtain ⟨s', hget, hall⟩ := ih hd' (sorted_set hs a0 ⟨0, c0, n⟩) h
      have hd0 : Map.get d a0 = none := get_none_of_lt_all h0
      refine ⟨s', ?_, ?_⟩
      · intro a
        rw [hget a]
        by_cases ha : a = a0
        · subst ha; simp [Map.get, hd0, get_set_self]
        · simp only [Map.get, ha, if_false]
          cases Map.get d a <;> simp [get_set_ne cs _ ha]
      · intro a c hac
        by_cases ha : a = a0
        · subst ha; exact hg
        · simp only [Map.get, ha, if_false] at hac
          have := hall a c hac
          rwa [get_set_ne cs _ ha] at this

theorem applyDeployed_succeeds (n : Nat) {d : Map Nat Nat} (hd : Sorted d) {cs : Map Nat Contract}
    (hall : ∀ a c, Map.get d a = some c → Map.get cs a = none) : ∃ cs', applyDeployed n cs d = .ok cs' := by
  induction d generalizing cs with
  | nil => exact ⟨cs, rfl⟩
  | cons e d ih =>
    obtain ⟨a0, c0⟩ := e
    obtain ⟨h0, hd'⟩ := hd
    have hg := hall a0 c0 (get_cons_self ..)
    simp only [applyDeployed, hg]
    apply ih hd'
    intro a c hac
    have ha : a ≠ a0 := by
      intro e; subst e
      rw [get_none_of_lt_all h0] at hac; cases hac
    rw [get_set_ne cs _ ha]
    exact hall a c (by simp [Map.get, ha, hac])

/-! ### storage -/

def addrsOf (sto : List ((Nat × Nat) × Nat)) : List Nat := sto.map (fun e => e.1.1)

theorem mem_addrsOf_cons (a a0 k0 v0 : Nat) (d : List ((Nat × Nat) × Nat)) :
    a ∈ addrsOf (((a0, k0), v0) :: d) ↔ a = a0 ∨ a ∈ addrsOf d := by
  simp [addrsOf]

theorem decide_mem_addrsOf_cons {a a0 : Nat} (k0 v0 : Nat) (d : List ((Nat × Nat) × Nat)) (ha : a ≠ a0) :
    decide (a ∈ addrsOf (((a0, k0), v0) :: d)) = decide (a ∈ addrsOf d) := by
  have : (a ∈ addrsOf (((a0, k0), v0) :: d)) = (a ∈ addrsOf d) := by
    apply propext
    rw [mem_addrsOf_cons]
    constructor
    · rintro (h | h)
      · exact absurd h ha
      · exact h
    · exact Or.inr
  simp only [this]

theorem touchStorage_spec (n : Nat) (sto : List ((Nat × Nat) × Nat)) {cs cs' : Map Nat Contract}
    (hs : Sorted cs) (h : touchStorage n cs sto = .ok cs') :
    Sorted cs' ∧
    (∀ a, Map.get cs' a =
      if (Map.get cs a).isNone && isSys a && decide (a ∈ addrsOf sto) then some ⟨0, 0, n⟩ else Map.get cs a) ∧
    (∀ a, a ∈ addrsOf sto → (Map.get cs a).isSome = true ∨ isSys a = true) := by
  induction sto generalizing cs with
  | nil =>
    simp only [touchStorage] at h
    cases h
    exact ⟨hs, fun a => by simp [addrsOf], fun a ha => by simp [addrsOf] at ha⟩
  | cons e d ih =>
    obtain ⟨⟨a0, k0⟩, v0⟩ := e
    cases hg : Map.get cs a0 with
    | some ct =>
      simp only [touchStorage, hg] at h
      obtain ⟨s', hget, hall⟩ := ih hs h
      refine ⟨s', ?_, ?_⟩
      · intro a
        rw [hget a]
        by_cases ha : a = a0
        · subst ha; simp [hg]
        · rw [decide_mem_addrsOf_cons k0 v0 d ha]
      · intro a ha
        simp only [addrsOf, List.map_cons, List.mem_cons] at ha
        rcases ha with ha | ha
        · subst ha; left; simp [hg]
        · exact hall a ha
    | none =>
      cases hsys : isSys a0 with
      | false => simp only [touchStorage, hg, hsys] at h; cases h
      | true =>
        simp only [touchStorage, hg, hsys, if_true] at h
        obtain ⟨s', hget, hall⟩ := ih (sorted_set hs a0 ⟨0, 0, n⟩) h
        refine ⟨s', ?_, ?_⟩
        · intro a
          rw [hget a]
          by_cases ha : a = a0
          · subst ha; simp [get_set_self, hg, hsys, addrsOf]
          · rw [get_set_ne cs _ ha, decide_mem_addrsOf_cons k0 v0 d ha]
        · intro a ha
          simp only [addrsOf, List.map_cons, List.mem_cons] at ha
          rcases ha with ha | ha
          · subst ha; right; exact hsys
          · by_cases haa : a = a0
            · subst haa; right; exact hsys
            · have := hall a ha
              rwa [get_set_ne cs _ haa] at this

theorem touchStorage_succeeds (n : Nat) (sto : List ((Nat × Nat) × Nat)) {cs : Map Nat Contract}
    (hall : ∀ a, a ∈ addrsOf sto → (Map.get cs a).isSome = true ∨ isSys a = true) :
    ∃ cs', touchStorage n cs sto = .ok cs' := by
  induction sto generalizing cs with
  | nil => exact ⟨cs, rfl⟩
  | cons e d ih =>
    obtain ⟨⟨a0, k0⟩, v0⟩ := e
    cases hg : Map.get cs a0 with
    | some ct =>
      simp only [touchStorage, hg]
      exact ih (fun a ha => hall a (by simp [addrsOf] at ha ⊢; exact Or.inr ha))
    | none =>
      have : isSys a0 = true := by
        rcases hall a0 (by simp [addrsOf]) with h1 | h1
        · simp [hg] at h1
        · exact h1
      simp only [touchStorage, hg, this, if_true]
      apply ih
      intro a ha
      by_cases haa : a = a0
      · subst haa; right; exact this
      · rw [get_set_ne cs _ haa]
        exact hall a (by simp [addrsOf] at ha ⊢; exact Or.inr ha)

theorem writeStorage_spec {st : Map (Nat × Nat) Nat} (hs : Sorted st) {sto : Map (Nat × Nat) Nat} (hd : Sorted sto) :
    Sorted (writeStorage st sto) ∧
    ∀ p, Map.get (writeStorage st sto) p =
      match Map.get sto p with
      | some v => if v = 0 then none else some v
      | none => Map.get st p := by
  induction sto generalizing st with
  | nil => exact ⟨hs, fun p => rfl⟩
  | cons e d ih =>
    obtain ⟨k0, v0⟩ := e
    obtain ⟨h0, hd'⟩ := hd
    have hstep : writeStorage st ((k0, v0) :: d) =
        writeStorage (if v0 = 0 then Map.del st k0 else Map.set st k0 v0) d := rfl
    have hs1 : Sorted (if v0 = 0 then Map.del st k0 else Map.set st k0 v0) := by
      split
      · exact sorted_del hs k0
      · exact sorted_set hs k0 v0
    obtain ⟨s', hget⟩ := ih hs1 hd'
    rw [hstep]
    refine ⟨s', ?_⟩
    intro p
    rw [hget p]
    have hd0 : Map.get d k0 = none := get_none_of_lt_all h0
    by_cases hp : p = k0
    · subst hp
      simp only [hd0, get_cons_self]
      by_cases hv : v0 = 0
      · simp [hv, get_del_self hs]
      · simp [hv, get_set_self]
    · simp only [Map.get, hp, if_false]
      cases Map.get d p with
      | some v => rfl
      | none =>
        by_cases hv : v0 = 0
        · simp [hv, get_del_ne st hp]
        · simp [hv, get_set_ne st v0 hp]

theorem isEmpty_iff {κ ν : Type} [DecidableEq κ] [KOrd κ] (m : Map κ ν) :
    m.isEmpty = true ↔ ∀ k, Map.get m k = none := by
  cases m with
  | nil => simp [Map.get]
  | cons e m =>
    obtain ⟨k, v⟩ := e
    simp only [List.isEmpty_cons, Bool.false_eq_true, false_iff]
    intro h
    have := h k
    simp [Map.get] at this

theorem storageEmpty_iff (st : Map (Nat × Nat) Nat) (a : Nat) :
    storageEmpty st a = true ↔ ∀ k, Map.get st (a, k) = none := by
  unfold storageEmpty
  rw [isEmpty_iff]
  constructor
  · intro h k
    have := h (a, k)
    rw [get_filterK] at this
    simpa using this
  · intro h p
    rw [get_filterK]
    by_cases hp : p.1 = a
    · obtain ⟨a', k⟩ := p
      simp only at hp
      subst hp
      simp [h k]
    · simp [hp]

end Juno.C04
