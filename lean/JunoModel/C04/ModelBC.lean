import JunoModel.C04.ModelChain
/-!
C04 model, part 4: the `Blockchain` instance around the state backend — what lives in the process
and not (only) in the database, and what a restart does to it.

Transcribed from (paths relative to /repo):
* `core/running_event_filter.go` `ensureInit`, `Reset`, `InitializeRunningEventFilter`,
  `fillRunningEventFilter`, `rebuildRunningEventFilter`, `Write`, and the snapshot deletion at the top of
  `onReorg` (`pruner.InitializeRunningEventFilter`, the default of `blockchain.New` since 56f2a2e, is the
  same function on a database that was never pruned: floor 0),
* `blockchain/statebackend/types.go` `resetFilterOnError`,
* `blockchain/blockchain.go` `New` (empty cache, lazy filter), `RevertHead` (cache reset after a successful
  revert), `WriteRunningEventFilter`,
* `blockchain/aggregated_bloom_filter_cache.go` `NewMatchedBlockIterator`, `loadNextWindow`: which filter
  serves which window of an event query (running filter, cache, database with cache fill).

`Node` (Model.lean) is the database plus the running filter AS IF it were always initialised; `BC` adds
`hot` (is the lazy filter initialised), the snapshot bucket `db.RunningEventFilter`, and the LRU cache
of persisted windows. The cache is modelled without its capacity (16 windows = 131072 blocks); an
explicit `evict` operation stands for any eviction policy.
-/
namespace Juno.C04

abbrev Windows := Map Nat (Map Nat Nat)

/-- `fillRunningEventFilter(from = m, latest = m + k - 1)`: insert the header blooms of `k` blocks
starting at `m`; `Insert` persists a window that fills up directly in the database. -/
def fillFilter (cfg : Cfg) (headers : Map Nat Header) : Nat → Nat → Filter × Windows → Except Err (Filter × Windows)
  | 0, _, fp => .ok fp
  | k + 1, m, fp =>
    match Map.get headers m with
    | none => .error .notFound
    | some h =>
      match filterInsert cfg fp.1 fp.2 h.bloom m with
      | .ok fp' => fillFilter cfg headers k (m + 1) fp'
      | .error e => .error e

/-- the walk back of `rebuildRunningEventFilter` from window index `i` (`rangeStartAligned = i * w`):
the first block after the most recent persisted window at or below it, 0 when there is none -/
def continueFrom (w : Nat) (p : Windows) : Nat → Nat
  | 0 => if Map.has p 0 then w else 0
  | i + 1 => if Map.has p ((i + 1) * w) then (i + 2) * w else continueFrom w p i

/-- `rebuildRunningEventFilter(database, latest)` -/
def rebuildFilter (cfg : Cfg) (headers : Map Nat Header) (p : Windows) (latest : Nat) : Except Err (Filter × Windows) :=
  let c := continueFrom cfg.window p (latest / cfg.window)
  fillFilter cfg headers (latest + 1 - c) c (⟨c, c, []⟩, p)

/-- `InitializeRunningEventFilter`: from the chain height, the snapshot (if any), the persisted
windows and the header blooms. Returns the filter and the persisted windows (a fill that completes a
window writes it). -/
def initFilter (cfg : Cfg) (nd : Node) (snap : Option Filter) : Except Err (Filter × Windows) :=
  match nd.height with
  | none => .ok (⟨0, 0, []⟩, nd.persisted)
  | some latest =>
    match snap with
    | some s =>
      -- caught up: the snapshot as it is
      if s.next = latest + 1 then .ok (s, nd.persisted)
      -- same-window gap: resume the snapshot and fill in place
      else if s.next ≤ latest ∧ latest ≤ s.fromBlock + cfg.window - 1 then
        fillFilter cfg nd.headers (latest + 1 - s.next) s.next (s, nd.persisted)
      else rebuildFilter cfg nd.headers nd.persisted latest
    | none => rebuildFilter cfg nd.headers nd.persisted latest

/-- One `Blockchain` instance on its database. -/
structure BC where
  /-- the database; `nd.running` is the in-memory running filter, meaningful only when `hot` -/
  nd : Node
  /-- has `ensureInit` run since the instance was created / since the last `Reset` -/
  hot : Bool
  /-- bucket `db.RunningEventFilter` (written by `WriteRunningEventFilter`, deleted by `onReorg`) -/
  snapshot : Option Filter
  /-- `Blockchain.cachedFilters`: window start -> the persisted window as it was loaded -/
  cache : Windows
deriving DecidableEq, Repr

def BC.init : BC := { nd := Node.init, hot := false, snapshot := none, cache := [] }

def coldFilter : Filter := ⟨0, 0, []⟩

/-- `RunningEventFilter.Reset` (the instance of `blockchain.New` is always lazy) -/
def BC.reset (bc : BC) : BC := { bc with hot := false, nd := { bc.nd with running := coldFilter } }

/-- `ensureInit` -/
def ensureHot (cfg : Cfg) (bc : BC) : Except Err BC :=
  if bc.hot then .ok bc
  else
    match initFilter cfg bc.nd bc.snapshot with
    | .ok fp => .ok { bc with nd := { bc.nd with running := fp.1, persisted := fp.2 }, hot := true }
    | .error e => .error e

/-- everything `Store` does before it touches the running filter -/
def storePre (cfg : Cfg) (nd : Node) (b : Block) : Except Err Unit :=
  match checkSuccession nd b with
  | .error e => .error e
  | .ok _ =>
    match updateState cfg b nd.st with
    | .error e => .error e
    | .ok _ =>
      match storeCasm b.number b nd.casm with
      | .error e => .error e
      | .ok _ => .ok ()

/-- everything `RevertHead` does before it touches the running filter -/
def revertPre (cfg : Cfg) (nd : Node) : Except Err Unit :=
  match nd.height with
  | none => .error .noHead
  | some n =>
    match Map.get nd.sus n with
    | none => .error .notFound
    | some su =>
      match Map.get nd.headers n with
      | none => .error .notFound
      | some hd =>
        match revertState cfg n hd.ver su nd.casm nd.st with
        | .error e => .error e
        | .ok _ =>
          match revertCasm su.diff nd.casm with
          | .error e => .error e
          | .ok _ =>
            match Map.get nd.blockTxs n with
            | none => .error .notFound
            | some _ => .ok ()

/-- `Blockchain.Store`: the filter is initialised (from the database as it is BEFORE the batch) when
`InsertWithBatch` is reached; any error resets it (`resetFilterOnError`). -/
def BC.store (cfg : Cfg) (bc : BC) (b : Block) : BC × Except Err Unit :=
  match storePre cfg bc.nd b with
  | .error e => (bc.reset, .error e)
  | .ok _ =>
    match ensureHot cfg bc with
    | .error e => (bc.reset, .error e)
    | .ok bc1 =>
      match Juno.C04.store cfg bc1.nd b with
      | .error e => (bc1.reset, .error e)
      | .ok nd' => ({ bc1 with nd := nd' }, .ok ())

/-- `Blockchain.RevertHead`: `OnReorgWithBatch` initialises the filter if needed, deletes the snapshot
in the batch; after a SUCCESSFUL revert the window cache is emptied. -/
def BC.revert (cfg : Cfg) (bc : BC) : BC × Except Err Unit :=
  match revertPre cfg bc.nd with
  | .error e => (bc.reset, .error e)
  | .ok _ =>
    match ensureHot cfg bc with
    | .error e => (bc.reset, .error e)
    | .ok bc1 =>
      match Juno.C04.revert cfg bc1.nd with
      | .error e => (bc1.reset, .error e)
      | .ok nd' => ({ bc1 with nd := nd', snapshot := none, cache := [] }, .ok ())

/-- `WriteRunningEventFilter` (graceful shutdown) -/
def BC.shutdown (cfg : Cfg) (bc : BC) : BC × Except Err Unit :=
  match ensureHot cfg bc with
  | .error e => (bc, .error e)
  | .ok bc1 => ({ bc1 with snapshot := some bc1.nd.running }, .ok ())

/-- the process ends and `blockchain.New` is called on the same database -/
def BC.kill (bc : BC) : BC := { bc.reset with cache := [] }

def BC.evict (bc : BC) (s : Nat) : BC := { bc with cache := Map.del bc.cache s }

/-- `loadNextWindow` for the window starting at `s`: the running filter's own window, else the
cache, else the database (and then the cache is filled). -/
def loadWindow (bc : BC) (s : Nat) : Except Err (Map Nat Nat × Windows) :=
  if s = bc.nd.running.fromBlock then .ok (bc.nd.running.blooms, bc.cache)
  else
    match Map.get bc.cache s with
    | some bl => .ok (bl, bc.cache)
    | none =>
      match Map.get bc.nd.persisted s with
      | some bl => .ok (bl, Map.set bc.cache s bl)
      | none => .error .notFound

/-- `k` windows from the one starting at `s`; the blocks with a non-empty column in [lo, hi] -/
def scanWindows (cfg : Cfg) (lo hi : Nat) : Nat → Nat → BC → Except Err (List (Nat × Nat) × BC)
  | 0, _, bc => .ok ([], bc)
  | k + 1, s, bc =>
    match loadWindow bc s with
    | .error e => .error e
    | .ok (bl, cache') =>
      match scanWindows cfg lo hi k (s + cfg.window) { bc with cache := cache' } with
      | .error e => .error e
      | .ok (rest, bc') => .ok (Map.filterK bl (fun m => decide (lo ≤ m) && decide (m ≤ hi)) ++ rest, bc')

/-- The candidate blocks of an event query over [lo, hi] (`hi` at most the head): (block, bloom) of
every block whose column in the aggregated filter that serves its window is not empty. The key test
on the bloom and the event matching are C09's. -/
def BC.query (cfg : Cfg) (bc : BC) (lo hi : Nat) : Except Err (List (Nat × Nat) × BC) :=
  if hi < lo then .ok ([], bc)
  else
    match ensureHot cfg bc with
    | .error e => .error e
    | .ok bc1 => scanWindows cfg lo hi (hi / cfg.window - lo / cfg.window + 1) (lo - lo % cfg.window) bc1

/-- Operations of a process on its database. -/
inductive BCOp where
  | store (b : Block)
  | revert
  | query (lo hi : Nat)
  | shutdown
  | kill
  | evict (s : Nat)

def BC.step (cfg : Cfg) (bc : BC) : BCOp → BC
  | .store b => (BC.store cfg bc b).1
  | .revert => (BC.revert cfg bc).1
  | .query lo hi => match BC.query cfg bc lo hi with | .ok r => r.2 | .error _ => bc
  | .shutdown => (BC.shutdown cfg bc).1
  | .kill => bc.kill
  | .evict s => bc.evict s

def BC.run (cfg : Cfg) (bc : BC) (ops : List BCOp) : BC := ops.foldl (BC.step cfg) bc

end Juno.C04
