import JunoModel.C04.Model
/-!
C04 model, part 3: chains of blocks, sequences of reverts, and the small helpers the property statements use. Core Lean only.
-/
namespace Juno.C04

/-- Store a list of blocks one after the other (stops at the first rejected block). -/
def storeAll (cfg : Cfg) (nd : Node) : List Block → Except Err Node
  | [] => .ok nd
  | b :: bs => match store cfg nd b with | .ok nd' => storeAll cfg nd' bs | .error e => .error e

/-- Revert the head `k` times. -/
def revertN (cfg : Cfg) (nd : Node) : Nat → Except Err Node
  | 0 => .ok nd
  | k + 1 => match revertN cfg nd k with | .ok nd' => revert cfg nd' | .error e => .error e

/-- Store a block whose roots are computed the way `Finalise` does (how valid blocks are made). -/
def fstore (cfg : Cfg) (nd : Node) (b : Block) : Except Err Node := store cfg nd (withRoots cfg nd b)

def fstoreAll (cfg : Cfg) (nd : Node) : List Block → Except Err Node
  | [] => .ok nd
  | b :: bs => match fstore cfg nd b with | .ok nd' => fstoreAll cfg nd' bs | .error e => .error e

def thenRevert (cfg : Cfg) (r : Except Err Node) : Except Err Node :=
  match r with | .ok nd => revert cfg nd | .error e => .error e

def failsWith {α : Type} (r : Except Err α) (e : Err) : Bool :=
  match r with | .error e' => e' == e | .ok _ => false

def sameNode (a b : Except Err Node) : Bool :=
  match a, b with | .ok x, .ok y => x == y | _, _ => false

end Juno.C04
