import JunoModel.C04.Model
/-!
C04 model, part 3: chains of blocks, sequences of reverts, and the small helpers the property statements use. Core Lean only.
-/
namespace Juno.C04

/-- Store a list of blocks one after the other (stops at the first rejected block). -/
def storeAll (cfg : Cfg) (nd : Node) : List Block → Except Err Node
  | [] => .ok nd
  | b :: bs => match store cfg nd b with | .ok nd' => storeAll cfg nd' bs | .error e => .error e

/-- Revert the head `k` times. -/
def revertN (cfg : Cfg) (nd : Node) : Nat → Except Err Node
  | 0 => .ok nd
  | k + 1 => match revertN cfg nd k with | .ok nd' => revert cfg nd' | .error e => .error e

/-- Store a block whose roots are computed the way `Finalise` does (how valid blocks are made). -/
def fstore (cfg : Cfg) (nd : Node) (b : Block) : Except Err Node := store cfg nd (withRoots cfg nd b)

def fstoreAll (cfg : Cfg) (nd : Node) : List Block → Except Err Node
  | [] => .ok nd
  | b :: bs => match fstore cfg nd b with | .ok nd' => fstoreAll cfg nd' bs | .error e => .error e

def thenRevert (cfg : Cfg) (r : Except Err Node) : Except Err Node :=
  match r with | .ok nd => revert cfg nd | .error e => .error e

def failsWith {α : Type} (r : Except Err α) (e : Err) : Bool :=
  match r with | .error e' => e' == e | .ok _ => false

def sameNode (a b : Except Err Node) : Bool :=
  match a, b with | .ok x, .ok y => x == y | _, _ => false

/-! ### Closed form of a long chain of empty blocks (the harness' base image)

Storing 8000+ blocks one by one on sorted association lists is quadratic; the chains that reach the
event-filter window boundary start from `bulkNode`, the node after `hs.length` blocks without
transactions, events or state changes. `Props.lean` has the instance `storeAll … = bulkNode …` for a
chain that closes a window; the harness compares every bucket family of the real database with it. -/

def plainBlock (v n h p : Nat) : Block :=
  { number := n, hash := h, parent := p, ver := v, txs := [], bloom := 0, payload := 0, diff := Diff.empty, classes := [],
    oldRoot := Root.zero, newRoot := Root.zero }

/-- blocks `n, n+1, …` with the given hashes, each on top of the previous one -/
def plainChain (v : Nat) : Nat → Nat → List Nat → List Block
  | _, _, [] => []
  | n, p, h :: hs => plainBlock v n h p :: plainChain v (n + 1) h hs

/-- header of block `i` of the plain chain with hashes `hs` (its parent is element `i` of `0 :: hs`) -/
def plainHeader (v : Nat) (hs : List Nat) (i : Nat) : Header :=
  ⟨hs.getD i 0, (0 :: hs).getD i 0, v, 0, 0, Root.zero⟩

def bulkNode (cfg : Cfg) (v : Nat) (hs : List Nat) : Node :=
  let n := hs.length
  let idx := List.range n
  { height := if n = 0 then none else some (n - 1),
    headers := idx.map (fun i => (i, plainHeader v hs i)),
    numByHash := Map.setAll [] hs.zipIdx,
    blockTxs := idx.map (fun i => (i, [])),
    txLoc := [], l1msg := [],
    sus := idx.map (fun i => (i, (⟨Diff.empty, Root.zero, Root.zero⟩ : SU))),
    commitments := idx.map (fun i => (i, 0)),
    casm := [],
    persisted := (List.range (n / cfg.window)).map (fun k => (k * cfg.window, [])),
    running := ⟨n - n % cfg.window, n, []⟩,
    st := State.empty }

end Juno.C04
