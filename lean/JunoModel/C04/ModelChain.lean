import JunoModel.C04.Model
/-!
C04 model, part 3: chains of blocks, sequences of reverts, the Reader queries (`answer`) and the
small helpers the property statements use. Core Lean only.
-/
namespace Juno.C04

/-- Store a list of blocks one after the other (stops at the first rejected block). -/
def storeAll (cfg : Cfg) (nd : Node) : List Block → Except Err Node
  | [] => .ok nd
  | b :: bs => match store cfg nd b with | .ok nd' => storeAll cfg nd' bs | .error e => .error e

/-- Revert the head `k` times. -/
def revertN (cfg : Cfg) (nd : Node) : Nat → Except Err Node
  | 0 => .ok nd
  | k + 1 => match revertN cfg nd k with | .ok nd' => revert cfg nd' | .error e => .error e

/-- Store a block whose roots are computed the way `Finalise` does (how valid blocks are made). -/
def fstore (cfg : Cfg) (nd : Node) (b : Block) : Except Err Node := store cfg nd (withRoots cfg nd b)

def fstoreAll (cfg : Cfg) (nd : Node) : List Block → Except Err Node
  | [] => .ok nd
  | b :: bs => match fstore cfg nd b with | .ok nd' => fstoreAll cfg nd' bs | .error e => .error e

def thenRevert (cfg : Cfg) (r : Except Err Node) : Except Err Node :=
  match r with | .ok nd => revert cfg nd | .error e => .error e

def failsWith {α : Type} (r : Except Err α) (e : Err) : Bool :=
  match r with | .error e' => e' == e | .ok _ => false

def sameNode (a b : Except Err Node) : Bool :=
  match a, b with | .ok x, .ok y => x == y | _, _ => false

/-- The Reader API over the model (`blockchain.Reader` and `core.StateReader`): every query is a
lookup in one bucket family, historical state reads go through the history logs. -/
inductive Query where
  | height
  | headerByNumber (n : Nat)
  | numberByHash (h : Nat)
  | txsByNumber (n : Nat)
  | txByHash (h : Nat)
  | l1HandlerTxnHash (msg : Nat)
  | stateUpdateByNumber (n : Nat)
  | commitmentsByNumber (n : Nat)
  | compiledClassHash (c : Nat)
  | persistedFilter (start : Nat)
  | runningFilter
  | headContract (a : Nat)
  | headStorage (a k : Nat)
  | classDefinition (c : Nat)
  | classTrieLeaf (c : Nat)
  | storageLog (a k n : Nat)
  | nonceLog (a n : Nat)
  | classHashLog (a n : Nat)
  | stateRoot (ver : Nat)

inductive Answer where
  | height (h : Option Nat)
  | header (h : Option Header)
  | number (n : Option Nat)
  | txs (t : Option (List Tx))
  | loc (l : Option (Nat × Nat))
  | su (s : Option SU)
  | casm (m : Option CasmMeta)
  | blooms (b : Option (Map Nat Nat))
  | filter (f : Filter)
  | contract (c : Option Contract)
  | cls (c : Option ClassRec)
  | root (r : Root)
deriving DecidableEq

def answer (nd : Node) : Query → Answer
  | .height => .height nd.height
  | .headerByNumber n => .header (Map.get nd.headers n)
  | .numberByHash h => .number (Map.get nd.numByHash h)
  | .txsByNumber n => .txs (Map.get nd.blockTxs n)
  | .txByHash h => .loc (Map.get nd.txLoc h)
  | .l1HandlerTxnHash m => .number (Map.get nd.l1msg m)
  | .stateUpdateByNumber n => .su (Map.get nd.sus n)
  | .commitmentsByNumber n => .number (Map.get nd.commitments n)
  | .compiledClassHash c => .casm (Map.get nd.casm c)
  | .persistedFilter s => .blooms (Map.get nd.persisted s)
  | .runningFilter => .filter nd.running
  | .headContract a => .contract (Map.get nd.st.contracts a)
  | .headStorage a k => .number (Map.get nd.st.storage (a, k))
  | .classDefinition c => .cls (Map.get nd.st.classes c)
  | .classTrieLeaf c => .number (Map.get nd.st.classTrie c)
  | .storageLog a k n => .number (Map.get nd.st.hStorage ((a, k), n))
  | .nonceLog a n => .number (Map.get nd.st.hNonce (a, n))
  | .classHashLog a n => .number (Map.get nd.st.hClass (a, n))
  | .stateRoot ver => .root (rootOf ver nd.st)

end Juno.C04
