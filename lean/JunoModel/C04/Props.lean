import JunoModel.C04.ProofsInv
/-!
C04 — reverting the head exactly undoes a block; forks converge.

Property theorems over the model of `JunoModel/C04/Model.lean` (statements only; the proofs are in
`Proofs*.lean`). The node is a record of every bucket family of the database plus the in-memory
running event filter, kept canonical, so `revert cfg nd' = .ok nd` says: RevertHead succeeds AND the
whole database content and filter state are those of the node that never stored the block. Every
Reader query (`answer`) is a function of that record.

What is proved, and for which code:
* `revert_store_id`, `revert_total`, `fork_converges`: the LEGACY backend as found in /repo
  (`Cfg.isLegacyAsFound`), for all nodes, blocks and fork depths, under `StepOK` — the invariants of
  the node before the block plus the protocol facts juno does not check itself — with two cases
  excluded because the code as found really fails on them (witnesses below):
  a system contract with empty storage (`LegacyOK.noEmptySys`) and a block that closes an 8192-block
  filter window (`StepOK.window`).
* `revert_store_id_partial`: any backend/repair setting, all bucket families outside the state
  (headers, hash and transaction lookups, L1 messages, state updates, commitments, CASM metadata,
  filter windows) are restored exactly, GIVEN that `State.Revert` undoes `State.Update`; that
  premise is proved for the legacy backend only (the new backend's `State.Revert` is modelled and
  compared with the code by the harness, its inverse theorem is not yet proved).
* proved negations with concrete witnesses for every defect found in /repo.
-/
namespace Juno.C04.Props
open Juno.C04 Juno.C04.Map

/-- `RevertHead` after `Store` gives back the node exactly (legacy backend): it succeeds, and every
bucket family and the running filter equal those of the node that never stored the block. -/
theorem revert_store_id (cfg : Cfg) (hc : cfg.isLegacyAsFound) (nd nd' : Node) (b : Block)
    (ok : StepOK cfg nd b) (h : store cfg nd b = .ok nd') : revert cfg nd' = .ok nd :=
  revert_store_legacy hc ok h

/-- The same in the property's words: the revert succeeds and every Reader query is answered as
on the node that never stored the block. -/
theorem revert_store_observations (cfg : Cfg) (hc : cfg.isLegacyAsFound) (nd nd' : Node) (b : Block)
    (ok : StepOK cfg nd b) (h : store cfg nd b = .ok nd') :
    ∃ nd'', revert cfg nd' = .ok nd'' ∧ ∀ q, answer nd'' q = answer nd q :=
  ⟨nd, revert_store_legacy hc ok h, fun _ => rfl⟩

/-- `RevertHead` succeeds on every node produced by `Store`. -/
theorem revert_total (cfg : Cfg) (hc : cfg.isLegacyAsFound) (nd nd' : Node) (b : Block)
    (ok : StepOK cfg nd b) (h : store cfg nd b = .ok nd') : ∃ nd'', revert cfg nd' = .ok nd'' :=
  ⟨nd, revert_store_legacy hc ok h⟩

/-- Forks converge, for every fork depth: a node that followed fork A from `nd` and reverted it is
`nd` again, so following fork B afterwards is following B directly. `ChainOK` asks `StepOK` of every
intermediate node of fork A (that the invariants in it are maintained by `store` is checked on the
real code by the harness, not proved: hence the name). -/
theorem fork_converges_partial (cfg : Cfg) (hc : cfg.isLegacyAsFound) (nd ndA : Node) (forkA forkB : List Block)
    (ok : ChainOK cfg nd forkA) (hA : storeAll cfg nd forkA = .ok ndA) :
    revertN cfg ndA forkA.length = .ok nd ∧
    (match revertN cfg ndA forkA.length with
     | .ok n => storeAll cfg n forkB
     | .error e => .error e) = storeAll cfg nd forkB := by
  have h := revertN_storeAll hc forkA ok hA
  exact ⟨h, by rw [h]⟩

/-- Every bucket family outside the state is restored exactly by `RevertHead`, for either backend
and any repair setting, given that `State.Revert` undoes `State.Update` on this block. -/
theorem revert_store_id_partial (cfg : Cfg) (nd nd' : Node) (b : Block)
    (wf : IndexWF nd) (fr : Fresh nd b) (hcasm : CasmOK nd.casm b)
    (hfil : FilterOK cfg nd.running nd.persisted b.number)
    (hwin : cfg.dropReopenedWindow = true ∨ b.number ≠ nd.running.fromBlock + cfg.window - 1)
    (hst : ∀ casm', storeCasm b.number b nd.casm = .ok casm' → StateInverse cfg nd.st b casm')
    (h : store cfg nd b = .ok nd') : revert cfg nd' = .ok nd :=
  revert_store_of_parts cfg wf fr hst hcasm hfil hwin h

/-- `Store` maintains the invariant of the per-block buckets (`IndexWF`, one of the hypotheses of
`StepOK`), and the empty node satisfies it: for these bucket families the hypothesis holds on every
node reachable from the empty one. -/
theorem store_preserves_index_invariant (cfg : Cfg) (nd nd' : Node) (b : Block) (wf : IndexWF nd)
    (h : store cfg nd b = .ok nd') : IndexWF nd' ∧ nd'.nextNumber = nd.nextNumber + 1 :=
  store_preserves_IndexWF wf h

theorem empty_node_index_invariant : IndexWF Node.init := init_IndexWF

/-! ### Witnesses: where the full-strength statement is false of the code as found

Full-strength statement (kept for the record):
  `∀ cfg nd b nd', Reachable nd → store cfg nd b = .ok nd' → revert cfg nd' = .ok nd`.
It fails in the cases below; each is replayed on the real code by the harness (directed scenarios
of the same names in `harness/cmd/c04/main.go`). -/

def legacyCfg : Cfg :=
  { legacy := true, zeroWriteFix := true, dropReopenedWindow := false, removeImplicitClasses := false,
    legacyPurgeOnUpdate := false, window := 4 }
def newCfg : Cfg := { legacyCfg with legacy := false }

def blk (n h p : Nat) (d : Diff) : Block :=
  { number := n, hash := h, parent := p, ver := 1, txs := [], bloom := 0, payload := 0, diff := d, classes := [],
    oldRoot := .zero, newRoot := .zero }
def sto (a k v : Nat) : Diff := { Diff.empty with storage := [((a, k), v)] }

/-- Legacy backend: once a system contract that was written has empty storage, reverting ANY later
block fails (`purgesystemContracts` removes the contract, the old root no longer matches). -/
theorem revert_total_legacy_counterexample :
    failsWith (thenRevert legacyCfg (fstoreAll legacyCfg Node.init
      [blk 0 10 0 (sto 1 7 5), blk 1 11 10 Diff.empty, blk 2 12 11 (sto 1 7 0), blk 3 13 12 Diff.empty])) .revRootOld = true := by
  decide

/-- Before commit 05cf200 (`zeroWriteFix = false`): a zero written to a never-written slot is not
logged and the reverse diff cannot be built. With the fix the same history reverts exactly. -/
theorem zero_write_revert_failed_before_05cf200 :
    failsWith (thenRevert { legacyCfg with zeroWriteFix := false } (fstoreAll legacyCfg Node.init
      [blk 0 10 0 { Diff.empty with deployed := [(0x104, 0xc0)], storage := [((0x104, 1), 7)] },
       blk 1 11 10 { Diff.empty with storage := [((0x104, 1), 8), ((0x104, 2), 0)] }])) .checkHeadState = true ∧
    sameNode (thenRevert legacyCfg (fstoreAll legacyCfg Node.init
      [blk 0 10 0 { Diff.empty with deployed := [(0x104, 0xc0)], storage := [((0x104, 1), 7)] },
       blk 1 11 10 { Diff.empty with storage := [((0x104, 1), 8), ((0x104, 2), 0)] }]))
      (fstoreAll legacyCfg Node.init
      [blk 0 10 0 { Diff.empty with deployed := [(0x104, 0xc0)], storage := [((0x104, 1), 7)] }]) = true := by
  decide

/-- New backend: reverting the block that emptied a system contract gives a node that differs from
the one that never stored it (the re-created record has another deployment height). -/
theorem newstate_system_contract_height_counterexample :
    sameNode (thenRevert newCfg (fstoreAll newCfg Node.init [blk 0 10 0 (sto 1 7 5), blk 1 11 10 (sto 1 7 0)]))
      (fstoreAll newCfg Node.init [blk 0 10 0 (sto 1 7 5)]) = false ∧
    sameNode (thenRevert newCfg (fstoreAll newCfg Node.init [blk 0 10 0 (sto 1 7 5), blk 1 11 10 (sto 1 7 3)]))
      (fstoreAll newCfg Node.init [blk 0 10 0 (sto 1 7 5)]) = true := by
  decide

/-- Both backends: reverting the block that closed a filter window (here 4 blocks wide) leaves
the persisted copy of the reopened window behind; with the repair the node is restored exactly. -/
theorem reopened_window_counterexample :
    sameNode (thenRevert legacyCfg (fstoreAll legacyCfg Node.init
        [blk 0 10 0 Diff.empty, blk 1 11 10 Diff.empty, blk 2 12 11 Diff.empty, blk 3 13 12 Diff.empty]))
      (fstoreAll legacyCfg Node.init [blk 0 10 0 Diff.empty, blk 1 11 10 Diff.empty, blk 2 12 11 Diff.empty]) = false ∧
    sameNode (thenRevert { legacyCfg with dropReopenedWindow := true } (fstoreAll legacyCfg Node.init
        [blk 0 10 0 Diff.empty, blk 1 11 10 Diff.empty, blk 2 12 11 Diff.empty, blk 3 13 12 Diff.empty]))
      (fstoreAll legacyCfg Node.init [blk 0 10 0 Diff.empty, blk 1 11 10 Diff.empty, blk 2 12 11 Diff.empty]) = true := by
  decide

/-- Both backends: a class definition supplied for a deployed contract (not in the declared
lists) is registered by `Update` and survives the revert; with the repair it does not. -/
theorem implicit_class_survives_revert :
    sameNode (thenRevert legacyCfg (fstoreAll legacyCfg Node.init
        [blk 0 10 0 Diff.empty,
         { blk 1 11 10 { Diff.empty with deployed := [(0x105, 0xc5)] } with classes := [(0xc5, ⟨false, 0⟩)] }]))
      (fstoreAll legacyCfg Node.init [blk 0 10 0 Diff.empty]) = false ∧
    sameNode (thenRevert { legacyCfg with removeImplicitClasses := true } (fstoreAll legacyCfg Node.init
        [blk 0 10 0 Diff.empty,
         { blk 1 11 10 { Diff.empty with deployed := [(0x105, 0xc5)] } with classes := [(0xc5, ⟨false, 0⟩)] }]))
      (fstoreAll legacyCfg Node.init [blk 0 10 0 Diff.empty]) = true := by
  decide

/-- The freshness hypothesis is needed: a transaction hash that is already indexed (juno does not
check) loses its lookup entry when the later block is reverted. -/
theorem fresh_tx_hash_needed :
    sameNode (thenRevert legacyCfg (fstoreAll legacyCfg Node.init
        [{ blk 0 10 0 Diff.empty with txs := [⟨0x77, none⟩] }, { blk 1 11 10 Diff.empty with txs := [⟨0x77, none⟩] }]))
      (fstoreAll legacyCfg Node.init [{ blk 0 10 0 Diff.empty with txs := [⟨0x77, none⟩] }]) = false := by
  decide

/-! ### Non-vacuity -/

-- a block with a deployment, a storage write to the deployed contract and a nonce is stored, and
-- reverted exactly, on both backends of the model
example : sameNode (thenRevert legacyCfg (fstoreAll legacyCfg Node.init
    [blk 0 10 0 Diff.empty, blk 1 11 10 { Diff.empty with deployed := [(0x104, 0xc0)], storage := [((0x104, 1), 7), ((1, 2), 3)], nonces := [(0x104, 1)] }]))
    (fstoreAll legacyCfg Node.init [blk 0 10 0 Diff.empty]) = true := by decide
example : sameNode (thenRevert newCfg (fstoreAll newCfg Node.init
    [blk 0 10 0 Diff.empty, blk 1 11 10 { Diff.empty with deployed := [(0x104, 0xc0)], storage := [((0x104, 1), 7), ((1, 2), 3)], nonces := [(0x104, 1)] }]))
    (fstoreAll newCfg Node.init [blk 0 10 0 Diff.empty]) = true := by decide

-- the hypotheses of the one-step theorem are satisfiable: the empty node and a block with a
-- deployment and a storage write (and that block is stored)
def b0 : Block := blk 0 10 0 { Diff.empty with deployed := [(0x104, 0xc0)], storage := [((0x104, 1), 7)] }

example : StepOK legacyCfg Node.init b0 where
  index := ⟨trivial, trivial, trivial, trivial, trivial, trivial, trivial, fun m _ => ⟨rfl, rfl, rfl, rfl⟩⟩
  fresh := ⟨rfl, fun t ht => by simp [b0, blk] at ht, fun t ht => by simp [b0, blk] at ht⟩
  casm := ⟨trivial, trivial, trivial, fun c x h => by simp [b0, blk, Diff.empty, Map.get] at h, fun _ => rfl⟩
  filter := ⟨by decide, rfl, by decide, by decide, by decide, trivial, trivial, rfl, rfl, rfl⟩
  window := Or.inr (by decide)
  state := fun casm' _ =>
    { sC := trivial, sSt := trivial, sCl := trivial, sTr := trivial, sHS := trivial, sHN := trivial, sHC := trivial,
      aboveS := fun _ _ _ => rfl, aboveN := fun _ _ _ => rfl, aboveC := fun _ _ _ => rfl,
      nonzero := fun p v h => by simp [Node.init, State.empty, Map.get] at h,
      owned := fun a k v h => by simp [Node.init, State.empty, Map.get] at h,
      genesis := fun _ => rfl,
      classAt := fun c r h => by simp [Node.init, State.empty, Map.get] at h,
      trieSub := fun c v h => by simp [Node.init, State.empty, Map.get] at h,
      noEmptySys := fun a _ h => by simp [Node.init, State.empty, Map.get] at h,
      dDep := ⟨fun e he => by simp at he, trivial⟩, dRep := trivial, dNon := trivial,
      dSto := ⟨fun e he => by simp at he, trivial⟩, dDecl := trivial, dMig := trivial, dDefs := trivial,
      depNotSys := fun a c h => (by
        simp only [b0, blk, Map.get] at h
        split at h
        · rename_i ha; subst ha; decide
        · cases h),
      nodup := by simp [b0, blk, Diff.empty, Map.keys],
      known0 := fun c hc => by simp [b0, blk, Diff.empty] at hc,
      decl1 := fun c h hh => by simp [b0, blk, Diff.empty, Map.get] at hh,
      defsListed := fun c d h => by simp [b0, blk, Map.get] at h,
      migOK := fun c y h => by simp [b0, blk, Diff.empty, Map.get] at h }

example : (store legacyCfg Node.init (withRoots legacyCfg Node.init b0)).toOption.isSome = true := by decide

end Juno.C04.Props
