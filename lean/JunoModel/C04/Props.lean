import JunoModel.C04.ProofsBC
import JunoModel.C04.ProofsBulk
import JunoModel.C04.ProofsRefuse
/-!
C04 — reverting the head exactly undoes a block; forks converge.

Property theorems over the model of `JunoModel/C04/Model.lean` (statements only; the proofs are in
`Proofs*.lean`). The node is a record of every bucket family of the database plus the in-memory
running event filter, kept canonical, so `revert cfg nd' = .ok nd` says: RevertHead succeeds AND the
whole database content and filter state are those of the node that never stored the block (every
Reader answer is computed from that content; the harness compares the Reader API on the real nodes).

All theorems hold for BOTH state backends (`cfg.legacy`), for every node reachable from the empty node
(`Good`: by induction over the history of stores and reverts, the invariants are proved, not
assumed), every block and every fork depth. What a stored block must satisfy (`StoreOK`):
* `BlockOK` — facts the protocol guarantees and juno does not check. Each clause is either shown
  necessary below (`*_needed`: juno stores the violating block and cannot undo it — run on the real
  code by the harness' `outside` scenarios with the same outcome), or is a proof convenience that the
  harness tests on the real code (system-contract address deployed: stored and undone; declaration
  without definition, declare+migrate in one block: refused by `Store`, model and code agree);
* `Safe` — the situations in which the code AS FOUND really cannot undo a block that a valid chain
  can contain; each has a proved counterexample below (K1 legacy / K2 new backend: system contract
  with empty storage; window closing block
  before 702b167 — with `dropReopenedWindow` that clause is void).
Theorems named `*_before_<commit>` are regression witnesses for defects already repaired in /repo.
-/
namespace Juno.C04.Props
open Juno.C04 Juno.C04.Map

/-
Full-strength statement (what the property asks; NOT true of the code as found):
  theorem revert_store_id_full (g : Good cfg nd) (ok : BlockOK cfg nd b) (h : store cfg nd b = .ok nd') :
      revert cfg nd' = .ok nd
It is refuted on the model (and on the real code, by the harness) by
`revert_total_legacy_counterexample` (K1) and `newstate_system_contract_height_counterexample` (K2); `revert_store_id` below is its partial version: the
hypothesis `StoreOK = BlockOK ∧ Safe` excludes exactly these situations (see `Safe`).
-/

/-- `RevertHead` after `Store` gives back the node exactly: it succeeds, and every bucket family and
the running filter equal those of the node that never stored the block. Both backends, every
reachable node. -/
theorem revert_store_id (cfg : Cfg) (hc : cfg.asFound) (nd nd' : Node) (b : Block)
    (g : Good cfg nd) (ok : StoreOK cfg nd b) (h : store cfg nd b = .ok nd') : revert cfg nd' = .ok nd :=
  revert_store_step (stepOK_of_inv hc (good_inv hc g) ok.block ok.safe h) h

/-- `RevertHead` succeeds on every reachable node that has a head block, and the result is again a
reachable node (the one that existed before the head was stored). -/
theorem revert_total (cfg : Cfg) (hc : cfg.asFound) (nd' : Node) (g : Good cfg nd') (hh : nd'.height ≠ none) :
    ∃ nd, revert cfg nd' = .ok nd ∧ Good cfg nd :=
  good_revert hc g hh

/-- Reachability: whatever sequence of `Store`s and `RevertHead`s is run from the empty node (failing
operations leave the node unchanged), as long as every block that gets stored is acceptable
(`HistOK`), the node reached is in `Good` — so it satisfies the invariant `NodeInv` (sorted buckets,
nothing above the head, history logs consistent with the head state, ...) that the other theorems
need, and all of them apply to it. -/
theorem history_invariant (cfg : Cfg) (hc : cfg.asFound) (ops : List Op) (ok : HistOK cfg Node.init ops) :
    Good cfg (run cfg Node.init ops) ∧ NodeInv cfg (run cfg Node.init ops) :=
  ⟨run_good hc ops Good.init ok, good_inv hc (run_good hc ops Good.init ok)⟩

/-- Per history: whatever sequence of `Store`s and `RevertHead`s is run from the empty node, the node
reached is exactly the node that stores only the blocks that were stored and not reverted afterwards
(`net`: successful stores push, successful reverts pop) — "a node that followed one fork, reverted it and
followed another is indistinguishable from a node that followed the second fork directly", for any
number of rounds. -/
theorem history_equals_net_chain (cfg : Cfg) (hc : cfg.asFound) (ops : List Op) (ok : HistOK cfg Node.init ops) :
    storeAll cfg Node.init (net cfg ops) = .ok (run cfg Node.init ops) := by
  obtain ⟨h, e⟩ := foldl_netStep hc ops Hist.init ok
  rw [← e]
  exact hist_storeAll h

/-- Two histories that leave the same chain behind leave the same node behind (whole database and
filter state), however many blocks each of them stored and reverted on the way. -/
theorem same_net_chain_same_node (cfg : Cfg) (hc : cfg.asFound) (ops1 ops2 : List Op)
    (ok1 : HistOK cfg Node.init ops1) (ok2 : HistOK cfg Node.init ops2) (h : net cfg ops1 = net cfg ops2) :
    run cfg Node.init ops1 = run cfg Node.init ops2 := by
  have e1 := history_equals_net_chain cfg hc ops1 ok1
  have e2 := history_equals_net_chain cfg hc ops2 ok2
  rw [h, e2] at e1
  injection e1 with e1
  exact e1.symm

/-- Forks converge, for every fork depth: a node that followed fork A from a reachable node `nd` and
reverted `|A|` blocks is `nd` again, so following fork B afterwards is following B directly. -/
theorem fork_converges (cfg : Cfg) (hc : cfg.asFound) (nd ndA : Node) (forkA forkB : List Block)
    (g : Good cfg nd) (ok : ChainStoreOK cfg nd forkA) (hA : storeAll cfg nd forkA = .ok ndA) :
    revertN cfg ndA forkA.length = .ok nd ∧
    (match revertN cfg ndA forkA.length with
     | .ok n => storeAll cfg n forkB
     | .error e => .error e) = storeAll cfg nd forkB := by
  have h := (revertN_storeAll_good hc forkA g ok hA).1
  exact ⟨h, by rw [h]⟩

/-- `State.Revert` undoes `State.Update`, legacy backend (`core/deprecatedstate`). -/
theorem state_revert_update_legacy (cfg : Cfg) (hleg : cfg.legacy = true) (hfix : cfg.zeroWriteFix = true)
    (hpu : cfg.legacyPurgeOnUpdate = false) (s s' : State) (b : Block) (casm' : Map Nat CasmMeta)
    (ok : LegacyOK cfg s casm' b) (h : updateState cfg b s = .ok s') :
    revertState cfg b.number b.ver ⟨b.diff, b.oldRoot, b.newRoot⟩ casm' s' = .ok s :=
  legacy_revert_update hleg hfix hpu ok h

/-- `State.Revert` undoes `State.Update`, new backend (`core/state`). -/
theorem state_revert_update_new (cfg : Cfg) (hleg : cfg.legacy = false)
    (s s' : State) (b : Block) (casm' : Map Nat CasmMeta)
    (ok : NewOK cfg s casm' b) (h : updateState cfg b s = .ok s') :
    revertState cfg b.number b.ver ⟨b.diff, b.oldRoot, b.newRoot⟩ casm' s' = .ok s :=
  new_revert_update hleg ok h

/-! ### The process around the database (round 5): restarts, snapshot, window cache, event queries

`BC` (ModelBC.lean) is one `Blockchain` instance on its database: the lazily initialised running filter
(`ensureInit` / `Reset` / `InitializeRunningEventFilter` with its three branches: snapshot as it is,
snapshot filled in place, rebuild from the persisted windows), the snapshot bucket written at shutdown
and deleted by `onReorg`, and `blockchain.AggregatedBloomFilterCache` with its reset in `RevertHead`
(modelled without capacity; `evict` stands for any eviction policy). -/

/-- A restart is a no-op on every reachable node: `InitializeRunningEventFilter` recomputes from the
database exactly the running filter the process had in memory and leaves the persisted windows as they
are — without a snapshot (rebuild from the most recent persisted window) and with any snapshot the
database can hold (`SnapOK`: the running filter of an earlier moment of this chain; every `RevertHead`
deletes the snapshot), whichever branch runs, also when filling the snapshot completes a window. Hence
"a failing operation leaves the node unchanged" (`step`) is what `resetFilterOnError` + lazy
re-initialisation implement. -/
theorem restart_is_noop (cfg : Cfg) (hc : cfg.asFound) (nd : Node) (g : Good cfg nd) (snap : Option Filter)
    (so : SnapOK cfg nd snap) : initFilter cfg nd snap = .ok (nd.running, nd.persisted) :=
  init_eq (good_inv hc g) (good_RestartInv hc g) so

/-- Per process history: whatever sequence of `Store`, `RevertHead`, event queries, graceful shutdowns,
kills (restarts) and cache evictions a process and its successors run on one database from the empty
node, the node they leave (once the lazy filter is initialised again) is the node of the stores and
reverts alone — which by `history_equals_net_chain` is the node that stored only the surviving chain. -/
theorem process_history_is_node_history (cfg : Cfg) (hc : cfg.asFound) (ops : List BCOp)
    (ok : HistOK cfg Node.init (nodeOps ops)) :
    ensureHot cfg (BC.run cfg BC.init ops) =
      .ok { BC.run cfg BC.init ops with nd := run cfg Node.init (nodeOps ops), hot := true } ∧
    storeAll cfg Node.init (net cfg (nodeOps ops)) = .ok (run cfg Node.init (nodeOps ops)) := by
  have i := bc_run_inv hc ops BC.init Node.init (init_BCInv cfg) (bcHistOK_of_histOK cfg ops _ ok)
  rw [absRun_eq] at i
  exact ⟨ensureHot_inv hc i, history_equals_net_chain cfg hc (nodeOps ops) ok⟩

/-- Event queries see exactly the surviving chain: after any process history, a query over `[lo, hi]` up to
the head succeeds and, for every block of the range, its candidate list holds exactly the non-empty bloom
of that block's header on the node of the stores and reverts alone — no stale cached window, no stale
running filter, whether the window was served by the running filter, the cache or the database. -/
theorem event_query_sees_the_surviving_chain (cfg : Cfg) (hc : cfg.asFound) (ops : List BCOp)
    (ok : HistOK cfg Node.init (nodeOps ops)) (latest lo hi : Nat)
    (hh : (run cfg Node.init (nodeOps ops)).height = some latest) (hlo : lo ≤ hi) (hhi : hi ≤ latest) :
    ∃ ans bc', BC.query cfg (BC.run cfg BC.init ops) lo hi = .ok (ans, bc') ∧
      ∀ m, lo ≤ m → m ≤ hi → Map.get ans m = nzBloom (Map.get (run cfg Node.init (nodeOps ops)).headers m) := by
  have i := bc_run_inv hc ops BC.init Node.init (init_BCInv cfg) (bcHistOK_of_histOK cfg ops _ ok)
  rw [absRun_eq] at i
  obtain ⟨ans, bc', hq, _, hget⟩ := query_spec hc i hh hlo hhi
  exact ⟨ans, bc', hq, hget⟩

/-- Forks converge for event queries too: two process histories (any restarts, queries, evictions on the
way) that leave the same chain behind answer every event query with the same candidates. -/
theorem fork_event_queries_agree (cfg : Cfg) (hc : cfg.asFound) (ops1 ops2 : List BCOp)
    (ok1 : HistOK cfg Node.init (nodeOps ops1)) (ok2 : HistOK cfg Node.init (nodeOps ops2))
    (h : net cfg (nodeOps ops1) = net cfg (nodeOps ops2)) (latest lo hi : Nat)
    (hh : (run cfg Node.init (nodeOps ops1)).height = some latest) (hlo : lo ≤ hi) (hhi : hi ≤ latest) :
    ∃ a1 b1 a2 b2, BC.query cfg (BC.run cfg BC.init ops1) lo hi = .ok (a1, b1) ∧
      BC.query cfg (BC.run cfg BC.init ops2) lo hi = .ok (a2, b2) ∧
      ∀ m, lo ≤ m → m ≤ hi → Map.get a1 m = Map.get a2 m := by
  have e := same_net_chain_same_node cfg hc _ _ ok1 ok2 h
  obtain ⟨a1, b1, q1, g1⟩ := event_query_sees_the_surviving_chain cfg hc ops1 ok1 latest lo hi hh hlo hhi
  obtain ⟨a2, b2, q2, g2⟩ := event_query_sees_the_surviving_chain cfg hc ops2 ok2 latest lo hi (e ▸ hh) hlo hhi
  exact ⟨a1, b1, a2, b2, q1, q2, fun m h1 h2 => by rw [g1 m h1 h2, g2 m h1 h2, e]⟩

/-- The store-time guards of the CASM metadata (`storeCasmHashMetadataV2` / `Migrate`): a block from
0.14.1 on that `Store` accepted migrates only classes that have metadata, were declared with a V1 hash
strictly below this block, are NOT migrated yet and are not declared by the same block — so that
`Unmigrate` in `RevertHead` finds them migrated by this very block (`revert_total` is over nodes whose
blocks all passed these guards). A second migration of a class is refused: `second_migration_refused`. -/
theorem stored_migration_guarded (cfg : Cfg) (nd nd' : Node) (b : Block) (hv : b.ver ≥ 2)
    (hs : Sorted nd.casm) (hsd : Sorted b.diff.declV1) (hsm : Sorted b.diff.migrated)
    (h : store cfg nd b = .ok nd') :
    ∀ c y, Map.get b.diff.migrated c = some y →
      ∃ md, Map.get nd.casm c = some md ∧ md.migratedAt = 0 ∧ md.v1.isSome = true ∧ md.declaredAt < b.number ∧
        Map.get b.diff.declV1 c = none :=
  storeCasm_guard b.number hv hs hsd hsm (store_casm_of_ok h)

/-! ### Witnesses: where the full-strength statement is false of the code as found

Full-strength statement (kept for the record):
  `∀ cfg nd b nd', Good cfg nd → BlockOK cfg nd b → store cfg nd b = .ok nd' → revert cfg nd' = .ok nd`.
It fails exactly in the cases `Safe` excludes; each is replayed on the real code by the harness
(directed scenarios in `harness/cmd/c04/main.go`). `zero_write…`, `reopened_window…` and
`implicit_class…` are about defects that are repaired in /repo by now (05cf200, 702b167, 64c1acb):
the model keeps the switch, the witness shows what the repair changed. -/

def legacyCfg : Cfg :=
  { legacy := true, zeroWriteFix := true, dropReopenedWindow := false, removeImplicitClasses := false,
    legacyPurgeOnUpdate := false, legacyDedupDeclared := true, window := 4 }
def newCfg : Cfg := { legacyCfg with legacy := false }

def blk (n h p : Nat) (d : Diff) : Block :=
  { number := n, hash := h, parent := p, ver := 1, txs := [], bloom := 0, payload := 0, diff := d, classes := [],
    oldRoot := .zero, newRoot := .zero }
def sto (a k v : Nat) : Diff := { Diff.empty with storage := [((a, k), v)] }

/-- Legacy backend: once a system contract that was written has empty storage, reverting ANY later
block fails (`purgesystemContracts` removes the contract, the old root no longer matches). -/
theorem revert_total_legacy_counterexample :
    failsWith (thenRevert legacyCfg (fstoreAll legacyCfg Node.init
      [blk 0 10 0 (sto 1 7 5), blk 1 11 10 Diff.empty, blk 2 12 11 (sto 1 7 0), blk 3 13 12 Diff.empty])) .revRootOld = true := by
  decide

/-- Before commit 05cf200 (`zeroWriteFix = false`): a zero written to a never-written slot is not
logged and the reverse diff cannot be built. With the fix the same history reverts exactly. -/
theorem zero_write_revert_failed_before_05cf200 :
    failsWith (thenRevert { legacyCfg with zeroWriteFix := false } (fstoreAll legacyCfg Node.init
      [blk 0 10 0 { Diff.empty with deployed := [(0x104, 0xc0)], storage := [((0x104, 1), 7)] },
       blk 1 11 10 { Diff.empty with storage := [((0x104, 1), 8), ((0x104, 2), 0)] }])) .checkHeadState = true ∧
    sameNode (thenRevert legacyCfg (fstoreAll legacyCfg Node.init
      [blk 0 10 0 { Diff.empty with deployed := [(0x104, 0xc0)], storage := [((0x104, 1), 7)] },
       blk 1 11 10 { Diff.empty with storage := [((0x104, 1), 8), ((0x104, 2), 0)] }]))
      (fstoreAll legacyCfg Node.init
      [blk 0 10 0 { Diff.empty with deployed := [(0x104, 0xc0)], storage := [((0x104, 1), 7)] }]) = true := by
  decide

/-- New backend: reverting the block that emptied a system contract gives a node that differs from
the one that never stored it (the re-created record has another deployment height). -/
theorem newstate_system_contract_height_counterexample :
    sameNode (thenRevert newCfg (fstoreAll newCfg Node.init [blk 0 10 0 (sto 1 7 5), blk 1 11 10 (sto 1 7 0)]))
      (fstoreAll newCfg Node.init [blk 0 10 0 (sto 1 7 5)]) = false ∧
    sameNode (thenRevert newCfg (fstoreAll newCfg Node.init [blk 0 10 0 (sto 1 7 5), blk 1 11 10 (sto 1 7 3)]))
      (fstoreAll newCfg Node.init [blk 0 10 0 (sto 1 7 5)]) = true := by
  decide

/-- Both backends: reverting the block that closed a filter window (here 4 blocks wide) leaves
the persisted copy of the reopened window behind; with the repair the node is restored exactly. -/
theorem reopened_window_kept_before_702b167 :
    sameNode (thenRevert legacyCfg (fstoreAll legacyCfg Node.init
        [blk 0 10 0 Diff.empty, blk 1 11 10 Diff.empty, blk 2 12 11 Diff.empty, blk 3 13 12 Diff.empty]))
      (fstoreAll legacyCfg Node.init [blk 0 10 0 Diff.empty, blk 1 11 10 Diff.empty, blk 2 12 11 Diff.empty]) = false ∧
    sameNode (thenRevert { legacyCfg with dropReopenedWindow := true } (fstoreAll legacyCfg Node.init
        [blk 0 10 0 Diff.empty, blk 1 11 10 Diff.empty, blk 2 12 11 Diff.empty, blk 3 13 12 Diff.empty]))
      (fstoreAll legacyCfg Node.init [blk 0 10 0 Diff.empty, blk 1 11 10 Diff.empty, blk 2 12 11 Diff.empty]) = true := by
  decide

/-- Both backends: a class definition supplied for a deployed contract (not in the declared
lists) is registered by `Update` and survives the revert; with the repair it does not. -/
theorem implicit_class_survived_before_64c1acb :
    sameNode (thenRevert legacyCfg (fstoreAll legacyCfg Node.init
        [blk 0 10 0 Diff.empty,
         { blk 1 11 10 { Diff.empty with deployed := [(0x105, 0xc5)] } with classes := [(0xc5, ⟨false, 0, true⟩)] }]))
      (fstoreAll legacyCfg Node.init [blk 0 10 0 Diff.empty]) = false ∧
    sameNode (thenRevert { legacyCfg with removeImplicitClasses := true } (fstoreAll legacyCfg Node.init
        [blk 0 10 0 Diff.empty,
         { blk 1 11 10 { Diff.empty with deployed := [(0x105, 0xc5)] } with classes := [(0xc5, ⟨false, 0, true⟩)] }]))
      (fstoreAll legacyCfg Node.init [blk 0 10 0 Diff.empty]) = true := by
  decide

/-- Regression witness (repaired in /repo by 7460746): with the legacy backend as it was, a block whose
`DeclaredV0Classes` lists a class hash twice is stored and `RevertHead` then fails
(`removeDeclaredClasses` looked the class up in its own transaction, where the first occurrence had
just deleted it). The new backend and the legacy backend as found now undo the block exactly; the
general theorems cover such blocks (no hypothesis excludes duplicates any more). -/
theorem legacy_duplicate_declaration_failed_before_7460746 :
    failsWith (thenRevert { legacyCfg with legacyDedupDeclared := false } (fstoreAll legacyCfg Node.init
      [blk 0 10 0 Diff.empty,
       { blk 1 11 10 { Diff.empty with declV0 := [0xd7, 0xd7] } with classes := [(0xd7, ⟨false, 0, true⟩)] }])) .classMissing = true ∧
    sameNode (thenRevert newCfg (fstoreAll newCfg Node.init
      [blk 0 10 0 Diff.empty,
       { blk 1 11 10 { Diff.empty with declV0 := [0xd7, 0xd7] } with classes := [(0xd7, ⟨false, 0, true⟩)] }]))
      (fstoreAll newCfg Node.init [blk 0 10 0 Diff.empty]) = true ∧
    sameNode (thenRevert legacyCfg (fstoreAll legacyCfg Node.init
      [blk 0 10 0 Diff.empty,
       { blk 1 11 10 { Diff.empty with declV0 := [0xd7, 0xd7] } with classes := [(0xd7, ⟨false, 0, true⟩)] }]))
      (fstoreAll legacyCfg Node.init [blk 0 10 0 Diff.empty]) = true := by
  decide

/-- The freshness hypothesis is needed: a transaction hash that is already indexed (juno does not
check) loses its lookup entry when the later block is reverted. -/
theorem fresh_tx_hash_needed :
    sameNode (thenRevert legacyCfg (fstoreAll legacyCfg Node.init
        [{ blk 0 10 0 Diff.empty with txs := [⟨0x77, none⟩] }, { blk 1 11 10 Diff.empty with txs := [⟨0x77, none⟩] }]))
      (fstoreAll legacyCfg Node.init [{ blk 0 10 0 Diff.empty with txs := [⟨0x77, none⟩] }]) = false := by
  decide

/-- `BlockOK.fresh.msgs` is needed: an L1 message that is already indexed (juno does not check) loses
its lookup entry when the later block that carries it again is reverted. -/
theorem fresh_l1_message_needed :
    sameNode (thenRevert legacyCfg (fstoreAll legacyCfg Node.init
        [{ blk 0 10 0 Diff.empty with txs := [⟨0x77, some 0x99⟩] }, { blk 1 11 10 Diff.empty with txs := [⟨0x78, some 0x99⟩] }]))
      (fstoreAll legacyCfg Node.init [{ blk 0 10 0 Diff.empty with txs := [⟨0x77, some 0x99⟩] }]) = false := by
  decide

/-- `BlockOK.decl1`/`casmFresh` are needed: a Sierra class that is declared a second time is stored
(the class record is kept, the CASM metadata is overwritten) and the revert deletes the metadata of
the first declaration. Both backends. -/
theorem sierra_redeclaration_needed :
    sameNode (thenRevert legacyCfg (fstoreAll legacyCfg Node.init
        [{ blk 0 10 0 { Diff.empty with declV1 := [(0xd1, 0xe1)] } with classes := [(0xd1, ⟨true, 0xe2, true⟩)] },
         { blk 1 11 10 { Diff.empty with declV1 := [(0xd1, 0xe1)] } with classes := [(0xd1, ⟨true, 0xe2, true⟩)] }]))
      (fstoreAll legacyCfg Node.init
        [{ blk 0 10 0 { Diff.empty with declV1 := [(0xd1, 0xe1)] } with classes := [(0xd1, ⟨true, 0xe2, true⟩)] }]) = false ∧
    sameNode (thenRevert newCfg (fstoreAll newCfg Node.init
        [{ blk 0 10 0 { Diff.empty with declV1 := [(0xd1, 0xe1)] } with classes := [(0xd1, ⟨true, 0xe2, true⟩)] },
         { blk 1 11 10 { Diff.empty with declV1 := [(0xd1, 0xe1)] } with classes := [(0xd1, ⟨true, 0xe2, true⟩)] }]))
      (fstoreAll newCfg Node.init
        [{ blk 0 10 0 { Diff.empty with declV1 := [(0xd1, 0xe1)] } with classes := [(0xd1, ⟨true, 0xe2, true⟩)] }]) = false := by
  decide

/-- `BlockOK.defsListed` is needed: a definition handed to `Store` that the diff neither declares nor
deploys is registered and survives the revert (nothing in the state update names it). -/
theorem unlisted_definition_needed :
    sameNode (thenRevert { legacyCfg with removeImplicitClasses := true } (fstoreAll legacyCfg Node.init
        [blk 0 10 0 Diff.empty, { blk 1 11 10 Diff.empty with classes := [(0xc5, ⟨false, 0, true⟩)] }]))
      (fstoreAll legacyCfg Node.init [blk 0 10 0 Diff.empty]) = false ∧
    sameNode (thenRevert { newCfg with removeImplicitClasses := true } (fstoreAll newCfg Node.init
        [blk 0 10 0 Diff.empty, { blk 1 11 10 Diff.empty with classes := [(0xc5, ⟨false, 0, true⟩)] }]))
      (fstoreAll newCfg Node.init [blk 0 10 0 Diff.empty]) = false := by
  decide

/-- `BlockOK.known0` is needed: a Cairo 0 declaration of a class the node has no definition of is
stored (nothing is registered), and `RevertHead` fails when it looks the class up. Both backends. -/
theorem cairo0_declaration_without_definition_needed :
    failsWith (thenRevert legacyCfg (fstoreAll legacyCfg Node.init
      [blk 0 10 0 Diff.empty, blk 1 11 10 { Diff.empty with declV0 := [0xd7] }])) .classMissing = true ∧
    failsWith (thenRevert newCfg (fstoreAll newCfg Node.init
      [blk 0 10 0 Diff.empty, blk 1 11 10 { Diff.empty with declV0 := [0xd7] }])) .classMissing = true := by
  decide

/-- `BlockOK.migVer` is needed: a block below 0.14.1 that lists a migrated class is stored (the class
trie leaf changes, the CASM metadata is not touched because `Store` looks at the version), and
`RevertHead` fails when it tries to un-migrate metadata that was never migrated. Both backends. -/
theorem early_migration_needed :
    failsWith (thenRevert legacyCfg (fstoreAll legacyCfg Node.init
      [{ blk 0 10 0 { Diff.empty with declV1 := [(0xd1, 0xe1)] } with classes := [(0xd1, ⟨true, 0xe2, true⟩)] },
       blk 1 11 10 { Diff.empty with migrated := [(0xd1, 0xe2)] }])) .casm = true ∧
    failsWith (thenRevert newCfg (fstoreAll newCfg Node.init
      [{ blk 0 10 0 { Diff.empty with declV1 := [(0xd1, 0xe1)] } with classes := [(0xd1, ⟨true, 0xe2, true⟩)] },
       blk 1 11 10 { Diff.empty with migrated := [(0xd1, 0xe2)] }])) .casm = true := by
  decide

/-! ### Non-vacuity -/

example : legacyCfg.asFound := ⟨by decide, fun _ => ⟨rfl, rfl, rfl⟩⟩
example : newCfg.asFound := ⟨by decide, fun h => by cases h⟩

-- a block with a deployment, a storage write to the deployed contract and a nonce is stored, and
-- reverted exactly, on both backends of the model
example : sameNode (thenRevert legacyCfg (fstoreAll legacyCfg Node.init
    [blk 0 10 0 Diff.empty, blk 1 11 10 { Diff.empty with deployed := [(0x104, 0xc0)], storage := [((0x104, 1), 7), ((1, 2), 3)], nonces := [(0x104, 1)] }]))
    (fstoreAll legacyCfg Node.init [blk 0 10 0 Diff.empty]) = true := by decide
example : sameNode (thenRevert newCfg (fstoreAll newCfg Node.init
    [blk 0 10 0 Diff.empty, blk 1 11 10 { Diff.empty with deployed := [(0x104, 0xc0)], storage := [((0x104, 1), 7), ((1, 2), 3)], nonces := [(0x104, 1)] }]))
    (fstoreAll newCfg Node.init [blk 0 10 0 Diff.empty]) = true := by decide

/-! A deeper instance: a `Good` node at height 0 that has a written system contract, a Cairo 0 and
a Sierra class with CASM metadata, a deployed contract and an indexed L1 message; and on it a block
of version 0.14.1 with a class migration, a replaced class, a nonce, a system-contract write, a
storage slot set to zero and an L1 handler. For one and the same block term: it satisfies `StoreOK`,
the model stores it, and so all theorems above apply to the result (both backends). -/

def e0 : Block :=
  { blk 0 10 0 { Diff.empty with deployed := [(0x104, 0xc0)], storage := [((1, 7), 5), ((0x104, 1), 7)],
                                  declV0 := [0xc0], declV1 := [(0xd1, 0xe1)] } with
    txs := [⟨0x77, some 0x99⟩], classes := [(0xc0, ⟨false, 0, true⟩), (0xd1, ⟨true, 0xe2, true⟩)] }
def e1 : Block :=
  { blk 1 11 10 { Diff.empty with replaced := [(0x104, 0xd1)], nonces := [(0x104, 1)],
                                   storage := [((1, 7), 6), ((0x104, 1), 0)], migrated := [(0xd1, 0xe2)] } with
    ver := 2, txs := [⟨0x78, some 0x9a⟩] }

local macro "sorted_tac" : tactic => `(tactic| simp [Sorted, e0, e1, blk, Diff.empty, KOrd.lt])

private theorem e0_storeOK (cfg : Cfg) (hw : cfg.window = 4) : StoreOK cfg Node.init e0 where
  block :=
    { fresh := ⟨rfl, fun t _ => rfl, fun t _ m _ => rfl⟩,
      casmFresh := fun c x _ => rfl,
      migVer := fun _ => rfl,
      dDep := by sorted_tac, dRep := by sorted_tac, dNon := by sorted_tac, dSto := by sorted_tac,
      dDecl := by sorted_tac, dMig := by sorted_tac, dDefs := by sorted_tac,
      depNotSys := all_of_get (m := e0.diff.deployed) (P := fun a _ => isSys a = false) (by decide),
      known0 := by decide,
      decl1 := all_of_get (m := e0.diff.declV1)
        (P := fun c _ => Map.get Node.init.st.classes c = none ∧ ∃ d, Map.get e0.classes c = some d ∧ d.sierra = true)
        (by intro e he; simp [e0, blk, Diff.empty] at he; subst he; exact ⟨rfl, _, rfl, rfl⟩),
      defsListed := all_of_get (m := e0.classes)
        (P := fun c _ => c ∈ e0.diff.declV0 ++ Map.keys e0.diff.declV1 ∨
          (cfg.removeImplicitClasses = true ∧ c ∈ e0.diff.deployed.map (·.2)))
        (by intro e he; simp [e0, blk, Diff.empty] at he; rcases he with rfl | rfl <;> exact Or.inl (by decide)) }
  safe :=
    { noEmptySys := fun _ a _ h => by simp [Node.init, State.empty, Map.get] at h,
      noSysEmptied := fun _ a _ h => by simp [Node.init, State.empty, Map.get] at h,
            window := Or.inr (by simp [e0, blk, Node.init, hw]) }

def n1 (cfg : Cfg) : Node := nodeOf (fstore cfg Node.init e0)

private theorem n1_stored_legacy : store legacyCfg Node.init (withRoots legacyCfg Node.init e0) = .ok (n1 legacyCfg) :=
  eq_ok_nodeOf (r := fstore legacyCfg Node.init e0) (by decide)
private theorem n1_stored_new : store newCfg Node.init (withRoots newCfg Node.init e0) = .ok (n1 newCfg) :=
  eq_ok_nodeOf (r := fstore newCfg Node.init e0) (by decide)

private theorem n1_good_legacy : Good legacyCfg (n1 legacyCfg) :=
  .store .init (storeOK_withRoots (e0_storeOK legacyCfg rfl)) n1_stored_legacy
private theorem n1_good_new : Good newCfg (n1 newCfg) :=
  .store .init (storeOK_withRoots (e0_storeOK newCfg rfl)) n1_stored_new

private theorem e1_storeOK_legacy : StoreOK legacyCfg (n1 legacyCfg) e1 where
  block :=
    { fresh := ⟨by decide, by decide, fun t ht m hm => by
        simp [e1, blk] at ht; subst ht; simp at hm; subst hm; decide⟩,
      casmFresh := fun c x h => by simp [e1, blk, Diff.empty, Map.get] at h,
      migVer := fun h => absurd h (by decide),
      dDep := by sorted_tac, dRep := by sorted_tac, dNon := by sorted_tac, dSto := by sorted_tac,
      dDecl := by sorted_tac, dMig := by sorted_tac, dDefs := by sorted_tac,
      depNotSys := fun a c h => by simp [e1, blk, Diff.empty, Map.get] at h,
      known0 := by decide,
      decl1 := fun c h hh => by simp [e1, blk, Diff.empty, Map.get] at hh,
      defsListed := fun c d h => by simp [e1, blk, Map.get] at h }
  safe :=
    { noEmptySys := fun _ a ha hc => by
        rcases sys_cases ha with rfl | rfl
        · decide
        · exact absurd hc (by decide),
      noSysEmptied := fun _ a ha hc => by
        rcases sys_cases ha with rfl | rfl
        · decide
        · exact absurd hc (by decide),
            window := Or.inr (by decide) }

def n2_legacy : Node := nodeOf (fstore legacyCfg (n1 legacyCfg) e1)
private theorem n2_stored_legacy : store legacyCfg (n1 legacyCfg) (withRoots legacyCfg (n1 legacyCfg) e1) = .ok n2_legacy :=
  eq_ok_nodeOf (r := fstore legacyCfg (n1 legacyCfg) e1) (by decide)

/-- the instance of `revert_store_id` for this block (its hypotheses are all discharged) -/
example : revert legacyCfg n2_legacy = .ok (n1 legacyCfg) :=
  revert_store_id legacyCfg ⟨by decide, fun _ => ⟨rfl, rfl, rfl⟩⟩ (n1 legacyCfg) n2_legacy _ n1_good_legacy (storeOK_withRoots e1_storeOK_legacy) n2_stored_legacy
-- and the node really changed: the migration, the replaced class and the L1 message are there
example : (Map.get n2_legacy.casm 0xd1).map (·.migratedAt) = some 1 ∧ Map.get n2_legacy.l1msg 0x9a = some 0x78 ∧
    (Map.get n2_legacy.st.contracts 0x104).map (·.classHash) = some 0xd1 ∧ Map.get n2_legacy.st.storage (0x104, 1) = none := by
  decide

private theorem e1_storeOK_new : StoreOK newCfg (n1 newCfg) e1 where
  block :=
    { fresh := ⟨by decide, by decide, fun t ht m hm => by
        simp [e1, blk] at ht; subst ht; simp at hm; subst hm; decide⟩,
      casmFresh := fun c x h => by simp [e1, blk, Diff.empty, Map.get] at h,
      migVer := fun h => absurd h (by decide),
      dDep := by sorted_tac, dRep := by sorted_tac, dNon := by sorted_tac, dSto := by sorted_tac,
      dDecl := by sorted_tac, dMig := by sorted_tac, dDefs := by sorted_tac,
      depNotSys := fun a c h => by simp [e1, blk, Diff.empty, Map.get] at h,
      known0 := by decide,
      decl1 := fun c h hh => by simp [e1, blk, Diff.empty, Map.get] at hh,
      defsListed := fun c d h => by simp [e1, blk, Map.get] at h }
  safe :=
    { noEmptySys := fun _ a ha hc => by
        rcases sys_cases ha with rfl | rfl
        · decide
        · exact absurd hc (by decide),
      noSysEmptied := fun _ a ha hc => by
        rcases sys_cases ha with rfl | rfl
        · decide
        · exact absurd hc (by decide),
            window := Or.inr (by decide) }

def n2_new : Node := nodeOf (fstore newCfg (n1 newCfg) e1)
private theorem n2_stored_new : store newCfg (n1 newCfg) (withRoots newCfg (n1 newCfg) e1) = .ok n2_new :=
  eq_ok_nodeOf (r := fstore newCfg (n1 newCfg) e1) (by decide)

/-- the instance of `revert_store_id` for this block (its hypotheses are all discharged) -/
example : revert newCfg n2_new = .ok (n1 newCfg) :=
  revert_store_id newCfg ⟨by decide, fun h => by cases h⟩ (n1 newCfg) n2_new _ n1_good_new (storeOK_withRoots e1_storeOK_new) n2_stored_new
-- and the node really changed: the migration, the replaced class and the L1 message are there
example : (Map.get n2_new.casm 0xd1).map (·.migratedAt) = some 1 ∧ Map.get n2_new.l1msg 0x9a = some 0x78 ∧
    (Map.get n2_new.st.contracts 0x104).map (·.classHash) = some 0xd1 ∧ Map.get n2_new.st.storage (0x104, 1) = none := by
  decide

/-! ### Round 5: witnesses and non-vacuity for the process-level theorems -/

def blk2 (n h p : Nat) (d : Diff) : Block := { blk n h p d with ver := 2 }

/-- `Store` refuses a block that lists an already migrated class as migrated again (both backends), and a
migration of a class declared with the V2 hash; the first migration is stored and reverted exactly. -/
theorem second_migration_refused :
    failsWith (fstoreAll legacyCfg Node.init
      [{ blk 0 10 0 { Diff.empty with declV1 := [(0xd1, 0xe1)] } with classes := [(0xd1, ⟨true, 0xe2, true⟩)] },
       blk2 1 11 10 { Diff.empty with migrated := [(0xd1, 0xe2)] },
       blk2 2 12 11 { Diff.empty with migrated := [(0xd1, 0xe2)] }]) .casm = true ∧
    failsWith (fstoreAll newCfg Node.init
      [{ blk 0 10 0 { Diff.empty with declV1 := [(0xd1, 0xe1)] } with classes := [(0xd1, ⟨true, 0xe2, true⟩)] },
       blk2 1 11 10 { Diff.empty with migrated := [(0xd1, 0xe2)] },
       blk2 2 12 11 { Diff.empty with migrated := [(0xd1, 0xe2)] }]) .casm = true ∧
    failsWith (fstoreAll newCfg Node.init
      [{ blk2 0 10 0 { Diff.empty with declV1 := [(0xd1, 0xe2)] } with classes := [(0xd1, ⟨true, 0xe2, true⟩)] },
       blk2 1 11 10 { Diff.empty with migrated := [(0xd1, 0xe2)] }]) .casm = true ∧
    sameNode (thenRevert newCfg (fstoreAll newCfg Node.init
      [{ blk 0 10 0 { Diff.empty with declV1 := [(0xd1, 0xe1)] } with classes := [(0xd1, ⟨true, 0xe2, true⟩)] },
       blk2 1 11 10 { Diff.empty with migrated := [(0xd1, 0xe2)] }]))
      (fstoreAll newCfg Node.init
      [{ blk 0 10 0 { Diff.empty with declV1 := [(0xd1, 0xe1)] } with classes := [(0xd1, ⟨true, 0xe2, true⟩)] }]) = true := by
  decide

/-- Since fecbdb1 a Sierra declaration without its definition is refused from 0.14.1 on as well (before
it the block was stored and overwrote the metadata of a known class). -/
theorem declaration_without_definition_refused :
    failsWith (fstoreAll legacyCfg Node.init [blk2 0 10 0 { Diff.empty with declV1 := [(0xd1, 0xe2)] }]) .casm = true ∧
    failsWith (fstoreAll newCfg Node.init [blk 0 10 0 { Diff.empty with declV1 := [(0xd1, 0xe1)] }]) .casm = true := by
  decide

/-- The base image of the harness' window-boundary scenarios — the driver's closed form `bulkNode` of a chain
of blocks without transactions, events and state changes, for ANY list of distinct hashes — is the node
that stores that chain block by block, and it is reachable: every theorem above applies to the nodes those
scenarios start from. (On a tree without 702b167 only below the first window end.) -/
theorem base_image_is_reachable (cfg : Cfg) (hc : cfg.asFound) (hdrop : cfg.dropReopenedWindow = true) (v : Nat)
    (hv : v < 3) (hs : List Nat) (hn : hs.Nodup) :
    storeAll cfg Node.init (plainChain v 0 0 hs) = .ok (bulkNode cfg v hs) ∧ Good cfg (bulkNode cfg v hs) :=
  bulk_good cfg hc.1 (Or.inl hdrop) v hv hs hn

/-- evaluated instances of the same: a chain that completes a window of 4 and one that does not -/
example : sameNode (storeAll legacyCfg Node.init (plainChain 1 0 0 [30, 11, 25, 13, 9, 40, 7, 8, 50]))
    (.ok (bulkNode legacyCfg 1 [30, 11, 25, 13, 9, 40, 7, 8, 50])) = true := by decide
example : sameNode (storeAll newCfg Node.init (plainChain 1 0 0 [30, 11, 25])) (.ok (bulkNode newCfg 1 [30, 11, 25])) = true := by
  decide

/-- a snapshot the database can hold: the running filter itself -/
theorem snapOK_running (cfg : Cfg) (hc : cfg.asFound) (nd : Node) (g : Good cfg nd) : SnapOK cfg nd (some nd.running) := by
  intro s hs
  simp only [Option.some.injEq] at hs
  subst hs
  obtain ⟨rr, rn⟩ := running_FRel (good_inv hc g) (good_RestartInv hc g)
  exact ⟨by rw [rn]; exact Nat.le_refl _, rr⟩

-- `restart_is_noop` instantiated on the node n2 above, without and with a snapshot
example : initFilter legacyCfg n2_legacy none = .ok (n2_legacy.running, n2_legacy.persisted) :=
  restart_is_noop legacyCfg ⟨by decide, fun _ => ⟨rfl, rfl, rfl⟩⟩ n2_legacy
    (.store n1_good_legacy (storeOK_withRoots e1_storeOK_legacy) n2_stored_legacy) none (fun s h => by cases h)
example : initFilter newCfg n2_new (some n2_new.running) = .ok (n2_new.running, n2_new.persisted) :=
  restart_is_noop newCfg ⟨by decide, fun h => by cases h⟩ n2_new
    (.store n1_good_new (storeOK_withRoots e1_storeOK_new) n2_stored_new) _
    (snapOK_running newCfg ⟨by decide, fun h => by cases h⟩ n2_new (.store n1_good_new (storeOK_withRoots e1_storeOK_new) n2_stored_new))

/-- a process history with a graceful restart, a kill, queries, a revert: its stores are acceptable, so
the process-level theorems apply to it -/
def procOps : List BCOp :=
  [.store (withRoots legacyCfg Node.init e0), .query 0 0, .shutdown, .kill,
   .store (withRoots legacyCfg (n1 legacyCfg) e1), .query 0 1, .kill, .revert, .query 0 0, .evict 0]

private theorem procOps_ok : HistOK legacyCfg Node.init (nodeOps procOps) := by
  have s0 : step legacyCfg Node.init (.store (withRoots legacyCfg Node.init e0)) = n1 legacyCfg := by
    simp [step, n1_stored_legacy]
  have s1 : step legacyCfg (n1 legacyCfg) (.store (withRoots legacyCfg (n1 legacyCfg) e1)) = n2_legacy := by
    simp [step, n2_stored_legacy]
  refine ⟨fun _ _ => storeOK_withRoots (e0_storeOK legacyCfg rfl), ?_⟩
  rw [s0]
  refine ⟨fun _ _ => storeOK_withRoots e1_storeOK_legacy, ?_⟩
  rw [s1]
  trivial

example : ∃ ans bc', BC.query legacyCfg (BC.run legacyCfg BC.init procOps) 0 0 = .ok (ans, bc') ∧
    ∀ m, 0 ≤ m → m ≤ 0 → Map.get ans m = nzBloom (Map.get (run legacyCfg Node.init (nodeOps procOps)).headers m) :=
  event_query_sees_the_surviving_chain legacyCfg ⟨by decide, fun _ => ⟨rfl, rfl, rfl⟩⟩ procOps procOps_ok 0 0 0
    (by decide) (Nat.le_refl _) (Nat.le_refl _)

-- the cache matters in the model: a window served from the cache, the running filter reopening it after a
-- revert, and the answer after the fork (window of 4 blocks; blooms 5, 7, 8 / 9, then 6 for the new block 3)
def bb (n h p bloom : Nat) : Block := { blk n h p Diff.empty with bloom := bloom }
def cacheOps : List BCOp :=
  [.store (bb 0 10 0 5), .store (bb 1 11 10 0), .store (bb 2 12 11 7), .store (bb 3 13 12 8), .store (bb 4 14 13 9),
   .query 0 4, .revert, .revert, .store (bb 3 23 12 6), .query 0 3]
example : (BC.run legacyCfg BC.init (cacheOps.take 6)).cache = [(0, [(0, 5), (2, 7), (3, 8)])] ∧
    (BC.run legacyCfg BC.init (cacheOps.take 8)).cache = [] ∧
    (match BC.query legacyCfg (BC.run legacyCfg BC.init (cacheOps.take 9)) 0 3 with
     | .ok r => r.1 | .error _ => []) = [(0, 5), (2, 7), (3, 6)] := by
  decide

/-! ### Round 6: what `Store` refuses — blocks that repeat what the chain already did

`RevertHead` purges every address in `DeployedContracts` and un-migrates every class in `MigratedClasses`, whoever
deployed / migrated them: it is the inverse of `Store` only because `Store` refuses a block that deploys an address
that exists or migrates a class that is migrated. These are the refusals, for every node and block (both backends);
the harness offers such blocks to the real node after every round of reverts (`repeat.go`). -/

/-- What `State.Update` has checked about the contract sections of every block `Store` accepted: a deployed
address did not exist; a replaced class, a nonce and a storage write name a contract that existed or is deployed
by the same block (storage: or a system contract, which is created on first touch). -/
theorem stored_contract_sections_guarded (cfg : Cfg) (nd nd' : Node) (b : Block)
    (hs : Sorted nd.st.contracts) (hd : Sorted b.diff.deployed) (hr : Sorted b.diff.replaced) (hn : Sorted b.diff.nonces)
    (h : store cfg nd b = .ok nd') :
    (∀ a c, Map.get b.diff.deployed a = some c → Map.get nd.st.contracts a = none) ∧
    (∀ a c, Map.get b.diff.replaced a = some c →
      (Map.get nd.st.contracts a).isSome = true ∨ (Map.get b.diff.deployed a).isSome = true) ∧
    (∀ a x, Map.get b.diff.nonces a = some x →
      (Map.get nd.st.contracts a).isSome = true ∨ (Map.get b.diff.deployed a).isSome = true) ∧
    (∀ a, a ∈ addrsOf b.diff.storage →
      (Map.get nd.st.contracts a).isSome = true ∨ (Map.get b.diff.deployed a).isSome = true ∨ isSys a = true) :=
  updateState_contract_guard hs hd hr hn (store_state_of_ok h)

/-- A block that deploys an address that already holds a contract is refused — whatever class it names (the same
class "again" included) and whatever else it contains. -/
theorem repeated_deployment_refused (cfg : Cfg) (nd : Node) (b : Block)
    (hs : Sorted nd.st.contracts) (hd : Sorted b.diff.deployed) (hr : Sorted b.diff.replaced) (hn : Sorted b.diff.nonces)
    (a c : Nat) (ct : Contract) (hdep : Map.get b.diff.deployed a = some c) (hex : Map.get nd.st.contracts a = some ct) :
    ∀ nd', store cfg nd b ≠ .ok nd' := by
  intro nd' h
  have := (stored_contract_sections_guarded cfg nd nd' b hs hd hr hn h).1 a c hdep
  rw [hex] at this
  cases this

/-- A block (0.14.1 on) that lists an already migrated class in `MigratedClasses` again is refused. -/
theorem repeated_migration_refused (cfg : Cfg) (nd : Node) (b : Block) (hv : b.ver ≥ 2)
    (hs : Sorted nd.casm) (hsd : Sorted b.diff.declV1) (hsm : Sorted b.diff.migrated)
    (c y : Nat) (md : CasmMeta) (hm : Map.get b.diff.migrated c = some y) (hmd : Map.get nd.casm c = some md)
    (hmig : md.migratedAt ≠ 0) : ∀ nd', store cfg nd b ≠ .ok nd' := by
  intro nd' h
  obtain ⟨md', h1, h2, _⟩ := stored_migration_guarded cfg nd nd' b hv hs hsd hsm h c y hm
  rw [hmd] at h1
  cases h1
  exact hmig h2

/-- A nonce or a replaced class for an address that holds no contract (e.g. one whose deployment was just
reverted) and is not deployed by the block is refused. -/
theorem touch_of_absent_contract_refused (cfg : Cfg) (nd : Node) (b : Block)
    (hs : Sorted nd.st.contracts) (hd : Sorted b.diff.deployed) (hr : Sorted b.diff.replaced) (hn : Sorted b.diff.nonces)
    (a : Nat) (habs : Map.get nd.st.contracts a = none) (hnd : Map.get b.diff.deployed a = none)
    (ht : (Map.get b.diff.nonces a).isSome = true ∨ (Map.get b.diff.replaced a).isSome = true) :
    ∀ nd', store cfg nd b ≠ .ok nd' := by
  intro nd' h
  obtain ⟨_, g2, g3, _⟩ := stored_contract_sections_guarded cfg nd nd' b hs hd hr hn h
  rcases ht with ht | ht
  · cases hx : Map.get b.diff.nonces a with
    | none => rw [hx] at ht; cases ht
    | some x => rcases g3 a x hx with h' | h' <;> simp [habs, hnd] at h'
  · cases hx : Map.get b.diff.replaced a with
    | none => rw [hx] at ht; cases ht
    | some x => rcases g2 a x hx with h' | h' <;> simp [habs, hnd] at h'

/-- Per history: after ANY history of stores and reverts, offering a block that deploys an address the surviving
chain has deployed, or (0.14.1 on) migrates a class the surviving chain has migrated, changes nothing — the node
stays the node of the surviving chain (`history_equals_net_chain`). -/
theorem repeat_offered_after_any_history_is_noop (cfg : Cfg) (hc : cfg.asFound) (ops : List Op)
    (ok : HistOK cfg Node.init ops) (b : Block)
    (hd : Sorted b.diff.deployed) (hr : Sorted b.diff.replaced) (hn : Sorted b.diff.nonces)
    (hsd : Sorted b.diff.declV1) (hsm : Sorted b.diff.migrated)
    (hrep : (∃ a c ct, Map.get b.diff.deployed a = some c ∧ Map.get (run cfg Node.init ops).st.contracts a = some ct) ∨
            (b.ver ≥ 2 ∧ ∃ c y md, Map.get b.diff.migrated c = some y ∧ Map.get (run cfg Node.init ops).casm c = some md ∧
              md.migratedAt ≠ 0)) :
    run cfg Node.init (ops ++ [.store b]) = run cfg Node.init ops ∧
    storeAll cfg Node.init (net cfg ops) = .ok (run cfg Node.init (ops ++ [.store b])) := by
  have inv := (history_invariant cfg hc ops ok).2
  have e : run cfg Node.init (ops ++ [.store b]) = run cfg Node.init ops := by
    show List.foldl (step cfg) Node.init (ops ++ [.store b]) = _
    rw [List.foldl_append]
    apply step_store_refused
    rcases hrep with ⟨a, c, ct, h1, h2⟩ | ⟨hv, c, y, md, h1, h2, h3⟩
    · exact repeated_deployment_refused cfg _ b inv.state.sC hd hr hn a c ct h1 h2
    · exact repeated_migration_refused cfg _ b hv inv.state.sCasm hsd hsm c y md h1 h2 h3
  exact ⟨e, by rw [e]; exact history_equals_net_chain cfg hc ops ok⟩

private theorem n2_good_legacy : Good legacyCfg n2_legacy :=
  .store n1_good_legacy (storeOK_withRoots e1_storeOK_legacy) n2_stored_legacy

/-- non-vacuity: on the node `n2_legacy` (contract 0x104 deployed by block 0, class 0xd1 migrated by block 1) the
repeated deployment (with the class the contract has) and the repeated migration are refused by the theorems, and
the model indeed answers `contractExists` / `casm` -/
local macro "sorted_tac6" : tactic => `(tactic| simp [Sorted, blk, blk2, Diff.empty, KOrd.lt])

example : ∀ nd', store legacyCfg n2_legacy (blk 2 12 11 { Diff.empty with deployed := [(0x104, 0xd1)] }) ≠ .ok nd' :=
  repeated_deployment_refused legacyCfg n2_legacy _ (good_inv ⟨by decide, fun _ => ⟨rfl, rfl, rfl⟩⟩ n2_good_legacy).state.sC
    (by sorted_tac6) (by sorted_tac6) (by sorted_tac6) 0x104 0xd1 ⟨1, 0xd1, 0⟩ (by decide) (by decide)
example : ∀ nd', store legacyCfg n2_legacy (blk2 2 12 11 { Diff.empty with migrated := [(0xd1, 0xe2)] }) ≠ .ok nd' :=
  repeated_migration_refused legacyCfg n2_legacy _ (by decide) (good_inv ⟨by decide, fun _ => ⟨rfl, rfl, rfl⟩⟩ n2_good_legacy).state.sCasm
    (by sorted_tac6) (by sorted_tac6) 0xd1 0xe2 ⟨0, 0xe2, 1, some 0xe1⟩ (by decide) (by decide) (by decide)
example : failsWith (fstore legacyCfg n2_legacy (blk 2 12 11 { Diff.empty with deployed := [(0x104, 0xd1)] })) .contractExists = true ∧
    failsWith (fstore newCfg n2_new (blk 2 12 11 { Diff.empty with deployed := [(0x104, 0xd1)] })) .contractExists = true ∧
    failsWith (fstore legacyCfg n2_legacy (blk2 2 12 11 { Diff.empty with migrated := [(0xd1, 0xe2)] })) .casm = true ∧
    failsWith (fstore newCfg n2_new (blk2 2 12 11 { Diff.empty with migrated := [(0xd1, 0xe2)] })) .casm = true ∧
    failsWith (fstore newCfg n2_new (blk 2 12 11 { Diff.empty with nonces := [(0x105, 1)] })) .contractMissing = true := by
  decide

/-- Since 302c657 a block below 0.14.1 that declares a Sierra class delivered without a usable compiled class (none, or
a bytecode shorter than its segment lengths) is refused by `Store` on both backends (before: a panic inside the batch);
with the compiled class the same block is stored and reverted exactly. -/
theorem declaration_without_compiled_class_refused :
    failsWith (fstoreAll legacyCfg Node.init
      [{ blk 0 10 0 { Diff.empty with declV1 := [(0xd1, 0xe1)] } with classes := [(0xd1, ⟨true, 0, false⟩)] }]) .casm = true ∧
    failsWith (fstoreAll newCfg Node.init
      [{ blk 0 10 0 { Diff.empty with declV1 := [(0xd1, 0xe1)] } with classes := [(0xd1, ⟨true, 0, false⟩)] }]) .casm = true ∧
    sameNode (thenRevert newCfg (fstoreAll newCfg Node.init
      [blk 0 10 0 Diff.empty, { blk 1 11 10 { Diff.empty with declV1 := [(0xd1, 0xe1)] } with classes := [(0xd1, ⟨true, 0xe2, true⟩)] }]))
      (fstoreAll newCfg Node.init [blk 0 10 0 Diff.empty]) = true := by
  decide

end Juno.C04.Props
