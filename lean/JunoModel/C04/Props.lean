import JunoModel.C04.ProofsReach
/-!
C04 — reverting the head exactly undoes a block; forks converge.

Property theorems over the model of `JunoModel/C04/Model.lean` (statements only; the proofs are in
`Proofs*.lean`). The node is a record of every bucket family of the database plus the in-memory
running event filter, kept canonical, so `revert cfg nd' = .ok nd` says: RevertHead succeeds AND the
whole database content and filter state are those of the node that never stored the block (every
Reader answer is computed from that content; the harness compares the Reader API on the real nodes).

All theorems hold for BOTH state backends (`cfg.legacy`), for every node reachable from the empty node
(`Good`: by induction over the history of stores and reverts, the invariants are proved, not
assumed), every block and every fork depth. What a stored block must satisfy (`StoreOK`):
* `BlockOK` — facts the protocol guarantees and juno does not check. Each clause is either shown
  necessary below (`*_needed`: juno stores the violating block and cannot undo it — run on the real
  code by the harness' `outside` scenarios with the same outcome), or is a proof convenience that the
  harness tests on the real code (system-contract address deployed: stored and undone; declaration
  without definition, declare+migrate in one block: refused by `Store`, model and code agree);
* `Safe` — the situations in which the code AS FOUND really cannot undo a block that a valid chain
  can contain; each has a proved counterexample below (K1 legacy / K2 new backend: system contract
  with empty storage; window closing block
  before 702b167 — with `dropReopenedWindow` that clause is void).
Theorems named `*_before_<commit>` are regression witnesses for defects already repaired in /repo.
-/
namespace Juno.C04.Props
open Juno.C04 Juno.C04.Map

/-
Full-strength statement (what the property asks; NOT true of the code as found):
  theorem revert_store_id_full (g : Good cfg nd) (ok : BlockOK cfg nd b) (h : store cfg nd b = .ok nd') :
      revert cfg nd' = .ok nd
It is refuted on the model (and on the real code, by the harness) by
`revert_total_legacy_counterexample` (K1) and `newstate_system_contract_height_counterexample` (K2); `revert_store_id` below is its partial version: the
hypothesis `StoreOK = BlockOK ∧ Safe` excludes exactly these situations (see `Safe`).
-/

/-- `RevertHead` after `Store` gives back the node exactly: it succeeds, and every bucket family and
the running filter equal those of the node that never stored the block. Both backends, every
reachable node. -/
theorem revert_store_id (cfg : Cfg) (hc : cfg.asFound) (nd nd' : Node) (b : Block)
    (g : Good cfg nd) (ok : StoreOK cfg nd b) (h : store cfg nd b = .ok nd') : revert cfg nd' = .ok nd :=
  revert_store_step (stepOK_of_inv hc (good_inv hc g) ok.block ok.safe h) h

/-- `RevertHead` succeeds on every reachable node that has a head block, and the result is again a
reachable node (the one that existed before the head was stored). -/
theorem revert_total (cfg : Cfg) (hc : cfg.asFound) (nd' : Node) (g : Good cfg nd') (hh : nd'.height ≠ none) :
    ∃ nd, revert cfg nd' = .ok nd ∧ Good cfg nd :=
  good_revert hc g hh

/-- Reachability: whatever sequence of `Store`s and `RevertHead`s is run from the empty node (failing
operations leave the node unchanged), as long as every block that gets stored is acceptable
(`HistOK`), the node reached is in `Good` — so it satisfies the invariant `NodeInv` (sorted buckets,
nothing above the head, history logs consistent with the head state, ...) that the other theorems
need, and all of them apply to it. -/
theorem history_invariant (cfg : Cfg) (hc : cfg.asFound) (ops : List Op) (ok : HistOK cfg Node.init ops) :
    Good cfg (run cfg Node.init ops) ∧ NodeInv cfg (run cfg Node.init ops) :=
  ⟨run_good hc ops Good.init ok, good_inv hc (run_good hc ops Good.init ok)⟩

/-- Per history: whatever sequence of `Store`s and `RevertHead`s is run from the empty node, the node
reached is exactly the node that stores only the blocks that were stored and not reverted afterwards
(`net`: successful stores push, successful reverts pop) — "a node that followed one fork, reverted it and
followed another is indistinguishable from a node that followed the second fork directly", for any
number of rounds. -/
theorem history_equals_net_chain (cfg : Cfg) (hc : cfg.asFound) (ops : List Op) (ok : HistOK cfg Node.init ops) :
    storeAll cfg Node.init (net cfg ops) = .ok (run cfg Node.init ops) := by
  obtain ⟨h, e⟩ := foldl_netStep hc ops Hist.init ok
  rw [← e]
  exact hist_storeAll h

/-- Two histories that leave the same chain behind leave the same node behind (whole database and
filter state), however many blocks each of them stored and reverted on the way. -/
theorem same_net_chain_same_node (cfg : Cfg) (hc : cfg.asFound) (ops1 ops2 : List Op)
    (ok1 : HistOK cfg Node.init ops1) (ok2 : HistOK cfg Node.init ops2) (h : net cfg ops1 = net cfg ops2) :
    run cfg Node.init ops1 = run cfg Node.init ops2 := by
  have e1 := history_equals_net_chain cfg hc ops1 ok1
  have e2 := history_equals_net_chain cfg hc ops2 ok2
  rw [h, e2] at e1
  injection e1 with e1
  exact e1.symm

/-- Forks converge, for every fork depth: a node that followed fork A from a reachable node `nd` and
reverted `|A|` blocks is `nd` again, so following fork B afterwards is following B directly. -/
theorem fork_converges (cfg : Cfg) (hc : cfg.asFound) (nd ndA : Node) (forkA forkB : List Block)
    (g : Good cfg nd) (ok : ChainStoreOK cfg nd forkA) (hA : storeAll cfg nd forkA = .ok ndA) :
    revertN cfg ndA forkA.length = .ok nd ∧
    (match revertN cfg ndA forkA.length with
     | .ok n => storeAll cfg n forkB
     | .error e => .error e) = storeAll cfg nd forkB := by
  have h := (revertN_storeAll_good hc forkA g ok hA).1
  exact ⟨h, by rw [h]⟩

/-- `State.Revert` undoes `State.Update`, legacy backend (`core/deprecatedstate`). -/
theorem state_revert_update_legacy (cfg : Cfg) (hleg : cfg.legacy = true) (hfix : cfg.zeroWriteFix = true)
    (hpu : cfg.legacyPurgeOnUpdate = false) (s s' : State) (b : Block) (casm' : Map Nat CasmMeta)
    (ok : LegacyOK cfg s casm' b) (h : updateState cfg b s = .ok s') :
    revertState cfg b.number b.ver ⟨b.diff, b.oldRoot, b.newRoot⟩ casm' s' = .ok s :=
  legacy_revert_update hleg hfix hpu ok h

/-- `State.Revert` undoes `State.Update`, new backend (`core/state`). -/
theorem state_revert_update_new (cfg : Cfg) (hleg : cfg.legacy = false)
    (s s' : State) (b : Block) (casm' : Map Nat CasmMeta)
    (ok : NewOK cfg s casm' b) (h : updateState cfg b s = .ok s') :
    revertState cfg b.number b.ver ⟨b.diff, b.oldRoot, b.newRoot⟩ casm' s' = .ok s :=
  new_revert_update hleg ok h

/-! ### Witnesses: where the full-strength statement is false of the code as found

Full-strength statement (kept for the record):
  `∀ cfg nd b nd', Good cfg nd → BlockOK cfg nd b → store cfg nd b = .ok nd' → revert cfg nd' = .ok nd`.
It fails exactly in the cases `Safe` excludes; each is replayed on the real code by the harness
(directed scenarios in `harness/cmd/c04/main.go`). `zero_write…`, `reopened_window…` and
`implicit_class…` are about defects that are repaired in /repo by now (05cf200, 702b167, 64c1acb):
the model keeps the switch, the witness shows what the repair changed. -/

def legacyCfg : Cfg :=
  { legacy := true, zeroWriteFix := true, dropReopenedWindow := false, removeImplicitClasses := false,
    legacyPurgeOnUpdate := false, legacyDedupDeclared := true, window := 4 }
def newCfg : Cfg := { legacyCfg with legacy := false }

def blk (n h p : Nat) (d : Diff) : Block :=
  { number := n, hash := h, parent := p, ver := 1, txs := [], bloom := 0, payload := 0, diff := d, classes := [],
    oldRoot := .zero, newRoot := .zero }
def sto (a k v : Nat) : Diff := { Diff.empty with storage := [((a, k), v)] }

/-- Legacy backend: once a system contract that was written has empty storage, reverting ANY later
block fails (`purgesystemContracts` removes the contract, the old root no longer matches). -/
theorem revert_total_legacy_counterexample :
    failsWith (thenRevert legacyCfg (fstoreAll legacyCfg Node.init
      [blk 0 10 0 (sto 1 7 5), blk 1 11 10 Diff.empty, blk 2 12 11 (sto 1 7 0), blk 3 13 12 Diff.empty])) .revRootOld = true := by
  decide

/-- Before commit 05cf200 (`zeroWriteFix = false`): a zero written to a never-written slot is not
logged and the reverse diff cannot be built. With the fix the same history reverts exactly. -/
theorem zero_write_revert_failed_before_05cf200 :
    failsWith (thenRevert { legacyCfg with zeroWriteFix := false } (fstoreAll legacyCfg Node.init
      [blk 0 10 0 { Diff.empty with deployed := [(0x104, 0xc0)], storage := [((0x104, 1), 7)] },
       blk 1 11 10 { Diff.empty with storage := [((0x104, 1), 8), ((0x104, 2), 0)] }])) .checkHeadState = true ∧
    sameNode (thenRevert legacyCfg (fstoreAll legacyCfg Node.init
      [blk 0 10 0 { Diff.empty with deployed := [(0x104, 0xc0)], storage := [((0x104, 1), 7)] },
       blk 1 11 10 { Diff.empty with storage := [((0x104, 1), 8), ((0x104, 2), 0)] }]))
      (fstoreAll legacyCfg Node.init
      [blk 0 10 0 { Diff.empty with deployed := [(0x104, 0xc0)], storage := [((0x104, 1), 7)] }]) = true := by
  decide

/-- New backend: reverting the block that emptied a system contract gives a node that differs from
the one that never stored it (the re-created record has another deployment height). -/
theorem newstate_system_contract_height_counterexample :
    sameNode (thenRevert newCfg (fstoreAll newCfg Node.init [blk 0 10 0 (sto 1 7 5), blk 1 11 10 (sto 1 7 0)]))
      (fstoreAll newCfg Node.init [blk 0 10 0 (sto 1 7 5)]) = false ∧
    sameNode (thenRevert newCfg (fstoreAll newCfg Node.init [blk 0 10 0 (sto 1 7 5), blk 1 11 10 (sto 1 7 3)]))
      (fstoreAll newCfg Node.init [blk 0 10 0 (sto 1 7 5)]) = true := by
  decide

/-- Both backends: reverting the block that closed a filter window (here 4 blocks wide) leaves
the persisted copy of the reopened window behind; with the repair the node is restored exactly. -/
theorem reopened_window_kept_before_702b167 :
    sameNode (thenRevert legacyCfg (fstoreAll legacyCfg Node.init
        [blk 0 10 0 Diff.empty, blk 1 11 10 Diff.empty, blk 2 12 11 Diff.empty, blk 3 13 12 Diff.empty]))
      (fstoreAll legacyCfg Node.init [blk 0 10 0 Diff.empty, blk 1 11 10 Diff.empty, blk 2 12 11 Diff.empty]) = false ∧
    sameNode (thenRevert { legacyCfg with dropReopenedWindow := true } (fstoreAll legacyCfg Node.init
        [blk 0 10 0 Diff.empty, blk 1 11 10 Diff.empty, blk 2 12 11 Diff.empty, blk 3 13 12 Diff.empty]))
      (fstoreAll legacyCfg Node.init [blk 0 10 0 Diff.empty, blk 1 11 10 Diff.empty, blk 2 12 11 Diff.empty]) = true := by
  decide

/-- Both backends: a class definition supplied for a deployed contract (not in the declared
lists) is registered by `Update` and survives the revert; with the repair it does not. -/
theorem implicit_class_survived_before_64c1acb :
    sameNode (thenRevert legacyCfg (fstoreAll legacyCfg Node.init
        [blk 0 10 0 Diff.empty,
         { blk 1 11 10 { Diff.empty with deployed := [(0x105, 0xc5)] } with classes := [(0xc5, ⟨false, 0⟩)] }]))
      (fstoreAll legacyCfg Node.init [blk 0 10 0 Diff.empty]) = false ∧
    sameNode (thenRevert { legacyCfg with removeImplicitClasses := true } (fstoreAll legacyCfg Node.init
        [blk 0 10 0 Diff.empty,
         { blk 1 11 10 { Diff.empty with deployed := [(0x105, 0xc5)] } with classes := [(0xc5, ⟨false, 0⟩)] }]))
      (fstoreAll legacyCfg Node.init [blk 0 10 0 Diff.empty]) = true := by
  decide

/-- Regression witness (repaired in /repo by 7460746): with the legacy backend as it was, a block whose
`DeclaredV0Classes` lists a class hash twice is stored and `RevertHead` then fails
(`removeDeclaredClasses` looked the class up in its own transaction, where the first occurrence had
just deleted it). The new backend and the legacy backend as found now undo the block exactly; the
general theorems cover such blocks (no hypothesis excludes duplicates any more). -/
theorem legacy_duplicate_declaration_failed_before_7460746 :
    failsWith (thenRevert { legacyCfg with legacyDedupDeclared := false } (fstoreAll legacyCfg Node.init
      [blk 0 10 0 Diff.empty,
       { blk 1 11 10 { Diff.empty with declV0 := [0xd7, 0xd7] } with classes := [(0xd7, ⟨false, 0⟩)] }])) .classMissing = true ∧
    sameNode (thenRevert newCfg (fstoreAll newCfg Node.init
      [blk 0 10 0 Diff.empty,
       { blk 1 11 10 { Diff.empty with declV0 := [0xd7, 0xd7] } with classes := [(0xd7, ⟨false, 0⟩)] }]))
      (fstoreAll newCfg Node.init [blk 0 10 0 Diff.empty]) = true ∧
    sameNode (thenRevert legacyCfg (fstoreAll legacyCfg Node.init
      [blk 0 10 0 Diff.empty,
       { blk 1 11 10 { Diff.empty with declV0 := [0xd7, 0xd7] } with classes := [(0xd7, ⟨false, 0⟩)] }]))
      (fstoreAll legacyCfg Node.init [blk 0 10 0 Diff.empty]) = true := by
  decide

/-- The freshness hypothesis is needed: a transaction hash that is already indexed (juno does not
check) loses its lookup entry when the later block is reverted. -/
theorem fresh_tx_hash_needed :
    sameNode (thenRevert legacyCfg (fstoreAll legacyCfg Node.init
        [{ blk 0 10 0 Diff.empty with txs := [⟨0x77, none⟩] }, { blk 1 11 10 Diff.empty with txs := [⟨0x77, none⟩] }]))
      (fstoreAll legacyCfg Node.init [{ blk 0 10 0 Diff.empty with txs := [⟨0x77, none⟩] }]) = false := by
  decide

/-- `BlockOK.fresh.msgs` is needed: an L1 message that is already indexed (juno does not check) loses
its lookup entry when the later block that carries it again is reverted. -/
theorem fresh_l1_message_needed :
    sameNode (thenRevert legacyCfg (fstoreAll legacyCfg Node.init
        [{ blk 0 10 0 Diff.empty with txs := [⟨0x77, some 0x99⟩] }, { blk 1 11 10 Diff.empty with txs := [⟨0x78, some 0x99⟩] }]))
      (fstoreAll legacyCfg Node.init [{ blk 0 10 0 Diff.empty with txs := [⟨0x77, some 0x99⟩] }]) = false := by
  decide

/-- `BlockOK.decl1`/`casmFresh` are needed: a Sierra class that is declared a second time is stored
(the class record is kept, the CASM metadata is overwritten) and the revert deletes the metadata of
the first declaration. Both backends. -/
theorem sierra_redeclaration_needed :
    sameNode (thenRevert legacyCfg (fstoreAll legacyCfg Node.init
        [{ blk 0 10 0 { Diff.empty with declV1 := [(0xd1, 0xe1)] } with classes := [(0xd1, ⟨true, 0xe2⟩)] },
         { blk 1 11 10 { Diff.empty with declV1 := [(0xd1, 0xe1)] } with classes := [(0xd1, ⟨true, 0xe2⟩)] }]))
      (fstoreAll legacyCfg Node.init
        [{ blk 0 10 0 { Diff.empty with declV1 := [(0xd1, 0xe1)] } with classes := [(0xd1, ⟨true, 0xe2⟩)] }]) = false ∧
    sameNode (thenRevert newCfg (fstoreAll newCfg Node.init
        [{ blk 0 10 0 { Diff.empty with declV1 := [(0xd1, 0xe1)] } with classes := [(0xd1, ⟨true, 0xe2⟩)] },
         { blk 1 11 10 { Diff.empty with declV1 := [(0xd1, 0xe1)] } with classes := [(0xd1, ⟨true, 0xe2⟩)] }]))
      (fstoreAll newCfg Node.init
        [{ blk 0 10 0 { Diff.empty with declV1 := [(0xd1, 0xe1)] } with classes := [(0xd1, ⟨true, 0xe2⟩)] }]) = false := by
  decide

/-- `BlockOK.defsListed` is needed: a definition handed to `Store` that the diff neither declares nor
deploys is registered and survives the revert (nothing in the state update names it). -/
theorem unlisted_definition_needed :
    sameNode (thenRevert { legacyCfg with removeImplicitClasses := true } (fstoreAll legacyCfg Node.init
        [blk 0 10 0 Diff.empty, { blk 1 11 10 Diff.empty with classes := [(0xc5, ⟨false, 0⟩)] }]))
      (fstoreAll legacyCfg Node.init [blk 0 10 0 Diff.empty]) = false ∧
    sameNode (thenRevert { newCfg with removeImplicitClasses := true } (fstoreAll newCfg Node.init
        [blk 0 10 0 Diff.empty, { blk 1 11 10 Diff.empty with classes := [(0xc5, ⟨false, 0⟩)] }]))
      (fstoreAll newCfg Node.init [blk 0 10 0 Diff.empty]) = false := by
  decide

/-- `BlockOK.known0` is needed: a Cairo 0 declaration of a class the node has no definition of is
stored (nothing is registered), and `RevertHead` fails when it looks the class up. Both backends. -/
theorem cairo0_declaration_without_definition_needed :
    failsWith (thenRevert legacyCfg (fstoreAll legacyCfg Node.init
      [blk 0 10 0 Diff.empty, blk 1 11 10 { Diff.empty with declV0 := [0xd7] }])) .classMissing = true ∧
    failsWith (thenRevert newCfg (fstoreAll newCfg Node.init
      [blk 0 10 0 Diff.empty, blk 1 11 10 { Diff.empty with declV0 := [0xd7] }])) .classMissing = true := by
  decide

/-- `BlockOK.migVer` is needed: a block below 0.14.1 that lists a migrated class is stored (the class
trie leaf changes, the CASM metadata is not touched because `Store` looks at the version), and
`RevertHead` fails when it tries to un-migrate metadata that was never migrated. Both backends. -/
theorem early_migration_needed :
    failsWith (thenRevert legacyCfg (fstoreAll legacyCfg Node.init
      [{ blk 0 10 0 { Diff.empty with declV1 := [(0xd1, 0xe1)] } with classes := [(0xd1, ⟨true, 0xe2⟩)] },
       blk 1 11 10 { Diff.empty with migrated := [(0xd1, 0xe2)] }])) .casm = true ∧
    failsWith (thenRevert newCfg (fstoreAll newCfg Node.init
      [{ blk 0 10 0 { Diff.empty with declV1 := [(0xd1, 0xe1)] } with classes := [(0xd1, ⟨true, 0xe2⟩)] },
       blk 1 11 10 { Diff.empty with migrated := [(0xd1, 0xe2)] }])) .casm = true := by
  decide

/-! ### Non-vacuity -/

example : legacyCfg.asFound := ⟨by decide, fun _ => ⟨rfl, rfl, rfl⟩⟩
example : newCfg.asFound := ⟨by decide, fun h => by cases h⟩

-- a block with a deployment, a storage write to the deployed contract and a nonce is stored, and
-- reverted exactly, on both backends of the model
example : sameNode (thenRevert legacyCfg (fstoreAll legacyCfg Node.init
    [blk 0 10 0 Diff.empty, blk 1 11 10 { Diff.empty with deployed := [(0x104, 0xc0)], storage := [((0x104, 1), 7), ((1, 2), 3)], nonces := [(0x104, 1)] }]))
    (fstoreAll legacyCfg Node.init [blk 0 10 0 Diff.empty]) = true := by decide
example : sameNode (thenRevert newCfg (fstoreAll newCfg Node.init
    [blk 0 10 0 Diff.empty, blk 1 11 10 { Diff.empty with deployed := [(0x104, 0xc0)], storage := [((0x104, 1), 7), ((1, 2), 3)], nonces := [(0x104, 1)] }]))
    (fstoreAll newCfg Node.init [blk 0 10 0 Diff.empty]) = true := by decide

/-! A deeper instance: a `Good` node at height 0 that has a written system contract, a Cairo 0 and
a Sierra class with CASM metadata, a deployed contract and an indexed L1 message; and on it a block
of version 0.14.1 with a class migration, a replaced class, a nonce, a system-contract write, a
storage slot set to zero and an L1 handler. For one and the same block term: it satisfies `StoreOK`,
the model stores it, and so all theorems above apply to the result (both backends). -/

def e0 : Block :=
  { blk 0 10 0 { Diff.empty with deployed := [(0x104, 0xc0)], storage := [((1, 7), 5), ((0x104, 1), 7)],
                                  declV0 := [0xc0], declV1 := [(0xd1, 0xe1)] } with
    txs := [⟨0x77, some 0x99⟩], classes := [(0xc0, ⟨false, 0⟩), (0xd1, ⟨true, 0xe2⟩)] }
def e1 : Block :=
  { blk 1 11 10 { Diff.empty with replaced := [(0x104, 0xd1)], nonces := [(0x104, 1)],
                                   storage := [((1, 7), 6), ((0x104, 1), 0)], migrated := [(0xd1, 0xe2)] } with
    ver := 2, txs := [⟨0x78, some 0x9a⟩] }

local macro "sorted_tac" : tactic => `(tactic| simp [Sorted, e0, e1, blk, Diff.empty, KOrd.lt])

private theorem e0_storeOK (cfg : Cfg) (hw : cfg.window = 4) : StoreOK cfg Node.init e0 where
  block :=
    { fresh := ⟨rfl, fun t _ => rfl, fun t _ m _ => rfl⟩,
      casmFresh := fun c x _ => rfl,
      migVer := fun _ => rfl,
      dDep := by sorted_tac, dRep := by sorted_tac, dNon := by sorted_tac, dSto := by sorted_tac,
      dDecl := by sorted_tac, dMig := by sorted_tac, dDefs := by sorted_tac,
      depNotSys := all_of_get (m := e0.diff.deployed) (P := fun a _ => isSys a = false) (by decide),
      known0 := by decide,
      decl1 := all_of_get (m := e0.diff.declV1)
        (P := fun c _ => Map.get Node.init.st.classes c = none ∧ ∃ d, Map.get e0.classes c = some d ∧ d.sierra = true)
        (by intro e he; simp [e0, blk, Diff.empty] at he; subst he; exact ⟨rfl, _, rfl, rfl⟩),
      defsListed := all_of_get (m := e0.classes)
        (P := fun c _ => c ∈ e0.diff.declV0 ++ Map.keys e0.diff.declV1 ∨
          (cfg.removeImplicitClasses = true ∧ c ∈ e0.diff.deployed.map (·.2)))
        (by intro e he; simp [e0, blk, Diff.empty] at he; rcases he with rfl | rfl <;> exact Or.inl (by decide)) }
  safe :=
    { noEmptySys := fun _ a _ h => by simp [Node.init, State.empty, Map.get] at h,
      noSysEmptied := fun _ a _ h => by simp [Node.init, State.empty, Map.get] at h,
            window := Or.inr (by simp [e0, blk, Node.init, hw]) }

def n1 (cfg : Cfg) : Node := nodeOf (fstore cfg Node.init e0)

private theorem n1_stored_legacy : store legacyCfg Node.init (withRoots legacyCfg Node.init e0) = .ok (n1 legacyCfg) :=
  eq_ok_nodeOf (r := fstore legacyCfg Node.init e0) (by decide)
private theorem n1_stored_new : store newCfg Node.init (withRoots newCfg Node.init e0) = .ok (n1 newCfg) :=
  eq_ok_nodeOf (r := fstore newCfg Node.init e0) (by decide)

private theorem n1_good_legacy : Good legacyCfg (n1 legacyCfg) :=
  .store .init (storeOK_withRoots (e0_storeOK legacyCfg rfl)) n1_stored_legacy
private theorem n1_good_new : Good newCfg (n1 newCfg) :=
  .store .init (storeOK_withRoots (e0_storeOK newCfg rfl)) n1_stored_new

private theorem e1_storeOK_legacy : StoreOK legacyCfg (n1 legacyCfg) e1 where
  block :=
    { fresh := ⟨by decide, by decide, fun t ht m hm => by
        simp [e1, blk] at ht; subst ht; simp at hm; subst hm; decide⟩,
      casmFresh := fun c x h => by simp [e1, blk, Diff.empty, Map.get] at h,
      migVer := fun h => absurd h (by decide),
      dDep := by sorted_tac, dRep := by sorted_tac, dNon := by sorted_tac, dSto := by sorted_tac,
      dDecl := by sorted_tac, dMig := by sorted_tac, dDefs := by sorted_tac,
      depNotSys := fun a c h => by simp [e1, blk, Diff.empty, Map.get] at h,
      known0 := by decide,
      decl1 := fun c h hh => by simp [e1, blk, Diff.empty, Map.get] at hh,
      defsListed := fun c d h => by simp [e1, blk, Map.get] at h }
  safe :=
    { noEmptySys := fun _ a ha hc => by
        rcases sys_cases ha with rfl | rfl
        · decide
        · exact absurd hc (by decide),
      noSysEmptied := fun _ a ha hc => by
        rcases sys_cases ha with rfl | rfl
        · decide
        · exact absurd hc (by decide),
            window := Or.inr (by decide) }

def n2_legacy : Node := nodeOf (fstore legacyCfg (n1 legacyCfg) e1)
private theorem n2_stored_legacy : store legacyCfg (n1 legacyCfg) (withRoots legacyCfg (n1 legacyCfg) e1) = .ok n2_legacy :=
  eq_ok_nodeOf (r := fstore legacyCfg (n1 legacyCfg) e1) (by decide)

/-- the instance of `revert_store_id` for this block (its hypotheses are all discharged) -/
example : revert legacyCfg n2_legacy = .ok (n1 legacyCfg) :=
  revert_store_id legacyCfg ⟨by decide, fun _ => ⟨rfl, rfl, rfl⟩⟩ (n1 legacyCfg) n2_legacy _ n1_good_legacy (storeOK_withRoots e1_storeOK_legacy) n2_stored_legacy
-- and the node really changed: the migration, the replaced class and the L1 message are there
example : (Map.get n2_legacy.casm 0xd1).map (·.migratedAt) = some 1 ∧ Map.get n2_legacy.l1msg 0x9a = some 0x78 ∧
    (Map.get n2_legacy.st.contracts 0x104).map (·.classHash) = some 0xd1 ∧ Map.get n2_legacy.st.storage (0x104, 1) = none := by
  decide

private theorem e1_storeOK_new : StoreOK newCfg (n1 newCfg) e1 where
  block :=
    { fresh := ⟨by decide, by decide, fun t ht m hm => by
        simp [e1, blk] at ht; subst ht; simp at hm; subst hm; decide⟩,
      casmFresh := fun c x h => by simp [e1, blk, Diff.empty, Map.get] at h,
      migVer := fun h => absurd h (by decide),
      dDep := by sorted_tac, dRep := by sorted_tac, dNon := by sorted_tac, dSto := by sorted_tac,
      dDecl := by sorted_tac, dMig := by sorted_tac, dDefs := by sorted_tac,
      depNotSys := fun a c h => by simp [e1, blk, Diff.empty, Map.get] at h,
      known0 := by decide,
      decl1 := fun c h hh => by simp [e1, blk, Diff.empty, Map.get] at hh,
      defsListed := fun c d h => by simp [e1, blk, Map.get] at h }
  safe :=
    { noEmptySys := fun _ a ha hc => by
        rcases sys_cases ha with rfl | rfl
        · decide
        · exact absurd hc (by decide),
      noSysEmptied := fun _ a ha hc => by
        rcases sys_cases ha with rfl | rfl
        · decide
        · exact absurd hc (by decide),
            window := Or.inr (by decide) }

def n2_new : Node := nodeOf (fstore newCfg (n1 newCfg) e1)
private theorem n2_stored_new : store newCfg (n1 newCfg) (withRoots newCfg (n1 newCfg) e1) = .ok n2_new :=
  eq_ok_nodeOf (r := fstore newCfg (n1 newCfg) e1) (by decide)

/-- the instance of `revert_store_id` for this block (its hypotheses are all discharged) -/
example : revert newCfg n2_new = .ok (n1 newCfg) :=
  revert_store_id newCfg ⟨by decide, fun h => by cases h⟩ (n1 newCfg) n2_new _ n1_good_new (storeOK_withRoots e1_storeOK_new) n2_stored_new
-- and the node really changed: the migration, the replaced class and the L1 message are there
example : (Map.get n2_new.casm 0xd1).map (·.migratedAt) = some 1 ∧ Map.get n2_new.l1msg 0x9a = some 0x78 ∧
    (Map.get n2_new.st.contracts 0x104).map (·.classHash) = some 0xd1 ∧ Map.get n2_new.st.storage (0x104, 1) = none := by
  decide

end Juno.C04.Props
