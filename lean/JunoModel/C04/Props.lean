import JunoModel.C04.ProofsReach
/-!
C04 — reverting the head exactly undoes a block; forks converge.

Property theorems over the model of `JunoModel/C04/Model.lean` (statements only; the proofs are in
`Proofs*.lean`). The node is a record of every bucket family of the database plus the in-memory
running event filter, kept canonical, so `revert cfg nd' = .ok nd` says: RevertHead succeeds AND the
whole database content and filter state are those of the node that never stored the block. Every
Reader query (`answer`) is a function of that record.

All theorems hold for BOTH state backends (`cfg.legacy`), for every node reachable from the empty node
(`Good`: by induction over the history of stores and reverts, the invariants are proved, not
assumed), every block and every fork depth. What a stored block must satisfy (`StoreOK`):
* `BlockOK` — facts the protocol guarantees and juno does not check (hashes not yet indexed, diff
  sections are maps, Sierra classes not re-declared, system contracts never deployed, ...);
* `Safe` — the situations in which the code as found really cannot undo a block; each has a proved
  counterexample below (K1 legacy / K2 new backend: system contract with empty storage; K3: window
  closing block, repaired in /repo by 702b167 — with `dropReopenedWindow` the clause is void).
-/
namespace Juno.C04.Props
open Juno.C04 Juno.C04.Map

/-- `RevertHead` after `Store` gives back the node exactly: it succeeds, and every bucket family and
the running filter equal those of the node that never stored the block. Both backends, every
reachable node. -/
theorem revert_store_id (cfg : Cfg) (hc : cfg.asFound) (nd nd' : Node) (b : Block)
    (g : Good cfg nd) (ok : StoreOK cfg nd b) (h : store cfg nd b = .ok nd') : revert cfg nd' = .ok nd :=
  revert_store_step (stepOK_of_inv hc (good_inv hc g) ok.block ok.safe h) h

/-- The same in the property's words: the revert succeeds and every Reader query is answered as
on the node that never stored the block. -/
theorem revert_store_observations (cfg : Cfg) (hc : cfg.asFound) (nd nd' : Node) (b : Block)
    (g : Good cfg nd) (ok : StoreOK cfg nd b) (h : store cfg nd b = .ok nd') :
    ∃ nd'', revert cfg nd' = .ok nd'' ∧ ∀ q, answer nd'' q = answer nd q :=
  ⟨nd, revert_store_id cfg hc nd nd' b g ok h, fun _ => rfl⟩

/-- `RevertHead` succeeds on every reachable node that has a head block, and the result is again a
reachable node (the one that existed before the head was stored). -/
theorem revert_total (cfg : Cfg) (hc : cfg.asFound) (nd' : Node) (g : Good cfg nd') (hh : nd'.height ≠ none) :
    ∃ nd, revert cfg nd' = .ok nd ∧ Good cfg nd :=
  good_revert hc g hh

/-- Reachability: whatever sequence of `Store`s and `RevertHead`s is run from the empty node (failing
operations leave the node unchanged), as long as every block that gets stored is acceptable
(`HistOK`), the node reached is in `Good` — so it satisfies the invariant `NodeInv` (sorted buckets,
nothing above the head, history logs consistent with the head state, ...) that the other theorems
need, and all of them apply to it. -/
theorem history_invariant (cfg : Cfg) (hc : cfg.asFound) (ops : List Op) (ok : HistOK cfg Node.init ops) :
    Good cfg (run cfg Node.init ops) ∧ NodeInv cfg (run cfg Node.init ops) :=
  ⟨run_good hc ops Good.init ok, good_inv hc (run_good hc ops Good.init ok)⟩

/-- Forks converge, for every fork depth: a node that followed fork A from a reachable node `nd` and
reverted `|A|` blocks is `nd` again, so following fork B afterwards is following B directly. -/
theorem fork_converges (cfg : Cfg) (hc : cfg.asFound) (nd ndA : Node) (forkA forkB : List Block)
    (g : Good cfg nd) (ok : ChainStoreOK cfg nd forkA) (hA : storeAll cfg nd forkA = .ok ndA) :
    revertN cfg ndA forkA.length = .ok nd ∧
    (match revertN cfg ndA forkA.length with
     | .ok n => storeAll cfg n forkB
     | .error e => .error e) = storeAll cfg nd forkB := by
  have h := (revertN_storeAll_good hc forkA g ok hA).1
  exact ⟨h, by rw [h]⟩

/-- `Store` maintains the node invariant (the induction step of `history_invariant`). -/
theorem store_preserves_invariant (cfg : Cfg) (hc : cfg.asFound) (nd nd' : Node) (b : Block)
    (inv : NodeInv cfg nd) (ok : StoreOK cfg nd b) (h : store cfg nd b = .ok nd') : NodeInv cfg nd' :=
  store_inv hc inv ok.block ok.safe h

/-- `State.Revert` undoes `State.Update`, legacy backend (`core/deprecatedstate`). -/
theorem state_revert_update_legacy (cfg : Cfg) (hleg : cfg.legacy = true) (hfix : cfg.zeroWriteFix = true)
    (hpu : cfg.legacyPurgeOnUpdate = false) (s s' : State) (b : Block) (casm' : Map Nat CasmMeta)
    (ok : LegacyOK cfg s casm' b) (h : updateState cfg b s = .ok s') :
    revertState cfg b.number b.ver ⟨b.diff, b.oldRoot, b.newRoot⟩ casm' s' = .ok s :=
  legacy_revert_update hleg hfix hpu ok h

/-- `State.Revert` undoes `State.Update`, new backend (`core/state`). -/
theorem state_revert_update_new (cfg : Cfg) (hleg : cfg.legacy = false)
    (s s' : State) (b : Block) (casm' : Map Nat CasmMeta)
    (ok : NewOK cfg s casm' b) (h : updateState cfg b s = .ok s') :
    revertState cfg b.number b.ver ⟨b.diff, b.oldRoot, b.newRoot⟩ casm' s' = .ok s :=
  new_revert_update hleg ok h

/-! ### Witnesses: where the full-strength statement is false of the code as found

Full-strength statement (kept for the record):
  `∀ cfg nd b nd', Good cfg nd → BlockOK cfg nd b → store cfg nd b = .ok nd' → revert cfg nd' = .ok nd`.
It fails exactly in the cases `Safe` excludes; each is replayed on the real code by the harness
(directed scenarios in `harness/cmd/c04/main.go`). `zero_write…`, `reopened_window…` and
`implicit_class…` are about defects that are repaired in /repo by now (05cf200, 702b167, 64c1acb):
the model keeps the switch, the witness shows what the repair changed. -/

def legacyCfg : Cfg :=
  { legacy := true, zeroWriteFix := true, dropReopenedWindow := false, removeImplicitClasses := false,
    legacyPurgeOnUpdate := false, window := 4 }
def newCfg : Cfg := { legacyCfg with legacy := false }

def blk (n h p : Nat) (d : Diff) : Block :=
  { number := n, hash := h, parent := p, ver := 1, txs := [], bloom := 0, payload := 0, diff := d, classes := [],
    oldRoot := .zero, newRoot := .zero }
def sto (a k v : Nat) : Diff := { Diff.empty with storage := [((a, k), v)] }

/-- Legacy backend: once a system contract that was written has empty storage, reverting ANY later
block fails (`purgesystemContracts` removes the contract, the old root no longer matches). -/
theorem revert_total_legacy_counterexample :
    failsWith (thenRevert legacyCfg (fstoreAll legacyCfg Node.init
      [blk 0 10 0 (sto 1 7 5), blk 1 11 10 Diff.empty, blk 2 12 11 (sto 1 7 0), blk 3 13 12 Diff.empty])) .revRootOld = true := by
  decide

/-- Before commit 05cf200 (`zeroWriteFix = false`): a zero written to a never-written slot is not
logged and the reverse diff cannot be built. With the fix the same history reverts exactly. -/
theorem zero_write_revert_failed_before_05cf200 :
    failsWith (thenRevert { legacyCfg with zeroWriteFix := false } (fstoreAll legacyCfg Node.init
      [blk 0 10 0 { Diff.empty with deployed := [(0x104, 0xc0)], storage := [((0x104, 1), 7)] },
       blk 1 11 10 { Diff.empty with storage := [((0x104, 1), 8), ((0x104, 2), 0)] }])) .checkHeadState = true ∧
    sameNode (thenRevert legacyCfg (fstoreAll legacyCfg Node.init
      [blk 0 10 0 { Diff.empty with deployed := [(0x104, 0xc0)], storage := [((0x104, 1), 7)] },
       blk 1 11 10 { Diff.empty with storage := [((0x104, 1), 8), ((0x104, 2), 0)] }]))
      (fstoreAll legacyCfg Node.init
      [blk 0 10 0 { Diff.empty with deployed := [(0x104, 0xc0)], storage := [((0x104, 1), 7)] }]) = true := by
  decide

/-- New backend: reverting the block that emptied a system contract gives a node that differs from
the one that never stored it (the re-created record has another deployment height). -/
theorem newstate_system_contract_height_counterexample :
    sameNode (thenRevert newCfg (fstoreAll newCfg Node.init [blk 0 10 0 (sto 1 7 5), blk 1 11 10 (sto 1 7 0)]))
      (fstoreAll newCfg Node.init [blk 0 10 0 (sto 1 7 5)]) = false ∧
    sameNode (thenRevert newCfg (fstoreAll newCfg Node.init [blk 0 10 0 (sto 1 7 5), blk 1 11 10 (sto 1 7 3)]))
      (fstoreAll newCfg Node.init [blk 0 10 0 (sto 1 7 5)]) = true := by
  decide

/-- Both backends: reverting the block that closed a filter window (here 4 blocks wide) leaves
the persisted copy of the reopened window behind; with the repair the node is restored exactly. -/
theorem reopened_window_counterexample :
    sameNode (thenRevert legacyCfg (fstoreAll legacyCfg Node.init
        [blk 0 10 0 Diff.empty, blk 1 11 10 Diff.empty, blk 2 12 11 Diff.empty, blk 3 13 12 Diff.empty]))
      (fstoreAll legacyCfg Node.init [blk 0 10 0 Diff.empty, blk 1 11 10 Diff.empty, blk 2 12 11 Diff.empty]) = false ∧
    sameNode (thenRevert { legacyCfg with dropReopenedWindow := true } (fstoreAll legacyCfg Node.init
        [blk 0 10 0 Diff.empty, blk 1 11 10 Diff.empty, blk 2 12 11 Diff.empty, blk 3 13 12 Diff.empty]))
      (fstoreAll legacyCfg Node.init [blk 0 10 0 Diff.empty, blk 1 11 10 Diff.empty, blk 2 12 11 Diff.empty]) = true := by
  decide

/-- Both backends: a class definition supplied for a deployed contract (not in the declared
lists) is registered by `Update` and survives the revert; with the repair it does not. -/
theorem implicit_class_survives_revert :
    sameNode (thenRevert legacyCfg (fstoreAll legacyCfg Node.init
        [blk 0 10 0 Diff.empty,
         { blk 1 11 10 { Diff.empty with deployed := [(0x105, 0xc5)] } with classes := [(0xc5, ⟨false, 0⟩)] }]))
      (fstoreAll legacyCfg Node.init [blk 0 10 0 Diff.empty]) = false ∧
    sameNode (thenRevert { legacyCfg with removeImplicitClasses := true } (fstoreAll legacyCfg Node.init
        [blk 0 10 0 Diff.empty,
         { blk 1 11 10 { Diff.empty with deployed := [(0x105, 0xc5)] } with classes := [(0xc5, ⟨false, 0⟩)] }]))
      (fstoreAll legacyCfg Node.init [blk 0 10 0 Diff.empty]) = true := by
  decide

/-- The freshness hypothesis is needed: a transaction hash that is already indexed (juno does not
check) loses its lookup entry when the later block is reverted. -/
theorem fresh_tx_hash_needed :
    sameNode (thenRevert legacyCfg (fstoreAll legacyCfg Node.init
        [{ blk 0 10 0 Diff.empty with txs := [⟨0x77, none⟩] }, { blk 1 11 10 Diff.empty with txs := [⟨0x77, none⟩] }]))
      (fstoreAll legacyCfg Node.init [{ blk 0 10 0 Diff.empty with txs := [⟨0x77, none⟩] }]) = false := by
  decide

/-! ### Non-vacuity -/

theorem legacyCfg_asFound : legacyCfg.asFound := ⟨by decide, fun _ => ⟨rfl, rfl⟩⟩
theorem newCfg_asFound : newCfg.asFound := ⟨by decide, fun h => by cases h⟩

-- a block with a deployment, a storage write to the deployed contract and a nonce is stored, and
-- reverted exactly, on both backends of the model
example : sameNode (thenRevert legacyCfg (fstoreAll legacyCfg Node.init
    [blk 0 10 0 Diff.empty, blk 1 11 10 { Diff.empty with deployed := [(0x104, 0xc0)], storage := [((0x104, 1), 7), ((1, 2), 3)], nonces := [(0x104, 1)] }]))
    (fstoreAll legacyCfg Node.init [blk 0 10 0 Diff.empty]) = true := by decide
example : sameNode (thenRevert newCfg (fstoreAll newCfg Node.init
    [blk 0 10 0 Diff.empty, blk 1 11 10 { Diff.empty with deployed := [(0x104, 0xc0)], storage := [((0x104, 1), 7), ((1, 2), 3)], nonces := [(0x104, 1)] }]))
    (fstoreAll newCfg Node.init [blk 0 10 0 Diff.empty]) = true := by decide

-- the hypotheses are satisfiable: on the empty node (which is `Good`) a block with a deployment
-- and a storage write is acceptable for either backend, and it is stored
def b0 : Block := blk 0 10 0 { Diff.empty with deployed := [(0x104, 0xc0)], storage := [((0x104, 1), 7)] }

theorem b0_storeOK (cfg : Cfg) (hw : cfg.window = 4) : StoreOK cfg Node.init b0 where
  block :=
    { fresh := ⟨rfl, fun t ht => by simp [b0, blk] at ht, fun t ht => by simp [b0, blk] at ht⟩,
      casmFresh := fun c x h => by simp [b0, blk, Diff.empty, Map.get] at h,
      migVer := fun _ => rfl,
      dDep := ⟨fun e he => by simp at he, trivial⟩, dRep := trivial, dNon := trivial,
      dSto := ⟨fun e he => by simp at he, trivial⟩, dDecl := trivial, dMig := trivial, dDefs := trivial,
      depNotSys := fun a c h => (by
        simp only [b0, blk, Map.get] at h
        split at h
        · rename_i ha; subst ha; decide
        · cases h),
      depRep := fun a c _ => rfl,
      nodup := by simp [b0, blk, Diff.empty, Map.keys],
      known0 := fun c hc => by simp [b0, blk, Diff.empty] at hc,
      decl1 := fun c h hh => by simp [b0, blk, Diff.empty, Map.get] at hh,
      defsListed := fun c d h => by simp [b0, blk, Map.get] at h }
  safe :=
    { noEmptySys := fun _ a _ h => by simp [Node.init, State.empty, Map.get] at h,
      noSysEmptied := fun _ a _ h => by simp [Node.init, State.empty, Map.get] at h,
      window := Or.inr (by simp [b0, blk, Node.init, hw]) }

example : StoreOK legacyCfg Node.init b0 := b0_storeOK legacyCfg rfl
example : StoreOK newCfg Node.init b0 := b0_storeOK newCfg rfl
example : (store legacyCfg Node.init (withRoots legacyCfg Node.init b0)).toOption.isSome = true := by decide
example : (store newCfg Node.init (withRoots newCfg Node.init b0)).toOption.isSome = true := by decide

end Juno.C04.Props
