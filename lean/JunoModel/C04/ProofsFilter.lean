import JunoModel.C04.ProofsCasm
/-!
C04 helper lemmas, part 4: the running event filter. `onReorg` undoes `insert`, except that the
code as found leaves the persisted copy of a reopened window in the database
(`Cfg.dropReopenedWindow = false`), which is the only case excluded.
-/
set_option linter.unusedSectionVars false
namespace Juno.C04
open Map

/-- What `store` may assume about the running filter when it inserts block `n`. -/
structure FilterOK (cfg : Cfg) (f : Filter) (persisted : Map Nat (Map Nat Nat)) (n : Nat) : Prop where
  wpos : 0 < cfg.window
  next : f.next = n
  lo : f.fromBlock ≤ n
  hi : n ≤ f.fromBlock + cfg.window - 1
  aligned : f.fromBlock % cfg.window = 0
  sb : Sorted f.blooms
  sp : Sorted persisted
  bloomsBelow : Map.get f.blooms n = none
  noCur : Map.get persisted f.fromBlock = none
  noNext : Map.get persisted (n + 1) = none

theorem filterReorg_filterInsert {cfg : Cfg} {f f' : Filter} {p p' : Map Nat (Map Nat Nat)} {bloom n : Nat}
    (ok : FilterOK cfg f p n)
    (hk3 : cfg.dropReopenedWindow = true ∨ n ≠ f.fromBlock + cfg.window - 1)
    (h : filterInsert cfg f p bloom n = .ok (f', p')) :
    filterReorg cfg f' p' = .ok (f, p) := by
  obtain ⟨wpos, hnext, lo, hi, hal, sb, sp, hbb, hnc, hnn⟩ := ok
  unfold filterInsert at h
  have hr : (n < f.fromBlock || f.fromBlock + cfg.window - 1 < n) = false := by
    simp only [Bool.or_eq_false_iff, decide_eq_false_iff_not]
    omega
  simp only [hr, Bool.false_eq_true, if_false] at h
  have hdel : Map.del (if bloom = 0 then f.blooms else Map.set f.blooms n bloom) n = f.blooms := by
    split
    · exact del_absent sb hbb
    · exact del_set_absent sb bloom hbb
  by_cases hlast : n = f.fromBlock + cfg.window - 1
  · -- the block closes the window
    simp only [hlast, if_true] at h
    have hdrop : cfg.dropReopenedWindow = true := by
      rcases hk3 with h1 | h1
      · exact h1
      · exact absurd hlast h1
    injection h with h
    injection h with hf hp
    subst hf
    subst hp
    unfold filterReorg
    have hstart : (f.fromBlock + cfg.window - 1 + 1 - 1) - (f.fromBlock + cfg.window - 1 + 1 - 1) % cfg.window = f.fromBlock := by
      have h1 : f.fromBlock + cfg.window - 1 + 1 - 1 = f.fromBlock + (cfg.window - 1) := by omega
      rw [h1]
      have h2 : (f.fromBlock + (cfg.window - 1)) % cfg.window = cfg.window - 1 := by
        rw [Nat.add_mod, hal, Nat.zero_add, Nat.mod_mod]
        exact Nat.mod_eq_of_lt (by omega)
      rw [h2]
      omega
    have hc : (decide (f.fromBlock + cfg.window - 1 + 1 > 0) && decide (f.fromBlock + cfg.window - 1 + 1 - 1 = f.fromBlock + cfg.window - 1 + 1 - 1)) = true := by
      simp
    simp only [hc, if_true, hstart]
    rw [get_set_self]
    simp only [hdrop, if_true]
    have hn1 : f.fromBlock + cfg.window - 1 + 1 ≠ f.fromBlock := by omega
    have e1 : Map.del (Map.del (Map.set p f.fromBlock (if bloom = 0 then f.blooms else Map.set f.blooms (f.fromBlock + cfg.window - 1) bloom))
        (f.fromBlock + cfg.window - 1 + 1)) f.fromBlock = p := by
      apply ext (sorted_del (sorted_del (sorted_set sp _ _) _) _) sp
      intro k
      rw [get_del (sorted_del (sorted_set sp _ _) _), get_del (sorted_set sp _ _), get_set]
      by_cases hk : k = f.fromBlock
      · subst hk; simp [hnc]
      · by_cases hk2 : k = f.fromBlock + cfg.window - 1 + 1
        · subst hk2
          simp only [hk, if_false, if_true]
          rw [hlast] at hnn
          exact hnn.symm
        · simp [hk, hk2]
    rw [e1]
    have e2 : f.fromBlock + cfg.window - 1 + 1 - 1 = f.fromBlock + cfg.window - 1 := by omega
    rw [e2]
    rw [hlast] at hdel hnext
    rw [hdel]
    cases f
    simp_all
  · simp only [hlast, if_false] at h
    injection h with h
    injection h with hf hp
    subst hf
    subst hp
    unfold filterReorg
    have hc : (decide (f.fromBlock > 0) && decide (n + 1 - 1 = f.fromBlock - 1)) = false := by
      simp only [Bool.and_eq_false_iff, decide_eq_false_iff_not]
      by_cases h0 : f.fromBlock > 0
      · right; omega
      · left; exact h0
    have hr2 : (decide (n + 1 - 1 < f.fromBlock) || decide (f.fromBlock + cfg.window - 1 < n + 1 - 1)) = false := by
      simp only [Bool.or_eq_false_iff, decide_eq_false_iff_not]
      omega
    simp only [hc, hr2, Bool.false_eq_true, if_false]
    have e2 : n + 1 - 1 = n := by omega
    rw [e2, hdel]
    cases f
    simp_all

end Juno.C04
