import JunoModel.C04.ModelMap
/-!
C04 helper lemmas, part 1: sorted association lists are canonical (`ext`), and `set`/`del`/`filterK`
behave like the database operations Put / Delete / delete-by-prefix.
-/
set_option linter.unusedSectionVars false
namespace Juno.C04
namespace Map
variable {κ ν : Type} [DecidableEq κ] [KOrd κ]

theorem lt_ne {a b : κ} (h : KOrd.lt a b = true) : a ≠ b := by
  intro e; subst e; rw [KOrd.irrefl] at h; exact Bool.noConfusion h

theorem lt_asymm {a b : κ} (h : KOrd.lt a b = true) : KOrd.lt b a = false := by
  cases hb : KOrd.lt b a with
  | false => rfl
  | true =>
    have := KOrd.trans a b a h hb
    rw [KOrd.irrefl] at this; exact Bool.noConfusion this

theorem get_none_of_lt_all {m : Map κ ν} {k : κ} (h : ∀ e ∈ m, KOrd.lt k e.1 = true) :
    get m k = none := by
  induction m with
  | nil => rfl
  | cons e m ih =>
    obtain ⟨k', v⟩ := e
    have h1 : k ≠ k' := lt_ne (h (k', v) (List.mem_cons_self ..))
    simp only [get, h1, if_false]
    exact ih (fun e he => h e (List.mem_cons_of_mem _ he))

theorem get_cons_self (k : κ) (v : ν) (m : Map κ ν) : get ((k, v) :: m) k = some v := by
  simp [get]

theorem get_set (m : Map κ ν) (k : κ) (v : ν) (k' : κ) :
    get (set m k v) k' = if k' = k then some v else get m k' := by
  induction m with
  | nil => simp [set, get]
  | cons e m ih =>
    obtain ⟨k0, v0⟩ := e
    simp only [set]
    by_cases hlt : KOrd.lt k k0 = true
    · simp only [hlt, if_true, get]
    · simp only [hlt]
      by_cases hk : k = k0
      · subst hk
        by_cases h' : k' = k <;> simp [h', get]
      · by_cases h' : k' = k
        · subst h'; simp [hk, get, ih]
        · simp [h', hk, get, ih]

theorem get_set_self (m : Map κ ν) (k : κ) (v : ν) : get (set m k v) k = some v := by
  rw [get_set]; simp

theorem get_set_ne (m : Map κ ν) {k k' : κ} (v : ν) (h : k' ≠ k) : get (set m k v) k' = get m k' := by
  rw [get_set]; simp [h]

theorem get_del_ne (m : Map κ ν) {k k' : κ} (h : k' ≠ k) : get (del m k) k' = get m k' := by
  induction m with
  | nil => rfl
  | cons e m ih =>
    obtain ⟨k0, v0⟩ := e
    simp only [del]
    by_cases hk : k = k0
    · subst hk; simp [get, h]
    · simp only [hk, if_false, get, ih]

theorem mem_set {m : Map κ ν} {k : κ} {v : ν} {e : κ × ν} (h : e ∈ set m k v) : e = (k, v) ∨ e ∈ m := by
  induction m with
  | nil => simp [set] at h; exact Or.inl h
  | cons e0 m ih =>
    obtain ⟨k0, v0⟩ := e0
    unfold set at h
    split at h
    · rcases List.mem_cons.1 h with h1 | h1
      · exact Or.inl h1
      · exact Or.inr h1
    · split at h
      · rcases List.mem_cons.1 h with h1 | h1
        · exact Or.inl h1
        · exact Or.inr (List.mem_cons_of_mem _ h1)
      · rcases List.mem_cons.1 h with h1 | h1
        · exact Or.inr (h1 ▸ List.mem_cons_self ..)
        · rcases ih h1 with h2 | h2
          · exact Or.inl h2
          · exact Or.inr (List.mem_cons_of_mem _ h2)

theorem sorted_set {m : Map κ ν} (hs : Sorted m) (k : κ) (v : ν) : Sorted (set m k v) := by
  induction m with
  | nil => simp [set, Sorted]
  | cons e0 m ih =>
    obtain ⟨k0, v0⟩ := e0
    obtain ⟨h0, hs'⟩ := hs
    simp only [set]
    by_cases hlt : KOrd.lt k k0 = true
    · simp only [hlt, if_true]
      refine ⟨?_, h0, hs'⟩
      intro e he
      rcases List.mem_cons.1 he with he | he
      · rw [he]; exact hlt
      · exact KOrd.trans _ _ _ hlt (h0 e he)
    · simp only [hlt]
      by_cases hk : k = k0
      · subst hk
        simp only [if_true]
        exact ⟨h0, hs'⟩
      · simp only [hk, if_false]
        refine ⟨?_, ih hs'⟩
        intro e he
        rcases mem_set he with he | he
        · rw [he]
          cases h1 : KOrd.lt k0 k with
          | true => rfl
          | false =>
            have hlt' : KOrd.lt k k0 = false := by
              cases h2 : KOrd.lt k k0 with
              | false => rfl
              | true => exact absurd h2 hlt
            exact absurd (KOrd.tri _ _ hlt' h1) hk
        · exact h0 e he

theorem mem_del {m : Map κ ν} {k : κ} {e : κ × ν} (h : e ∈ del m k) : e ∈ m := by
  induction m with
  | nil => simp [del] at h
  | cons e0 m ih =>
    obtain ⟨k0, v0⟩ := e0
    simp only [del] at h
    by_cases hk : k = k0
    · simp only [hk, if_true] at h; exact List.mem_cons_of_mem _ h
    · simp only [hk, if_false, List.mem_cons] at h
      rcases h with h | h
      · exact h ▸ List.mem_cons_self ..
      · exact List.mem_cons_of_mem _ (ih h)

theorem sorted_del {m : Map κ ν} (hs : Sorted m) (k : κ) : Sorted (del m k) := by
  induction m with
  | nil => simp [del, Sorted]
  | cons e0 m ih =>
    obtain ⟨k0, v0⟩ := e0
    obtain ⟨h0, hs'⟩ := hs
    simp only [del]
    by_cases hk : k = k0
    · simp only [hk, if_true]; exact hs'
    · simp only [hk, if_false]
      exact ⟨fun e he => h0 e (mem_del he), ih hs'⟩

theorem get_del_self {m : Map κ ν} (hs : Sorted m) (k : κ) : get (del m k) k = none := by
  induction m with
  | nil => rfl
  | cons e0 m ih =>
    obtain ⟨k0, v0⟩ := e0
    obtain ⟨h0, hs'⟩ := hs
    simp only [del]
    by_cases hk : k = k0
    · subst hk
      simp only [if_true]
      exact get_none_of_lt_all h0
    · simp only [hk, if_false, get]
      exact ih hs'

theorem get_del {m : Map κ ν} (hs : Sorted m) (k k' : κ) :
    get (del m k) k' = if k' = k then none else get m k' := by
  by_cases h : k' = k
  · subst h; simp [get_del_self hs]
  · simp [h, get_del_ne m h]

/-- Sorted maps with the same lookups are the same list. -/
theorem ext {m1 m2 : Map κ ν} (h1 : Sorted m1) (h2 : Sorted m2)
    (h : ∀ k, get m1 k = get m2 k) : m1 = m2 := by
  induction m1 generalizing m2 with
  | nil =>
    cases m2 with
    | nil => rfl
    | cons e m2 =>
      obtain ⟨k, v⟩ := e
      have := h k
      simp [get] at this
  | cons e1 m1 ih =>
    obtain ⟨k1, v1⟩ := e1
    cases m2 with
    | nil =>
      have := h k1
      simp [get] at this
    | cons e2 m2 =>
      obtain ⟨k2, v2⟩ := e2
      obtain ⟨h1a, h1b⟩ := h1
      obtain ⟨h2a, h2b⟩ := h2
      have hk : k1 = k2 := by
        apply KOrd.tri
        · -- not k1 < k2
          cases hl : KOrd.lt k1 k2 with
          | false => rfl
          | true =>
            have e := h k1
            have hn : get ((k2, v2) :: m2) k1 = none := by
              apply get_none_of_lt_all
              intro e he
              rcases List.mem_cons.1 he with he | he
              · rw [he]; exact hl
              · exact KOrd.trans _ _ _ hl (h2a e he)
            rw [get_cons_self, hn] at e
            cases e
        · cases hl : KOrd.lt k2 k1 with
          | false => rfl
          | true =>
            have e := h k2
            have hn : get ((k1, v1) :: m1) k2 = none := by
              apply get_none_of_lt_all
              intro e he
              rcases List.mem_cons.1 he with he | he
              · rw [he]; exact hl
              · exact KOrd.trans _ _ _ hl (h1a e he)
            rw [get_cons_self, hn] at e
            cases e
      subst hk
      have hv : v1 = v2 := by
        have e := h k1
        rw [get_cons_self, get_cons_self] at e
        exact Option.some.inj e
      subst hv
      have hrest : m1 = m2 := by
        apply ih h1b h2b
        intro k
        by_cases hkk : k = k1
        · subst hkk
          rw [get_none_of_lt_all h1a, get_none_of_lt_all h2a]
        · have e := h k
          simpa [get, hkk] using e
      rw [hrest]

/-- Delete undoes Put of a fresh key. -/
theorem del_set_absent {m : Map κ ν} (hs : Sorted m) {k : κ} (v : ν) (hk : get m k = none) :
    del (set m k v) k = m := by
  apply ext (sorted_del (sorted_set hs k v) k) hs
  intro k'
  rw [get_del (sorted_set hs k v)]
  by_cases h : k' = k
  · subst h; simp [hk]
  · simp [h, get_set_ne m v h]

/-- Put of the old value undoes an overwriting Put. -/
theorem set_set_old {m : Map κ ν} (hs : Sorted m) {k : κ} (v v0 : ν) (hk : get m k = some v0) :
    set (set m k v) k v0 = m := by
  apply ext (sorted_set (sorted_set hs k v) k v0) hs
  intro k'
  rw [get_set, get_set]
  by_cases h : k' = k
  · subst h; simp [hk]
  · simp [h]

/-- Put undoes Delete of a present key. -/
theorem set_del_old {m : Map κ ν} (hs : Sorted m) {k : κ} (v0 : ν) (hk : get m k = some v0) :
    set (del m k) k v0 = m := by
  apply ext (sorted_set (sorted_del hs k) k v0) hs
  intro k'
  rw [get_set, get_del hs]
  by_cases h : k' = k
  · subst h; simp [hk]
  · simp [h]

theorem del_absent {m : Map κ ν} (hs : Sorted m) {k : κ} (hk : get m k = none) : del m k = m := by
  apply ext (sorted_del hs k) hs
  intro k'
  rw [get_del hs]
  by_cases h : k' = k
  · subst h; simp [hk]
  · simp [h]

theorem set_same {m : Map κ ν} (hs : Sorted m) {k : κ} {v : ν} (hk : get m k = some v) : set m k v = m := by
  apply ext (sorted_set hs k v) hs
  intro k'
  rw [get_set]
  by_cases h : k' = k
  · subst h; simp [hk]
  · simp [h]

theorem sorted_filterK {m : Map κ ν} (hs : Sorted m) (p : κ → Bool) : Sorted (filterK m p) := by
  induction m with
  | nil => simp [filterK, Sorted]
  | cons e0 m ih =>
    obtain ⟨k0, v0⟩ := e0
    obtain ⟨h0, hs'⟩ := hs
    simp only [filterK, List.filter]
    cases hp : p k0 with
    | false => exact ih hs'
    | true =>
      refine ⟨?_, ih hs'⟩
      intro e he
      exact h0 e (List.mem_filter.1 he).1

theorem get_filterK (m : Map κ ν) (p : κ → Bool) (k : κ) :
    get (filterK m p) k = if p k then get m k else none := by
  induction m with
  | nil => simp [filterK, get]
  | cons e0 m ih =>
    obtain ⟨k0, v0⟩ := e0
    simp only [filterK, List.filter]
    cases hp : p k0 with
    | false =>
      simp only [get]
      by_cases hk : k = k0
      · subst hk; simp [hp]; exact (by have := ih; simpa [filterK, hp] using this)
      · simp only [hk, if_false]; exact ih
    | true =>
      simp only [get]
      by_cases hk : k = k0
      · subst hk; simp [hp]
      · simp only [hk, if_false]; exact ih

theorem sorted_setAll {m : Map κ ν} (hs : Sorted m) (d : List (κ × ν)) : Sorted (setAll m d) := by
  induction d generalizing m with
  | nil => exact hs
  | cons e d ih => exact ih (sorted_set hs e.1 e.2)

theorem sorted_delAll {m : Map κ ν} (hs : Sorted m) (ks : List κ) : Sorted (delAll m ks) := by
  induction ks generalizing m with
  | nil => exact hs
  | cons k ks ih => exact ih (sorted_del hs k)

/-- Lookup after writing a whole diff section whose keys are distinct (`d` sorted). -/
theorem get_setAll {m : Map κ ν} {d : Map κ ν} (hd : Sorted d) (k : κ) :
    get (setAll m d) k = match get d k with | some v => some v | none => get m k := by
  induction d generalizing m with
  | nil => simp [setAll, get]
  | cons e d ih =>
    obtain ⟨k0, v0⟩ := e
    obtain ⟨h0, hd'⟩ := hd
    have : setAll m ((k0, v0) :: d) = setAll (set m k0 v0) d := rfl
    rw [this, ih hd']
    by_cases hk : k = k0
    · subst hk
      rw [get_none_of_lt_all h0, get_cons_self]
      simp [get_set_self]
    · simp only [get, hk, if_false]
      cases get d k with
      | some v => rfl
      | none => simp [get_set_ne m v0 hk]

theorem get_delAll {m : Map κ ν} (hs : Sorted m) (ks : List κ) (k : κ) :
    get (delAll m ks) k = if k ∈ ks then none else get m k := by
  induction ks generalizing m with
  | nil => simp [delAll]
  | cons k0 ks ih =>
    have : delAll m (k0 :: ks) = delAll (del m k0) ks := rfl
    rw [this, ih (sorted_del hs k0), get_del hs]
    by_cases h1 : k ∈ ks
    · simp [h1]
    · by_cases h2 : k = k0
      · simp [h2]
      · simp [h1, h2]

theorem mem_keys_of_get {m : Map κ ν} {k : κ} {v : ν} (h : get m k = some v) : (k, v) ∈ m := by
  induction m with
  | nil => simp [get] at h
  | cons e m ih =>
    obtain ⟨k0, v0⟩ := e
    simp only [get] at h
    by_cases hk : k = k0
    · subst hk; simp at h; subst h; exact List.mem_cons_self ..
    · simp only [hk, if_false] at h; exact List.mem_cons_of_mem _ (ih h)

theorem get_of_mem {m : Map κ ν} (hs : Sorted m) {k : κ} {v : ν} (h : (k, v) ∈ m) : get m k = some v := by
  induction m with
  | nil => simp at h
  | cons e m ih =>
    obtain ⟨k0, v0⟩ := e
    obtain ⟨h0, hs'⟩ := hs
    rcases List.mem_cons.1 h with h1 | h1
    · injection h1 with h1 h2; subst h1; subst h2; exact get_cons_self ..
    · have hne : k ≠ k0 := fun e => by
        have h3 := h0 (k, v) h1
        rw [e] at h3
        simp [KOrd.irrefl] at h3
      simp only [get, hne, if_false]
      exact ih hs' h1

end Map
end Juno.C04
