import JunoModel.C04.ProofsFilter
/-!
C04 helper lemmas, part 5: `RevertHead` undoes `Store` on the whole node, given that
`State.Revert` undoes `State.Update` (`StateInverse`, proved per backend in `ProofsState*.lean`).
-/
set_option linter.unusedSectionVars false
namespace Juno.C04
open Map

/-- Height as a count: the number of the next block. -/
def Node.nextNumber (nd : Node) : Nat := match nd.height with | none => 0 | some h => h + 1

/-- Invariant of the per-block buckets: sorted, and nothing is stored for block numbers at or
above the next one. -/
structure IndexWF (nd : Node) : Prop where
  sHeaders : Sorted nd.headers
  sNum : Sorted nd.numByHash
  sTxs : Sorted nd.blockTxs
  sLoc : Sorted nd.txLoc
  sL1 : Sorted nd.l1msg
  sSus : Sorted nd.sus
  sCom : Sorted nd.commitments
  above : ∀ m, nd.nextNumber ≤ m →
    Map.get nd.headers m = none ∧ Map.get nd.blockTxs m = none ∧ Map.get nd.sus m = none ∧ Map.get nd.commitments m = none

/-- What juno does not check but the protocol guarantees for a new block: its hash, its
transaction hashes and its L1 message hashes are not yet known to the node. -/
structure Fresh (nd : Node) (b : Block) : Prop where
  hash : Map.get nd.numByHash b.hash = none
  txs : ∀ t ∈ b.txs, Map.get nd.txLoc t.hash = none
  msgs : ∀ t ∈ b.txs, ∀ m, t.l1msg = some m → Map.get nd.l1msg m = none

/-- `State.Revert` undoes `State.Update` for this block on this state (with the CASM metadata as
it is on disk after the block was stored). -/
def StateInverse (cfg : Cfg) (st : State) (b : Block) (casm' : Map Nat CasmMeta) : Prop :=
  ∀ st', updateState cfg b st = .ok st' →
    revertState cfg b.number b.ver ⟨b.diff, b.oldRoot, b.newRoot⟩ casm' st' = .ok st

theorem checkSuccession_number {nd : Node} {b : Block} (h : checkSuccession nd b = .ok ()) :
    b.number = nd.nextNumber := by
  unfold checkSuccession at h
  unfold Node.nextNumber
  by_cases hv : b.ver ≥ 3
  · simp [hv] at h
  simp only [hv, if_false] at h
  cases hh : nd.height with
  | none =>
    simp only [hh] at h
    by_cases h0 : b.number = 0
    · exact h0
    · simp [h0] at h
  | some x =>
    simp only [hh] at h
    cases hg : Map.get nd.headers x with
    | none => simp [hg] at h
    | some hd =>
      simp only [hg] at h
      by_cases h0 : b.number = x + 1
      · exact h0
      · simp [h0] at h

theorem revert_store_of_parts (cfg : Cfg) {nd nd' : Node} {b : Block}
    (wf : IndexWF nd) (fr : Fresh nd b)
    (hst : ∀ casm', storeCasm b.number b nd.casm = .ok casm' → StateInverse cfg nd.st b casm')
    (hcasm : CasmOK nd.casm b)
    (hfil : FilterOK cfg nd.running nd.persisted b.number)
    (hk3 : cfg.dropReopenedWindow = true ∨ b.number ≠ nd.running.fromBlock + cfg.window - 1)
    (h : store cfg nd b = .ok nd') : revert cfg nd' = .ok nd := by
  unfold store at h
  cases hsucc : checkSuccession nd b with
  | error e => simp [hsucc, bind, Except.bind] at h
  | ok u =>
    have hn : b.number = nd.nextNumber := checkSuccession_number hsucc
    cases hus : updateState cfg b nd.st with
    | error e => simp [hsucc, hus, bind, Except.bind] at h
    | ok st' =>
      cases hsc : storeCasm b.number b nd.casm with
      | error e => simp [hsucc, hus, hsc, bind, Except.bind] at h
      | ok casm' =>
        cases hfi : filterInsert cfg nd.running nd.persisted b.bloom b.number with
        | error e => simp [hsucc, hus, hsc, hfi, bind, Except.bind] at h
        | ok fp =>
          obtain ⟨running', persisted'⟩ := fp
          simp only [hsucc, hus, hsc, hfi, bind, Except.bind, pure, Except.pure] at h
          injection h with h
          subst h
          obtain ⟨sH, sN, sT, sL, sM, sS, sC, habove⟩ := wf
          obtain ⟨a1, a2, a3, a4⟩ := habove b.number (by omega)
          have hrev := hst casm' hsc st' hus
          have hrc := revertCasm_storeCasm b.number hcasm hsc
          have hrf := filterReorg_filterInsert hfil hk3 hfi
          unfold revert
          simp only [get_set_self, bind, Except.bind, pure, Except.pure, hrev, hrc, hrf]
          have e1 := del_set_absent sH (⟨b.hash, b.parent, b.ver, b.bloom, b.payload, b.newRoot⟩ : Header) a1
          have e2 := del_set_absent sN b.number fr.hash
          have e3 := del_set_absent sT b.txs a2
          have e4 := txLoc_inverse sL b.number b.txs fr.txs
          have e5 := l1msg_inverse sM b.txs fr.msgs
          have e6 := del_set_absent sS (⟨b.diff, b.oldRoot, b.newRoot⟩ : SU) a3
          have e7 := del_set_absent sC b.payload a4
          simp only [e1, e2, e3, e4, e5, e6, e7]
          have hh : (if b.number = 0 then none else some (b.number - 1)) = nd.height := by
            unfold Node.nextNumber at hn
            cases hhh : nd.height with
            | none => simp [hhh] at hn; simp [hn]
            | some x => simp [hhh] at hn; simp [hn]
          rw [hh]

end Juno.C04
