import JunoModel.C04.ProofsNew2
/-!
C04 helper lemmas, part 18: the invariant of the new backend ("the latest history entry is the
current value", "an existing system contract has storage") and its preservation by `State.Update`.
-/
set_option linter.unusedSectionVars false
namespace Juno.C04
open Map

def nonceOf (m : Map Nat Contract) (a : Nat) : Nat := ((Map.get m a).map (·.nonce)).getD 0
def classOf (m : Map Nat Contract) (a : Nat) : Nat := ((Map.get m a).map (·.classHash)).getD 0

/-- Invariant of the new backend: the latest history entry of a slot / nonce / class hash is its
current value, and an existing system contract has storage. -/
structure NewInv (s : State) (n : Nat) : Prop where
  histS : ∀ p m, n ≤ m + 1 → (valueAtNew s.hStorage p m).getD 0 = (Map.get s.storage p).getD 0
  histN : ∀ a m, n ≤ m + 1 → (valueAtNew s.hNonce a m).getD 0 = nonceOf s.contracts a
  histC : ∀ a m, n ≤ m + 1 → (valueAtNew s.hClass a m).getD 0 = classOf s.contracts a
  sysNonEmpty : ∀ a, isSys a = true → (Map.get s.contracts a).isSome = true → storageEmpty s.storage a = false

/-- `valueAtNew` at or above block `n`, on a log `h'` that is `h` (which ends below `n`) plus
entries `atN` at block `n` -/
theorem valueAtNew_after {P : Type} [DecidableEq P] (h h' : Map (P × Nat) Nat) (atN : P → Option Nat)
    (n : Nat) (p : P) (m : Nat) (hm : n ≤ m)
    (habove : ∀ q j, n ≤ j → Map.get h (q, j) = none)
    (hother : ∀ q j, j ≠ n → Map.get h' (q, j) = Map.get h (q, j))
    (hat : ∀ q, Map.get h' (q, n) = atN q) :
    valueAtNew h' p m =
      match atN p with
      | some v => some v
      | none => if n = 0 then none else valueAtNew h p (n - 1) := by
  have hskip : valueAtNew h' p m = valueAtNew h' p n := by
    apply valueAtNew_skip _ _ _ _ hm
    intro j hj
    rw [hother p j (by omega)]
    exact habove p j (by omega)
  rw [hskip]
  cases n with
  | zero =>
    simp only [valueAtNew, hat]
    cases atN p <;> rfl
  | succ k =>
    simp only [valueAtNew, hat]
    cases hg : atN p with
    | some v => rfl
    | none =>
      simp only [Nat.succ_ne_zero, if_false, Nat.add_sub_cancel]
      exact valueAtNew_congr _ _ p k (fun j hj => hother p j (by omega))

/-- the entry of block `n` after writing a (duplicate-free) diff section into a log -/
theorem get_setAll_at {P : Type} [DecidableEq P] [KOrd P] (h : Map (P × Nat) Nat) (d : Map P Nat) (hd : Sorted d)
    (n : Nat) (p : P) :
    Map.get (setAll h (d.map (fun e => ((e.1, n), e.2)))) (p, n) =
      match Map.get d p with
      | some v => some v
      | none => Map.get h (p, n) := by
  have sd : Sorted (d.map (fun e => ((e.1, n), e.2)) : Map (P × Nat) Nat) := by
    induction d with
    | nil => trivial
    | cons e d ih =>
      obtain ⟨h0, hd'⟩ := hd
      refine ⟨?_, ih hd'⟩
      intro e' he'
      obtain ⟨x, hx, rfl⟩ := List.mem_map.1 he'
      show (KOrd.lt e.1 x.1 || (decide (e.1 = x.1) && KOrd.lt n n)) = true
      simp [h0 x hx]
  rw [get_setAll sd]
  have : Map.get (d.map (fun e => ((e.1, n), e.2)) : Map (P × Nat) Nat) (p, n) = Map.get d p := by
    clear sd
    induction d with
    | nil => rfl
    | cons e d ih =>
      obtain ⟨_, hd'⟩ := hd
      simp only [List.map_cons, Map.get]
      by_cases hp : p = e.1
      · subst hp; simp
      · have : (p, n) ≠ (e.1, n) := by intro ee; injection ee with e1 _; exact hp e1
        simp only [this, hp, if_false]
        exact ih hd'
  rw [this]
  cases Map.get d p <;> rfl

/-- `State.Update` of the new backend (and `storeCasmHashMetadata`) maintain both invariants. -/
theorem new_update_inv {cfg : Cfg} (hleg : cfg.legacy = false)
    {s s' : State} {casm casm' : Map Nat CasmMeta} {b : Block}
    (inv : StateInv s casm b.number) (ninv : NewInv s b.number)
    (dDep : Sorted b.diff.deployed) (dRep : Sorted b.diff.replaced) (dNon : Sorted b.diff.nonces)
    (dSto : Sorted b.diff.storage) (hsd : Sorted b.diff.declV1) (hsm : Sorted b.diff.migrated) (hdefs : Sorted b.classes)
    (hmv : b.ver < 2 → b.diff.migrated = [])
    (hdecl : ∀ c h, Map.get b.diff.declV1 c = some h →
      Map.get s.classes c = none ∧ ∃ d, Map.get b.classes c = some d ∧ d.sierra = true)
    (hfresh : ∀ c x, Map.get b.diff.declV1 c = some x → Map.get casm c = none)
    (depNotSys : ∀ a c, Map.get b.diff.deployed a = some c → isSys a = false)
    (noSysEmptied : ∀ a, isSys a = true → (Map.get s.contracts a).isSome = true →
      storageEmpty (writeStorage s.storage b.diff.storage) a = false)
    (hsc : storeCasm b.number b casm = .ok casm')
    (h : updateState cfg b s = .ok s') : StateInv s' casm' (b.number + 1) ∧ NewInv s' (b.number + 1) := by
  obtain ⟨_, _, cs0, cs1, cs2, cs3, h0, h1, h2, h3, hs'⟩ := new_forward hleg h
  obtain ⟨k1, k2, k3, k4, k5, k6⟩ := classes_inv_step inv hsd hsm hdefs hmv hdecl hfresh hsc
  obtain ⟨sc3, pS, pA⟩ := contracts_forward_some inv.sC dDep dRep dNon h0 h1 h2 h3
  obtain ⟨sc0, g0, f0⟩ := applyDeployed_spec b.number dDep inv.sC h0
  have h1' := h1
  have h2' := h2
  unfold applyReplaced at h1'
  unfold applyNonces at h2'
  obtain ⟨sc1, g1, f1⟩ := updAll_spec _ _ _ dRep sc0 h1'
  obtain ⟨sc2, g2, f2⟩ := updAll_spec _ _ _ dNon sc1 h2'
  obtain ⟨_, g3, f3⟩ := touchStorage_spec b.number b.diff.storage sc2 h3
  obtain ⟨sSt', gSt⟩ := writeStorage_spec inv.sSt dSto
  obtain ⟨u1, u2, u3, u4, u5, u6, u7, u8⟩ := purgeSysNew_spec b.diff
    { s with contracts := cs3, storage := writeStorage s.storage b.diff.storage,
             classes := registerClasses b.number s.classes b.classes,
             classTrie := updateClassTrie s.classTrie b } sc3
  dsimp only at u1 u2 u3 u4 u5 u6 u7 u8
  -- abbreviations for the fields of s'
  have eC : s'.contracts = (purgeSysNew b.diff
      { s with contracts := cs3, storage := writeStorage s.storage b.diff.storage,
               classes := registerClasses b.number s.classes b.classes,
               classTrie := updateClassTrie s.classTrie b }).contracts := by rw [hs']
  have eS : s'.storage = writeStorage s.storage b.diff.storage := by rw [hs']; exact u1
  have eCl : s'.classes = registerClasses b.number s.classes b.classes := by rw [hs']; exact u2
  have eTr : s'.classTrie = updateClassTrie s.classTrie b := by rw [hs']; exact u3
  have eHS : s'.hStorage = Map.setAll s.hStorage (b.diff.storage.map (fun e => ((e.1, b.number), e.2))) := by rw [hs']
  have eHN : s'.hNonce = Map.setAll s.hNonce (b.diff.nonces.map (fun e => ((e.1, b.number), e.2))) := by rw [hs']
  have eHC : s'.hClass = Map.setAll (Map.setAll s.hClass (b.diff.deployed.map (fun e => ((e.1, b.number), e.2))))
      (b.diff.replaced.map (fun e => ((e.1, b.number), e.2))) := by rw [hs']
  have gC : ∀ a, Map.get s'.contracts a =
      if isSys a = true ∧ touched b.diff a = true ∧ storageEmpty (writeStorage s.storage b.diff.storage) a = true then none
      else Map.get cs3 a := by
    intro a; rw [eC]; exact u8 a
  have hcs2none : ∀ a, Map.get cs0 a = none → Map.get cs2 a = none := by
    intro a h
    rw [g2 a, g1 a, h]
    cases Map.get b.diff.nonces a <;> cases Map.get b.diff.replaced a <;> rfl
  -- a contract that is not a system contract created by this very block is never purged
  have notPurged : ∀ a, (Map.get cs2 a).isSome = true → Map.get s'.contracts a = Map.get cs2 a := by
    intro a ha
    rw [gC a, g3 a]
    have e3 : (if ((Map.get cs2 a).isNone && isSys a && decide (a ∈ addrsOf b.diff.storage)) = true
        then some (⟨0, 0, b.number⟩ : Contract) else Map.get cs2 a) = Map.get cs2 a := by
      cases hg : Map.get cs2 a with
      | none => rw [hg] at ha; cases ha
      | some ct => simp
    rw [e3]
    by_cases hsys : isSys a = true
    · -- a system contract in cs2 existed before the block (it is not deployed)
      have hpre : (Map.get s.contracts a).isSome = true := by
        cases hd : Map.get b.diff.deployed a with
        | some c => rw [depNotSys a c hd] at hsys; cases hsys
        | none =>
          cases hg : Map.get s.contracts a with
          | some ct => rfl
          | none =>
            have := hcs2none a (by rw [g0 a, hd, hg])
            rw [this] at ha; cases ha
      simp [noSysEmptied a hsys hpre]
    · simp [hsys]
  have cs2_of_pre : ∀ a, (Map.get s.contracts a).isSome = true → (Map.get cs2 a).isSome = true := by
    intro a ha
    rw [g2 a, g1 a, g0 a]
    cases hd : Map.get b.diff.deployed a with
    | some c => cases Map.get b.diff.nonces a <;> cases Map.get b.diff.replaced a <;> rfl
    | none =>
      cases hg : Map.get s.contracts a with
      | none => rw [hg] at ha; cases ha
      | some ct => cases Map.get b.diff.nonces a <;> cases Map.get b.diff.replaced a <;> rfl
  -- histories: entries of other blocks are unchanged, entries of this block come from the diff
  have hSother : ∀ q j, j ≠ b.number → Map.get s'.hStorage (q, j) = Map.get s.hStorage (q, j) := by
    intro q j hj; rw [eHS]; exact get_setAll_block_ne _ _ _ _ _ hj
  have hNother : ∀ q j, j ≠ b.number → Map.get s'.hNonce (q, j) = Map.get s.hNonce (q, j) := by
    intro q j hj; rw [eHN]; exact get_setAll_block_ne _ _ _ _ _ hj
  have hCother : ∀ q j, j ≠ b.number → Map.get s'.hClass (q, j) = Map.get s.hClass (q, j) := by
    intro q j hj; rw [eHC, get_setAll_block_ne _ _ _ _ _ hj, get_setAll_block_ne _ _ _ _ _ hj]
  have hSat : ∀ q, Map.get s'.hStorage (q, b.number) = Map.get b.diff.storage q := by
    intro q
    rw [eHS, get_setAll_at _ _ dSto, inv.aboveS q b.number (Nat.le_refl _)]
    cases Map.get b.diff.storage q <;> rfl
  have hNat : ∀ q, Map.get s'.hNonce (q, b.number) = Map.get b.diff.nonces q := by
    intro q
    rw [eHN, get_setAll_at _ _ dNon, inv.aboveN q b.number (Nat.le_refl _)]
    cases Map.get b.diff.nonces q <;> rfl
  have hCat : ∀ q, Map.get s'.hClass (q, b.number) =
      match Map.get b.diff.replaced q with | some c => some c | none => Map.get b.diff.deployed q := by
    intro q
    rw [eHC, get_setAll_at _ _ dRep, get_setAll_at _ _ dDep, inv.aboveC q b.number (Nat.le_refl _)]
    cases Map.get b.diff.deployed q <;> cases Map.get b.diff.replaced q <;> rfl
  refine ⟨{ sC := by rw [eC]; exact u7, sSt := by rw [eS]; exact sSt', sCl := by rw [eCl]; exact k1,
            sTr := by rw [eTr]; exact k2,
            sHS := by rw [eHS]; exact sorted_setAll inv.sHS _, sHN := by rw [eHN]; exact sorted_setAll inv.sHN _,
            sHC := by rw [eHC]; exact sorted_setAll (sorted_setAll inv.sHC _) _, sCasm := k3,
            aboveS := fun p m hm => by rw [hSother p m (by omega)]; exact inv.aboveS p m (by omega),
            aboveN := fun p m hm => by rw [hNother p m (by omega)]; exact inv.aboveN p m (by omega),
            aboveC := fun p m hm => by rw [hCother p m (by omega)]; exact inv.aboveC p m (by omega),
            nonzero := ?_, owned := ?_, genesis := fun h => by omega,
            classAt := by rw [eCl]; exact k4, trieSub := by rw [eCl, eTr]; exact k5, casmLink := by rw [eTr]; exact k6 },
          { histS := ?_, histN := ?_, histC := ?_, sysNonEmpty := ?_ }⟩
  · intro p v hv
    rw [eS, gSt p] at hv
    cases hd : Map.get b.diff.storage p with
    | none => rw [hd] at hv; exact inv.nonzero p v hv
    | some x =>
      rw [hd] at hv
      by_cases hx : x = 0
      · simp [hx] at hv
      · simp [hx] at hv; omega
  · -- owned
    intro a k v hv
    have hne : storageEmpty (writeStorage s.storage b.diff.storage) a = false := by
      cases he : storageEmpty (writeStorage s.storage b.diff.storage) a with
      | false => rfl
      | true =>
        have := (storageEmpty_iff _ a).1 he k
        rw [eS] at hv
        rw [this] at hv; cases hv
    rw [gC a]
    simp only [hne, Bool.false_eq_true, and_false, if_false]
    rw [eS, gSt (a, k)] at hv
    cases hd : Map.get b.diff.storage (a, k) with
    | none => rw [hd] at hv; exact pS a (inv.owned a k v hv)
    | some x => exact pA a (mem_addrsOf_of_get hd)
  · -- histS
    intro p m hm
    rw [valueAtNew_after s.hStorage s'.hStorage (fun q => Map.get b.diff.storage q) b.number p m (by omega)
      inv.aboveS hSother hSat, eS, gSt p]
    cases hd : Map.get b.diff.storage p with
    | some v =>
      by_cases hv : v = 0 <;> simp [hv]
    | none =>
      simp only []
      by_cases hn : b.number = 0
      · simp only [hn, if_true]
        have := ninv.histS p 0 (by omega)
        rw [← this]
        simp only [valueAtNew, inv.aboveS p 0 (by omega)]
      · simp only [hn, if_false]
        exact ninv.histS p (b.number - 1) (by omega)
  · -- histN
    intro a m hm
    rw [valueAtNew_after s.hNonce s'.hNonce (fun q => Map.get b.diff.nonces q) b.number a m (by omega)
      inv.aboveN hNother hNat]
    unfold nonceOf
    cases hd : Map.get b.diff.nonces a with
    | some x =>
      obtain ⟨v, hv, _⟩ := f2 a x hd
      have hcs2 : (Map.get cs2 a).isSome = true := by rw [g2 a, hd, hv]; rfl
      rw [notPurged a hcs2, g2 a, hd, hv]
      rfl
    | none =>
      simp only []
      have hold : (if b.number = 0 then none else valueAtNew s.hNonce a (b.number - 1)).getD 0 = nonceOf s.contracts a := by
        by_cases hn : b.number = 0
        · simp only [hn, if_true]
          have := ninv.histN a 0 (by omega)
          rw [← this]
          simp only [valueAtNew, inv.aboveN a 0 (by omega)]
        · simp only [hn, if_false]
          exact ninv.histN a (b.number - 1) (by omega)
      rw [hold]
      unfold nonceOf
      -- the nonce of a is unchanged (0 for a contract created by the block)
      rw [gC a, g3 a, g2 a, hd, g1 a, g0 a]
      cases hdep : Map.get b.diff.deployed a with
      | some c =>
        have hs0 := f0 a c hdep
        cases Map.get b.diff.replaced a <;> simp [hs0, depNotSys a c hdep]
      | none =>
        cases hs : Map.get s.contracts a with
        | some ct =>
          have hnp := notPurged a (cs2_of_pre a (by rw [hs]; rfl))
          rw [gC a, g3 a, g2 a, hd, g1 a, g0 a, hdep, hs] at hnp
          rw [hnp]
          cases Map.get b.diff.replaced a <;> rfl
        | none =>
          cases hr : Map.get b.diff.replaced a <;> simp <;> split <;> (try rfl) <;> split <;> rfl
  · -- histC
    intro a m hm
    rw [valueAtNew_after s.hClass s'.hClass
      (fun q => match Map.get b.diff.replaced q with | some c => some c | none => Map.get b.diff.deployed q)
      b.number a m (by omega) inv.aboveC hCother hCat]
    unfold classOf
    cases hr : Map.get b.diff.replaced a with
    | some c' =>
      obtain ⟨v, hv, _⟩ := f1 a c' hr
      have hcs2 : (Map.get cs2 a).isSome = true := by
        rw [g2 a, g1 a, hr, hv]
        cases Map.get b.diff.nonces a <;> rfl
      rw [notPurged a hcs2, g2 a, g1 a, hr, hv]
      cases Map.get b.diff.nonces a <;> rfl
    | none =>
      simp only []
      cases hdep : Map.get b.diff.deployed a with
      | some c =>
        have hcs2 : (Map.get cs2 a).isSome = true := by
          rw [g2 a, g1 a, hr, g0 a, hdep]
          cases Map.get b.diff.nonces a <;> rfl
        rw [notPurged a hcs2, g2 a, g1 a, hr, g0 a, hdep]
        cases Map.get b.diff.nonces a <;> rfl
      | none =>
        simp only []
        have hold : (if b.number = 0 then none else valueAtNew s.hClass a (b.number - 1)).getD 0 = classOf s.contracts a := by
          by_cases hn : b.number = 0
          · simp only [hn, if_true]
            have := ninv.histC a 0 (by omega)
            rw [← this]
            simp only [valueAtNew, inv.aboveC a 0 (by omega)]
          · simp only [hn, if_false]
            exact ninv.histC a (b.number - 1) (by omega)
        rw [hold]
        unfold classOf
        cases hs : Map.get s.contracts a with
        | some ct =>
          have hnp := notPurged a (cs2_of_pre a (by rw [hs]; rfl))
          rw [hnp, g2 a, g1 a, hr, g0 a, hdep, hs]
          cases Map.get b.diff.nonces a <;> rfl
        | none =>
          rw [gC a, g3 a, g2 a, g1 a, hr, g0 a, hdep, hs]
          cases Map.get b.diff.nonces a <;> simp <;> split <;> (try rfl) <;> split <;> rfl
  · -- sysNonEmpty
    intro a hsys ha
    rw [eS]
    cases he : storageEmpty (writeStorage s.storage b.diff.storage) a with
    | false => rfl
    | true =>
      exfalso
      rw [gC a] at ha
      -- the contract survived the purge although its storage is empty: it was not touched, so it existed before
      by_cases ht : touched b.diff a = true
      · simp [hsys, ht, he] at ha
      · simp only [hsys, ht, he, and_true, and_false, true_and, if_false, Bool.false_eq_true] at ha
        have hnt : a ∉ addrsOf b.diff.storage := fun hm => ht ((touched_false_iff _ a).2 (Or.inr (Or.inr (Or.inr hm))))
        have hnd : Map.get b.diff.deployed a = none := by
          cases hd : Map.get b.diff.deployed a with
          | none => rfl
          | some c => exact absurd ((touched_false_iff _ a).2 (Or.inl (by rw [hd]; rfl))) ht
        have hpre : (Map.get s.contracts a).isSome = true := by
          rw [g3 a] at ha
          simp only [hnt, decide_false, Bool.and_false, Bool.false_eq_true, if_false] at ha
          cases hg : Map.get s.contracts a with
          | some ct => rfl
          | none =>
            have := hcs2none a (by rw [g0 a, hnd, hg])
            rw [this] at ha; cases ha
        have := noSysEmptied a hsys hpre
        rw [he] at this; cases this

end Juno.C04
