import JunoModel.C04.ProofsReach
import JunoModel.C04.ModelBC
/-!
C04 helper lemmas, part 16: a restart is a no-op. On every reachable node the running event filter
that `InitializeRunningEventFilter` computes from the database (chain height, snapshot, persisted
windows, header blooms) is the filter the process had in memory, and the initialisation leaves the
persisted windows alone.
-/
set_option linter.unusedSectionVars false
set_option linter.unusedVariables false
namespace Juno.C04
open Map

/-- the column of a block in an aggregated filter: its header's bloom unless that is empty -/
def nzBloom (h : Option Header) : Option Nat :=
  match h with
  | some h => if h.bloom = 0 then none else some h.bloom
  | none => none

/-- `bl` holds exactly the non-empty header blooms of the blocks in `[lo, hi)` -/
structure ColsOf (headers : Map Nat Header) (bl : Map Nat Nat) (lo hi : Nat) : Prop where
  sorted : Sorted bl
  get : ∀ m, Map.get bl m = if lo ≤ m ∧ m < hi then nzBloom (Map.get headers m) else none

theorem ColsOf.unique {headers : Map Nat Header} {b1 b2 : Map Nat Nat} {lo hi : Nat}
    (h1 : ColsOf headers b1 lo hi) (h2 : ColsOf headers b2 lo hi) : b1 = b2 :=
  ext h1.sorted h2.sorted (fun k => by rw [h1.get, h2.get])

theorem ColsOf.nil (headers : Map Nat Header) (lo : Nat) : ColsOf headers [] lo lo :=
  ⟨trivial, fun m => by simp only [Map.get]; rw [if_neg]; omega⟩

/-- one more block -/
theorem ColsOf.step {headers : Map Nat Header} {bl : Map Nat Nat} {lo m : Nat} {h : Header}
    (c : ColsOf headers bl lo m) (hlo : lo ≤ m) (hm : Map.get headers m = some h) :
    ColsOf headers (if h.bloom = 0 then bl else Map.set bl m h.bloom) lo (m + 1) := by
  constructor
  · split
    · exact c.sorted
    · exact sorted_set c.sorted _ _
  · intro j
    by_cases hj : j = m
    · subst hj
      have hin : lo ≤ j ∧ j < j + 1 := ⟨hlo, by omega⟩
      simp only [hin, and_self, if_true, hm, nzBloom]
      by_cases hb : h.bloom = 0
      · simp only [hb, if_true]
        rw [c.get]; rw [if_neg]; omega
      · simp only [hb, if_false]
        exact get_set_self _ _ _
    · have hg : Map.get (if h.bloom = 0 then bl else Map.set bl m h.bloom) j = Map.get bl j := by
        split
        · rfl
        · exact get_set_ne _ _ hj
      rw [hg, c.get]
      by_cases hin : lo ≤ j ∧ j < m
      · have hin' : lo ≤ j ∧ j < m + 1 := ⟨hin.1, by omega⟩
        simp only [hin, hin', and_self, if_true]
      · have hin' : ¬ (lo ≤ j ∧ j < m + 1) := by
          intro h2; apply hin; exact ⟨h2.1, by omega⟩
        simp only [hin, hin', if_false]

/-- the headers changed only at or above `hi` -/
theorem ColsOf.mono {h1 h2 : Map Nat Header} {bl : Map Nat Nat} {lo hi : Nat}
    (c : ColsOf h1 bl lo hi) (he : ∀ m, m < hi → Map.get h2 m = Map.get h1 m) : ColsOf h2 bl lo hi :=
  ⟨c.sorted, fun m => by
    rw [c.get]
    by_cases hin : lo ≤ m ∧ m < hi
    · simp only [hin, and_self, if_true, he m hin.2]
    · simp only [hin, if_false]⟩

/-- What the database says about the running filter and the persisted windows. -/
structure RestartInv (cfg : Cfg) (nd : Node) : Prop where
  hdrBelow : ∀ m, m < nd.nextNumber → (Map.get nd.headers m).isSome = true
  cols : ColsOf nd.headers nd.running.blooms nd.running.fromBlock nd.nextNumber
  pers : ∀ s, s % cfg.window = 0 → s < nd.running.fromBlock →
    ∃ bl, Map.get nd.persisted s = some bl ∧ ColsOf nd.headers bl s (s + cfg.window)

theorem init_RestartInv (cfg : Cfg) : RestartInv cfg Node.init where
  hdrBelow := fun m h => by simp [Node.init, Node.nextNumber] at h
  cols := ColsOf.nil _ _
  pers := fun s _ h => by simp [Node.init] at h

theorem store_nextNumber {cfg : Cfg} {nd nd' : Node} {b : Block} (h : store cfg nd b = .ok nd') :
    nd'.nextNumber = b.number + 1 := by
  have := store_height h
  simp [Node.nextNumber, this]

theorem store_RestartInv {cfg : Cfg} {nd nd' : Node} {b : Block}
    (inv : NodeInv cfg nd) (ri : RestartInv cfg nd) (h : store cfg nd b = .ok nd') : RestartInv cfg nd' := by
  obtain ⟨st', casm', f', p', hn, hus, hsc, hfi, hnd⟩ := store_parts h
  have hnn : nd'.nextNumber = b.number + 1 := store_nextNumber h
  have fi := inv.filter
  rw [← hn] at fi
  obtain ⟨wpos, hnext, lo, hi, hal, sb, sp, hba, hna⟩ := fi
  have hhdr : ∀ m, Map.get nd'.headers m = if m = b.number then some ⟨b.hash, b.parent, b.ver, b.bloom, b.payload, b.newRoot⟩ else Map.get nd.headers m := by
    intro m; rw [hnd]; exact get_set _ _ _ _
  have hbelow : ∀ m, m < b.number → Map.get nd'.headers m = Map.get nd.headers m := by
    intro m hm; rw [hhdr]; rw [if_neg]; omega
  have cols0 : ColsOf nd.headers nd.running.blooms nd.running.fromBlock b.number := hn ▸ ri.cols
  have cols1 : ColsOf nd'.headers nd.running.blooms nd.running.fromBlock b.number := cols0.mono hbelow
  have hself : Map.get nd'.headers b.number = some ⟨b.hash, b.parent, b.ver, b.bloom, b.payload, b.newRoot⟩ := by
    rw [hhdr]; simp
  have cols2 := cols1.step lo hself
  simp only [] at cols2
  have hrun : nd'.running = f' := by rw [hnd]
  have hper : nd'.persisted = p' := by rw [hnd]
  have hbelow' : ∀ m, m < nd'.nextNumber → (Map.get nd'.headers m).isSome = true := by
    intro m hm
    rw [hnn] at hm
    by_cases hmb : m = b.number
    · subst hmb; rw [hself]; rfl
    · rw [hbelow m (by omega)]
      exact ri.hdrBelow m (by rw [← hn]; omega)
  have persOld : ∀ s, s % cfg.window = 0 → s < nd.running.fromBlock →
      ∃ bl, Map.get nd.persisted s = some bl ∧ ColsOf nd'.headers bl s (s + cfg.window) := by
    intro s hs hlt
    obtain ⟨bl, hg, hc⟩ := ri.pers s hs hlt
    refine ⟨bl, hg, hc.mono (fun m hm => hbelow m ?_)⟩
    -- s + window <= fromBlock <= b.number
    have h1 : nd.running.fromBlock % cfg.window = 0 := hal
    have : s + cfg.window ≤ nd.running.fromBlock := by
      have e1 := Nat.div_add_mod s cfg.window
      have e2 := Nat.div_add_mod nd.running.fromBlock cfg.window
      rw [hs] at e1; rw [h1] at e2
      have hq : s / cfg.window < nd.running.fromBlock / cfg.window := by
        apply Nat.lt_of_mul_lt_mul_left (a := cfg.window)
        omega
      have := Nat.mul_le_mul_left cfg.window hq
      rw [Nat.mul_succ] at this
      omega
    omega
  unfold filterInsert at hfi
  have hr : (b.number < nd.running.fromBlock || nd.running.fromBlock + cfg.window - 1 < b.number) = false := by
    simp only [Bool.or_eq_false_iff, decide_eq_false_iff_not]; omega
  simp only [hr, Bool.false_eq_true, if_false] at hfi
  by_cases hlast : b.number = nd.running.fromBlock + cfg.window - 1
  · rw [if_pos hlast] at hfi
    injection hfi with hfi
    injection hfi with hf hp
    have hfull : nd.running.fromBlock + cfg.window = b.number + 1 := by omega
    refine ⟨hbelow', ?_, ?_⟩
    · rw [hrun, ← hf, hnn]
      exact ColsOf.nil _ _
    · intro s hs hlt
      rw [hrun, ← hf] at hlt
      rw [hper, ← hp]
      have hlt' : s < b.number + 1 := hlt
      by_cases hsf : s = nd.running.fromBlock
      · subst hsf
        refine ⟨_, get_set_self _ _ _, ?_⟩
        rw [hfull]
        exact cols2
      · rw [get_set_ne _ _ hsf]
        apply persOld s hs
        -- s is a multiple of the window below fromBlock + window, and not fromBlock
        have e1 := Nat.div_add_mod s cfg.window
        have e2 := Nat.div_add_mod nd.running.fromBlock cfg.window
        rw [hs] at e1; rw [hal] at e2
        have hq : s / cfg.window < nd.running.fromBlock / cfg.window + 1 := by
          apply Nat.lt_of_mul_lt_mul_left (a := cfg.window)
          rw [Nat.mul_succ]
          omega
        have hq2 : s / cfg.window ≠ nd.running.fromBlock / cfg.window := by
          intro heq; apply hsf; rw [← e1, ← e2, heq]
        have hq3 : s / cfg.window + 1 ≤ nd.running.fromBlock / cfg.window := by omega
        have := Nat.mul_le_mul_left cfg.window hq3
        rw [Nat.mul_succ] at this
        omega
  · rw [if_neg hlast] at hfi
    injection hfi with hfi
    injection hfi with hf hp
    refine ⟨hbelow', ?_, ?_⟩
    · rw [hrun, ← hf, hnn]
      exact cols2
    · intro s hs hlt
      rw [hrun, ← hf] at hlt
      rw [hper, ← hp]
      exact persOld s hs hlt

theorem good_RestartInv {cfg : Cfg} (hc : cfg.asFound) {nd : Node} (g : Good cfg nd) : RestartInv cfg nd := by
  induction g with
  | init => exact init_RestartInv cfg
  | store g0 ok h ih => exact store_RestartInv (good_inv hc g0) ih h

/-! ### Filling a filter from the headers -/

/-- a filter that holds exactly the blocks `[fromBlock, next)` of its (aligned) window -/
structure FRel (cfg : Cfg) (headers : Map Nat Header) (f : Filter) : Prop where
  aligned : f.fromBlock % cfg.window = 0
  lo : f.fromBlock ≤ f.next
  hi : f.next ≤ f.fromBlock + cfg.window - 1
  cols : ColsOf headers f.blooms f.fromBlock f.next

theorem FRel.unique {cfg : Cfg} {hd : Map Nat Header} {f g : Filter} (h1 : FRel cfg hd f) (h2 : FRel cfg hd g)
    (ef : f.fromBlock = g.fromBlock) (en : f.next = g.next) : f = g := by
  obtain ⟨ff, fn, fb⟩ := f
  obtain ⟨gf, gn, gb⟩ := g
  simp only at ef en
  subst ef; subst en
  have := h1.cols.unique h2.cols
  simp only at this
  rw [this]

/-- two aligned windows that contain the same block number start at the same block -/
theorem aligned_unique {w a b n : Nat} (ha : a % w = 0) (hb : b % w = 0)
    (h1 : a ≤ n) (h2 : n ≤ a + w - 1) (h3 : b ≤ n) (h4 : n ≤ b + w - 1) (wpos : 0 < w) : a = b := by
  have e1 := Nat.div_add_mod a w
  have e2 := Nat.div_add_mod b w
  rw [ha] at e1; rw [hb] at e2
  have hq : a / w = b / w := by
    apply Nat.le_antisymm
    · apply Nat.le_of_lt_succ
      apply Nat.lt_of_mul_lt_mul_left (a := w)
      rw [Nat.mul_succ]; omega
    · apply Nat.le_of_lt_succ
      apply Nat.lt_of_mul_lt_mul_left (a := w)
      rw [Nat.mul_succ]; omega
  rw [← e1, ← e2, hq]

theorem running_FRel {cfg : Cfg} {nd : Node} (inv : NodeInv cfg nd) (ri : RestartInv cfg nd) :
    FRel cfg nd.headers nd.running ∧ nd.running.next = nd.nextNumber := by
  obtain ⟨wpos, hnext, lo, hi, hal, sb, sp, hba, hna⟩ := inv.filter
  refine ⟨⟨hal, by omega, by omega, ?_⟩, hnext⟩
  rw [hnext]; exact ri.cols

theorem insert_noclose {cfg : Cfg} {hd : Map Nat Header} {f : Filter} {p : Windows} {h : Header}
    (r : FRel cfg hd f) (hm : Map.get hd f.next = some h) (hlt : f.next < f.fromBlock + cfg.window - 1) :
    ∃ f', filterInsert cfg f p h.bloom f.next = .ok (f', p) ∧ f'.fromBlock = f.fromBlock ∧ f'.next = f.next + 1 ∧
      FRel cfg hd f' := by
  unfold filterInsert
  have hr : (f.next < f.fromBlock || f.fromBlock + cfg.window - 1 < f.next) = false := by
    have := r.lo
    simp only [Bool.or_eq_false_iff, decide_eq_false_iff_not]; omega
  have hnl : ¬ f.next = f.fromBlock + cfg.window - 1 := by omega
  simp only [hr, Bool.false_eq_true, if_false, hnl]
  refine ⟨_, rfl, rfl, rfl, ⟨r.aligned, ?_, ?_, ?_⟩⟩
  · show f.fromBlock ≤ f.next + 1
    have := r.lo; omega
  · show f.next + 1 ≤ f.fromBlock + cfg.window - 1
    omega
  · exact r.cols.step r.lo hm

theorem fill_noclose {cfg : Cfg} {hd : Map Nat Header} : ∀ (k : Nat) (f : Filter) (p : Windows), FRel cfg hd f →
    f.next + k ≤ f.fromBlock + cfg.window - 1 →
    (∀ j, f.next ≤ j → j < f.next + k → (Map.get hd j).isSome = true) →
    ∃ f', fillFilter cfg hd k f.next (f, p) = .ok (f', p) ∧ f'.fromBlock = f.fromBlock ∧ f'.next = f.next + k ∧
      FRel cfg hd f' := by
  intro k
  induction k with
  | zero => intro f p r _ _; exact ⟨f, rfl, rfl, rfl, r⟩
  | succ k ih =>
    intro f p r hle hhd
    have hs := hhd f.next (Nat.le_refl _) (by omega)
    cases hm : Map.get hd f.next with
    | none => rw [hm] at hs; cases hs
    | some h =>
      obtain ⟨f1, hi1, hf1, hn1, r1⟩ := insert_noclose (p := p) r hm (by omega)
      obtain ⟨f2, hi2, hf2, hn2, r2⟩ := ih f1 p r1 (by rw [hn1, hf1]; omega)
        (fun j h1 h2 => hhd j (by rw [hn1] at h1; omega) (by rw [hn1] at h2; omega))
      refine ⟨f2, ?_, by rw [hf2, hf1], by rw [hn2, hn1]; omega, r2⟩
      simp only [fillFilter, hm, hi1]
      rw [hn1] at hi2
      exact hi2

theorem fillFilter_snoc (cfg : Cfg) (hd : Map Nat Header) : ∀ (k m : Nat) (fp : Filter × Windows),
    fillFilter cfg hd (k + 1) m fp =
      match fillFilter cfg hd k m fp with
      | .ok fp' => fillFilter cfg hd 1 (m + k) fp'
      | .error e => .error e := by
  intro k
  induction k with
  | zero => intro m fp; simp [fillFilter]
  | succ k ih =>
    intro m fp
    rw [fillFilter]
    conv => rhs; rw [fillFilter]
    cases hm : Map.get hd m with
    | none => rfl
    | some h =>
      simp only []
      cases hi : filterInsert cfg fp.1 fp.2 h.bloom m with
      | error e => rfl
      | ok fp' =>
        simp only []
        rw [ih (m + 1) fp']
        have : m + 1 + k = m + (k + 1) := by omega
        rw [this]

/-- Filling a filter that is consistent with the headers up to the head gives the running filter and
leaves the persisted windows as they are (also when the fill completes a window: the window it writes is
the one that is there). -/
theorem fill_to_running {cfg : Cfg} {nd : Node} (inv : NodeInv cfg nd) (ri : RestartInv cfg nd) {latest : Nat}
    (hh : nd.height = some latest) (f : Filter) (r : FRel cfg nd.headers f)
    (hle : f.next ≤ latest + 1) (hwin : latest ≤ f.fromBlock + cfg.window - 1) :
    fillFilter cfg nd.headers (latest + 1 - f.next) f.next (f, nd.persisted) = .ok (nd.running, nd.persisted) := by
  have hnn : nd.nextNumber = latest + 1 := by simp [Node.nextNumber, hh]
  obtain ⟨rr, rnext⟩ := running_FRel inv ri
  rw [hnn] at rnext
  have wpos := inv.filter.wpos
  have hdr : ∀ j, j < latest + 1 → (Map.get nd.headers j).isSome = true := fun j hj => ri.hdrBelow j (by rw [hnn]; exact hj)
  by_cases hcl : latest + 1 ≤ f.fromBlock + cfg.window - 1
  · obtain ⟨f', hfill, hf', hn', r'⟩ := fill_noclose (latest + 1 - f.next) f nd.persisted r (by omega)
      (fun j _ h2 => hdr j (by omega))
    rw [hfill]
    have hn'' : f'.next = latest + 1 := by rw [hn']; omega
    have : f' = nd.running := by
      apply r'.unique rr _ (by rw [hn'', rnext])
      exact aligned_unique r'.aligned rr.aligned (by have := r'.lo; omega) (by have := r'.hi; omega)
        (by have := rr.lo; omega) (by have := rr.hi; omega) wpos
    rw [this]
  · -- the fill completes the window of `f`
    have hlast : latest = f.fromBlock + cfg.window - 1 := by omega
    have hlt : f.next ≤ latest := by have := r.hi; omega
    have hk : latest + 1 - f.next = (latest - f.next) + 1 := by omega
    rw [hk, fillFilter_snoc]
    obtain ⟨f1, hfill, hf1, hn1, r1⟩ := fill_noclose (latest - f.next) f nd.persisted r (by omega)
      (fun j _ h2 => hdr j (by omega))
    rw [hfill]
    simp only []
    have hn1' : f1.next = latest := by rw [hn1]; omega
    have e0 : f.next + (latest - f.next) = latest := by omega
    rw [e0]
    have hs := hdr latest (by omega)
    cases hm : Map.get nd.headers latest with
    | none => rw [hm] at hs; cases hs
    | some h =>
      have hm1 : Map.get nd.headers f1.next = some h := by rw [hn1']; exact hm
      have cfull := r1.cols.step r1.lo hm1
      rw [hn1', hf1] at cfull
      simp only [fillFilter, hm]
      unfold filterInsert
      have hr : (latest < f1.fromBlock || f1.fromBlock + cfg.window - 1 < latest) = false := by
        simp only [Bool.or_eq_false_iff, decide_eq_false_iff_not]; rw [hf1]; omega
      have hl1 : latest = f1.fromBlock + cfg.window - 1 := by rw [hf1]; exact hlast
      simp only [hr, Bool.false_eq_true, if_false]
      rw [if_pos hl1]
      simp only []
      -- the running filter is the new, empty window
      have hfrom : nd.running.fromBlock = latest + 1 := by
        have hmod : (latest + 1) % cfg.window = 0 := by
          have : latest + 1 = f.fromBlock + cfg.window := by omega
          rw [this, Nat.add_mod_right]; exact r.aligned
        exact aligned_unique rr.aligned hmod (by have := rr.lo; omega) (by have := rr.hi; omega) (Nat.le_refl _) (by omega) wpos
      have hrun : nd.running = ⟨latest + 1, latest + 1, []⟩ := by
        have rnil : FRel cfg nd.headers ⟨latest + 1, latest + 1, []⟩ :=
          ⟨by rw [← hfrom]; exact rr.aligned, Nat.le_refl _, by show latest + 1 ≤ latest + 1 + cfg.window - 1; omega, ColsOf.nil _ _⟩
        exact rr.unique rnil hfrom rnext
      -- the window it writes is the persisted one
      obtain ⟨bl, hbl, cbl⟩ := ri.pers f.fromBlock r.aligned (by rw [hfrom]; omega)
      have e1 : f.fromBlock + cfg.window = latest + 1 := by omega
      rw [e1] at cbl
      have hsame : (if h.bloom = 0 then f1.blooms else Map.set f1.blooms latest h.bloom) = bl := cfull.unique cbl
      rw [hsame, hf1, set_same inv.filter.sp hbl, hrun]

theorem has_persisted_below {cfg : Cfg} {nd : Node} (ri : RestartInv cfg nd) (j : Nat)
    (h : j * cfg.window < nd.running.fromBlock) : Map.has nd.persisted (j * cfg.window) = true := by
  obtain ⟨bl, hbl, _⟩ := ri.pers (j * cfg.window) (Nat.mul_mod_left _ _) h
  simp [Map.has, hbl]

theorem continueFrom_hit (w : Nat) (p : Windows) (i : Nat) (h : Map.has p (i * w) = true) :
    continueFrom w p i = (i + 1) * w := by
  cases i with
  | zero => simp only [Nat.zero_mul] at h; simp [continueFrom, h]
  | succ i => simp [continueFrom, h]

theorem continueFrom_eq {cfg : Cfg} {nd : Node} (inv : NodeInv cfg nd) (ri : RestartInv cfg nd) {latest : Nat}
    (hh : nd.height = some latest) :
    continueFrom cfg.window nd.persisted (latest / cfg.window) =
      if (latest + 1) % cfg.window = 0 then latest + 1 else nd.running.fromBlock := by
  have hnn : nd.nextNumber = latest + 1 := by simp [Node.nextNumber, hh]
  obtain ⟨wpos, hnext, lo, hi, hal, sb, sp, hba, hna⟩ := inv.filter
  rw [hnn] at lo hi
  have ed := Nat.div_add_mod latest cfg.window
  have hr := Nat.mod_lt latest wpos
  have eg := Nat.div_add_mod nd.running.fromBlock cfg.window
  rw [hal] at eg
  by_cases hmod : (latest + 1) % cfg.window = 0
  · simp only [hmod, if_true]
    have hfrom : nd.running.fromBlock = latest + 1 :=
      aligned_unique hal hmod lo hi (Nat.le_refl _) (by omega) wpos
    have hq : latest / cfg.window * cfg.window < nd.running.fromBlock := by
      rw [hfrom, Nat.mul_comm]; omega
    rw [continueFrom_hit _ _ _ (has_persisted_below ri _ hq)]
    -- (q + 1) * w = latest + 1
    have e2 := Nat.div_add_mod (latest + 1) cfg.window
    rw [hmod] at e2
    have hq' : (latest + 1) / cfg.window = latest / cfg.window + 1 := by
      apply Nat.le_antisymm
      · apply Nat.le_of_lt_succ
        apply Nat.lt_of_mul_lt_mul_left (a := cfg.window)
        rw [Nat.mul_succ, Nat.mul_succ]; omega
      · apply Nat.succ_le_of_lt
        apply Nat.lt_of_mul_lt_mul_left (a := cfg.window)
        omega
    rw [hq'] at e2
    rw [Nat.mul_comm]; omega
  · simp only [hmod, if_false]
    have hr1 : latest % cfg.window + 1 ≠ cfg.window := by
      intro he
      apply hmod
      have : latest + 1 = cfg.window * (latest / cfg.window + 1) := by rw [Nat.mul_succ]; omega
      rw [this]; exact Nat.mul_mod_right _ _
    have hg : nd.running.fromBlock / cfg.window = latest / cfg.window := by
      apply Nat.le_antisymm
      · apply Nat.le_of_lt_succ
        apply Nat.lt_of_mul_lt_mul_left (a := cfg.window)
        rw [Nat.mul_succ]; omega
      · apply Nat.le_of_lt_succ
        apply Nat.lt_of_mul_lt_mul_left (a := cfg.window)
        rw [Nat.mul_succ]; omega
    have hfrom : nd.running.fromBlock = latest / cfg.window * cfg.window := by
      rw [← hg, Nat.mul_comm]; omega
    have hmiss : Map.has nd.persisted (latest / cfg.window * cfg.window) = false := by
      simp [Map.has, hna _ (by rw [hfrom]; exact Nat.le_refl _)]
    cases hq : latest / cfg.window with
    | zero =>
      rw [hq] at hmiss hfrom
      simp only [Nat.zero_mul] at hmiss hfrom
      simp [continueFrom, hmiss, hfrom]
    | succ j =>
      rw [hq] at hmiss hfrom
      simp only [continueFrom, hmiss, Bool.false_eq_true, if_false]
      rw [continueFrom_hit _ _ _ (has_persisted_below ri j (by rw [hfrom, Nat.succ_mul]; omega))]
      exact hfrom.symm

/-- `rebuildRunningEventFilter` gives the running filter. -/
theorem rebuild_eq {cfg : Cfg} {nd : Node} (inv : NodeInv cfg nd) (ri : RestartInv cfg nd) {latest : Nat}
    (hh : nd.height = some latest) :
    rebuildFilter cfg nd.headers nd.persisted latest = .ok (nd.running, nd.persisted) := by
  have hnn : nd.nextNumber = latest + 1 := by simp [Node.nextNumber, hh]
  obtain ⟨wpos, hnext, lo, hi, hal, sb, sp, hba, hna⟩ := inv.filter
  rw [hnn] at lo hi
  unfold rebuildFilter
  simp only []
  rw [continueFrom_eq inv ri hh]
  by_cases hmod : (latest + 1) % cfg.window = 0
  · simp only [hmod, if_true]
    have r0 : FRel cfg nd.headers ⟨latest + 1, latest + 1, []⟩ :=
      ⟨hmod, Nat.le_refl _, by show latest + 1 ≤ latest + 1 + cfg.window - 1; omega, ColsOf.nil _ _⟩
    exact fill_to_running inv ri hh ⟨latest + 1, latest + 1, []⟩ r0 (Nat.le_refl _) (by show latest ≤ latest + 1 + cfg.window - 1; omega)
  · simp only [hmod, if_false]
    have r0 : FRel cfg nd.headers ⟨nd.running.fromBlock, nd.running.fromBlock, []⟩ :=
      ⟨hal, Nat.le_refl _, by show nd.running.fromBlock ≤ nd.running.fromBlock + cfg.window - 1; omega, ColsOf.nil _ _⟩
    exact fill_to_running inv ri hh ⟨nd.running.fromBlock, nd.running.fromBlock, []⟩ r0 lo (by show latest ≤ nd.running.fromBlock + cfg.window - 1; omega)

/-- What a snapshot in the database can be: the running filter of an earlier moment of THIS chain
(`onReorg` deletes the snapshot, so no reverted block is in it). -/
def SnapOK (cfg : Cfg) (nd : Node) (snap : Option Filter) : Prop :=
  ∀ s, snap = some s → s.next ≤ nd.nextNumber ∧ FRel cfg nd.headers s

/-- A restart is a no-op: `InitializeRunningEventFilter` recomputes the filter the process had, and
leaves the persisted windows alone — with or without a snapshot, whichever of its three branches runs. -/
theorem init_eq {cfg : Cfg} {nd : Node} (inv : NodeInv cfg nd) (ri : RestartInv cfg nd) {snap : Option Filter}
    (so : SnapOK cfg nd snap) : initFilter cfg nd snap = .ok (nd.running, nd.persisted) := by
  obtain ⟨rr, rnext⟩ := running_FRel inv ri
  unfold initFilter
  cases hh : nd.height with
  | none =>
    simp only []
    have hnn : nd.nextNumber = 0 := by simp [Node.nextNumber, hh]
    rw [hnn] at rnext
    have hf : nd.running.fromBlock = 0 := by have := rr.lo; omega
    have r0 : FRel cfg nd.headers ⟨0, 0, []⟩ := ⟨Nat.zero_mod _, Nat.le_refl _, Nat.zero_le _, ColsOf.nil _ _⟩
    rw [rr.unique r0 hf rnext]
  | some latest =>
    have hnn : nd.nextNumber = latest + 1 := by simp [Node.nextNumber, hh]
    rw [hnn] at rnext
    simp only []
    cases hs : snap with
    | none => exact rebuild_eq inv ri hh
    | some s =>
      obtain ⟨sle, sr⟩ := so s hs
      rw [hnn] at sle
      simp only []
      by_cases h1 : s.next = latest + 1
      · simp only [h1, if_true]
        have : s = nd.running := by
          apply sr.unique rr _ (by rw [h1, rnext])
          exact aligned_unique sr.aligned rr.aligned (by have := sr.lo; omega) (by have := sr.hi; omega)
            (by have := rr.lo; omega) (by have := rr.hi; omega) inv.filter.wpos
        rw [this]
      · simp only [h1, if_false]
        by_cases h2 : s.next ≤ latest ∧ latest ≤ s.fromBlock + cfg.window - 1
        · simp only [h2, and_self, if_true]
          exact fill_to_running inv ri hh s sr (by omega) h2.2
        · simp only [h2, if_false]
          exact rebuild_eq inv ri hh

end Juno.C04
