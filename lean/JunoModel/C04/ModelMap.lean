/-
C04 model, part 1: finite maps as strictly sorted association lists.

Every index family of the node (headers by number, numbers by hash, transaction lookups, contract
records, storage, history logs, ...) is a key/value bucket of the database. A bucket is modelled as
a list of (key, value) pairs kept strictly sorted by key, so that two buckets with the same content
are the same term: "the databases of A and B are identical" is plain equality of models.
Core Lean only (linked into `c04drv`).
-/
namespace Juno.C04

/-- A strict total order on keys, given by a Boolean `lt`. -/
class KOrd (κ : Type) where
  lt : κ → κ → Bool
  irrefl : ∀ a, lt a a = false
  trans : ∀ a b c, lt a b = true → lt b c = true → lt a c = true
  tri : ∀ a b, lt a b = false → lt b a = false → a = b

instance : KOrd Nat where
  lt a b := decide (a < b)
  irrefl a := by simp
  trans a b c h1 h2 := by simp at *; omega
  tri a b h1 h2 := by simp at *; omega

/-- Lexicographic order on pairs. -/
instance {α β : Type} [DecidableEq α] [KOrd α] [KOrd β] : KOrd (α × β) where
  lt a b := KOrd.lt a.1 b.1 || (decide (a.1 = b.1) && KOrd.lt a.2 b.2)
  irrefl a := by simp [KOrd.irrefl]
  trans a b c h1 h2 := by
    simp only [Bool.or_eq_true, Bool.and_eq_true, decide_eq_true_eq] at *
    rcases h1 with h1 | ⟨e1, h1⟩ <;> rcases h2 with h2 | ⟨e2, h2⟩
    · exact Or.inl (KOrd.trans _ _ _ h1 h2)
    · exact Or.inl (e2 ▸ h1)
    · exact Or.inl (e1 ▸ h2)
    · exact Or.inr ⟨e1.trans e2, KOrd.trans _ _ _ h1 h2⟩
  tri a b h1 h2 := by
    simp only [Bool.or_eq_false_iff, Bool.and_eq_false_iff, decide_eq_false_iff_not] at *
    obtain ⟨h1a, h1b⟩ := h1
    obtain ⟨h2a, h2b⟩ := h2
    have e : a.1 = b.1 := KOrd.tri _ _ h1a h2a
    have h1b' : KOrd.lt a.2 b.2 = false := by
      rcases h1b with h | h
      · exact absurd e h
      · exact h
    have h2b' : KOrd.lt b.2 a.2 = false := by
      rcases h2b with h | h
      · exact absurd e.symm h
      · exact h
    exact Prod.ext e (KOrd.tri _ _ h1b' h2b')

abbrev Map (κ ν : Type) := List (κ × ν)

namespace Map
variable {κ ν : Type} [DecidableEq κ] [KOrd κ]

def get : Map κ ν → κ → Option ν
  | [], _ => none
  | (k', v) :: m, k => if k = k' then some v else get m k

def has (m : Map κ ν) (k : κ) : Bool := (get m k).isSome

/-- Insert or overwrite, keeping the list sorted. -/
def set : Map κ ν → κ → ν → Map κ ν
  | [], k, v => [(k, v)]
  | (k', v') :: m, k, v =>
    if KOrd.lt k k' then (k, v) :: (k', v') :: m
    else if k = k' then (k, v) :: m
    else (k', v') :: set m k v

def del : Map κ ν → κ → Map κ ν
  | [], _ => []
  | (k', v') :: m, k => if k = k' then m else (k', v') :: del m k

/-- Keep the entries whose key satisfies `p`. -/
def filterK (m : Map κ ν) (p : κ → Bool) : Map κ ν := List.filter (fun e => p e.1) m

/-- Strictly increasing keys. -/
def Sorted : Map κ ν → Prop
  | [] => True
  | (k, _) :: m => (∀ e ∈ m, KOrd.lt k e.1 = true) ∧ Sorted m

/-- Write every entry of `d` (a diff section) into `m`. -/
def setAll (m : Map κ ν) (d : List (κ × ν)) : Map κ ν := d.foldl (fun acc e => set acc e.1 e.2) m

/-- Delete every key of `ks`. -/
def delAll (m : Map κ ν) (ks : List κ) : Map κ ν := ks.foldl (fun acc k => del acc k) m

def keys (m : Map κ ν) : List κ := List.map Prod.fst m

end Map
end Juno.C04
