import JunoModel.C04.ProofsChain
/-!
C04 helper lemmas, part 12: invariants maintained by `Store` (so far: the per-block buckets).
-/
set_option linter.unusedSectionVars false
namespace Juno.C04
open Map

/-- `Store` maintains the invariant of the per-block buckets. -/
theorem store_preserves_IndexWF {cfg : Cfg} {nd nd' : Node} {b : Block} (wf : IndexWF nd)
    (h : store cfg nd b = .ok nd') : IndexWF nd' ∧ nd'.nextNumber = nd.nextNumber + 1 := by
  unfold store at h
  cases hsucc : checkSuccession nd b with
  | error e => simp [hsucc, bind, Except.bind] at h
  | ok u =>
    have hn : b.number = nd.nextNumber := checkSuccession_number hsucc
    cases hus : updateState cfg b nd.st with
    | error e => simp [hsucc, hus, bind, Except.bind] at h
    | ok st' =>
      cases hsc : storeCasm b.number b nd.casm with
      | error e => simp [hsucc, hus, hsc, bind, Except.bind] at h
      | ok casm' =>
        cases hfi : filterInsert cfg nd.running nd.persisted b.bloom b.number with
        | error e => simp [hsucc, hus, hsc, hfi, bind, Except.bind] at h
        | ok fp =>
          obtain ⟨running', persisted'⟩ := fp
          simp only [hsucc, hus, hsc, hfi, bind, Except.bind, pure, Except.pure] at h
          injection h with h
          subst h
          obtain ⟨sH, sN, sT, sL, sM, sS, sC, habove⟩ := wf
          have hnext : Node.nextNumber
              { height := some b.number,
                headers := Map.set nd.headers b.number ⟨b.hash, b.parent, b.ver, b.bloom, b.payload, b.newRoot⟩,
                numByHash := Map.set nd.numByHash b.hash b.number,
                blockTxs := Map.set nd.blockTxs b.number b.txs,
                txLoc := indexTxs b.number nd.txLoc b.txs,
                l1msg := indexL1 nd.l1msg b.txs,
                sus := Map.set nd.sus b.number ⟨b.diff, b.oldRoot, b.newRoot⟩,
                commitments := Map.set nd.commitments b.number b.payload,
                casm := casm', persisted := persisted', running := running', st := st' } = nd.nextNumber + 1 := by
            simp [Node.nextNumber, hn]
          refine ⟨⟨sorted_set sH _ _, sorted_set sN _ _, sorted_set sT _ _, ?_, ?_, sorted_set sS _ _, sorted_set sC _ _, ?_⟩, hnext⟩
          · rw [indexTxs_eq]; exact sorted_setAll sL _
          · rw [indexL1_eq]; exact sorted_setAll sM _
          · intro m hm
            rw [hnext] at hm
            have hne : m ≠ b.number := by omega
            obtain ⟨a1, a2, a3, a4⟩ := habove m (by omega)
            exact ⟨by rw [get_set_ne _ _ hne]; exact a1, by rw [get_set_ne _ _ hne]; exact a2,
                   by rw [get_set_ne _ _ hne]; exact a3, by rw [get_set_ne _ _ hne]; exact a4⟩

/-- The empty node satisfies the invariant. -/
theorem init_IndexWF : IndexWF Node.init :=
  ⟨trivial, trivial, trivial, trivial, trivial, trivial, trivial, fun _ _ => ⟨rfl, rfl, rfl, rfl⟩⟩

end Juno.C04
