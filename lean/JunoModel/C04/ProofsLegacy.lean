import JunoModel.C04.ProofsState
/-!
C04 helper lemmas, part 7: specs of the legacy backend's history logs (`logOld`,
`writeStorageLegacy`, `valueAtOld`) and of its purges.
-/
set_option linter.unusedSectionVars false
namespace Juno.C04
open Map

theorem logOld_spec (n : Nat) (cs : Map Nat Contract) (f : Contract → Nat) (ks : List Nat)
    {h : Map (Nat × Nat) Nat} (hs : Sorted h) :
    Sorted (logOld n cs f h ks) ∧
    ∀ a m, Map.get (logOld n cs f h ks) (a, m) =
      if m = n ∧ a ∈ ks ∧ (Map.get cs a).isSome = true then (Map.get cs a).map f else Map.get h (a, m) := by
  induction ks generalizing h with
  | nil => exact ⟨hs, fun a m => by simp [logOld]⟩
  | cons k ks ih =>
    have hstep : logOld n cs f h (k :: ks) =
        logOld n cs f (match Map.get cs k with | some ct => Map.set h (k, n) (f ct) | none => h) ks := rfl
    rw [hstep]
    cases hg : Map.get cs k with
    | none =>
      simp only []
      obtain ⟨s', hget⟩ := ih hs
      refine ⟨s', ?_⟩
      intro a m
      rw [hget a m]
      by_cases ha : a = k
      · subst ha; simp [hg]
      · simp [ha]
    | some ct =>
      simp only []
      obtain ⟨s', hget⟩ := ih (sorted_set hs (k, n) (f ct))
      refine ⟨s', ?_⟩
      intro a m
      rw [hget a m]
      by_cases ha : a = k
      · subst ha
        by_cases hm : m = n
        · subst hm; simp [hg, get_set_self]
        · have : (a, m) ≠ (a, n) := by intro e; injection e with _ e2; exact hm e2
          simp [hm, get_set_ne h _ this]
      · have : (a, m) ≠ (k, n) := by intro e; injection e with e1 _; exact ha e1
        simp [ha, get_set_ne h _ this]

theorem writeStorageLegacy_spec (n : Nat) (log : Bool) {sto : Map (Nat × Nat) Nat} (hd : Sorted sto)
    {st : Map (Nat × Nat) Nat} (hs : Sorted st) {h : Map ((Nat × Nat) × Nat) Nat} (hh : Sorted h) :
    (writeStorageLegacy n st h log sto).1 = writeStorage st sto ∧
    Sorted (writeStorageLegacy n st h log sto).2 ∧
    ∀ p m, Map.get (writeStorageLegacy n st h log sto).2 (p, m) =
      match Map.get sto p with
      | some v =>
        if m = n ∧ log = true ∧ ¬(v = 0 ∧ Map.get st p = none) then some ((Map.get st p).getD 0) else Map.get h (p, m)
      | none => Map.get h (p, m) := by
  induction sto generalizing st h with
  | nil => exact ⟨rfl, hh, fun p m => rfl⟩
  | cons e d ih =>
    obtain ⟨k0, v0⟩ := e
    obtain ⟨h0, hd'⟩ := hd
    have hd0 : Map.get d k0 = none := get_none_of_lt_all h0
    have hs1 : Sorted (if v0 = 0 then Map.del st k0 else Map.set st k0 v0) := by
      split
      · exact sorted_del hs k0
      · exact sorted_set hs k0 v0
    have hh1 : Sorted (if (log && !(decide (v0 = 0) && (Map.get st k0).isNone)) = true
        then Map.set h (k0, n) ((Map.get st k0).getD 0) else h) := by
      split
      · exact sorted_set hh _ _
      · exact hh
    have hstep : writeStorageLegacy n st h log ((k0, v0) :: d) =
        writeStorageLegacy n (if v0 = 0 then Map.del st k0 else Map.set st k0 v0)
          (if (log && !(decide (v0 = 0) && (Map.get st k0).isNone)) = true
            then Map.set h (k0, n) ((Map.get st k0).getD 0) else h) log d := rfl
    obtain ⟨e1, s2, hget⟩ := ih hd' hs1 hh1
    rw [hstep]
    refine ⟨?_, s2, ?_⟩
    · rw [e1]; rfl
    · intro p m
      rw [hget p m]
      by_cases hp : p = k0
      · subst hp
        simp only [hd0, get_cons_self]
        by_cases hm : m = n
        · subst hm
          cases log with
          | false => simp
          | true =>
            by_cases hv : v0 = 0
            · subst hv
              cases hg : Map.get st p with
              | none => simp [hg]
              | some x => simp [hg, get_set_self]
            · simp [hv, get_set_self]
        · have hne : (p, m) ≠ (p, n) := by intro e; injection e with _ e2; exact hm e2
          split
          · simp [hm, get_set_ne h _ hne]
          · simp [hm]
      · have hne : ∀ mm, (p, m) ≠ (k0, mm) := by intro mm e; injection e with e1 _; exact hp e1
        have hst : Map.get (if v0 = 0 then Map.del st k0 else Map.set st k0 v0) p = Map.get st p := by
          split
          · exact get_del_ne st hp
          · exact get_set_ne st v0 hp
        have hhh : Map.get (if (log && !(decide (v0 = 0) && (Map.get st k0).isNone)) = true
            then Map.set h (k0, n) ((Map.get st k0).getD 0) else h) (p, m) = Map.get h (p, m) := by
          split
          · exact get_set_ne h _ (hne n)
          · rfl
        simp only [Map.get, hp, if_false, hst, hhh]

/-- Legacy `valueAt(key, N-1)` when no log is above block `N`: the log at `N`, if any. -/
theorem valueAtOld_eq {P : Type} [DecidableEq P] (h : Map (P × Nat) Nat) (p : P) (N : Nat) (hN : 0 < N)
    (hb : ∀ e ∈ h, e.1.1 = p → e.1.2 ≤ N) : valueAtOld h p (N - 1) = Map.get h (p, N) := by
  unfold valueAtOld entriesOf
  induction h with
  | nil => rfl
  | cons e h ih =>
    obtain ⟨⟨p0, m0⟩, v0⟩ := e
    have ih' := ih (fun e he => hb e (List.mem_cons_of_mem _ he))
    by_cases hp : p0 = p
    · subst hp
      have hm0 : m0 ≤ N := hb ((p0, m0), v0) (List.mem_cons_self ..) rfl
      by_cases hm : N - 1 < m0
      · have : m0 = N := by omega
        subst this
        simp [List.filter, Map.get, hm]
      · have hne : (p0, N) ≠ (p0, m0) := by intro e; injection e with _ e2; omega
        simp only [List.filter, decide_true, List.map_cons, List.find?, hm, decide_false] at ih' ⊢
        simp only [Map.get, hne, if_false]
        exact ih'
    · have hne : (p, N) ≠ (p0, m0) := by intro e; injection e with e1 _; exact hp e1.symm
      simp only [List.filter, hp, decide_false, Map.get, hne, if_false] at ih' ⊢
      exact ih'

theorem bound_of_above {P : Type} [DecidableEq P] [KOrd P] {h : Map (P × Nat) Nat} (hs : Sorted h) (p : P) (N : Nat)
    (habove : ∀ m, N < m → Map.get h (p, m) = none) : ∀ e ∈ h, e.1.1 = p → e.1.2 ≤ N := by
  intro e he hp
  obtain ⟨⟨p0, m0⟩, v0⟩ := e
  simp only at hp
  subst hp
  have := get_of_mem hs he
  cases Nat.lt_or_ge N m0 with
  | inl hlt => rw [habove m0 hlt] at this; cases this
  | inr hge => exact hge

theorem purgeSysLegacy_spec (s : State) (hs : Sorted s.contracts) :
    (purgeSysLegacy s).storage = s.storage ∧ (purgeSysLegacy s).classes = s.classes ∧
    (purgeSysLegacy s).classTrie = s.classTrie ∧ (purgeSysLegacy s).hStorage = s.hStorage ∧
    (purgeSysLegacy s).hNonce = s.hNonce ∧ (purgeSysLegacy s).hClass = s.hClass ∧
    Sorted (purgeSysLegacy s).contracts ∧
    ∀ a, Map.get (purgeSysLegacy s).contracts a =
      if isSys a = true ∧ storageEmpty s.storage a = true then none else Map.get s.contracts a := by
  unfold purgeSysLegacy
  simp only [List.foldl]
  have key : ∀ (t : State) (x : Nat), Sorted t.contracts →
      let t' := (if (Map.has t.contracts x && storageEmpty t.storage x) = true then { t with contracts := Map.del t.contracts x } else t)
      t'.storage = t.storage ∧ t'.classes = t.classes ∧ t'.classTrie = t.classTrie ∧ t'.hStorage = t.hStorage ∧
      t'.hNonce = t.hNonce ∧ t'.hClass = t.hClass ∧ Sorted t'.contracts ∧
      ∀ a, Map.get t'.contracts a = if a = x ∧ storageEmpty t.storage x = true then none else Map.get t.contracts a := by
    intro t x ht
    by_cases hc : (Map.has t.contracts x && storageEmpty t.storage x) = true
    · rw [if_pos hc]
      refine ⟨rfl, rfl, rfl, rfl, rfl, rfl, sorted_del ht x, ?_⟩
      intro a
      rw [get_del ht]
      simp only [Bool.and_eq_true] at hc
      by_cases ha : a = x
      · simp [ha, hc.2]
      · simp [ha]
    · rw [if_neg hc]
      refine ⟨rfl, rfl, rfl, rfl, rfl, rfl, ht, ?_⟩
      intro a
      by_cases ha : a = x
      · subst ha
        simp only [Bool.and_eq_true, not_and] at hc
        by_cases he : storageEmpty t.storage a = true
        · have : Map.has t.contracts a = false := by
            cases hh : Map.has t.contracts a with
            | false => rfl
            | true => exact absurd he (hc hh)
          simp only [he, and_self, if_true]
          unfold Map.has at this
          cases hg : Map.get t.contracts a with
          | none => rfl
          | some v => rw [hg] at this; cases this
        · simp [he]
      · simp [ha]
  obtain ⟨a1, a2, a3, a4, a5, a6, a7, a8⟩ := key s 1 hs
  obtain ⟨b1, b2, b3, b4, b5, b6, b7, b8⟩ := key _ 2 a7
  refine ⟨by rw [b1, a1], by rw [b2, a2], by rw [b3, a3], by rw [b4, a4], by rw [b5, a5], by rw [b6, a6], b7, ?_⟩
  intro a
  rw [b8 a, a8 a, a1]
  unfold isSys
  by_cases h1 : a = 1
  · subst h1; simp
  · by_cases h2 : a = 2
    · subst h2; simp
    · simp [h1, h2]

end Juno.C04
