import JunoModel.C04.ProofsInvLegacy
/-!
C04 helper lemmas, part 16: the new backend (`core/state`). Specs of `valueAtNew`, of the
system-contract purge in `commit`, and the decomposition of a successful `State.Update`.
-/
set_option linter.unusedSectionVars false
namespace Juno.C04
open Map

section valueAt
variable {P : Type} [DecidableEq P]

/-- `valueAtNew` only looks at the entries of the prefix up to the block asked for. -/
theorem valueAtNew_congr (h1 h2 : Map (P × Nat) Nat) (p : P) (m : Nat)
    (h : ∀ j, j ≤ m → Map.get h1 (p, j) = Map.get h2 (p, j)) : valueAtNew h1 p m = valueAtNew h2 p m := by
  induction m with
  | zero => simp only [valueAtNew]; exact h 0 (Nat.le_refl _)
  | succ m ih =>
    simp only [valueAtNew]
    rw [h (m + 1) (Nat.le_refl _), ih (fun j hj => h j (by omega))]

theorem valueAtNew_top (h : Map (P × Nat) Nat) (p : P) (m v : Nat) (hv : Map.get h (p, m) = some v) :
    valueAtNew h p m = some v := by
  cases m with
  | zero => simp only [valueAtNew]; exact hv
  | succ m => simp only [valueAtNew, hv]

/-- entries above `n` being absent, asking at any block from `n` on gives the same answer -/
theorem valueAtNew_skip (h : Map (P × Nat) Nat) (p : P) (n m : Nat) (hnm : n ≤ m)
    (habs : ∀ j, n < j → Map.get h (p, j) = none) : valueAtNew h p m = valueAtNew h p n := by
  induction m with
  | zero =>
    have : n = 0 := by omega
    subst this; rfl
  | succ m ih =>
    by_cases he : n = m + 1
    · subst he; rfl
    · simp only [valueAtNew, habs (m + 1) (by omega)]
      exact ih (by omega)

theorem valueAtNew_none (h : Map (P × Nat) Nat) (p : P) (m : Nat) (habs : ∀ j, Map.get h (p, j) = none) :
    valueAtNew h p m = none := by
  induction m with
  | zero => simp only [valueAtNew]; exact habs 0
  | succ m ih => simp only [valueAtNew, habs (m + 1)]; exact ih

end valueAt

theorem touched_false_iff (d : Diff) (a : Nat) :
    touched d a = true ↔
      (Map.get d.deployed a).isSome = true ∨ (Map.get d.replaced a).isSome = true ∨ (Map.get d.nonces a).isSome = true ∨
        a ∈ addrsOf d.storage := by
  unfold touched Map.has addrsOf
  simp only [Bool.or_eq_true, List.any_eq_true, beq_iff_eq, List.mem_map]
  constructor
  · rintro (((h | h) | h) | ⟨e, he, hea⟩)
    · exact Or.inl h
    · exact Or.inr (Or.inl h)
    · exact Or.inr (Or.inr (Or.inl h))
    · exact Or.inr (Or.inr (Or.inr ⟨e, he, hea⟩))
  · rintro (h | h | h | ⟨e, he, hea⟩)
    · exact Or.inl (Or.inl (Or.inl h))
    · exact Or.inl (Or.inl (Or.inr h))
    · exact Or.inl (Or.inr h)
    · exact Or.inr ⟨e, he, hea⟩

theorem purgeSysNew_spec (d : Diff) (s : State) (hs : Sorted s.contracts) :
    (purgeSysNew d s).storage = s.storage ∧ (purgeSysNew d s).classes = s.classes ∧
    (purgeSysNew d s).classTrie = s.classTrie ∧ (purgeSysNew d s).hStorage = s.hStorage ∧
    (purgeSysNew d s).hNonce = s.hNonce ∧ (purgeSysNew d s).hClass = s.hClass ∧
    Sorted (purgeSysNew d s).contracts ∧
    ∀ a, Map.get (purgeSysNew d s).contracts a =
      if isSys a = true ∧ touched d a = true ∧ storageEmpty s.storage a = true then none else Map.get s.contracts a := by
  unfold purgeSysNew
  simp only [List.foldl]
  have key : ∀ (t : State) (x : Nat), Sorted t.contracts →
      let t' := (if (Map.has t.contracts x && touched d x && storageEmpty t.storage x) = true then { t with contracts := Map.del t.contracts x } else t)
      t'.storage = t.storage ∧ t'.classes = t.classes ∧ t'.classTrie = t.classTrie ∧ t'.hStorage = t.hStorage ∧
      t'.hNonce = t.hNonce ∧ t'.hClass = t.hClass ∧ Sorted t'.contracts ∧
      ∀ a, Map.get t'.contracts a =
        if a = x ∧ touched d x = true ∧ storageEmpty t.storage x = true then none else Map.get t.contracts a := by
    intro t x ht
    by_cases hc : (Map.has t.contracts x && touched d x && storageEmpty t.storage x) = true
    · rw [if_pos hc]
      refine ⟨rfl, rfl, rfl, rfl, rfl, rfl, sorted_del ht x, ?_⟩
      intro a
      rw [get_del ht]
      simp only [Bool.and_eq_true] at hc
      by_cases ha : a = x
      · simp [ha, hc.2, hc.1.2]
      · simp [ha]
    · rw [if_neg hc]
      refine ⟨rfl, rfl, rfl, rfl, rfl, rfl, ht, ?_⟩
      intro a
      by_cases ha : a = x
      · subst ha
        by_cases he : touched d a = true ∧ storageEmpty t.storage a = true
        · have : Map.has t.contracts a = false := by
            cases hh : Map.has t.contracts a with
            | false => rfl
            | true => exact absurd (by simp [hh, he.1, he.2]) hc
          simp only [he, and_self, if_true]
          unfold Map.has at this
          cases hg : Map.get t.contracts a with
          | none => rfl
          | some v => rw [hg] at this; cases this
        · rw [if_neg (fun h => he h.2)]
      · simp [ha]
  obtain ⟨a1, a2, a3, a4, a5, a6, a7, a8⟩ := key s 1 hs
  obtain ⟨b1, b2, b3, b4, b5, b6, b7, b8⟩ := key _ 2 a7
  refine ⟨by rw [b1, a1], by rw [b2, a2], by rw [b3, a3], by rw [b4, a4], by rw [b5, a5], by rw [b6, a6], b7, ?_⟩
  intro a
  rw [b8 a, a8 a, a1]
  unfold isSys
  by_cases h1 : a = 1
  · subst h1; simp
  · by_cases h2 : a = 2
    · subst h2; simp
    · simp [h1, h2]

/-- a successful `State.Update` of the new backend, step by step -/
theorem new_forward {cfg : Cfg} (hleg : cfg.legacy = false)
    {s s' : State} {b : Block} (h : updateState cfg b s = .ok s') :
    rootOf b.ver s = b.oldRoot ∧ rootOf b.ver s' = b.newRoot ∧
    ∃ cs0 cs1 cs2 cs3,
      applyDeployed b.number s.contracts b.diff.deployed = .ok cs0 ∧
      applyReplaced cs0 b.diff.replaced = .ok cs1 ∧
      applyNonces cs1 b.diff.nonces = .ok cs2 ∧
      touchStorage b.number cs2 b.diff.storage = .ok cs3 ∧
      s' = { purgeSysNew b.diff { s with contracts := cs3, storage := writeStorage s.storage b.diff.storage,
                                          classes := registerClasses b.number s.classes b.classes,
                                          classTrie := updateClassTrie s.classTrie b } with
             hStorage := Map.setAll s.hStorage (b.diff.storage.map (fun e => ((e.1, b.number), e.2))),
             hNonce := Map.setAll s.hNonce (b.diff.nonces.map (fun e => ((e.1, b.number), e.2))),
             hClass := Map.setAll (Map.setAll s.hClass (b.diff.deployed.map (fun e => ((e.1, b.number), e.2))))
                        (b.diff.replaced.map (fun e => ((e.1, b.number), e.2))) } := by
  unfold updateState at h
  by_cases hro : rootOf b.ver s = b.oldRoot
  · simp only [hro, ne_eq, not_true_eq_false, if_false, bind, Except.bind, pure, Except.pure] at h
    cases hau : applyUpdate cfg b s with
    | error e => simp [hau] at h
    | ok st =>
      simp only [hau] at h
      by_cases hrn : rootOf b.ver st = b.newRoot
      · simp only [hrn, not_true_eq_false, if_false] at h
        injection h with h
        subst h
        refine ⟨hro, hrn, ?_⟩
        unfold applyUpdate at hau
        simp only [bind, Except.bind, pure, Except.pure, hleg, Bool.false_eq_true, if_false] at hau
        cases h0 : applyDeployed b.number s.contracts b.diff.deployed with
        | error e => simp [h0] at hau
        | ok cs0 =>
          cases h1 : applyReplaced cs0 b.diff.replaced with
          | error e => simp [h0, h1] at hau
          | ok cs1 =>
            cases h2 : applyNonces cs1 b.diff.nonces with
            | error e => simp [h0, h1, h2] at hau
            | ok cs2 =>
              cases h3 : touchStorage b.number cs2 b.diff.storage with
              | error e => simp [h0, h1, h2, h3] at hau
              | ok cs3 =>
                simp only [h0, h1, h2, h3] at hau
                injection hau with hau
                refine ⟨cs0, cs1, cs2, cs3, ?_, ?_, ?_, ?_, hau.symm⟩ <;> first | rfl | assumption
      · simp [hrn] at h
  · simp [hro, bind, Except.bind] at h

end Juno.C04
