import JunoModel.C10.ProofsR5
/-! C10, round 5 — completeness of the general case of `trie2.VerifyRangeProof` (`verifyRangeWithProof`):
canonicity of `build`, the partial trie `proofToPath` links from honest proofs (`openP`), `fill` on it with the
honest entries of the interval gives the trie back. -/
set_option linter.unusedSectionVars false
set_option linter.unusedSimpArgs false
set_option linter.unnecessarySimpa false
set_option linter.unusedVariables false
namespace Juno.C10
variable {H : Type} [DecidableEq H] {A : HashAlg H}

/-! ### 4. canonicity: the trie of the entries of a tree is the tree -/

/-- the entries of a tree, in key order -/
def ents : Tree H → List (Path × H)
  | .leaf v => [([], v)]
  | .bin l r => (ents l).map (fun kv => (false :: kv.1, kv.2)) ++ (ents r).map (fun kv => (true :: kv.1, kv.2))
  | .edge p c => (ents c).map (fun kv => (p ++ kv.1, kv.2))

/-- no edge directly under an edge (what `mkEdge` / both real tries maintain) -/
def Canon : Tree H → Prop
  | .leaf _ => True
  | .bin l r => Canon l ∧ Canon r
  | .edge _ c => Canon c ∧ (∀ q d, c ≠ .edge q d)

theorem ents_ne_nil (t : Tree H) : ents t ≠ [] := by
  induction t with
  | leaf v => simp [ents]
  | bin l r ihl _ => simp [ents, ihl]
  | edge p c ih => simp [ents, ih]

theorem keysUnder_map_same (b : Bool) (l : List (Path × H)) :
    keysUnder b (l.map (fun kv => (b :: kv.1, kv.2))) = l := by
  induction l with
  | nil => rfl
  | cons x xs ih =>
    simp only [List.map_cons, keysUnder, List.filterMap_cons] at ih ⊢
    simp [ih]

theorem keysUnder_map_other (b : Bool) (l : List (Path × H)) :
    keysUnder b (l.map (fun kv => ((!b) :: kv.1, kv.2))) = [] := by
  induction l with
  | nil => rfl
  | cons x xs ih =>
    simp only [List.map_cons, keysUnder, List.filterMap_cons] at ih ⊢
    cases b <;> simp_all

theorem keysUnder_append (b : Bool) (l1 l2 : List (Path × H)) :
    keysUnder b (l1 ++ l2) = keysUnder b l1 ++ keysUnder b l2 := by
  simp [keysUnder, List.filterMap_append]

theorem build_succ_ne_nil (h : Nat) (kvs : List (Path × H)) (hne : kvs ≠ []) :
    build (h + 1) kvs =
      match build h (keysUnder false kvs), build h (keysUnder true kvs) with
      | none, none => none
      | some a, none => some (mkEdge [false] a)
      | none, some b => some (mkEdge [true] b)
      | some a, some b => some (.bin a b) := by
  cases kvs with
  | nil => exact absurd rfl hne
  | cons x xs => rfl

theorem build_nil (h : Nat) : build h ([] : List (Path × H)) = none := by
  cases h <;> rfl

/-- the edge part: the keys `p ++ k` for the entries `k` of a subtree that is not itself an edge -/
theorem build_edge_prefix (c : Tree H) (m : Nat) (hc : build m (ents c) = some c) (hne : ∀ q d, c ≠ .edge q d) :
    ∀ (p : Path), p ≠ [] →
      build (p.length + m) ((ents c).map (fun kv => (p ++ kv.1, kv.2))) = some (.edge p c) := by
  intro p
  induction p with
  | nil => intro h; exact absurd rfl h
  | cons x p' ih =>
    intro _
    have hlen : (x :: p').length + m = (p'.length + m) + 1 := by simp; omega
    rw [hlen]
    have hne' : (ents c).map (fun kv => (x :: p' ++ kv.1, kv.2)) ≠ [] := by simp [ents_ne_nil]
    rw [build_succ_ne_nil _ _ hne']
    have hmap : (ents c).map (fun kv => (x :: p' ++ kv.1, kv.2)) =
        ((ents c).map (fun kv => (p' ++ kv.1, kv.2))).map (fun kv => (x :: kv.1, kv.2)) := by
      simp [List.map_map, Function.comp]
    have hinner : build (p'.length + m) ((ents c).map (fun kv => (p' ++ kv.1, kv.2))) =
        some (if p' = [] then c else .edge p' c) := by
      by_cases hp : p' = []
      · subst hp; simpa using hc
      · simp only [hp, if_false]; exact ih hp
    cases x with
    | false =>
      rw [hmap, keysUnder_map_same false]
      have : keysUnder true (((ents c).map (fun kv => (p' ++ kv.1, kv.2))).map (fun kv => (false :: kv.1, kv.2))) = [] :=
        keysUnder_map_other true _
      rw [this, build_nil, hinner]
      by_cases hp : p' = []
      · subst hp
        simp only [if_true]
        cases c with
        | leaf v => rfl
        | bin l r => rfl
        | edge q d => exact absurd rfl (hne q d)
      · simp [hp, mkEdge]
    | true =>
      rw [hmap, keysUnder_map_same true]
      have : keysUnder false (((ents c).map (fun kv => (p' ++ kv.1, kv.2))).map (fun kv => (true :: kv.1, kv.2))) = [] :=
        keysUnder_map_other false _
      rw [this, build_nil, hinner]
      by_cases hp : p' = []
      · subst hp
        simp only [if_true]
        cases c with
        | leaf v => rfl
        | bin l r => rfl
        | edge q d => exact absurd rfl (hne q d)
      · simp [hp, mkEdge]

/-- canonicity: `build` of the entries of a well-formed tree without an edge under an edge gives the tree back -/
theorem build_ents : ∀ (t : Tree H) (h : Nat), WF t h → Canon t → build h (ents t) = some t := by
  intro t
  induction t with
  | leaf v => intro h hwf _; have := hwf.leaf_inv; subst this; rfl
  | bin l r ihl ihr =>
    intro h hwf hc
    obtain ⟨n, rfl, hl, hr⟩ := hwf.bin_inv
    rw [build_succ_ne_nil _ _ (ents_ne_nil _)]
    simp only [ents, keysUnder_append]
    rw [keysUnder_map_same false, keysUnder_map_same true]
    have h1 : keysUnder false ((ents r).map (fun kv => (true :: kv.1, kv.2))) = [] := keysUnder_map_other false _
    have h2 : keysUnder true ((ents l).map (fun kv => (false :: kv.1, kv.2))) = [] := keysUnder_map_other true _
    rw [h1, h2, List.append_nil, List.nil_append, ihl n hl hc.1, ihr n hr hc.2]
  | edge p c ih =>
    intro h hwf hc
    obtain ⟨n, rfl, hp, hcw⟩ := hwf.edge_inv
    exact build_edge_prefix c n (ih n hcw hc.1) hc.2 p hp


/-! ### 5. the partial trie `proofToPath` builds from honest proofs -/

def subB (bit : Bool) : Option Path → Option Path
  | some (x :: k) => if x = bit then some k else none
  | _ => none

def subE (p : Path) : Option Path → Option Path
  | some k => if p.isPrefixOf k then some (k.drop p.length) else none
  | none => none

/-- the tree with the subtrees that neither key runs through collapsed to hash nodes (leaves stay values) -/
def openP (A : HashAlg H) : Tree H → Option Path → Option Path → PT H
  | .leaf v, _, _ => .leaf v
  | .bin l r, a, b =>
    if a.isNone && b.isNone then .hash ((Tree.bin l r).hash A)
    else .bin (openP A l (subB false a) (subB false b)) (openP A r (subB true a) (subB true b))
  | .edge p c, a, b =>
    if a.isNone && b.isNone then .hash ((Tree.edge p c).hash A)
    else .edge p (openP A c (subE p a) (subE p b))

theorem openP_comm (s : Tree H) : ∀ (a b : Option Path), openP A s a b = openP A s b a := by
  induction s with
  | leaf v => intro a b; rfl
  | bin l r ihl ihr => intro a b; simp only [openP, Bool.and_comm, ihl (subB false a), ihr (subB true a)]
  | edge p c ih => intro a b; simp only [openP, Bool.and_comm, ih (subE p a)]

theorem openP_phash (s : Tree H) : ∀ (a b : Option Path), (openP A s a b).phash A = s.hash A := by
  induction s with
  | leaf v => intro a b; rfl
  | bin l r ihl ihr =>
    intro a b
    simp only [openP]
    split
    · rfl
    · simp [PT.phash, Tree.hash, ihl, ihr]
  | edge p c ih =>
    intro a b
    simp only [openP]
    split
    · rfl
    · simp [PT.phash, Tree.hash, ih]

theorem ptOfChild_child (s : Tree H) : ptOfChild (s.child A) = openP A s none none := by
  cases s <;> simp [Tree.child, ptOfChild, Child.tag, openP]

theorem subB_none (bit : Bool) : subB bit none = none := rfl
theorem subE_none (p : Path) : subE p none = none := rfl

theorem resolvePT_hash_step {rc : RCfg} {P : PSet H} {f : Nat} {h : H} {nd : PNode H} {key : Path}
    (hget : P.get h = some nd) (hh : nd.hash A = h) (hk : ¬ key.length = 0) :
    resolvePT A rc P (f + 1) (.hash h) key = resolvePT A rc P f (ptOfNode nd) key := by
  simp [resolvePT, hk, hget, hh]

/-- `proofToPath` along `k` on a partial trie that is already open along `a`: it opens it along `k` as well -/
theorem resolvePT_open (rc : RCfg) (P : PSet H) (cached : Bool) :
    ∀ (s : Tree H) (h : Nat) (a : Option Path) (k : Path) (fuel : Nat), WF s h → k.length = h →
      2 * h + 1 ≤ fuel →
      (∀ nd ∈ s.proveNodes A false cached k, P.get (nd.hash A) = some nd) →
      resolvePT A rc P fuel (openP A s a none) k = some (openP A s a (some k)) := by
  intro s
  induction s with
  | leaf v =>
    intro h a k fuel hwf hk hfuel _
    have := hwf.leaf_inv; subst this
    obtain ⟨f, rfl⟩ : ∃ f, fuel = f + 1 := ⟨fuel - 1, by omega⟩
    simp [openP, resolvePT, hk]
  | bin l r ihl ihr =>
    intro h a k fuel hwf hk hfuel hlook
    obtain ⟨n, rfl, hl, hr⟩ := hwf.bin_inv
    cases k with
    | nil => simp at hk
    | cons x k' =>
      have hk' : k'.length = n := by simpa using hk
      rw [proveNodes_bin] at hlook
      have h0 := hlook _ (List.mem_cons_self ..)
      have hh0 : (PNode.bin (l.child A) (r.child A)
          (if cached then some ((Tree.bin l r).hash A) else none)).hash A = (Tree.bin l r).hash A := by
        simp [PNode.hash, Tree.hash, Tree.child_felt]
      rw [hh0] at h0
      have hrest : ∀ nd ∈ (if x then r.proveNodes A false cached k' else l.proveNodes A false cached k'),
          P.get (nd.hash A) = some nd := by
        intro nd hnd
        apply hlook nd
        apply List.mem_cons_of_mem
        simpa using hnd
      -- the structural step on an open binary node
      have hstep : ∀ (f : Nat) (a' : Option Path), 2 * n + 1 ≤ f →
          resolvePT A rc P (f + 1) (.bin (openP A l (subB false a') none) (openP A r (subB true a') none)) (x :: k') =
            some (.bin (openP A l (subB false a') (subB false (some (x :: k'))))
                       (openP A r (subB true a') (subB true (some (x :: k'))))) := by
        intro f a' hf
        cases x with
        | true =>
          simp only [resolvePT, List.headD_cons, if_true, List.drop_one, List.tail_cons]
          rw [ihr n (subB true a') k' f hr hk' hf (by simpa using hrest)]
          simp [subB]
        | false =>
          simp only [resolvePT, List.headD_cons, Bool.false_eq_true, if_false, List.drop_one, List.tail_cons]
          rw [ihl n (subB false a') k' f hl hk' hf (by simpa using hrest)]
          simp [subB]
      cases a with
      | none =>
        obtain ⟨f, rfl⟩ : ∃ f, fuel = f + 2 := ⟨fuel - 2, by omega⟩
        have hopen : openP A (Tree.bin l r) none none = .hash ((Tree.bin l r).hash A) := by simp [openP]
        rw [hopen, resolvePT_hash_step h0 hh0 (by simp)]
        simp only [ptOfNode, ptOfChild_child]
        have := hstep f none (by omega)
        simp only [subB_none] at this
        rw [this]
        simp [openP, subB]
      | some fa =>
        obtain ⟨f, rfl⟩ : ∃ f, fuel = f + 1 := ⟨fuel - 1, by omega⟩
        have hopen : openP A (Tree.bin l r) (some fa) none =
            .bin (openP A l (subB false (some fa)) none) (openP A r (subB true (some fa)) none) := by
          simp [openP, subB_none]
        rw [hopen, hstep f (some fa) (by omega)]
        simp [openP]
  | edge p c ih =>
    intro h a k fuel hwf hk hfuel hlook
    obtain ⟨n, rfl, hp, hc⟩ := hwf.edge_inv
    have hplen : 0 < p.length := List.length_pos_iff.mpr hp
    rw [proveNodes_edge] at hlook
    have h0 := hlook _ (List.mem_cons_self ..)
    have hh0 : (PNode.edge p (c.child A)
        (if cached then some ((Tree.edge p c).hash A) else none)).hash A = (Tree.edge p c).hash A := by
      simp [PNode.hash, Tree.hash, Tree.child_felt]
    rw [hh0] at h0
    have hcomp : pathCompat p k = p.isPrefixOf k := by
      rw [pathCompat_comm]; exact pathCompat_of_le (by omega)
    have hstep : ∀ (f : Nat) (a' : Option Path), 2 * n + 1 ≤ f →
        resolvePT A rc P (f + 1) (.edge p (openP A c (subE p a') none)) k =
          some (.edge p (openP A c (subE p a') (subE p (some k)))) := by
      intro f a' hf
      cases hpre : p.isPrefixOf k with
      | false => simp [resolvePT, hcomp, hpre, subE]
      | true =>
        rw [hpre] at hlook
        simp only [if_true] at hlook
        have hkl : (k.drop p.length).length = n := by simp; omega
        simp only [resolvePT, hcomp, hpre, Bool.not_true, Bool.false_eq_true, if_false]
        rw [ih n (subE p a') (k.drop p.length) f hc hkl hf (fun nd hnd => hlook nd (List.mem_cons_of_mem _ hnd))]
        simp [subE, hpre]
    cases a with
    | none =>
      obtain ⟨f, rfl⟩ : ∃ f, fuel = f + 2 := ⟨fuel - 2, by omega⟩
      have hopen : openP A (Tree.edge p c) none none = .hash ((Tree.edge p c).hash A) := by simp [openP]
      have hkne : ¬ k.length = 0 := by omega
      rw [hopen, resolvePT_hash_step h0 hh0 hkne]
      simp only [ptOfNode, ptOfChild_child]
      have := hstep f none (by omega)
      simp only [subE_none] at this
      rw [this]
      simp [openP, subE]
    | some fa =>
      obtain ⟨f, rfl⟩ : ∃ f, fuel = f + 1 := ⟨fuel - 1, by omega⟩
      have hopen : openP A (Tree.edge p c) (some fa) none = .edge p (openP A c (subE p (some fa)) none) := by
        simp [openP, subE_none]
      rw [hopen, hstep f (some fa) (by omega)]
      simp [openP]


/-! ### 6. bounds as Boolean tests -/

def inLb : Bd → Path → Bool
  | .unb, _ => true
  | .out, _ => false
  | .at f, k => decide (f = k) || pathLt f k

def inUb : Bd → Path → Bool
  | .unb, _ => true
  | .out, _ => false
  | .at l, k => decide (k = l) || pathLt k l

theorem inLb_cons {L : Bd} {h : Nat} (hlen : BdLen L (h + 1)) (b : Bool) (x : Path) :
    inLb L (b :: x) = inLb (if b then (lowerBin L).2 else (lowerBin L).1) x := by
  cases L with
  | unb => cases b <;> simp [lowerBin, inLb]
  | out => cases b <;> simp [lowerBin, inLb]
  | «at» f =>
    cases f with
    | nil => simp [BdLen] at hlen
    | cons fb fk => cases fb <;> cases b <;> simp [lowerBin, inLb, pathLt]

theorem inUb_cons {U : Bd} {h : Nat} (hlen : BdLen U (h + 1)) (b : Bool) (x : Path) :
    inUb U (b :: x) = inUb (if b then (upperBin U).2 else (upperBin U).1) x := by
  cases U with
  | unb => cases b <;> simp [upperBin, inUb]
  | out => cases b <;> simp [upperBin, inUb]
  | «at» f =>
    cases f with
    | nil => simp [BdLen] at hlen
    | cons fb fk => cases fb <;> cases b <;> simp [upperBin, inUb, pathLt]

theorem take_append_drop_ne {p k : Path} (hlen : p.length ≤ k.length) (hpre : p.isPrefixOf k = false) :
    k.take p.length ≠ p := by
  intro h
  have : p <+: k := by rw [← h]; exact List.take_prefix _ _
  rw [← isPrefixOf_true_iff] at this
  rw [this] at hpre; cases hpre

theorem inLb_append {L : Bd} {h : Nat} (p x : Path) (hlen : BdLen L h) (hph : p.length ≤ h) :
    inLb L (p ++ x) = inLb (lowerEdge p L) x := by
  cases L with
  | unb => simp [lowerEdge, inLb]
  | out => simp [lowerEdge, inLb]
  | «at» k =>
    have hkl : k.length = h := by simpa [BdLen] using hlen
    simp only [lowerEdge]
    cases hpre : p.isPrefixOf k with
    | true =>
      obtain ⟨k'', rfl⟩ := isPrefixOf_true_iff.mp hpre
      simp [inLb, pathLt_append_left]
    | false =>
      have hne := take_append_drop_ne (p := p) (k := k) (by omega) hpre
      have hk : k = k.take p.length ++ k.drop p.length := (List.take_append_drop _ _).symm
      have hlt : pathLt k (p ++ x) = pathLt (k.take p.length) p := by
        rw [hk]
        have := pathLt_append_of_ne (k.take p.length) p (k.drop p.length) x (by simp; omega) hne
        simpa using this
      have hneq : k ≠ p ++ x := by
        intro e
        apply hne
        rw [e]; simp
      simp only [Bool.false_eq_true, if_false]
      cases hc : pathLt (k.take p.length) p with
      | true => simp [inLb, hlt, hc]
      | false => simp [inLb, hlt, hc, hneq]

theorem inUb_append {U : Bd} {h : Nat} (p x : Path) (hlen : BdLen U h) (hph : p.length ≤ h) :
    inUb U (p ++ x) = inUb (upperEdge p U) x := by
  cases U with
  | unb => simp [upperEdge, inUb]
  | out => simp [upperEdge, inUb]
  | «at» k =>
    have hkl : k.length = h := by simpa [BdLen] using hlen
    simp only [upperEdge]
    cases hpre : p.isPrefixOf k with
    | true =>
      obtain ⟨k'', rfl⟩ := isPrefixOf_true_iff.mp hpre
      simp [inUb, pathLt_append_left]
    | false =>
      have hne := take_append_drop_ne (p := p) (k := k) (by omega) hpre
      have hk : k = k.take p.length ++ k.drop p.length := (List.take_append_drop _ _).symm
      have hlt : pathLt (p ++ x) k = pathLt p (k.take p.length) := by
        rw [hk]
        have := pathLt_append_of_ne p (k.take p.length) x (k.drop p.length) (by simp; omega) (Ne.symm hne)
        simpa using this
      have hneq : p ++ x ≠ k := by
        intro e
        apply hne
        rw [← e]; simp
      simp only [Bool.false_eq_true, if_false]
      cases hc : pathLt p (k.take p.length) with
      | true => simp [inUb, hlt, hc]
      | false => simp [inUb, hlt, hc, hneq]



/-! ### 7. `fill` on the honest partial trie with the honest entries gives the trie back -/

/-- the entries of `l` inside the bounds -/
def rng (L U : Bd) (l : List (Path × H)) : List (Path × H) :=
  l.filter (fun kv => inLb L kv.1 && inUb U kv.1)

theorem filter_map_key (f : Path → Path) (q : Path → Bool) (l : List (Path × H)) :
    (l.map (fun kv => (f kv.1, kv.2))).filter (fun kv => q kv.1) =
      (l.filter (fun kv => q (f kv.1))).map (fun kv => (f kv.1, kv.2)) := by
  induction l with
  | nil => rfl
  | cons x xs ih =>
    simp only [List.map_cons, List.filter_cons]
    split <;> simp [ih]

theorem rng_bin {L U : Bd} {h : Nat} (hL : BdLen L (h + 1)) (hU : BdLen U (h + 1)) (l r : Tree H) :
    rng L U (ents (Tree.bin l r)) =
      (rng (lowerBin L).1 (upperBin U).1 (ents l)).map (fun kv => (false :: kv.1, kv.2)) ++
      (rng (lowerBin L).2 (upperBin U).2 (ents r)).map (fun kv => (true :: kv.1, kv.2)) := by
  simp only [rng, ents, List.filter_append]
  rw [filter_map_key (fun k => false :: k) (fun k => inLb L k && inUb U k),
    filter_map_key (fun k => true :: k) (fun k => inLb L k && inUb U k)]
  congr 2
  · apply List.filter_congr; intro kv _
    rw [inLb_cons hL, inUb_cons hU]; rfl
  · apply List.filter_congr; intro kv _
    rw [inLb_cons hL, inUb_cons hU]; rfl

theorem rng_edge {L U : Bd} {h : Nat} (hL : BdLen L h) (hU : BdLen U h) (p : Path) (hp : p.length ≤ h) (c : Tree H) :
    rng L U (ents (Tree.edge p c)) =
      (rng (lowerEdge p L) (upperEdge p U) (ents c)).map (fun kv => (p ++ kv.1, kv.2)) := by
  simp only [rng, ents]
  rw [filter_map_key (fun k => p ++ k) (fun k => inLb L k && inUb U k)]
  congr 1
  apply List.filter_congr; intro kv _
  rw [inLb_append p kv.1 hL hp, inUb_append p kv.1 hU hp]

theorem rng_out_left (U : Bd) (l : List (Path × H)) : rng .out U l = [] := by
  simp [rng, inLb]

theorem rng_out_right (L : Bd) (l : List (Path × H)) : rng L .out l = [] := by
  simp [rng, inUb]

theorem rng_unb (l : List (Path × H)) : rng .unb .unb l = l := by
  simp [rng, inLb, inUb]

theorem stripPrefix_map (p : Path) (l : List (Path × H)) :
    stripPrefix p (l.map (fun kv => (p ++ kv.1, kv.2))) = some l := by
  unfold stripPrefix
  have h1 : (l.map (fun kv => (p ++ kv.1, kv.2))).all (fun kv => p.isPrefixOf kv.1) = true := by
    rw [List.all_eq_true]
    intro kv hkv
    obtain ⟨x, _, rfl⟩ := List.mem_map.mp hkv
    exact isPrefixOf_true_iff.mpr ⟨x.1, rfl⟩
  rw [if_pos h1, List.map_map]
  congr 1
  conv => rhs; rw [← List.map_id l]
  apply List.map_congr_left
  intro kv _
  simp

/-- which bound goes with which open key -/
def MatchB : Option Path → Bd → Prop
  | some k, .at k' => k = k'
  | none, .unb => True
  | none, .out => True
  | _, _ => False

theorem MatchB_lowerBin {a : Option Path} {L : Bd} {h : Nat} (hm : MatchB a L) (hlen : BdLen L (h + 1)) :
    MatchB (subB false a) (lowerBin L).1 ∧ MatchB (subB true a) (lowerBin L).2 ∧
    BdLen (lowerBin L).1 h ∧ BdLen (lowerBin L).2 h := by
  cases L with
  | unb => cases a <;> simp_all [MatchB, lowerBin, subB, BdLen]
  | out => cases a <;> simp_all [MatchB, lowerBin, subB, BdLen]
  | «at» f =>
    cases a with
    | none => simp [MatchB] at hm
    | some k =>
      simp only [MatchB] at hm
      subst hm
      cases k with
      | nil => simp [BdLen] at hlen
      | cons x k' =>
        have : k'.length = h := by simpa [BdLen] using hlen
        cases x <;> simp [MatchB, lowerBin, subB, BdLen, this]

theorem MatchB_upperBin {a : Option Path} {U : Bd} {h : Nat} (hm : MatchB a U) (hlen : BdLen U (h + 1)) :
    MatchB (subB false a) (upperBin U).1 ∧ MatchB (subB true a) (upperBin U).2 ∧
    BdLen (upperBin U).1 h ∧ BdLen (upperBin U).2 h := by
  cases U with
  | unb => cases a <;> simp_all [MatchB, upperBin, subB, BdLen]
  | out => cases a <;> simp_all [MatchB, upperBin, subB, BdLen]
  | «at» f =>
    cases a with
    | none => simp [MatchB] at hm
    | some k =>
      simp only [MatchB] at hm
      subst hm
      cases k with
      | nil => simp [BdLen] at hlen
      | cons x k' =>
        have : k'.length = h := by simpa [BdLen] using hlen
        cases x <;> simp [MatchB, upperBin, subB, BdLen, this]

theorem MatchB_lowerEdge {a : Option Path} {L : Bd} {h : Nat} (p : Path) (hm : MatchB a L) (hlen : BdLen L h)
    (hp : p.length ≤ h) :
    MatchB (subE p a) (lowerEdge p L) ∧ BdLen (lowerEdge p L) (h - p.length) := by
  cases L with
  | unb => cases a <;> simp_all [MatchB, lowerEdge, subE, BdLen]
  | out => cases a <;> simp_all [MatchB, lowerEdge, subE, BdLen]
  | «at» f =>
    cases a with
    | none => simp [MatchB] at hm
    | some k =>
      simp only [MatchB] at hm
      subst hm
      have hkl : k.length = h := by simpa [BdLen] using hlen
      simp only [lowerEdge, subE]
      cases hpre : p.isPrefixOf k with
      | true => simp [MatchB, BdLen, hkl]
      | false =>
        simp only [Bool.false_eq_true, if_false]
        split <;> simp [MatchB, BdLen]

theorem MatchB_upperEdge {a : Option Path} {U : Bd} {h : Nat} (p : Path) (hm : MatchB a U) (hlen : BdLen U h)
    (hp : p.length ≤ h) :
    MatchB (subE p a) (upperEdge p U) ∧ BdLen (upperEdge p U) (h - p.length) := by
  cases U with
  | unb => cases a <;> simp_all [MatchB, upperEdge, subE, BdLen]
  | out => cases a <;> simp_all [MatchB, upperEdge, subE, BdLen]
  | «at» f =>
    cases a with
    | none => simp [MatchB] at hm
    | some k =>
      simp only [MatchB] at hm
      subst hm
      have hkl : k.length = h := by simpa [BdLen] using hlen
      simp only [upperEdge, subE]
      cases hpre : p.isPrefixOf k with
      | true => simp [MatchB, BdLen, hkl]
      | false =>
        simp only [Bool.false_eq_true, if_false]
        split <;> simp [MatchB, BdLen]


theorem embed_some (t : Tree H) : embed (some t) = embedT t := rfl

theorem fill_open (hI : Ideal A) (rc : RCfg) (hul : rc.unsetLeaf = true) :
    ∀ (s : Tree H) (h : Nat) (a b : Option Path) (L U : Bd) (pb : Bool),
      WF s h → Canon s → s.NZ A → MatchB a L → MatchB b U → BdLen L h → BdLen U h →
      ∃ F, fill A rc (openP A s a b) L U h pb (rng L U (ents s)) = some F ∧ F.phash A = s.hash A := by
  intro s
  induction s with
  | leaf v =>
    intro h a b L U pb hwf _ _ hma hmb hL hU
    have := hwf.leaf_inv; subst this
    unfold fill
    by_cases hout : L = .out ∨ U = .out
    · have hr : rng L U (ents (Tree.leaf v)) = ([] : List (Path × H)) := by
        rcases hout with h1 | h1 <;> subst h1
        · exact rng_out_left _ _
        · exact rng_out_right _ _
      rw [if_pos hout, hr]
      exact ⟨openP A (Tree.leaf v) a b, by simp, by simp [openP, PT.phash, Tree.hash]⟩
    · rw [if_neg hout]
      have hin : rng L U (ents (Tree.leaf v)) = [([], v)] := by
        have h1 : inLb L [] = true := by
          cases L with
          | unb => rfl
          | out => exact absurd (Or.inl rfl) hout
          | «at» f =>
            have : f = [] := List.eq_nil_of_length_eq_zero (by simpa [BdLen] using hL)
            subst this; simp [inLb]
        have h2 : inUb U [] = true := by
          cases U with
          | unb => rfl
          | out => exact absurd (Or.inr rfl) hout
          | «at» f =>
            have : f = [] := List.eq_nil_of_length_eq_zero (by simpa [BdLen] using hU)
            subst this; simp [inUb]
        simp [rng, ents, h1, h2]
      rw [hin]
      by_cases hunb : L = .unb ∧ U = .unb
      · rw [if_pos hunb]
        exact ⟨_, rfl, by simp [build, embed, embedT, PT.phash, Tree.hash]⟩
      · rw [if_neg hunb]
        simp only [openP, hul, Bool.not_true, Bool.false_and, Bool.false_eq_true, if_false, ne_eq,
          not_true_eq_false]
        exact ⟨_, rfl, by simp [build, embed, embedT, PT.phash, Tree.hash]⟩
  | bin l r ihl ihr =>
    intro h a b L U pb hwf hcan hnz hma hmb hL hU
    obtain ⟨n, rfl, hl, hr⟩ := hwf.bin_inv
    unfold fill
    by_cases hout : L = .out ∨ U = .out
    · have hrg : rng L U (ents (Tree.bin l r)) = ([] : List (Path × H)) := by
        rcases hout with h1 | h1 <;> subst h1
        · exact rng_out_left _ _
        · exact rng_out_right _ _
      rw [if_pos hout, hrg]
      exact ⟨openP A (Tree.bin l r) a b, by simp, openP_phash _ _ _⟩
    · rw [if_neg hout]
      by_cases hunb : L = .unb ∧ U = .unb
      · rw [if_pos hunb]
        obtain ⟨rfl, rfl⟩ := hunb
        rw [rng_unb, build_ents _ _ hwf hcan]
        exact ⟨_, rfl, by rw [embed_some, embedT_phash]⟩
      · rw [if_neg hunb]
        -- at least one bound runs through: the node is open
        have hopen : ¬ (a.isNone && b.isNone) = true := by
          intro hn
          simp only [Bool.and_eq_true, Option.isNone_iff_eq_none] at hn
          obtain ⟨rfl, rfl⟩ := hn
          apply hunb
          constructor
          · cases L <;> simp_all [MatchB]
          · cases U <;> simp_all [MatchB]
        have hopen' : openP A (Tree.bin l r) a b =
            .bin (openP A l (subB false a) (subB false b)) (openP A r (subB true a) (subB true b)) := by
          simp only [openP]; rw [if_neg hopen]
        rw [hopen']
        simp only
        obtain ⟨ml1, ml2, bl1, bl2⟩ := MatchB_lowerBin hma hL
        obtain ⟨mu1, mu2, bu1, bu2⟩ := MatchB_upperBin hmb hU
        rw [rng_bin hL hU, keysUnder_append, keysUnder_append, keysUnder_map_same false, keysUnder_map_same true]
        have h1 : keysUnder false ((rng (lowerBin L).2 (upperBin U).2 (ents r)).map (fun kv => (true :: kv.1, kv.2))) = [] :=
          keysUnder_map_other false _
        have h2 : keysUnder true ((rng (lowerBin L).1 (upperBin U).1 (ents l)).map (fun kv => (false :: kv.1, kv.2))) = [] :=
          keysUnder_map_other true _
        rw [h1, h2, List.append_nil, List.nil_append]
        obtain ⟨Fl, hFl, hpl⟩ := ihl n (subB false a) (subB false b) _ _ true hl hcan.1 hnz.1 ml1 mu1 bl1 bu1
        obtain ⟨Fr, hFr, hpr⟩ := ihr n (subB true a) (subB true b) _ _ true hr hcan.2 hnz.2 ml2 mu2 bl2 bu2
        rw [hFl, hFr]
        exact ⟨_, rfl, by simp [PT.phash, Tree.hash, hpl, hpr]⟩
  | edge p c ih =>
    intro h a b L U pb hwf hcan hnz hma hmb hL hU
    obtain ⟨n, rfl, hp, hc⟩ := hwf.edge_inv
    have hplen : 0 < p.length := List.length_pos_iff.mpr hp
    unfold fill
    by_cases hout : L = .out ∨ U = .out
    · have hrg : rng L U (ents (Tree.edge p c)) = ([] : List (Path × H)) := by
        rcases hout with h1 | h1 <;> subst h1
        · exact rng_out_left _ _
        · exact rng_out_right _ _
      rw [if_pos hout, hrg]
      exact ⟨openP A (Tree.edge p c) a b, by simp, openP_phash _ _ _⟩
    · rw [if_neg hout]
      by_cases hunb : L = .unb ∧ U = .unb
      · rw [if_pos hunb]
        obtain ⟨rfl, rfl⟩ := hunb
        rw [rng_unb, build_ents _ _ hwf hcan]
        exact ⟨_, rfl, by rw [embed_some, embedT_phash]⟩
      · rw [if_neg hunb]
        have hopen : ¬ (a.isNone && b.isNone) = true := by
          intro hn
          simp only [Bool.and_eq_true, Option.isNone_iff_eq_none] at hn
          obtain ⟨rfl, rfl⟩ := hn
          apply hunb
          constructor
          · cases L <;> simp_all [MatchB]
          · cases U <;> simp_all [MatchB]
        have hopen' : openP A (Tree.edge p c) a b = .edge p (openP A c (subE p a) (subE p b)) := by
          simp only [openP]; rw [if_neg hopen]
        rw [hopen']
        simp only
        have hguard : ¬ (p.length = 0 ∨ p.length + n < p.length) := by omega
        rw [if_neg hguard]
        obtain ⟨ml, bl⟩ := MatchB_lowerEdge p hma hL (by omega)
        obtain ⟨mu, bu⟩ := MatchB_upperEdge p hmb hU (by omega)
        have hsub : p.length + n - p.length = n := by omega
        rw [hsub] at bl bu
        rw [rng_edge hL hU p (by omega)]
        by_cases hcout : lowerEdge p L = .out ∨ upperEdge p U = .out
        · rw [if_pos hcout]
          have hrg : rng (lowerEdge p L) (upperEdge p U) (ents c) = ([] : List (Path × H)) := by
            rcases hcout with h1 | h1 <;> rw [h1]
            · exact rng_out_left _ _
            · exact rng_out_right _ _
          rw [hrg]
          refine ⟨.edge p (openP A c (subE p a) (subE p b)), by simp, ?_⟩
          simp [PT.phash, Tree.hash, openP_phash]
        · rw [if_neg hcout]
          by_cases hcunb : lowerEdge p L = .unb ∧ upperEdge p U = .unb
          · rw [if_pos hcunb, hcunb.1, hcunb.2, rng_unb]
            have : (ents c).map (fun kv => (p ++ kv.1, kv.2)) = ents (Tree.edge p c) := rfl
            rw [this, build_ents _ _ hwf hcan]
            exact ⟨_, rfl, by rw [embed_some, embedT_phash]⟩
          · rw [if_neg hcunb, stripPrefix_map]
            simp only [hsub]
            obtain ⟨Fc, hFc, hpc⟩ := ih n (subE p a) (subE p b) _ _ false hc hcan.1 hnz ml mu bl bu
            rw [hFc]
            have hne : c.hash A ≠ A.zero := hash_ne_zero_nz hI hc hnz
            cases Fc with
            | nil => exact absurd hpc.symm (by simpa [PT.phash] using hne)
            | hash x => exact ⟨_, rfl, by simp [PT.phash, Tree.hash] at hpc ⊢; rw [hpc]⟩
            | leaf x => exact ⟨_, rfl, by simp [PT.phash, Tree.hash] at hpc ⊢; rw [hpc]⟩
            | bin x y => exact ⟨_, rfl, by simp only [PT.phash, Tree.hash] at hpc ⊢; rw [hpc]⟩
            | edge x y => exact ⟨_, rfl, by simp only [PT.phash, Tree.hash] at hpc ⊢; rw [hpc]⟩


/-! ### 8. the entries: lengths, order, values -/

theorem ents_length : ∀ (t : Tree H) (h : Nat), WF t h → ∀ kv ∈ ents t, kv.1.length = h := by
  intro t
  induction t with
  | leaf v => intro h hwf kv hkv; have := hwf.leaf_inv; subst this; simp [ents] at hkv; subst hkv; rfl
  | bin l r ihl ihr =>
    intro h hwf kv hkv
    obtain ⟨n, rfl, hl, hr⟩ := hwf.bin_inv
    simp only [ents, List.mem_append, List.mem_map] at hkv
    rcases hkv with ⟨x, hx, rfl⟩ | ⟨x, hx, rfl⟩
    · simp [ihl n hl x hx]
    · simp [ihr n hr x hx]
  | edge p c ih =>
    intro h hwf kv hkv
    obtain ⟨n, rfl, _, hc⟩ := hwf.edge_inv
    simp only [ents, List.mem_map] at hkv
    obtain ⟨x, hx, rfl⟩ := hkv
    simp [ih n hc x hx]

theorem ents_nz : ∀ (t : Tree H), t.NZ A → ∀ kv ∈ ents t, kv.2 ≠ A.zero := by
  intro t
  induction t with
  | leaf v => intro hnz kv hkv; simp [ents] at hkv; subst hkv; exact hnz
  | bin l r ihl ihr =>
    intro hnz kv hkv
    simp only [ents, List.mem_append, List.mem_map] at hkv
    rcases hkv with ⟨x, hx, rfl⟩ | ⟨x, hx, rfl⟩
    · exact ihl hnz.1 x hx
    · exact ihr hnz.2 x hx
  | edge p c ih =>
    intro hnz kv hkv
    simp only [ents, List.mem_map] at hkv
    obtain ⟨x, hx, rfl⟩ := hkv
    exact ih hnz x hx

theorem ents_sorted : ∀ (t : Tree H), List.Pairwise (fun a b : Path × H => pathLt a.1 b.1 = true) (ents t) := by
  intro t
  induction t with
  | leaf v => simp [ents]
  | bin l r ihl ihr =>
    simp only [ents]
    rw [List.pairwise_append]
    refine ⟨?_, ?_, ?_⟩
    · rw [List.pairwise_map]
      exact ihl.imp (fun h => by simpa [pathLt] using h)
    · rw [List.pairwise_map]
      exact ihr.imp (fun h => by simpa [pathLt] using h)
    · intro a ha b hb
      obtain ⟨x, _, rfl⟩ := List.mem_map.mp ha
      obtain ⟨y, _, rfl⟩ := List.mem_map.mp hb
      simp [pathLt]
  | edge p c ih =>
    simp only [ents]
    rw [List.pairwise_map]
    exact ih.imp (fun h => by simpa [pathLt_append_left] using h)

theorem mem_ents_of_has : ∀ (t : Tree H) (h : Nat), WF t h → ∀ k, k.length = h → t.has k = true →
    ∃ v, (k, v) ∈ ents t := by
  intro t
  induction t with
  | leaf v =>
    intro h hwf k hk _
    have := hwf.leaf_inv; subst this
    have : k = [] := List.eq_nil_of_length_eq_zero hk
    subst this
    exact ⟨v, by simp [ents]⟩
  | bin l r ihl ihr =>
    intro h hwf k hk hh
    obtain ⟨n, rfl, hl, hr⟩ := hwf.bin_inv
    cases k with
    | nil => simp at hk
    | cons x k' =>
      have hk' : k'.length = n := by simpa using hk
      cases x with
      | true =>
        obtain ⟨v, hv⟩ := ihr n hr k' hk' (by simpa [Tree.has] using hh)
        exact ⟨v, by simp only [ents, List.mem_append, List.mem_map]; exact Or.inr ⟨(k', v), hv, rfl⟩⟩
      | false =>
        obtain ⟨v, hv⟩ := ihl n hl k' hk' (by simpa [Tree.has] using hh)
        exact ⟨v, by simp only [ents, List.mem_append, List.mem_map]; exact Or.inl ⟨(k', v), hv, rfl⟩⟩
  | edge p c ih =>
    intro h hwf k hk hh
    obtain ⟨n, rfl, _, hc⟩ := hwf.edge_inv
    obtain ⟨k'', rfl, hc'⟩ := has_edge_prefix hh
    obtain ⟨v, hv⟩ := ih n hc k'' (by simp at hk; omega) hc'
    exact ⟨v, by simp only [ents, List.mem_map]; exact ⟨(k'', v), hv, rfl⟩⟩

theorem pathLt_asymm {a b : Path} (hl : a.length = b.length) (h : pathLt a b = true) : pathLt b a = false := by
  have h1 := (pathVal_lt_iff a b hl).mpr h
  cases hb : pathLt b a with
  | false => rfl
  | true => have h2 := (pathVal_lt_iff b a hl.symm).mpr hb; omega

theorem pathLt_ne {a b : Path} (h : pathLt a b = true) : a ≠ b := by
  intro e; subst e; rw [pathLt_irrefl] at h; cases h

/-- adjacent keys of a strictly sorted list never decrease -/
theorem keysNonDecreasing_of_sorted : ∀ (l : List (Path × H)) (h : Nat), (∀ kv ∈ l, kv.1.length = h) →
    List.Pairwise (fun a b : Path × H => pathLt a.1 b.1 = true) l → keysNonDecreasing l = true := by
  intro l
  induction l with
  | nil => intro _ _ _; rfl
  | cons a rest ih =>
    intro h hlen hp
    cases rest with
    | nil => rfl
    | cons b rest' =>
      simp only [keysNonDecreasing, Bool.and_eq_true, Bool.not_eq_true']
      rw [List.pairwise_cons] at hp
      refine ⟨?_, ih h (fun kv hkv => hlen kv (List.mem_cons_of_mem _ hkv)) hp.2⟩
      have hab := hp.1 b (by simp)
      exact pathLt_asymm (by rw [hlen a (by simp), hlen b (by simp)]) hab

/-- the honest list of the interval `[f, l]` ends with `l` when `l` is a key of the trie -/
theorem rng_last (t : Tree H) (n : Nat) (hwf : WF t n) (f l : Path) (hl : l.length = n)
    (hfl : f = l ∨ pathLt f l = true) (hhas : t.has l = true) :
    ∃ pre v, rng (.at f) (.at l) (ents t) = pre ++ [(l, v)] := by
  obtain ⟨v, hv⟩ := mem_ents_of_has t n hwf l hl hhas
  obtain ⟨s1, s2, hs⟩ := List.append_of_mem hv
  have hsort := ents_sorted t
  rw [hs] at hsort
  rw [List.pairwise_append] at hsort
  obtain ⟨_, h2, _⟩ := hsort
  rw [List.pairwise_cons] at h2
  have hlen := ents_length t n hwf
  have hs2 : rng (.at f) (.at l) s2 = [] := by
    simp only [rng, List.filter_eq_nil_iff]
    intro kv hkv
    have hgt := h2.1 kv hkv
    have hkl : kv.1.length = l.length := by
      rw [hl]; exact hlen kv (by rw [hs]; simp [hkv])
    have h3 : pathLt kv.1 l = false := pathLt_asymm hkl.symm hgt
    have h4 : kv.1 ≠ l := (pathLt_ne hgt).symm
    simp [inUb, h3, h4]
  have hmid : rng (.at f) (.at l) [(l, v)] = [(l, v)] := by
    have : inLb (.at f) l = true := by
      rcases hfl with h | h
      · simp [inLb, h]
      · simp [inLb, h]
    simp [rng, this, inUb]
  refine ⟨rng (.at f) (.at l) s1, v, ?_⟩
  rw [hs]
  have : s1 ++ (l, v) :: s2 = s1 ++ ([(l, v)] ++ s2) := by simp
  rw [this]
  simp only [rng, List.filter_append] at hs2 hmid ⊢
  rw [hs2, hmid]
  simp


/-! ### 9. completeness of the general case -/

theorem openP_root_hash {t : Tree H} {n : Nat} (hwf : WF t n) (hn : 0 < n) :
    openP A t none none = .hash (t.hash A) := by
  cases t with
  | leaf v => have := hwf.leaf_inv; omega
  | bin l r => simp [openP]
  | edge p c => simp [openP]

/-- `verifyRangeWithProof` accepts the honest claim: the entries of the trie between `first` and a key `last`
of the trie, with the proofs of `first` and `last` (`trie2.Trie.Prove`) -/
theorem multi_complete (hI : Ideal A) (rc : RCfg) (hul : rc.unsetLeaf = true)
    (t : Tree H) (n : Nat) (hwf : WF t n) (hcan : Canon t) (hnz : t.NZ A) (hn : 0 < n) (h256 : n < 256)
    (f l : Path) (hf : f.length = n) (hl : l.length = n) (hfl : pathLt f l = true) (hhas : t.has l = true)
    (cached : Bool) (P : PSet H)
    (hlf : ∀ nd ∈ t.proveNodes A false cached f, P.get (nd.hash A) = some nd)
    (hll : ∀ nd ∈ t.proveNodes A false cached l, P.get (nd.hash A) = some nd) :
    ∃ more, verifyMulti A rc (t.hash A) f (rng (.at f) (.at l) (ents t)) P = RRes.ok more := by
  obtain ⟨pre, v, hkvs⟩ := rng_last t n hwf f l hl (Or.inr hfl) hhas
  have hlenE := ents_length t n hwf
  have hsub : ∀ kv ∈ rng (.at f) (.at l) (ents t), kv ∈ ents t := fun kv hkv => (List.mem_filter.mp hkv).1
  have hlast : (rng (.at f) (.at l) (ents t)).getLast? = some (l, v) := by rw [hkvs]; simp
  have hzero : ((rng (.at f) (.at l) (ents t)).any fun kv => decide (kv.2 = A.zero)) = false := by
    rw [List.any_eq_false]
    intro kv hkv
    simpa using ents_nz t hnz kv (hsub kv hkv)
  have hsorted : keysNonDecreasing (rng (.at f) (.at l) (ents t)) = true :=
    keysNonDecreasing_of_sorted _ n (fun kv hkv => hlenE kv (hsub kv hkv))
      ((ents_sorted t).sublist List.filter_sublist)
  have hfuel : 2 * n + 1 ≤ 2 * verifyFuel := by unfold verifyFuel; omega
  have hr1 : resolvePT A rc P (2 * verifyFuel) (.hash (t.hash A)) f = some (openP A t (some f) none) := by
    rw [← openP_root_hash hwf hn, resolvePT_open rc P cached t n none f _ hwf hf hfuel hlf, openP_comm]
  have hr2 : resolvePT A rc P (2 * verifyFuel) (openP A t (some f) none) l = some (openP A t (some f) (some l)) :=
    resolvePT_open rc P cached t n (some f) l _ hwf hl hfuel hll
  obtain ⟨F, hF, hph⟩ := fill_open hI rc hul t n (some f) (some l) (.at f) (.at l) false hwf hcan hnz
    (by simp [MatchB]) (by simp [MatchB]) (by simpa [BdLen] using hf) (by simpa [BdLen] using hl)
  refine ⟨hasRightPT (openP A t (some f) (some l)) l, ?_⟩
  unfold verifyMulti
  simp only [hlast, hzero, hsorted, hfl, hr1, hr2, hf, hF, hph, Bool.not_true, Bool.false_eq_true, if_false,
    if_true]


theorem Canon_mkEdge {p : Path} {c : Tree H} (hc : Canon c) : Canon (mkEdge p c) := by
  cases p with
  | nil => exact hc
  | cons x xs =>
    cases c with
    | leaf v => exact ⟨hc, by intro q d; simp⟩
    | bin l r => exact ⟨hc, by intro q d; simp⟩
    | edge q d => exact ⟨hc.1, hc.2⟩

/-- the trie of any key/value set has no edge under an edge -/
theorem build_canon : ∀ (h : Nat) (kvs : List (Path × H)) (t : Tree H), build h kvs = some t → Canon t := by
  intro h
  induction h with
  | zero =>
    intro kvs t ht
    simp only [build] at ht
    split at ht
    · cases ht; trivial
    · cases ht
  | succ h ih =>
    intro kvs t ht
    cases kvs with
    | nil => simp [build] at ht
    | cons x xs =>
      simp only [build] at ht
      split at ht
      · cases ht
      · rename_i a ha _; cases ht; exact Canon_mkEdge (ih _ a ha)
      · rename_i b _ hb; cases ht; exact Canon_mkEdge (ih _ b hb)
      · rename_i a b ha hb; cases ht; exact ⟨ih _ a ha, ih _ b hb⟩

/-- the whole exported function on the honest general-case claim -/
theorem verifyRange_multi_complete (hI : Ideal A) (rc : RCfg) (hul : rc.unsetLeaf = true) (ck : Bool)
    (t : Tree H) (n : Nat) (hwf : WF t n) (hcan : Canon t) (hnz : t.NZ A) (hn : 0 < n) (h256 : n < 256)
    (first lastK : Nat) (v : H) (kvsF : List (Nat × H)) (hf : first < 2 ^ n) (hb : ∀ kv ∈ kvsF, kv.1 < 2 ^ n)
    (hm : feltKeysMonotonic kvsF = true) (hlastF : kvsF.getLast? = some (lastK, v)) (hlt : first < lastK)
    (hhas : t.has (pathOfNat n lastK) = true)
    (hmap : kvsF.map (fun kv : Nat × H => (pathOfNat n kv.1, kv.2)) =
      rng (.at (pathOfNat n first)) (.at (pathOfNat n lastK)) (ents t))
    (cached : Bool) (P : PSet H)
    (hlf : ∀ nd ∈ t.proveNodes A false cached (pathOfNat n first), P.get (nd.hash A) = some nd)
    (hll : ∀ nd ∈ t.proveNodes A false cached (pathOfNat n lastK), P.get (nd.hash A) = some nd) :
    ∃ more, verifyRange A rc ck n (t.hash A) first kvsF (some P) = RRes.ok more := by
  have hlb : lastK < 2 ^ n := hb _ (List.mem_of_getLast? hlastF)
  obtain ⟨more, hmc⟩ := multi_complete hI rc hul t n hwf hcan hnz hn h256 (pathOfNat n first) (pathOfNat n lastK)
    (pathOfNat_length _ _) (pathOfNat_length _ _) ((pathLt_pathOfNat hf hlb).mpr hlt) hhas cached P hlf hll
  refine ⟨more, ?_⟩
  unfold verifyRange
  have h1 : (kvsF.any fun kv => decide (kv.2 = A.zero)) = false := by
    rw [List.any_eq_false]
    intro kv hkv
    have hmem : (pathOfNat n kv.1, kv.2) ∈ rng (.at (pathOfNat n first)) (.at (pathOfNat n lastK)) (ents t) := by
      rw [← hmap]; exact List.mem_map.mpr ⟨kv, hkv, rfl⟩
    simpa using ents_nz t hnz _ (List.mem_filter.mp hmem).1
  have h2 : (kvsF.any fun kv => decide (2 ^ n ≤ kv.1)) = false := by
    rw [List.any_eq_false]; intro kv hkv; have := hb kv hkv; simp; omega
  have h3 : decide (2 ^ n ≤ first) = false := by simp; omega
  have h4 : ¬ (kvsF.length = 1 ∧ first = lastK) := by omega
  have h5 : ¬ lastK ≤ first := by omega
  simp only [hm, h1, h2, h3, hlastF, h4, h5, hmap, hmc, Bool.not_true, Bool.false_eq_true, if_false, Bool.or_self,
    Bool.and_false]

end Juno.C10
