import JunoModel.C10.Model
/-! C10 — helper lemmas. -/
namespace Juno.C10

end Juno.C10
