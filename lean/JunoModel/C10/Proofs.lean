import JunoModel.C10.Model
/-! C10 — helper lemmas: list facts, inversion of `WF`, consequences of `Ideal`, one-step
unfoldings of the two verifier loops, and the soundness / completeness inductions. -/
set_option linter.unusedSectionVars false
set_option linter.unnecessarySimpa false

namespace Juno.C10

variable {H : Type} [DecidableEq H] {A : HashAlg H}

/-! ### lists -/

theorem headD_drop (k : Path) (n : Nat) : (k.drop n).headD false = k.getD n false := by
  induction k generalizing n with
  | nil => simp
  | cons x xs ih => cases n with
    | zero => simp
    | succ n => simpa using ih n

theorem isPrefixOf_true_iff {a b : Path} : a.isPrefixOf b = true ↔ a <+: b :=
  List.isPrefixOf_iff_prefix

/-- `EqualMSBs` is the prefix test when the key side is at least as long as the path. -/
theorem pathCompat_of_le {rem p : Path} (h : p.length ≤ rem.length) :
    pathCompat rem p = p.isPrefixOf rem := by
  unfold pathCompat
  cases h1 : rem.isPrefixOf p with
  | false => simp
  | true =>
    have hp : rem <+: p := isPrefixOf_true_iff.mp h1
    have hlen : rem.length ≤ p.length := hp.length_le
    have : rem = p := hp.eq_of_length (by omega)
    subst this
    simp

theorem pathCompat_comm (a b : Path) : pathCompat a b = pathCompat b a := by
  unfold pathCompat; exact Bool.or_comm _ _

/-! ### `WF` inversion -/

theorem WF.leaf_inv {v : H} {m : Nat} (h : WF (Tree.leaf v) m) : m = 0 := by
  cases h; rfl

theorem WF.bin_inv {l r : Tree H} {m : Nat} (h : WF (Tree.bin l r) m) :
    ∃ n, m = n + 1 ∧ WF l n ∧ WF r n := by
  cases h with
  | bin hl hr => exact ⟨_, rfl, hl, hr⟩

theorem WF.edge_inv {p : Path} {c : Tree H} {m : Nat} (h : WF (Tree.edge p c) m) :
    ∃ n, m = p.length + n ∧ p ≠ [] ∧ WF c n := by
  generalize hs : Tree.edge p c = s at h
  cases h with
  | leaf v => cases hs
  | bin _ _ => cases hs
  | edge hp hc => cases hs; exact ⟨_, rfl, hp, hc⟩

theorem WF.zero_inv {s : Tree H} (h : WF s 0) : ∃ v, s = Tree.leaf v := by
  cases s with
  | leaf v => exact ⟨v, rfl⟩
  | bin l r => obtain ⟨n, hn, _⟩ := h.bin_inv; omega
  | edge p c =>
    obtain ⟨n, hn, hp, _⟩ := h.edge_inv
    have : p.length = 0 := by omega
    exact absurd (List.eq_nil_of_length_eq_zero this) hp

/-! ### what `Ideal` says about a proof node with a given hash -/

theorem pnode_of_hash_bin (hI : Ideal A) {nd : PNode H} {a b : H} (hb : b ≠ A.zero)
    (h : nd.hash A = A.bin a b) :
    ∃ l r c, nd = PNode.bin l r c ∧ l.felt A = a ∧ r.felt A = b := by
  cases nd with
  | bin l r c =>
    obtain ⟨h1, h2⟩ := hI.bin_inj _ _ _ _ h
    exact ⟨l, r, c, rfl, h1, h2⟩
  | edge p ch c => exact absurd h.symm (hI.bin_ne_edge _ _ _ _ (Or.inr hb))

theorem pnode_of_hash_edge (hI : Ideal A) {nd : PNode H} {c : H} {p : Path} (hp : p ≠ [])
    (h : nd.hash A = A.edge c p) : ∃ ch cc, nd = PNode.edge p ch cc ∧ ch.felt A = c := by
  cases nd with
  | bin l r cc => exact absurd h (hI.bin_ne_edge _ _ _ _ (Or.inl hp))
  | edge p' ch cc =>
    obtain ⟨h1, h2⟩ := hI.edge_inj _ _ _ _ h
    subst h2
    exact ⟨ch, cc, rfl, h1⟩

theorem hash_ne_zero_nz (hI : Ideal A) {t : Tree H} {n : Nat} (hwf : WF t n) (hnz : t.NZ A) :
    t.hash A ≠ A.zero := by
  cases t with
  | leaf v => exact hnz
  | bin l r => exact hI.bin_ne_zero _ _
  | edge p c => exact hI.edge_ne_zero _ _

/-! ### node sets -/

theorem PSet.get_mem {s : PSet H} {h : H} {n : PNode H} (hg : s.get h = some n) : (h, n) ∈ s := by
  induction s with
  | nil => simp [PSet.get] at hg
  | cons e rest ih =>
    obtain ⟨k, nd⟩ := e
    simp only [PSet.get] at hg
    split at hg
    · rename_i hk; subst hk; cases hg; simp
    · exact List.mem_cons_of_mem _ (ih hg)

theorem PSet.get_isSome_of_mem {s : PSet H} {h : H} {n : PNode H} (hm : (h, n) ∈ s) :
    ∃ n', s.get h = some n' := by
  induction s with
  | nil => simp at hm
  | cons e rest ih =>
    obtain ⟨k, nd⟩ := e
    simp only [PSet.get]
    split
    · exact ⟨nd, rfl⟩
    · rename_i hk
      rcases List.mem_cons.mp hm with h1 | h1
      · cases h1; exact absurd rfl hk
      · exact ih h1

/-! ### `trie.VerifyProof`: one iteration -/

theorem verifyLAux_bin {P : PSet H} {key : Path} {fuel pos : Nat} {e : H} {l r : Child H}
    {c : Option H} (hget : P.get e = some (PNode.bin l r c))
    (hh : (PNode.bin l r c).hash A = e) (hpos : pos < key.length) (h256 : key.length < 256) :
    verifyLAux A P key (fuel + 1) e pos =
      if pos + 1 ≥ key.length then Res.ok (if key.getD pos false then r.felt A else l.felt A)
      else verifyLAux A P key fuel (if key.getD pos false then r.felt A else l.felt A) (pos + 1) := by
  have hmod : (pos + 1) % 256 = pos + 1 := Nat.mod_eq_of_lt (by omega)
  simp [verifyLAux, hget, hh, Nat.not_le.mpr hpos, hmod]

theorem verifyLAux_edge {P : PSet H} {key : Path} {fuel pos : Nat} {e : H} {p : Path} {ch : Child H}
    {c : Option H} (hget : P.get e = some (PNode.edge p ch c))
    (hh : (PNode.edge p ch c).hash A = e) (hfit : pos + p.length ≤ key.length)
    (h256 : key.length < 256) :
    verifyLAux A P key (fuel + 1) e pos =
      if !p.isPrefixOf (key.drop pos) then Res.ok A.zero
      else if pos + p.length ≥ key.length then Res.ok (ch.felt A)
      else verifyLAux A P key fuel (ch.felt A) (pos + p.length) := by
  have hmod : (pos + p.length) % 256 = pos + p.length := Nat.mod_eq_of_lt (by omega)
  have hc : pathCompat (key.drop pos) p = p.isPrefixOf (key.drop pos) :=
    pathCompat_of_le (by simp; omega)
  simp [verifyLAux, hget, hh, hmod, hc]

theorem get_of_WF_zero {s : Tree H} (h : WF s 0) (k : Path) : s.get A k = s.hash A := by
  obtain ⟨v, rfl⟩ := h.zero_inv
  rfl

/-! ### `trie.VerifyProof` is sound against any node set -/

theorem legacy_sound_aux (hI : Ideal A) (P : PSet H) (key : Path) (h256 : key.length < 256) :
    ∀ (s : Tree H) (m pos fuel : Nat) (v : H), WF s m → s.NZ A → 0 < m → pos + m = key.length →
      verifyLAux A P key fuel (s.hash A) pos = Res.ok v → v = s.get A (key.drop pos) := by
  intro s
  induction s with
  | leaf x => intro m pos fuel v hwf _ hm; have := hwf.leaf_inv; omega
  | bin l r ihl ihr =>
    intro m pos fuel v hwf hnz hm hpos h
    obtain ⟨n, rfl, hl, hr⟩ := hwf.bin_inv
    obtain ⟨hnzl, hnzr⟩ := hnz
    cases fuel with
    | zero => simp [verifyLAux] at h
    | succ f =>
      cases hget : P.get ((Tree.bin l r).hash A) with
      | none => simp [verifyLAux, hget] at h
      | some nd =>
        by_cases hh : nd.hash A = (Tree.bin l r).hash A
        · obtain ⟨l', r', c', rfl, hl', hr'⟩ := pnode_of_hash_bin hI (a := l.hash A) (b := r.hash A) (hash_ne_zero_nz hI hr hnzr) hh
          rw [verifyLAux_bin hget hh (by omega) h256] at h
          have hget' : (Tree.bin l r).get A (key.drop pos) =
              if key.getD pos false then r.get A (key.drop (pos + 1)) else l.get A (key.drop (pos + 1)) := by
            simp [Tree.get, List.tail_drop]
          rw [hget']
          by_cases hend : pos + 1 ≥ key.length
          · have hn : n = 0 := by omega
            subst hn
            rw [if_pos hend] at h
            cases h
            rw [get_of_WF_zero hl, get_of_WF_zero hr, hl', hr']
          · rw [if_neg hend] at h
            cases hb : key.getD pos false with
            | true =>
              rw [hb] at h; simp only [if_true] at h ⊢
              rw [hr'] at h
              exact ihr n (pos + 1) f v hr hnzr (by omega) (by omega) h
            | false =>
              rw [hb] at h; simp only [Bool.false_eq_true, if_false] at h ⊢
              rw [hl'] at h
              exact ihl n (pos + 1) f v hl hnzl (by omega) (by omega) h
        · simp [verifyLAux, hget, hh] at h
  | edge p c ih =>
    intro m pos fuel v hwf hnz hm hpos h
    obtain ⟨n, rfl, hp, hc⟩ := hwf.edge_inv
    cases fuel with
    | zero => simp [verifyLAux] at h
    | succ f =>
      cases hget : P.get ((Tree.edge p c).hash A) with
      | none => simp [verifyLAux, hget] at h
      | some nd =>
        by_cases hh : nd.hash A = (Tree.edge p c).hash A
        · obtain ⟨ch, cc, rfl, hch⟩ := pnode_of_hash_edge hI (c := c.hash A) (p := p) hp hh
          rw [verifyLAux_edge hget hh (by omega) h256] at h
          simp only [Tree.get]
          cases hpre : p.isPrefixOf (key.drop pos) with
          | false =>
            rw [hpre] at h; simp at h
            simp [h]
          | true =>
            rw [hpre] at h
            simp only [Bool.not_true, Bool.false_eq_true, if_false, if_true] at h ⊢
            have hdd : (key.drop pos).drop p.length = key.drop (pos + p.length) := by
              rw [List.drop_drop]
            rw [hdd]
            by_cases hend : pos + p.length ≥ key.length
            · have hn : n = 0 := by omega
              subst hn
              rw [if_pos hend] at h
              cases h
              rw [get_of_WF_zero hc, hch]
            · rw [if_neg hend, hch] at h
              exact ih n (pos + p.length) f v hc hnz (by omega) (by omega) h
        · simp [verifyLAux, hget, hh] at h

/-! ### honest proof nodes -/

theorem Tree.child_felt (t : Tree H) : (t.child A).felt A = t.hash A := by
  cases t <;> rfl

theorem Tree.pnode_hash {t : Tree H} {cached : Bool} {nd : PNode H} (h : t.pnode A cached = some nd) :
    nd.hash A = t.hash A := by
  cases t with
  | leaf v => simp [Tree.pnode] at h
  | bin l r => simp [Tree.pnode] at h; subst h; simp [PNode.hash, Tree.hash, Tree.child_felt]
  | edge p c => simp [Tree.pnode] at h; subst h; simp [PNode.hash, Tree.hash, Tree.child_felt]

theorem proveNodes_bin (l r : Tree H) (legacy cached : Bool) (k : Path) :
    (Tree.bin l r).proveNodes A legacy cached k =
      PNode.bin (l.child A) (r.child A) (if cached then some ((Tree.bin l r).hash A) else none) ::
        (if k.headD false then r.proveNodes A legacy cached k.tail
         else l.proveNodes A legacy cached k.tail) := by
  simp [Tree.proveNodes, Tree.pnode]

theorem proveNodes_edge (p : Path) (c : Tree H) (legacy cached : Bool) (k : Path) :
    (Tree.edge p c).proveNodes A legacy cached k =
      PNode.edge p (c.child A) (if cached then some ((Tree.edge p c).hash A) else none) ::
        (if p.isPrefixOf k then c.proveNodes A legacy cached (k.drop p.length)
         else if legacy then (c.pnode A cached).toList else []) := by
  simp [Tree.proveNodes, Tree.pnode]

/-! ### `trie.VerifyProof` accepts every self-consistent node set that contains the honest proof -/

theorem legacy_complete_aux (hI : Ideal A) (P : PSet H) (key : Path) (h256 : key.length < 256)
    (hcons : ∀ e ∈ P, e.1 = e.2.hash A) (legacy cached : Bool) :
    ∀ (s : Tree H) (m pos fuel : Nat), WF s m → s.NZ A → 0 < m → pos + m = key.length → m ≤ fuel →
      (∀ nd ∈ s.proveNodes A legacy cached (key.drop pos), (nd.hash A, nd) ∈ P) →
      verifyLAux A P key fuel (s.hash A) pos = Res.ok (s.get A (key.drop pos)) := by
  intro s
  induction s with
  | leaf x => intro m pos fuel hwf _ hm; have := hwf.leaf_inv; omega
  | bin l r ihl ihr =>
    intro m pos fuel hwf hnz hm hpos hfuel hsub
    obtain ⟨n, rfl, hl, hr⟩ := hwf.bin_inv
    obtain ⟨hnzl, hnzr⟩ := hnz
    obtain ⟨f, rfl⟩ : ∃ f, fuel = f + 1 := ⟨fuel - 1, by omega⟩
    rw [proveNodes_bin] at hsub
    have h0 := hsub _ (List.mem_cons_self ..)
    have hh0 : (PNode.bin (l.child A) (r.child A)
        (if cached then some ((Tree.bin l r).hash A) else none)).hash A = (Tree.bin l r).hash A := by
      simp [PNode.hash, Tree.hash, Tree.child_felt]
    rw [hh0] at h0
    obtain ⟨nd, hget⟩ := PSet.get_isSome_of_mem h0
    have hh : nd.hash A = (Tree.bin l r).hash A := (hcons _ (PSet.get_mem hget)).symm
    obtain ⟨l', r', c', rfl, hl', hr'⟩ := pnode_of_hash_bin hI (a := l.hash A) (b := r.hash A) (hash_ne_zero_nz hI hr hnzr) hh
    rw [verifyLAux_bin hget hh (by omega) h256]
    have hget' : (Tree.bin l r).get A (key.drop pos) =
        if key.getD pos false then r.get A (key.drop (pos + 1)) else l.get A (key.drop (pos + 1)) := by
      simp [Tree.get, List.tail_drop]
    rw [hget']
    have hsub' : ∀ nd ∈ (if key.getD pos false then r.proveNodes A legacy cached (key.drop (pos + 1))
        else l.proveNodes A legacy cached (key.drop (pos + 1))), (nd.hash A, nd) ∈ P := by
      intro nd hnd
      apply hsub nd
      apply List.mem_cons_of_mem
      simpa [List.tail_drop] using hnd
    by_cases hend : pos + 1 ≥ key.length
    · have hn : n = 0 := by omega
      subst hn
      rw [if_pos hend, get_of_WF_zero hl, get_of_WF_zero hr, hl', hr']
    · rw [if_neg hend]
      cases hb : key.getD pos false with
      | true =>
        rw [hb] at hsub'
        simp only [if_true] at hsub' ⊢
        rw [hr']
        exact ihr n (pos + 1) f hr hnzr (by omega) (by omega) (by omega) hsub'
      | false =>
        rw [hb] at hsub'
        simp only [Bool.false_eq_true, if_false] at hsub' ⊢
        rw [hl']
        exact ihl n (pos + 1) f hl hnzl (by omega) (by omega) (by omega) hsub'
  | edge p c ih =>
    intro m pos fuel hwf hnz hm hpos hfuel hsub
    obtain ⟨n, rfl, hp, hc⟩ := hwf.edge_inv
    have hplen : 0 < p.length := List.length_pos_iff.mpr hp
    obtain ⟨f, rfl⟩ : ∃ f, fuel = f + 1 := ⟨fuel - 1, by omega⟩
    rw [proveNodes_edge] at hsub
    have h0 := hsub _ (List.mem_cons_self ..)
    have hh0 : (PNode.edge p (c.child A)
        (if cached then some ((Tree.edge p c).hash A) else none)).hash A = (Tree.edge p c).hash A := by
      simp [PNode.hash, Tree.hash, Tree.child_felt]
    rw [hh0] at h0
    obtain ⟨nd, hget⟩ := PSet.get_isSome_of_mem h0
    have hh : nd.hash A = (Tree.edge p c).hash A := (hcons _ (PSet.get_mem hget)).symm
    obtain ⟨ch, cc, rfl, hch⟩ := pnode_of_hash_edge hI (c := c.hash A) (p := p) hp hh
    rw [verifyLAux_edge hget hh (by omega) h256]
    simp only [Tree.get]
    cases hpre : p.isPrefixOf (key.drop pos) with
    | false => simp
    | true =>
      rw [hpre] at hsub
      simp only [Bool.not_true, Bool.false_eq_true, if_false, if_true] at hsub ⊢
      have hdd : (key.drop pos).drop p.length = key.drop (pos + p.length) := by
        rw [List.drop_drop]
      rw [hdd] at hsub ⊢
      by_cases hend : pos + p.length ≥ key.length
      · have hn : n = 0 := by omega
        subst hn
        rw [if_pos hend, get_of_WF_zero hc, hch]
      · rw [if_neg hend, hch]
        exact ih n (pos + p.length) f hc hnz (by omega) (by omega) (by omega)
          (fun nd hnd => hsub nd (List.mem_cons_of_mem _ hnd))

/-! ### `trie2.VerifyProof` -/

theorem hash_ne_zero (hI : Ideal A) {t : Tree H} {n : Nat} (hwf : WF t n) (hn : 0 < n) :
    t.hash A ≠ A.zero := by
  cases t with
  | leaf v => have := hwf.leaf_inv; omega
  | bin l r => exact hI.bin_ne_zero _ _
  | edge p c => exact hI.edge_ne_zero _ _

/-- what `VerifyProof` does with the child `get` returned -/
def after2 (A : HashAlg H) (cfg : Cfg) (P : PSet H) (fuel : Nat) (c : Child H) (key' : Path) : Res H :=
  match c.tag with
  | .nil => if cfg.walkCollapsed && !(cfg.earlyValue || key'.length = 0) then .earlyValue else .ok A.zero
  | .hash => if key'.length = 0 then .ok c.h else verify2Aux A cfg P fuel c.h key'
  | .value => if cfg.earlyValue || key'.length = 0 then .ok c.h else .earlyValue

/-- the child is one of the three collapsed shapes (not an embedded node) -/
def Child.noEmb (c : Child H) : Prop := c.shape ≠ Shape.embPlain ∧ c.shape ≠ Shape.embCached

def PNode.noEmb : PNode H → Prop
  | .bin l r _ => l.noEmb ∧ r.noEmb
  | .edge _ c _ => c.noEmb

/-- the full arm structure of `VerifyProof` after `get`, embedded children included -/
def after2e (A : HashAlg H) (cfg : Cfg) (P : PSet H) (fuel : Nat) (e : H) (c : Child H) (key' : Path) :
    Res H :=
  if !cfg.walkCollapsed && c.shape = .embPlain then verify2Aux A cfg P fuel e key'
  else if !cfg.walkCollapsed && c.shape = .embCached then verify2Aux A cfg P fuel c.h key'
  else after2 A cfg P fuel c key'

theorem after2e_eq {cfg : Cfg} {P : PSet H} {fuel : Nat} {e : H} {c : Child H} {key' : Path}
    (h : cfg.walkCollapsed = true ∨ c.noEmb) : after2e A cfg P fuel e c key' = after2 A cfg P fuel c key' := by
  unfold after2e
  rcases h with h | ⟨h1, h2⟩
  · simp [h]
  · simp [h1, h2]

theorem verify2Aux_succ_e {cfg : Cfg} {P : PSet H} {key : Path} {fuel : Nat} {e : H} {nd : PNode H}
    (hget : P.get e = some nd) (hh : nd.hash2 A cfg = e) :
    verify2Aux A cfg P (fuel + 1) e key =
      match step2 nd key with
      | (none, _) => Res.ok A.zero
      | (some c, key') => after2e A cfg P fuel e c key' := by
  simp only [verify2Aux, hget, hh, ne_eq, not_true_eq_false, if_false, after2e, after2]
  rfl

theorem step2_child_noEmb {nd : PNode H} (h : nd.noEmb) (key : Path) :
    ∀ c key', step2 nd key = (some c, key') → c.noEmb := by
  intro c key' hs
  cases nd with
  | bin l r cc =>
    simp only [step2, Prod.mk.injEq, Option.some.injEq] at hs
    obtain ⟨hc, _⟩ := hs
    subst hc
    split
    · exact h.2
    · exact h.1
  | edge p ch cc =>
    simp only [step2] at hs
    split at hs
    · cases hs
    · simp only [Prod.mk.injEq, Option.some.injEq] at hs
      obtain ⟨hc, _⟩ := hs
      subst hc
      exact h

theorem verify2Aux_succ {cfg : Cfg} {P : PSet H} {key : Path} {fuel : Nat} {e : H} {nd : PNode H}
    (hget : P.get e = some nd) (hh : nd.hash2 A cfg = e) (hemb : cfg.walkCollapsed = true ∨ nd.noEmb) :
    verify2Aux A cfg P (fuel + 1) e key =
      match step2 nd key with
      | (none, _) => Res.ok A.zero
      | (some c, key') => after2 A cfg P fuel c key' := by
  rw [verify2Aux_succ_e hget hh]
  cases hs : step2 nd key with
  | mk oc key' =>
    cases oc with
    | none => rfl
    | some c =>
      simp only
      apply after2e_eq
      rcases hemb with h | h
      · exact Or.inl h
      · exact Or.inr (step2_child_noEmb h key c key' hs)

theorem after2_sound (hI : Ideal A) {cfg : Cfg} {P : PSet H} {t' : Tree H} {n fuel : Nat}
    {ch : Child H} {key' : Path} {v : H}
    (hwf : WF t' n) (hk : key'.length = n) (hf : ch.felt A = t'.hash A)
    (hnv : cfg.earlyValue = true → ch.tag ≠ Tag.value)
    (ih : 0 < n → verify2Aux A cfg P fuel (t'.hash A) key' = Res.ok v → v = t'.get A key')
    (h : after2 A cfg P fuel ch key' = Res.ok v) : v = t'.get A key' := by
  unfold after2 at h
  cases htag : ch.tag with
  | nil =>
    rw [htag] at h; simp only at h
    have hz : t'.hash A = A.zero := by rw [← hf]; simp [Child.felt, htag]
    split at h
    · cases h
    · cases h
      by_cases hn : 0 < n
      · exact absurd hz (hash_ne_zero hI hwf hn)
      · have : n = 0 := by omega
        subst this
        rw [get_of_WF_zero hwf, hz]
  | hash =>
    rw [htag] at h; simp only at h
    have hfe : ch.h = t'.hash A := by rw [← hf]; simp [Child.felt, htag]
    by_cases hn : n = 0
    · subst hn
      rw [if_pos hk] at h
      cases h
      rw [get_of_WF_zero hwf, hfe]
    · rw [if_neg (by omega), hfe] at h
      exact ih (by omega) h
  | value =>
    rw [htag] at h; simp only at h
    have hfe : ch.h = t'.hash A := by rw [← hf]; simp [Child.felt, htag]
    have hev : cfg.earlyValue = false := by
      cases hc : cfg.earlyValue with
      | false => rfl
      | true => exact absurd htag (hnv hc)
    rw [hev] at h
    by_cases hn : n = 0
    · subst hn
      simp [hk] at h
      rw [get_of_WF_zero hwf, ← hfe, h]
    · have : ¬ key'.length = 0 := by omega
      simp [this] at h

/-- no child of the node is typed as a value node -/
def PNode.noValue : PNode H → Prop
  | .bin l r _ => l.tag ≠ Tag.value ∧ r.tag ≠ Tag.value
  | .edge _ c _ => c.tag ≠ Tag.value

theorem hash2_eq_hash {cfg : Cfg} {nd : PNode H} (h : cfg.trustCache = true → nd.cache = none) :
    nd.hash2 A cfg = nd.hash A := by
  unfold PNode.hash2
  cases hc : cfg.trustCache with
  | false => simp
  | true => simp [h hc]

theorem trie2_sound_aux (hI : Ideal A) (cfg : Cfg) (P : PSet H)
    (hcache : cfg.trustCache = true → ∀ e ∈ P, e.2.cache = none)
    (hval : cfg.earlyValue = true → ∀ e ∈ P, e.2.noValue)
    (hemb : cfg.walkCollapsed = true ∨ ∀ e ∈ P, e.2.noEmb) :
    ∀ (s : Tree H) (m fuel : Nat) (key : Path) (v : H), WF s m → s.NZ A → 0 < m → key.length = m →
      verify2Aux A cfg P fuel (s.hash A) key = Res.ok v → v = s.get A key := by
  intro s
  induction s with
  | leaf x => intro m fuel key v hwf _ hm; have := hwf.leaf_inv; omega
  | bin l r ihl ihr =>
    intro m fuel key v hwf hnz hm hk h
    obtain ⟨n, rfl, hl, hr⟩ := hwf.bin_inv
    obtain ⟨hnzl, hnzr⟩ := hnz
    cases fuel with
    | zero => simp [verify2Aux] at h
    | succ f =>
      cases hget : P.get ((Tree.bin l r).hash A) with
      | none => simp [verify2Aux, hget] at h
      | some nd =>
        have hmem := PSet.get_mem hget
        have h2 : nd.hash2 A cfg = nd.hash A := hash2_eq_hash (fun hc => hcache hc _ hmem)
        by_cases hh : nd.hash A = (Tree.bin l r).hash A
        · obtain ⟨l', r', c', rfl, hl', hr'⟩ := pnode_of_hash_bin hI (a := l.hash A) (b := r.hash A) (hash_ne_zero_nz hI hr hnzr) hh
          rw [verify2Aux_succ hget (h2.trans hh) (hemb.imp id (fun h' => h' _ hmem))] at h
          simp only [step2] at h
          have hkl : (key.drop 1).length = n := by simp; omega
          simp only [Tree.get]
          have hnv : cfg.earlyValue = true → l'.tag ≠ Tag.value ∧ r'.tag ≠ Tag.value :=
            fun hc => hval hc _ hmem
          cases hb : key.headD false with
          | true =>
            rw [hb] at h; simp only [if_true] at h ⊢
            rw [← List.drop_one]
            exact after2_sound hI hr hkl hr' (fun hc => (hnv hc).2)
              (fun hn hv => ihr n f _ v hr hnzr hn hkl hv) h
          | false =>
            rw [hb] at h; simp only [Bool.false_eq_true, if_false] at h ⊢
            rw [← List.drop_one]
            exact after2_sound hI hl hkl hl' (fun hc => (hnv hc).1)
              (fun hn hv => ihl n f _ v hl hnzl hn hkl hv) h
        · rw [← h2] at hh
          simp [verify2Aux, hget, hh] at h
  | edge p c ih =>
    intro m fuel key v hwf hnz hm hk h
    obtain ⟨n, rfl, hp, hc⟩ := hwf.edge_inv
    cases fuel with
    | zero => simp [verify2Aux] at h
    | succ f =>
      cases hget : P.get ((Tree.edge p c).hash A) with
      | none => simp [verify2Aux, hget] at h
      | some nd =>
        have hmem := PSet.get_mem hget
        have h2 : nd.hash2 A cfg = nd.hash A := hash2_eq_hash (fun hc => hcache hc _ hmem)
        by_cases hh : nd.hash A = (Tree.edge p c).hash A
        · obtain ⟨ch, cc, rfl, hch⟩ := pnode_of_hash_edge hI (c := c.hash A) (p := p) hp hh
          rw [verify2Aux_succ hget (h2.trans hh) (hemb.imp id (fun h' => h' _ hmem))] at h
          have hcomp : pathCompat p key = p.isPrefixOf key := by
            rw [pathCompat_comm]; exact pathCompat_of_le (by omega)
          simp only [step2, hcomp] at h
          simp only [Tree.get]
          cases hpre : p.isPrefixOf key with
          | false =>
            rw [hpre] at h; simp at h
            simp [h]
          | true =>
            rw [hpre] at h
            simp only [Bool.not_true, Bool.false_eq_true, if_false, if_true] at h ⊢
            have hkl : (key.drop p.length).length = n := by simp; omega
            exact after2_sound hI hc hkl hch (fun hcv => hval hcv _ hmem)
              (fun hn hv => ih n f _ v hc hnz hn hkl hv) h
        · rw [← h2] at hh
          simp [verify2Aux, hget, hh] at h

theorem Tree.child_noEmb (t : Tree H) : (t.child A).noEmb := by
  cases t <;> simp [Tree.child, Child.noEmb]

theorem after2_complete {cfg : Cfg} {P : PSet H} {t' : Tree H} {n fuel : Nat} {key' : Path}
    (hwf : WF t' n) (hk : key'.length = n)
    (ih : 0 < n → verify2Aux A cfg P fuel (t'.hash A) key' = Res.ok (t'.get A key')) :
    after2 A cfg P fuel (t'.child A) key' = Res.ok (t'.get A key') := by
  unfold after2
  cases t' with
  | leaf v =>
    have : n = 0 := hwf.leaf_inv
    subst this
    simp [Tree.child, Child.tag, hk, Tree.get]
  | bin l r =>
    obtain ⟨n', rfl, _, _⟩ := hwf.bin_inv
    have : ¬ key'.length = 0 := by omega
    simp only [Tree.child, Child.tag, this, if_false]
    exact ih (by omega)
  | edge p c =>
    obtain ⟨n', rfl, hp, _⟩ := hwf.edge_inv
    have hplen : 0 < p.length := List.length_pos_iff.mpr hp
    have : ¬ key'.length = 0 := by omega
    simp only [Tree.child, Child.tag, this, if_false]
    exact ih (by omega)

theorem honest_hash2 (cfg : Cfg) (cached : Bool) (nd : PNode H) (h : H) (hh : nd.hash A = h)
    (hc : nd.cache = if cached then some h else none) : nd.hash2 A cfg = h := by
  unfold PNode.hash2
  cases cached <;> cases cfg.trustCache <;> simp_all

theorem trie2_complete_aux (cfg : Cfg) (P : PSet H) (legacy cached : Bool) :
    ∀ (s : Tree H) (m fuel : Nat) (key : Path), WF s m → 0 < m → key.length = m → m ≤ fuel →
      (∀ nd ∈ s.proveNodes A legacy cached key, P.get (nd.hash A) = some nd) →
      verify2Aux A cfg P fuel (s.hash A) key = Res.ok (s.get A key) := by
  intro s
  induction s with
  | leaf x => intro m fuel key hwf hm; have := hwf.leaf_inv; omega
  | bin l r ihl ihr =>
    intro m fuel key hwf hm hk hfuel hlook
    obtain ⟨n, rfl, hl, hr⟩ := hwf.bin_inv
    obtain ⟨f, rfl⟩ : ∃ f, fuel = f + 1 := ⟨fuel - 1, by omega⟩
    rw [proveNodes_bin] at hlook
    have h0 := hlook _ (List.mem_cons_self ..)
    have hh0 : (PNode.bin (l.child A) (r.child A)
        (if cached then some ((Tree.bin l r).hash A) else none)).hash A = (Tree.bin l r).hash A := by
      simp [PNode.hash, Tree.hash, Tree.child_felt]
    rw [hh0] at h0
    rw [verify2Aux_succ h0 (honest_hash2 cfg cached _ _ hh0 rfl) (Or.inr ⟨Tree.child_noEmb _, Tree.child_noEmb _⟩)]
    have hkl : (key.drop 1).length = n := by simp; omega
    simp only [step2, Tree.get]
    rw [← List.drop_one]
    cases hb : key.headD false with
    | true =>
      rw [hb] at hlook
      simp only [if_true] at hlook ⊢
      exact after2_complete hr hkl (fun hn => ihr n f _ hr hn hkl (by omega)
        (fun nd hnd => hlook nd (List.mem_cons_of_mem _ (by simpa [List.drop_one] using hnd))))
    | false =>
      rw [hb] at hlook
      simp only [Bool.false_eq_true, if_false] at hlook ⊢
      exact after2_complete hl hkl (fun hn => ihl n f _ hl hn hkl (by omega)
        (fun nd hnd => hlook nd (List.mem_cons_of_mem _ (by simpa [List.drop_one] using hnd))))
  | edge p c ih =>
    intro m fuel key hwf hm hk hfuel hlook
    obtain ⟨n, rfl, hp, hc⟩ := hwf.edge_inv
    have hplen : 0 < p.length := List.length_pos_iff.mpr hp
    obtain ⟨f, rfl⟩ : ∃ f, fuel = f + 1 := ⟨fuel - 1, by omega⟩
    rw [proveNodes_edge] at hlook
    have h0 := hlook _ (List.mem_cons_self ..)
    have hh0 : (PNode.edge p (c.child A)
        (if cached then some ((Tree.edge p c).hash A) else none)).hash A = (Tree.edge p c).hash A := by
      simp [PNode.hash, Tree.hash, Tree.child_felt]
    rw [hh0] at h0
    rw [verify2Aux_succ h0 (honest_hash2 cfg cached _ _ hh0 rfl) (Or.inr (Tree.child_noEmb _))]
    have hcomp : pathCompat p key = p.isPrefixOf key := by
      rw [pathCompat_comm]; exact pathCompat_of_le (by omega)
    simp only [step2, hcomp, Tree.get]
    cases hpre : p.isPrefixOf key with
    | false => simp
    | true =>
      rw [hpre] at hlook
      simp only [Bool.not_true, Bool.false_eq_true, if_false, if_true] at hlook ⊢
      have hkl : (key.drop p.length).length = n := by simp; omega
      exact after2_complete hc hkl (fun hn => ih n f _ hc hn hkl (by omega)
        (fun nd hnd => hlook nd (List.mem_cons_of_mem _ hnd)))

/-! ### the honest node set returns the honest node for every honest hash (no hash cycles) -/

theorem toPSet_get_of_pairwise (ns : List (PNode H))
    (hp : ns.Pairwise (fun a b => a.hash A ≠ b.hash A)) :
    ∀ nd ∈ ns, (toPSet A ns).get (nd.hash A) = some nd := by
  induction ns with
  | nil => intro nd h; simp at h
  | cons x xs ih =>
    intro nd hnd
    rw [List.pairwise_cons] at hp
    simp only [toPSet, List.map_cons, PSet.get]
    rcases List.mem_cons.mp hnd with h1 | h1
    · subst h1; simp
    · have : x.hash A ≠ nd.hash A := hp.1 nd h1
      simp only [this, if_false]
      exact ih hp.2 nd h1

theorem proveNodes_rank (rank : H → Nat)
    (hb : ∀ a b, rank a < rank (A.bin a b) ∧ rank b < rank (A.bin a b))
    (he : ∀ c p, rank c < rank (A.edge c p)) (legacy cached : Bool) :
    ∀ (s : Tree H) (key : Path),
      (∀ nd ∈ s.proveNodes A legacy cached key, rank (nd.hash A) ≤ rank (s.hash A)) ∧
      (s.proveNodes A legacy cached key).Pairwise (fun a b => rank (b.hash A) < rank (a.hash A)) := by
  intro s
  induction s with
  | leaf v => intro key; simp [Tree.proveNodes]
  | bin l r ihl ihr =>
    intro key
    rw [proveNodes_bin]
    have hh0 : (PNode.bin (l.child A) (r.child A)
        (if cached then some ((Tree.bin l r).hash A) else none)).hash A = (Tree.bin l r).hash A := by
      simp [PNode.hash, Tree.hash, Tree.child_felt]
    have hrest : ∀ nd ∈ (if key.headD false then r.proveNodes A legacy cached key.tail
        else l.proveNodes A legacy cached key.tail), rank (nd.hash A) < rank ((Tree.bin l r).hash A) := by
      intro nd hnd
      cases hbit : key.headD false with
      | true =>
        rw [hbit] at hnd; simp only [if_true] at hnd
        exact Nat.lt_of_le_of_lt ((ihr _).1 nd hnd) (hb _ _).2
      | false =>
        rw [hbit] at hnd; simp only [Bool.false_eq_true, if_false] at hnd
        exact Nat.lt_of_le_of_lt ((ihl _).1 nd hnd) (hb _ _).1
    refine ⟨?_, ?_⟩
    · intro nd hnd
      rcases List.mem_cons.mp hnd with h1 | h1
      · subst h1; rw [hh0]; exact Nat.le_refl _
      · exact Nat.le_of_lt (hrest nd h1)
    · rw [List.pairwise_cons]
      refine ⟨fun nd hnd => by rw [hh0]; exact hrest nd hnd, ?_⟩
      cases key.headD false
      · simpa using (ihl _).2
      · simpa using (ihr _).2
  | edge p c ih =>
    intro key
    rw [proveNodes_edge]
    have hh0 : (PNode.edge p (c.child A)
        (if cached then some ((Tree.edge p c).hash A) else none)).hash A = (Tree.edge p c).hash A := by
      simp [PNode.hash, Tree.hash, Tree.child_felt]
    have hrest : ∀ nd ∈ (if p.isPrefixOf key then c.proveNodes A legacy cached (key.drop p.length)
        else if legacy then (c.pnode A cached).toList else []),
        rank (nd.hash A) < rank ((Tree.edge p c).hash A) := by
      intro nd hnd
      cases hpre : p.isPrefixOf key with
      | true =>
        rw [hpre] at hnd; simp only [if_true] at hnd
        exact Nat.lt_of_le_of_lt ((ih _).1 nd hnd) (he _ _)
      | false =>
        rw [hpre] at hnd; simp only [Bool.false_eq_true, if_false] at hnd
        cases legacy with
        | false => simp at hnd
        | true =>
          simp only [if_true, Option.mem_toList] at hnd
          rw [Tree.pnode_hash hnd]
          exact he _ _
    refine ⟨?_, ?_⟩
    · intro nd hnd
      rcases List.mem_cons.mp hnd with h1 | h1
      · subst h1; rw [hh0]; exact Nat.le_refl _
      · exact Nat.le_of_lt (hrest nd h1)
    · rw [List.pairwise_cons]
      refine ⟨fun nd hnd => by rw [hh0]; exact hrest nd hnd, ?_⟩
      cases p.isPrefixOf key
      · cases legacy
        · simp
        · cases c.pnode A cached <;> simp
      · simpa using (ih _).2

theorem honest_lookup (hac : Acyclic A) (legacy cached : Bool) (s : Tree H) (key : Path) :
    ∀ nd ∈ s.proveNodes A legacy cached key,
      (toPSet A (s.proveNodes A legacy cached key)).get (nd.hash A) = some nd := by
  obtain ⟨rank, hb, he⟩ := hac
  apply toPSet_get_of_pairwise
  exact ((proveNodes_rank rank hb he legacy cached s key).2).imp
    (fun h heq => by rw [heq] at h; exact Nat.lt_irrefl _ h)

/-! ### the free term algebra is an ideal hash -/

theorem pathVal_lt (p : Path) : pathVal p < 2 ^ p.length := by
  induction p with
  | nil => simp [pathVal]
  | cons b p ih =>
    simp only [pathVal, List.length_cons, Nat.pow_succ]
    split <;> omega

theorem pathVal_inj : ∀ (p q : Path), p.length = q.length → pathVal p = pathVal q → p = q := by
  intro p
  induction p with
  | nil => intro q hl _; cases q with
    | nil => rfl
    | cons _ _ => simp at hl
  | cons b p ih =>
    intro q hl hv
    cases q with
    | nil => simp at hl
    | cons c q =>
      simp only [List.length_cons, Nat.add_right_cancel_iff] at hl
      simp only [pathVal, hl] at hv
      have h1 := pathVal_lt p
      have h2 := pathVal_lt q
      rw [hl] at h1
      cases b <;> cases c <;> simp at hv
      · rw [ih q hl hv]
      · omega
      · omega
      · rw [ih q hl hv]

def HTerm.rank : HTerm → Nat
  | .felt _ => 0
  | .ped a b => a.rank + b.rank + 1
  | .add a _ => a.rank + 1

theorem freeAlg_ideal : Ideal freeAlg where
  bin_inj := by intro a b c d h; simp [HashAlg.bin, freeAlg] at h; exact h
  edge_inj := by
    intro c p c' p' h
    simp [HashAlg.edge, freeAlg] at h
    exact ⟨h.1.1, pathVal_inj p p' h.2 h.1.2⟩
  bin_ne_edge := by intro a b c p _ h; simp [HashAlg.bin, HashAlg.edge, freeAlg] at h
  bin_ne_zero := by intro a b h; simp [HashAlg.bin, freeAlg] at h
  edge_ne_zero := by intro c p h; simp [HashAlg.edge, freeAlg] at h

theorem feltLikeAlg_edge (c : HTerm) (p : Path) :
    feltLikeAlg.edge c p = if p.length = 0 then HTerm.ped c (.felt (pathVal p))
      else HTerm.add (HTerm.ped c (.felt (pathVal p))) p.length := by
  simp [HashAlg.edge, feltLikeAlg]

/-- the repaired `Ideal` is satisfiable in an algebra with `ofNat 0 = zero` and `x + 0 = x` -/
theorem feltLikeAlg_ideal : Ideal feltLikeAlg where
  bin_inj := by intro a b c d h; simp [HashAlg.bin, feltLikeAlg] at h; exact h
  edge_inj := by
    intro c p c' p' h
    rw [feltLikeAlg_edge, feltLikeAlg_edge] at h
    by_cases hp : p.length = 0 <;> by_cases hp' : p'.length = 0
    · simp only [hp, hp', if_true] at h
      have e1 : p = [] := List.eq_nil_of_length_eq_zero hp
      have e2 : p' = [] := List.eq_nil_of_length_eq_zero hp'
      subst e1; subst e2
      simp at h
      exact ⟨h, rfl⟩
    · simp [hp, hp'] at h
    · simp [hp, hp'] at h
    · simp only [hp, hp', if_false] at h
      simp at h
      exact ⟨h.1.1, pathVal_inj p p' h.2 h.1.2⟩
  bin_ne_edge := by
    intro a b c p hor h
    rw [feltLikeAlg_edge] at h
    by_cases hp : p.length = 0
    · have e1 : p = [] := List.eq_nil_of_length_eq_zero hp
      subst e1
      simp [HashAlg.bin, feltLikeAlg, pathVal] at h
      rcases hor with h1 | h1
      · exact h1 rfl
      · exact h1 (by simp [feltLikeAlg, h.2])
    · simp [hp, HashAlg.bin, feltLikeAlg] at h
  bin_ne_zero := by intro a b h; simp [HashAlg.bin, feltLikeAlg] at h
  edge_ne_zero := by
    intro c p h
    rw [feltLikeAlg_edge] at h
    split at h <;> simp [feltLikeAlg] at h

/-- …where the collision the unrestricted statement would forbid really exists -/
theorem feltLikeAlg_collision (c : HTerm) : feltLikeAlg.bin c feltLikeAlg.zero = feltLikeAlg.edge c [] := by
  simp [HashAlg.bin, HashAlg.edge, feltLikeAlg, pathVal]

theorem freeAlg_acyclic : Acyclic freeAlg :=
  ⟨HTerm.rank, by intro a b; simp [HashAlg.bin, freeAlg, HTerm.rank]; omega,
    by intro c p; simp [HashAlg.edge, freeAlg, HTerm.rank]; omega⟩

/-! ### top level: the verifiers on tries -/

/-- A trie of height `n`: empty, or a well-formed tree of height `n`. -/
def Trie.WF (t : Trie H) (n : Nat) : Prop :=
  match t with
  | none => True
  | some t => Juno.C10.WF t n

/-- no leaf of the trie holds zero -/
def Trie.NZ (A : HashAlg H) (t : Trie H) : Prop :=
  match t with
  | none => True
  | some t => t.NZ A

theorem verifyFuel_ge {n : Nat} (h : n < 256) : n ≤ verifyFuel := by unfold verifyFuel; omega

theorem verifyL_nonzero {cfg : Cfg} {root : H} (key : Path) (P : PSet H) (h : root ≠ A.zero) :
    verifyL A cfg root key P = verifyLAux A P key verifyFuel root 0 := by
  simp [verifyL, h]

theorem verify2_nonzero {cfg : Cfg} {root : H} (key : Path) (P : PSet H) (h : root ≠ A.zero) :
    verify2 A cfg root key P = verify2Aux A cfg P verifyFuel root key := by
  simp [verify2, h]

theorem pnode_hash_ne_zero (hI : Ideal A) (nd : PNode H) : nd.hash A ≠ A.zero := by
  cases nd with
  | bin l r c => exact hI.bin_ne_zero _ _
  | edge p ch c => exact hI.edge_ne_zero _ _

theorem verifyLAux_zero_not_ok (hI : Ideal A) (P : PSet H) (key : Path) (fuel pos : Nat) (v : H) :
    verifyLAux A P key fuel A.zero pos ≠ Res.ok v := by
  cases fuel with
  | zero => simp [verifyLAux]
  | succ f =>
    cases hget : P.get A.zero with
    | none => simp [verifyLAux, hget]
    | some nd => simp [verifyLAux, hget, pnode_hash_ne_zero hI nd]

theorem verify2Aux_zero_not_ok (hI : Ideal A) (cfg : Cfg) (P : PSet H)
    (hcache : cfg.trustCache = true → ∀ e ∈ P, e.2.cache = none)
    (key : Path) (fuel : Nat) (v : H) :
    verify2Aux A cfg P fuel A.zero key ≠ Res.ok v := by
  cases fuel with
  | zero => simp [verify2Aux]
  | succ f =>
    cases hget : P.get A.zero with
    | none => simp [verify2Aux, hget]
    | some nd =>
      have h2 : nd.hash2 A cfg = nd.hash A :=
        hash2_eq_hash (fun hc => hcache hc _ (PSet.get_mem hget))
      simp [verify2Aux, hget, h2, pnode_hash_ne_zero hI nd]

theorem legacy_sound (hI : Ideal A) (cfg : Cfg) (t : Trie H) (n : Nat) (hwf : t.WF n) (hnz : t.NZ A) (hn : 0 < n)
    (h256 : n < 256) (k : Path) (hk : k.length = n) (P : PSet H) (v : H)
    (h : verifyL A cfg (t.hash A) k P = Res.ok v) : v = t.get A k := by
  cases t with
  | none =>
    simp only [Trie.hash, Trie.get] at h ⊢
    unfold verifyL at h
    split at h
    · cases h; rfl
    · exact absurd h (verifyLAux_zero_not_ok hI P k _ _ v)
  | some s =>
    simp only [Trie.hash, Trie.get] at h ⊢
    rw [verifyL_nonzero k P (hash_ne_zero hI hwf hn)] at h
    exact legacy_sound_aux hI P k (by omega) s n 0 verifyFuel v hwf hnz hn (by omega) h

theorem trie2_sound (hI : Ideal A) (cfg : Cfg) (t : Trie H) (n : Nat) (hwf : t.WF n) (hnz : t.NZ A) (hn : 0 < n)
    (k : Path) (hk : k.length = n) (P : PSet H)
    (hcache : cfg.trustCache = true → ∀ e ∈ P, e.2.cache = none)
    (hval : cfg.earlyValue = true → ∀ e ∈ P, e.2.noValue)
    (hemb : cfg.walkCollapsed = true ∨ ∀ e ∈ P, e.2.noEmb) (v : H)
    (h : verify2 A cfg (t.hash A) k P = Res.ok v) : v = t.get A k := by
  cases t with
  | none =>
    simp only [Trie.hash, Trie.get] at h ⊢
    unfold verify2 at h
    split at h
    · cases h; rfl
    · exact absurd h (verify2Aux_zero_not_ok hI cfg P hcache k _ v)
  | some s =>
    simp only [Trie.hash, Trie.get] at h ⊢
    rw [verify2_nonzero k P (hash_ne_zero hI hwf hn)] at h
    exact trie2_sound_aux hI cfg P hcache hval hemb s n verifyFuel k v hwf hnz hn hk h

theorem toPSet_consistent (ns : List (PNode H)) : ∀ e ∈ toPSet A ns, e.1 = e.2.hash A := by
  intro e he
  simp only [toPSet, List.mem_map] at he
  obtain ⟨nd, _, rfl⟩ := he
  rfl

theorem legacy_complete_tree (hI : Ideal A) (cfg : Cfg) (s : Tree H) (n : Nat) (hwf : WF s n) (hnz : s.NZ A)
    (hn : 0 < n) (h256 : n < 256) (k : Path) (hk : k.length = n) (legacy cached : Bool) (P : PSet H)
    (hsub : ∀ nd ∈ s.proveNodes A legacy cached k, (nd.hash A, nd) ∈ P)
    (hcons : ∀ e ∈ P, e.1 = e.2.hash A) :
    verifyL A cfg (s.hash A) k P = Res.ok (s.get A k) := by
  rw [verifyL_nonzero k P (hash_ne_zero hI hwf hn)]
  exact legacy_complete_aux hI P k (by omega) hcons legacy cached s n 0 verifyFuel hwf hnz hn (by omega)
    (verifyFuel_ge h256) hsub

theorem trie2_complete_tree (hI : Ideal A) (cfg : Cfg) (s : Tree H) (n : Nat) (hwf : WF s n)
    (hn : 0 < n) (h256 : n < 256) (k : Path) (hk : k.length = n) (legacy cached : Bool) (P : PSet H)
    (hlook : ∀ nd ∈ s.proveNodes A legacy cached k, P.get (nd.hash A) = some nd) :
    verify2 A cfg (s.hash A) k P = Res.ok (s.get A k) := by
  rw [verify2_nonzero k P (hash_ne_zero hI hwf hn)]
  exact trie2_complete_aux cfg P legacy cached s n verifyFuel k hwf hn hk (verifyFuel_ge h256) hlook

/-! ### trie2 range proofs (single-element, empty range) -/

/-- what `proofToPath` does with the child `get` returned -/
def afterR (A : HashAlg H) (rc : RCfg) (P : PSet H) (allow : Bool) (fuel : Nat) (node : PNode H)
    (key : Path) (c : Child H) (key' : Path) : Option (List (PNode H × Path) × Option H) :=
  match c.tag with
  | .nil => if allow then some ([(node, key)], none) else none
  | .value => if rc.earlyValue || key'.length = 0 then some ([(node, key)], some c.h) else none
  | .hash =>
    if rc.leafHash && key'.length = 0 then some ([(node, key)], some c.h) else
    match resolveAux A rc P allow fuel c.h key' with
    | none => none
    | some (rest, v) => some ((node, key) :: rest, v)

theorem resolveAux_succ {rc : RCfg} {P : PSet H} {allow : Bool} {key : Path} {fuel : Nat} {e : H}
    {nd : PNode H} (hget : P.get e = some nd) (hh : (rc.checkHash && nd.hash A ≠ e) = false) :
    resolveAux A rc P allow (fuel + 1) e key =
      match step2 nd key with
      | (none, _) => if allow then some ([(nd, key)], none) else none
      | (some c, key') => afterR A rc P allow fuel nd key c key' := by
  simp only [resolveAux, hget, afterR]
  rw [if_neg (by simpa using hh)]
  try rfl

/-- the value (or absence) `proofToPath` reports is the trie's, for the repaired variant -/
def ValOK (A : HashAlg H) (s : Tree H) (key : Path) (r : Option (List (PNode H × Path) × Option H)) : Prop :=
  match r with
  | none => True
  | some (_, some v) => v = s.get A key
  | some (_, none) => s.get A key = A.zero

theorem afterR_sound (hI : Ideal A) {rc : RCfg} (hev : rc.earlyValue = false)
    (hlh : rc.leafHash = true) {P : PSet H} {allow : Bool}
    {t' : Tree H} {n fuel : Nat} {node : PNode H} {key : Path} {ch : Child H} {key' : Path}
    (hwf : WF t' n) (hk : key'.length = n) (hf : ch.felt A = t'.hash A)
    (ih : 0 < n → ValOK A t' key' (resolveAux A rc P allow fuel (t'.hash A) key')) :
    ValOK A t' key' (afterR A rc P allow fuel node key ch key') := by
  unfold afterR
  cases htag : ch.tag with
  | nil =>
    have hz : t'.hash A = A.zero := by rw [← hf]; simp [Child.felt, htag]
    cases allow <;> simp only [ValOK, if_true, Bool.false_eq_true, if_false]
    by_cases hn : 0 < n
    · exact absurd hz (hash_ne_zero hI hwf hn)
    · have : n = 0 := by omega
      subst this
      rw [get_of_WF_zero hwf, hz]
  | value =>
    have hfe : ch.h = t'.hash A := by rw [← hf]; simp [Child.felt, htag]
    simp only [hev, Bool.false_or]
    by_cases hn : n = 0
    · subst hn
      simp only [hk, decide_true, if_true, ValOK]
      rw [get_of_WF_zero hwf, hfe]
    · have : ¬ key'.length = 0 := by omega
      simp [this, ValOK]
  | hash =>
    have hfe : ch.h = t'.hash A := by rw [← hf]; simp [Child.felt, htag]
    simp only [hfe, hlh, Bool.true_and]
    by_cases hn : 0 < n
    · have hk' : ¬ key'.length = 0 := by omega
      simp only [hk', decide_false, Bool.false_eq_true, if_false]
      have := ih hn
      cases hr : resolveAux A rc P allow fuel (t'.hash A) key' with
      | none => simp [ValOK]
      | some pr =>
        obtain ⟨rest, v⟩ := pr
        rw [hr] at this
        cases v <;> simpa [ValOK] using this
    · have hn0 : n = 0 := by omega
      subst hn0
      simp only [hk, decide_true, if_true, ValOK]
      rw [get_of_WF_zero hwf]


theorem resolve_sound (hI : Ideal A) (rc : RCfg) (hch : rc.checkHash = true)
    (hev : rc.earlyValue = false) (hlh : rc.leafHash = true) (P : PSet H) (allow : Bool) :
    ∀ (s : Tree H) (m fuel : Nat) (key : Path), WF s m → s.NZ A → 0 < m → key.length = m →
      ValOK A s key (resolveAux A rc P allow fuel (s.hash A) key) := by
  intro s
  induction s with
  | leaf x => intro m fuel key hwf _ hm; have := hwf.leaf_inv; omega
  | bin l r ihl ihr =>
    intro m fuel key hwf hnz hm hk
    obtain ⟨n, rfl, hl, hr⟩ := hwf.bin_inv
    obtain ⟨hnzl, hnzr⟩ := hnz
    cases fuel with
    | zero => simp [resolveAux, ValOK]
    | succ f =>
      cases hget : P.get ((Tree.bin l r).hash A) with
      | none => simp [resolveAux, hget, ValOK]
      | some nd =>
        by_cases hh : nd.hash A = (Tree.bin l r).hash A
        · obtain ⟨l', r', c', rfl, hl', hr'⟩ := pnode_of_hash_bin hI (a := l.hash A) (b := r.hash A) (hash_ne_zero_nz hI hr hnzr) hh
          rw [resolveAux_succ hget (by simp [hh])]
          simp only [step2]
          have hkl : (key.drop 1).length = n := by simp; omega
          have hgetT : (Tree.bin l r).get A key =
              if key.headD false then r.get A (key.drop 1) else l.get A (key.drop 1) := by
            simp [Tree.get, List.drop_one]
          cases hb : key.headD false with
          | true =>
            have h1 := afterR_sound hI hev hlh (P := P) (allow := allow) (fuel := f)
              (node := PNode.bin l' r' c') (key := key) hr hkl hr'
              (fun hn => ihr n f _ hr hnzr hn hkl)
            simp only [if_true]
            unfold ValOK at h1 ⊢
            rw [hgetT, hb]
            simpa using h1
          | false =>
            have h1 := afterR_sound hI hev hlh (P := P) (allow := allow) (fuel := f)
              (node := PNode.bin l' r' c') (key := key) hl hkl hl'
              (fun hn => ihl n f _ hl hnzl hn hkl)
            simp only [Bool.false_eq_true, if_false]
            unfold ValOK at h1 ⊢
            rw [hgetT, hb]
            simpa using h1
        · simp [resolveAux, hget, hch, hh, ValOK]
  | edge p c ih =>
    intro m fuel key hwf hnz hm hk
    obtain ⟨n, rfl, hp, hc⟩ := hwf.edge_inv
    cases fuel with
    | zero => simp [resolveAux, ValOK]
    | succ f =>
      cases hget : P.get ((Tree.edge p c).hash A) with
      | none => simp [resolveAux, hget, ValOK]
      | some nd =>
        by_cases hh : nd.hash A = (Tree.edge p c).hash A
        · obtain ⟨ch, cc, rfl, hch'⟩ := pnode_of_hash_edge hI (c := c.hash A) (p := p) hp hh
          rw [resolveAux_succ hget (by simp [hh])]
          have hcomp : pathCompat p key = p.isPrefixOf key := by
            rw [pathCompat_comm]; exact pathCompat_of_le (by omega)
          simp only [step2, hcomp]
          cases hpre : p.isPrefixOf key with
          | false =>
            cases allow <;> simp [ValOK, Tree.get, hpre]
          | true =>
            simp only [Bool.not_true, Bool.false_eq_true, if_false]
            have hkl : (key.drop p.length).length = n := by simp; omega
            have h1 := afterR_sound hI hev hlh (P := P) (allow := allow) (fuel := f)
              (node := PNode.edge p ch cc) (key := key) hc hkl hch'
              (fun hn => ih n f _ hc hnz hn hkl)
            unfold ValOK at h1 ⊢
            simpa [Tree.get, hpre] using h1
        · simp [resolveAux, hget, hch, hh, ValOK]


theorem pathVal_replicate_false (n : Nat) : pathVal (List.replicate n false) = 0 := by
  induction n with
  | zero => rfl
  | succ n ih => simp [List.replicate_succ, pathVal, ih]

theorem isPrefixOf_eq_of_length_eq {a b : Path} (h : a.length = b.length) :
    a.isPrefixOf b = decide (a = b) := by
  induction a generalizing b with
  | nil => cases b <;> simp_all
  | cons x xs ih =>
    cases b with
    | nil => simp at h
    | cons y ys =>
      have := ih (b := ys) (by simpa using h)
      by_cases hxy : x = y <;> simp [List.isPrefixOf, this, hxy]

theorem pathCompat_self (k : Path) : pathCompat k k = true := by
  simp [pathCompat, isPrefixOf_eq_of_length_eq]

theorem single_forgery (A : HashAlg H) (root : H) (k : Path) (v : H) (hv : v ≠ A.zero) :
    verifySingle A RCfg.asIs root k v [(root, PNode.edge k ⟨Shape.value, v⟩ none)] = RRes.ok false := by
  simp [verifySingle, hv, verifyFuel, resolveAux, PSet.get, RCfg.asIs, step2, pathCompat_self, hasRight,
    Child.tag]

theorem empty_forgery (A : HashAlg H) (root : H) (first : Path) (v : H)
    (hne : first ≠ List.replicate first.length false) :
    verifyEmpty A RCfg.asIs root first
      [(root, PNode.edge (List.replicate first.length false) ⟨Shape.value, v⟩ none)] = RRes.ok false := by
  have hlen : (List.replicate first.length false).length = first.length := by simp
  have hc : pathCompat (List.replicate first.length false) first = false := by
    unfold pathCompat
    rw [isPrefixOf_eq_of_length_eq hlen, isPrefixOf_eq_of_length_eq hlen.symm]
    simp [hne, Ne.symm hne]
  simp [verifyEmpty, verifyFuel, resolveAux, PSet.get, RCfg.asIs, step2, hc, hasRight, cmpGt,
    pathVal_replicate_false, Child.tag]

theorem single_sound (hI : Ideal A) (rc : RCfg) (hch : rc.checkHash = true)
    (hev : rc.earlyValue = false) (hlh : rc.leafHash = true) (t : Trie H) (n : Nat) (hwf : Trie.WF t n) (hnz : Trie.NZ A t)
    (hn : 0 < n) (k : Path) (hk : k.length = n) (v : H) (P : PSet H) (more : Bool)
    (h : verifySingle A rc (t.hash A) k v P = RRes.ok more) : t.get A k = v := by
  unfold verifySingle at h
  split at h
  · cases h
  · cases hr : resolveAux A rc P false verifyFuel (t.hash A) k with
    | none => simp [hr] at h
    | some pr =>
      obtain ⟨path, val⟩ := pr
      rw [hr] at h
      cases val with
      | none => simp at h
      | some w =>
        simp only at h
        split at h
        · rename_i hw
          cases t with
          | none =>
            -- zero root: no node hashes to zero
            simp only [Trie.hash] at hr
            unfold verifyFuel at hr
            cases hget : P.get A.zero with
            | none => simp [resolveAux, hget] at hr
            | some nd => simp [resolveAux, hget, hch, pnode_hash_ne_zero hI nd] at hr
          | some s =>
            have := resolve_sound hI rc hch hev hlh P false s n verifyFuel k hwf hnz hn hk
            simp only [Trie.hash] at hr
            rw [hr] at this
            simp only [ValOK] at this
            simp only [Trie.get]
            rw [← this, hw]
        · cases h

theorem empty_sound (hI : Ideal A) (rc : RCfg) (hch : rc.checkHash = true)
    (hev : rc.earlyValue = false) (hlh : rc.leafHash = true) (t : Tree H) (n : Nat) (hwf : WF t n) (hnz : t.NZ A)
    (hn : 0 < n) (first : Path) (hk : first.length = n) (P : PSet H) (more : Bool)
    (h : verifyEmpty A rc (t.hash A) first P = RRes.ok more) : t.get A first = A.zero := by
  unfold verifyEmpty at h
  have hroot : t.hash A ≠ A.zero := hash_ne_zero hI hwf hn
  simp only [hroot, decide_false, Bool.and_false, Bool.false_eq_true, if_false] at h
  cases hr : resolveAux A rc P true verifyFuel (t.hash A) first with
  | none => simp [hr] at h
  | some pr =>
    obtain ⟨path, val⟩ := pr
    rw [hr] at h
    have := resolve_sound hI rc hch hev hlh P true t n verifyFuel first hwf hnz hn hk
    rw [hr] at this
    cases val with
    | some w => simp at h
    | none => simpa [ValOK] using this

theorem afterR_complete {rc : RCfg} {P : PSet H} {allow : Bool} {t' : Tree H} {n fuel : Nat}
    {node : PNode H} {key key' : Path} (hwf : WF t' n) (hk : key'.length = n)
    (ih : 0 < n → ∃ path, resolveAux A rc P allow fuel (t'.hash A) key' = some (path, some (t'.get A key'))) :
    ∃ path, afterR A rc P allow fuel node key (t'.child A) key' = some (path, some (t'.get A key')) := by
  unfold afterR
  cases t' with
  | leaf v =>
    have : n = 0 := hwf.leaf_inv
    subst this
    exact ⟨[(node, key)], by simp [Tree.child, Child.tag, hk, Tree.get]⟩
  | bin l r =>
    obtain ⟨n', rfl, _, _⟩ := hwf.bin_inv
    have hne : ¬ key'.length = 0 := by omega
    obtain ⟨path, hp⟩ := ih (by omega)
    exact ⟨(node, key) :: path, by simp only [Tree.child, Child.tag, hne, decide_false, Bool.and_false, Bool.false_eq_true, if_false, hp]⟩
  | edge p c =>
    obtain ⟨n', rfl, hp0, _⟩ := hwf.edge_inv
    have hplen : 0 < p.length := List.length_pos_iff.mpr hp0
    have hne : ¬ key'.length = 0 := by omega
    obtain ⟨path, hp⟩ := ih (by omega)
    exact ⟨(node, key) :: path, by simp only [Tree.child, Child.tag, hne, decide_false, Bool.and_false, Bool.false_eq_true, if_false, hp]⟩

theorem resolve_complete (rc : RCfg) (P : PSet H) (allow legacy cached : Bool) :
    ∀ (s : Tree H) (m fuel : Nat) (key : Path), WF s m → 0 < m → key.length = m → m ≤ fuel →
      s.has key = true →
      (∀ nd ∈ s.proveNodes A legacy cached key, P.get (nd.hash A) = some nd) →
      ∃ path, resolveAux A rc P allow fuel (s.hash A) key = some (path, some (s.get A key)) := by
  intro s
  induction s with
  | leaf x => intro m fuel key hwf hm; have := hwf.leaf_inv; omega
  | bin l r ihl ihr =>
    intro m fuel key hwf hm hk hfuel hhas hlook
    obtain ⟨n, rfl, hl, hr⟩ := hwf.bin_inv
    obtain ⟨f, rfl⟩ : ∃ f, fuel = f + 1 := ⟨fuel - 1, by omega⟩
    rw [proveNodes_bin] at hlook
    have h0 := hlook _ (List.mem_cons_self ..)
    have hh0 : (PNode.bin (l.child A) (r.child A)
        (if cached then some ((Tree.bin l r).hash A) else none)).hash A = (Tree.bin l r).hash A := by
      simp [PNode.hash, Tree.hash, Tree.child_felt]
    rw [hh0] at h0
    rw [resolveAux_succ h0 (by simp [hh0])]
    have hkl : (key.drop 1).length = n := by simp; omega
    simp only [step2, Tree.get, Tree.has] at hhas ⊢
    rw [← List.drop_one] at hhas ⊢
    cases hb : key.headD false with
    | true =>
      rw [hb] at hlook hhas
      simp only [if_true] at hlook hhas ⊢
      exact afterR_complete hr hkl (fun hn => ihr n f _ hr hn hkl (by omega) hhas
        (fun nd hnd => hlook nd (List.mem_cons_of_mem _ (by simpa [List.drop_one] using hnd))))
    | false =>
      rw [hb] at hlook hhas
      simp only [Bool.false_eq_true, if_false] at hlook hhas ⊢
      exact afterR_complete hl hkl (fun hn => ihl n f _ hl hn hkl (by omega) hhas
        (fun nd hnd => hlook nd (List.mem_cons_of_mem _ (by simpa [List.drop_one] using hnd))))
  | edge p c ih =>
    intro m fuel key hwf hm hk hfuel hhas hlook
    obtain ⟨n, rfl, hp, hc⟩ := hwf.edge_inv
    have hplen : 0 < p.length := List.length_pos_iff.mpr hp
    obtain ⟨f, rfl⟩ : ∃ f, fuel = f + 1 := ⟨fuel - 1, by omega⟩
    rw [proveNodes_edge] at hlook
    have h0 := hlook _ (List.mem_cons_self ..)
    have hh0 : (PNode.edge p (c.child A)
        (if cached then some ((Tree.edge p c).hash A) else none)).hash A = (Tree.edge p c).hash A := by
      simp [PNode.hash, Tree.hash, Tree.child_felt]
    rw [hh0] at h0
    rw [resolveAux_succ h0 (by simp [hh0])]
    have hcomp : pathCompat p key = p.isPrefixOf key := by
      rw [pathCompat_comm]; exact pathCompat_of_le (by omega)
    simp only [Tree.has, Bool.and_eq_true] at hhas
    obtain ⟨hpre, hhas'⟩ := hhas
    rw [hpre] at hlook
    simp only [step2, hcomp, hpre, Tree.get, Bool.not_true, Bool.false_eq_true, if_false, if_true] at hlook ⊢
    have hkl : (key.drop p.length).length = n := by simp; omega
    exact afterR_complete hc hkl (fun hn => ih n f _ hc hn hkl (by omega) hhas'
      (fun nd hnd => hlook nd (List.mem_cons_of_mem _ hnd)))

theorem single_complete (rc : RCfg) (s : Tree H) (n : Nat) (hwf : WF s n) (hn : 0 < n)
    (h256 : n < 256) (k : Path) (hk : k.length = n) (hhas : s.has k = true)
    (hv : s.get A k ≠ A.zero) (legacy cached : Bool) (P : PSet H)
    (hlook : ∀ nd ∈ s.proveNodes A legacy cached k, P.get (nd.hash A) = some nd) :
    ∃ more, verifySingle A rc (s.hash A) k (s.get A k) P = RRes.ok more := by
  obtain ⟨path, hp⟩ := resolve_complete (A := A) rc P false legacy cached s n verifyFuel k hwf hn hk
    (verifyFuel_ge h256) hhas hlook
  exact ⟨hasRight path, by simp [verifySingle, hv, hp]⟩

/-! ### the `more` flag: `hasRightElement` on an authenticated path -/

theorem pathLt_irrefl (a : Path) : pathLt a a = false := by
  induction a with
  | nil => rfl
  | cons x xs ih => simp [pathLt, ih]

theorem pathLt_append_left (p a b : Path) : pathLt (p ++ a) (p ++ b) = pathLt a b := by
  induction p with
  | nil => rfl
  | cons x xs ih => simp [pathLt, ih]

/-- equal-length prefixes that differ decide the comparison -/
theorem pathLt_append_of_ne : ∀ (a b x y : Path), a.length = b.length → a ≠ b →
    pathLt (a ++ x) (b ++ y) = pathLt a b := by
  intro a
  induction a with
  | nil => intro b x y hl hne; cases b with
    | nil => exact absurd rfl hne
    | cons _ _ => simp at hl
  | cons u us ih =>
    intro b x y hl hne
    cases b with
    | nil => simp at hl
    | cons v vs =>
      simp only [List.cons_append, pathLt]
      by_cases huv : u = v
      · subst huv
        simp only [if_true]
        exact ih vs x y (by simpa using hl) (fun h => hne (by rw [h]))
      · simp [huv]

theorem pathVal_lt_iff : ∀ (a b : Path), a.length = b.length →
    (pathVal a < pathVal b ↔ pathLt a b = true) := by
  intro a
  induction a with
  | nil => intro b hl; cases b with
    | nil => simp [pathVal, pathLt]
    | cons _ _ => simp at hl
  | cons u us ih =>
    intro b hl
    cases b with
    | nil => simp at hl
    | cons v vs =>
      have hl' : us.length = vs.length := by simpa using hl
      have h1 := pathVal_lt us
      have h2 := pathVal_lt vs
      rw [hl'] at h1
      simp only [pathVal, pathLt, hl']
      cases u <;> cases v <;> simp
      · exact ih vs hl'
      · omega
      · omega
      · exact ih vs hl'

theorem cmpGt_eq_pathLt {a b : Path} (h : a.length = b.length) : cmpGt a b = pathLt b a := by
  unfold cmpGt
  simp only [h, ne_eq, not_true_eq_false, if_false]
  have := pathVal_lt_iff b a h.symm
  cases hp : pathLt b a with
  | true => simp [this.mpr hp]
  | false =>
    have : ¬ pathVal b < pathVal a := fun hlt => by rw [this.mp hlt] at hp; cases hp
    simp [this]


theorem exists_has {t : Tree H} {n : Nat} (hwf : WF t n) : ∃ k, k.length = n ∧ t.has k = true := by
  induction t generalizing n with
  | leaf v => have := hwf.leaf_inv; subst this; exact ⟨[], rfl, rfl⟩
  | bin l r ihl _ =>
    obtain ⟨m, rfl, hl, _⟩ := hwf.bin_inv
    obtain ⟨k, hk, hh⟩ := ihl hl
    exact ⟨false :: k, by simp [hk], by simp [Tree.has, hh]⟩
  | edge p c ih =>
    obtain ⟨m, rfl, _, hc⟩ := hwf.edge_inv
    obtain ⟨k, hk, hh⟩ := ih hc
    exact ⟨p ++ k, by simp [hk], by simp [Tree.has, hh]⟩

/-- some key of the tree (of height n) is greater than `key` -/
def GtIn (t : Tree H) (n : Nat) (key : Path) : Prop :=
  ∃ k', k'.length = n ∧ t.has k' = true ∧ pathLt key k' = true

theorem gtIn_leaf (v : H) (key : Path) : ¬ GtIn (Tree.leaf v) 0 key := by
  rintro ⟨k', hk, _, hlt⟩
  have : k' = [] := List.eq_nil_of_length_eq_zero hk
  subst this
  cases key <;> simp [pathLt] at hlt

theorem gtIn_bin {l r : Tree H} {n : Nat} (hr : WF r n) (b : Bool) (key : Path) :
    GtIn (Tree.bin l r) (n + 1) (b :: key) ↔
      (if b then GtIn r n key else True) := by
  cases b with
  | false =>
    simp only [Bool.false_eq_true, if_false, iff_true]
    obtain ⟨k, hk, hh⟩ := exists_has hr
    exact ⟨true :: k, by simp [hk], by simp [Tree.has, hh], by simp [pathLt]⟩
  | true =>
    simp only [if_true]
    constructor
    · rintro ⟨k', hk, hh, hlt⟩
      cases k' with
      | nil => simp at hk
      | cons b' k'' =>
        cases b' with
        | false => simp [pathLt] at hlt
        | true =>
          exact ⟨k'', by simpa using hk, by simpa [Tree.has] using hh, by simpa [pathLt] using hlt⟩
    · rintro ⟨k'', hk, hh, hlt⟩
      exact ⟨true :: k'', by simp [hk], by simp [Tree.has, hh], by simp [pathLt, hlt]⟩

theorem gtIn_bin_left {l r : Tree H} {n : Nat} (hr : WF r n) (key : Path) :
    GtIn (Tree.bin l r) (n + 1) (false :: key) := (gtIn_bin (l := l) hr false key).mpr trivial

theorem has_edge_prefix {p : Path} {c : Tree H} {k : Path} (h : (Tree.edge p c).has k = true) :
    ∃ k'', k = p ++ k'' ∧ c.has k'' = true := by
  simp only [Tree.has, Bool.and_eq_true] at h
  obtain ⟨hp, hc⟩ := h
  obtain ⟨t, rfl⟩ := isPrefixOf_true_iff.mp hp
  exact ⟨t, rfl, by simpa using hc⟩

theorem gtIn_edge_match {p : Path} {c : Tree H} {n : Nat} (key' : Path) :
    GtIn (Tree.edge p c) (p.length + n) (p ++ key') ↔ GtIn c n key' := by
  constructor
  · rintro ⟨k', hk, hh, hlt⟩
    obtain ⟨k'', rfl, hc⟩ := has_edge_prefix hh
    exact ⟨k'', by simpa using hk, hc, by simpa [pathLt_append_left] using hlt⟩
  · rintro ⟨k'', hk, hh, hlt⟩
    exact ⟨p ++ k'', by simp [hk], by simp [Tree.has, hh], by simp [pathLt_append_left, hlt]⟩

theorem gtIn_edge_mismatch {p : Path} {c : Tree H} {n : Nat} (hc : WF c n) (key : Path)
    (hk : key.length = p.length + n) (hne : p.isPrefixOf key = false) :
    GtIn (Tree.edge p c) (p.length + n) key ↔ pathLt (key.take p.length) p = true := by
  have hsplit : key = key.take p.length ++ key.drop p.length := (List.take_append_drop _ _).symm
  have hlen : (key.take p.length).length = p.length := by simp; omega
  have hneq : key.take p.length ≠ p := by
    intro h
    have : p.isPrefixOf key = true := isPrefixOf_true_iff.mpr ⟨key.drop p.length, by
      conv => lhs; lhs; rw [← h]
      exact hsplit.symm⟩
    rw [hne] at this; cases this
  constructor
  · rintro ⟨k', _, hh, hlt⟩
    obtain ⟨k'', rfl, _⟩ := has_edge_prefix hh
    rw [hsplit, pathLt_append_of_ne _ _ _ _ hlen hneq] at hlt
    exact hlt
  · intro hlt
    obtain ⟨k'', hk'', hh⟩ := exists_has hc
    refine ⟨p ++ k'', by simp [hk''], by simp [Tree.has, hh], ?_⟩
    rw [hsplit, pathLt_append_of_ne _ _ _ _ hlen hneq]
    exact hlt


/-- the `more` flag computed on the resolved path says whether the trie has a greater key -/
def MoreOK (s : Tree H) (n : Nat) (key : Path) (r : Option (List (PNode H × Path) × Option H)) : Prop :=
  match r with
  | none => True
  | some (path, _) => (hasRight path = true ↔ GtIn s n key)

theorem afterR_more (hI : Ideal A) {rc : RCfg} (hev : rc.earlyValue = false)
    (hlh : rc.leafHash = true) {P : PSet H} {allow : Bool}
    {t' : Tree H} {n fuel : Nat} {node : PNode H} {key : Path} {ch : Child H} {key' : Path}
    (hwf : WF t' n) (hnz : t'.NZ A) (hk : key'.length = n) (hf : ch.felt A = t'.hash A)
    (ih : 0 < n → MoreOK t' n key' (resolveAux A rc P allow fuel (t'.hash A) key')) :
    match afterR A rc P allow fuel node key ch key' with
    | none => True
    | some (path, _) => ∃ rest, path = (node, key) :: rest ∧ (hasRight rest = true ↔ GtIn t' n key') := by
  have hleaf : n = 0 → (hasRight ([] : List (PNode H × Path)) = true ↔ GtIn t' n key') := by
    intro hn; subst hn
    obtain ⟨v, rfl⟩ := hwf.zero_inv
    simp [hasRight, gtIn_leaf]
  unfold afterR
  cases htag : ch.tag with
  | nil =>
    have hz : t'.hash A = A.zero := by rw [← hf]; simp [Child.felt, htag]
    exact absurd hz (hash_ne_zero_nz hI hwf hnz)
  | value =>
    simp only [hev, Bool.false_or]
    by_cases hn : n = 0
    · have hk0 : key'.length = 0 := by omega
      simp only [hk0, decide_true, if_true]
      exact ⟨[], rfl, hleaf hn⟩
    · have : ¬ key'.length = 0 := by omega
      simp [this]
  | hash =>
    have hfe : ch.h = t'.hash A := by rw [← hf]; simp [Child.felt, htag]
    simp only [hfe]
    by_cases hn : n = 0
    · have hk0 : key'.length = 0 := by omega
      simp only [hk0, hlh, decide_true, Bool.and_self, if_true]
      exact ⟨[], rfl, hleaf hn⟩
    · have hk0 : ¬ key'.length = 0 := by omega
      simp only [hk0, decide_false, Bool.and_false, Bool.false_eq_true, if_false]
      have := ih (by omega)
      cases hr : resolveAux A rc P allow fuel (t'.hash A) key' with
      | none => trivial
      | some pr =>
        obtain ⟨rest, v⟩ := pr
        rw [hr] at this
        exact ⟨rest, rfl, this⟩


theorem resolve_more (hI : Ideal A) (rc : RCfg) (hch : rc.checkHash = true)
    (hev : rc.earlyValue = false) (hlh : rc.leafHash = true) (P : PSet H) (allow : Bool) :
    ∀ (s : Tree H) (m fuel : Nat) (key : Path), WF s m → s.NZ A → 0 < m → key.length = m →
      MoreOK s m key (resolveAux A rc P allow fuel (s.hash A) key) := by
  intro s
  induction s with
  | leaf x => intro m fuel key hwf _ hm; have := hwf.leaf_inv; omega
  | bin l r ihl ihr =>
    intro m fuel key hwf hnz hm hk
    obtain ⟨n, rfl, hl, hr⟩ := hwf.bin_inv
    obtain ⟨hnzl, hnzr⟩ := hnz
    cases fuel with
    | zero => simp [resolveAux, MoreOK]
    | succ f =>
      cases hget : P.get ((Tree.bin l r).hash A) with
      | none => simp [resolveAux, hget, MoreOK]
      | some nd =>
        by_cases hh : nd.hash A = (Tree.bin l r).hash A
        · obtain ⟨l', r', c', rfl, hl', hr'⟩ := pnode_of_hash_bin hI (a := l.hash A) (b := r.hash A) (hash_ne_zero_nz hI hr hnzr) hh
          rw [resolveAux_succ hget (by simp [hh])]
          cases key with
          | nil => simp at hk
          | cons b key' =>
            have hkl : key'.length = n := by simpa using hk
            have hrtag : r'.tag ≠ Tag.nil := by
              intro ht
              have : r.hash A = A.zero := by rw [← hr']; simp [Child.felt, ht]
              exact hash_ne_zero_nz hI hr hnzr this
            simp only [step2, List.headD_cons, List.drop_one, List.tail_cons]
            cases b with
            | true =>
              have h1 := afterR_more hI hev hlh (P := P) (allow := allow) (fuel := f)
                (node := PNode.bin l' r' c') (key := true :: key') hr hnzr hkl hr'
                (fun hn => ihr n f key' hr hnzr hn hkl)
              simp only [if_true]
              cases hres : afterR A rc P allow f (PNode.bin l' r' c') (true :: key') r' key' with
              | none => simp [MoreOK]
              | some pr =>
                obtain ⟨path, v⟩ := pr
                rw [hres] at h1
                obtain ⟨rest, rfl, hiff⟩ := h1
                have hgt := gtIn_bin (l := l) hr true key'
                simp only [if_true] at hgt
                simp only [MoreOK, hasRight, List.headD_cons]
                rw [hgt, ← hiff]
                simp
            | false =>
              have h1 := afterR_more hI hev hlh (P := P) (allow := allow) (fuel := f)
                (node := PNode.bin l' r' c') (key := false :: key') hl hnzl hkl hl'
                (fun hn => ihl n f key' hl hnzl hn hkl)
              simp only [Bool.false_eq_true, if_false]
              cases hres : afterR A rc P allow f (PNode.bin l' r' c') (false :: key') l' key' with
              | none => simp [MoreOK]
              | some pr =>
                obtain ⟨path, v⟩ := pr
                rw [hres] at h1
                obtain ⟨rest, rfl, _⟩ := h1
                simp only [MoreOK, hasRight, List.headD_cons, hrtag, ne_eq, not_false_eq_true,
                  decide_true, Bool.and_self, if_true, true_iff]
                exact gtIn_bin_left hr key'
        · simp [resolveAux, hget, hch, hh, MoreOK]
  | edge p c ih =>
    intro m fuel key hwf hnz hm hk
    obtain ⟨n, rfl, hp, hc⟩ := hwf.edge_inv
    cases fuel with
    | zero => simp [resolveAux, MoreOK]
    | succ f =>
      cases hget : P.get ((Tree.edge p c).hash A) with
      | none => simp [resolveAux, hget, MoreOK]
      | some nd =>
        by_cases hh : nd.hash A = (Tree.edge p c).hash A
        · obtain ⟨ch, cc, rfl, hch'⟩ := pnode_of_hash_edge hI (c := c.hash A) (p := p) hp hh
          rw [resolveAux_succ hget (by simp [hh])]
          have hcomp : pathCompat p key = p.isPrefixOf key := by
            rw [pathCompat_comm]; exact pathCompat_of_le (by omega)
          simp only [step2, hcomp]
          cases hpre : p.isPrefixOf key with
          | false =>
            simp only [Bool.not_false, if_true]
            cases allow with
            | false => simp [MoreOK]
            | true =>
              simp only [if_true, MoreOK, hasRight, hcomp, hpre, Bool.not_false]
              have hpad : (if key.length > p.length then p ++ List.replicate (key.length - p.length) false else p)
                  = p ++ List.replicate n false := by
                by_cases hn : n = 0
                · subst hn
                  have : ¬ key.length > p.length := by omega
                  simp [this]
                · have : key.length > p.length := by omega
                  simp only [this, if_true]
                  congr 2
                  omega
              rw [hpad, cmpGt_eq_pathLt (by simp; omega), gtIn_edge_mismatch hc key hk hpre]
              have hsplit : key = key.take p.length ++ key.drop p.length := (List.take_append_drop _ _).symm
              have hlen : (key.take p.length).length = p.length := by simp; omega
              have hneq : key.take p.length ≠ p := by
                intro h
                have : p.isPrefixOf key = true := isPrefixOf_true_iff.mpr ⟨key.drop p.length, by
                  conv => lhs; lhs; rw [← h]
                  exact hsplit.symm⟩
                rw [hpre] at this; cases this
              conv => lhs; rw [hsplit, pathLt_append_of_ne _ _ _ _ hlen hneq]
          | true =>
            simp only [Bool.not_true, Bool.false_eq_true, if_false]
            obtain ⟨key', rfl⟩ := isPrefixOf_true_iff.mp hpre
            have hkl : key'.length = n := by simp at hk; omega
            have hdrop : (p ++ key').drop p.length = key' := by simp
            rw [hdrop]
            have h1 := afterR_more hI hev hlh (P := P) (allow := allow) (fuel := f)
              (node := PNode.edge p ch cc) (key := p ++ key') hc hnz hkl hch'
              (fun hn => ih n f key' hc hnz hn hkl)
            cases hres : afterR A rc P allow f (PNode.edge p ch cc) (p ++ key') ch key' with
            | none => simp [MoreOK]
            | some pr =>
              obtain ⟨path, v⟩ := pr
              rw [hres] at h1
              obtain ⟨rest, rfl, hiff⟩ := h1
              simp only [MoreOK, hasRight, hcomp, hpre, Bool.not_true, Bool.false_eq_true, if_false]
              rw [hiff, gtIn_edge_match]
        · simp [resolveAux, hget, hch, hh, MoreOK]


theorem pathLt_trichotomy : ∀ (a b : Path), a.length = b.length →
    a = b ∨ pathLt a b = true ∨ pathLt b a = true := by
  intro a
  induction a with
  | nil => intro b hl; cases b with
    | nil => exact Or.inl rfl
    | cons _ _ => simp at hl
  | cons u us ih =>
    intro b hl
    cases b with
    | nil => simp at hl
    | cons v vs =>
      rcases ih vs (by simpa using hl) with h | h | h
      · subst h
        cases u <;> cases v <;> simp [pathLt, pathLt_irrefl]
      · cases u <;> cases v <;> simp [pathLt, h]
      · cases u <;> cases v <;> simp [pathLt, h]

theorem get_ne_zero_of_has {t : Tree H} {n : Nat} (hwf : WF t n) (hnz : t.NZ A) :
    ∀ k, k.length = n → t.has k = true → t.get A k ≠ A.zero := by
  induction t generalizing n with
  | leaf v => intro k _ _; exact hnz
  | bin l r ihl ihr =>
    obtain ⟨m, rfl, hl, hr⟩ := hwf.bin_inv
    intro k hk hh
    cases k with
    | nil => simp at hk
    | cons b k' =>
      cases b with
      | true => simpa [Tree.get] using ihr hr hnz.2 k' (by simpa using hk) (by simpa [Tree.has] using hh)
      | false => simpa [Tree.get] using ihl hl hnz.1 k' (by simpa using hk) (by simpa [Tree.has] using hh)
  | edge p c ih =>
    obtain ⟨m, rfl, _, hc⟩ := hwf.edge_inv
    intro k hk hh
    obtain ⟨k'', rfl, hc'⟩ := has_edge_prefix hh
    have : (p.isPrefixOf (p ++ k'')) = true := isPrefixOf_true_iff.mpr ⟨k'', rfl⟩
    simpa [Tree.get, this] using ih hc hnz k'' (by simp at hk; omega) hc'

theorem single_more (hI : Ideal A) (rc : RCfg) (hch : rc.checkHash = true)
    (hev : rc.earlyValue = false) (hlh : rc.leafHash = true) (t : Tree H) (n : Nat) (hwf : WF t n)
    (hnz : t.NZ A) (hn : 0 < n) (k : Path) (hk : k.length = n) (v : H) (P : PSet H) (more : Bool)
    (h : verifySingle A rc (t.hash A) k v P = RRes.ok more) : (more = true ↔ GtIn t n k) := by
  unfold verifySingle at h
  split at h
  · cases h
  · have hm := resolve_more hI rc hch hev hlh P false t n verifyFuel k hwf hnz hn hk
    cases hr : resolveAux A rc P false verifyFuel (t.hash A) k with
    | none => simp [hr] at h
    | some pr =>
      obtain ⟨path, val⟩ := pr
      rw [hr] at h hm
      cases val with
      | none => simp at h
      | some w =>
        simp only at h
        split at h
        · cases h
          exact hm
        · cases h

theorem empty_no_key (hI : Ideal A) (rc : RCfg) (hch : rc.checkHash = true)
    (hev : rc.earlyValue = false) (hlh : rc.leafHash = true) (t : Tree H) (n : Nat) (hwf : WF t n)
    (hnz : t.NZ A) (hn : 0 < n) (first : Path) (hk : first.length = n) (P : PSet H) (more : Bool)
    (h : verifyEmpty A rc (t.hash A) first P = RRes.ok more) :
    more = false ∧ ∀ k', k'.length = n → t.has k' = true → pathLt k' first = true := by
  have hroot : t.hash A ≠ A.zero := hash_ne_zero hI hwf hn
  have hzero := empty_sound hI rc hch hev hlh t n hwf hnz hn first hk P more h
  unfold verifyEmpty at h
  simp only [hroot, decide_false, Bool.and_false, Bool.false_eq_true, if_false] at h
  have hm := resolve_more hI rc hch hev hlh P true t n verifyFuel first hwf hnz hn hk
  cases hr : resolveAux A rc P true verifyFuel (t.hash A) first with
  | none => simp [hr, hroot] at h
  | some pr =>
    obtain ⟨path, val⟩ := pr
    rw [hr] at hm
    simp only [hr, hroot] at h
    cases hright : hasRight path with
    | true => simp [hright] at h
    | false =>
      simp only [hright, Bool.or_false] at h
      have hmore : more = false := by
        split at h
        · cases h
        · cases h; rfl
      refine ⟨hmore, ?_⟩
      intro k' hk' hhas
      have hnot : ¬ GtIn t n first := fun hg => by
        have := (show MoreOK t n first (some (path, val)) from hm).mpr hg
        rw [hright] at this; cases this
      rcases pathLt_trichotomy k' first (by omega) with heq | hlt | hgt
      · subst heq
        exact absurd hzero (get_ne_zero_of_has hwf hnz k' hk' hhas)
      · exact hlt
      · exact absurd ⟨k', hk', hhas, hgt⟩ hnot

/-! ### trie2 range proofs, general case: the rebuilt trie agrees with the claimed entries on the interval -/

set_option linter.unusedSimpArgs false

theorem lastVal_nil (k : Path) : lastVal ([] : List (Path × H)) k = none := rfl

theorem keysUnder_filter (b : Bool) (kvs : List (Path × H)) (k' : Path) :
    (keysUnder b kvs).filter (fun kv => kv.1 = k') =
      (kvs.filter (fun kv => kv.1 = b :: k')).map (fun kv => (kv.1.tail, kv.2)) := by
  induction kvs with
  | nil => rfl
  | cons kv rest ih =>
    obtain ⟨key, v⟩ := kv
    cases key with
    | nil => simpa [keysUnder] using ih
    | cons x t =>
      by_cases hx : x = b
      · subst hx
        by_cases ht : t = k'
        · subst ht
          simp only [keysUnder, List.filterMap_cons, if_true] at ih ⊢
          simp [ih]
        · simp only [keysUnder, List.filterMap_cons, if_true] at ih ⊢
          simp [ht, ih]
      · simp only [keysUnder, List.filterMap_cons, hx, if_false] at ih ⊢
        have : ¬ (x :: t = b :: k') := fun h => hx (List.cons.inj h).1
        simp [this, ih]

theorem lastVal_keysUnder (b : Bool) (kvs : List (Path × H)) (k' : Path) :
    lastVal (keysUnder b kvs) k' = lastVal kvs (b :: k') := by
  unfold lastVal
  rw [keysUnder_filter, List.getLast?_map]
  cases (kvs.filter (fun kv => kv.1 = b :: k')).getLast? <;> rfl

theorem keysUnder_length {b : Bool} {kvs : List (Path × H)} {h : Nat}
    (hl : ∀ kv ∈ kvs, kv.1.length = h + 1) : ∀ kv ∈ keysUnder b kvs, kv.1.length = h := by
  intro kv hkv
  simp only [keysUnder, List.mem_filterMap] at hkv
  obtain ⟨⟨key, v⟩, hmem, hsome⟩ := hkv
  cases key with
  | nil => simp at hsome
  | cons x t =>
    simp only at hsome
    split at hsome
    · cases hsome
      have := hl _ hmem
      simpa using this
    · cases hsome


theorem get_mkEdge (p : Path) (c : Tree H) (k : Path) :
    (mkEdge p c).get A k = if p.isPrefixOf k then c.get A (k.drop p.length) else A.zero := by
  cases p with
  | nil => simp [mkEdge]
  | cons x xs =>
    cases c with
    | leaf v => simp [mkEdge, Tree.get]
    | bin l r => simp [mkEdge, Tree.get]
    | edge q d =>
      simp only [mkEdge, Tree.get]
      by_cases h1 : (x :: xs).isPrefixOf k = true
      · obtain ⟨t, rfl⟩ := isPrefixOf_true_iff.mp h1
        simp only [h1, if_true]
        have hd : ((x :: xs) ++ t).drop (x :: xs).length = t := by simp
        rw [hd]
        by_cases h2 : q.isPrefixOf t = true
        · obtain ⟨u, rfl⟩ := isPrefixOf_true_iff.mp h2
          have h3 : ((x :: xs) ++ q).isPrefixOf ((x :: xs) ++ (q ++ u)) = true :=
            isPrefixOf_true_iff.mpr ⟨u, by simp⟩
          simp only [h2, h3, if_true]
          congr 1
          simp
        · have h3 : ((x :: xs) ++ q).isPrefixOf ((x :: xs) ++ t) = false := by
            cases h4 : ((x :: xs) ++ q).isPrefixOf ((x :: xs) ++ t) with
            | false => rfl
            | true =>
              obtain ⟨u, hu⟩ := isPrefixOf_true_iff.mp h4
              exact absurd (isPrefixOf_true_iff.mpr ⟨u, by
                have := hu; simp only [List.append_assoc] at this
                exact List.append_cancel_left this⟩) h2
          have h2' : q.isPrefixOf t = false := by cases hq : q.isPrefixOf t <;> simp_all
          simp only [List.cons_append] at h3 ⊢
          simp only [h2', h3, Bool.false_eq_true, if_false]
      · have h1' : (x :: xs).isPrefixOf k = false := by cases hq : (x :: xs).isPrefixOf k <;> simp_all
        have h3 : ((x :: xs) ++ q).isPrefixOf k = false := by
          cases h4 : ((x :: xs) ++ q).isPrefixOf k with
          | false => rfl
          | true =>
            obtain ⟨u, hu⟩ := isPrefixOf_true_iff.mp h4
            exact absurd (isPrefixOf_true_iff.mpr ⟨q ++ u, by simpa [List.append_assoc] using hu⟩) h1
        simp only [List.cons_append] at h3 ⊢
        simp only [h1', h3, Bool.false_eq_true, if_false]

theorem WF_mkEdge {p : Path} {c : Tree H} {n : Nat} (hc : WF c n) : WF (mkEdge p c) (p.length + n) := by
  cases p with
  | nil => simpa [mkEdge] using hc
  | cons x xs =>
    cases c with
    | leaf v => exact WF.edge (by simp) hc
    | bin l r => exact WF.edge (by simp) hc
    | edge q d =>
      obtain ⟨m, rfl, _, hd⟩ := hc.edge_inv
      have : WF (Tree.edge ((x :: xs) ++ q) d) (((x :: xs) ++ q).length + m) := WF.edge (by simp) hd
      have e : ((x :: xs) ++ q).length + m = (x :: xs).length + (q.length + m) := by simp; omega
      rw [e] at this
      simpa [mkEdge] using this

theorem build_wf : ∀ (h : Nat) (kvs : List (Path × H)) (t : Tree H), build h kvs = some t → WF t h := by
  intro h
  induction h with
  | zero =>
    intro kvs t ht
    simp only [build] at ht
    split at ht
    · cases ht; exact WF.leaf _
    · cases ht
  | succ h ih =>
    intro kvs t ht
    cases kvs with
    | nil => simp [build] at ht
    | cons kv rest =>
      simp only [build] at ht
      split at ht
      · cases ht
      · rename_i a ha _
        cases ht
        have := WF_mkEdge (p := [false]) (ih _ _ ha)
        simpa [Nat.add_comm] using this
      · rename_i b _ hb
        cases ht
        have := WF_mkEdge (p := [true]) (ih _ _ hb)
        simpa [Nat.add_comm] using this
      · rename_i a b ha hb
        cases ht
        exact WF.bin (ih _ _ ha) (ih _ _ hb)

theorem get_build : ∀ (h : Nat) (kvs : List (Path × H)) (k : Path),
    (∀ kv ∈ kvs, kv.1.length = h) → k.length = h →
    Trie.get A (build h kvs) k = (lastVal kvs k).getD A.zero := by
  intro h
  induction h with
  | zero =>
    intro kvs k hl hk
    have hk0 : k = [] := List.eq_nil_of_length_eq_zero hk
    subst hk0
    have hfil : kvs.filter (fun kv => kv.1 = []) = kvs := by
      apply List.filter_eq_self.mpr
      intro kv hkv
      simpa using List.eq_nil_of_length_eq_zero (hl kv hkv)
    simp only [build, lastVal, hfil]
    cases kvs.getLast? with
    | none => rfl
    | some kv => obtain ⟨_, v⟩ := kv; rfl
  | succ h ih =>
    intro kvs k hl hk
    cases k with
    | nil => simp at hk
    | cons b k' =>
      have hk' : k'.length = h := by simpa using hk
      cases kvs with
      | nil => simp [build, Trie.get, lastVal]
      | cons kv rest =>
        have ihf := ih (keysUnder false (kv :: rest)) k' (keysUnder_length hl) hk'
        have iht := ih (keysUnder true (kv :: rest)) k' (keysUnder_length hl) hk'
        rw [lastVal_keysUnder] at ihf iht
        simp only [build]
        cases hbl : build h (keysUnder false (kv :: rest)) with
        | none =>
          cases hbr : build h (keysUnder true (kv :: rest)) with
          | none =>
            rw [hbl] at ihf; rw [hbr] at iht
            cases b
            · simpa [Trie.get] using ihf
            · simpa [Trie.get] using iht
          | some r =>
            rw [hbl] at ihf; rw [hbr] at iht
            simp only [Trie.get, get_mkEdge]
            cases b
            · simpa [List.isPrefixOf, Trie.get] using ihf
            · simpa [List.isPrefixOf, Trie.get] using iht
        | some l =>
          cases hbr : build h (keysUnder true (kv :: rest)) with
          | none =>
            rw [hbl] at ihf; rw [hbr] at iht
            simp only [Trie.get, get_mkEdge]
            cases b
            · simpa [List.isPrefixOf, Trie.get] using ihf
            · simpa [List.isPrefixOf, Trie.get] using iht
          | some r =>
            rw [hbl] at ihf; rw [hbr] at iht
            simp only [Trie.get, Tree.get]
            cases b
            · simpa [Trie.get] using ihf
            · simpa [Trie.get] using iht


theorem embed_lookup : ∀ (t : Tree H) (n : Nat) (k : Path), WF t n → k.length = n →
    (embed (some t)).lookup A k = some (t.get A k) := by
  intro t
  induction t with
  | leaf v =>
    intro n k hwf hk
    have := hwf.leaf_inv; subst this
    simp [embed, embedT, PT.lookup, hk, Tree.get]
  | bin l r ihl ihr =>
    intro n k hwf hk
    obtain ⟨m, rfl, hl, hr⟩ := hwf.bin_inv
    cases k with
    | nil => simp at hk
    | cons b k' =>
      have hk' : k'.length = m := by simpa using hk
      cases b
      · simpa [embed, embedT, PT.lookup, Tree.get] using ihl m k' hl hk'
      · simpa [embed, embedT, PT.lookup, Tree.get] using ihr m k' hr hk'
  | edge p c ih =>
    intro n k hwf hk
    obtain ⟨m, rfl, hp, hc⟩ := hwf.edge_inv
    have hplen : 0 < p.length := List.length_pos_iff.mpr hp
    have hp0 : ¬ p.length = 0 := by omega
    simp only [embed, embedT, PT.lookup, hp0, if_false, Tree.get]
    cases hpre : p.isPrefixOf k with
    | true =>
      simp only [if_true]
      have := ih m (k.drop p.length) hc (by simp; omega)
      simpa [embed] using this
    | false =>
      have : p.length ≤ k.length := by omega
      simp [this]

theorem embed_build_lookup (h : Nat) (kvs : List (Path × H)) (k : Path)
    (hl : ∀ kv ∈ kvs, kv.1.length = h) (hk : k.length = h) :
    (embed (build h kvs)).lookup A k = some ((lastVal kvs k).getD A.zero) := by
  have hg := get_build (A := A) h kvs k hl hk
  cases hb : build h kvs with
  | none => rw [hb] at hg; simpa [embed, PT.lookup, Trie.get] using hg
  | some t =>
    rw [hb] at hg
    rw [embed_lookup t h k (build_wf h kvs t hb) hk]
    simpa [Trie.get] using hg

/-- Lemma A: a partial trie that hashes like `t` agrees with `t` wherever it is resolved -/
theorem lookup_agree (hI : Ideal A) : ∀ (T : PT H) (t : Tree H) (n : Nat) (k : Path) (r : H),
    WF t n → k.length = n → T.phash A = t.hash A → T.lookup A k = some r → t.get A k = r := by
  intro T
  induction T with
  | nil =>
    intro t n k r hwf hk hh hl
    simp only [PT.lookup, Option.some.injEq] at hl
    subst hl
    simp only [PT.phash] at hh
    by_cases hn : 0 < n
    · exact absurd hh.symm (hash_ne_zero hI hwf hn)
    · have : n = 0 := by omega
      subst this
      rw [get_of_WF_zero hwf, ← hh]
  | hash h => intro t n k r _ _ _ hl; simp [PT.lookup] at hl
  | leaf v =>
    intro t n k r hwf hk hh hl
    simp only [PT.lookup] at hl
    split at hl
    · rename_i hk0
      cases hl
      have : n = 0 := by omega
      subst this
      rw [get_of_WF_zero hwf, ← hh]; rfl
    · cases hl
  | bin l r ihl ihr =>
    intro t n k res hwf hk hh hl
    cases k with
    | nil => simp [PT.lookup] at hl
    | cons b k' =>
      simp only [PT.phash] at hh
      cases t with
      | leaf v => have := hwf.leaf_inv; subst this; simp at hk
      | edge p c => exact absurd hh (hI.bin_ne_edge _ _ _ _ (Or.inl hwf.edge_inv.choose_spec.2.1))
      | bin tl tr =>
        obtain ⟨m, rfl, hwl, hwr⟩ := hwf.bin_inv
        obtain ⟨h1, h2⟩ := hI.bin_inj _ _ _ _ hh
        have hk' : k'.length = m := by simpa using hk
        cases b
        · simp only [PT.lookup, Bool.false_eq_true, if_false] at hl
          simpa [Tree.get] using ihl tl m k' res hwl hk' h1 hl
        · simp only [PT.lookup, if_true] at hl
          simpa [Tree.get] using ihr tr m k' res hwr hk' h2 hl
  | edge p c ih =>
    intro t n k res hwf hk hh hl
    simp only [PT.lookup] at hl
    split at hl
    · cases hl
    · rename_i hp0
      simp only [PT.phash] at hh
      cases t with
      | leaf v =>
        have := hwf.leaf_inv; subst this
        have hk0 : k = [] := List.eq_nil_of_length_eq_zero hk
        subst hk0
        have : p.isPrefixOf [] = false := by
          cases p with
          | nil => simp at hp0
          | cons _ _ => rfl
        have hlen : ¬ p.length ≤ ([] : Path).length := by simp only [List.length_nil]; omega
        simp only [this, Bool.false_eq_true, if_false, hlen] at hl
        cases hl
      | bin tl tr => exact absurd hh.symm (hI.bin_ne_edge _ _ _ _ (Or.inl (fun hp => hp0 (by simp [hp]))))
      | edge p' c' =>
        obtain ⟨m, rfl, _, hwc⟩ := hwf.edge_inv
        obtain ⟨h1, h2⟩ := hI.edge_inj _ _ _ _ hh
        subst h2
        simp only [Tree.get]
        cases hpre : p.isPrefixOf k with
        | true =>
          rw [hpre] at hl
          simp only [if_true] at hl ⊢
          exact ih c' m _ res hwc (by simp; omega) h1 hl
        | false =>
          rw [hpre] at hl
          simp only [Bool.false_eq_true, if_false] at hl ⊢
          split at hl
          · cases hl; rfl
          · cases hl


/-! bounds -/

def inL : Bd → Path → Prop
  | .unb, _ => True
  | .out, _ => False
  | .at f, k => f = k ∨ pathLt f k = true

def inU : Bd → Path → Prop
  | .unb, _ => True
  | .out, _ => False
  | .at l, k => k = l ∨ pathLt k l = true

def BdLen : Bd → Nat → Prop
  | .at f, h => f.length = h
  | _, _ => True

theorem inL_bin {L : Bd} {h : Nat} {b : Bool} {k' : Path} (hlen : BdLen L (h + 1)) (hin : inL L (b :: k')) :
    inL (if b then (lowerBin L).2 else (lowerBin L).1) k' ∧
    BdLen (if b then (lowerBin L).2 else (lowerBin L).1) h := by
  cases L with
  | unb => cases b <;> simp [lowerBin, inL, BdLen]
  | out => exact absurd hin (by simp [inL])
  | «at» f =>
    cases f with
    | nil => simp [BdLen] at hlen
    | cons fb fk =>
      have hfl : fk.length = h := by simpa [BdLen] using hlen
      simp only [inL, pathLt] at hin
      cases fb <;> cases b <;> simp [lowerBin, inL, BdLen, hfl] at hin ⊢
      · exact hin
      · exact hin

theorem inU_bin {U : Bd} {h : Nat} {b : Bool} {k' : Path} (hlen : BdLen U (h + 1)) (hin : inU U (b :: k')) :
    inU (if b then (upperBin U).2 else (upperBin U).1) k' ∧
    BdLen (if b then (upperBin U).2 else (upperBin U).1) h := by
  cases U with
  | unb => cases b <;> simp [upperBin, inU, BdLen]
  | out => exact absurd hin (by simp [inU])
  | «at» f =>
    cases f with
    | nil => simp [BdLen] at hlen
    | cons fb fk =>
      have hfl : fk.length = h := by simpa [BdLen] using hlen
      simp only [inU, pathLt] at hin
      cases fb <;> cases b <;> simp [upperBin, inU, BdLen, hfl] at hin ⊢
      · exact hin
      · exact hin

theorem take_ne_of_not_prefix {p f : Path} (hlen : p.length ≤ f.length) (hpre : p.isPrefixOf f = false) :
    f.take p.length ≠ p := by
  intro h
  have : p.isPrefixOf f = true := isPrefixOf_true_iff.mpr ⟨f.drop p.length, by
    conv => lhs; lhs; rw [← h]
    exact List.take_append_drop _ _⟩
  rw [hpre] at this; cases this

theorem inL_edge {L : Bd} {h : Nat} {p k' : Path} (hph : p.length ≤ h) (hlen : BdLen L h)
    (hin : inL L (p ++ k')) : inL (lowerEdge p L) k' ∧ BdLen (lowerEdge p L) (h - p.length) := by
  cases L with
  | unb => simp [lowerEdge, inL, BdLen]
  | out => exact absurd hin (by simp [inL])
  | «at» f =>
    have hfl : f.length = h := hlen
    simp only [lowerEdge]
    cases hpre : p.isPrefixOf f with
    | true =>
      obtain ⟨f', rfl⟩ := isPrefixOf_true_iff.mp hpre
      simp only [if_true, inL, BdLen, List.drop_left'] at hin ⊢
      constructor
      · rcases hin with h1 | h1
        · exact Or.inl (List.append_cancel_left h1)
        · exact Or.inr (by simpa [pathLt_append_left] using h1)
      · simp at hfl ⊢; omega
    | false =>
      simp only [Bool.false_eq_true, if_false]
      have hne := take_ne_of_not_prefix (by omega) hpre
      have htl : (f.take p.length).length = p.length := by simp; omega
      have hsplit : f = f.take p.length ++ f.drop p.length := (List.take_append_drop _ _).symm
      cases hlt : pathLt (f.take p.length) p with
      | true => simp [inL, BdLen]
      | false =>
        exfalso
        simp only [inL] at hin
        rcases hin with h1 | h1
        · have : p.isPrefixOf f = true := isPrefixOf_true_iff.mpr ⟨k', h1.symm⟩
          rw [hpre] at this; cases this
        · rw [hsplit, pathLt_append_of_ne _ _ _ _ htl hne, hlt] at h1
          cases h1

theorem inU_edge {U : Bd} {h : Nat} {p k' : Path} (hph : p.length ≤ h) (hlen : BdLen U h)
    (hin : inU U (p ++ k')) : inU (upperEdge p U) k' ∧ BdLen (upperEdge p U) (h - p.length) := by
  cases U with
  | unb => simp [upperEdge, inU, BdLen]
  | out => exact absurd hin (by simp [inU])
  | «at» f =>
    have hfl : f.length = h := hlen
    simp only [upperEdge]
    cases hpre : p.isPrefixOf f with
    | true =>
      obtain ⟨f', rfl⟩ := isPrefixOf_true_iff.mp hpre
      simp only [if_true, inU, BdLen, List.drop_left'] at hin ⊢
      constructor
      · rcases hin with h1 | h1
        · exact Or.inl (List.append_cancel_left h1)
        · exact Or.inr (by simpa [pathLt_append_left] using h1)
      · simp at hfl ⊢; omega
    | false =>
      simp only [Bool.false_eq_true, if_false]
      have hne := take_ne_of_not_prefix (by omega) hpre
      have htl : (f.take p.length).length = p.length := by simp; omega
      have hsplit : f = f.take p.length ++ f.drop p.length := (List.take_append_drop _ _).symm
      cases hlt : pathLt p (f.take p.length) with
      | true => simp [inU, BdLen]
      | false =>
        exfalso
        simp only [inU] at hin
        rcases hin with h1 | h1
        · have : p.isPrefixOf f = true := isPrefixOf_true_iff.mpr ⟨k', h1⟩
          rw [hpre] at this; cases this
        · rw [hsplit, pathLt_append_of_ne _ _ _ _ htl.symm (Ne.symm hne), hlt] at h1
          cases h1


theorem stripPrefix_spec {p : Path} {kvs kvs' : List (Path × H)} (h : stripPrefix p kvs = some kvs') :
    (∀ kv ∈ kvs, p.isPrefixOf kv.1 = true) ∧ kvs' = kvs.map (fun kv => (kv.1.drop p.length, kv.2)) := by
  unfold stripPrefix at h
  split at h
  · rename_i hall
    cases h
    exact ⟨by simpa using hall, rfl⟩
  · cases h

theorem lastVal_strip {p : Path} {kvs : List (Path × H)} (hall : ∀ kv ∈ kvs, p.isPrefixOf kv.1 = true)
    (k' : Path) :
    lastVal (kvs.map (fun kv => (kv.1.drop p.length, kv.2))) k' = lastVal kvs (p ++ k') := by
  unfold lastVal
  have : (kvs.map (fun kv => (kv.1.drop p.length, kv.2))).filter (fun kv => kv.1 = k') =
      (kvs.filter (fun kv => kv.1 = p ++ k')).map (fun kv => (kv.1.drop p.length, kv.2)) := by
    induction kvs with
    | nil => rfl
    | cons kv rest ih =>
      have hp := hall kv (List.mem_cons_self ..)
      obtain ⟨t, ht⟩ := isPrefixOf_true_iff.mp hp
      have ih' := ih (fun kv hkv => hall kv (List.mem_cons_of_mem _ hkv))
      have hd : kv.1.drop p.length = t := by rw [← ht]; simp
      by_cases hk : t = k'
      · have : kv.1 = p ++ k' := by rw [← ht, hk]
        simp [List.filter_cons, hd, hk, this, ih']
      · have : ¬ kv.1 = p ++ k' := by
          intro h; rw [← ht] at h; exact hk (List.append_cancel_left h)
        simp [List.filter_cons, hd, hk, this, ih']
  rw [this, List.getLast?_map]
  cases (kvs.filter (fun kv => kv.1 = p ++ k')).getLast? <;> rfl

theorem lastVal_none_of_not_mem {kvs : List (Path × H)} {k : Path} (h : ∀ kv ∈ kvs, kv.1 ≠ k) :
    lastVal kvs k = none := by
  unfold lastVal
  have : kvs.filter (fun kv => kv.1 = k) = [] := by
    apply List.filter_eq_nil_iff.mpr
    intro kv hkv
    simpa using h kv hkv
  simp [this]

theorem edge_lookup_not_prefix {p : Path} {c : PT H} {k : Path} (hp0 : ¬ p.length = 0)
    (hlen : p.length ≤ k.length) (hpre : p.isPrefixOf k = false) :
    (PT.edge p c).lookup A k = some A.zero := by
  simp [PT.lookup, hp0, hpre, hlen]

theorem fill_lookup (rc : RCfg) (hul : rc.unsetLeaf = true) :
    ∀ (T : PT H) (L U : Bd) (h : Nat) (pb : Bool) (kvs : List (Path × H)) (F : PT H),
      fill A rc T L U h pb kvs = some F → (∀ kv ∈ kvs, kv.1.length = h) → (∀ kv ∈ kvs, kv.2 ≠ A.zero) →
      BdLen L h → BdLen U h → ∀ k, k.length = h → inL L k → inU U k →
      F.lookup A k = some ((lastVal kvs k).getD A.zero) := by
  intro T
  induction T with
  | nil =>
    intro L U h pb kvs F hf hl hv hL hU k hk hinL hinU
    unfold fill at hf
    split at hf
    · rename_i ho; rcases ho with ho | ho
      · rw [ho] at hinL; exact absurd hinL (by simp [inL])
      · rw [ho] at hinU; exact absurd hinU (by simp [inU])
    · split at hf
      · cases hf; exact embed_build_lookup h kvs k hl hk
      · cases hf; exact embed_build_lookup h kvs k hl hk
  | hash x =>
    intro L U h pb kvs F hf hl hv hL hU k hk hinL hinU
    unfold fill at hf
    split at hf
    · rename_i ho; rcases ho with ho | ho
      · rw [ho] at hinL; exact absurd hinL (by simp [inL])
      · rw [ho] at hinU; exact absurd hinU (by simp [inU])
    · split at hf
      · cases hf; exact embed_build_lookup h kvs k hl hk
      · cases hf
  | leaf v =>
    intro L U h pb kvs F hf hl hv hL hU k hk hinL hinU
    unfold fill at hf
    split at hf
    · rename_i ho; rcases ho with ho | ho
      · rw [ho] at hinL; exact absurd hinL (by simp [inL])
      · rw [ho] at hinU; exact absurd hinU (by simp [inU])
    · split at hf
      · cases hf; exact embed_build_lookup h kvs k hl hk
      · simp only [hul, Bool.not_true, Bool.false_and, Bool.false_eq_true, if_false] at hf
        split at hf
        · cases hf
        · rename_i hh0
          cases hf
          have : h = 0 := by simpa using hh0
          subst this
          exact embed_build_lookup 0 kvs k hl hk
  | bin l r ihl ihr =>
    intro L U h pb kvs F hf hl hv hL hU k hk hinL hinU
    unfold fill at hf
    split at hf
    · rename_i ho; rcases ho with ho | ho
      · rw [ho] at hinL; exact absurd hinL (by simp [inL])
      · rw [ho] at hinU; exact absurd hinU (by simp [inU])
    · split at hf
      · cases hf; exact embed_build_lookup h kvs k hl hk
      · cases h with
        | zero => simp at hf
        | succ h' =>
          simp only at hf
          cases hfl : fill A rc l (lowerBin L).1 (upperBin U).1 h' true (keysUnder false kvs) with
          | none => simp [hfl] at hf
          | some l' =>
            cases hfr : fill A rc r (lowerBin L).2 (upperBin U).2 h' true (keysUnder true kvs) with
            | none => simp [hfl, hfr] at hf
            | some r' =>
              simp only [hfl, hfr, Option.some.injEq] at hf
              subst hf
              cases k with
              | nil => simp at hk
              | cons b k' =>
                have hk' : k'.length = h' := by simpa using hk
                obtain ⟨hiL, hbL⟩ := inL_bin (b := b) (k' := k') hL hinL
                obtain ⟨hiU, hbU⟩ := inU_bin (b := b) (k' := k') hU hinU
                rw [← lastVal_keysUnder]
                have hv' : ∀ (bb : Bool), ∀ kv ∈ keysUnder bb kvs, kv.2 ≠ A.zero := by
                  intro bb kv hkv
                  simp only [keysUnder, List.mem_filterMap] at hkv
                  obtain ⟨kv0, hm, hs⟩ := hkv
                  cases hkey : kv0.1 with
                  | nil => simp [hkey] at hs
                  | cons x t =>
                    simp only [hkey] at hs
                    split at hs
                    · cases hs; exact hv kv0 hm
                    · cases hs
                cases b
                · simp only [Bool.false_eq_true, if_false] at hiL hbL hiU hbU
                  simp only [PT.lookup, Bool.false_eq_true, if_false]
                  exact ihl _ _ h' true _ l' hfl (keysUnder_length hl) (hv' false) hbL hbU k' hk' hiL hiU
                · simp only [if_true] at hiL hbL hiU hbU
                  simp only [PT.lookup, if_true]
                  exact ihr _ _ h' true _ r' hfr (keysUnder_length hl) (hv' true) hbL hbU k' hk' hiL hiU
  | edge p c ih =>
    intro L U h pb kvs F hf hl hv hL hU k hk hinL hinU
    unfold fill at hf
    split at hf
    · rename_i ho; rcases ho with ho | ho
      · rw [ho] at hinL; exact absurd hinL (by simp [inL])
      · rw [ho] at hinU; exact absurd hinU (by simp [inU])
    · split at hf
      · cases hf; exact embed_build_lookup h kvs k hl hk
      · simp only at hf
        split at hf
        · cases hf
        · rename_i hbad
          have hp0 : ¬ p.length = 0 := fun h0 => hbad (Or.inl h0)
          have hph : p.length ≤ h := by
            by_cases hc : h < p.length
            · exact absurd (Or.inr hc) hbad
            · omega
          split at hf
          · -- the whole edge lies beyond an end
            rename_i hout
            split at hf
            · rename_i hall
              cases hf
              cases hpre : p.isPrefixOf k with
              | true =>
                exfalso
                obtain ⟨k', rfl⟩ := isPrefixOf_true_iff.mp hpre
                have h1 := (inL_edge hph hL hinL).1
                have h2 := (inU_edge hph hU hinU).1
                rcases hout with ho | ho
                · rw [ho] at h1; exact h1
                · rw [ho] at h2; exact h2
              | false =>
                rw [edge_lookup_not_prefix hp0 (by omega) hpre]
                have : lastVal kvs k = none := by
                  apply lastVal_none_of_not_mem
                  intro kv hkv hkeq
                  have hlk : (PT.edge p c).lookup A kv.1 = some kv.2 := by
                    have := List.all_eq_true.mp hall kv hkv
                    simpa using this
                  rw [hkeq, edge_lookup_not_prefix hp0 (by omega) hpre] at hlk
                  exact hv kv hkv (Option.some.inj hlk).symm
                simp [this]
            · cases hf
          · split at hf
            · cases hf; exact embed_build_lookup h kvs k hl hk
            · cases hsp : stripPrefix p kvs with
              | none => simp [hsp] at hf
              | some kvs' =>
                obtain ⟨hallp, hkvs'⟩ := stripPrefix_spec hsp
                simp only [hsp] at hf
                cases hfc : fill A rc c (lowerEdge p L) (upperEdge p U) (h - p.length) false kvs' with
                | none => simp [hfc] at hf
                | some c' =>
                  have hl' : ∀ kv ∈ kvs', kv.1.length = h - p.length := by
                    intro kv hkv
                    rw [hkvs'] at hkv
                    obtain ⟨kv0, hm, rfl⟩ := List.mem_map.mp hkv
                    simp [hl kv0 hm]
                  have hv'' : ∀ kv ∈ kvs', kv.2 ≠ A.zero := by
                    intro kv hkv
                    rw [hkvs'] at hkv
                    obtain ⟨kv0, hm, rfl⟩ := List.mem_map.mp hkv
                    exact hv kv0 hm
                  cases hpre : p.isPrefixOf k with
                  | true =>
                    obtain ⟨k', rfl⟩ := isPrefixOf_true_iff.mp hpre
                    obtain ⟨hiL, hbL⟩ := inL_edge hph hL hinL
                    obtain ⟨hiU, hbU⟩ := inU_edge hph hU hinU
                    have hk' : k'.length = h - p.length := by simp at hk; omega
                    have hc' := ih _ _ _ false kvs' c' hfc hl' hv'' hbL hbU k' hk' hiL hiU
                    rw [hkvs', lastVal_strip hallp] at hc'
                    have hFl : F.lookup A (p ++ k') = c'.lookup A k' := by
                      rw [hfc] at hf
                      cases c' with
                      | nil => simp at hf; subst hf; simp [PT.lookup]
                      | hash x => simp at hf; subst hf; simp [PT.lookup, hp0, hpre]
                      | leaf x => simp at hf; subst hf; simp [PT.lookup, hp0, hpre]
                      | bin a b => simp at hf; subst hf; simp [PT.lookup, hp0, hpre]
                      | edge q d => simp at hf; subst hf; simp [PT.lookup, hp0, hpre]
                    rw [hFl]; exact hc'
                  | false =>
                    have hnone : lastVal kvs k = none := by
                      apply lastVal_none_of_not_mem
                      intro kv hkv hkeq
                      have := hallp kv hkv
                      rw [hkeq, hpre] at this; cases this
                    rw [hfc] at hf
                    have hFz : F.lookup A k = some A.zero := by
                      cases c' with
                      | nil => simp at hf; subst hf; simp [PT.lookup]
                      | hash x => simp at hf; subst hf; exact edge_lookup_not_prefix hp0 (by omega) hpre
                      | leaf x => simp at hf; subst hf; exact edge_lookup_not_prefix hp0 (by omega) hpre
                      | bin a b => simp at hf; subst hf; exact edge_lookup_not_prefix hp0 (by omega) hpre
                      | edge q d => simp at hf; subst hf; exact edge_lookup_not_prefix hp0 (by omega) hpre
                    rw [hFz, hnone]; rfl


theorem multi_sound (hI : Ideal A) (rc : RCfg) (hul : rc.unsetLeaf = true) (t : Tree H) (n : Nat)
    (hwf : WF t n) (first : Path) (hfl : first.length = n) (kvs : List (Path × H))
    (hkl : ∀ kv ∈ kvs, kv.1.length = n) (P : PSet H) (more : Bool)
    (h : verifyMulti A rc (t.hash A) first kvs P = RRes.ok more) :
    ∃ lastKV, kvs.getLast? = some lastKV ∧ pathLt first lastKV.1 = true ∧
      ∀ k, k.length = n → (first = k ∨ pathLt first k = true) → (k = lastKV.1 ∨ pathLt k lastKV.1 = true) →
        t.get A k = (lastVal kvs k).getD A.zero := by
  unfold verifyMulti at h
  cases hlast : kvs.getLast? with
  | none => simp [hlast] at h
  | some lastKV =>
    simp only [hlast] at h
    split at h
    · cases h
    · rename_i hnz
      split at h
      · cases h
      · split at h
        · cases h
        · rename_i hlt
          cases hr1 : resolvePT A rc P (2 * verifyFuel) (PT.hash (t.hash A)) first with
          | none => simp [hr1] at h
          | some t1 =>
            simp only [hr1] at h
            cases hr2 : resolvePT A rc P (2 * verifyFuel) t1 lastKV.1 with
            | none => simp [hr2] at h
            | some t2 =>
              simp only [hr2] at h
              cases hfill : fill A rc t2 (Bd.at first) (Bd.at lastKV.1) first.length false kvs with
              | none => simp [hfill] at h
              | some f =>
                simp only [hfill] at h
                split at h
                · rename_i hroot
                  refine ⟨lastKV, rfl, by simpa using hlt, ?_⟩
                  intro k hk hge hle
                  have hlastlen : lastKV.1.length = n := hkl lastKV (List.mem_of_getLast? hlast)
                  have hv : ∀ kv ∈ kvs, kv.2 ≠ A.zero := by
                    intro kv hkv hz
                    apply hnz
                    exact List.any_eq_true.mpr ⟨kv, hkv, by simpa using hz⟩
                  have hlook := fill_lookup (A := A) rc hul t2 (Bd.at first) (Bd.at lastKV.1) first.length false
                    kvs f hfill (by rw [hfl]; exact hkl) hv (by simp [BdLen]) (by simp [BdLen, hlastlen, hfl])
                    k (by omega) hge hle
                  exact lookup_agree hI f t n k _ hwf hk hroot hlook
                · cases h

/-! ### trie2 range proofs, general case: the `more` flag -/

/-- inner nodes of the partial trie sit at heights that can hold them -/
def PT.Fits : PT H → Nat → Prop
  | .nil, _ => True
  | .hash _, _ => True
  | .leaf _, _ => True
  | .bin l r, n => ∃ m, n = m + 1 ∧ l.Fits m ∧ r.Fits m
  | .edge p c, n => p ≠ [] ∧ ∃ m, n = p.length + m ∧ c.Fits m

theorem ptOfChild_phash (c : Child H) : (ptOfChild c).phash A = c.felt A := by
  unfold ptOfChild Child.felt
  cases c.tag <;> rfl

theorem ptOfChild_fits (c : Child H) (n : Nat) : (ptOfChild c).Fits n := by
  unfold ptOfChild
  cases c.tag <;> simp [PT.Fits]

theorem ptOfNode_phash (nd : PNode H) : (ptOfNode nd).phash A = nd.hash A := by
  cases nd <;> simp [ptOfNode, PT.phash, PNode.hash, ptOfChild_phash]

theorem edge_more_mismatch {p : Path} {c : Tree H} {n : Nat} (hc : WF c n) (key : Path)
    (hk : key.length = p.length + n) (hpre : p.isPrefixOf key = false) :
    (cmpGt (if key.length > p.length then p ++ List.replicate (key.length - p.length) false else p) key = true
      ↔ GtIn (Tree.edge p c) (p.length + n) key) := by
  have hpad : (if key.length > p.length then p ++ List.replicate (key.length - p.length) false else p)
      = p ++ List.replicate n false := by
    by_cases hn : n = 0
    · subst hn
      have : ¬ key.length > p.length := by omega
      simp [this]
    · have : key.length > p.length := by omega
      simp only [this, if_true]
      congr 2
      omega
  rw [hpad, cmpGt_eq_pathLt (by simp; omega), gtIn_edge_mismatch hc key hk hpre]
  have hsplit : key = key.take p.length ++ key.drop p.length := (List.take_append_drop _ _).symm
  have hlen : (key.take p.length).length = p.length := by simp; omega
  have hneq : key.take p.length ≠ p := take_ne_of_not_prefix (by omega) hpre
  conv => lhs; rw [hsplit, pathLt_append_of_ne _ _ _ _ hlen hneq]

theorem resolvePT_auth (hI : Ideal A) (rc : RCfg) (hch : rc.checkHash = true)
    (hev : rc.earlyValue = false) (hlh : rc.leafHash = true) (P : PSet H) :
    ∀ (fuel : Nat) (T : PT H) (t : Tree H) (n : Nat) (k : Path) (T' : PT H),
      WF t n → t.NZ A → T.Fits n → T.phash A = t.hash A → k.length = n →
      resolvePT A rc P fuel T k = some T' →
      T'.Fits n ∧ T'.phash A = t.hash A ∧ (hasRightPT T' k = true ↔ GtIn t n k) := by
  intro fuel
  induction fuel with
  | zero => intro T t n k T' _ _ _ _ _ h; simp [resolvePT] at h
  | succ f ih =>
    intro T t n k T' hwf hnz hfit hph hk h
    cases T with
    | nil =>
      exact absurd hph.symm (hash_ne_zero_nz hI hwf hnz)
    | leaf v =>
      simp only [resolvePT, hev, Bool.false_or] at h
      split at h
      · rename_i hk0
        cases h
        have hn0 : n = 0 := by simpa [hk] using hk0
        subst hn0
        obtain ⟨x, rfl⟩ := hwf.zero_inv
        exact ⟨hfit, hph, by simp [hasRightPT, gtIn_leaf]⟩
      · cases h
    | hash x =>
      simp only [resolvePT, hlh, Bool.true_and] at h
      split at h
      · rename_i hk0
        cases h
        have hn0 : n = 0 := by simpa [hk] using hk0
        subst hn0
        obtain ⟨y, rfl⟩ := hwf.zero_inv
        exact ⟨by simp [PT.Fits], hph, by simp [hasRightPT, gtIn_leaf]⟩
      · rename_i hk0
        have hn : 0 < n := by
          have : ¬ k.length = 0 := by simpa using hk0
          omega
        cases hget : P.get x with
        | none => simp [hget] at h
        | some nd =>
          simp only [hget, hch, Bool.true_and] at h
          split at h
          · cases h
          · rename_i hh
            have hnd : nd.hash A = t.hash A := by
              have : nd.hash A = x := by simpa using hh
              rw [this]; exact hph
            have hfit' : (ptOfNode nd).Fits n := by
              cases t with
              | leaf v => have := hwf.leaf_inv; omega
              | bin tl tr =>
                obtain ⟨m, rfl, _, hwr0⟩ := hwf.bin_inv
                obtain ⟨l', r', c', rfl, _, _⟩ := pnode_of_hash_bin hI (a := tl.hash A) (b := tr.hash A)
                  (hash_ne_zero_nz hI (by assumption) hnz.2) hnd
                exact ⟨m, rfl, ptOfChild_fits _ _, ptOfChild_fits _ _⟩
              | edge p c =>
                obtain ⟨m, rfl, hp, _⟩ := hwf.edge_inv
                obtain ⟨ch, cc, rfl, _⟩ := pnode_of_hash_edge hI (c := c.hash A) (p := p) hp hnd
                exact ⟨hp, m, rfl, ptOfChild_fits _ _⟩
            exact ih (ptOfNode nd) t n k T' hwf hnz hfit' (by rw [ptOfNode_phash]; exact hnd) hk h
    | bin l r =>
      obtain ⟨m, rfl, hfl, hfr⟩ := hfit
      simp only [PT.phash] at hph
      cases t with
      | leaf v => have := hwf.leaf_inv; omega
      | edge p c => exact absurd hph (hI.bin_ne_edge _ _ _ _ (Or.inl hwf.edge_inv.choose_spec.2.1))
      | bin tl tr =>
        obtain ⟨m', hm', hwl, hwr⟩ := hwf.bin_inv
        have hmm : m' = m := by omega
        subst hmm
        obtain ⟨h1, h2⟩ := hI.bin_inj _ _ _ _ hph
        obtain ⟨hnzl, hnzr⟩ := hnz
        cases k with
        | nil => simp at hk
        | cons b k' =>
          have hk' : k'.length = m' := by simpa using hk
          simp only [resolvePT, List.headD_cons, List.drop_one, List.tail_cons] at h
          cases b with
          | true =>
            simp only [if_true] at h
            cases hr : resolvePT A rc P f r k' with
            | none => simp [hr] at h
            | some r' =>
              simp only [hr, Option.map_some, Option.some.injEq] at h
              subst h
              obtain ⟨hf', hp', hm⟩ := ih r tr m' k' r' hwr hnzr hfr h2 hk' hr
              refine ⟨⟨m', rfl, hfl, hf'⟩, by simp [PT.phash, h1, hp', Tree.hash], ?_⟩
              have hgt := gtIn_bin (l := tl) hwr true k'
              simp only [if_true] at hgt
              rw [hgt, ← hm]
              simp [hasRightPT]
          | false =>
            simp only [Bool.false_eq_true, if_false] at h
            cases hl : resolvePT A rc P f l k' with
            | none => simp [hl] at h
            | some l' =>
              simp only [hl, Option.map_some, Option.some.injEq] at h
              subst h
              obtain ⟨hf', hp', _⟩ := ih l tl m' k' l' hwl hnzl hfl h1 hk' hl
              refine ⟨⟨m', rfl, hf', hfr⟩, by simp [PT.phash, h2, hp', Tree.hash], ?_⟩
              have hgoal := gtIn_bin_left (l := tl) hwr k'
              cases r with
              | nil => exact absurd (show A.zero = tr.hash A from h2).symm (hash_ne_zero_nz hI hwr hnzr)
              | hash _ => simpa [hasRightPT] using hgoal
              | leaf _ => simpa [hasRightPT] using hgoal
              | bin _ _ => simpa [hasRightPT] using hgoal
              | edge _ _ => simpa [hasRightPT] using hgoal
    | edge p c =>
      obtain ⟨hp0, m, rfl, hfc⟩ := hfit
      have hplen : 0 < p.length := List.length_pos_iff.mpr hp0
      simp only [PT.phash] at hph
      cases t with
      | leaf v => have := hwf.leaf_inv; omega
      | bin tl tr => exact absurd hph.symm (hI.bin_ne_edge _ _ _ _ (Or.inl hp0))
      | edge p' c' =>
        obtain ⟨m', hm', _, hwc⟩ := hwf.edge_inv
        obtain ⟨h1, h2⟩ := hI.edge_inj _ _ _ _ hph
        subst h2
        have hmm : m' = m := by omega
        subst hmm
        have hcomp : pathCompat p k = p.isPrefixOf k := by
          rw [pathCompat_comm]; exact pathCompat_of_le (by omega)
        simp only [resolvePT, hcomp] at h
        cases hpre : p.isPrefixOf k with
        | false =>
          simp only [hpre, Bool.not_false, if_true, Option.some.injEq] at h
          subst h
          refine ⟨⟨hp0, m', rfl, hfc⟩, by simp [PT.phash, h1, Tree.hash], ?_⟩
          simp only [hasRightPT, hcomp, hpre, Bool.not_false, if_true]
          exact edge_more_mismatch hwc k hk hpre
        | true =>
          simp only [hpre, Bool.not_true, Bool.false_eq_true, if_false] at h
          obtain ⟨k', rfl⟩ := isPrefixOf_true_iff.mp hpre
          have hk' : k'.length = m' := by simp at hk; omega
          have hdrop : (p ++ k').drop p.length = k' := by simp
          rw [hdrop] at h
          cases hr : resolvePT A rc P f c k' with
          | none => simp [hr] at h
          | some c'' =>
            simp only [hr, Option.map_some, Option.some.injEq] at h
            subst h
            obtain ⟨hf', hp', hm⟩ := ih c c' m' k' c'' hwc hnz hfc h1 hk' hr
            refine ⟨⟨hp0, m', rfl, hf'⟩, by simp [PT.phash, hp', Tree.hash], ?_⟩
            simp only [hasRightPT, hcomp, hpre, Bool.not_true, Bool.false_eq_true, if_false, hdrop]
            rw [hm, gtIn_edge_match]


theorem multi_more (hI : Ideal A) (rc : RCfg) (hch : rc.checkHash = true) (hev : rc.earlyValue = false)
    (hlh : rc.leafHash = true) (t : Tree H) (n : Nat) (hwf : WF t n) (hnz : t.NZ A) (first : Path)
    (hfl : first.length = n) (kvs : List (Path × H)) (hkl : ∀ kv ∈ kvs, kv.1.length = n) (P : PSet H)
    (more : Bool) (h : verifyMulti A rc (t.hash A) first kvs P = RRes.ok more) :
    ∃ lastKV, kvs.getLast? = some lastKV ∧ (more = true ↔ GtIn t n lastKV.1) := by
  unfold verifyMulti at h
  cases hlast : kvs.getLast? with
  | none => simp [hlast] at h
  | some lastKV =>
    refine ⟨lastKV, rfl, ?_⟩
    have hlastlen : lastKV.1.length = n := hkl lastKV (List.mem_of_getLast? hlast)
    simp only [hlast] at h
    split at h
    · cases h
    · split at h
      · cases h
      · split at h
        · cases h
        · cases hr1 : resolvePT A rc P (2 * verifyFuel) (PT.hash (t.hash A)) first with
          | none => simp [hr1] at h
          | some t1 =>
            simp only [hr1] at h
            cases hr2 : resolvePT A rc P (2 * verifyFuel) t1 lastKV.1 with
            | none => simp [hr2] at h
            | some t2 =>
              simp only [hr2] at h
              obtain ⟨hf1, hp1, _⟩ := resolvePT_auth hI rc hch hev hlh P _ (PT.hash (t.hash A)) t n first t1
                hwf hnz (by simp [PT.Fits]) rfl hfl hr1
              obtain ⟨_, _, hm⟩ := resolvePT_auth hI rc hch hev hlh P _ t1 t n lastKV.1 t2
                hwf hnz hf1 hp1 hlastlen hr2
              cases hfill : fill A rc t2 (Bd.at first) (Bd.at lastKV.1) first.length false kvs with
              | none => simp [hfill] at h
              | some f =>
                simp only [hfill] at h
                split at h
                · cases h; exact hm
                · cases h

theorem all_sound (hI : Ideal A) (t : Tree H) (n : Nat) (hwf : WF t n) (kvs : List (Path × H))
    (hkl : ∀ kv ∈ kvs, kv.1.length = n) (more : Bool)
    (h : verifyAll A (t.hash A) n kvs = RRes.ok more) :
    more = false ∧ ∀ k, k.length = n → t.get A k = (lastVal kvs k).getD A.zero := by
  unfold verifyAll at h
  split at h
  · cases h
  · split at h
    · cases h
    · split at h
      · rename_i hroot
        cases h
        refine ⟨rfl, fun k hk => ?_⟩
        exact lookup_agree hI _ t n k _ hwf hk hroot (embed_build_lookup n kvs k hkl hk)
      · cases h

theorem NZ_mkEdge {p : Path} {c : Tree H} (hc : c.NZ A) : (mkEdge p c).NZ A := by
  cases p with
  | nil => simpa [mkEdge] using hc
  | cons x xs =>
    cases c with
    | leaf v => simpa [mkEdge, Tree.NZ] using hc
    | bin l r => simpa [mkEdge, Tree.NZ] using hc
    | edge q d => simpa [mkEdge, Tree.NZ] using hc

theorem keysUnder_vals {b : Bool} {kvs : List (Path × H)} (hv : ∀ kv ∈ kvs, kv.2 ≠ A.zero) :
    ∀ kv ∈ keysUnder b kvs, kv.2 ≠ A.zero := by
  intro kv hkv
  simp only [keysUnder, List.mem_filterMap] at hkv
  obtain ⟨kv0, hm, hs⟩ := hkv
  cases hkey : kv0.1 with
  | nil => simp [hkey] at hs
  | cons x t =>
    simp only [hkey] at hs
    split at hs
    · cases hs; exact hv kv0 hm
    · cases hs

theorem build_nz : ∀ (h : Nat) (kvs : List (Path × H)) (t : Tree H),
    (∀ kv ∈ kvs, kv.2 ≠ A.zero) → build h kvs = some t → t.NZ A := by
  intro h
  induction h with
  | zero =>
    intro kvs t hv ht
    simp only [build] at ht
    cases hl : kvs.getLast? with
    | none => simp [hl] at ht
    | some kv =>
      obtain ⟨k, v⟩ := kv
      simp only [hl, Option.some.injEq] at ht
      subst ht
      exact hv _ (List.mem_of_getLast? hl)
  | succ h ih =>
    intro kvs t hv ht
    cases kvs with
    | nil => simp [build] at ht
    | cons kv rest =>
      simp only [build] at ht
      split at ht
      · cases ht
      · rename_i a ha _
        cases ht
        exact NZ_mkEdge (ih _ _ (keysUnder_vals hv) ha)
      · rename_i b _ hb
        cases ht
        exact NZ_mkEdge (ih _ _ (keysUnder_vals hv) hb)
      · rename_i a b ha hb
        cases ht
        exact ⟨ih _ _ (keysUnder_vals hv) ha, ih _ _ (keysUnder_vals hv) hb⟩

theorem lastVal_of_all_eq {kvs : List (Path × H)} {k : Path} {v : H}
    (hmem : ∃ kv ∈ kvs, kv.1 = k) (hall : ∀ kv ∈ kvs, kv.1 = k → kv.2 = v) : lastVal kvs k = some v := by
  unfold lastVal
  obtain ⟨kv0, hm0, hk0⟩ := hmem
  have hne : kvs.filter (fun kv => kv.1 = k) ≠ [] := by
    intro h
    have : kv0 ∈ kvs.filter (fun kv => kv.1 = k) := List.mem_filter.mpr ⟨hm0, by simpa using hk0⟩
    rw [h] at this; cases this
  cases hl : (kvs.filter (fun kv => kv.1 = k)).getLast? with
  | none => exact absurd (List.getLast?_eq_none_iff.mp hl) hne
  | some kv =>
    have hin := List.mem_of_getLast? hl
    obtain ⟨hm, hk⟩ := List.mem_filter.mp hin
    simp only [Option.map_some, Option.some.injEq]
    exact hall kv hm (by simpa using hk)

theorem lastVal_of_allLookup {T : PT H} {kvs : List (Path × H)}
    (hall : kvs.all (fun kv => decide (T.lookup A kv.1 = some kv.2)) = true) (kv : Path × H) (hkv : kv ∈ kvs) :
    T.lookup A kv.1 = some ((lastVal kvs kv.1).getD A.zero) := by
  have hl : ∀ kv' ∈ kvs, T.lookup A kv'.1 = some kv'.2 := by
    intro kv' h'
    simpa using List.all_eq_true.mp hall kv' h'
  have : lastVal kvs kv.1 = some kv.2 := by
    apply lastVal_of_all_eq ⟨kv, hkv, rfl⟩
    intro kv' h' hk
    have h1 := hl kv' h'
    have h2 := hl kv hkv
    rw [hk, h2] at h1
    exact (Option.some.inj h1).symm
  rw [this]; exact hl kv hkv

theorem mem_keysUnder {b : Bool} {k' : Path} {v : H} {kvs : List (Path × H)} (h : (b :: k', v) ∈ kvs) :
    (k', v) ∈ keysUnder b kvs := by
  simp only [keysUnder, List.mem_filterMap]
  exact ⟨(b :: k', v), h, by simp⟩

theorem fill_lookup_listed (rc : RCfg) (hul : rc.unsetLeaf = true) :
    ∀ (T : PT H) (L U : Bd) (h : Nat) (pb : Bool) (kvs : List (Path × H)) (F : PT H),
      fill A rc T L U h pb kvs = some F → (∀ kv ∈ kvs, kv.1.length = h) →
      ∀ kv ∈ kvs, F.lookup A kv.1 = some ((lastVal kvs kv.1).getD A.zero) := by
  intro T
  induction T with
  | nil =>
    intro L U h pb kvs F hf hl kv hkv
    unfold fill at hf
    split at hf
    · split at hf
      · rename_i hall; cases hf; exact lastVal_of_allLookup hall kv hkv
      · cases hf
    · split at hf
      · cases hf; exact embed_build_lookup h kvs kv.1 hl (hl kv hkv)
      · cases hf; exact embed_build_lookup h kvs kv.1 hl (hl kv hkv)
  | hash x =>
    intro L U h pb kvs F hf hl kv hkv
    unfold fill at hf
    split at hf
    · split at hf
      · rename_i hall; cases hf; exact lastVal_of_allLookup hall kv hkv
      · cases hf
    · split at hf
      · cases hf; exact embed_build_lookup h kvs kv.1 hl (hl kv hkv)
      · cases hf
  | leaf v =>
    intro L U h pb kvs F hf hl kv hkv
    unfold fill at hf
    split at hf
    · split at hf
      · rename_i hall; cases hf; exact lastVal_of_allLookup hall kv hkv
      · cases hf
    · split at hf
      · cases hf; exact embed_build_lookup h kvs kv.1 hl (hl kv hkv)
      · simp only [hul, Bool.not_true, Bool.false_and, Bool.false_eq_true, if_false] at hf
        split at hf
        · cases hf
        · rename_i hh0
          cases hf
          have : h = 0 := by simpa using hh0
          subst this
          exact embed_build_lookup 0 kvs kv.1 hl (hl kv hkv)
  | bin l r ihl ihr =>
    intro L U h pb kvs F hf hl kv hkv
    unfold fill at hf
    split at hf
    · split at hf
      · rename_i hall; cases hf; exact lastVal_of_allLookup hall kv hkv
      · cases hf
    · split at hf
      · cases hf; exact embed_build_lookup h kvs kv.1 hl (hl kv hkv)
      · cases h with
        | zero => simp at hf
        | succ h' =>
          simp only at hf
          cases hfl : fill A rc l (lowerBin L).1 (upperBin U).1 h' true (keysUnder false kvs) with
          | none => simp [hfl] at hf
          | some l' =>
            cases hfr : fill A rc r (lowerBin L).2 (upperBin U).2 h' true (keysUnder true kvs) with
            | none => simp [hfl, hfr] at hf
            | some r' =>
              simp only [hfl, hfr, Option.some.injEq] at hf
              subst hf
              obtain ⟨key, v⟩ := kv
              cases key with
              | nil => have := hl _ hkv; simp at this
              | cons b k' =>
                rw [← lastVal_keysUnder]
                cases b
                · simp only [PT.lookup, Bool.false_eq_true, if_false]
                  exact ihl _ _ h' true _ l' hfl (keysUnder_length hl) (k', v) (mem_keysUnder hkv)
                · simp only [PT.lookup, if_true]
                  exact ihr _ _ h' true _ r' hfr (keysUnder_length hl) (k', v) (mem_keysUnder hkv)
  | edge p c ih =>
    intro L U h pb kvs F hf hl kv hkv
    unfold fill at hf
    split at hf
    · split at hf
      · rename_i hall; cases hf; exact lastVal_of_allLookup hall kv hkv
      · cases hf
    · split at hf
      · cases hf; exact embed_build_lookup h kvs kv.1 hl (hl kv hkv)
      · simp only at hf
        split at hf
        · cases hf
        · rename_i hbad
          have hp0 : ¬ p.length = 0 := fun h0 => hbad (Or.inl h0)
          split at hf
          · split at hf
            · rename_i hall; cases hf; exact lastVal_of_allLookup hall kv hkv
            · cases hf
          · split at hf
            · cases hf; exact embed_build_lookup h kvs kv.1 hl (hl kv hkv)
            · cases hsp : stripPrefix p kvs with
              | none => simp [hsp] at hf
              | some kvs' =>
                obtain ⟨hallp, hkvs'⟩ := stripPrefix_spec hsp
                simp only [hsp] at hf
                cases hfc : fill A rc c (lowerEdge p L) (upperEdge p U) (h - p.length) false kvs' with
                | none => simp [hfc] at hf
                | some c' =>
                  have hl' : ∀ kv ∈ kvs', kv.1.length = h - p.length := by
                    intro kv hkv
                    rw [hkvs'] at hkv
                    obtain ⟨kv0, hm, rfl⟩ := List.mem_map.mp hkv
                    simp [hl kv0 hm]
                  have hpre := hallp kv hkv
                  obtain ⟨k', hk'⟩ := isPrefixOf_true_iff.mp hpre
                  have hmem' : (k', kv.2) ∈ kvs' := by
                    rw [hkvs']
                    exact List.mem_map.mpr ⟨kv, hkv, by rw [← hk']; simp⟩
                  have hc' := ih _ _ _ false kvs' c' hfc hl' (k', kv.2) hmem'
                  simp only at hc'
                  rw [hkvs', lastVal_strip hallp, hk'] at hc'
                  have hFl : F.lookup A kv.1 = c'.lookup A k' := by
                    rw [hfc] at hf
                    rw [← hk']
                    have hpre' : p.isPrefixOf (p ++ k') = true := isPrefixOf_true_iff.mpr ⟨k', rfl⟩
                    cases c' with
                    | nil => simp at hf; subst hf; simp [PT.lookup]
                    | hash x => simp at hf; subst hf; simp [PT.lookup, hp0, hpre']
                    | leaf x => simp at hf; subst hf; simp [PT.lookup, hp0, hpre']
                    | bin a b => simp at hf; subst hf; simp [PT.lookup, hp0, hpre']
                    | edge q d => simp at hf; subst hf; simp [PT.lookup, hp0, hpre']
                  rw [hFl]; exact hc'


theorem multi_listed_genuine (hI : Ideal A) (rc : RCfg) (hul : rc.unsetLeaf = true) (t : Tree H) (n : Nat)
    (hwf : WF t n) (first : Path) (hfl : first.length = n) (kvs : List (Path × H))
    (hkl : ∀ kv ∈ kvs, kv.1.length = n) (P : PSet H) (more : Bool)
    (h : verifyMulti A rc (t.hash A) first kvs P = RRes.ok more) :
    ∀ kv ∈ kvs, t.get A kv.1 = (lastVal kvs kv.1).getD A.zero := by
  unfold verifyMulti at h
  cases hlast : kvs.getLast? with
  | none => simp [hlast] at h
  | some lastKV =>
    simp only [hlast] at h
    split at h
    · cases h
    · split at h
      · cases h
      · split at h
        · cases h
        · cases hr1 : resolvePT A rc P (2 * verifyFuel) (PT.hash (t.hash A)) first with
          | none => simp [hr1] at h
          | some t1 =>
            simp only [hr1] at h
            cases hr2 : resolvePT A rc P (2 * verifyFuel) t1 lastKV.1 with
            | none => simp [hr2] at h
            | some t2 =>
              simp only [hr2] at h
              cases hfill : fill A rc t2 (Bd.at first) (Bd.at lastKV.1) first.length false kvs with
              | none => simp [hfill] at h
              | some f =>
                simp only [hfill] at h
                split at h
                · rename_i hroot
                  intro kv hkv
                  have hlook := fill_lookup_listed (A := A) rc hul t2 _ _ first.length false kvs f hfill
                    (by rw [hfl]; exact hkl) kv hkv
                  exact lookup_agree hI f t n kv.1 _ hwf (hkl kv hkv) hroot hlook
                · cases h

/-! ### the storage proof of a slot, composed: slot ∈ storage trie ∈ contract leaf ∈ contracts trie ∈ state root -/

theorem contractLeaf_inj (hI : Ideal A) {c s n c' s' n' : H}
    (h : contractLeaf A c s n = contractLeaf A c' s' n') : c = c' ∧ s = s' ∧ n = n' := by
  unfold contractLeaf at h
  obtain ⟨h1, _⟩ := hI.bin_inj _ _ _ _ h
  obtain ⟨h2, h3⟩ := hI.bin_inj _ _ _ _ h1
  obtain ⟨h4, h5⟩ := hI.bin_inj _ _ _ _ h2
  exact ⟨h4, h5, h3⟩

theorem pathOfNat_add_pow (h m : Nat) (hm : h ≤ m) (k : Nat) : pathOfNat h (2 ^ m + k) = pathOfNat h k := by
  induction h with
  | zero => rfl
  | succ h ih =>
    simp only [pathOfNat]
    rw [ih (by omega), Nat.testBit_two_pow_add_gt (by omega)]

theorem pathOfNat_length (h n : Nat) : (pathOfNat h n).length = h := by
  induction h with
  | zero => rfl
  | succ h ih => simp [pathOfNat, ih]

end Juno.C10
