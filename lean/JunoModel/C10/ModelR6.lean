import JunoModel.C10.Model
import JunoModel.C10.ModelR5
/-!
C10, round 6 — `Prove` INTO AN EXISTING SET (core Lean only, linked into `c10drv`).

Both `Trie.Prove(key, proofSet)` (core/trie/proof.go:70, core/trie2/proof.go:24) do not return a fresh set: they
`Put` the nodes of the path of `key` into the `OrderedSet` the caller hands in.  The RPC handlers
(`getClassProof`, `getContractProof*`, `getContractStorageProof`: one set per mapping, every requested key
proven into it) and `GetRangeProof` (two boundary keys) rely on that.  `proveAll` (round 5) starts from the
empty set; `proveInto` starts from ANY content `s0` — nodes of earlier keys, of another trie, anything a caller
left there.  What a prover may and may not assume about that content is the subject of
`Props.prove_into_*`: the real provers assume nothing (every node of the path is `Put`, present or not).
-/
namespace Juno.C10

variable {H : Type}

/-- `t.Prove(key, s)` for one key: every node of the path is `Put` into `s` (a key already in the set keeps its
position and gets the node; a new key is appended) -/
def proveOneInto [DecidableEq H] (A : HashAlg H) (legacy : Bool) (height : Nat) (t : Trie H) (s : PSet H) (k : Nat) :
    PSet H :=
  (Trie.prove A legacy false t (pathOfNat height k)).foldl (fun s e => osPut s e.1 e.2) s

/-- `for _, key := range keys { t.Prove(&key, s0) }` -/
def proveInto [DecidableEq H] (A : HashAlg H) (legacy : Bool) (height : Nat) (t : Trie H) (s0 : PSet H)
    (keys : List Nat) : PSet H :=
  keys.foldl (proveOneInto A legacy height t) s0

/-! ### the variant of `trie2.VerifyProof` in which a value child is followed like a hash child

/repo today: a child of Go type `*ValueNode` met while key bits are left is an error ("proof ends in a value node
before the key is consumed").  The Go type of a child is not covered by the parent's hash — two sibling leaves
holding the hashes of two sibling subtrees give a bottom node and an inner node with ONE hash, and a node set
keeps one of them — so honest multi-key sets can be rejected (`Props.prove_many_trie2_value_equals_node_hash_rejected`).
The repaired function (proposed-fixes/C10-trie2-verifyproof-value-child-walks-on.diff) follows the felt of a value
child like that of a hash child and returns it at the end of the key: for `VerifyProof` a value child IS a hash
child.  `verify2W` is that function; the harness probes which one the tree under test has (`v2w` / `v2`). -/

def Child.valueAsHash (A : HashAlg H) (c : Child H) : Child H :=
  match c.shape with
  | .value => ⟨.hash, c.h⟩
  -- a nil child is `NilValueNode` on the collapsed copy: a value node holding zero, followed like the others
  -- (with key bits left the zero hash is looked up: "proof node not found")
  | .nil => ⟨.hash, A.zero⟩
  | _ => c

def PNode.valueAsHash (A : HashAlg H) : PNode H → PNode H
  | .bin l r c => .bin (l.valueAsHash A) (r.valueAsHash A) c
  | .edge p ch c => .edge p (ch.valueAsHash A) c

def PSet.valueAsHash (A : HashAlg H) (P : PSet H) : PSet H := P.map (fun e => (e.1, e.2.valueAsHash A))

def verify2W [DecidableEq H] (A : HashAlg H) (cfg : Cfg) (root : H) (key : Path) (proof : PSet H) : Res H :=
  verify2 A cfg root key (proof.valueAsHash A)

def verify2WFelt [DecidableEq H] (A : HashAlg H) (cfg : Cfg) (height : Nat) (root : H) (key : Nat)
    (proof : PSet H) : Res H :=
  verify2Felt A cfg height root key (proof.valueAsHash A)

end Juno.C10
