import JunoModel.C10.Props
/-!
C10 — regression witnesses: proved negations for defects that are FIXED in /repo.  They are about
variants of the code that no longer exist (`Cfg.asIs`, `RCfg.asIs` = the tree before the named commit)
and are NOT property obligations; they document what the repaired hypotheses exclude and keep the
model's historic variants exercised.  Built by the check, not counted in the obligation list.
-/
namespace Juno.C10.Regress
open Juno.C10 Juno.C10.Props

variable {H : Type} [DecidableEq H]

/-- before aab3e5b: both verifiers rejected the (empty) proof of the empty trie -/
theorem empty_trie_proof_rejected_before_aab3e5b (A : HashAlg H) (k : Path) (legacy cached : Bool) :
    verifyL A Cfg.asIs (Trie.hash A none) k (Trie.prove A legacy cached none k) = Res.notFound ∧
    verify2 A Cfg.asIs (Trie.hash A none) k (Trie.prove A legacy cached none k) = Res.notFound := by
  simp [verifyL, verify2, Cfg.asIs, Trie.prove, verifyFuel, verifyLAux, verify2Aux, PSet.get]

/-- the proof of 110 with the value in the last node replaced by 666, cached hash flag kept -/
def forgedCached : PSet HTerm :=
  match Trie.prove freeAlg false true (some exTree) [true, true, false] with
  | [a, b, (h, .bin _ r c)] => [a, b, (h, .bin ⟨.value, .felt 666⟩ r c)]
  | p => p

/-- before dbf9f09: a node whose value was changed but whose cached flag was kept was accepted -/
theorem cached_hash_forgery_before_dbf9f09 :
    verify2 freeAlg Cfg.asIs (exTree.hash freeAlg) [true, true, false] forgedCached = .ok (.felt 666) ∧
    exTree.get freeAlg [true, true, false] = .felt 8 ∧
    verify2 freeAlg Cfg.at997852f (exTree.hash freeAlg) [true, true, false] forgedCached = .mismatch := by
  decide

/-- the proof of 110 without cached flags, the on-path child of the root re-typed as a value node -/
def forgedRetyped : PSet HTerm :=
  match Trie.prove freeAlg false false (some exTree) [true, true, false] with
  | (h, .bin l r c) :: rest => (h, .bin l ⟨.value, r.h⟩ c) :: rest
  | p => p

/-- before dbf9f09: an inner node hash was returned as the value of key 110 -/
theorem value_retype_forgery_before_dbf9f09 :
    (∀ e ∈ forgedRetyped, e.1 = e.2.hash freeAlg) ∧
    verify2 freeAlg Cfg.asIs (exTree.hash freeAlg) [true, true, false] forgedRetyped =
      .ok ((Tree.bin (.edge [true] (.leaf (.felt 5))) (.bin (.leaf (.felt 8)) (.leaf (.felt 9)))).hash freeAlg) ∧
    exTree.get freeAlg [true, true, false] = .felt 8 ∧
    verify2 freeAlg Cfg.at997852f (exTree.hash freeAlg) [true, true, false] forgedRetyped = .earlyValue := by
  decide

/-- before 997852f: `{root ↦ Edge(key, Value v)}` proved any single-element range, for EVERY root -/
theorem range_single_forgery_before_997852f (A : HashAlg H) (root : H) (k : Path) (v : H) (hv : v ≠ A.zero) :
    verifySingle A RCfg.asIs root k v [(root, PNode.edge k ⟨Shape.value, v⟩ none)] = RRes.ok false :=
  single_forgery A root k v hv

/-- before 997852f: `{root ↦ Edge(0…0, Value v)}` proved "nothing at or right of first" -/
theorem range_empty_forgery_before_997852f (A : HashAlg H) (root : H) (first : Path) (v : H)
    (hne : first ≠ List.replicate first.length false) :
    verifyEmpty A RCfg.asIs root first
      [(root, PNode.edge (List.replicate first.length false) ⟨Shape.value, v⟩ none)] = RRes.ok false :=
  empty_forgery A root first v hne

/-- before 997852f: the empty-range proof of the empty trie was rejected -/
theorem range_empty_trie_rejected_before_997852f (A : HashAlg H) (first : Path) :
    verifyEmpty A RCfg.asIs A.zero first [] = RRes.err := by
  simp [verifyEmpty, RCfg.asIs, verifyFuel, resolveAux, PSet.get]

/-- the honest range proof of the sibling keys 110, 111 of the example trie -/
def gapProof : PSet HTerm :=
  Trie.prove freeAlg false false (some exTree) [true, true, false] ++
    Trie.prove freeAlg false false (some exTree) [true, true, true]

/-- before 997852f (`unsetLeaf = false`): the range [110, 111] verified with 110 left out; the hypothesis
`unsetLeaf` of `range_sound` cannot be dropped -/
theorem range_gap_accepted_before_997852f :
    verifyMulti freeAlg ⟨true, false, true, true, false⟩ (exTree.hash freeAlg) [true, true, false]
        [([true, true, true], .felt 9)] gapProof = .ok false ∧
    exTree.get freeAlg [true, true, false] = .felt 8 ∧
    verifyMulti freeAlg RCfg.strict (exTree.hash freeAlg) [true, true, false]
        [([true, true, true], .felt 9)] gapProof = .err ∧
    verifyMulti freeAlg RCfg.strict (exTree.hash freeAlg) [true, true, false]
        [([true, true, false], .felt 8), ([true, true, true], .felt 9)] gapProof = .ok false := by
  decide

/-! ## Before 616d4a4: walk on the node as given, no key range check (`Cfg.at997852f`) -/

/-- What held of `trie2.VerifyProof` before 616d4a4 (and of every variant): sound on node sets that meet
the side conditions of the variant; for `Cfg.at997852f` that is: NO EMBEDDED child node (what `Prove`
returns and what a wire decoder builds). -/
theorem proof_sound_trie2_partial_before_616d4a4 (A : HashAlg H) (hI : Ideal A) (cfg : Cfg) (n : Nat)
    (hn : 0 < n) (r : H) (k : Path) (hk : k.length = n) (P : PSet H)
    (hcache : cfg.trustCache = true → ∀ e ∈ P, e.2.cache = none)
    (hval : cfg.earlyValue = true → ∀ e ∈ P, e.2.noValue)
    (hemb : cfg.walkCollapsed = true ∨ ∀ e ∈ P, e.2.noEmb) (v : H)
    (h : verify2 A cfg r k P = Res.ok v) :
    ∀ t : Trie H, Trie.WF t n → Trie.NZ A t → t.hash A = r → t.get A k = v := by
  intro t hwf hnz hr
  subst hr
  exact (trie2_sound hI cfg t n hwf hnz hn k hk P hcache hval hemb v h).symm

/-- the honest proof of 110 (no cached flags) in which the root's right child — a hash node — is given
as the EMBEDDED node it stands for, without cached hash; every node still hashes to its set key -/
def forgedEmbedded : PSet HTerm :=
  match Trie.prove freeAlg false false (some exTree) [true, true, false] with
  | (h, .bin l r c) :: rest => (h, .bin l ⟨.embPlain, r.h⟩ c) :: rest
  | p => p

/-- Fixed by 616d4a4 (signature `trie2:embedded-child-without-cached-hash:accepted`): the hash check ran
on the collapsed copy, the walk on the node as given; the embedded child was stepped over and the root
node entered again one level too deep, until the shortened key led to a hash child: key 110 holds 8, the
verifier returned, without error, the hash of the edge node above key 001.  With the walk on the
collapsed copy (`Cfg.strict`, /repo today) the true value is returned. -/
theorem embedded_child_forgery_before_616d4a4 :
    (∀ e ∈ forgedEmbedded, e.1 = e.2.hash freeAlg) ∧
    verify2 freeAlg Cfg.at997852f (exTree.hash freeAlg) [true, true, false] forgedEmbedded =
      .ok ((Tree.edge [false, true] (.leaf (.felt 7))).hash freeAlg) ∧
    exTree.get freeAlg [true, true, false] = .felt 8 ∧
    verify2 freeAlg Cfg.strict (exTree.hash freeAlg) [true, true, false] forgedEmbedded = .ok (.felt 8) := by
  decide

/-- Fixed by 616d4a4 (signatures `*:key-plus-2^251:accepted`): without the range check the felt `k + 2^n`
was verified exactly like the key `k` — a proof of `k ↦ v` was also accepted as a proof of
`(k + 2^n) ↦ v`, a key no trie of height n holds. -/
theorem felt_key_alias_before_616d4a4 (A : HashAlg H) (cfg : Cfg) (hck : cfg.checkKey = false) (n : Nat)
    (r : H) (k : Nat) (P : PSet H) :
    verifyLFelt A cfg n r (2 ^ n + k) P = verifyLFelt A cfg n r k P ∧
    verify2Felt A cfg n r (2 ^ n + k) P = verify2Felt A cfg n r k P := by
  simp [verifyLFelt, verify2Felt, hck, pathOfNat_add_pow n n (Nat.le_refl n) k]

/-- before 0a848cd (`ck = false`: `VerifyRangeProof` did not refuse keys of `2^n` or more): the statement of
`Props.range_verify_sound` held only under the side condition that `first` and the listed keys are below `2^n` -/
theorem range_verify_sound_partial_before_0a848cd (A : HashAlg H) (hI : Ideal A) (rc : RCfg) (hch : rc.checkHash = true)
    (hev : rc.earlyValue = false) (hlh : rc.leafHash = true) (hul : rc.unsetLeaf = true)
    (t : Tree H) (n : Nat) (hwf : WF t n) (hnz : t.NZ A) (hn : 0 < n) (first : Nat) (kvs : List (Nat × H))
    (P : PSet H) (more : Bool) (hb : first < 2 ^ n ∧ ∀ kv ∈ kvs, kv.1 < 2 ^ n)
    (h : verifyRange A rc false n (t.hash A) first kvs (some P) = .ok more) :
    (∀ k, k < 2 ^ n → first ≤ k → (∀ l, kvs.getLast? = some l → k ≤ l.1) →
      t.get A (pathOfNat n k) = (lastValF kvs k).getD A.zero) ∧
    (more = true ↔ ∃ l, kvs.getLast? = some l ∧ GtIn t n (pathOfNat n l.1)) :=
  (verifyRange_sound hI rc hch hev hlh hul false t n hwf hnz hn first kvs P more (Or.inr hb) h).2

/-- before 0a848cd, the defect (then known findings `trie2:range:*key-plus-2^251*`, `…keys-wrap-2^251…`): without the check the
single-element claim about the felt `2^n + k` is verified exactly like the claim about `k`; concretely, in the
example trie the honest proof of 110 ↦ 8 is accepted for the felt `2^3 + 6`, a key no trie of height 3 holds,
and the variant with the check refuses it.  (On the real code the general case also accepts a range with a
gap, `first = 5, keys = [5, 3 + 2^251]` over {3, 5, 9, 12}, and panics for `first = k, keys = [k + 2^251]`; there
the paths are not increasing, which is outside the model's `fill`.) -/
theorem range_felt_key_alias_before_0a848cd (A : HashAlg H) (rc : RCfg) (n : Nat) (root : H) (k : Nat) (v : H) (P : PSet H) :
    verifyRange A rc false n root (2 ^ n + k) [(2 ^ n + k, v)] (some P) =
      verifyRange A rc false n root k [(k, v)] (some P) ∧
    verifyRange freeAlg RCfg.strict false 3 (exTree.hash freeAlg) (2 ^ 3 + 6) [(2 ^ 3 + 6, .felt 8)]
      (some (Trie.prove freeAlg false false (some exTree) [true, true, false])) = .ok true ∧
    verifyRange freeAlg RCfg.strict true 3 (exTree.hash freeAlg) (2 ^ 3 + 6) [(2 ^ 3 + 6, .felt 8)]
      (some (Trie.prove freeAlg false false (some exTree) [true, true, false])) = .err :=
  ⟨verifyRange_alias rc n root k v P, by decide, by decide⟩

end Juno.C10.Regress
