import JunoModel.Common.Proto
import JunoModel.C10.Model
/-!
Line-protocol driver for the C10 model (`lake build c10drv`).

Requests (felts as hex without prefix, bit strings over `0`/`1`, `-` = empty):

* `vL <root> <keybits> <node>*` — `trie.VerifyProof` on a proof node set
* `v2 <trustCache 0|1><earlyValue 0|1> <root> <keybits> <node>*` — `trie2.VerifyProof`

`<node>` = `B:<sethash>:<child>:<child>:<cache>:<h2>` or `E:<sethash>:<pathbits>:<child>:<cache>:<h2>`
where `<sethash>` is the key under which the node sits in the set, `<child>` = `h<felt>` (hash
node) | `v<felt>` (value node) | `n` (nil), `<cache>` = cached node hash or `-`, and `<h2>` is the
real two-argument hash of the node's content evaluated by the harness (`H(left, right)` for a
binary node, `H(child, pathFelt)` for an edge node) — the model never computes Pedersen/Poseidon,
it looks the value up in the table built from these facts.

Answers: `ok <felt>` | `err:notfound` | `err:mismatch` | `err:keylen` | `err:earlyvalue` |
`err:fuel`; malformed request: `bad-op`.
-/
open Juno.Proto Juno.C10

def parseBits (s : String) : Option Path :=
  if s == "-" then some [] else
  s.toList.foldr (fun c acc => do
    let tl ← acc
    if c == '0' then pure (false :: tl) else if c == '1' then pure (true :: tl) else none) (some [])

def parseChild (s : String) : Option (Child Nat) :=
  match s.toList with
  | ['n'] => some ⟨.nil, 0⟩
  | 'h' :: rest => (hexToNat? (String.ofList rest)).map (fun v => ⟨.hash, v⟩)
  | 'v' :: rest => (hexToNat? (String.ofList rest)).map (fun v => ⟨.value, v⟩)
  | _ => none

def parseCache (s : String) : Option (Option Nat) :=
  if s == "-" then some none else (hexToNat? s).map some

def zeroAlg : HashAlg Nat := tableAlg []

/-- one node token ↦ (set key, node, table fact) -/
def parseNode (tok : String) : Option ((Nat × PNode Nat) × ((Nat × Nat) × Nat)) :=
  match tok.splitOn ":" with
  | ["B", k, l, r, c, h] => do
    let k ← hexToNat? k
    let l ← parseChild l
    let r ← parseChild r
    let c ← parseCache c
    let h ← hexToNat? h
    pure ((k, .bin l r c), ((l.felt zeroAlg, r.felt zeroAlg), h))
  | ["E", k, p, ch, c, h] => do
    let k ← hexToNat? k
    let p ← parseBits p
    let ch ← parseChild ch
    let c ← parseCache c
    let h ← hexToNat? h
    pure ((k, .edge p ch c), ((ch.felt zeroAlg, pathVal p), h))
  | _ => none

def parseNodes (toks : List String) : Option (PSet Nat × List ((Nat × Nat) × Nat)) :=
  toks.foldr (fun t acc => do
    let (ns, tbl) ← acc
    let (n, f) ← parseNode t
    pure (n :: ns, f :: tbl)) (some ([], []))

def showRes : Res Nat → String
  | .ok v => "ok " ++ natToHex v
  | .notFound => "err:notfound"
  | .mismatch => "err:mismatch"
  | .keyLen => "err:keylen"
  | .earlyValue => "err:earlyvalue"
  | .fuel => "err:fuel"

def parseCfg (s : String) : Option Cfg :=
  match s.toList with
  | [a, b] =>
    if (a == '0' || a == '1') && (b == '0' || b == '1') then some ⟨a == '1', b == '1'⟩ else none
  | _ => none

def step (s : Unit) (line : String) : Unit × String :=
  match words line with
  | "vL" :: root :: key :: nodes =>
    match hexToNat? root, parseBits key, parseNodes nodes with
    | some root, some key, some (ps, tbl) => (s, showRes (verifyL (tableAlg tbl) root key ps))
    | _, _, _ => (s, "bad-op")
  | "v2" :: cfg :: root :: key :: nodes =>
    match parseCfg cfg, hexToNat? root, parseBits key, parseNodes nodes with
    | some cfg, some root, some key, some (ps, tbl) =>
      (s, showRes (verify2 (tableAlg tbl) cfg root key ps))
    | _, _, _, _ => (s, "bad-op")
  | _ => (s, "bad-op")

def main : IO Unit := loop step ()
