import JunoModel.Common.Proto
import JunoModel.C10.Model
import JunoModel.C10.ModelR5
import JunoModel.C10.ModelR6
/-!
Line-protocol driver for the C10 model (`lake build c10drv`).

Requests (felts as hex without prefix, bit strings over `0`/`1`, `-` = empty):

* `vL <cfg> <root> <keybits> <node>*` — `trie.VerifyProof` on a proof node set
* `v2 <cfg> <root> <keybits> <node>*` — `trie2.VerifyProof`;
  `<cfg>` = five digits `<trustCache><earlyValue><zeroRoot><walkCollapsed><checkKey>` (`Cfg`), `00111` = the strict
  verifier; `<keybits>` may be prefixed with `+`: the key felt is then `2^height +` the bits' value

`<node>` = `B:<sethash>:<child>:<child>:<cache>:<h2>` or `E:<sethash>:<pathbits>:<child>:<cache>:<h2>`
where `<sethash>` is the key under which the node sits in the set, `<child>` = `h<felt>` (hash
node) | `v<felt>` (value node) | `n` (nil) | `e<felt>` (embedded node with cached hash) | `p<felt>` (embedded node
without cached hash; the felt is the hash `hasher.hash` computes for it), `<cache>` = cached node hash or `-`, and `<h2>` is the
real two-argument hash of the node's content evaluated by the harness (`H(left, right)` for a
binary node, `H(child, pathFelt)` for an edge node) — the model never computes Pedersen/Poseidon,
it looks the value up in the table built from these facts.

* `pv <legacy 0|1> <cached 0|1> <height> <keybits> <keybits=value>* | <a:b:h>*` — build the trie of
  the key/value set, answer `root <felt> get <felt> <node>*` with the nodes `Trie.prove` returns in
  order (`<node>` as above without the `<h2>` field); `a:b:h` are the real hash evaluations
  `H(a,b) = h` the harness computed with its reference root recursion.

* `r2 <rcfg> single <root> <keybits> <value> <node>*` — `trie2.VerifyRangeProof(root, key, [key], [value], proof)`;
  `r2 <rcfg> empty <root> <firstbits> <node>*` — `trie2.VerifyRangeProof(root, first, nil, nil, proof)`;
  `r2 <rcfg> multi <root> <firstbits> <keybits=value>* | <node>* | <a:b:h>*` — the general case (the
  last part: hash evaluations of the trie's own nodes, needed to rehash the rebuilt trie);
  `<rcfg>` = five digits `<checkHash><earlyValue><leafHash><zeroRoot><unsetLeaf>` (`RCfg`); answer `ok <more 0|1>` | `err`.

* `r2f <rcfg> <ck 0|1> <root> <firstkey> proof|noproof <key=value>* | <node>* | <a:b:h>*` — the WHOLE
  `trie2.VerifyRangeProof` (`verifyRange`): preamble, dispatch and key conversion are the model's; keys are
  felts (`<bits>` or `+<bits>` = `2^height +` the bits' value), `<ck>` = keys `≥ 2^height` are refused.

* `pr <legacy 0|1> <height> <leftbits> <rightbits> <keybits=value>* | <a:b:h>*` — `GetRangeProof(left, right)`
  (`rangeProve`) on the trie of the key/value set: answer `root <felt> <node>*` in the order of the set.
* `pm <legacy 0|1> <height> <keybits>(,<keybits>)* <keybits=value>* | <a:b:h>* | <node>*` — `Prove` of every key, in
  order, INTO ONE SET that already holds the given nodes (`proveInto`; the last part may be empty): answer
  `root <felt> <node>*` in the order of the set.
* `blk <latest|pre_confirmed|l1_accepted|number|hash> <number|hash|-> <height> <number the hash resolves to|->` —
  `isBlockSupported`; answer `ok` | `preconfirmed` | `notfound` | `notsupported`.
* `rpc <legacy 0|1> <height> <block id kind> <number|hash|-> <chain height> <resolved number|-> | <section>*` — the
  response of `Handler.StorageProof` (`isBlockSupported`, then `storageProof`).
  Sections (separated by `|`, first word = tag): `C <keybits=value>*` classes trie, `T <keybits=value>*` contracts
  trie, `I <addr:class:nonce>*` contracts that exist, `S <addr> <keybits=value>*` one storage trie,
  `Q <felt>*` requested classes, `A <felt>*` requested contracts, `K <addr|-> <felt>*` one entry of
  contracts_storage_keys (in request order), `FP <a:b:h>*` Pedersen evaluations, `FQ <a:b:h>*` Poseidon evaluations.
  Answer: `ok roots <contracts root> <classes root> cp <wnode>* np <wnode>* ld <n | class:nonce:storage root>*
  (sp <wnode>*)*` with `<wnode>` = `B:<hash>:<left>:<right>` | `E:<hash>:<pathbits>:<child>`, or
  `err:block:<class>` | `err:missing-contract` | `err:missing-keys`.

Answers of `vL`/`v2`: `ok <felt>` | `err:notfound` | `err:mismatch` | `err:keylen` | `err:earlyvalue` |
`err:fuel`; malformed request: `bad-op`.
-/
open Juno.Proto Juno.C10

def parseBits (s : String) : Option Path :=
  if s == "-" then some [] else
  s.toList.foldr (fun c acc => do
    let tl ← acc
    if c == '0' then pure (false :: tl) else if c == '1' then pure (true :: tl) else none) (some [])

def parseChild (s : String) : Option (Child Nat) :=
  match s.toList with
  | ['n'] => some ⟨.nil, 0⟩
  | 'h' :: rest => (hexToNat? (String.ofList rest)).map (fun v => ⟨.hash, v⟩)
  | 'v' :: rest => (hexToNat? (String.ofList rest)).map (fun v => ⟨.value, v⟩)
  | 'e' :: rest => (hexToNat? (String.ofList rest)).map (fun v => ⟨.embCached, v⟩)
  | 'p' :: rest => (hexToNat? (String.ofList rest)).map (fun v => ⟨.embPlain, v⟩)
  | _ => none

def parseCache (s : String) : Option (Option Nat) :=
  if s == "-" then some none else (hexToNat? s).map some

def zeroAlg : HashAlg Nat := tableAlg []

/-- one node token ↦ (set key, node, table fact) -/
def parseNode (tok : String) : Option ((Nat × PNode Nat) × ((Nat × Nat) × Nat)) :=
  match tok.splitOn ":" with
  | ["B", k, l, r, c, h] => do
    let k ← hexToNat? k
    let l ← parseChild l
    let r ← parseChild r
    let c ← parseCache c
    let h ← hexToNat? h
    pure ((k, .bin l r c), ((l.felt zeroAlg, r.felt zeroAlg), h))
  | ["E", k, p, ch, c, h] => do
    let k ← hexToNat? k
    let p ← parseBits p
    let ch ← parseChild ch
    let c ← parseCache c
    let h ← hexToNat? h
    pure ((k, .edge p ch c), ((ch.felt zeroAlg, pathVal p), h))
  | _ => none

/-- `OrderedSet.Put` replaces the node stored under an existing key: of several entries with one key
the LAST one is the node of the set (`PSet.get` takes the first match of the list). -/
def dedupLast (ns : PSet Nat) : PSet Nat :=
  ns.foldr (fun e acc => if acc.any (fun x => x.1 == e.1) then acc else e :: acc) []

def parseNodes (toks : List String) : Option (PSet Nat × List ((Nat × Nat) × Nat)) :=
  (toks.foldr (fun t acc => do
    let (ns, tbl) ← acc
    let (n, f) ← parseNode t
    pure (n :: ns, f :: tbl)) (some ([], []))).map (fun (ns, tbl) => (dedupLast ns, tbl))

def showRes : Res Nat → String
  | .ok v => "ok " ++ natToHex v
  | .notFound => "err:notfound"
  | .mismatch => "err:mismatch"
  | .keyLen => "err:keylen"
  | .earlyValue => "err:earlyvalue"
  | .badKey => "err:badkey"
  | .fuel => "err:fuel"

def showRRes : RRes → String
  | .ok true => "ok 1"
  | .ok false => "ok 0"
  | .err => "err"

/-- a key: `<bits>` = the felt with these bits (height = number of bits), `+<bits>` = that felt + 2^height -/
def parseKey (s : String) : Option (Nat × Nat) :=
  match s.toList with
  | '+' :: rest => (parseBits (String.ofList rest)).map (fun p => (p.length, 2 ^ p.length + pathVal p))
  | _ => (parseBits s).map (fun p => (p.length, pathVal p))

def parseCfg (s : String) : Option Cfg :=
  match s.toList with
  | [a, b, c, d, e] =>
    if [a, b, c, d, e].all (fun x => x == '0' || x == '1') then
      some ⟨a == '1', b == '1', c == '1', d == '1', e == '1'⟩
    else none
  | _ => none

def parseKV (tok : String) : Option (Path × Nat) :=
  match tok.splitOn "=" with
  | [k, v] => do
    let k ← parseBits k
    let v ← hexToNat? v
    pure (k, v)
  | _ => none

def parseFact (tok : String) : Option ((Nat × Nat) × Nat) :=
  match tok.splitOn ":" with
  | [a, b, h] => do
    let a ← hexToNat? a
    let b ← hexToNat? b
    let h ← hexToNat? h
    pure ((a, b), h)
  | _ => none

def parseAll {α : Type} (f : String → Option α) (toks : List String) : Option (List α) :=
  toks.foldr (fun t acc => do
    let xs ← acc
    let x ← f t
    pure (x :: xs)) (some [])

def showBits (p : Path) : String :=
  if p.isEmpty then "-" else String.ofList (p.map (fun b => if b then '1' else '0'))

def showChild (c : Child Nat) : String :=
  match c.tag with
  | .nil => "n"
  | .hash => "h" ++ natToHex c.h
  | .value => "v" ++ natToHex c.h

def showCache : Option Nat → String
  | none => "-"
  | some h => natToHex h

def showNode (e : Nat × PNode Nat) : String :=
  match e.2 with
  | .bin l r c => "B:" ++ natToHex e.1 ++ ":" ++ showChild l ++ ":" ++ showChild r ++ ":" ++ showCache c
  | .edge p ch c => "E:" ++ natToHex e.1 ++ ":" ++ showBits p ++ ":" ++ showChild ch ++ ":" ++ showCache c

def splitAtBar (toks : List String) : List String × List String :=
  (toks.takeWhile (· != "|"), (toks.dropWhile (· != "|")).drop 1)

def parseRCfg (s : String) : Option RCfg :=
  match s.toList with
  | [a, b, c, d, e] =>
    if [a, b, c, d, e].all (fun x => x == '0' || x == '1') then
      some ⟨a == '1', b == '1', c == '1', d == '1', e == '1'⟩
    else none
  | _ => none

def tableFind (tbl : List ((Nat × Nat) × Nat)) (a b : Nat) : Option Nat :=
  (tbl.find? (fun e => e.1.1 == a && e.1.2 == b)).map (·.2)

/-- the hash of a partial trie under the table, or the hash evaluations `(a, b)` that are missing (only
those whose arguments are already known) -/
def ptNeed (tbl : List ((Nat × Nat) × Nat)) : PT Nat → List (Nat × Nat) × Nat
  | .nil => ([], 0)
  | .hash h => ([], h)
  | .leaf v => ([], v)
  | .bin l r =>
    let (ml, hl) := ptNeed tbl l
    let (mr, hr) := ptNeed tbl r
    if !ml.isEmpty || !mr.isEmpty then (ml ++ mr, noFelt)
    else match tableFind tbl hl hr with
      | some h => ([], h)
      | none => ([(hl, hr)], noFelt)
  | .edge p c =>
    let (mc, hc) := ptNeed tbl c
    if !mc.isEmpty then (mc, noFelt)
    else match tableFind tbl hc (pathVal p) with
      | some h => ([], (h + p.length) % feltPrime)
      | none => ([(hc, pathVal p)], noFelt)

/-- the rebuilt trie of `verifyMulti` (its preamble, the two resolutions and `fill`), for `r2need` -/
def multiTrie (A : HashAlg Nat) (rc : RCfg) (root : Nat) (first : Path) (kvs : List (Path × Nat))
    (P : PSet Nat) : Option (PT Nat) :=
  match kvs.getLast? with
  | none => none
  | some lastKV =>
    if kvs.any (fun kv => decide (kv.2 = A.zero)) || !keysNonDecreasing kvs || !pathLt first lastKV.1 then none
    else
      match resolvePT A rc P (2 * verifyFuel) (.hash root) first with
      | none => none
      | some t1 =>
        match resolvePT A rc P (2 * verifyFuel) t1 lastKV.1 with
        | none => none
        | some t2 => fill A rc t2 (.at first) (.at lastKV.1) first.length false kvs

/-- split a token list at every `|` -/
def sections (toks : List String) : List (List String) :=
  toks.foldr (fun t acc => match acc with
    | [] => if t == "|" then [[], []] else [[t]]
    | cur :: rest => if t == "|" then [] :: cur :: rest else (t :: cur) :: rest) [[]]

def showBlk : BlkRes → String
  | .ok => "ok"
  | .callOnPreConfirmed => "preconfirmed"
  | .blockNotFound => "notfound"
  | .notSupported => "notsupported"

def parseBlk : String → Option BlkRes
  | "ok" => some .ok
  | "preconfirmed" => some .callOnPreConfirmed
  | "notfound" => some .blockNotFound
  | "notsupported" => some .notSupported
  | _ => none

def showWNode (e : Nat × WNode Nat) : String :=
  match e.2 with
  | .bin l r => "B:" ++ natToHex e.1 ++ ":" ++ natToHex l ++ ":" ++ natToHex r
  | .edge p c => "E:" ++ natToHex e.1 ++ ":" ++ showBits p ++ ":" ++ natToHex c

def showLeaf : Option (Leaf Nat) → String
  | none => "n"
  | some l => natToHex l.cls ++ ":" ++ natToHex l.nonce ++ ":" ++ natToHex l.sroot

structure RpcIn where
  classes : List (Path × Nat) := []
  contracts : List (Path × Nat) := []
  info : List (Nat × CInfo Nat) := []
  storage : List (Nat × List (Path × Nat)) := []
  q : List Nat := []
  a : List Nat := []
  k : List SK := []
  fp : List ((Nat × Nat) × Nat) := []
  fq : List ((Nat × Nat) × Nat) := []

def parseInfo (tok : String) : Option (Nat × CInfo Nat) :=
  match tok.splitOn ":" with
  | [a, c, n] => do
    let a ← hexToNat? a
    let c ← hexToNat? c
    let n ← hexToNat? n
    pure (a, ⟨c, n⟩)
  | _ => none

def parseRpcSection (inp : RpcIn) (sec : List String) : Option RpcIn :=
  match sec with
  | [] => some inp
  | "C" :: rest => (parseAll parseKV rest).map (fun x => { inp with classes := x })
  | "T" :: rest => (parseAll parseKV rest).map (fun x => { inp with contracts := x })
  | "I" :: rest => (parseAll parseInfo rest).map (fun x => { inp with info := x })
  | "S" :: addr :: rest => do
    let a ← hexToNat? addr
    let kvs ← parseAll parseKV rest
    pure { inp with storage := inp.storage ++ [(a, kvs)] }
  | "Q" :: rest => (parseAll hexToNat? rest).map (fun x => { inp with q := x })
  | "A" :: rest => (parseAll hexToNat? rest).map (fun x => { inp with a := x })
  | "K" :: addr :: rest => do
    let c ← if addr == "-" then some none else (hexToNat? addr).map some
    let ks ← parseAll hexToNat? rest
    pure { inp with k := inp.k ++ [⟨c, ks⟩] }
  | "FP" :: rest => (parseAll parseFact rest).map (fun x => { inp with fp := x })
  | "FQ" :: rest => (parseAll parseFact rest).map (fun x => { inp with fq := x })
  | _ => none

def rpcAnswer (legacy : Bool) (h : Nat) (blk : BlkRes) (inp : RpcIn) : String :=
  let st : RState Nat := {
    classes := build h inp.classes
    contracts := build h inp.contracts
    info := fun a => (inp.info.find? (fun e => e.1 == a)).map (·.2)
    storageOf := fun a => match inp.storage.find? (fun e => e.1 == a) with
      | some e => build h e.2
      | none => none }
  match storageProof (tableAlg inp.fq) (tableAlg inp.fp) legacy h st blk inp.q inp.a inp.k with
  | .block e => "err:block:" ++ showBlk e
  | .missingContract => "err:missing-contract"
  | .missingKeys => "err:missing-keys"
  | .ok r =>
    "ok roots " ++ natToHex r.contractsRoot ++ " " ++ natToHex r.classesRoot ++
      " cp" ++ String.join (r.classesProof.map (fun e => " " ++ showWNode e)) ++
      " np" ++ String.join (r.contractsProof.map (fun e => " " ++ showWNode e)) ++
      " ld" ++ String.join (r.leaves.map (fun l => " " ++ showLeaf l)) ++
      String.join (r.storageProofs.map (fun w => " sp" ++ String.join (w.map (fun e => " " ++ showWNode e))))

def parseBlockId (kind arg : String) : Option BlockId :=
  match kind with
  | "latest" => some .latest
  | "pre_confirmed" => some .preConfirmed
  | "l1_accepted" => some .l1Accepted
  | "number" => arg.toNat?.map .number
  | "hash" => (hexToNat? arg).map .hash
  | _ => none

/-- the number `BlockNumberByHash` gives for the hash of the request: `-` = not found -/
def parseResolved (s : String) : Option (Option Nat) :=
  if s == "-" then some none else s.toNat?.map some

def step (s : Unit) (line : String) : Unit × String :=
  match words line with
  | "vL" :: cfg :: root :: key :: nodes =>
    match parseCfg cfg, hexToNat? root, parseKey key, parseNodes nodes with
    | some cfg, some root, some (h, key), some (ps, tbl) =>
      (s, showRes (verifyLFelt (tableAlg tbl) cfg h root key ps))
    | _, _, _, _ => (s, "bad-op")
  | "v2" :: cfg :: root :: key :: nodes =>
    match parseCfg cfg, hexToNat? root, parseKey key, parseNodes nodes with
    | some cfg, some root, some (h, key), some (ps, tbl) =>
      (s, showRes (verify2Felt (tableAlg tbl) cfg h root key ps))
    | _, _, _, _ => (s, "bad-op")
  | "v2w" :: cfg :: root :: key :: nodes =>
    match parseCfg cfg, hexToNat? root, parseKey key, parseNodes nodes with
    | some cfg, some root, some (h, key), some (ps, tbl) =>
      (s, showRes (verify2WFelt (tableAlg tbl) cfg h root key ps))
    | _, _, _, _ => (s, "bad-op")
  | "r2" :: cfg :: "single" :: root :: key :: value :: nodes =>
    match parseRCfg cfg, hexToNat? root, parseBits key, hexToNat? value, parseNodes nodes with
    | some f, some root, some key, some value, some (ps, tbl) =>
      (s, showRRes (verifySingle (tableAlg tbl) f root key value ps))
    | _, _, _, _, _ => (s, "bad-op")
  | "r2" :: cfg :: "empty" :: root :: first :: nodes =>
    match parseRCfg cfg, hexToNat? root, parseBits first, parseNodes nodes with
    | some f, some root, some first, some (ps, tbl) =>
      (s, showRRes (verifyEmpty (tableAlg tbl) f root first ps))
    | _, _, _, _ => (s, "bad-op")
  | "r2" :: "all" :: root :: height :: rest =>
    let (kvToks, factToks) := splitAtBar rest
    match hexToNat? root, height.toNat?, parseAll parseKV kvToks, parseAll parseFact factToks with
    | some root, some h, some kvs, some facts => (s, showRRes (verifyAll (tableAlg facts) root h kvs))
    | _, _, _, _ => (s, "bad-op")
  | "r2need" :: cfg :: "multi" :: root :: first :: rest =>
    let (kvToks, rest2) := splitAtBar rest
    let (nodeToks, factToks) := splitAtBar rest2
    match parseRCfg cfg, hexToNat? root, parseBits first, parseAll parseKV kvToks, parseNodes nodeToks,
        parseAll parseFact factToks with
    | some f, some root, some first, some kvs, some (ps, tbl), some facts =>
      let all := tbl ++ facts
      match multiTrie (tableAlg all) f root first kvs ps with
      | none => (s, "none")
      | some t =>
        let need := (ptNeed all t).1.eraseDups
        if need.isEmpty then (s, "none")
        else (s, "need" ++ String.join (need.map (fun (a, b) => " " ++ natToHex a ++ ":" ++ natToHex b)))
    | _, _, _, _, _, _ => (s, "bad-op")
  | "r2" :: cfg :: "multi" :: root :: first :: rest =>
    let (kvToks, rest2) := splitAtBar rest
    let (nodeToks, factToks) := splitAtBar rest2
    match parseRCfg cfg, hexToNat? root, parseBits first, parseAll parseKV kvToks, parseNodes nodeToks,
        parseAll parseFact factToks with
    | some f, some root, some first, some kvs, some (ps, tbl), some facts =>
      (s, showRRes (verifyMulti (tableAlg (tbl ++ facts)) f root first kvs ps))
    | _, _, _, _, _, _ => (s, "bad-op")
  | ["blk", kind, arg, height, resolved] =>
    match parseBlockId kind arg, height.toNat?, parseResolved resolved with
    | some id, some h, some res => (s, showBlk (isBlockSupported id h (fun _ => res)))
    | _, _, _ => (s, "bad-op")
  | "rpc" :: legacy :: height :: kind :: arg :: chainHeight :: resolved :: rest =>
    match height.toNat?, parseBlockId kind arg, chainHeight.toNat?, parseResolved resolved,
        (sections rest).foldl (fun acc sec => acc.bind (fun i => parseRpcSection i sec)) (some {}) with
    | some h, some id, some ch, some res, some inp =>
      if legacy != "0" && legacy != "1" then (s, "bad-op")
      else (s, rpcAnswer (legacy == "1") h (isBlockSupported id ch (fun _ => res)) inp)
    | _, _, _, _, _ => (s, "bad-op")
  | "pr" :: legacy :: height :: left :: right :: rest =>
    let (kvToks, factToks) := splitAtBar rest
    match height.toNat?, parseBits left, parseBits right, parseAll parseKV kvToks, parseAll parseFact factToks with
    | some h, some l, some r, some kvs, some tbl =>
      if legacy != "0" && legacy != "1" then (s, "bad-op") else
      let A := tableAlg tbl
      let t : Trie Nat := build h kvs
      let ps := rangeProve A (legacy == "1") h t (pathVal l) (pathVal r)
      (s, "root " ++ natToHex (t.hash A) ++ String.join (ps.map (fun e => " " ++ showNode e)))
    | _, _, _, _, _ => (s, "bad-op")
  | "pm" :: legacy :: height :: keys :: rest =>
    let (kvToks, rest2) := splitAtBar rest
    let (factToks, nodeToks) := splitAtBar rest2
    match height.toNat?, parseAll parseBits (keys.splitOn ","), parseAll parseKV kvToks, parseAll parseFact factToks,
        parseNodes nodeToks with
    | some h, some ks, some kvs, some facts, some (pre, tbl) =>
      if legacy != "0" && legacy != "1" then (s, "bad-op") else
      let A := tableAlg (facts ++ tbl)
      let t : Trie Nat := build h kvs
      let ps := proveInto A (legacy == "1") h t pre (ks.map pathVal)
      (s, "root " ++ natToHex (t.hash A) ++ String.join (ps.map (fun e => " " ++ showNode e)))
    | _, _, _, _, _ => (s, "bad-op")
  | "r2f" :: cfg :: ck :: root :: first :: mode :: rest =>
    let (kvToks, rest2) := splitAtBar rest
    let (nodeToks, factToks) := splitAtBar rest2
    let parseFKV : String → Option (Nat × Nat) := fun tok =>
      match tok.splitOn "=" with
      | [k, v] => do
        let (_, k) ← parseKey k
        let v ← hexToNat? v
        pure (k, v)
      | _ => none
    match parseRCfg cfg, hexToNat? root, parseKey first, parseAll parseFKV kvToks, parseNodes nodeToks,
        parseAll parseFact factToks with
    | some f, some root, some (h, first), some kvs, some (ps, tbl), some facts =>
      if (ck != "0" && ck != "1") || (mode != "proof" && mode != "noproof") then (s, "bad-op")
      else
        (s, showRRes (verifyRange (tableAlg (tbl ++ facts)) f (ck == "1") h root first kvs
          (if mode == "proof" then some ps else none)))
    | _, _, _, _, _, _ => (s, "bad-op")
  | "pv" :: legacy :: cached :: height :: key :: rest =>
    let (kvToks, factToks) := splitAtBar rest
    match parseCfg (legacy ++ cached ++ "000"), height.toNat?, parseBits key, parseAll parseKV kvToks,
        parseAll parseFact factToks with
    | some f, some h, some key, some kvs, some tbl =>
      let A := tableAlg tbl
      let t : Trie Nat := build h kvs
      let ps := t.prove A f.trustCache f.earlyValue key
      (s, "root " ++ natToHex (t.hash A) ++ " get " ++ natToHex (t.get A key) ++
        String.join (ps.map (fun e => " " ++ showNode e)))
    | _, _, _, _, _ => (s, "bad-op")
  | _ => (s, "bad-op")

def main : IO Unit := loop step ()
