import JunoModel.C10.Proofs
import JunoModel.C10.ProofsR5
import JunoModel.C10.ModelR6
/-!
C10, round 6 — lemmas for `Prove` into an existing set.

1. Monotonicity of both verifiers in the node set: they read the set only through `Get`, so a set that returns
   at least what another returns accepts at least what the other accepts, with the same value.
2. `osPut` / `putAll` (= `OrderedSet.Put` of a whole proof) as lookups.
3. Completeness of `proveOneInto` / `proveInto` whatever the set held before.
-/
namespace Juno.C10

variable {H : Type} [DecidableEq H] {A : HashAlg H}

/-- `Q` returns at least what `P` returns (a superset in the sense that matters to a verifier) -/
def PSet.Extends (Q P : PSet H) : Prop := ∀ h nd, P.get h = some nd → Q.get h = some nd

theorem verifyLAux_mono {P Q : PSet H} (hPQ : Q.Extends P) (key : Path) :
    ∀ (fuel : Nat) (e : H) (pos : Nat) (v : H),
      verifyLAux A P key fuel e pos = Res.ok v → verifyLAux A Q key fuel e pos = Res.ok v := by
  intro fuel
  induction fuel with
  | zero => intro e pos v h; simp [verifyLAux] at h
  | succ f ih =>
    intro e pos v h
    cases hg : P.get e with
    | none => simp [verifyLAux, hg] at h
    | some node =>
      have hq := hPQ e node hg
      simp only [verifyLAux, hg] at h
      simp only [verifyLAux, hq]
      split at h
      · cases h
      · rename_i hh
        simp only [hh, if_false]
        cases node with
        | bin l r c =>
          simp only at h ⊢
          split at h
          · cases h
          · rename_i h1
            simp only [h1, if_false]
            split at h
            · rename_i h2
              simp only [h2, if_true]
              exact h
            · rename_i h2
              simp only [h2, if_false]
              exact ih _ _ _ h
        | edge p ch c =>
          simp only at h ⊢
          split at h
          · rename_i h1
            simp only [h1, if_true]
            exact h
          · rename_i h1
            simp only [h1]
            split at h
            · rename_i h2
              simp only [h2, if_true]
              exact h
            · rename_i h2
              simp only [h2, if_false]
              exact ih _ _ _ h

theorem verifyL_mono {P Q : PSet H} (hPQ : Q.Extends P) (cfg : Cfg) (root : H) (key : Path) (v : H)
    (h : verifyL A cfg root key P = Res.ok v) : verifyL A cfg root key Q = Res.ok v := by
  unfold verifyL at h ⊢
  split at h
  · rename_i hz
    simp only [hz, if_true]
    exact h
  · rename_i hz
    simp only [hz]
    exact verifyLAux_mono hPQ key _ _ _ _ h

theorem verify2Aux_mono {P Q : PSet H} (hPQ : Q.Extends P) (cfg : Cfg) :
    ∀ (fuel : Nat) (e : H) (key : Path) (v : H),
      verify2Aux A cfg P fuel e key = Res.ok v → verify2Aux A cfg Q fuel e key = Res.ok v := by
  intro fuel
  induction fuel with
  | zero => intro e key v h; simp [verify2Aux] at h
  | succ f ih =>
    intro e key v h
    cases hg : P.get e with
    | none => simp [verify2Aux, hg] at h
    | some node =>
      have hq := hPQ e node hg
      simp only [verify2Aux, hg] at h
      simp only [verify2Aux, hq]
      split at h
      · cases h
      · rename_i hh
        simp only [hh, if_false]
        cases hs : step2 node key with
        | mk oc key' =>
          rw [hs] at h
          cases oc with
          | none => simpa using h
          | some c =>
            simp only at h ⊢
            split at h
            · rename_i h1
              simp only [h1, if_true]
              exact ih _ _ _ h
            · rename_i h1
              simp only [h1]
              split at h
              · rename_i h2
                simp only [h2, if_true]
                exact ih _ _ _ h
              · rename_i h2
                simp only [h2]
                cases ht : c.tag with
                | nil => rw [ht] at h; simpa using h
                | value => rw [ht] at h; simpa using h
                | hash =>
                  rw [ht] at h
                  simp only at h ⊢
                  split at h
                  · rename_i h3
                    simp only [h3, if_true]
                    exact h
                  · rename_i h3
                    simp only [h3, if_false]
                    exact ih _ _ _ h

theorem verify2_mono {P Q : PSet H} (hPQ : Q.Extends P) (cfg : Cfg) (root : H) (key : Path) (v : H)
    (h : verify2 A cfg root key P = Res.ok v) : verify2 A cfg root key Q = Res.ok v := by
  unfold verify2 at h ⊢
  split at h
  · rename_i hz
    simp only [hz, if_true]
    exact h
  · rename_i hz
    simp only [hz]
    exact verify2Aux_mono hPQ cfg _ _ _ _ h

/-! ### `OrderedSet.Put` as a lookup -/

theorem osPut_get_self (s : PSet H) (k : H) (v : PNode H) : (osPut s k v).get k = some v := by
  unfold osPut
  split
  · rename_i hany
    induction s with
    | nil => simp at hany
    | cons x xs ih =>
      obtain ⟨xk, xn⟩ := x
      by_cases hx : xk = k
      · simp [PSet.get, hx]
      · have hany' : xs.any (fun e => decide (e.1 = k)) = true := by
          simpa [List.any_cons, hx] using hany
        simp only [List.map_cons, hx, if_false, PSet.get]
        exact ih hany'
  · rename_i hany
    induction s with
    | nil => simp [PSet.get]
    | cons x xs ih =>
      obtain ⟨xk, xn⟩ := x
      have hx : xk ≠ k := by
        intro heq
        apply hany
        simp [List.any_cons, heq]
      have hany' : ¬ xs.any (fun e => decide (e.1 = k)) = true := by
        intro h'
        apply hany
        simp only [List.any_cons, h', Bool.or_true]
      simp only [List.cons_append, PSet.get, hx, if_false]
      exact ih hany'

theorem map_put_get_other (s : PSet H) (k h : H) (v : PNode H) (hne : h ≠ k) :
    PSet.get (s.map (fun e => if e.1 = k then (k, v) else e)) h = s.get h := by
  induction s with
  | nil => rfl
  | cons x xs ih =>
    obtain ⟨xk, xn⟩ := x
    by_cases hx : xk = k
    · subst hx
      have : xk ≠ h := fun e => hne e.symm
      simp [PSet.get, this, ih]
    · by_cases hxh : xk = h
      · subst hxh
        simp [PSet.get, hx]
      · simp [PSet.get, hx, hxh, ih]

theorem osPut_get_other (s : PSet H) (k h : H) (v : PNode H) (hne : h ≠ k) : (osPut s k v).get h = s.get h := by
  unfold osPut
  split
  · exact map_put_get_other s k h v hne
  · rw [PSet.get_append]
    cases s.get h with
    | some n => rfl
    | none =>
      have : k ≠ h := fun e => hne e.symm
      simp [PSet.get, this]

theorem putAll_get_notkey {es : PSet H} : ∀ {s : PSet H} {h : H}, (∀ e ∈ es, e.1 ≠ h) →
    (putAll s es).get h = s.get h := by
  induction es with
  | nil => intro s h _; rfl
  | cons x xs ih =>
    intro s h hk
    simp only [putAll, List.foldl_cons]
    have h1 := ih (s := osPut s x.1 x.2) (h := h) (fun e he => hk e (List.mem_cons_of_mem _ he))
    simp only [putAll] at h1
    rw [h1]
    exact osPut_get_other s x.1 h x.2 (fun e => hk x (by simp) e.symm)

/-- a proof whose nodes have pairwise different keys, `Put` into ANY set: every one of its nodes is then what the
set returns for its key -/
theorem putAll_get_of_pairwise {es : PSet H} (hp : es.Pairwise (fun a b => a.1 ≠ b.1)) :
    ∀ {s : PSet H}, ∀ e ∈ es, (putAll s es).get e.1 = some e.2 := by
  induction es with
  | nil => intro s e he; simp at he
  | cons x xs ih =>
    intro s e he
    rw [List.pairwise_cons] at hp
    simp only [putAll, List.foldl_cons]
    rcases List.mem_cons.mp he with h1 | h1
    · subst h1
      have h2 := putAll_get_notkey (es := xs) (s := osPut s e.1 e.2) (h := e.1)
        (fun y hy heq => hp.1 y hy heq.symm)
      simp only [putAll] at h2
      rw [h2]
      exact osPut_get_self s e.1 e.2
    · have h2 := ih hp.2 (s := osPut s x.1 x.2) e h1
      simpa only [putAll] using h2

theorem proveOneInto_eq (legacy : Bool) (n : Nat) (t : Trie H) (s : PSet H) (k : Nat) :
    proveOneInto A legacy n t s k = putAll s (Trie.prove A legacy false t (pathOfNat n k)) := rfl

/-- ONE `Prove(k, set)` into a set with ARBITRARY content (`hac`: the nodes of one path have different hashes):
afterwards the set returns every node of the proof of `k` for its hash -/
theorem proveOneInto_lookup (hac : Acyclic A) (legacy : Bool) (n : Nat) (s : Tree H) (s0 : PSet H) (k : Nat) :
    ∀ nd ∈ s.proveNodes A legacy false (pathOfNat n k),
      (proveOneInto A legacy n (some s) s0 k).get (nd.hash A) = some nd := by
  intro nd hnd
  rw [proveOneInto_eq]
  obtain ⟨rank, hb, he⟩ := hac
  have hpw := (proveNodes_rank (A := A) rank hb he legacy false s (pathOfNat n k)).2
  have hp : (Trie.prove A legacy false (some s) (pathOfNat n k)).Pairwise (fun a b => a.1 ≠ b.1) := by
    simp only [Trie.prove, toPSet]
    rw [List.pairwise_map]
    exact hpw.imp (fun h heq => by simp only at heq; rw [heq] at h; exact Nat.lt_irrefl _ h)
  exact putAll_get_of_pairwise hp (nd.hash A, nd) (List.mem_map.mpr ⟨nd, hnd, rfl⟩)

/-- `proveInto`: every entry of the result was in the set before or is an entry of one of the proofs; every key
that was in the set stays; the hash of every node of every proof is a key afterwards -/
theorem proveInto_spec (legacy : Bool) (n : Nat) (t : Trie H) :
    ∀ (keys : List Nat) (s : PSet H),
      (∀ e ∈ proveInto A legacy n t s keys, e ∈ s ∨ ∃ k ∈ keys, e ∈ Trie.prove A legacy false t (pathOfNat n k)) ∧
      (∀ h, s.hasKey h → (proveInto A legacy n t s keys).hasKey h) ∧
      (∀ k ∈ keys, ∀ e ∈ Trie.prove A legacy false t (pathOfNat n k),
        (proveInto A legacy n t s keys).hasKey e.1) := by
  intro ks
  induction ks with
  | nil =>
    intro s
    exact ⟨fun e he => Or.inl he, fun h hs => hs, fun k hk => by simp at hk⟩
  | cons k ks ih =>
    intro s
    simp only [proveInto, List.foldl_cons]
    obtain ⟨i1, i2, i3⟩ := ih (proveOneInto A legacy n t s k)
    simp only [proveInto] at i1 i2 i3
    refine ⟨?_, ?_, ?_⟩
    · intro e he
      rcases i1 e he with h | ⟨k', hk', hm⟩
      · rw [proveOneInto_eq] at h
        rcases putAll_mem h with h' | h'
        · exact Or.inl h'
        · exact Or.inr ⟨k, by simp, h'⟩
      · exact Or.inr ⟨k', List.mem_cons_of_mem _ hk', hm⟩
    · intro h hs
      exact i2 h (by rw [proveOneInto_eq]; exact putAll_hasKey_mono hs)
    · intro k' hk' e he
      rcases List.mem_cons.mp hk' with h | h
      · subst h
        exact i2 _ (by rw [proveOneInto_eq]; exact putAll_hasKey_new he)
      · exact i3 k' h e he

/-- `proveAll` is `proveInto` the empty set -/
theorem proveAll_eq_proveInto (legacy : Bool) (n : Nat) (t : Trie H) (keys : List Nat) :
    proveAll A legacy n t keys = proveInto A legacy n t [] keys := rfl

end Juno.C10
