import JunoModel.C10.Model
/-!
C10, round 5 — more of the code inside the model (core Lean only, linked into `c10drv`).

1. `verifyRange`: the exported `trie2.VerifyRangeProof` (core/trie2/proof.go:286) AS A WHOLE, on keys given
   as felts: the preamble `verifyProofData` (felt order, non-zero values), the dispatch on `proof == nil` /
   `len(keys) == 0` / one key equal to `first` / `last.Cmp(first) <= 0`, and the conversion of every key
   with `SetFelt(251, ·)` / `FeltToPath` (keeps the low bits).  Until now the harness chose the case and
   converted the keys.
2. The assembly of a `starknet_getStorageProof` response (rpc/v8, v9, v10 `storage.go`): `utils.Set`,
   `processStorageKeys`, `OrderedSet.Put`, the three proof builders, `buildContractLeavesData`, the wire
   nodes (`adaptTrieProofNodes` / `adaptDeprecatedTrieProofNodes`) and `isBlockSupported`.
3. `GetRangeProof` of both tries (`rangeProve`) and the encoding of an edge path on the wire
   (`encodePath` / `decodePath` = `Path.Felt()`, `Path.Len()` / `EdgeNode.AsProofNode`).
-/
namespace Juno.C10

variable {H : Type}

/-! ### 1. `trie2.VerifyRangeProof`, the whole exported function, keys as felts -/

/-- `keys[i].Cmp(keys[i+1]) > 0` nowhere: the felts are non-decreasing (as numbers, NOT as 251-bit paths) -/
def feltKeysMonotonic : List (Nat × H) → Bool
  | a :: b :: rest => decide (a.1 ≤ b.1) && feltKeysMonotonic (b :: rest)
  | _ => true

/-- `VerifyRangeProof(rootHash, first, keys, values, proof)`; `proof = none` is Go's `proof == nil`.
`checkKey` = the variant of the code: `true` = `first` and every key are refused when they are `2^height` or
more (the proposed repair, as 616d4a4 did for `VerifyProof`); `false` = /repo as it is: `SetFelt(251, key)` /
`FeltToPath` silently keep the low 251 bits.
The four cases call the path-level functions of `Model.lean`.  `verifyAll` / `verifyMulti` re-check the order
of the PATHS, which for keys below `2^height` is the order of the felts; for `checkKey = false` and a key
`≥ 2^height` in the general case the real code goes on with paths that are not increasing (outside the
domain of `fill`: it panics when the two paths coincide and otherwise rebuilds with `left > right`) — the
harness does not compare the model there and the oracle alone decides. -/
def verifyRange [DecidableEq H] (A : HashAlg H) (rc : RCfg) (checkKey : Bool) (height : Nat) (root : H)
    (first : Nat) (kvs : List (Nat × H)) (proof : Option (PSet H)) : RRes :=
  -- verifyProofData
  if !feltKeysMonotonic kvs then .err
  else if kvs.any (fun kv => decide (kv.2 = A.zero)) then .err
  else if checkKey && (decide (2 ^ height ≤ first) || kvs.any (fun kv => decide (2 ^ height ≤ kv.1))) then .err
  else
    let pf := pathOfNat height first
    let pk := kvs.map (fun kv => (pathOfNat height kv.1, kv.2))
    match proof with
    | none => verifyAll A root height pk
    | some P =>
      match kvs.getLast? with
      | none => verifyEmpty A rc root pf P
      | some lastKV =>
        if kvs.length = 1 ∧ first = lastKV.1 then verifySingle A rc root pf lastKV.2 P
        else if lastKV.1 ≤ first then .err
        else verifyMulti A rc root pf pk P

/-- the value the claimed entries give to the felt key `k`: the last entry with that key -/
def lastValF (kvs : List (Nat × H)) (k : Nat) : Option H :=
  ((kvs.filter (fun kv => kv.1 = k)).getLast?).map (·.2)

/-! ### 2. `starknet_getStorageProof`: how the response is put together (rpc/v8, v9, v10 `storage.go`) -/

/-- `utils.Set`: the first occurrence of every element, order kept (`result`/`seen` loop) -/
def setOf {α : Type} [DecidableEq α] (xs : List α) : List α :=
  xs.foldl (fun acc e => if e ∈ acc then acc else acc ++ [e]) []

/-- one entry of `contracts_storage_keys`; `contract = none` is a nil `Contract` pointer -/
structure SK where
  contract : Option Nat
  keys : List Nat
  deriving Repr, DecidableEq

inductive PSKRes where
  | ok (unique : List (Nat × List Nat))
  | missingContract     -- InvalidParams "missing field: contract_address"
  | missingKeys         -- InvalidParams "missing field: storage_keys"
  deriving Repr, DecidableEq

/-- the loop of `processStorageKeys`; `acc` = `uniqueStorageKeys` (`position[contract]` is the index of the
entry of `acc` with that contract: the contracts of `acc` are distinct) -/
def pskLoop : List SK → List (Nat × List Nat) → PSKRes
  | [], acc => .ok (acc.map (fun e => (e.1, setOf e.2)))
  | sk :: rest, acc =>
    match sk.contract with
    | none => .missingContract
    | some c =>
      if sk.keys.isEmpty then .missingKeys
      else if acc.any (fun e => e.1 == c) then
        pskLoop rest (acc.map (fun e => if e.1 == c then (e.1, e.2 ++ sk.keys) else e))
      else pskLoop rest (acc ++ [(c, sk.keys)])

/-- `processStorageKeys`: one entry per distinct contract in the order of first appearance, the keys of a
repeated contract merged, every key list de-duplicated -/
def processStorageKeys (sks : List SK) : PSKRes :=
  if sks.isEmpty then .ok [] else pskLoop sks []

/-- `OrderedSet.Put`: a key that is in the set keeps its position and gets the new value, a new key is appended -/
def osPut [DecidableEq H] (s : PSet H) (k : H) (v : PNode H) : PSet H :=
  if s.any (fun e => decide (e.1 = k)) then s.map (fun e => if e.1 = k then (k, v) else e) else s ++ [(k, v)]

/-- `for _, key := range keys { t.Prove(&key, proofSet) }`: the proofs of all keys in ONE ordered set
(`legacy`: `trie.Trie.Prove`, else `trie2.Trie.Prove`; keys are converted with `FeltToKey` / `FeltToPath`) -/
def proveAll [DecidableEq H] (A : HashAlg H) (legacy : Bool) (height : Nat) (t : Trie H) (keys : List Nat) : PSet H :=
  keys.foldl (fun s k => (Trie.prove A legacy false t (pathOfNat height k)).foldl (fun s e => osPut s e.1 e.2) s) []

/-- `Trie.GetRangeProof(leftKey, rightKey, proofSet)` of both tries: `Prove(left)`, then — unless the two felts are
equal — `Prove(right)` into the same set (the early return only saves work: `Put` is idempotent) -/
def rangeProve [DecidableEq H] (A : HashAlg H) (legacy : Bool) (height : Nat) (t : Trie H) (left right : Nat) : PSet H :=
  if left = right then proveAll A legacy height t [left] else proveAll A legacy height t [left, right]

/-- the path of an edge node on the wire: `Path.Felt()` and `Path.Len()` -/
def encodePath (p : Path) : Nat × Nat := (pathVal p, p.length)

/-- `EdgeNode.AsProofNode`: `new(BitArray).SetBytes(uint8(e.Length), bytes of the felt)` — the length goes
through a `uint8`, the low `length` bits of the felt are kept -/
def decodePath (e : Nat × Nat) : Path := pathOfNat (e.2 % 256) e.1

/-- a node as it goes over the wire (`rpc.BinaryNode{left, right}`, `rpc.EdgeNode{path, length, child}`): felts
only — child types and cached hashes are gone -/
inductive WNode (H : Type) where
  | bin (l r : H)
  | edge (p : Path) (c : H)
  deriving Repr, DecidableEq

/-- `adaptTrieProofNodes` / `adaptDeprecatedTrieProofNodes` (`nodeFelt`: the felt of a hash or value child) -/
def toWire (A : HashAlg H) : PNode H → WNode H
  | .bin l r _ => .bin (l.felt A) (r.felt A)
  | .edge p c _ => .edge p (c.felt A)

/-- what a client (or `AsProofNode`) makes of a wire node: a legacy proof node -/
def ofWire : WNode H → PNode H
  | .bin l r => .bin ⟨.hash, l⟩ ⟨.hash, r⟩ none
  | .edge p c => .edge p ⟨.hash, c⟩ none

def wireSet (A : HashAlg H) (s : PSet H) : List (H × WNode H) := s.map (fun e => (e.1, toWire A e.2))

/-- the node mapping a client reads from a `node_hash → node` array -/
def clientSet (w : List (H × WNode H)) : PSet H := w.map (fun e => (e.1, ofWire e.2))

/-- what `buildContractLeavesData` reads of a contract -/
structure CInfo (H : Type) where
  cls : H
  nonce : H
  deriving Repr

/-- the head state as `StorageProof` sees it through `core.StateReader` -/
structure RState (H : Type) where
  classes : Trie H                 -- `state.ClassTrie()` (Poseidon)
  contracts : Trie H               -- `state.ContractTrie()` (Pedersen)
  info : Nat → Option (CInfo H)    -- `ContractClassHash` / `ContractNonce`; `none` = `db.ErrKeyNotFound`
  storageOf : Nat → Trie H         -- `ContractStorageTrie(addr)` (empty for an address without storage)

structure Leaf (H : Type) where
  nonce : H
  cls : H
  sroot : H
  deriving Repr, DecidableEq

structure Resp (H : Type) where
  classesProof : List (H × WNode H)
  contractsProof : List (H × WNode H)
  leaves : List (Option (Leaf H))
  storageProofs : List (List (H × WNode H))
  contractsRoot : H
  classesRoot : H

/-- `block_id` of the request -/
inductive BlockId where
  | latest | preConfirmed | l1Accepted
  | hash (h : Nat)
  | number (n : Nat)
  deriving Repr, DecidableEq

inductive BlkRes where
  | ok
  | callOnPreConfirmed   -- `ErrCallOnPreConfirmed` (v8: `ErrCallOnPending`)
  | blockNotFound        -- `ErrBlockNotFound`
  | notSupported         -- `ErrStorageProofNotSupported`
  deriving Repr, DecidableEq

/-- the second `switch` of `isBlockSupported`: older than the head / beyond the head / the head -/
def blkByNumber (num height : Nat) : BlkRes :=
  if num < height then .notSupported else if num > height then .blockNotFound else .ok

/-- `isBlockSupported(blockID, chainHeight)`; `numberByHash` = `BlockNumberByHash` (`none` = `db.ErrKeyNotFound`) -/
def isBlockSupported (id : BlockId) (height : Nat) (numberByHash : Nat → Option Nat) : BlkRes :=
  match id with
  | .latest => .ok
  | .preConfirmed => .callOnPreConfirmed
  | .hash h => match numberByHash h with
    | none => .blockNotFound
    | some num => blkByNumber num height
  | .number num => blkByNumber num height
  | .l1Accepted => .notSupported

inductive RpcRes (H : Type) where
  | ok (r : Resp H)
  | block (e : BlkRes)
  | missingContract
  | missingKeys

/-- `Handler.StorageProof(id, classes, contracts, storageKeys)` after the head state is open: block check,
de-duplication, the three groups of proofs, leaf data, roots.  `Ac` hashes the classes trie (Poseidon), `Ap` the
others (Pedersen); `legacy` = the state backend hands out `*trie.Trie` (else `*trie2.Trie`). -/
def storageProof [DecidableEq H] (Ac Ap : HashAlg H) (legacy : Bool) (height : Nat) (st : RState H)
    (blk : BlkRes) (classes contracts : List Nat) (sks : List SK) : RpcRes H :=
  if blk ≠ .ok then .block blk else
  let classes := setOf classes
  let contracts := setOf contracts
  match processStorageKeys sks with
  | .missingContract => .missingContract
  | .missingKeys => .missingKeys
  | .ok usk =>
    .ok {
      classesProof := wireSet Ac (proveAll Ac legacy height st.classes classes)
      contractsProof := wireSet Ap (proveAll Ap legacy height st.contracts contracts)
      leaves := contracts.map (fun a => (st.info a).map (fun i => ⟨i.nonce, i.cls, (st.storageOf a).hash Ap⟩))
      storageProofs := usk.map (fun e => wireSet Ap (proveAll Ap legacy height (st.storageOf e.1) e.2))
      contractsRoot := st.contracts.hash Ap
      classesRoot := st.classes.hash Ac }

end Juno.C10
