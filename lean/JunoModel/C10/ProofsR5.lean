import JunoModel.C10.Proofs
import JunoModel.C10.ModelR5
/-! C10, round 5 — lemmas about the definitions of `ModelR5.lean`. -/
set_option linter.unusedSectionVars false
set_option linter.unusedSimpArgs false
set_option linter.unnecessarySimpa false
namespace Juno.C10
variable {H : Type} [DecidableEq H] {A : HashAlg H}

/-! ### 1. `trie2.VerifyRangeProof` as a whole, keys as felts -/

theorem pathVal_pathOfNat_mod (h n : Nat) : pathVal (pathOfNat h n) = n % 2 ^ h := by
  induction h with
  | zero => simp [pathOfNat, pathVal, Nat.mod_one]
  | succ h ih =>
    simp only [pathOfNat, pathVal, pathOfNat_length, ih]
    rw [Nat.mod_pow_succ]
    cases hb : n.testBit h with
    | true =>
      have : n / 2 ^ h % 2 = 1 := by
        have := Nat.testBit_eq_decide_div_mod_eq (x := n) (i := h); simp [hb] at this; omega
      simp [this]; omega
    | false =>
      have : n / 2 ^ h % 2 = 0 := by
        have := Nat.testBit_eq_decide_div_mod_eq (x := n) (i := h); simp [hb] at this; omega
      simp [this]

theorem pathVal_pathOfNat {h n : Nat} (hn : n < 2 ^ h) : pathVal (pathOfNat h n) = n := by
  rw [pathVal_pathOfNat_mod, Nat.mod_eq_of_lt hn]

theorem pathOfNat_inj {h a b : Nat} (ha : a < 2 ^ h) (hb : b < 2 ^ h)
    (e : pathOfNat h a = pathOfNat h b) : a = b := by
  have := congrArg pathVal e
  rwa [pathVal_pathOfNat ha, pathVal_pathOfNat hb] at this

theorem pathLt_pathOfNat {h a b : Nat} (ha : a < 2 ^ h) (hb : b < 2 ^ h) :
    pathLt (pathOfNat h a) (pathOfNat h b) = true ↔ a < b := by
  rw [← pathVal_lt_iff _ _ (by simp [pathOfNat_length]), pathVal_pathOfNat ha, pathVal_pathOfNat hb]

theorem get_zero_of_not_has {t : Tree H} {n : Nat} (hwf : WF t n) :
    ∀ k, k.length = n → t.has k = false → t.get A k = A.zero := by
  induction t generalizing n with
  | leaf v => intro k _ hh; simp [Tree.has] at hh
  | bin l r ihl ihr =>
    obtain ⟨m, rfl, hl, hr⟩ := hwf.bin_inv
    intro k hk hh
    cases k with
    | nil => simp at hk
    | cons b k' =>
      cases b with
      | true => simpa [Tree.get] using ihr hr k' (by simpa using hk) (by simpa [Tree.has] using hh)
      | false => simpa [Tree.get] using ihl hl k' (by simpa using hk) (by simpa [Tree.has] using hh)
  | edge p c ih =>
    obtain ⟨m, rfl, _, hc⟩ := hwf.edge_inv
    intro k hk hh
    simp only [Tree.get]
    cases hpre : p.isPrefixOf k with
    | false => simp
    | true =>
      simp only [if_true]
      obtain ⟨k'', rfl⟩ := isPrefixOf_true_iff.mp hpre
      simp only [List.drop_left]
      apply ih hc k'' (by simp at hk; omega)
      simpa [Tree.has, hpre] using hh

theorem lastVal_map_pathOfNat (n : Nat) (kvs : List (Nat × H)) (hb : ∀ kv ∈ kvs, kv.1 < 2 ^ n) (k : Nat)
    (hk : k < 2 ^ n) :
    lastVal (kvs.map (fun kv => (pathOfNat n kv.1, kv.2))) (pathOfNat n k) = lastValF kvs k := by
  unfold lastVal lastValF
  rw [List.filter_map]
  have : List.filter ((fun kv : Path × H => decide (kv.1 = pathOfNat n k)) ∘ fun kv : Nat × H => (pathOfNat n kv.1, kv.2)) kvs
      = List.filter (fun kv => decide (kv.1 = k)) kvs := by
    apply List.filter_congr
    intro kv hkv
    simp only [Function.comp]
    by_cases e : kv.1 = k
    · simp [e]
    · have : pathOfNat n kv.1 ≠ pathOfNat n k := fun h => e (pathOfNat_inj (hb kv hkv) hk h)
      simp [e, this]
  rw [this, List.getLast?_map]
  cases (List.filter (fun kv => decide (kv.1 = k)) kvs).getLast? <;> rfl


/-- what the preamble of `verifyRange` leaves: felts non-decreasing, no zero value, keys in range -/
theorem verifyRange_pre {rc : RCfg} {ck : Bool} {n : Nat} {root : H} {first : Nat} {kvs : List (Nat × H)}
    {proof : Option (PSet H)} {more : Bool}
    (hb : ck = true ∨ (first < 2 ^ n ∧ ∀ kv ∈ kvs, kv.1 < 2 ^ n))
    (h : verifyRange A rc ck n root first kvs proof = .ok more) :
    (first < 2 ^ n ∧ ∀ kv ∈ kvs, kv.1 < 2 ^ n) ∧
    (match proof with
     | none => verifyAll A root n (kvs.map (fun kv : Nat × H => (pathOfNat n kv.1, kv.2)))
     | some P =>
       match kvs.getLast? with
       | none => verifyEmpty A rc root (pathOfNat n first) P
       | some lastKV =>
         if kvs.length = 1 ∧ first = lastKV.1 then verifySingle A rc root (pathOfNat n first) lastKV.2 P
         else if lastKV.1 ≤ first then .err
         else verifyMulti A rc root (pathOfNat n first) (kvs.map (fun kv : Nat × H => (pathOfNat n kv.1, kv.2))) P) = .ok more := by
  unfold verifyRange at h
  split at h
  · cases h
  split at h
  · cases h
  split at h
  · cases h
  rename_i hck
  refine ⟨?_, h⟩
  rcases hb with hb | hb
  · subst hb
    simp only [Bool.true_and, Bool.or_eq_true, decide_eq_true_eq, List.any_eq_true, not_or, not_exists, not_and,
      Nat.not_le] at hck
    exact ⟨hck.1, fun kv hkv => by have := hck.2 kv hkv; omega⟩
  · exact hb

theorem getLast?_map_some {α β : Type} (f : α → β) (l : List α) (x : α) (h : l.getLast? = some x) :
    (l.map f).getLast? = some (f x) := by
  rw [List.getLast?_map, h]; rfl

/-- `trie2.VerifyRangeProof` with a proof, as a whole: accepted ⇒ keys in range, content, `more` -/
theorem verifyRange_sound (hI : Ideal A) (rc : RCfg) (hch : rc.checkHash = true)
    (hev : rc.earlyValue = false) (hlh : rc.leafHash = true) (hul : rc.unsetLeaf = true) (ck : Bool)
    (t : Tree H) (n : Nat) (hwf : WF t n) (hnz : t.NZ A) (hn : 0 < n) (first : Nat) (kvs : List (Nat × H))
    (P : PSet H) (more : Bool)
    (hb : ck = true ∨ (first < 2 ^ n ∧ ∀ kv ∈ kvs, kv.1 < 2 ^ n))
    (h : verifyRange A rc ck n (t.hash A) first kvs (some P) = .ok more) :
    (first < 2 ^ n ∧ ∀ kv ∈ kvs, kv.1 < 2 ^ n) ∧
    (∀ k, k < 2 ^ n → first ≤ k → (∀ l, kvs.getLast? = some l → k ≤ l.1) →
      t.get A (pathOfNat n k) = (lastValF kvs k).getD A.zero) ∧
    (more = true ↔ ∃ l, kvs.getLast? = some l ∧ GtIn t n (pathOfNat n l.1)) := by
  obtain ⟨hbd, h2⟩ := verifyRange_pre hb h
  clear h
  refine ⟨hbd, ?_⟩
  obtain ⟨hf, hks⟩ := hbd
  simp only at h2
  have hpl : ∀ kv ∈ kvs.map (fun kv : Nat × H => (pathOfNat n kv.1, kv.2)), kv.1.length = n := by
    intro kv hkv
    obtain ⟨x, _, rfl⟩ := List.mem_map.mp hkv
    exact pathOfNat_length _ _
  cases hlast : kvs.getLast? with
  | none =>
    rw [hlast] at h2
    simp only at h2
    have hnil : kvs = [] := List.getLast?_eq_none_iff.mp hlast
    subst hnil
    obtain ⟨hm, hno⟩ := empty_no_key hI rc hch hev hlh t n hwf hnz hn (pathOfNat n first) (pathOfNat_length _ _) P more h2
    refine ⟨?_, ?_⟩
    · intro k hk hfk _
      simp only [lastValF, List.filter_nil, List.getLast?_nil, Option.map_none, Option.getD_none]
      apply get_zero_of_not_has hwf _ (pathOfNat_length _ _)
      cases hh : t.has (pathOfNat n k) with
      | false => rfl
      | true =>
        have := hno _ (pathOfNat_length _ _) hh
        rw [pathLt_pathOfNat hk hf] at this
        omega
    · subst hm
      simp
  | some lastKV =>
    rw [hlast] at h2
    simp only at h2
    have hlm : lastKV ∈ kvs := List.mem_of_getLast? hlast
    have hlb := hks lastKV hlm
    split at h2
    · rename_i hsingle
      obtain ⟨hlen, hfl⟩ := hsingle
      have hkvs : kvs = [lastKV] := by
        match kvs, hlen, hlast with
        | [x], _, hl => simp at hl; rw [hl]
      subst hkvs
      have hv := single_sound hI rc hch hev hlh (some t) n hwf hnz hn (pathOfNat n first) (pathOfNat_length _ _) lastKV.2 P more h2
      have hm := single_more hI rc hch hev hlh t n hwf hnz hn (pathOfNat n first) (pathOfNat_length _ _) lastKV.2 P more h2
      refine ⟨?_, ?_⟩
      · intro k hk hfk hkl
        have := hkl lastKV rfl
        have hkf : k = first := by omega
        subst hkf
        simp only [lastValF, List.filter_cons, hfl, decide_true, if_true, List.filter_nil, List.getLast?_singleton,
          Option.map_some, Option.getD_some]
        have hv' : t.get A (pathOfNat n k) = lastKV.2 := hv
        rw [hfl] at hv'
        exact hv'
      · rw [hm, hfl]
        simp
    · split at h2
      · cases h2
      · rename_i hlt
        have hlt' : first < lastKV.1 := by omega
        obtain ⟨lk, hlk, _, hcont⟩ := multi_sound hI rc hul t n hwf (pathOfNat n first) (pathOfNat_length _ _) _ hpl P more h2
        obtain ⟨lk', hlk', hmore⟩ := multi_more hI rc hch hev hlh t n hwf hnz (pathOfNat n first) (pathOfNat_length _ _) _ hpl P more h2
        rw [getLast?_map_some _ _ _ hlast] at hlk hlk'
        cases hlk; cases hlk'
        refine ⟨?_, ?_⟩
        · intro k hk hfk hkl
          have hkl' := hkl lastKV rfl
          rw [← lastVal_map_pathOfNat n kvs hks k hk]
          apply hcont _ (pathOfNat_length _ _)
          · rcases Nat.lt_or_ge first k with h1 | h1
            · right; exact (pathLt_pathOfNat hf hk).mpr h1
            · left; have : first = k := by omega
              rw [this]
          · rcases Nat.lt_or_ge k lastKV.1 with h1 | h1
            · right; exact (pathLt_pathOfNat hk hlb).mpr h1
            · left; have : k = lastKV.1 := by omega
              rw [this]
        · rw [hmore]
          simp

/-- the no-proof case of `VerifyRangeProof` (`proof == nil`) -/
theorem verifyRange_all_sound (hI : Ideal A) (rc : RCfg) (ck : Bool) (t : Tree H) (n : Nat) (hwf : WF t n)
    (first : Nat) (kvs : List (Nat × H)) (more : Bool)
    (hb : ck = true ∨ (first < 2 ^ n ∧ ∀ kv ∈ kvs, kv.1 < 2 ^ n))
    (h : verifyRange A rc ck n (t.hash A) first kvs none = .ok more) :
    (∀ kv ∈ kvs, kv.1 < 2 ^ n) ∧ more = false ∧
    ∀ k, k < 2 ^ n → t.get A (pathOfNat n k) = (lastValF kvs k).getD A.zero := by
  obtain ⟨⟨_, hks⟩, h⟩ := verifyRange_pre hb h
  simp only at h
  have hpl : ∀ kv ∈ kvs.map (fun kv : Nat × H => (pathOfNat n kv.1, kv.2)), kv.1.length = n := by
    intro kv hkv
    obtain ⟨x, _, rfl⟩ := List.mem_map.mp hkv
    exact pathOfNat_length _ _
  obtain ⟨hm, hc⟩ := all_sound hI t n hwf _ hpl more h
  refine ⟨hks, hm, fun k hk => ?_⟩
  rw [← lastVal_map_pathOfNat n kvs hks k hk]
  exact hc _ (pathOfNat_length _ _)

/-- /repo as it is (`checkKey = false`): the single-element claim about the felt `2^n + k` is verified exactly
like the claim about `k` -/
theorem verifyRange_alias (rc : RCfg) (n : Nat) (root : H) (k : Nat) (v : H) (P : PSet H) :
    verifyRange A rc false n root (2 ^ n + k) [(2 ^ n + k, v)] (some P) =
      verifyRange A rc false n root k [(k, v)] (some P) := by
  simp [verifyRange, feltKeysMonotonic, pathOfNat_add_pow n n (Nat.le_refl n) k]


/-! ### 2. the response of `starknet_getStorageProof` verifies -/

/-- `trie.VerifyProof` reads the node set only through `Get` -/
theorem verifyLAux_congr {P Q : PSet H} (hPQ : ∀ h, P.get h = Q.get h) (key : Path) :
    ∀ (fuel : Nat) (e : H) (pos : Nat), verifyLAux A P key fuel e pos = verifyLAux A Q key fuel e pos := by
  intro fuel
  induction fuel with
  | zero => intro e pos; rfl
  | succ f ih =>
    intro e pos
    simp only [verifyLAux, hPQ e]
    cases Q.get e with
    | none => rfl
    | some node =>
      simp only
      split
      · rfl
      · cases node with
        | bin l r c => simp only [ih]
        | edge p ch c => simp only [ih]

theorem verifyL_congr {P Q : PSet H} (hPQ : ∀ h, P.get h = Q.get h) (cfg : Cfg) (root : H) (key : Path) :
    verifyL A cfg root key P = verifyL A cfg root key Q := by
  unfold verifyL
  rw [verifyLAux_congr hPQ]

theorem PSet.get_append (P X : PSet H) (h : H) :
    (P ++ X).get h = match P.get h with | some n => some n | none => X.get h := by
  induction P with
  | nil => simp [PSet.get]
  | cons e rest ih =>
    obtain ⟨k, nd⟩ := e
    simp only [List.cons_append, PSet.get]
    split
    · rfl
    · exact ih

theorem PSet.get_none_of_not_key {X : PSet H} {h : H} (hk : ∀ e ∈ X, e.1 ≠ h) : X.get h = none := by
  induction X with
  | nil => rfl
  | cons e rest ih =>
    obtain ⟨k, nd⟩ := e
    simp only [PSet.get]
    have : k ≠ h := hk (k, nd) (by simp)
    simp only [this, if_false]
    exact ih (fun e he => hk e (List.mem_cons_of_mem _ he))

/-- a set has the key -/
def PSet.hasKey (P : PSet H) (h : H) : Prop := ∃ n, (h, n) ∈ P

theorem PSet.get_some_of_hasKey {P : PSet H} {h : H} (hk : P.hasKey h) : ∃ n, P.get h = some n := by
  obtain ⟨n, hn⟩ := hk
  exact PSet.get_isSome_of_mem hn

/-- completeness of `trie.VerifyProof` on ANY self-consistent node set that has the hashes of the prover's
nodes among its keys (whatever node sits there: it hashes to the key) -/
theorem legacy_complete_keys (hI : Ideal A) (cfg : Cfg) (s : Tree H) (n : Nat) (hwf : WF s n) (hnz : s.NZ A)
    (hn : 0 < n) (h256 : n < 256) (k : Path) (hk : k.length = n) (legacy cached : Bool) (P : PSet H)
    (hkeys : ∀ nd ∈ s.proveNodes A legacy cached k, P.hasKey (nd.hash A))
    (hcons : ∀ e ∈ P, e.1 = e.2.hash A) :
    verifyL A cfg (s.hash A) k P = Res.ok (s.get A k) := by
  let X := toPSet A (s.proveNodes A legacy cached k)
  have hagree : ∀ h, (P ++ X).get h = P.get h := by
    intro h
    rw [PSet.get_append]
    cases hp : P.get h with
    | some n => rfl
    | none =>
      simp only
      apply PSet.get_none_of_not_key
      intro e he heq
      obtain ⟨nd, hnd, rfl⟩ := List.mem_map.mp he
      obtain ⟨n', hn'⟩ := PSet.get_some_of_hasKey (hkeys nd hnd)
      simp only at heq
      rw [heq] at hn'
      rw [hp] at hn'
      cases hn'
  rw [← verifyL_congr hagree]
  apply legacy_complete_tree hI cfg s n hwf hnz hn h256 k hk legacy cached
  · intro nd hnd
    exact List.mem_append_right _ (List.mem_map.mpr ⟨nd, hnd, rfl⟩)
  · intro e he
    rcases List.mem_append.mp he with h1 | h1
    · exact hcons e h1
    · exact toPSet_consistent _ e h1


theorem osPut_mem {s : PSet H} {k : H} {v : PNode H} {e : H × PNode H} (he : e ∈ osPut s k v) :
    e = (k, v) ∨ e ∈ s := by
  unfold osPut at he
  split at he
  · obtain ⟨x, hx, rfl⟩ := List.mem_map.mp he
    by_cases hk : x.1 = k
    · simp [hk]
    · simp [hk, hx]
  · rcases List.mem_append.mp he with h1 | h1
    · exact Or.inr h1
    · simp at h1; exact Or.inl h1

theorem osPut_hasKey_new (s : PSet H) (k : H) (v : PNode H) : (osPut s k v).hasKey k := by
  unfold osPut
  split
  · rename_i hany
    obtain ⟨x, hx, hxk⟩ := List.any_eq_true.mp hany
    have hxk' : x.1 = k := by simpa using hxk
    exact ⟨v, List.mem_map.mpr ⟨x, hx, by simp [hxk']⟩⟩
  · exact ⟨v, by simp⟩

theorem osPut_hasKey_mono {s : PSet H} {h : H} (k : H) (v : PNode H) (hs : s.hasKey h) :
    (osPut s k v).hasKey h := by
  obtain ⟨n, hn⟩ := hs
  unfold osPut
  split
  · by_cases hk : h = k
    · subst hk
      exact ⟨v, List.mem_map.mpr ⟨(h, n), hn, by simp⟩⟩
    · exact ⟨n, List.mem_map.mpr ⟨(h, n), hn, by simp [hk]⟩⟩
  · exact ⟨n, List.mem_append_left _ hn⟩

/-- `Prove` into an ordered set -/
def putAll (s : PSet H) (es : PSet H) : PSet H := es.foldl (fun s e => osPut s e.1 e.2) s

theorem putAll_mem {es : PSet H} : ∀ {s : PSet H} {e : H × PNode H}, e ∈ putAll s es → e ∈ s ∨ e ∈ es := by
  induction es with
  | nil => intro s e he; exact Or.inl he
  | cons x xs ih =>
    intro s e he
    simp only [putAll, List.foldl_cons] at he
    rcases ih he with h1 | h1
    · rcases osPut_mem h1 with h2 | h2
      · exact Or.inr (by rw [h2]; simp)
      · exact Or.inl h2
    · exact Or.inr (List.mem_cons_of_mem _ h1)

theorem putAll_hasKey_mono {es : PSet H} : ∀ {s : PSet H} {h : H}, s.hasKey h → (putAll s es).hasKey h := by
  induction es with
  | nil => intro s h hs; exact hs
  | cons x xs ih =>
    intro s h hs
    simp only [putAll, List.foldl_cons]
    exact ih (osPut_hasKey_mono _ _ hs)

theorem putAll_hasKey_new {es : PSet H} : ∀ {s : PSet H} {e : H × PNode H}, e ∈ es → (putAll s es).hasKey e.1 := by
  induction es with
  | nil => intro s e he; simp at he
  | cons x xs ih =>
    intro s e he
    simp only [putAll, List.foldl_cons]
    rcases List.mem_cons.mp he with h1 | h1
    · subst h1
      exact putAll_hasKey_mono (osPut_hasKey_new _ _ _)
    · exact ih h1

theorem proveAll_eq (legacy : Bool) (n : Nat) (t : Trie H) (keys : List Nat) :
    proveAll A legacy n t keys =
      keys.foldl (fun s k => putAll s (Trie.prove A legacy false t (pathOfNat n k))) [] := rfl

/-- every entry of the merged set is an entry of one of the proofs; the hash of every node of every proof is a key -/
theorem proveAll_spec (legacy : Bool) (n : Nat) (t : Trie H) (keys : List Nat) :
    (∀ e ∈ proveAll A legacy n t keys, ∃ k ∈ keys, e ∈ Trie.prove A legacy false t (pathOfNat n k)) ∧
    (∀ k ∈ keys, ∀ e ∈ Trie.prove A legacy false t (pathOfNat n k), (proveAll A legacy n t keys).hasKey e.1) := by
  rw [proveAll_eq]
  suffices hgen : ∀ (ks : List Nat) (s : PSet H),
      (∀ e ∈ ks.foldl (fun s k => putAll s (Trie.prove A legacy false t (pathOfNat n k))) s,
        e ∈ s ∨ ∃ k ∈ ks, e ∈ Trie.prove A legacy false t (pathOfNat n k)) ∧
      (∀ h, s.hasKey h → (ks.foldl (fun s k => putAll s (Trie.prove A legacy false t (pathOfNat n k))) s).hasKey h) ∧
      (∀ k ∈ ks, ∀ e ∈ Trie.prove A legacy false t (pathOfNat n k),
        (ks.foldl (fun s k => putAll s (Trie.prove A legacy false t (pathOfNat n k))) s).hasKey e.1) by
    obtain ⟨h1, _, h3⟩ := hgen keys []
    refine ⟨fun e he => ?_, h3⟩
    rcases h1 e he with h | h
    · simp at h
    · exact h
  intro ks
  induction ks with
  | nil =>
    intro s
    refine ⟨fun e he => Or.inl he, fun h hs => hs, fun k hk => by simp at hk⟩
  | cons k ks ih =>
    intro s
    simp only [List.foldl_cons]
    obtain ⟨i1, i2, i3⟩ := ih (putAll s (Trie.prove A legacy false t (pathOfNat n k)))
    refine ⟨?_, ?_, ?_⟩
    · intro e he
      rcases i1 e he with h | ⟨k', hk', hm⟩
      · rcases putAll_mem h with h' | h'
        · exact Or.inl h'
        · exact Or.inr ⟨k, by simp, h'⟩
      · exact Or.inr ⟨k', List.mem_cons_of_mem _ hk', hm⟩
    · intro h hs
      exact i2 h (putAll_hasKey_mono hs)
    · intro k' hk' e he
      rcases List.mem_cons.mp hk' with h | h
      · subst h
        exact i2 _ (putAll_hasKey_new he)
      · exact i3 k' h e he

theorem ofWire_toWire_hash (nd : PNode H) : (ofWire (toWire A nd)).hash A = nd.hash A := by
  cases nd <;> simp [toWire, ofWire, PNode.hash, Child.felt, Child.tag]

theorem clientSet_wireSet (s : PSet H) :
    clientSet (wireSet A s) = s.map (fun e => (e.1, ofWire (toWire A e.2))) := by
  simp [clientSet, wireSet, List.map_map, Function.comp]

/-- THE step from the prover to the wire: every requested key verifies, with the legacy-type verifier a client
runs on the decoded `node_hash → node` mapping, against the root of the trie, to the value the trie holds -/
theorem proveAll_verifies (hI : Ideal A) (cfg : Cfg) (hz : cfg.zeroRoot = true) (t : Trie H) (n : Nat)
    (hwf : Trie.WF t n) (hnz : Trie.NZ A t) (hn : 0 < n) (h256 : n < 256) (legacy : Bool) (keys : List Nat)
    (k : Nat) (hk : k ∈ keys) :
    verifyL A cfg (t.hash A) (pathOfNat n k) (clientSet (wireSet A (proveAll A legacy n t keys))) =
      Res.ok (t.get A (pathOfNat n k)) := by
  cases t with
  | none => simp [verifyL, Trie.hash, Trie.get, hz]
  | some s =>
    obtain ⟨hsub, hcov⟩ := proveAll_spec (A := A) legacy n (some s) keys
    rw [clientSet_wireSet]
    apply legacy_complete_keys hI cfg s n hwf hnz hn h256 _ (pathOfNat_length _ _) legacy false
    · intro nd hnd
      have : (nd.hash A, nd) ∈ Trie.prove A legacy false (some s) (pathOfNat n k) :=
        List.mem_map.mpr ⟨nd, hnd, rfl⟩
      obtain ⟨n', hn'⟩ := hcov k hk _ this
      exact ⟨ofWire (toWire A n'), List.mem_map.mpr ⟨(nd.hash A, n'), hn', rfl⟩⟩
    · intro e he
      obtain ⟨x, hx, rfl⟩ := List.mem_map.mp he
      obtain ⟨k', _, hm⟩ := hsub x hx
      simp only [ofWire_toWire_hash]
      exact toPSet_consistent _ x hm



/-! `utils.Set` -/
section
variable {α : Type} [DecidableEq α]

def setStep (acc : List α) (e : α) : List α := if e ∈ acc then acc else acc ++ [e]

theorem setOf_eq (xs : List α) : setOf xs = xs.foldl setStep [] := rfl

theorem foldl_setStep_spec (xs : List α) : ∀ (acc : List α), acc.Nodup →
    (xs.foldl setStep acc).Nodup ∧ (∀ x, x ∈ xs.foldl setStep acc ↔ x ∈ acc ∨ x ∈ xs) ∧
    acc <+: xs.foldl setStep acc := by
  induction xs with
  | nil => intro acc h; simp [h]
  | cons y ys ih =>
    intro acc h
    simp only [List.foldl_cons]
    by_cases hy : y ∈ acc
    · have : setStep acc y = acc := by simp [setStep, hy]
      rw [this]
      obtain ⟨h1, h2, h3⟩ := ih acc h
      refine ⟨h1, fun x => ?_, h3⟩
      rw [h2 x]
      constructor
      · rintro (h | h)
        · exact Or.inl h
        · exact Or.inr (List.mem_cons_of_mem _ h)
      · rintro (h | h)
        · exact Or.inl h
        · rcases List.mem_cons.mp h with rfl | h
          · exact Or.inl hy
          · exact Or.inr h
    · have : setStep acc y = acc ++ [y] := by simp [setStep, hy]
      rw [this]
      have hnd : (acc ++ [y]).Nodup := by
        rw [List.nodup_append]
        refine ⟨h, by simp, ?_⟩
        intro a ha b hb
        simp at hb
        subst hb
        exact fun e => hy (e ▸ ha)
      obtain ⟨h1, h2, h3⟩ := ih (acc ++ [y]) hnd
      refine ⟨h1, fun x => ?_, ?_⟩
      · rw [h2 x]
        simp only [List.mem_append, List.mem_singleton, List.mem_cons, List.not_mem_nil, or_false]
        constructor
        · rintro ((h | h) | h)
          · exact Or.inl h
          · exact Or.inr (Or.inl h)
          · exact Or.inr (Or.inr h)
        · rintro (h | h | h)
          · exact Or.inl (Or.inl h)
          · exact Or.inl (Or.inr h)
          · exact Or.inr h
      · exact (List.prefix_append acc [y]).trans h3

/-- `utils.Set` returns exactly the elements of its argument, each once -/
theorem setOf_spec (xs : List α) : (setOf xs).Nodup ∧ ∀ x, x ∈ setOf xs ↔ x ∈ xs := by
  obtain ⟨h1, h2, _⟩ := foldl_setStep_spec xs [] List.nodup_nil
  exact ⟨h1, fun x => by rw [setOf_eq, h2 x]; simp⟩
end

/-! `processStorageKeys` -/

theorem eq_of_nodup_map_fst {β : Type} : ∀ {l : List (Nat × β)}, (l.map (·.1)).Nodup →
    ∀ {a b : Nat × β}, a ∈ l → b ∈ l → a.1 = b.1 → a = b := by
  intro l
  induction l with
  | nil => intro _ a b ha; simp at ha
  | cons x xs ih =>
    intro hnd a b ha hb hab
    simp only [List.map_cons, List.nodup_cons] at hnd
    rcases List.mem_cons.mp ha with rfl | ha' <;> rcases List.mem_cons.mp hb with rfl | hb'
    · rfl
    · exact absurd (List.mem_map.mpr ⟨b, hb', hab.symm⟩) hnd.1
    · exact absurd (List.mem_map.mpr ⟨a, ha', hab⟩) hnd.1
    · exact ih hnd.2 ha' hb' hab

theorem pskLoop_spec : ∀ (sks : List SK) (acc : List (Nat × List Nat)) (usk : List (Nat × List Nat)),
    (acc.map (·.1)).Nodup → pskLoop sks acc = .ok usk →
    usk.map (·.1) = (sks.filterMap (·.contract)).foldl setStep (acc.map (·.1)) ∧
    (∀ sk ∈ sks, (∃ c, sk.contract = some c) ∧ sk.keys ≠ []) ∧
    ∀ c ks, (c, ks) ∈ usk → ks.Nodup ∧
      ∀ k, k ∈ ks ↔ (∃ e ∈ acc, e.1 = c ∧ k ∈ e.2) ∨ ∃ sk ∈ sks, sk.contract = some c ∧ k ∈ sk.keys := by
  intro sks
  induction sks with
  | nil =>
    intro acc usk hnd h
    simp only [pskLoop, PSKRes.ok.injEq] at h
    subst h
    refine ⟨by simp [List.map_map, Function.comp], by simp, ?_⟩
    intro c ks hm
    obtain ⟨e, he, heq⟩ := List.mem_map.mp hm
    simp only [Prod.mk.injEq] at heq
    obtain ⟨rfl, rfl⟩ := heq
    obtain ⟨h1, h2⟩ := setOf_spec e.2
    refine ⟨h1, fun k => ?_⟩
    rw [h2 k]
    constructor
    · intro hk; exact Or.inl ⟨e, he, rfl, hk⟩
    · rintro (⟨e', he', heq', hk⟩ | ⟨sk, hsk, _⟩)
      · have : e' = e := eq_of_nodup_map_fst hnd he' he heq'
        rw [this] at hk; exact hk
      · simp at hsk
  | cons sk rest ih =>
    intro acc usk hnd h
    simp only [pskLoop] at h
    cases hc : sk.contract with
    | none => simp [hc] at h
    | some c =>
      simp only [hc] at h
      split at h
      · cases h
      rename_i hkeys
      have hkne : sk.keys ≠ [] := by
        intro e; rw [e] at hkeys; simp at hkeys
      split at h
      · -- the contract is already there
        rename_i hany
        have hcin : c ∈ acc.map (·.1) := by
          obtain ⟨x, hx, hxc⟩ := List.any_eq_true.mp hany
          exact List.mem_map.mpr ⟨x, hx, by simpa using hxc⟩
        have hmapfst : (acc.map (fun e => if (e.1 == c) = true then (e.1, e.2 ++ sk.keys) else e)).map (·.1) = acc.map (·.1) := by
          rw [List.map_map]
          apply List.map_congr_left
          intro e _
          simp only [Function.comp]
          split <;> rfl
        obtain ⟨i1, i2, i3⟩ := ih _ usk (by rw [hmapfst]; exact hnd) h
        refine ⟨?_, ?_, ?_⟩
        · rw [i1, hmapfst]
          simp only [List.filterMap_cons, hc, List.foldl_cons]
          have : setStep (acc.map (·.1)) c = acc.map (·.1) := by simp [setStep, hcin]
          rw [this]
        · intro sk' hsk'
          rcases List.mem_cons.mp hsk' with rfl | h'
          · exact ⟨⟨c, hc⟩, hkne⟩
          · exact i2 sk' h'
        · intro c0 ks hm
          obtain ⟨hn, hk⟩ := i3 c0 ks hm
          refine ⟨hn, fun k => ?_⟩
          rw [hk k]
          constructor
          · rintro (⟨e, he, hec, hke⟩ | ⟨sk', hsk', hc', hk'⟩)
            · obtain ⟨e0, he0, rfl⟩ := List.mem_map.mp he
              by_cases hb : (e0.1 == c) = true
              · simp only [hb, if_true] at hec hke
                rcases List.mem_append.mp hke with h1 | h1
                · exact Or.inl ⟨e0, he0, hec, h1⟩
                · have : e0.1 = c := by simpa using hb
                  exact Or.inr ⟨sk, by simp, by rw [hc, ← this, hec], h1⟩
              · simp only [hb] at hec hke
                exact Or.inl ⟨e0, he0, hec, hke⟩
            · exact Or.inr ⟨sk', List.mem_cons_of_mem _ hsk', hc', hk'⟩
          · rintro (⟨e, he, hec, hke⟩ | ⟨sk', hsk', hc', hk'⟩)
            · left
              refine ⟨_, List.mem_map.mpr ⟨e, he, rfl⟩, ?_, ?_⟩
              · split <;> exact hec
              · split
                · exact List.mem_append_left _ hke
                · exact hke
            · rcases List.mem_cons.mp hsk' with rfl | h'
              · left
                have hcc : c = c0 := by rw [hc] at hc'; exact Option.some.inj hc'
                subst hcc
                obtain ⟨e, he, hec⟩ := List.mem_map.mp hcin
                refine ⟨_, List.mem_map.mpr ⟨e, he, rfl⟩, ?_, ?_⟩
                · have : (e.1 == c) = true := by simpa using hec
                  simp [this, hec]
                · have : (e.1 == c) = true := by simpa using hec
                  simp only [this, if_true]
                  exact List.mem_append_right _ hk'
              · exact Or.inr ⟨sk', h', hc', hk'⟩
      · -- a new contract
        rename_i hany
        have hcnot : c ∉ acc.map (·.1) := by
          intro hin
          obtain ⟨x, hx, hxc⟩ := List.mem_map.mp hin
          apply hany
          exact List.any_eq_true.mpr ⟨x, hx, by simpa using hxc⟩
        have hnd' : ((acc ++ [(c, sk.keys)]).map (·.1)).Nodup := by
          simp only [List.map_append, List.map_cons, List.map_nil]
          rw [List.nodup_append]
          refine ⟨hnd, by simp, ?_⟩
          intro a ha b hb
          simp at hb
          subst hb
          exact fun e => hcnot (e ▸ ha)
        obtain ⟨i1, i2, i3⟩ := ih _ usk hnd' h
        refine ⟨?_, ?_, ?_⟩
        · rw [i1]
          simp only [List.filterMap_cons, hc, List.foldl_cons, List.map_append, List.map_cons, List.map_nil]
          have : setStep (acc.map (·.1)) c = acc.map (·.1) ++ [c] := by simp [setStep, hcnot]
          rw [this]
        · intro sk' hsk'
          rcases List.mem_cons.mp hsk' with rfl | h'
          · exact ⟨⟨c, hc⟩, hkne⟩
          · exact i2 sk' h'
        · intro c0 ks hm
          obtain ⟨hn, hk⟩ := i3 c0 ks hm
          refine ⟨hn, fun k => ?_⟩
          rw [hk k]
          constructor
          · rintro (⟨e, he, hec, hke⟩ | ⟨sk', hsk', hc', hk'⟩)
            · rcases List.mem_append.mp he with h1 | h1
              · exact Or.inl ⟨e, h1, hec, hke⟩
              · simp at h1
                subst h1
                exact Or.inr ⟨sk, by simp, by rw [hc]; exact congrArg some hec, hke⟩
            · exact Or.inr ⟨sk', List.mem_cons_of_mem _ hsk', hc', hk'⟩
          · rintro (⟨e, he, hec, hke⟩ | ⟨sk', hsk', hc', hk'⟩)
            · exact Or.inl ⟨e, List.mem_append_left _ he, hec, hke⟩
            · rcases List.mem_cons.mp hsk' with rfl | h'
              · have hcc : c = c0 := by rw [hc] at hc'; exact Option.some.inj hc'
                subst hcc
                exact Or.inl ⟨(c, sk'.keys), by simp, rfl, hk'⟩
              · exact Or.inr ⟨sk', h', hc', hk'⟩

/-- `processStorageKeys`: the distinct contracts in the order of first appearance; every entry complete;
per contract exactly the requested keys, each once -/
theorem processStorageKeys_spec (sks : List SK) (usk : List (Nat × List Nat))
    (h : processStorageKeys sks = .ok usk) :
    usk.map (·.1) = setOf (sks.filterMap (·.contract)) ∧
    (∀ sk ∈ sks, (∃ c, sk.contract = some c) ∧ sk.keys ≠ []) ∧
    ∀ c ks, (c, ks) ∈ usk → ks.Nodup ∧ ∀ k, k ∈ ks ↔ ∃ sk ∈ sks, sk.contract = some c ∧ k ∈ sk.keys := by
  unfold processStorageKeys at h
  split at h
  · rename_i he
    have : sks = [] := by simpa using he
    subst this
    cases h
    simp [setOf]
  · obtain ⟨h1, h2, h3⟩ := pskLoop_spec sks [] usk (by simp) h
    refine ⟨by simpa [setOf_eq] using h1, h2, ?_⟩
    intro c ks hm
    obtain ⟨hn, hk⟩ := h3 c ks hm
    refine ⟨hn, fun k => ?_⟩
    rw [hk k]
    simp


/-! `isBlockSupported` -/

/-- a proof is served exactly for a `block_id` that denotes the head: `latest`, the head's number, or a hash
the chain resolves to the head's number -/
theorem blkByNumber_ok (num height : Nat) : blkByNumber num height = .ok ↔ num = height := by
  unfold blkByNumber
  constructor
  · intro h
    split at h
    · cases h
    · split at h
      · cases h
      · omega
  · intro h; subst h; simp

theorem isBlockSupported_ok (id : BlockId) (height : Nat) (f : Nat → Option Nat) :
    isBlockSupported id height f = .ok ↔
      id = .latest ∨ id = .number height ∨ ∃ h, id = .hash h ∧ f h = some height := by
  cases id with
  | latest => simp [isBlockSupported]
  | preConfirmed => simp [isBlockSupported]
  | l1Accepted => simp [isBlockSupported]
  | number num => simp [isBlockSupported, blkByNumber_ok]
  | hash x =>
    simp only [isBlockSupported]
    cases hf : f x with
    | none => simp [hf]
    | some num => simp [hf, blkByNumber_ok]

/-! the whole response -/

variable {H : Type} [DecidableEq H]

theorem storageProof_verifies (Ac Ap : HashAlg H) (hIc : Ideal Ac) (hIp : Ideal Ap) (cfg : Cfg)
    (hz : cfg.zeroRoot = true) (legacy : Bool) (n : Nat) (hn : 0 < n) (h256 : n < 256) (st : RState H)
    (hwc : Trie.WF st.classes n) (hnc : Trie.NZ Ac st.classes)
    (hwt : Trie.WF st.contracts n) (hnt : Trie.NZ Ap st.contracts)
    (hws : ∀ a, Trie.WF (st.storageOf a) n) (hns : ∀ a, Trie.NZ Ap (st.storageOf a))
    (blk : BlkRes) (classes contracts : List Nat) (sks : List SK) (resp : Resp H)
    (h : storageProof Ac Ap legacy n st blk classes contracts sks = .ok resp) :
    blk = .ok ∧ resp.classesRoot = st.classes.hash Ac ∧ resp.contractsRoot = st.contracts.hash Ap ∧
    (∀ c ∈ classes, verifyL Ac cfg resp.classesRoot (pathOfNat n c) (clientSet resp.classesProof) =
      Res.ok (st.classes.get Ac (pathOfNat n c))) ∧
    (∀ a ∈ contracts, verifyL Ap cfg resp.contractsRoot (pathOfNat n a) (clientSet resp.contractsProof) =
      Res.ok (st.contracts.get Ap (pathOfNat n a))) ∧
    resp.leaves = (setOf contracts).map
      (fun a => (st.info a).map (fun i => ⟨i.nonce, i.cls, (st.storageOf a).hash Ap⟩)) ∧
    ∃ usk, processStorageKeys sks = .ok usk ∧ resp.storageProofs.length = usk.length ∧
      ∀ (i : Nat) (a : Nat) (ks : List Nat), usk[i]? = some (a, ks) → ∃ w, resp.storageProofs[i]? = some w ∧
        ∀ k ∈ ks, verifyL Ap cfg ((st.storageOf a).hash Ap) (pathOfNat n k) (clientSet w) =
          Res.ok ((st.storageOf a).get Ap (pathOfNat n k)) := by
  unfold storageProof at h
  split at h
  · cases h
  rename_i hblk
  have hblk' : blk = .ok := by
    cases blk <;> simp at hblk ⊢
  refine ⟨hblk', ?_⟩
  simp only at h
  cases hp : processStorageKeys sks with
  | missingContract => simp [hp] at h
  | missingKeys => simp [hp] at h
  | ok usk =>
    simp only [hp, RpcRes.ok.injEq] at h
    subst h
    refine ⟨rfl, rfl, ?_, ?_, rfl, usk, rfl, by simp, ?_⟩
    · intro c hc
      exact proveAll_verifies hIc cfg hz st.classes n hwc hnc hn h256 legacy _ c ((setOf_spec classes).2 c |>.mpr hc)
    · intro a ha
      exact proveAll_verifies hIp cfg hz st.contracts n hwt hnt hn h256 legacy _ a ((setOf_spec contracts).2 a |>.mpr ha)
    · intro i a ks hi
      refine ⟨wireSet Ap (proveAll Ap legacy n (st.storageOf a) ks), ?_, ?_⟩
      · simp [List.getElem?_map, hi]
      · intro k hk
        exact proveAll_verifies hIp cfg hz (st.storageOf a) n (hws a) (hns a) hn h256 legacy ks k hk


section
variable {A : HashAlg H}
/-! ### 3. completeness of the empty range and of the no-proof case -/

theorem afterR_complete_absent {rc : RCfg} {P : PSet H} {t' : Tree H} {n fuel : Nat}
    {node : PNode H} {key key' : Path} (hwf : WF t' n) (hk : key'.length = n) (hhas : t'.has key' = false)
    (ih : 0 < n → ∃ path, resolveAux A rc P true fuel (t'.hash A) key' = some (path, none)) :
    ∃ path, afterR A rc P true fuel node key (t'.child A) key' = some (path, none) := by
  unfold afterR
  cases t' with
  | leaf v => simp [Tree.has] at hhas
  | bin l r =>
    obtain ⟨n', rfl, _, _⟩ := hwf.bin_inv
    have hne : ¬ key'.length = 0 := by omega
    obtain ⟨path, hp⟩ := ih (by omega)
    exact ⟨(node, key) :: path, by simp only [Tree.child, Child.tag, hne, decide_false, Bool.and_false, Bool.false_eq_true, if_false, hp]⟩
  | edge p c =>
    obtain ⟨n', rfl, hp0, _⟩ := hwf.edge_inv
    have hplen : 0 < p.length := List.length_pos_iff.mpr hp0
    have hne : ¬ key'.length = 0 := by omega
    obtain ⟨path, hp⟩ := ih (by omega)
    exact ⟨(node, key) :: path, by simp only [Tree.child, Child.tag, hne, decide_false, Bool.and_false, Bool.false_eq_true, if_false, hp]⟩

/-- `proofToPath` with `allowNonExistent` on the honest proof of an ABSENT key: it ends without a value -/
theorem resolve_complete_absent (rc : RCfg) (P : PSet H) (legacy cached : Bool) :
    ∀ (s : Tree H) (m fuel : Nat) (key : Path), WF s m → 0 < m → key.length = m → m ≤ fuel →
      s.has key = false →
      (∀ nd ∈ s.proveNodes A legacy cached key, P.get (nd.hash A) = some nd) →
      ∃ path, resolveAux A rc P true fuel (s.hash A) key = some (path, none) := by
  intro s
  induction s with
  | leaf x => intro m fuel key hwf hm; have := hwf.leaf_inv; omega
  | bin l r ihl ihr =>
    intro m fuel key hwf hm hk hfuel hhas hlook
    obtain ⟨n, rfl, hl, hr⟩ := hwf.bin_inv
    obtain ⟨f, rfl⟩ : ∃ f, fuel = f + 1 := ⟨fuel - 1, by omega⟩
    rw [proveNodes_bin] at hlook
    have h0 := hlook _ (List.mem_cons_self ..)
    have hh0 : (PNode.bin (l.child A) (r.child A)
        (if cached then some ((Tree.bin l r).hash A) else none)).hash A = (Tree.bin l r).hash A := by
      simp [PNode.hash, Tree.hash, Tree.child_felt]
    rw [hh0] at h0
    rw [resolveAux_succ h0 (by simp [hh0])]
    have hkl : (key.drop 1).length = n := by simp; omega
    simp only [step2, Tree.has] at hhas ⊢
    rw [← List.drop_one] at hhas
    cases hb : key.headD false with
    | true =>
      rw [hb] at hlook hhas
      simp only [if_true] at hlook hhas ⊢
      exact afterR_complete_absent hr hkl hhas (fun hn => ihr n f _ hr hn hkl (by omega) hhas
        (fun nd hnd => hlook nd (List.mem_cons_of_mem _ (by simpa [List.drop_one] using hnd))))
    | false =>
      rw [hb] at hlook hhas
      simp only [Bool.false_eq_true, if_false] at hlook hhas ⊢
      exact afterR_complete_absent hl hkl hhas (fun hn => ihl n f _ hl hn hkl (by omega) hhas
        (fun nd hnd => hlook nd (List.mem_cons_of_mem _ (by simpa [List.drop_one] using hnd))))
  | edge p c ih =>
    intro m fuel key hwf hm hk hfuel hhas hlook
    obtain ⟨n, rfl, hp, hc⟩ := hwf.edge_inv
    have hplen : 0 < p.length := List.length_pos_iff.mpr hp
    obtain ⟨f, rfl⟩ : ∃ f, fuel = f + 1 := ⟨fuel - 1, by omega⟩
    rw [proveNodes_edge] at hlook
    have h0 := hlook _ (List.mem_cons_self ..)
    have hh0 : (PNode.edge p (c.child A)
        (if cached then some ((Tree.edge p c).hash A) else none)).hash A = (Tree.edge p c).hash A := by
      simp [PNode.hash, Tree.hash, Tree.child_felt]
    rw [hh0] at h0
    rw [resolveAux_succ h0 (by simp [hh0])]
    have hcomp : pathCompat p key = p.isPrefixOf key := by
      rw [pathCompat_comm]; exact pathCompat_of_le (by omega)
    cases hpre : p.isPrefixOf key with
    | false =>
      exact ⟨_, by simp only [step2, hcomp, hpre, Bool.not_false, if_true]; rfl⟩
    | true =>
      simp only [Tree.has, hpre, Bool.true_and] at hhas
      rw [hpre] at hlook
      simp only [step2, hcomp, hpre, Bool.not_true, Bool.false_eq_true, if_false, if_true] at hlook ⊢
      have hkl : (key.drop p.length).length = n := by simp; omega
      exact afterR_complete_absent hc hkl hhas (fun hn => ih n f _ hc hn hkl (by omega) hhas
        (fun nd hnd => hlook nd (List.mem_cons_of_mem _ hnd)))

/-- the empty-range claim "nothing at or right of `first`" with the honest proof of `first` is accepted
whenever it is true -/
theorem empty_complete (hI : Ideal A) (rc : RCfg) (hch : rc.checkHash = true) (hev : rc.earlyValue = false)
    (hlh : rc.leafHash = true) (s : Tree H) (n : Nat) (hwf : WF s n) (hnz : s.NZ A) (hn : 0 < n)
    (h256 : n < 256) (first : Path) (hk : first.length = n)
    (hsmall : ∀ k', k'.length = n → s.has k' = true → pathLt k' first = true)
    (legacy cached : Bool) (P : PSet H)
    (hlook : ∀ nd ∈ s.proveNodes A legacy cached first, P.get (nd.hash A) = some nd) :
    verifyEmpty A rc (s.hash A) first P = RRes.ok false := by
  have hnothas : s.has first = false := by
    cases hh : s.has first with
    | false => rfl
    | true => have := hsmall first hk hh; rw [pathLt_irrefl] at this; cases this
  obtain ⟨path, hp⟩ := resolve_complete_absent (A := A) rc P legacy cached s n verifyFuel first hwf hn hk
    (verifyFuel_ge h256) hnothas hlook
  have hm := resolve_more hI rc hch hev hlh P true s n verifyFuel first hwf hnz hn hk
  rw [hp] at hm
  have hnr : hasRight path = false := by
    cases hr : hasRight path with
    | false => rfl
    | true =>
      obtain ⟨k', hk', hhas, hgt⟩ := (show (hasRight path = true ↔ GtIn s n first) from hm).mp hr
      have hlt := hsmall k' hk' hhas
      rcases pathLt_trichotomy k' first (by omega) with h | h | h
      · subst h; rw [pathLt_irrefl] at hgt; cases hgt
      · -- k' < first and first < k'
        have h1 := (pathVal_lt_iff k' first (by omega)).mpr hlt
        have h2 := (pathVal_lt_iff first k' (by omega)).mpr hgt
        omega
      · have h1 := (pathVal_lt_iff k' first (by omega)).mpr hlt
        have h2 := (pathVal_lt_iff first k' (by omega)).mpr hgt
        omega
  have hroot : s.hash A ≠ A.zero := hash_ne_zero hI hwf hn
  simp [verifyEmpty, hroot, hp, hnr]

theorem embedT_phash (t : Tree H) : (embedT t).phash A = t.hash A := by
  induction t with
  | leaf v => rfl
  | bin l r ihl ihr => simp [embedT, PT.phash, Tree.hash, ihl, ihr]
  | edge p c ih => simp [embedT, PT.phash, Tree.hash, ih]

theorem embed_phash (t : Trie H) : (embed t).phash A = Trie.hash A t := by
  cases t with
  | none => rfl
  | some s => exact embedT_phash s

/-- the no-proof case accepts the complete sorted list of the trie it was built from -/
theorem all_complete (n : Nat) (kvs : List (Path × H)) (hv : ∀ kv ∈ kvs, kv.2 ≠ A.zero)
    (hs : keysNonDecreasing kvs = true) :
    verifyAll A (Trie.hash A (build n kvs)) n kvs = RRes.ok false := by
  unfold verifyAll
  have h1 : (kvs.any fun kv => decide (kv.2 = A.zero)) = false := by
    rw [List.any_eq_false]
    intro kv hkv
    simpa using hv kv hkv
  simp [h1, hs, embed_phash]


theorem keysNonDecreasing_map (n : Nat) : ∀ (kvs : List (Nat × H)), (∀ kv ∈ kvs, kv.1 < 2 ^ n) →
    feltKeysMonotonic kvs = true →
    keysNonDecreasing (kvs.map (fun kv : Nat × H => (pathOfNat n kv.1, kv.2))) = true := by
  intro kvs
  induction kvs with
  | nil => intro _ _; rfl
  | cons a rest ih =>
    intro hb hm
    cases rest with
    | nil => rfl
    | cons b rest' =>
      simp only [feltKeysMonotonic, Bool.and_eq_true, decide_eq_true_eq] at hm
      simp only [List.map_cons, keysNonDecreasing, Bool.and_eq_true, Bool.not_eq_true']
      refine ⟨?_, ?_⟩
      · cases hlt : pathLt (pathOfNat n b.1) (pathOfNat n a.1) with
        | false => rfl
        | true =>
          have := (pathLt_pathOfNat (hb b (by simp)) (hb a (by simp))).mp hlt
          omega
      · have := ih (fun kv hkv => hb kv (List.mem_cons_of_mem _ hkv)) hm.2
        simpa [List.map_cons] using this

/-- `VerifyRangeProof` accepts, in its no-proof case, the complete sorted list of the trie -/
theorem verifyRange_all_complete (rc : RCfg) (ck : Bool) (n : Nat) (first : Nat) (kvs : List (Nat × H))
    (hf : first < 2 ^ n) (hb : ∀ kv ∈ kvs, kv.1 < 2 ^ n) (hv : ∀ kv ∈ kvs, kv.2 ≠ A.zero)
    (hm : feltKeysMonotonic kvs = true) :
    verifyRange A rc ck n (Trie.hash A (build n (kvs.map (fun kv : Nat × H => (pathOfNat n kv.1, kv.2))))) first kvs none
      = RRes.ok false := by
  unfold verifyRange
  have h1 : (kvs.any fun kv => decide (kv.2 = A.zero)) = false := by
    rw [List.any_eq_false]; intro kv hkv; simpa using hv kv hkv
  have h2 : (kvs.any fun kv => decide (2 ^ n ≤ kv.1)) = false := by
    rw [List.any_eq_false]; intro kv hkv; have := hb kv hkv; simp; omega
  have h3 : decide (2 ^ n ≤ first) = false := by simp; omega
  simp only [hm, h1, h2, h3, Bool.not_true, Bool.false_eq_true, if_false, Bool.or_self, Bool.and_false]
  apply all_complete
  · intro kv hkv
    obtain ⟨x, hx, rfl⟩ := List.mem_map.mp hkv
    exact hv x hx
  · exact keysNonDecreasing_map n kvs hb hm

/-- … and, with the honest proof of `first`, the empty range whenever no key of the trie is at or right of `first` -/
theorem verifyRange_empty_complete (hI : Ideal A) (rc : RCfg) (hch : rc.checkHash = true)
    (hev : rc.earlyValue = false) (hlh : rc.leafHash = true) (ck : Bool) (s : Tree H) (n : Nat)
    (hwf : WF s n) (hnz : s.NZ A) (hn : 0 < n) (h256 : n < 256) (first : Nat) (hf : first < 2 ^ n)
    (hsmall : ∀ k, k < 2 ^ n → first ≤ k → s.has (pathOfNat n k) = false)
    (legacy cached : Bool) (P : PSet H)
    (hlook : ∀ nd ∈ s.proveNodes A legacy cached (pathOfNat n first), P.get (nd.hash A) = some nd) :
    verifyRange A rc ck n (s.hash A) first [] (some P) = RRes.ok false := by
  unfold verifyRange
  have h3 : decide (2 ^ n ≤ first) = false := by simp; omega
  simp only [feltKeysMonotonic, List.any_nil, h3, Bool.not_true, Bool.false_eq_true, if_false, Bool.or_self,
    Bool.and_false, List.getLast?_nil, List.map_nil]
  apply empty_complete hI rc hch hev hlh s n hwf hnz hn h256 _ (pathOfNat_length _ _) _ legacy cached P hlook
  intro k' hk' hhas
  -- k' is the path of its value
  have hv : pathVal k' < 2 ^ n := by rw [← hk']; exact pathVal_lt k'
  have hk'' : pathOfNat n (pathVal k') = k' :=
    pathVal_inj _ _ (by rw [pathOfNat_length, hk']) (pathVal_pathOfNat hv)
  rw [← hk'']
  rw [pathLt_pathOfNat hv hf]
  rcases Nat.lt_or_ge (pathVal k') first with h | h
  · exact h
  · have := hsmall _ hv h
    rw [hk''] at this
    rw [this] at hhas
    cases hhas

/-- … and the single element with the honest proof of a key that is in the trie -/
theorem verifyRange_single_complete (rc : RCfg) (ck : Bool) (s : Tree H) (n : Nat) (hwf : WF s n)
    (hn : 0 < n) (h256 : n < 256) (k : Nat) (hk : k < 2 ^ n) (hhas : s.has (pathOfNat n k) = true)
    (hv : s.get A (pathOfNat n k) ≠ A.zero) (legacy cached : Bool) (P : PSet H)
    (hlook : ∀ nd ∈ s.proveNodes A legacy cached (pathOfNat n k), P.get (nd.hash A) = some nd) :
    ∃ more, verifyRange A rc ck n (s.hash A) k [(k, s.get A (pathOfNat n k))] (some P) = RRes.ok more := by
  obtain ⟨more, hm⟩ := single_complete rc s n hwf hn h256 _ (pathOfNat_length _ _) hhas hv legacy cached P hlook
  refine ⟨more, ?_⟩
  unfold verifyRange
  have h3 : decide (2 ^ n ≤ k) = false := by simp; omega
  simp [feltKeysMonotonic, hv, h3, hm]


end


section
variable {A : HashAlg H}

/-- an edge path survives the wire: `AsProofNode (path felt, length)` gives the bits back (lengths below 256) -/
theorem decode_encode_path (p : Path) (h : p.length < 256) : decodePath (encodePath p) = p := by
  unfold decodePath encodePath
  simp only [Nat.mod_eq_of_lt h]
  exact pathVal_inj _ _ (by rw [pathOfNat_length]) (pathVal_pathOfNat (pathVal_lt p))

/-- the raw merged set (before the wire): every requested key verifies -/
theorem proveAll_verifies_raw (hI : Ideal A) (cfg : Cfg) (hz : cfg.zeroRoot = true) (t : Trie H) (n : Nat)
    (hwf : Trie.WF t n) (hnz : Trie.NZ A t) (hn : 0 < n) (h256 : n < 256) (legacy : Bool) (keys : List Nat)
    (k : Nat) (hk : k ∈ keys) :
    verifyL A cfg (t.hash A) (pathOfNat n k) (proveAll A legacy n t keys) = Res.ok (t.get A (pathOfNat n k)) := by
  cases t with
  | none => simp [verifyL, Trie.hash, Trie.get, hz]
  | some s =>
    obtain ⟨hsub, hcov⟩ := proveAll_spec (A := A) legacy n (some s) keys
    apply legacy_complete_keys hI cfg s n hwf hnz hn h256 _ (pathOfNat_length _ _) legacy false
    · intro nd hnd
      have : (nd.hash A, nd) ∈ Trie.prove A legacy false (some s) (pathOfNat n k) :=
        List.mem_map.mpr ⟨nd, hnd, rfl⟩
      exact hcov k hk _ this
    · intro e he
      obtain ⟨k', _, hm⟩ := hsub e he
      exact toPSet_consistent _ e hm

end

end Juno.C10
