/-
C10 — model of juno's Merkle proofs (core/trie/proof.go, core/trie2/proof.go,
core/trie2/trienode/node.go, core/trie2/hasher.go).  Core Lean only (linked into `c10drv`).

* `HashAlg H` is the hash primitive as a parameter: the two-argument hash (Pedersen / Poseidon),
  the embedding of small numbers into felts and felt addition of a length.  `HashAlg.edge` is
  `Edge.Hash` / `EdgeNode.Hash` (`H(child, pathFelt) + len`), `HashAlg.bin` is `Binary.Hash`.
  The theorems instantiate it with hypotheses (`Ideal`), the driver with a table of real hash
  evaluations supplied by the harness, the examples with the free term algebra `HTerm`.
* `Tree` is the binary/edge/leaf tree both tries denote (legacy flat storage nodes are an edge
  followed by a binary node; `proveNodes true` emits exactly the nodes `core/trie.Prove` emits).
* `PNode` is a proof node.  Legacy nodes (`trie.Binary`, `trie.Edge`) carry felts only; trie2 nodes
  (`trienode.BinaryNode`, `trienode.EdgeNode`) carry for every child the Go type of the child
  (`HashNode`, `ValueNode`, nil = `Tag`) and the cached hash of `nodeFlag.Hash` — both are read by
  `trie2.VerifyProof`, so they are part of the model.
* `verifyL` transcribes `trie.VerifyProof`, `verify2` transcribes `trie2.VerifyProof`
  (`hasher.hash`, `get(node, key, false)`).  `Cfg` says which of the places where the verifiers of
  today leave the property are present in the code the harness looks at (the harness probes the
  real code and passes the flags).
-/
namespace Juno.C10

abbrev Path := List Bool

/-- `BitArray.Felt()`: the bits as a big-endian number. -/
def pathVal : Path → Nat
  | [] => 0
  | b :: p => (if b then 2 ^ p.length else 0) + pathVal p

structure HashAlg (H : Type) where
  zero : H
  ofNat : Nat → H
  h2 : H → H → H
  addLen : H → Nat → H

variable {H : Type}

/-- `Binary.Hash`, `BinaryNode.Hash`: `hash(left, right)`. -/
def HashAlg.bin (A : HashAlg H) (a b : H) : H := A.h2 a b

/-- `Edge.Hash`, `EdgeNode.Hash`: `hash(child, pathFelt) + len`. -/
def HashAlg.edge (A : HashAlg H) (c : H) (p : Path) : H :=
  A.addLen (A.h2 c (A.ofNat (pathVal p))) p.length

/-- What the theorems assume of the hash: node hashes are injective, the two kinds never collide
and neither is the zero felt (the root of the empty trie / the absent value). -/
structure Ideal (A : HashAlg H) : Prop where
  bin_inj : ∀ a b c d, A.bin a b = A.bin c d → a = c ∧ b = d
  edge_inj : ∀ c p c' p', A.edge c p = A.edge c' p' → c = c' ∧ p = p'
  /-- a binary and an edge node hash never coincide — EXCEPT in the one case where they coincide
  structurally in felt arithmetic: `bin c 0 = H(c, 0) = edge c []` (empty path: path felt 0, length
  0). Honest tries have neither empty edge paths (`WF`) nor zero children (`NZ`), the verifiers do
  accept such nodes in a node set, so the exception is part of the statement. -/
  bin_ne_edge : ∀ a b c p, (p ≠ [] ∨ b ≠ A.zero) → A.bin a b ≠ A.edge c p
  bin_ne_zero : ∀ a b, A.bin a b ≠ A.zero
  edge_ne_zero : ∀ c p, A.edge c p ≠ A.zero

/-- No hash cycles: some rank strictly decreases from a node hash to the child hashes. -/
def Acyclic (A : HashAlg H) : Prop :=
  ∃ rank : H → Nat, (∀ a b, rank a < rank (A.bin a b) ∧ rank b < rank (A.bin a b)) ∧
    (∀ c p, rank c < rank (A.edge c p))

/-! ### Trees -/

inductive Tree (H : Type) where
  | leaf (v : H)
  | bin (l r : Tree H)
  | edge (p : Path) (c : Tree H)
  deriving Repr

/-- Well-formed at height `n`: leaves exactly at depth `n`, no empty edge path. -/
inductive WF : Tree H → Nat → Prop where
  | leaf (v : H) : WF (.leaf v) 0
  | bin {l r : Tree H} {n : Nat} : WF l n → WF r n → WF (.bin l r) (n + 1)
  | edge {p : Path} {c : Tree H} {n : Nat} : p ≠ [] → WF c n → WF (.edge p c) (p.length + n)

def Tree.hash (A : HashAlg H) : Tree H → H
  | .leaf v => v
  | .bin l r => A.bin (l.hash A) (r.hash A)
  | .edge p c => A.edge (c.hash A) p

/-- `Trie.Get`: the value at `k`, the zero felt when the key is absent. -/
def Tree.get (A : HashAlg H) : Tree H → Path → H
  | .leaf v, _ => v
  | .bin l r, k => if k.headD false then r.get A k.tail else l.get A k.tail
  | .edge p c, k => if p.isPrefixOf k then c.get A (k.drop p.length) else A.zero

/-- the key is in the tree: every edge on the way matches -/
def Tree.has : Tree H → Path → Bool
  | .leaf _, _ => true
  | .bin l r, k => if k.headD false then r.has k.tail else l.has k.tail
  | .edge p c, k => p.isPrefixOf k && c.has (k.drop p.length)

/-- A trie is empty (`none`, root hash zero) or a tree. -/
abbrev Trie (H : Type) := Option (Tree H)

def Trie.hash (A : HashAlg H) : Trie H → H
  | none => A.zero
  | some t => t.hash A

def Trie.get (A : HashAlg H) : Trie H → Path → H
  | none, _ => A.zero
  | some t, k => t.get A k

/-! ### Proof nodes -/

inductive Tag where
  | hash | value | nil
  deriving DecidableEq, Repr

/-- The Go type of a child of a trie2 proof node, as `trie2.VerifyProof`'s switch sees it: the three
collapsed shapes, or an EMBEDDED `*EdgeNode` / `*BinaryNode` with (`embCached`) or without
(`embPlain`) a cached hash flag. `hasher.proofHash` hashes an embedded child through `hasher.hash`
(the cached flag if set, else recursively), so for the parent's hash it counts as a hash node holding
that felt (`h`). -/
inductive Shape where
  | hash | value | nil | embCached | embPlain
  deriving DecidableEq, Repr

structure Child (H : Type) where
  shape : Shape
  h : H
  deriving Repr

/-- what the child is after `hasher.proofHash` collapsed its parent -/
def Child.tag (c : Child H) : Tag :=
  match c.shape with
  | .hash | .embCached | .embPlain => .hash
  | .value => .value
  | .nil => .nil

inductive PNode (H : Type) where
  | bin (l r : Child H) (cache : Option H)
  | edge (p : Path) (c : Child H) (cache : Option H)
  deriving Repr

/-- The felt a child contributes to its parent's hash (`HashNode.Hash`, `ValueNode.Hash`;
a nil child is replaced by `NilValueNode` in `hashBinaryChildren`). -/
def Child.felt (A : HashAlg H) (c : Child H) : H :=
  match c.tag with
  | .nil => A.zero
  | _ => c.h

/-- The recomputed hash of a proof node. -/
def PNode.hash (A : HashAlg H) : PNode H → H
  | .bin l r _ => A.bin (l.felt A) (r.felt A)
  | .edge p c _ => A.edge (c.felt A) p

def PNode.cache : PNode H → Option H
  | .bin _ _ c => c
  | .edge _ _ c => c

/-- A proof node set (`utils.OrderedSet[felt.Felt, node]`): hash ↦ node. -/
abbrev PSet (H : Type) := List (H × PNode H)

def PSet.get [DecidableEq H] (s : PSet H) (h : H) : Option (PNode H) :=
  match s with
  | [] => none
  | (k, n) :: rest => if k = h then some n else PSet.get rest h

/-! ### Provers -/

def Tree.child (A : HashAlg H) (t : Tree H) : Child H :=
  match t with
  | .leaf v => ⟨.value, v⟩
  | _ => ⟨.hash, t.hash A⟩

/-- The proof node of a subtree as `hasher.proofHash` collapses it (children become hash nodes,
leaves stay value nodes; `cached` = the node carries its `nodeFlag.Hash`). -/
def Tree.pnode (A : HashAlg H) (cached : Bool) (t : Tree H) : Option (PNode H) :=
  match t with
  | .leaf _ => none
  | .bin l r => some (.bin (l.child A) (r.child A) (if cached then some (t.hash A) else none))
  | .edge p c => some (.edge p (c.child A) (if cached then some (t.hash A) else none))

/-- Nodes of the proof of `k`, root first.  `legacy = false`: `trie2.Trie.Prove` (the walk stops at
the edge that does not match).  `legacy = true`: `trie.Trie.Prove` — `nodesFromRoot` also returns
the storage node whose key diverges, and `storageNodeToProofNode` emits both its edge and its
binary part. -/
def Tree.proveNodes (A : HashAlg H) (legacy cached : Bool) : Tree H → Path → List (PNode H)
  | .leaf _, _ => []
  | .bin l r, k =>
    ((Tree.bin l r).pnode A cached).toList ++
      (if k.headD false then r.proveNodes A legacy cached k.tail
       else l.proveNodes A legacy cached k.tail)
  | .edge p c, k =>
    ((Tree.edge p c).pnode A cached).toList ++
      (if p.isPrefixOf k then c.proveNodes A legacy cached (k.drop p.length)
       else if legacy then (c.pnode A cached).toList else [])

def toPSet (A : HashAlg H) (ns : List (PNode H)) : PSet H := ns.map (fun n => (n.hash A, n))

def Trie.prove (A : HashAlg H) (legacy cached : Bool) (t : Trie H) (k : Path) : PSet H :=
  match t with
  | none => []
  | some t => toPSet A (t.proveNodes A legacy cached k)

/-! ### The trie of a key/value set (the Starknet definition; used by the driver to rebuild the
tree the real tries hold, so that `proveNodes` can be compared with the real `Prove`) -/

/-- prepend a path to a subtree, merging with an edge below (no edge under an edge) -/
def mkEdge (p : Path) (c : Tree H) : Tree H :=
  match p with
  | [] => c
  | _ => match c with
    | .edge q d => .edge (p ++ q) d
    | _ => .edge p c

def keysUnder (b : Bool) (kvs : List (Path × H)) : List (Path × H) :=
  kvs.filterMap (fun kv => match kv.1 with
    | x :: t => if x = b then some (t, kv.2) else none
    | [] => none)

/-- the tree of height `h` holding `kvs` (keys of length `h`, distinct); `none` = empty -/
def build : Nat → List (Path × H) → Trie H
  | 0, kvs => match kvs.getLast? with   -- `Update` of the same key twice: the last value stays
    | some (_, v) => some (.leaf v)
    | none => none
  | _ + 1, [] => none
  | h + 1, kvs =>
    match build h (keysUnder false kvs), build h (keysUnder true kvs) with
    | none, none => none
    | some a, none => some (mkEdge [false] a)
    | none, some b => some (mkEdge [true] b)
    | some a, some b => some (.bin a b)

/-! ### Verifiers -/

inductive Res (H : Type) where
  | ok (v : H)
  | notFound      -- "proof node not found"
  | mismatch      -- "proof node hash mismatch"
  | keyLen        -- legacy: "key length less than current position"
  | earlyValue    -- trie2 (repaired variant only): value node before the key is consumed
  | badKey        -- key felt ≥ 2^height (repaired variant only)
  | fuel          -- the model's iteration bound was hit
  deriving Repr, DecidableEq

/-- `BitArray.EqualMSBs`: one is a prefix of the other. -/
def pathCompat (a b : Path) : Bool := a.isPrefixOf b || b.isPrefixOf a

/-- Iteration bound of the verifier loops (`for { … }` in Go). Every iteration of an accepting run
on a well-formed trie consumes at least one of at most 255 key bits. -/
def verifyFuel : Nat := 600

/-- The places where the verifiers of today leave the property; the harness probes the real code
and tells the driver which variant it is looking at.
`trustCache` (trie2): `hasher.hash` returns `nodeFlag.Hash` of the proof node when it is set instead
of recomputing.  `earlyValue` (trie2): a child of Go type `ValueNode` ends the walk with that felt
as the value even when key bits remain.  `zeroRoot` (both): `false` = a zero root (empty trie) is
looked up in the node set like any other hash, so the empty proof of the empty trie is rejected;
`true` = a zero root means every key is absent. -/
structure Cfg where
  trustCache : Bool
  earlyValue : Bool
  zeroRoot : Bool
  /-- trie2: the walk continues on the collapsed copy that was hashed (`get(collapsed, …)`); `false` =
  on the node as given, so that an embedded child is stepped over: with a cached flag the walk jumps to
  that hash, without one the SAME node is entered again with the key already shortened -/
  walkCollapsed : Bool
  /-- both: a key felt ≥ 2^height is refused; `false` = `SetFelt(height, key)` silently keeps the low
  `height` bits, so the felt `k + 2^height` is verified as the key `k` -/
  checkKey : Bool
  deriving Repr, DecidableEq

/-- the code at the commit the work started from (0308209): regression witnesses only -/
def Cfg.asIs : Cfg := ⟨true, true, false, false, false⟩
/-- /repo after aab3e5b + dbf9f09 and before 616d4a4: cached flags not trusted, early value rejected,
zero root = empty trie, but the walk still uses the node as given (regression witnesses only) -/
def Cfg.at997852f : Cfg := ⟨false, false, true, false, false⟩
/-- /repo since 616d4a4 (all repairs): THE model of both `VerifyProof`; also the independent verifier
of the harness -/
def Cfg.strict : Cfg := ⟨false, false, true, true, true⟩

/-- `trie.VerifyProof` (core/trie/proof.go:144). `curPos` is a `uint8`. -/
def verifyLAux [DecidableEq H] (A : HashAlg H) (proof : PSet H) (key : Path) :
    Nat → H → Nat → Res H
  | 0, _, _ => .fuel
  | fuel + 1, expected, curPos =>
    match proof.get expected with
    | none => .notFound
    | some node =>
      if node.hash A ≠ expected then .mismatch else
      match node with
      | .bin l r _ =>
        if key.length ≤ curPos then .keyLen else
        let next := if key.getD curPos false then r.felt A else l.felt A
        let pos := (curPos + 1) % 256
        if pos ≥ key.length then .ok next else verifyLAux A proof key fuel next pos
      | .edge p c _ =>
        if !pathCompat (key.drop curPos) p then .ok A.zero else
        let pos := (curPos + p.length) % 256
        if pos ≥ key.length then .ok (c.felt A) else verifyLAux A proof key fuel (c.felt A) pos

def verifyL [DecidableEq H] (A : HashAlg H) (cfg : Cfg) (root : H) (key : Path) (proof : PSet H) :
    Res H :=
  if cfg.zeroRoot && root = A.zero then .ok A.zero else verifyLAux A proof key verifyFuel root 0

/-- `hasher.hash(node)` as used by `trie2.VerifyProof`. -/
def PNode.hash2 (A : HashAlg H) (cfg : Cfg) (n : PNode H) : H :=
  if cfg.trustCache then (match n.cache with | some c => c | none => n.hash A) else n.hash A

/-- `get(node, key, false)`: one step down; `none` = Go `nil`. -/
def step2 (n : PNode H) (key : Path) : Option (Child H) × Path :=
  match n with
  | .edge p c _ => if !pathCompat p key then (none, key) else (some c, key.drop p.length)
  | .bin l r _ => (some (if key.headD false then r else l), key.drop 1)

/-- `trie2.VerifyProof` (core/trie2/proof.go:110). -/
def verify2Aux [DecidableEq H] (A : HashAlg H) (cfg : Cfg) (proof : PSet H) :
    Nat → H → Path → Res H
  | 0, _, _ => .fuel
  | fuel + 1, expected, key =>
    match proof.get expected with
    | none => .notFound
    | some node =>
      if node.hash2 A cfg ≠ expected then .mismatch else
      match step2 node key with
      | (none, _) => .ok A.zero
      | (some c, key') =>
        if !cfg.walkCollapsed && c.shape = .embPlain then verify2Aux A cfg proof fuel expected key'
        else if !cfg.walkCollapsed && c.shape = .embCached then verify2Aux A cfg proof fuel c.h key'
        else
        match c.tag with
        | .nil =>
          -- walking the collapsed copy a nil child is `NilValueNode`: a value node holding zero
          if cfg.walkCollapsed && !(cfg.earlyValue || key'.length = 0) then .earlyValue else .ok A.zero
        | .hash => if key'.length = 0 then .ok c.h else verify2Aux A cfg proof fuel c.h key'
        | .value => if cfg.earlyValue || key'.length = 0 then .ok c.h else .earlyValue

def verify2 [DecidableEq H] (A : HashAlg H) (cfg : Cfg) (root : H) (key : Path) (proof : PSet H) :
    Res H :=
  if cfg.zeroRoot && root = A.zero then .ok A.zero else verify2Aux A cfg proof verifyFuel root key

/-! ### keys as felts: `BitArray.SetFelt(height, key)` -/

/-- the low `h` bits of `n`, most significant first -/
def pathOfNat : Nat → Nat → Path
  | 0, _ => []
  | h + 1, n => n.testBit h :: pathOfNat h n

/-- `trie.VerifyProof` on a key given as a felt (a natural number below the field prime) -/
def verifyLFelt [DecidableEq H] (A : HashAlg H) (cfg : Cfg) (height : Nat) (root : H) (key : Nat)
    (proof : PSet H) : Res H :=
  if cfg.checkKey && key ≥ 2 ^ height then .badKey else verifyL A cfg root (pathOfNat height key) proof

/-- `trie2.VerifyProof` on a key given as a felt -/
def verify2Felt [DecidableEq H] (A : HashAlg H) (cfg : Cfg) (height : Nat) (root : H) (key : Nat)
    (proof : PSet H) : Res H :=
  if cfg.checkKey && key ≥ 2 ^ height then .badKey else verify2 A cfg root (pathOfNat height key) proof

/-- strict lexicographic order on bit strings (= numeric order for equal lengths) -/
def pathLt : Path → Path → Bool
  | a :: as, b :: bs => if a = b then pathLt as bs else (!a && b)
  | _, _ => false

/-- no leaf holds the zero felt (the tries never store zero) -/
def Tree.NZ (A : HashAlg H) : Tree H → Prop
  | .leaf v => v ≠ A.zero
  | .bin l r => l.NZ A ∧ r.NZ A
  | .edge _ c => c.NZ A


/-! ### trie2 range proofs: the single-element and the empty-range case -/

/-- Variant of `trie2.VerifyRangeProof`'s path resolution the harness is looking at.
`checkHash`: `retrieveNode` recomputes the hash of the node it fetched (repaired); the code as it is
takes whatever sits under the hash.  `earlyValue`: a child of Go type `ValueNode` ends `proofToPath`
with that felt as the value wherever it is (as is).  `leafHash`: a child of Go type `HashNode` reached
when the key is consumed is the leaf value (repaired, as `VerifyProof` does); the code as it is
looks its felt up as a node hash and walks on with an empty key. -/
structure RCfg where
  checkHash : Bool
  earlyValue : Bool
  leafHash : Bool
  /-- a zero root is the empty trie: the empty-range claim holds without looking at the node set
  (repaired); the code as it is looks the zero root up and fails -/
  zeroRoot : Bool
  /-- multi-element ranges: `unset` also clears a boundary leaf that hangs directly under a binary
  node (repaired); the code as it is leaves it in place -/
  unsetLeaf : Bool
  deriving Repr, DecidableEq

def RCfg.asIs : RCfg := ⟨false, true, false, false, false⟩
def RCfg.strict : RCfg := ⟨true, false, true, true, true⟩

/-- `proofToPath(rootHash, nil, key, proof, allowNonExistent)` on a fresh root: the nodes resolved
along the key, root first, each with the key that remained when it was entered, and the value
found (`none` = the walk ended at a nil child / a mismatching edge). Result `none` = error. -/
def resolveAux [DecidableEq H] (A : HashAlg H) (rc : RCfg) (P : PSet H) (allowNonExistent : Bool) :
    Nat → H → Path → Option (List (PNode H × Path) × Option H)
  | 0, _, _ => none
  | fuel + 1, expected, key =>
    match P.get expected with
    | none => none
    | some node =>
      if rc.checkHash && node.hash A ≠ expected then none else
      match step2 node key with
      | (none, _) => if allowNonExistent then some ([(node, key)], none) else none
      | (some c, key') =>
        match c.tag with
        | .nil => if allowNonExistent then some ([(node, key)], none) else none
        | .value => if rc.earlyValue || key'.length = 0 then some ([(node, key)], some c.h) else none
        | .hash =>
          if rc.leafHash && key'.length = 0 then some ([(node, key)], some c.h) else
          match resolveAux A rc P allowNonExistent fuel c.h key' with
          | none => none
          | some (rest, v) => some ((node, key) :: rest, v)

/-- `BitArray.Cmp(a, b) > 0`: by length first, then by value. -/
def cmpGt (a b : Path) : Bool :=
  if a.length ≠ b.length then decide (a.length > b.length) else decide (pathVal a > pathVal b)

/-- `hasRightElement(root, key)` on the resolved path. -/
def hasRight : List (PNode H × Path) → Bool
  | [] => false
  | (.bin _ r _, key) :: rest => if key.headD false = false && r.tag ≠ Tag.nil then true else hasRight rest
  | (.edge p _ _, key) :: rest =>
    if !pathCompat p key then
      cmpGt (if key.length > p.length then p ++ List.replicate (key.length - p.length) false else p) key
    else hasRight rest

inductive RRes where
  | ok (more : Bool)
  | err
  deriving Repr, DecidableEq

/-- `VerifyRangeProof(root, key, [key], [value], proof)` — `verifySingleElementProof`. -/
def verifySingle [DecidableEq H] (A : HashAlg H) (rc : RCfg) (root : H) (key : Path) (value : H) (P : PSet H) : RRes :=
  if value = A.zero then .err else
  match resolveAux A rc P false verifyFuel root key with
  | none => .err
  | some (path, val) =>
    match val with
    | none => .err
    | some v => if v = value then .ok (hasRight path) else .err

/-- `VerifyRangeProof(root, first, nil, nil, proof)` — `verifyEmptyRangeProof`. -/
def verifyEmpty [DecidableEq H] (A : HashAlg H) (rc : RCfg) (root : H) (first : Path) (P : PSet H) : RRes :=
  if rc.zeroRoot && root = A.zero then .ok false else
  match resolveAux A rc P true verifyFuel root first with
  | none => .err
  | some (path, val) => if val.isSome || hasRight path then .err else .ok false

/-! ### trie2 range proofs: the general case (two edge paths) -/

/-- The partial trie `proofToPath` links together from the node set: resolved nodes, hash nodes for
what was not fetched, nil for what `unsetInternal` removed. -/
inductive PT (H : Type) where
  | nil
  | hash (h : H)
  | leaf (v : H)
  | bin (l r : PT H)
  | edge (p : Path) (c : PT H)
  deriving Repr

def PT.phash (A : HashAlg H) : PT H → H
  | .nil => A.zero
  | .hash h => h
  | .leaf v => v
  | .bin l r => A.bin (l.phash A) (r.phash A)
  | .edge p c => A.edge (c.phash A) p

def ptOfChild (c : Child H) : PT H :=
  match c.tag with
  | .nil => .nil
  | .hash => .hash c.h
  | .value => .leaf c.h

def ptOfNode : PNode H → PT H
  | .bin l r _ => .bin (ptOfChild l) (ptOfChild r)
  | .edge p c _ => .edge p (ptOfChild c)

/-- `proofToPath(rootHash, root, key, proof, allowNonExistent = true)`: resolve the hash nodes met
along `key`; `none` = error. -/
def resolvePT [DecidableEq H] (A : HashAlg H) (rc : RCfg) (P : PSet H) : Nat → PT H → Path → Option (PT H)
  | 0, _, _ => none
  | fuel + 1, t, key =>
    match t with
    | .nil => some .nil
    | .leaf v => if rc.earlyValue || key.length = 0 then some (.leaf v) else none
    | .hash h =>
      if rc.leafHash && key.length = 0 then some (.leaf h) else
      match P.get h with
      | none => none
      | some nd =>
        if rc.checkHash && nd.hash A ≠ h then none else resolvePT A rc P fuel (ptOfNode nd) key
    | .bin l r =>
      if key.headD false then (resolvePT A rc P fuel r (key.drop 1)).map (fun r' => .bin l r')
      else (resolvePT A rc P fuel l (key.drop 1)).map (fun l' => .bin l' r)
    | .edge p c =>
      if !pathCompat p key then some (.edge p c)
      else (resolvePT A rc P fuel c (key.drop p.length)).map (fun c' => .edge p c')

/-- what is known about `k` in a partial trie: `some v` (v = zero: absent), `none` = not resolved /
shape inconsistent with the key length -/
def PT.lookup (A : HashAlg H) : PT H → Path → Option H
  | .nil, _ => some A.zero
  | .hash _, _ => none
  | .leaf v, k => if k.length = 0 then some v else none
  | .bin l r, k => match k with
    | [] => none
    | b :: k' => if b then r.lookup A k' else l.lookup A k'
  | .edge p c, k =>
    if p.length = 0 then none
    else if p.isPrefixOf k then c.lookup A (k.drop p.length)
    else if p.length ≤ k.length then some A.zero else none

/-- position of a subtree relative to one end of the interval -/
inductive Bd where
  | unb              -- the whole subtree is on the inner side of this end
  | at (k : Path)    -- the end runs through the subtree: remaining boundary key
  | out              -- the whole subtree is beyond this end
  deriving Repr, DecidableEq

def lowerBin : Bd → Bd × Bd
  | .unb => (.unb, .unb)
  | .out => (.out, .out)
  | .at [] => (.unb, .unb)
  | .at (b :: k) => if b then (.out, .at k) else (.at k, .unb)

def upperBin : Bd → Bd × Bd
  | .unb => (.unb, .unb)
  | .out => (.out, .out)
  | .at [] => (.unb, .unb)
  | .at (b :: k) => if b then (.unb, .at k) else (.at k, .out)

def lowerEdge (p : Path) : Bd → Bd
  | .unb => .unb
  | .out => .out
  | .at k => if p.isPrefixOf k then .at (k.drop p.length)
             else if pathLt (k.take p.length) p then .unb else .out

def upperEdge (p : Path) : Bd → Bd
  | .unb => .unb
  | .out => .out
  | .at k => if p.isPrefixOf k then .at (k.drop p.length)
             else if pathLt p (k.take p.length) then .unb else .out

def embedT : Tree H → PT H
  | .leaf v => .leaf v
  | .bin l r => .bin (embedT l) (embedT r)
  | .edge p c => .edge p (embedT c)

def embed : Trie H → PT H
  | none => .nil
  | some t => embedT t

/-- the keys below an edge path, with the path stripped; `none` if some key is not below it -/
def stripPrefix (p : Path) (kvs : List (Path × H)) : Option (List (Path × H)) :=
  if kvs.all (fun kv => p.isPrefixOf kv.1) then some (kvs.map (fun kv => (kv.1.drop p.length, kv.2)))
  else none

/-- The trie `verifyRangeWithProof` hashes: the resolved partial trie with everything between the two
ends removed (`unsetInternal`) and the claimed entries inserted (`Trie.Update`), as a function of the
position of each subtree relative to the interval: beyond an end — untouched (an entry claimed there
must already be there with that value, else the insertion changes or breaks the trie); strictly
inside — replaced by the trie of the claimed entries; on an end — descend. `none` = rejected. -/
def fill [DecidableEq H] (A : HashAlg H) (rc : RCfg) : PT H → Bd → Bd → Nat → Bool → List (Path × H) → Option (PT H)
  | t, L, U, h, parentBin, kvs =>
    if L = .out ∨ U = .out then
      (if kvs.all (fun kv => decide (t.lookup A kv.1 = some kv.2)) then some t else none)
    else if L = .unb ∧ U = .unb then some (embed (build h kvs))
    else match t with
      | .nil => some (embed (build h kvs))
      | .hash _ => none
      | .leaf v =>
        if h ≠ 0 then none
        else if !rc.unsetLeaf && parentBin && kvs.isEmpty then some (.leaf v)
        else some (embed (build 0 kvs))
      | .bin l r =>
        match h with
        | 0 => none
        | h' + 1 =>
          match fill A rc l (lowerBin L).1 (upperBin U).1 h' true (keysUnder false kvs),
                fill A rc r (lowerBin L).2 (upperBin U).2 h' true (keysUnder true kvs) with
          | some l', some r' => some (.bin l' r')
          | _, _ => none
      | .edge p c =>
        if p.length = 0 ∨ h < p.length then none
        else
          let Lc := lowerEdge p L
          let Uc := upperEdge p U
          if Lc = .out ∨ Uc = .out then
            (if kvs.all (fun kv => decide ((PT.edge p c).lookup A kv.1 = some kv.2)) then some (.edge p c) else none)
          else if Lc = .unb ∧ Uc = .unb then some (embed (build h kvs))
          else match stripPrefix p kvs with
            | none => none
            | some kvs' =>
              match fill A rc c Lc Uc (h - p.length) false kvs' with
              | none => none
              | some .nil => some .nil
              | some c' => some (.edge p c')

/-- `hasRightElement(root, key)` on the partial trie -/
def hasRightPT : PT H → Path → Bool
  | .bin l r, k => match k with
    | [] => match r with | .nil => false | _ => true
    | b :: k' =>
      if !b && (match r with | .nil => false | _ => true) then true
      else if b then hasRightPT r k' else hasRightPT l k'
  | .edge p c, k =>
    if !pathCompat p k then
      cmpGt (if k.length > p.length then p ++ List.replicate (k.length - p.length) false else p) k
    else hasRightPT c (k.drop p.length)
  | _, _ => false

def keysNonDecreasing : List (Path × H) → Bool
  | a :: b :: rest => !pathLt b.1 a.1 && keysNonDecreasing (b :: rest)
  | _ => true

/-- `VerifyRangeProof(root, first, keys, values, proof)` with at least one key and `first ≠ last` or more
than one key — `verifyRangeWithProof`. Keys are `height` bits long. -/
def verifyMulti [DecidableEq H] (A : HashAlg H) (rc : RCfg) (root : H) (first : Path) (kvs : List (Path × H))
    (P : PSet H) : RRes :=
  match kvs.getLast? with
  | none => .err
  | some lastKV =>
    let last := lastKV.1
    if kvs.any (fun kv => decide (kv.2 = A.zero)) then .err
    else if !keysNonDecreasing kvs then .err
    else if !pathLt first last then .err
    else
      match resolvePT A rc P (2 * verifyFuel) (.hash root) first with
      | none => .err
      | some t1 =>
        match resolvePT A rc P (2 * verifyFuel) t1 last with
        | none => .err
        | some t2 =>
          match fill A rc t2 (.at first) (.at last) first.length false kvs with
          | none => .err
          | some f => if f.phash A = root then .ok (hasRightPT t2 last) else .err

/-- `VerifyRangeProof(root, first, keys, values, nil)`: no edge proof, the list is the whole trie —
the entries are inserted into an empty trie and the root compared. -/
def verifyAll [DecidableEq H] (A : HashAlg H) (root : H) (height : Nat) (kvs : List (Path × H)) : RRes :=
  if kvs.any (fun kv => decide (kv.2 = A.zero)) then .err
  else if !keysNonDecreasing kvs then .err
  else if (embed (build height kvs)).phash A = root then .ok false else .err

/-- the value the claimed entries give to `k`: the last entry with that key (`Update` in order) -/
def lastVal (kvs : List (Path × H)) (k : Path) : Option H :=
  ((kvs.filter (fun kv => kv.1 = k)).getLast?).map (·.2)


/-- the contract leaf `H(H(H(class_hash, storage_root), nonce), 0)` -/
def contractLeaf (A : HashAlg H) (classHash storageRoot nonce : H) : H :=
  A.bin (A.bin (A.bin classHash storageRoot) nonce) A.zero

/-! ### The free term algebra (ideal hash) -/

inductive HTerm where
  | felt (n : Nat)
  | ped (a b : HTerm)
  | add (a : HTerm) (n : Nat)
  deriving DecidableEq, Repr

def freeAlg : HashAlg HTerm := ⟨.felt 0, .felt, .ped, .add⟩

/-- the free algebra with the two identities of real felt arithmetic that matter structurally:
`ofNat 0 = zero` and `x + 0 = x` (so that `bin c 0 = edge c []`, as with real Pedersen) -/
def feltLikeAlg : HashAlg HTerm :=
  ⟨.felt 0, .felt, .ped, fun a n => if n = 0 then a else .add a n⟩

/-! ### The table-driven algebra of the driver: felts are numbers, `h2` is looked up in the list
of real hash evaluations the harness sends along, addition is modulo the field prime. -/

def feltPrime : Nat := 2 ^ 251 + 17 * 2 ^ 192 + 1

/-- A value no felt equals: answer of a missing table entry (never matches an expected hash). -/
def noFelt : Nat := 2 ^ 256

def tableLookup (tbl : List ((Nat × Nat) × Nat)) (a b : Nat) : Nat :=
  match tbl with
  | [] => noFelt
  | ((x, y), h) :: rest => if x = a ∧ y = b then h else tableLookup rest a b

def tableAlg (tbl : List ((Nat × Nat) × Nat)) : HashAlg Nat :=
  ⟨0, id, tableLookup tbl, fun a n => if a = noFelt then noFelt else (a + n) % feltPrime⟩

end Juno.C10
