import JunoModel.C10.Proofs
import JunoModel.C10.ProofsR5
import JunoModel.C10.ProofsComplete
import JunoModel.C10.ProofsR6
/-!
C10 — Merkle proofs verify against the root and cannot be forged by tampering.
Property theorems only (lemmas are in `Proofs.lean`; witnesses of defects that are fixed in /repo are
regression material and live in `Regress.lean`, not here).  Every theorem here is an obligation listed
in evidence/C10.json with its axioms.

Setting.  `A : HashAlg H` is the hash primitive.  `Ideal A`: binary and edge node hashes are injective,
never zero, and never equal to each other EXCEPT `bin c 0 = edge c []`, which holds structurally in
felt arithmetic (`H(c,0) + 0`); honest tries have no empty edge path (`WF`) and no zero child (`NZ`),
the verifiers do accept such nodes, so the exception is part of the hypothesis.  `Ideal` holds in the
free term algebra and in `feltLikeAlg` (free algebra with `ofNat 0 = zero`, `x + 0 = x`, where the
collision exists): `hash_hypotheses_satisfiable`.  `Acyclic A`: no hash cycles.
`Tree`/`Trie`: what both tries denote; `WF t n`: leaves exactly at depth n, no empty edge path; `NZ`: no
leaf holds zero; both hold for the trie of any key/value set with non-zero values
(`trie_of_entries_wf_nz`), which the real tries are compared against node for node.
`Tree.proveNodes` = the two provers, `verifyL` = `trie.VerifyProof`, `verify2` = `trie2.VerifyProof`.
A proof node's child has one of FIVE shapes (`Shape`): hash node, value node, nil, embedded node with /
without cached hash — all five arms of the Go switch.  `cfg : Cfg` is the variant of the verifiers the
harness finds in the tree under test: `Cfg.strict` = /repo today (since 616d4a4: walk on the collapsed
copy, key range check); the statements about `verify2` here are about that variant.  Range proofs (trie2):
`verifySingle`, `verifyEmpty`, `verifyAll`, `verifyMulti` with variant `RCfg` (`RCfg.strict` = /repo
today).  Heights `0 < n < 256` (path positions are `uint8`; juno uses 251).  Keys are bit paths; the
conversion felt ↦ path (`SetFelt(251, ·)`, drops bit 251) is `pathOfNat` in `verifyLFelt` /
`verify2Felt`, see `felt_key_alias` / `felt_key_checked`.
-/
namespace Juno.C10.Props
open Juno.C10

variable {H : Type} [DecidableEq H]

/-! ## The hypotheses are satisfiable -/

theorem hash_hypotheses_satisfiable :
    Ideal freeAlg ∧ Acyclic freeAlg ∧ Ideal feltLikeAlg ∧
    (∀ c, feltLikeAlg.bin c feltLikeAlg.zero = feltLikeAlg.edge c []) :=
  ⟨freeAlg_ideal, freeAlg_acyclic, feltLikeAlg_ideal, feltLikeAlg_collision⟩

/-- `WF` / `NZ` are not assumptions about some abstract tree: the trie of ANY key/value set with keys
of length `n` and non-zero values is well-formed of height `n`, holds no zero leaf, and holds exactly
the entries (last value of a repeated key, zero for an unlisted key). -/
theorem trie_of_entries_wf_nz (A : HashAlg H) (n : Nat) (kvs : List (Path × H))
    (hv : ∀ kv ∈ kvs, kv.2 ≠ A.zero) (t : Tree H) (h : build n kvs = some t) : WF t n ∧ t.NZ A :=
  ⟨build_wf n kvs t h, build_nz n kvs t hv h⟩

theorem trie_of_entries_get (A : HashAlg H) (n : Nat) (kvs : List (Path × H))
    (hl : ∀ kv ∈ kvs, kv.1.length = n) (k : Path) (hk : k.length = n) :
    Trie.get A (build n kvs) k = (lastVal kvs k).getD A.zero :=
  get_build n kvs k hl hk

/-! ## Completeness: the proof the node produces verifies to the actual value or absence -/

/-- `trie.VerifyProof`, every variant: returns `get t k` for ANY key (present; absent with the divergence
inside an edge / at a binary node / at the root / at the last bit) of any non-empty trie, on every
self-consistent node set that contains the prover's nodes (either prover; RPC merges the proofs of
several keys into one set). -/
theorem proof_complete_legacy (A : HashAlg H) (hI : Ideal A) (cfg : Cfg) (t : Tree H) (n : Nat)
    (hwf : WF t n) (hnz : t.NZ A) (hn : 0 < n) (h256 : n < 256) (k : Path) (hk : k.length = n)
    (legacy cached : Bool) (P : PSet H)
    (hsub : ∀ nd ∈ t.proveNodes A legacy cached k, (nd.hash A, nd) ∈ P)
    (hcons : ∀ e ∈ P, e.1 = e.2.hash A) :
    verifyL A cfg (t.hash A) k P = Res.ok (t.get A k) :=
  legacy_complete_tree hI cfg t n hwf hnz hn h256 k hk legacy cached P hsub hcons

/-- `trie2.VerifyProof`, every variant, with or without cached hash flags: returns `get t k` on any node
set that returns the honest proof nodes for their hashes. -/
theorem proof_complete_trie2 (A : HashAlg H) (hI : Ideal A) (cfg : Cfg) (t : Tree H) (n : Nat)
    (hwf : WF t n) (hn : 0 < n) (h256 : n < 256) (k : Path) (hk : k.length = n)
    (legacy cached : Bool) (P : PSet H)
    (hlook : ∀ nd ∈ t.proveNodes A legacy cached k, P.get (nd.hash A) = some nd) :
    verify2 A cfg (t.hash A) k P = Res.ok (t.get A k) :=
  trie2_complete_tree hI cfg t n hwf hn h256 k hk legacy cached P hlook

/-- Both verifiers of /repo today (`zeroRoot`), every trie EMPTY OR NOT, every key: the set the prover
returns is accepted and gives the actual value. -/
theorem proof_complete (A : HashAlg H) (hI : Ideal A) (hac : Acyclic A) (cfg : Cfg)
    (hz : cfg.zeroRoot = true) (t : Trie H) (n : Nat) (hwf : Trie.WF t n) (hnz : Trie.NZ A t)
    (hn : 0 < n) (h256 : n < 256) (k : Path) (hk : k.length = n) (cached : Bool) :
    verifyL A cfg (t.hash A) k (t.prove A true cached k) = Res.ok (t.get A k) ∧
    verify2 A cfg (t.hash A) k (t.prove A false cached k) = Res.ok (t.get A k) := by
  cases t with
  | none => simp [Trie.hash, Trie.get, verifyL, verify2, hz]
  | some s =>
    exact ⟨legacy_complete_tree hI cfg s n hwf hnz hn h256 k hk true cached _
        (fun nd hnd => List.mem_map.mpr ⟨nd, hnd, rfl⟩) (toPSet_consistent _),
      trie2_complete_tree hI cfg s n hwf hn h256 k hk false cached _
        (honest_lookup hac false cached s k)⟩

/-! ## Soundness: whatever node set is offered, an accepted value is the actual one

The property text says an altered proof "does not verify".  What holds (and what is proved) is: it
fails OR still establishes the trie's actual content for the queried key — it never confirms anything
else (a third of all single-field alterations still verify to the truth, e.g. of an unused node). -/

/-- `trie.VerifyProof`, every variant, ANY node set: an accepted value is the value every trie of
height n with that root (empty or not) holds at `k` (zero ⇔ absent). -/
theorem proof_sound_legacy (A : HashAlg H) (hI : Ideal A) (cfg : Cfg) (n : Nat) (hn : 0 < n)
    (h256 : n < 256) (r : H) (k : Path) (hk : k.length = n) (P : PSet H) (v : H)
    (h : verifyL A cfg r k P = Res.ok v) :
    ∀ t : Trie H, Trie.WF t n → Trie.NZ A t → t.hash A = r → t.get A k = v := by
  intro t hwf hnz hr
  subst hr
  exact (legacy_sound hI cfg t n hwf hnz hn h256 k hk P v h).symm

/-- `trie2.VerifyProof` (`Cfg.strict` = /repo since 616d4a4: hash and walk on the collapsed copy): sound
against EVERY node set — any of the five child shapes, any cached flags. -/
theorem proof_sound_trie2 (A : HashAlg H) (hI : Ideal A) (n : Nat) (hn : 0 < n) (r : H) (k : Path)
    (hk : k.length = n) (P : PSet H) (v : H) (h : verify2 A Cfg.strict r k P = Res.ok v) :
    ∀ t : Trie H, Trie.WF t n → Trie.NZ A t → t.hash A = r → t.get A k = v := by
  intro t hwf hnz hr
  subst hr
  exact (trie2_sound hI Cfg.strict t n hwf hnz hn k hk P (by simp [Cfg.strict]) (by simp [Cfg.strict])
    (Or.inl rfl) v h).symm

/-- height 3: 001 ↦ 7 (edge of length 2 under the root), 101 ↦ 5, 110 ↦ 8, 111 ↦ 9 -/
def exTree : Tree HTerm :=
  .bin (.edge [false, true] (.leaf (.felt 7)))
       (.bin (.edge [true] (.leaf (.felt 5))) (.bin (.leaf (.felt 8)) (.leaf (.felt 9))))

example : WF exTree 3 :=
  .bin (.edge (p := [false, true]) (by simp) (.leaf _))
    (.bin (.edge (p := [true]) (by simp) (.leaf _)) (.bin (.leaf _) (.leaf _)))

/-- Altering a node, the claimed value or the key (as a bit path): whatever is done to the node set and
whichever key it is offered for, no verifier (legacy: every variant; trie2: /repo today) confirms a
value `v` the trie does not hold at that key.  (An altered proof may still verify — to the TRUE value;
what is excluded is establishing anything else.) -/
theorem tamper_rejected (A : HashAlg H) (hI : Ideal A) (cfg : Cfg) (t : Trie H) (n : Nat)
    (hwf : Trie.WF t n) (hnz : Trie.NZ A t) (hn : 0 < n) (h256 : n < 256) (k' : Path)
    (hk : k'.length = n) (P' : PSet H) (v : H) (hv : v ≠ t.get A k') :
    verifyL A cfg (t.hash A) k' P' ≠ Res.ok v ∧ verify2 A Cfg.strict (t.hash A) k' P' ≠ Res.ok v :=
  ⟨fun h => hv (legacy_sound hI cfg t n hwf hnz hn h256 k' hk P' v h),
   fun h => hv (trie2_sound hI Cfg.strict t n hwf hnz hn k' hk P' (by simp [Cfg.strict])
     (by simp [Cfg.strict]) (Or.inl rfl) v h)⟩

-- honest proofs of present keys and of absent keys (divergence inside the edge, at the last bit)
example : verifyL freeAlg Cfg.strict (exTree.hash freeAlg) [true, true, false]
    (Trie.prove freeAlg true false (some exTree) [true, true, false]) = .ok (.felt 8) := by decide
example : verify2 freeAlg Cfg.strict (exTree.hash freeAlg) [false, false, true]
    (Trie.prove freeAlg false true (some exTree) [false, false, true]) = .ok (.felt 7) := by decide
example : verify2 freeAlg Cfg.strict (exTree.hash freeAlg) [false, true, true]
    (Trie.prove freeAlg false true (some exTree) [false, true, true]) = .ok (.felt 0) := by decide
example : verifyL freeAlg Cfg.strict (exTree.hash freeAlg) [true, false, false]
    (Trie.prove freeAlg true false (some exTree) [true, false, false]) = .ok (.felt 0) := by decide

/-! ## Keys as felts

Both `VerifyProof` take the key as a felt and convert it with `SetFelt(251, key)`, which keeps the low
251 bits; the field has felts ≥ 2^251 (up to 2^251 + 17·2^192).  Since 616d4a4 both refuse such keys
(before: `Regress.felt_key_alias_before_616d4a4`). -/

/-- With the range check (/repo today, `Cfg.strict`): an accepted felt key is below 2^n and the answer is the answer
for its bit path — so `proof_sound_legacy` / `proof_sound_trie2` apply to felt keys as they stand. -/
theorem felt_key_checked (A : HashAlg H) (cfg : Cfg) (hck : cfg.checkKey = true) (n : Nat) (r : H)
    (k : Nat) (P : PSet H) (v : H) :
    (verifyLFelt A cfg n r k P = Res.ok v → k < 2 ^ n ∧ verifyL A cfg r (pathOfNat n k) P = Res.ok v) ∧
    (verify2Felt A cfg n r k P = Res.ok v → k < 2 ^ n ∧ verify2 A cfg r (pathOfNat n k) P = Res.ok v) := by
  constructor
  · intro h
    unfold verifyLFelt at h
    by_cases hk : k ≥ 2 ^ n
    · simp [hck, hk] at h
    · simp [hck, hk] at h
      exact ⟨by omega, h⟩
  · intro h
    unfold verify2Felt at h
    by_cases hk : k ≥ 2 ^ n
    · simp [hck, hk] at h
    · simp [hck, hk] at h
      exact ⟨by omega, h⟩

/-! ## Storage proofs over RPC: slot ∈ storage trie ∈ contract leaf ∈ contracts trie ∈ state root

`commit` is the state commitment of the block's protocol version as a function of the two roots
(`Poseidon("STARKNET_STATE_V0", contracts, classes)`, or the contracts root alone before 0.14.0 with
an empty classes trie); its injectivity is the hash assumption.  The formulas themselves
(`contractLeaf`, the commitment, the class leaf) are tied to juno by the RPC section of the harness,
which recomputes them from the abstract state. -/

/-- What a client that checks a `starknet_getStorageProof` response with an independent verifier has
established: if the roots of `global_roots` give the block's state root, the contract's proof verifies
to the leaf rebuilt from `contract_leaves_data`, and the slot's proof verifies against the leaf data's
storage root, then in EVERY state with that state root the contract has that class hash and nonce and
the slot holds that value (zero = unset). -/
theorem rpc_storage_proof_sound (A : HashAlg H) (hI : Ideal A) (commit : H → H → H)
    (hcommit : ∀ a b a' b', commit a b = commit a' b' → a = a' ∧ b = b')
    (cfg : Cfg) (n : Nat) (hn : 0 < n) (h256 : n < 256)
    -- the state: contracts trie, classes root, and the contract's own class / nonce / storage trie
    (contracts storage : Trie H) (classesRootS clsS nonceS : H) (addr slot : Path)
    (hwc : Trie.WF contracts n) (hnc : Trie.NZ A contracts) (hws : Trie.WF storage n)
    (hns : Trie.NZ A storage) (ha : addr.length = n) (hs : slot.length = n)
    (hleafS : contracts.get A addr = contractLeaf A clsS (storage.hash A) nonceS)
    -- the response
    (contractsRoot classesRoot cls sroot nonce v : H) (Pc Ps : PSet H)
    (hroots : commit contractsRoot classesRoot = commit (contracts.hash A) classesRootS)
    (hcp : verifyL A cfg contractsRoot addr Pc = Res.ok (contractLeaf A cls sroot nonce))
    (hsp : verifyL A cfg sroot slot Ps = Res.ok v) :
    cls = clsS ∧ nonce = nonceS ∧ storage.get A slot = v := by
  obtain ⟨hcr, _⟩ := hcommit _ _ _ _ hroots
  subst hcr
  have h1 := legacy_sound hI cfg contracts n hwc hnc hn h256 addr ha Pc _ hcp
  rw [hleafS] at h1
  obtain ⟨e1, e2, e3⟩ := contractLeaf_inj hI h1
  subst e2
  have h2 := legacy_sound hI cfg storage n hws hns hn h256 slot hs Ps v hsp
  exact ⟨e1, e3, h2.symm⟩

/-! ## Range proofs (trie2; `RCfg.strict` = /repo since 997852f)

`verifySingle` / `verifyEmpty` transcribe `verifySingleElementProof` / `verifyEmptyRangeProof`
(`proofToPath` = `resolveAux`, `hasRightElement` = `hasRight`); `verifyAll` is the no-proof case;
`verifyMulti` is `verifyRangeWithProof`: `resolvePT` transcribes `proofToPath`, `hasRightPT`
`hasRightElement`, and `fill` is an extensional SPECIFICATION (not a transcription) of
`unsetInternal` + `Trie.Update` + `Hash`, tied to the code by comparing outcomes on every claim of the
exhaustive small-space section.  Completeness of all four cases is proved further down (round 5:
`range_verify_*_complete`, `range_multi_complete`, with canonicity `build (ents t) = t`).  The legacy trie's
`VerifyRangeProof` is not modelled (oracle only; unsound, see the known findings). -/

/-- Single element, value: accepted for ANY node set ⇒ every trie with that root holds `v` at `k`. -/
theorem range_single_sound (A : HashAlg H) (hI : Ideal A) (rc : RCfg)
    (hch : rc.checkHash = true) (hev : rc.earlyValue = false) (hlh : rc.leafHash = true)
    (n : Nat) (hn : 0 < n) (r : H) (k : Path) (hk : k.length = n) (v : H) (P : PSet H) (more : Bool)
    (h : verifySingle A rc r k v P = RRes.ok more) :
    ∀ t : Trie H, Trie.WF t n → Trie.NZ A t → t.hash A = r → t.get A k = v := by
  intro t hwf hnz hr
  subst hr
  exact single_sound hI rc hch hev hlh t n hwf hnz hn k hk v P more h

/-- …and `more` is exact: true iff the trie has a key greater than `k`. -/
theorem range_single_more (A : HashAlg H) (hI : Ideal A) (rc : RCfg)
    (hch : rc.checkHash = true) (hev : rc.earlyValue = false) (hlh : rc.leafHash = true)
    (t : Tree H) (n : Nat) (hwf : WF t n) (hnz : t.NZ A) (hn : 0 < n) (k : Path) (hk : k.length = n)
    (v : H) (P : PSet H) (more : Bool) (h : verifySingle A rc (t.hash A) k v P = RRes.ok more) :
    (more = true ↔ GtIn t n k) :=
  single_more hI rc hch hev hlh t n hwf hnz hn k hk v P more h

/-- Completeness, single element (any variant, either prover's node set): the range proof
`GetRangeProof(k, k)` of a key that is in the trie is accepted for the key's value. -/
theorem range_single_complete (A : HashAlg H) (rc : RCfg) (t : Tree H) (n : Nat) (hwf : WF t n)
    (hn : 0 < n) (h256 : n < 256) (k : Path) (hk : k.length = n) (hhas : t.has k = true)
    (hv : t.get A k ≠ A.zero) (legacy cached : Bool) (P : PSet H)
    (hlook : ∀ nd ∈ t.proveNodes A legacy cached k, P.get (nd.hash A) = some nd) :
    ∃ more, verifySingle A rc (t.hash A) k (t.get A k) P = RRes.ok more :=
  single_complete rc t n hwf hn h256 k hk hhas hv legacy cached P hlook

/-- Empty range, FULL: accepted for any node set ⇒ the flag is `false` and every key of every
(non-empty) trie with that root is smaller than `first`; and the empty trie (root zero) is accepted
for every `first` and every node set. -/
theorem range_empty_sound (A : HashAlg H) (hI : Ideal A) (rc : RCfg)
    (hch : rc.checkHash = true) (hev : rc.earlyValue = false) (hlh : rc.leafHash = true)
    (t : Tree H) (n : Nat) (hwf : WF t n) (hnz : t.NZ A) (hn : 0 < n) (first : Path)
    (hk : first.length = n) (P : PSet H) (more : Bool)
    (h : verifyEmpty A rc (t.hash A) first P = RRes.ok more) :
    more = false ∧ ∀ k', k'.length = n → t.has k' = true → pathLt k' first = true :=
  empty_no_key hI rc hch hev hlh t n hwf hnz hn first hk P more h

theorem range_empty_trie_accepted (A : HashAlg H) (first : Path) (P : PSet H) :
    verifyEmpty A RCfg.strict A.zero first P = RRes.ok false := by
  simp [verifyEmpty, RCfg.strict]

/-- General case (two or more keys, or one key with `first` < key), every variant in which `unset`
clears the boundary leaf under a binary node (/repo today), ANY node set: accepted ⇒ in every trie with
that root
* every key `k` with `first ≤ k ≤ last` holds exactly what the list gives it (`lastVal`, zero = not
  listed): no gap, nothing wrong, nothing invented inside the interval;
* EVERY listed entry, also one left of `first`, is an entry of the trie (a consumer that stores all
  returned pairs stores only genuine ones). -/
theorem range_sound (A : HashAlg H) (hI : Ideal A) (rc : RCfg) (hul : rc.unsetLeaf = true)
    (t : Tree H) (n : Nat) (hwf : WF t n) (first : Path) (hfl : first.length = n)
    (kvs : List (Path × H)) (hkl : ∀ kv ∈ kvs, kv.1.length = n) (P : PSet H) (more : Bool)
    (h : verifyMulti A rc (t.hash A) first kvs P = RRes.ok more) :
    (∃ lastKV, kvs.getLast? = some lastKV ∧ pathLt first lastKV.1 = true ∧
      ∀ k, k.length = n → (first = k ∨ pathLt first k = true) →
        (k = lastKV.1 ∨ pathLt k lastKV.1 = true) →
        t.get A k = (lastVal kvs k).getD A.zero) ∧
    (∀ kv ∈ kvs, t.get A kv.1 = (lastVal kvs kv.1).getD A.zero) :=
  ⟨multi_sound hI rc hul t n hwf first hfl kvs hkl P more h,
   multi_listed_genuine hI rc hul t n hwf first hfl kvs hkl P more h⟩

/-- …and the returned `more` flag is exact: `VerifyRangeProof` returns `true` iff the trie has a key
greater than the last key of the list.  With `range_single_more`, `range_empty_sound` and
`range_all_sound` this is the complete statement of what `hasMore` guarantees: whenever verification
succeeds, `hasMore` = (some key of the trie is greater than the last listed key), and `false` for the
empty range (then nothing is at or right of `first`) and for the no-proof case. -/
theorem range_more (A : HashAlg H) (hI : Ideal A) (rc : RCfg) (hch : rc.checkHash = true)
    (hev : rc.earlyValue = false) (hlh : rc.leafHash = true) (t : Tree H) (n : Nat) (hwf : WF t n)
    (hnz : t.NZ A) (first : Path) (hfl : first.length = n) (kvs : List (Path × H))
    (hkl : ∀ kv ∈ kvs, kv.1.length = n) (P : PSet H) (more : Bool)
    (h : verifyMulti A rc (t.hash A) first kvs P = RRes.ok more) :
    ∃ lastKV, kvs.getLast? = some lastKV ∧ (more = true ↔ GtIn t n lastKV.1) :=
  multi_more hI rc hch hev hlh t n hwf hnz first hfl kvs hkl P more h

/-- The no-proof case (`proof == nil`: the list is claimed to be the WHOLE trie): accepted ⇒ the trie
holds exactly the listed entries and the flag is `false`. -/
theorem range_all_sound (A : HashAlg H) (hI : Ideal A) (t : Tree H) (n : Nat) (hwf : WF t n)
    (kvs : List (Path × H)) (hkl : ∀ kv ∈ kvs, kv.1.length = n) (more : Bool)
    (h : verifyAll A (t.hash A) n kvs = RRes.ok more) :
    more = false ∧ ∀ k, k.length = n → t.get A k = (lastVal kvs k).getD A.zero :=
  all_sound hI t n hwf kvs hkl more h

-- non-vacuity: a multi-element range with an absent first key and more entries to the right
example : verifyMulti freeAlg RCfg.strict (exTree.hash freeAlg) [true, false, false]
    [([true, false, true], .felt 5), ([true, true, false], .felt 8)]
    (Trie.prove freeAlg false false (some exTree) [true, false, false] ++
      Trie.prove freeAlg false false (some exTree) [true, true, false]) = .ok true := by decide
example : verifySingle freeAlg RCfg.strict (exTree.hash freeAlg) [true, true, false] (.felt 8)
    (Trie.prove freeAlg false false (some exTree) [true, true, false]) = .ok true := by decide

/-! ## `trie2.VerifyRangeProof` as a whole: felt keys, preamble, dispatch (`verifyRange`, round 5)

`verifyRange` is the exported function: `verifyProofData` on the FELTS, the choice between the no-proof /
empty / single-element / general case, and `SetFelt(251, ·)` on every key.  `ck` is the variant of the code:
`true` = a first key or a listed key of `2^height` or more is refused (/repo since 0a848cd), `false` = the code
before (witnesses `Regress.range_verify_sound_partial_before_0a848cd`, `Regress.range_felt_key_alias_before_0a848cd`).
The harness probes which one it is looking at; anything but `true` is a violation. -/

/-- THE statement about `VerifyRangeProof(root, first, keys, values, proof)` with a proof, for the variant that
checks its keys: accepted, for ANY node set, ⇒ `first` and every listed key are below `2^n`, every felt key `k`
with `first ≤ k ≤ last` (every `k ≥ first` when the list is empty) holds in the trie exactly what the list gives
it (zero = absent: nothing left out, nothing wrong, nothing invented), and `more` is true iff the trie has a
key greater than the last listed one (false for the empty list). -/
theorem range_verify_sound (A : HashAlg H) (hI : Ideal A) (rc : RCfg) (hch : rc.checkHash = true)
    (hev : rc.earlyValue = false) (hlh : rc.leafHash = true) (hul : rc.unsetLeaf = true)
    (t : Tree H) (n : Nat) (hwf : WF t n) (hnz : t.NZ A) (hn : 0 < n) (first : Nat) (kvs : List (Nat × H))
    (P : PSet H) (more : Bool)
    (h : verifyRange A rc true n (t.hash A) first kvs (some P) = .ok more) :
    (first < 2 ^ n ∧ ∀ kv ∈ kvs, kv.1 < 2 ^ n) ∧
    (∀ k, k < 2 ^ n → first ≤ k → (∀ l, kvs.getLast? = some l → k ≤ l.1) →
      t.get A (pathOfNat n k) = (lastValF kvs k).getD A.zero) ∧
    (more = true ↔ ∃ l, kvs.getLast? = some l ∧ GtIn t n (pathOfNat n l.1)) :=
  verifyRange_sound hI rc hch hev hlh hul true t n hwf hnz hn first kvs P more (Or.inl rfl) h

/-- The no-proof case of `VerifyRangeProof` (`proof == nil`), variant with the key check: accepted ⇒ the keys
are below `2^n`, `more = false` and the trie holds exactly the list. -/
theorem range_verify_all_sound (A : HashAlg H) (hI : Ideal A) (rc : RCfg) (t : Tree H) (n : Nat)
    (hwf : WF t n) (first : Nat) (kvs : List (Nat × H)) (more : Bool)
    (h : verifyRange A rc true n (t.hash A) first kvs none = .ok more) :
    (∀ kv ∈ kvs, kv.1 < 2 ^ n) ∧ more = false ∧
    ∀ k, k < 2 ^ n → t.get A (pathOfNat n k) = (lastValF kvs k).getD A.zero :=
  verifyRange_all_sound hI rc true t n hwf first kvs more (Or.inl rfl) h

/-! Completeness of `VerifyRangeProof` (either variant `ck`), all four cases (round 5; the general case was
"not proved" before): `ents t` are the entries of the trie in key order, `rng (.at f) (.at l)` those with
`f ≤ key ≤ l`, `Canon` = no edge node directly under an edge node (what `build`, and both real tries, maintain:
`trie_of_entries_canon`). -/

/-- the trie of ANY key/value set has no edge under an edge (hypothesis `Canon` of the completeness theorems) -/
theorem trie_of_entries_canon (n : Nat) (kvs : List (Path × H)) (t : Tree H) (h : build n kvs = some t) :
    Canon t :=
  build_canon n kvs t h

/-- THE GENERAL CASE (`verifyRangeWithProof`; /repo today: `unsetLeaf`): for every trie, every `first` and every
key `last` of the trie with `first < last`, the claim that lists exactly the entries of the trie between `first`
and `last`, offered with the proofs of `first` and `last` as `trie2.Trie.Prove` returns them (any set that
returns those nodes for their hashes, e.g. `GetRangeProof(first, last)`), is ACCEPTED.  With `range_more` the
returned flag is then the true one. -/
theorem range_multi_complete (A : HashAlg H) (hI : Ideal A) (rc : RCfg) (hul : rc.unsetLeaf = true)
    (t : Tree H) (n : Nat) (hwf : WF t n) (hcan : Canon t) (hnz : t.NZ A) (hn : 0 < n) (h256 : n < 256)
    (first last : Path) (hf : first.length = n) (hl : last.length = n) (hfl : pathLt first last = true)
    (hhas : t.has last = true) (cached : Bool) (P : PSet H)
    (hlf : ∀ nd ∈ t.proveNodes A false cached first, P.get (nd.hash A) = some nd)
    (hll : ∀ nd ∈ t.proveNodes A false cached last, P.get (nd.hash A) = some nd) :
    ∃ more, verifyMulti A rc (t.hash A) first (rng (.at first) (.at last) (ents t)) P = RRes.ok more :=
  multi_complete hI rc hul t n hwf hcan hnz hn h256 first last hf hl hfl hhas cached P hlf hll

/-- …and through the whole exported function, keys as felts: preamble and dispatch let the honest claim through -/
theorem range_verify_multi_complete (A : HashAlg H) (hI : Ideal A) (rc : RCfg) (hul : rc.unsetLeaf = true)
    (ck : Bool) (t : Tree H) (n : Nat) (hwf : WF t n) (hcan : Canon t) (hnz : t.NZ A) (hn : 0 < n)
    (h256 : n < 256) (first lastK : Nat) (v : H) (kvsF : List (Nat × H)) (hf : first < 2 ^ n)
    (hb : ∀ kv ∈ kvsF, kv.1 < 2 ^ n) (hm : feltKeysMonotonic kvsF = true)
    (hlastF : kvsF.getLast? = some (lastK, v)) (hlt : first < lastK)
    (hhas : t.has (pathOfNat n lastK) = true)
    (hmap : kvsF.map (fun kv : Nat × H => (pathOfNat n kv.1, kv.2)) =
      rng (.at (pathOfNat n first)) (.at (pathOfNat n lastK)) (ents t))
    (cached : Bool) (P : PSet H)
    (hlf : ∀ nd ∈ t.proveNodes A false cached (pathOfNat n first), P.get (nd.hash A) = some nd)
    (hll : ∀ nd ∈ t.proveNodes A false cached (pathOfNat n lastK), P.get (nd.hash A) = some nd) :
    ∃ more, verifyRange A rc ck n (t.hash A) first kvsF (some P) = RRes.ok more :=
  verifyRange_multi_complete hI rc hul ck t n hwf hcan hnz hn h256 first lastK v kvsF hf hb hm hlastF hlt hhas hmap
    cached P hlf hll

-- non-vacuity: the example trie is canonical, 110 is a key, and the entries between 100 and 110 are 101, 110
example : Canon exTree := by simp [exTree, Canon]
example : rng (.at [true, false, false]) (.at [true, true, false]) (ents exTree) =
    [([true, false, true], .felt 5), ([true, true, false], .felt 8)] := by decide


/-- the no-proof case: the complete sorted list of a trie (felts non-decreasing, non-zero values, below
`2^n`) is accepted against the root of the trie of that list (`build`, which the real tries are tied to) -/
theorem range_verify_all_complete (A : HashAlg H) (rc : RCfg) (ck : Bool) (n : Nat) (first : Nat)
    (kvs : List (Nat × H)) (hf : first < 2 ^ n) (hb : ∀ kv ∈ kvs, kv.1 < 2 ^ n)
    (hv : ∀ kv ∈ kvs, kv.2 ≠ A.zero) (hm : feltKeysMonotonic kvs = true) :
    verifyRange A rc ck n (Trie.hash A (build n (kvs.map (fun kv : Nat × H => (pathOfNat n kv.1, kv.2)))))
      first kvs none = RRes.ok false :=
  verifyRange_all_complete rc ck n first kvs hf hb hv hm

/-- the empty range: when no key of the trie is at or right of `first`, the claim with the honest proof of
`first` (either prover, any superset that returns the honest nodes) is accepted, with `more = false` -/
theorem range_verify_empty_complete (A : HashAlg H) (hI : Ideal A) (rc : RCfg) (hch : rc.checkHash = true)
    (hev : rc.earlyValue = false) (hlh : rc.leafHash = true) (ck : Bool) (t : Tree H) (n : Nat)
    (hwf : WF t n) (hnz : t.NZ A) (hn : 0 < n) (h256 : n < 256) (first : Nat) (hf : first < 2 ^ n)
    (hnone : ∀ k, k < 2 ^ n → first ≤ k → t.has (pathOfNat n k) = false)
    (legacy cached : Bool) (P : PSet H)
    (hlook : ∀ nd ∈ t.proveNodes A legacy cached (pathOfNat n first), P.get (nd.hash A) = some nd) :
    verifyRange A rc ck n (t.hash A) first [] (some P) = RRes.ok false :=
  verifyRange_empty_complete hI rc hch hev hlh ck t n hwf hnz hn h256 first hf hnone legacy cached P hlook

/-- the single element: a key of the trie with its value and its honest proof is accepted -/
theorem range_verify_single_complete (A : HashAlg H) (rc : RCfg) (ck : Bool) (t : Tree H) (n : Nat)
    (hwf : WF t n) (hn : 0 < n) (h256 : n < 256) (k : Nat) (hk : k < 2 ^ n)
    (hhas : t.has (pathOfNat n k) = true) (hv : t.get A (pathOfNat n k) ≠ A.zero)
    (legacy cached : Bool) (P : PSet H)
    (hlook : ∀ nd ∈ t.proveNodes A legacy cached (pathOfNat n k), P.get (nd.hash A) = some nd) :
    ∃ more, verifyRange A rc ck n (t.hash A) k [(k, t.get A (pathOfNat n k))] (some P) = RRes.ok more :=
  verifyRange_single_complete rc ck t n hwf hn h256 k hk hhas hv legacy cached P hlook

-- non-vacuity of the empty-range completeness: the one-key trie {001 ↦ 7} and first = 2 (nothing at or right of 010)
example : verifyRange freeAlg RCfg.strict true 3
    ((Tree.edge [false, false, true] (.leaf (.felt 7)) : Tree HTerm).hash freeAlg) 2 []
    (some (Trie.prove freeAlg false false (some (.edge [false, false, true] (.leaf (.felt 7)))) [false, true, false]))
    = .ok false := by decide

-- non-vacuity: the whole function accepts an honest range with an absent first key (felts 4 < 5 < 6)
example : verifyRange freeAlg RCfg.strict true 3 (exTree.hash freeAlg) 4 [(5, .felt 5), (6, .felt 8)]
    (some (Trie.prove freeAlg false false (some exTree) [true, false, false] ++
      Trie.prove freeAlg false false (some exTree) [true, true, false])) = .ok true := by decide
example : verifyRange freeAlg RCfg.strict true 3 (exTree.hash freeAlg) 0
    [(1, .felt 7), (5, .felt 5), (6, .felt 8), (7, .felt 9)] none = .ok false := by decide

/-! ## `starknet_getStorageProof`: the response the node assembles verifies (round 5)

`storageProof` transcribes `Handler.StorageProof` of rpc/v8, v9, v10 after the head state is open:
`isBlockSupported`, `utils.Set`, `processStorageKeys`, the loops `for key { trie.Prove(key, set) }` into ONE
`OrderedSet` per mapping (`OrderedSet.Put`), `buildContractLeavesData`, the conversion to wire nodes and the two
roots; the harness compares the complete response (every node of every mapping in order, leaf data, roots,
refusals) with it.  `clientSet` is what a client reads from a `node_hash → node` array. -/

/-- The clause "storage proofs returned over RPC verify, with an independent verifier, against the root":
whatever the state and the request (repeated classes / contracts / keys, a contract listed several times, absent
keys, empty tries), a served response is for the head block, carries the roots of the state's two tries, and
* every requested class key verifies against `classes_tree_root` to what the classes trie holds (zero = absent),
* every requested contract verifies against `contracts_tree_root` to what the contracts trie holds,
* `contract_leaves_data` is aligned with the de-duplicated contracts: class hash, nonce and the hash of the
  contract's storage trie, `none` exactly for a contract the state does not have,
* `contracts_storage_proofs[i]` belongs to the i-th distinct contract of `contracts_storage_keys` and every key
  requested for it verifies against that contract's storage root to the slot's value,
with `trie.VerifyProof` of /repo (any variant with `zeroRoot`) run on the node mapping as the client decodes it.
Together with `rpc_storage_proof_sound` (what the client may conclude) and the tie of the commitment formula. -/
theorem rpc_response_verifies (Ac Ap : HashAlg H) (hIc : Ideal Ac) (hIp : Ideal Ap) (cfg : Cfg)
    (hz : cfg.zeroRoot = true) (legacy : Bool) (n : Nat) (hn : 0 < n) (h256 : n < 256) (st : RState H)
    (hwc : Trie.WF st.classes n) (hnc : Trie.NZ Ac st.classes)
    (hwt : Trie.WF st.contracts n) (hnt : Trie.NZ Ap st.contracts)
    (hws : ∀ a, Trie.WF (st.storageOf a) n) (hns : ∀ a, Trie.NZ Ap (st.storageOf a))
    (blk : BlkRes) (classes contracts : List Nat) (sks : List SK) (resp : Resp H)
    (h : storageProof Ac Ap legacy n st blk classes contracts sks = .ok resp) :
    blk = .ok ∧ resp.classesRoot = st.classes.hash Ac ∧ resp.contractsRoot = st.contracts.hash Ap ∧
    (∀ c ∈ classes, verifyL Ac cfg resp.classesRoot (pathOfNat n c) (clientSet resp.classesProof) =
      Res.ok (st.classes.get Ac (pathOfNat n c))) ∧
    (∀ a ∈ contracts, verifyL Ap cfg resp.contractsRoot (pathOfNat n a) (clientSet resp.contractsProof) =
      Res.ok (st.contracts.get Ap (pathOfNat n a))) ∧
    resp.leaves = (setOf contracts).map
      (fun a => (st.info a).map (fun i => ⟨i.nonce, i.cls, (st.storageOf a).hash Ap⟩)) ∧
    ∃ usk, processStorageKeys sks = .ok usk ∧ resp.storageProofs.length = usk.length ∧
      ∀ (i : Nat) (a : Nat) (ks : List Nat), usk[i]? = some (a, ks) → ∃ w, resp.storageProofs[i]? = some w ∧
        ∀ k ∈ ks, verifyL Ap cfg ((st.storageOf a).hash Ap) (pathOfNat n k) (clientSet w) =
          Res.ok ((st.storageOf a).get Ap (pathOfNat n k)) :=
  storageProof_verifies Ac Ap hIc hIp cfg hz legacy n hn h256 st hwc hnc hwt hnt hws hns blk classes contracts sks
    resp h

/-- `GetRangeProof(left, right)` of either trie (`rangeProve`: `Prove(left)`, then `Prove(right)` into the same
ordered set): both boundary keys verify against the root with that one set, to their value or to absence — the
two edge proofs a range claim rests on are membership / non-membership proofs of the trie. -/
theorem range_proof_nodes_verify (A : HashAlg H) (hI : Ideal A) (cfg : Cfg) (hz : cfg.zeroRoot = true)
    (t : Trie H) (n : Nat) (hwf : Trie.WF t n) (hnz : Trie.NZ A t) (hn : 0 < n) (h256 : n < 256)
    (legacy : Bool) (left right : Nat) :
    verifyL A cfg (t.hash A) (pathOfNat n left) (rangeProve A legacy n t left right) =
      Res.ok (t.get A (pathOfNat n left)) ∧
    verifyL A cfg (t.hash A) (pathOfNat n right) (rangeProve A legacy n t left right) =
      Res.ok (t.get A (pathOfNat n right)) := by
  unfold rangeProve
  split
  · rename_i h
    subst h
    exact ⟨proveAll_verifies_raw hI cfg hz t n hwf hnz hn h256 legacy _ left (by simp),
      proveAll_verifies_raw hI cfg hz t n hwf hnz hn h256 legacy _ left (by simp)⟩
  · exact ⟨proveAll_verifies_raw hI cfg hz t n hwf hnz hn h256 legacy _ left (by simp),
      proveAll_verifies_raw hI cfg hz t n hwf hnz hn h256 legacy _ right (by simp)⟩

/-! ## `Prove` into a set that already holds nodes (round 6)

Both `Trie.Prove(key, proofSet)` ADD to the set they are handed (`proveOneInto`, `proveInto`: `OrderedSet.Put` of
every node of the path).  The RPC handlers prove all requested keys of a mapping into one set, `GetRangeProof`
both boundaries; a caller may hand in a set that holds anything.  The provers must not conclude anything from
what the set holds: two identical subtrees under different edge paths share their binary node but not the edge
nodes above it.  What the verifiers need is only that the set RETURNS the proof's nodes for their hashes:
they read the set through `Get` alone, so more content never hurts (`verify_superset_monotone`). -/

/-- Both `VerifyProof` (every variant) are MONOTONE in the node set: if `Q` returns for every hash at least what
`P` returns (`Q.Extends P`: a superset, whatever else it holds), then whatever verifies with `P` verifies with `Q`
to the same value. -/
theorem verify_superset_monotone (A : HashAlg H) (cfg : Cfg) (root : H) (k : Path) (P Q : PSet H)
    (hPQ : Q.Extends P) (v : H) :
    (verifyL A cfg root k P = Res.ok v → verifyL A cfg root k Q = Res.ok v) ∧
    (verify2 A cfg root k P = Res.ok v → verify2 A cfg root k Q = Res.ok v) :=
  ⟨verifyL_mono hPQ cfg root k v, verify2_mono hPQ cfg root k v⟩

/-- Completeness of ONE `Prove(k, set)` for EVERY pre-existing content `s0` of the set (no hypothesis on `s0`:
nodes of other keys, of other tries, entries that do not hash to their key), either prover, every trie empty or
not, every key: afterwards both verifiers return the actual value of `k`.  (`Put` replaces what sat under the
hashes of the path; nothing else is looked up.) -/
theorem prove_into_any_set_complete (A : HashAlg H) (hI : Ideal A) (hac : Acyclic A) (cfg : Cfg)
    (hz : cfg.zeroRoot = true) (t : Trie H) (n : Nat) (hwf : Trie.WF t n) (hnz : Trie.NZ A t)
    (hn : 0 < n) (h256 : n < 256) (legacy : Bool) (s0 : PSet H) (k : Nat) :
    verifyL A cfg (t.hash A) (pathOfNat n k) (proveOneInto A legacy n t s0 k) =
      Res.ok (t.get A (pathOfNat n k)) ∧
    verify2 A cfg (t.hash A) (pathOfNat n k) (proveOneInto A legacy n t s0 k) =
      Res.ok (t.get A (pathOfNat n k)) := by
  cases t with
  | none => simp [Trie.hash, Trie.get, verifyL, verify2, hz]
  | some s =>
    have hlook := proveOneInto_lookup hac legacy n s s0 k
    refine ⟨?_, trie2_complete_tree hI cfg s n hwf hn h256 _ (pathOfNat_length _ _) legacy false _ hlook⟩
    apply verifyL_mono (P := toPSet A (s.proveNodes A legacy false (pathOfNat n k)))
    · intro h nd hg
      have hm := PSet.get_mem hg
      simp only [toPSet, List.mem_map] at hm
      obtain ⟨nd', hnd', heq⟩ := hm
      have h1 : nd'.hash A = h := congrArg Prod.fst heq
      have h2 : nd' = nd := congrArg Prod.snd heq
      rw [← h1, ← h2]
      exact hlook nd' hnd'
    · exact legacy_complete_tree hI cfg s n hwf hnz hn h256 _ (pathOfNat_length _ _) legacy false _
        (fun nd hnd => List.mem_map.mpr ⟨nd, hnd, rfl⟩) (toPSet_consistent _)

/-- SEVERAL keys proven into one set that held ANY self-consistent content before (every entry hashes to its key:
what earlier `Prove` calls on this or any other trie leave there), either prover: every one of the keys verifies
with `trie.VerifyProof` (the verifier of wire nodes: felts only) to its actual value.  This is the situation of
the RPC handlers and of `GetRangeProof`; `proveAll` of round 5 is the case `s0 = []`. -/
theorem prove_many_into_consistent_set_complete (A : HashAlg H) (hI : Ideal A) (cfg : Cfg)
    (hz : cfg.zeroRoot = true) (t : Trie H) (n : Nat) (hwf : Trie.WF t n) (hnz : Trie.NZ A t)
    (hn : 0 < n) (h256 : n < 256) (legacy : Bool) (s0 : PSet H) (hcons : ∀ e ∈ s0, e.1 = e.2.hash A)
    (keys : List Nat) (k : Nat) (hk : k ∈ keys) :
    verifyL A cfg (t.hash A) (pathOfNat n k) (proveInto A legacy n t s0 keys) =
      Res.ok (t.get A (pathOfNat n k)) := by
  cases t with
  | none => simp [verifyL, Trie.hash, Trie.get, hz]
  | some s =>
    obtain ⟨hsub, _, hcov⟩ := proveInto_spec (A := A) legacy n (some s) keys s0
    apply legacy_complete_keys hI cfg s n hwf hnz hn h256 _ (pathOfNat_length _ _) legacy false
    · intro nd hnd
      exact hcov k hk _ (List.mem_map.mpr ⟨nd, hnd, rfl⟩)
    · intro e he
      rcases hsub e he with h | ⟨k', _, hm⟩
      · exact hcons e h
      · exact toPSet_consistent _ e hm

/-- height 3, two IDENTICAL subtrees {0 ↦ 5, 1 ↦ 6} under the different edge paths 0 and 1 of the two children of
the root: keys 000, 001, 110, 111 -/
def twinTree : Tree HTerm :=
  .bin (.edge [false] (.bin (.leaf (.felt 5)) (.leaf (.felt 6))))
       (.edge [true] (.bin (.leaf (.felt 5)) (.leaf (.felt 6))))

-- non-vacuity: the second key lies under the twin of the first key's subtree; the set held a node of another
-- trie (`exTree`) and an entry that does not hash to its key before
example : verifyL freeAlg Cfg.strict (twinTree.hash freeAlg) (pathOfNat 3 6)
    (proveInto freeAlg true 3 (some twinTree) (Trie.prove freeAlg true false (some exTree) [true, true, false]) [0, 6])
    = .ok (.felt 5) := by decide
example : verify2 freeAlg Cfg.strict (twinTree.hash freeAlg) (pathOfNat 3 6)
    (proveOneInto freeAlg false 3 (some twinTree)
      (proveOneInto freeAlg false 3 (some twinTree) [(.felt 1, .bin ⟨.hash, .felt 2⟩ ⟨.hash, .felt 3⟩ none)] 0) 6)
    = .ok (.felt 5) := by decide
example : PSet.Extends (Trie.prove freeAlg false false (some exTree) [true, true, false] ++
      Trie.prove freeAlg false false (some exTree) [false, false, true])
    (Trie.prove freeAlg false false (some exTree) [true, true, false]) := by
  intro h nd hg
  rw [PSet.get_append, hg]

/-! ### `trie2.VerifyProof` on a set that holds several keys: the Go type of a child decides (finding 16)

The legacy-type verifier reads felts only, so `prove_many_into_consistent_set_complete` needs nothing about the
values.  `trie2.VerifyProof` refuses a child of Go type `*ValueNode` while key bits are left; the type is not
covered by the parent's hash.  When two sibling leaves hold the hashes of the two children of an inner binary
node (the owner of a storage trie chooses its values), the bottom node (value children) and the inner node (hash
children) have ONE hash, the set keeps the one `Put` last, and the honest proof of a key below the inner node is
REJECTED: `prove_many_trie2_value_equals_node_hash_rejected`.  Without such a coincidence it is complete:
`prove_many_trie2_complete_partial`.  The repaired function (`verify2W`: a value child is followed like a hash
child) stays sound: `proof_sound_trie2_value_walks`. -/

/-- PARTIAL (what is missing: the hypothesis `huniq` — two nodes of the proofs with one hash are one node — which
`trie2.VerifyProof` of /repo needs and which fails for chosen values, see the next theorem): several keys proven
by either prover into one (empty) set, every key verifies with `trie2.VerifyProof` to its actual value. -/
theorem prove_many_trie2_complete_partial (A : HashAlg H) (hI : Ideal A) (cfg : Cfg)
    (hz : cfg.zeroRoot = true) (t : Trie H) (n : Nat) (hwf : Trie.WF t n)
    (hn : 0 < n) (h256 : n < 256) (legacy : Bool) (keys : List Nat)
    (huniq : ∀ s, t = some s → ∀ k1 ∈ keys, ∀ k2 ∈ keys,
      ∀ n1 ∈ s.proveNodes A legacy false (pathOfNat n k1), ∀ n2 ∈ s.proveNodes A legacy false (pathOfNat n k2),
        n1.hash A = n2.hash A → n1 = n2)
    (k : Nat) (hk : k ∈ keys) :
    verify2 A cfg (t.hash A) (pathOfNat n k) (proveInto A legacy n t [] keys) =
      Res.ok (t.get A (pathOfNat n k)) := by
  cases t with
  | none => simp [verify2, Trie.hash, Trie.get, hz]
  | some s =>
    obtain ⟨hsub, _, hcov⟩ := proveInto_spec (A := A) legacy n (some s) keys []
    apply trie2_complete_tree hI cfg s n hwf hn h256 _ (pathOfNat_length _ _) legacy false
    intro nd hnd
    obtain ⟨x, hx⟩ := PSet.get_some_of_hasKey (hcov k hk (nd.hash A, nd) (List.mem_map.mpr ⟨nd, hnd, rfl⟩))
    rw [hx]
    rcases hsub _ (PSet.get_mem hx) with h0 | ⟨k', hk', hm⟩
    · simp at h0
    · simp only [Trie.prove, toPSet, List.mem_map] at hm
      obtain ⟨nd', hnd', heq⟩ := hm
      have h1 : nd'.hash A = nd.hash A := congrArg Prod.fst heq
      have h2 : nd' = x := congrArg Prod.snd heq
      rw [← h2, huniq s rfl k' hk' k hk nd' hnd' nd hnd h1]

/-- height 3: 000 ↦ 5, 011 ↦ 7 under the inner binary node at prefix 0; the sibling leaves 110, 111 hold the
hashes of that node's two children -/
def valueHashTree : Tree HTerm :=
  .bin (.bin (.edge [false] (.leaf (.felt 5))) (.edge [true] (.leaf (.felt 7))))
       (.edge [true] (.bin (.leaf ((Tree.edge [false] (.leaf (.felt 5)) : Tree HTerm).hash freeAlg))
                           (.leaf ((Tree.edge [true] (.leaf (.felt 7)) : Tree HTerm).hash freeAlg))))

/-- THE DEFECT (known finding `trie2:honest-shared-set:value-equals-node-hash:rejected-by-own-verifier`), on the
model: `Prove(000)` and then `Prove(110)` into one set, as `GetRangeProof(000, 110)` does.  `trie2.VerifyProof` of
/repo rejects the honest proof of 000 ("value node before the key is consumed"), the legacy-type verifier and the
repaired `trie2.VerifyProof` return 5; in the other order all is well. -/
theorem prove_many_trie2_value_equals_node_hash_rejected :
    verify2 freeAlg Cfg.strict (valueHashTree.hash freeAlg) (pathOfNat 3 0)
      (proveInto freeAlg false 3 (some valueHashTree) [] [0, 6]) = .earlyValue ∧
    verifyL freeAlg Cfg.strict (valueHashTree.hash freeAlg) (pathOfNat 3 0)
      (proveInto freeAlg false 3 (some valueHashTree) [] [0, 6]) = .ok (.felt 5) ∧
    verify2W freeAlg Cfg.strict (valueHashTree.hash freeAlg) (pathOfNat 3 0)
      (proveInto freeAlg false 3 (some valueHashTree) [] [0, 6]) = .ok (.felt 5) ∧
    verify2 freeAlg Cfg.strict (valueHashTree.hash freeAlg) (pathOfNat 3 0)
      (proveInto freeAlg false 3 (some valueHashTree) [] [6, 0]) = .ok (.felt 5) := by
  decide

/-- The repaired `trie2.VerifyProof` (`verify2W`; proposed-fixes/C10-trie2-verifyproof-value-child-walks-on.diff)
is sound against EVERY node set, like the function of today (`proof_sound_trie2`): following a value child costs
nothing, its felt is covered by the parent's hash exactly like that of a hash child. -/
theorem proof_sound_trie2_value_walks (A : HashAlg H) (hI : Ideal A) (n : Nat) (hn : 0 < n) (r : H) (k : Path)
    (hk : k.length = n) (P : PSet H) (v : H) (h : verify2W A Cfg.strict r k P = Res.ok v) :
    ∀ t : Trie H, Trie.WF t n → Trie.NZ A t → t.hash A = r → t.get A k = v :=
  proof_sound_trie2 A hI n hn r k hk (P.valueAsHash A) v h

/-- The edge path on the wire (`path` = `Path.Felt()`, `length` = `Path.Len()`) decoded by `EdgeNode.AsProofNode`
(`SetBytes(uint8(length), …)`) is the path of the node: nothing is lost for lengths below 256 (a trie has 251). -/
theorem rpc_edge_path_roundtrip (p : Path) (h : p.length < 256) : decodePath (encodePath p) = p :=
  decode_encode_path p h

/-- `processStorageKeys`: a request is refused iff some entry lacks its contract or its keys; otherwise the
result lists the distinct contracts in the order of first appearance and gives each exactly the keys requested
for it anywhere in the list, each once (so the `usk` of `rpc_response_verifies` covers every requested pair). -/
theorem rpc_storage_keys_merged (sks : List SK) (usk : List (Nat × List Nat))
    (h : processStorageKeys sks = .ok usk) :
    usk.map (·.1) = setOf (sks.filterMap (·.contract)) ∧
    (∀ sk ∈ sks, (∃ c, sk.contract = some c) ∧ sk.keys ≠ []) ∧
    ∀ c ks, (c, ks) ∈ usk → ks.Nodup ∧ ∀ k, k ∈ ks ↔ ∃ sk ∈ sks, sk.contract = some c ∧ k ∈ sk.keys :=
  processStorageKeys_spec sks usk h

/-- `utils.Set` (classes, contracts, keys): exactly the elements of the argument, each once. -/
theorem rpc_dedup_exact (xs : List Nat) : (setOf xs).Nodup ∧ ∀ x, x ∈ setOf xs ↔ x ∈ xs :=
  setOf_spec xs

/-- `isBlockSupported`: a proof is served exactly for a `block_id` that denotes the head — `latest`, the head's
number, or a hash that resolves to the head's number; never for an older, a future, the pre-confirmed or the
L1-accepted block (the proofs are those of the head state and verify against no other block's root). -/
theorem rpc_served_only_for_head (id : BlockId) (height : Nat) (numberByHash : Nat → Option Nat) :
    isBlockSupported id height numberByHash = .ok ↔
      id = .latest ∨ id = .number height ∨ ∃ h, id = .hash h ∧ numberByHash h = some height :=
  isBlockSupported_ok id height numberByHash

-- non-vacuity: a request over the example trie as contracts trie (contract 6 asked twice, 3 is absent),
-- storage keys of contract 6 given in two entries with a repeated key: served, two leaf entries, one mapping
def exResponseChecks : Bool :=
  match storageProof freeAlg freeAlg false 3
      ⟨none, some exTree, fun a => if a = 6 then some ⟨.felt 11, .felt 1⟩ else none,
        fun a => if a = 6 then some exTree else none⟩
      .ok [] [6, 3, 6] [⟨some 6, [1, 5]⟩, ⟨some 6, [5, 2]⟩] with
  | .ok r => decide (r.leaves.length = 2) && decide (r.storageProofs.length = 1) &&
      decide (verifyL freeAlg Cfg.strict r.contractsRoot (pathOfNat 3 6) (clientSet r.contractsProof) = .ok (.felt 8)) &&
      decide (verifyL freeAlg Cfg.strict r.contractsRoot (pathOfNat 3 3) (clientSet r.contractsProof) = .ok (.felt 0))
  | _ => false

example : exResponseChecks = true := by decide

end Juno.C10.Props
