import JunoModel.C10.Proofs
/-! C10 — property theorems. -/
namespace Juno.C10.Props
open Juno.C10

example : verifyL freeAlg (Trie.hash freeAlg (none : Trie HTerm)) [true] [] = .notFound := by decide

end Juno.C10.Props
