import JunoModel.C10.Proofs
/-!
C10 — Merkle proofs verify against the root and cannot be forged by tampering.
Property theorems only (lemmas are in `Proofs.lean`).  Every theorem here is an obligation listed in
evidence/C10.json with its axioms.

Setting.  `A : HashAlg H` is the hash primitive; `Ideal A` says binary and edge node hashes are
injective, never collide with each other and never equal the zero felt; `Acyclic A` says there are
no hash cycles.  Both hold in the free term algebra (`freeAlg_is_ideal`).  `Tree`/`Trie` is what
both tries denote, `Tree.proveNodes` transcribes the two provers (`legacy = true`: `core/trie`,
`false`: `core/trie2`), `verifyL` = `trie.VerifyProof`, `verify2` = `trie2.VerifyProof`.  `cfg : Cfg`
selects the variant of the verifiers: `Cfg.asIs` is the code at the pinned commit, `Cfg.strict` the
code with proposed-fixes/C10-verifyproof-empty-trie.diff and C10-trie2-verifyproof-*.diff applied; the harness probes the real code and
records which variant the correspondence was run against.  Heights are `0 < n < 256` (path
positions are `uint8` in Go; juno uses 251).
-/
namespace Juno.C10.Props
open Juno.C10

variable {H : Type} [DecidableEq H]

/-! ## Completeness: the proof the node produces verifies to the actual value or absence -/

/-- `trie.VerifyProof` accepts the proof produced by either prover for ANY key — present, absent
with the divergence inside an edge / at a binary node / at the root / at a leaf — of any non-empty
trie, and returns the key's value (zero = absent).  More generally it accepts every
self-consistent node set that contains the proof (RPC merges the proofs of several keys into one
set).  Holds for every variant `cfg`. -/
theorem proof_complete_legacy (A : HashAlg H) (hI : Ideal A) (cfg : Cfg) (t : Tree H) (n : Nat)
    (hwf : WF t n) (hn : 0 < n) (h256 : n < 256) (k : Path) (hk : k.length = n)
    (legacy cached : Bool) (P : PSet H)
    (hsub : ∀ nd ∈ t.proveNodes A legacy cached k, (nd.hash A, nd) ∈ P)
    (hcons : ∀ e ∈ P, e.1 = e.2.hash A) :
    verifyL A cfg (t.hash A) k P = Res.ok (t.get A k) :=
  legacy_complete_tree hI cfg t n hwf hn h256 k hk legacy cached P hsub hcons

/-- `trie2.VerifyProof` accepts every node set that returns the honest proof nodes for their
hashes, for any key of any non-empty trie (no assumption on the hash needed beyond `Ideal` for the
zero-root test), for every variant `cfg`, with or without cached hash flags in the nodes. -/
theorem proof_complete_trie2 (A : HashAlg H) (hI : Ideal A) (cfg : Cfg) (t : Tree H) (n : Nat)
    (hwf : WF t n) (hn : 0 < n) (h256 : n < 256) (k : Path) (hk : k.length = n)
    (legacy cached : Bool) (P : PSet H)
    (hlook : ∀ nd ∈ t.proveNodes A legacy cached k, P.get (nd.hash A) = some nd) :
    verify2 A cfg (t.hash A) k P = Res.ok (t.get A k) :=
  trie2_complete_tree hI cfg t n hwf hn h256 k hk legacy cached P hlook

/-- …in particular the node set `Prove` returns (no hash cycles ⇒ the set returns each honest node
for its hash). -/
theorem proof_complete_trie2_exact (A : HashAlg H) (hI : Ideal A) (hac : Acyclic A) (cfg : Cfg)
    (t : Tree H) (n : Nat) (hwf : WF t n) (hn : 0 < n) (h256 : n < 256) (k : Path)
    (hk : k.length = n) (cached : Bool) :
    verify2 A cfg (t.hash A) k (Trie.prove A false cached (some t) k) = Res.ok (t.get A k) :=
  trie2_complete_tree hI cfg t n hwf hn h256 k hk false cached _ (honest_lookup hac false cached t k)

/-- Full strength (empty trie included) for the repaired verifiers: for every trie, empty or not,
and every key, both verifiers accept the proof the prover returns and report the actual value. -/
theorem proof_complete (A : HashAlg H) (hI : Ideal A) (hac : Acyclic A) (cfg : Cfg)
    (hz : cfg.zeroRoot = true) (t : Trie H) (n : Nat) (hwf : Trie.WF t n) (hn : 0 < n) (h256 : n < 256)
    (k : Path) (hk : k.length = n) (cached : Bool) :
    verifyL A cfg (t.hash A) k (t.prove A true cached k) = Res.ok (t.get A k) ∧
    verify2 A cfg (t.hash A) k (t.prove A false cached k) = Res.ok (t.get A k) := by
  cases t with
  | none => simp [Trie.hash, Trie.get, verifyL, verify2, hz]
  | some s =>
    exact ⟨legacy_complete_tree hI cfg s n hwf hn h256 k hk true cached _
        (fun nd hnd => List.mem_map.mpr ⟨nd, hnd, rfl⟩) (toPSet_consistent _),
      trie2_complete_tree hI cfg s n hwf hn h256 k hk false cached _
        (honest_lookup hac false cached s k)⟩

/- The same statement for the code as it is (`cfg.zeroRoot = false`) is FALSE on the empty trie;
what holds is `proof_complete_partial` (non-empty tries) and the negation below. -/

/-- Code as it is: completeness for every NON-EMPTY trie (missing: the empty trie). -/
theorem proof_complete_partial (A : HashAlg H) (hI : Ideal A) (hac : Acyclic A) (t : Tree H)
    (n : Nat) (hwf : WF t n) (hn : 0 < n) (h256 : n < 256) (k : Path) (hk : k.length = n)
    (cached : Bool) :
    verifyL A Cfg.asIs (t.hash A) k (Trie.prove A true cached (some t) k) = Res.ok (t.get A k) ∧
    verify2 A Cfg.asIs (t.hash A) k (Trie.prove A false cached (some t) k) = Res.ok (t.get A k) :=
  ⟨legacy_complete_tree hI _ t n hwf hn h256 k hk true cached _
      (fun nd hnd => List.mem_map.mpr ⟨nd, hnd, rfl⟩) (toPSet_consistent _),
    trie2_complete_tree hI _ t n hwf hn h256 k hk false cached _ (honest_lookup hac false cached t k)⟩

/-- DEFECT (known finding `*:honest-empty-trie:rejected-by-own-verifier`): with the code as it is
both verifiers reject the (empty) proof of the empty trie for every key, in every hash algebra. -/
theorem empty_trie_proof_rejected (A : HashAlg H) (k : Path) (legacy cached : Bool) :
    verifyL A Cfg.asIs (Trie.hash A none) k (Trie.prove A legacy cached none k) = Res.notFound ∧
    verify2 A Cfg.asIs (Trie.hash A none) k (Trie.prove A legacy cached none k) = Res.notFound := by
  simp [verifyL, verify2, Cfg.asIs, Trie.prove, verifyFuel, verifyLAux, verify2Aux, PSet.get]

/-! ## Soundness: whatever node set is offered, an accepted value is the actual one -/

/-- `trie.VerifyProof`, every variant: if ANY node set makes the verifier return `v` for key `k`
against root `r`, then every trie of height `n` with root `r` (empty or not) holds exactly `v` at
`k` (`v = zero` ⇔ absent). -/
theorem proof_sound_legacy (A : HashAlg H) (hI : Ideal A) (cfg : Cfg) (n : Nat) (hn : 0 < n)
    (h256 : n < 256) (r : H) (k : Path) (hk : k.length = n) (P : PSet H) (v : H)
    (h : verifyL A cfg r k P = Res.ok v) :
    ∀ t : Trie H, Trie.WF t n → t.hash A = r → t.get A k = v := by
  intro t hwf hr
  subst hr
  exact (legacy_sound hI cfg t n hwf hn h256 k hk P v h).symm

/-- `trie2.VerifyProof`, repaired variant (`Cfg.strict`): sound against every node set, whatever
the Go types of the children and whatever cached hash flags the nodes carry. -/
theorem proof_sound_trie2 (A : HashAlg H) (hI : Ideal A) (n : Nat) (hn : 0 < n) (r : H) (k : Path)
    (hk : k.length = n) (P : PSet H) (v : H) (h : verify2 A Cfg.strict r k P = Res.ok v) :
    ∀ t : Trie H, Trie.WF t n → t.hash A = r → t.get A k = v := by
  intro t hwf hr
  subst hr
  exact (trie2_sound hI Cfg.strict t n hwf hn k hk P (by simp [Cfg.strict]) (by simp [Cfg.strict])
    v h).symm

/-- `trie2.VerifyProof`, any variant, in particular the code as it is: sound against node sets in
which no node carries a cached hash flag (if the variant trusts the flag) and no child is typed as
a value node (if the variant lets a value node end the walk) — i.e. what a decoder of the wire
format (felts only, as in the RPC response) produces.  Missing for `Cfg.asIs`: node sets with
cached flags or value-typed children; `cached_hash_forgery` and `value_retype_forgery` show that
the hypotheses cannot be dropped. -/
theorem proof_sound_trie2_partial (A : HashAlg H) (hI : Ideal A) (cfg : Cfg) (n : Nat) (hn : 0 < n)
    (r : H) (k : Path) (hk : k.length = n) (P : PSet H)
    (hcache : cfg.trustCache = true → ∀ e ∈ P, e.2.cache = none)
    (hval : cfg.earlyValue = true → ∀ e ∈ P, e.2.noValue) (v : H)
    (h : verify2 A cfg r k P = Res.ok v) :
    ∀ t : Trie H, Trie.WF t n → t.hash A = r → t.get A k = v := by
  intro t hwf hr
  subst hr
  exact (trie2_sound hI cfg t n hwf hn k hk P hcache hval v h).symm

/-! ## Tampering -/

/-- Altering a node, the claimed value or the key: whatever is done to the node set and whichever
key it is offered for, the verifier fails or still reports the trie's actual content for that key —
it never confirms a value `v` the trie does not hold. -/
theorem tamper_rejected (A : HashAlg H) (hI : Ideal A) (cfg : Cfg) (t : Trie H) (n : Nat)
    (hwf : Trie.WF t n) (hn : 0 < n) (h256 : n < 256) (k' : Path) (hk : k'.length = n) (P' : PSet H)
    (v : H) (hv : v ≠ t.get A k') :
    verifyL A cfg (t.hash A) k' P' ≠ Res.ok v ∧ verify2 A Cfg.strict (t.hash A) k' P' ≠ Res.ok v :=
  ⟨fun h => hv (legacy_sound hI cfg t n hwf hn h256 k' hk P' v h),
   fun h => hv (trie2_sound hI Cfg.strict t n hwf hn k' hk P' (by simp [Cfg.strict])
     (by simp [Cfg.strict]) v h)⟩

/-- Two node sets accepted for the same root and key give the same answer: an altered proof that
still verifies has not changed what is proved. -/
theorem tamper_cannot_change_result (A : HashAlg H) (hI : Ideal A) (cfg : Cfg) (t : Trie H) (n : Nat)
    (hwf : Trie.WF t n) (hn : 0 < n) (h256 : n < 256) (k : Path) (hk : k.length = n) (P P' : PSet H)
    (v v' : H) (h : verifyL A cfg (t.hash A) k P = Res.ok v)
    (h' : verifyL A cfg (t.hash A) k P' = Res.ok v') : v = v' :=
  (legacy_sound hI cfg t n hwf hn h256 k hk P v h).trans
    (legacy_sound hI cfg t n hwf hn h256 k hk P' v' h').symm

/-! ## Non-vacuity and the defects of `trie2.VerifyProof` as it is, on a concrete trie -/

/-- The hypotheses on the hash are satisfiable: the free term algebra is ideal and acyclic. -/
theorem freeAlg_is_ideal : Ideal freeAlg ∧ Acyclic freeAlg := ⟨freeAlg_ideal, freeAlg_acyclic⟩

/-- height 3: 001 ↦ 7 (edge of length 2 under the root), 101 ↦ 5, 110 ↦ 8, 111 ↦ 9 -/
def exTree : Tree HTerm :=
  .bin (.edge [false, true] (.leaf (.felt 7)))
       (.bin (.edge [true] (.leaf (.felt 5))) (.bin (.leaf (.felt 8)) (.leaf (.felt 9))))

example : WF exTree 3 :=
  .bin (.edge (p := [false, true]) (by simp) (.leaf _))
    (.bin (.edge (p := [true]) (by simp) (.leaf _)) (.bin (.leaf _) (.leaf _)))

-- honest proofs of present keys and of absent keys (divergence inside the edge, at the last bit)
example : verifyL freeAlg Cfg.asIs (exTree.hash freeAlg) [true, true, false]
    (Trie.prove freeAlg true false (some exTree) [true, true, false]) = .ok (.felt 8) := by decide
example : verify2 freeAlg Cfg.asIs (exTree.hash freeAlg) [false, false, true]
    (Trie.prove freeAlg false true (some exTree) [false, false, true]) = .ok (.felt 7) := by decide
example : verify2 freeAlg Cfg.strict (exTree.hash freeAlg) [false, true, true]
    (Trie.prove freeAlg false true (some exTree) [false, true, true]) = .ok (.felt 0) := by decide
example : verifyL freeAlg Cfg.asIs (exTree.hash freeAlg) [true, false, false]
    (Trie.prove freeAlg true false (some exTree) [true, false, false]) = .ok (.felt 0) := by decide

/-- the proof of 110 with the value in the last node replaced by 666, cached hash flag kept -/
def forgedCached : PSet HTerm :=
  match Trie.prove freeAlg false true (some exTree) [true, true, false] with
  | [a, b, (h, .bin _ r c)] => [a, b, (h, .bin ⟨.value, .felt 666⟩ r c)]
  | p => p

/-- DEFECT (known finding `trie2:altered-node-with-stale-cached-hash:accepted`): the code as it is
accepts the altered proof and reports the forged value. -/
theorem cached_hash_forgery :
    verify2 freeAlg Cfg.asIs (exTree.hash freeAlg) [true, true, false] forgedCached = .ok (.felt 666) ∧
    exTree.get freeAlg [true, true, false] = .felt 8 ∧
    verify2 freeAlg Cfg.strict (exTree.hash freeAlg) [true, true, false] forgedCached = .mismatch := by
  decide

/-- the proof of 110 without cached flags, the on-path child of the root re-typed as a value node -/
def forgedRetyped : PSet HTerm :=
  match Trie.prove freeAlg false false (some exTree) [true, true, false] with
  | (h, .bin l r c) :: rest => (h, .bin l ⟨.value, r.h⟩ c) :: rest
  | p => p

/-- DEFECT (known finding `trie2:hash-child-retyped-as-value:accepted`): every node still hashes to
its key, yet the code as it is returns the hash of an inner node as the value of key 110. -/
theorem value_retype_forgery :
    (∀ e ∈ forgedRetyped, e.1 = e.2.hash freeAlg) ∧
    verify2 freeAlg Cfg.asIs (exTree.hash freeAlg) [true, true, false] forgedRetyped =
      .ok ((Tree.bin (.edge [true] (.leaf (.felt 5))) (.bin (.leaf (.felt 8)) (.leaf (.felt 9)))).hash freeAlg) ∧
    exTree.get freeAlg [true, true, false] = .felt 8 ∧
    verify2 freeAlg Cfg.strict (exTree.hash freeAlg) [true, true, false] forgedRetyped = .earlyValue := by
  decide

/-! ## Range proofs (trie2, the single-element and the empty-range case only)

`verifySingle` / `verifyEmpty` transcribe `verifySingleElementProof` / `verifyEmptyRangeProof` with
`proofToPath` and `hasRightElement`; `RCfg.asIs` is the code at the pinned commit, `RCfg.strict` the
code with proposed-fixes/C10-trie2-rangeproof-*.diff.  The general case (two edge paths,
`unsetInternal`, re-insertion) and the legacy trie's range proofs are not modelled: `range_complete`
and `range_sound` of the plan are NOT proved; what follows is the partial result. -/

/-- Repaired variant, single element, value: if `VerifyRangeProof(root, k, [k], [v], P)` succeeds for
ANY node set P then every trie with that root (empty or not) holds `v` at `k`. -/
theorem range_single_sound (A : HashAlg H) (hI : Ideal A) (rc : RCfg)
    (hch : rc.checkHash = true) (hev : rc.earlyValue = false) (hlh : rc.leafHash = true)
    (n : Nat) (hn : 0 < n) (r : H) (k : Path) (hk : k.length = n) (v : H) (P : PSet H) (more : Bool)
    (h : verifySingle A rc r k v P = RRes.ok more) :
    ∀ t : Trie H, Trie.WF t n → t.hash A = r → t.get A k = v := by
  intro t hwf hr
  subst hr
  exact single_sound hI rc hch hev hlh t n hwf hn k hk v P more h

/-- …and the returned `more` flag is exact: it is true iff the trie has a key greater than `k`
(`GtIn t n k` = some key of length n present in `t` is lexicographically greater). `NZ`: no leaf of
the trie holds zero (tries never store zero). This is what `VerifyRangeProof` guarantees about
`hasMore` in the single-element case. -/
theorem range_single_more (A : HashAlg H) (hI : Ideal A) (rc : RCfg)
    (hch : rc.checkHash = true) (hev : rc.earlyValue = false) (hlh : rc.leafHash = true)
    (t : Tree H) (n : Nat) (hwf : WF t n) (hnz : t.NZ A) (hn : 0 < n) (k : Path) (hk : k.length = n)
    (v : H) (P : PSet H) (more : Bool) (h : verifySingle A rc (t.hash A) k v P = RRes.ok more) :
    (more = true ↔ GtIn t n k) :=
  single_more hI rc hch hev hlh t n hwf hnz hn k hk v P more h

/-- Repaired variant, empty range, FULL: if `VerifyRangeProof(root, first, nil, nil, P)` succeeds for
any node set P then the flag is `false` and every key of every (non-empty) trie with that root is
smaller than `first` — the trie has no entry at or right of `first`. -/
theorem range_empty_sound (A : HashAlg H) (hI : Ideal A) (rc : RCfg)
    (hch : rc.checkHash = true) (hev : rc.earlyValue = false) (hlh : rc.leafHash = true)
    (t : Tree H) (n : Nat) (hwf : WF t n) (hnz : t.NZ A) (hn : 0 < n) (first : Path)
    (hk : first.length = n) (P : PSet H) (more : Bool)
    (h : verifyEmpty A rc (t.hash A) first P = RRes.ok more) :
    more = false ∧ ∀ k', k'.length = n → t.has k' = true → pathLt k' first = true :=
  empty_no_key hI rc hch hev hlh t n hwf hnz hn first hk P more h

/-- The empty trie (root zero): the repaired variant accepts the empty-range claim for every `first`
and every node set; the code as it is rejects the honest (empty) proof — DEFECT, known finding
`*:range:honest-empty-range-of-empty-trie:rejected`. -/
theorem range_empty_trie (A : HashAlg H) (first : Path) (P : PSet H) :
    verifyEmpty A RCfg.strict A.zero first P = RRes.ok false ∧
    verifyEmpty A RCfg.asIs A.zero first [] = RRes.err := by
  simp [verifyEmpty, RCfg.strict, RCfg.asIs, verifyFuel, resolveAux, PSet.get]

/-- Completeness, single element (any variant, either prover's node set): the range proof
`GetRangeProof(k, k)` of a key that is in the trie is accepted for the key's value (and by
`range_single_more` the flag it returns is the true one). -/
theorem range_single_complete (A : HashAlg H) (rc : RCfg) (t : Tree H) (n : Nat) (hwf : WF t n)
    (hn : 0 < n) (h256 : n < 256) (k : Path) (hk : k.length = n) (hhas : t.has k = true)
    (hv : t.get A k ≠ A.zero) (legacy cached : Bool) (P : PSet H)
    (hlook : ∀ nd ∈ t.proveNodes A legacy cached k, P.get (nd.hash A) = some nd) :
    ∃ more, verifySingle A rc (t.hash A) k (t.get A k) P = RRes.ok more :=
  single_complete rc t n hwf hn h256 k hk hhas hv legacy cached P hlook

/-- RANGE SOUNDNESS, general case (two or more keys, or one key with `first` < key), for every
variant in which `unset` clears the boundary leaf under a binary node (`unsetLeaf`, the repaired code),
against ANY node set: if `VerifyRangeProof(root, first, keys, values, P)` succeeds then, in every trie `t`
with that root, every key `k` of the interval `first ≤ k ≤ last` holds exactly what the claimed list
gives it (`lastVal kvs k`, zero = not listed): nothing in the interval is left out, nothing listed there
is wrong or invented. (Entries listed LEFT of `first` are not covered by this statement: the code accepts
them when they are genuine entries on the resolved path; see notes.) -/
theorem range_sound (A : HashAlg H) (hI : Ideal A) (rc : RCfg) (hul : rc.unsetLeaf = true)
    (t : Tree H) (n : Nat) (hwf : WF t n) (first : Path) (hfl : first.length = n)
    (kvs : List (Path × H)) (hkl : ∀ kv ∈ kvs, kv.1.length = n) (P : PSet H) (more : Bool)
    (h : verifyMulti A rc (t.hash A) first kvs P = RRes.ok more) :
    ∃ lastKV, kvs.getLast? = some lastKV ∧ pathLt first lastKV.1 = true ∧
      ∀ k, k.length = n → (first = k ∨ pathLt first k = true) →
        (k = lastKV.1 ∨ pathLt k lastKV.1 = true) →
        t.get A k = (lastVal kvs k).getD A.zero :=
  multi_sound hI rc hul t n hwf first hfl kvs hkl P more h

/-- …and the returned `more` flag is exact (repaired variant): `VerifyRangeProof` returns `true` iff the
trie has a key greater than the last key of the list. Together with `range_single_more` and
`range_empty_sound` (flag always `false`, and then indeed nothing is at or right of `first`) this is
the complete statement of what `hasMore` guarantees: whenever verification succeeds,
`hasMore = (some key of the trie is greater than the last listed key)`. -/
theorem range_more (A : HashAlg H) (hI : Ideal A) (rc : RCfg) (hch : rc.checkHash = true)
    (hev : rc.earlyValue = false) (hlh : rc.leafHash = true) (t : Tree H) (n : Nat) (hwf : WF t n)
    (hnz : t.NZ A) (first : Path) (hfl : first.length = n) (kvs : List (Path × H))
    (hkl : ∀ kv ∈ kvs, kv.1.length = n) (P : PSet H) (more : Bool)
    (h : verifyMulti A rc (t.hash A) first kvs P = RRes.ok more) :
    ∃ lastKV, kvs.getLast? = some lastKV ∧ (more = true ↔ GtIn t n lastKV.1) :=
  multi_more hI rc hch hev hlh t n hwf hnz first hfl kvs hkl P more h

/-- The no-proof case (`proof == nil`: the list is claimed to be the WHOLE trie), any variant: if it
verifies, the trie holds exactly the listed entries (every key: listed value, or absent if not listed)
and the flag is `false`. -/
theorem range_all_sound (A : HashAlg H) (hI : Ideal A) (t : Tree H) (n : Nat) (hwf : WF t n)
    (kvs : List (Path × H)) (hkl : ∀ kv ∈ kvs, kv.1.length = n) (more : Bool)
    (h : verifyAll A (t.hash A) n kvs = RRes.ok more) :
    more = false ∧ ∀ k, k.length = n → t.get A k = (lastVal kvs k).getD A.zero :=
  all_sound hI t n hwf kvs hkl more h

/-- The hypotheses `WF` / `NZ` of the theorems above are not assumptions about some abstract tree:
the trie of ANY key/value set with keys of length `n` and non-zero values (`build`, which the real
tries are compared against node for node) is well-formed of height `n` and holds no zero leaf. -/
theorem trie_of_entries_wf_nz (A : HashAlg H) (n : Nat) (kvs : List (Path × H))
    (hv : ∀ kv ∈ kvs, kv.2 ≠ A.zero) (t : Tree H) (h : build n kvs = some t) : WF t n ∧ t.NZ A :=
  ⟨build_wf n kvs t h, build_nz n kvs t hv h⟩

/-- …and it holds exactly the entries (last value of a repeated key, zero for an unlisted key). -/
theorem trie_of_entries_get (A : HashAlg H) (n : Nat) (kvs : List (Path × H))
    (hl : ∀ kv ∈ kvs, kv.1.length = n) (k : Path) (hk : k.length = n) :
    Trie.get A (build n kvs) k = (lastVal kvs k).getD A.zero :=
  get_build n kvs k hl hk

/-- the honest range proof of the sibling keys 110, 111 of the example trie -/
def gapProof : PSet HTerm :=
  Trie.prove freeAlg false false (some exTree) [true, true, false] ++
    Trie.prove freeAlg false false (some exTree) [true, true, true]

/-- DEFECT (known finding `trie2:range:first-element-dropped-leaf-under-binary-node:false-claim-accepted`):
without `unsetLeaf` (the code as it is; the other repairs do not matter) the range [110, 111] verifies
with 110 — a key of the trie — left out of the list; the repaired variant rejects it and accepts the
complete list. So the hypothesis `unsetLeaf` of `range_sound` cannot be dropped. -/
theorem range_gap_accepted_without_unsetLeaf :
    verifyMulti freeAlg ⟨true, false, true, true, false⟩ (exTree.hash freeAlg) [true, true, false]
        [([true, true, true], .felt 9)] gapProof = .ok false ∧
    exTree.get freeAlg [true, true, false] = .felt 8 ∧
    verifyMulti freeAlg RCfg.strict (exTree.hash freeAlg) [true, true, false]
        [([true, true, true], .felt 9)] gapProof = .err ∧
    verifyMulti freeAlg RCfg.strict (exTree.hash freeAlg) [true, true, false]
        [([true, true, false], .felt 8), ([true, true, true], .felt 9)] gapProof = .ok false := by
  decide

-- a multi-element range with an absent first key and more entries to the right: accepted, more = true
example : verifyMulti freeAlg RCfg.strict (exTree.hash freeAlg) [true, false, false]
    [([true, false, true], .felt 5), ([true, true, false], .felt 8)]
    (Trie.prove freeAlg false false (some exTree) [true, false, false] ++
      Trie.prove freeAlg false false (some exTree) [true, true, false]) = .ok true := by decide

/-- DEFECT (known finding `trie2:range:single-element-forged-node-under-root-hash`): with the code as
it is, for EVERY root, key and non-zero value the one-node set `{root ↦ Edge(key, Value v)}` makes the
single-element range proof verify — the root plays no part. -/
theorem range_single_forgery (A : HashAlg H) (root : H) (k : Path) (v : H) (hv : v ≠ A.zero) :
    verifySingle A RCfg.asIs root k v [(root, PNode.edge k ⟨Tag.value, v⟩ none)] = RRes.ok false :=
  single_forgery A root k v hv

/-- DEFECT (known finding `trie2:range:empty-range-forged-node-under-root-hash`): with the code as it
is, for EVERY root and every `first` other than 0…0 the one-node set `{root ↦ Edge(0…0, Value v)}`
makes "no entry at or right of `first`" verify. -/
theorem range_empty_forgery (A : HashAlg H) (root : H) (first : Path) (v : H)
    (hne : first ≠ List.replicate first.length false) :
    verifyEmpty A RCfg.asIs root first
      [(root, PNode.edge (List.replicate first.length false) ⟨Tag.value, v⟩ none)] = RRes.ok false :=
  empty_forgery A root first v hne

-- the repaired variant rejects both forgeries on the example trie
example : verifySingle freeAlg RCfg.strict (exTree.hash freeAlg) [true, true, false] (.felt 666)
    [(exTree.hash freeAlg, PNode.edge [true, true, false] ⟨Tag.value, .felt 666⟩ none)] = .err := by decide
example : verifySingle freeAlg RCfg.strict (exTree.hash freeAlg) [true, true, false] (.felt 8)
    (Trie.prove freeAlg false false (some exTree) [true, true, false]) = .ok true := by decide

end Juno.C10.Props
