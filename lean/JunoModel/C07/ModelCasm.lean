import JunoModel.C07.ModelLayout
/-
C07 — model, part 11 (round 6): the CASM-hash metadata of a declared class and its life cycle.

  core/class.go                           ClassCasmHashMetadata: NewCasmHashMetadataDeclaredV1 / V2, CasmHash,
                                          CasmHashAt, CasmHashV2, Migrate, Unmigrate, IsMigrated, IsMigratedAt,
                                          IsDeclaredWithV2 (MarshalBinary / UnmarshalBinary are in ModelBin)
  core/accessors.go                       Get / Write / DeleteClassCasmHashMetadata (bucket 39, key = bucket ‖
                                          felt.Marshal(sierra class hash))
  blockchain/statebackend/casm_metadata.go  storeCasmHashMetadata (V1 and V2 protocol paths), revertCasmHashMetadata
  core/state/state_reader.go, history.go  CompiledClassHash (CasmHash), CompiledClassHashV2, CompiledClassHashAt /
                                          stateHistory.CompiledClassHash (CasmHashAt)

What the readers return for a declared class at a height is decided by this record; a block stores
it (declared classes) or rewrites it (migrated classes), a reorg deletes it / rewrites it back.
`Store` / `RevertHead` read the records from the DATABASE (not from their batch); the model takes the
reader store and the writer store apart the same way. Core Lean only.
-/
namespace Juno.C07

/-! ## The record's methods (core/class.go) -/

/-- `NewCasmHashMetadataDeclaredV1(declaredAt, v1, v2)`. -/
def CasmMeta.declaredV1 (d : Nat) (v1 v2 : Bytes) : CasmMeta := ⟨d, v2, 0, some v1⟩
/-- `NewCasmHashMetadataDeclaredV2(declaredAt, v2)`. -/
def CasmMeta.declaredV2 (d : Nat) (v2 : Bytes) : CasmMeta := ⟨d, v2, 0, none⟩

def CasmMeta.isDeclaredWithV2 (m : CasmMeta) : Bool := m.v1.isNone
def CasmMeta.isMigrated (m : CasmMeta) : Bool := decide (m.migratedAt > 0)
def CasmMeta.isMigratedAt (m : CasmMeta) (h : Nat) : Bool := decide (m.migratedAt > 0) && decide (m.migratedAt ≤ h)

/-- `CasmHash()`: the hash at the most recent height. -/
def CasmMeta.casmHash (m : CasmMeta) : Bytes :=
  match m.v1 with
  | none => m.v2
  | some h1 => if m.isMigrated then m.v2 else h1

/-- `CasmHashAt(height)`; `none` = `db.ErrKeyNotFound` (not declared yet at that height). -/
def CasmMeta.casmHashAt (m : CasmMeta) (h : Nat) : Option Bytes :=
  if m.declaredAt > h then none
  else match m.v1 with
    | none => some m.v2
    | some h1 => if m.isMigratedAt h then some m.v2 else some h1

inductive CasmErr where
  | v2Declared        -- ErrCannotMigrateV2Declared
  | beforeDeclared    -- ErrCannotMigrateBeforeDeclared
  | alreadyMigrated   -- ErrCannotMigrateAlreadyMigrated
  | notMigrated       -- ErrCannotUnmigrateNotMigrated
  | metaMissing       -- the record of a migrated class is not in the database
  | readFails         -- the stored record does not decode
  | noDefinition      -- a declared class without a Sierra definition among the new classes
  deriving Repr, DecidableEq

/-- `Migrate(migratedAt)`: the three refusals in the code's order. -/
def CasmMeta.migrate (m : CasmMeta) (at_ : Nat) : Except CasmErr CasmMeta :=
  if m.isDeclaredWithV2 then .error .v2Declared
  else if at_ ≤ m.declaredAt then .error .beforeDeclared
  else if m.isMigrated then .error .alreadyMigrated
  else .ok { m with migratedAt := at_ }

/-- `Unmigrate()`. -/
def CasmMeta.unmigrate (m : CasmMeta) : Except CasmErr CasmMeta :=
  if !m.isMigrated then .error .notMigrated else .ok { m with migratedAt := 0 }

/-- Operations on one record, as the node applies them over the life of a class. -/
inductive CasmOp where
  | migrate (at_ : Nat)
  | unmigrate
  | reload             -- MarshalBinary, then UnmarshalBinary of the bytes (written and read back)

/-- One operation; a refused operation leaves the record as it was (the block is rejected). -/
def CasmMeta.apply (m : CasmMeta) : CasmOp → CasmMeta
  | .migrate a => match m.migrate a with | .ok m' => m' | .error _ => m
  | .unmigrate => match m.unmigrate with | .ok m' => m' | .error _ => m
  | .reload => match CasmMeta.unmarshal m.marshal with | some m' => m' | none => m

def CasmMeta.applyAll (m : CasmMeta) : List CasmOp → CasmMeta
  | [] => m
  | o :: os => (m.apply o).applyAll os

/-! ## The bucket (core/accessors.go) -/


def keyCasm (classHash : Bytes) : Bytes := dbKey bClassCasmHashMetadata classHash

/-- `GetClassCasmHashMetadata`. -/
def getCasmMeta (s : Store) (classHash : Bytes) : Except CasmErr CasmMeta :=
  match s.get (keyCasm classHash) with
  | none => .error .metaMissing
  | some bs =>
    match CasmMeta.unmarshal bs with
    | some m => .ok m
    | none => .error .readFails

/-- `StateReader.CompiledClassHash` (head) — `none`: the accessor fails. -/
def compiledClassHash (s : Store) (classHash : Bytes) : Option Bytes :=
  match getCasmMeta s classHash with
  | .ok m => some m.casmHash
  | .error _ => none

/-- `StateReader.CompiledClassHashAt` / `stateHistory.CompiledClassHash`. -/
def compiledClassHashAt (s : Store) (classHash : Bytes) (h : Nat) : Option Bytes :=
  match getCasmMeta s classHash with
  | .ok m => m.casmHashAt h
  | .error _ => none

/-- `StateReader.CompiledClassHashV2`. -/
def compiledClassHashV2 (s : Store) (classHash : Bytes) : Option Bytes :=
  match getCasmMeta s classHash with
  | .ok m => some m.v2
  | .error _ => none

/-! ## What a block does to the bucket (blockchain/statebackend/casm_metadata.go) -/

/-- One entry of `StateDiff.DeclaredV1Classes` with what `storeCasmHashMetadata` looks up for it:
whether `newClasses` holds a Sierra definition (with a compiled class that hashes) and the V2 hash
computed from that definition (used by the pre-0.14.1 path only). -/
structure CasmDecl where
  classHash : Bytes
  casm : Bytes          -- the compiled class hash the state diff declares
  defOk : Bool
  v2computed : Bytes

structure CasmDiff where
  declared : List CasmDecl
  migrated : List Bytes   -- the keys of `StateDiff.MigratedClasses`

/-- The record a declared class gets: `isV2` = protocol version ≥ 0.14.1. -/
def declMeta (isV2 : Bool) (n : Nat) (e : CasmDecl) : CasmMeta :=
  if isV2 then CasmMeta.declaredV2 n e.casm else CasmMeta.declaredV1 n e.casm e.v2computed

def declEntries (isV2 : Bool) (n : Nat) : List CasmDecl → Except CasmErr (List (Bytes × Bytes))
  | [] => .ok []
  | e :: es =>
    if !e.defOk then .error .noDefinition
    else match declEntries isV2 n es with
      | .ok r => .ok ((keyCasm e.classHash, (declMeta isV2 n e).marshal) :: r)
      | .error x => .error x

/-- The second loop of `storeCasmHashMetadataV2`: read (from the database `r`), `Migrate(n)`, write.
Every read error is reported as "metadata not found". -/
def migEntries (r : Store) (n : Nat) : List Bytes → Except CasmErr (List (Bytes × Bytes))
  | [] => .ok []
  | h :: hs =>
    match getCasmMeta r h with
    | .error _ => .error .metaMissing
    | .ok m =>
      match m.migrate n with
      | .error x => .error x
      | .ok m' =>
        match migEntries r n hs with
        | .ok rest => .ok ((keyCasm h, m'.marshal) :: rest)
        | .error x => .error x

/-- `storeCasmHashMetadata`: reads from `r`, the writes go on top of `w`. The pre-0.14.1 path does
not look at `MigratedClasses`. -/
def storeCasm (isV2 : Bool) (r w : Store) (n : Nat) (d : CasmDiff) : Except CasmErr Store :=
  match declEntries isV2 n d.declared with
  | .error x => .error x
  | .ok de =>
    if isV2 then
      match migEntries r n d.migrated with
      | .error x => .error x
      | .ok me => .ok (w.putAll (de ++ me))
    else .ok (w.putAll de)

def unmigEntries (r : Store) : List Bytes → Except CasmErr (List (Bytes × Bytes))
  | [] => .ok []
  | h :: hs =>
    match getCasmMeta r h with
    | .error x => .error x
    | .ok m =>
      match m.unmigrate with
      | .error x => .error x
      | .ok m' =>
        match unmigEntries r hs with
        | .ok rest => .ok ((keyCasm h, m'.marshal) :: rest)
        | .error x => .error x

/-- `revertCasmHashMetadata`: delete the record of every declared class, un-migrate every migrated
one (whatever the protocol version of the block). -/
def revertCasm (r w : Store) (d : CasmDiff) : Except CasmErr Store :=
  match unmigEntries r d.migrated with
  | .error x => .error x
  | .ok ue => .ok ((w.delAll (d.declared.map (fun e => keyCasm e.classHash))).putAll ue)

/-- One stored block, as far as the bucket is concerned. -/
structure CasmBlock where
  isV2 : Bool
  diff : CasmDiff

/-- `Store` of blocks `n, n+1, …` (reader = the database the batch is flushed to). -/
def runCasm : Store → Nat → List CasmBlock → Except CasmErr Store
  | s, _, [] => .ok s
  | s, n, b :: bs =>
    match storeCasm b.isV2 s s n b.diff with
    | .ok s' => runCasm s' (n + 1) bs
    | .error e => .error e

end Juno.C07
