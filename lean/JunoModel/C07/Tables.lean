import JunoModel.C07.ModelVal
/-
C07 — model, part 4: the type tables of juno's stored records and of the partial decoders.

The record tables (`tHeader`, `tTransaction`, …) were produced from the real Go types by
reflection (`C07_DUMP_TABLES=1 vh-c07`) and are re-checked against reflection on every run
(`type` requests of the harness: any added / renamed / retagged / retyped field is a mismatch).
Keys are UTF-8 bytes (comment = the name), in canonical order.

The projection tables at the end transcribe core/partial_cbor.go: a skeleton naming every key
as `discardedCBOR`, embedded in a struct whose own (shallower) fields shadow the wanted keys.
-/
namespace Juno.C07

def tHeader : GoType :=
  .struct [
    (/- Hash -/ [72,97,115,104], false, .ptr (.felt)),
    (/- Number -/ [78,117,109,98,101,114], false, .uint 64),
    (/- L1DAMode -/ [76,49,68,65,77,111,100,101], false, .uint 64),
    (/- gasprice -/ [103,97,115,112,114,105,99,101], false, .ptr (.felt)),
    (/- Timestamp -/ [84,105,109,101,115,116,97,109,112], false, .uint 64),
    (/- EventCount -/ [69,118,101,110,116,67,111,117,110,116], false, .uint 64),
    (/- L2GasPrice -/ [76,50,71,97,115,80,114,105,99,101], false, .ptr (.struct [
    (/- PriceInFri -/ [80,114,105,99,101,73,110,70,114,105], false, .ptr (.felt)),
    (/- PriceInWei -/ [80,114,105,99,101,73,110,87,101,105], false, .ptr (.felt))])),
    (/- ParentHash -/ [80,97,114,101,110,116,72,97,115,104], false, .ptr (.felt)),
    (/- Signatures -/ [83,105,103,110,97,116,117,114,101,115], false, .slice (.slice (.ptr (.felt)))),
    (/- EventsBloom -/ [69,118,101,110,116,115,66,108,111,111,109], false, .raw),
    (/- gaspricestrk -/ [103,97,115,112,114,105,99,101,115,116,114,107], false, .ptr (.felt)),
    (/- L1DataGasPrice -/ [76,49,68,97,116,97,71,97,115,80,114,105,99,101], false, .ptr (.struct [
    (/- PriceInFri -/ [80,114,105,99,101,73,110,70,114,105], false, .ptr (.felt)),
    (/- PriceInWei -/ [80,114,105,99,101,73,110,87,101,105], false, .ptr (.felt))])),
    (/- GlobalStateRoot -/ [71,108,111,98,97,108,83,116,97,116,101,82,111,111,116], false, .ptr (.felt)),
    (/- ProtocolVersion -/ [80,114,111,116,111,99,111,108,86,101,114,115,105,111,110], false, .str),
    (/- SequencerAddress -/ [83,101,113,117,101,110,99,101,114,65,100,100,114,101,115,115], false, .ptr (.felt)),
    (/- TransactionCount -/ [84,114,97,110,115,97,99,116,105,111,110,67,111,117,110,116], false, .uint 64)]

def tTransaction : GoType :=
  .iface [
  (65536, .struct [
    (/- Tip -/ [84,105,112], false, .uint 64),
    (/- Nonce -/ [78,111,110,99,101], false, .ptr (.felt)),
    (/- MaxFee -/ [77,97,120,70,101,101], false, .ptr (.felt)),
    (/- Version -/ [86,101,114,115,105,111,110], false, .ptr (.felt)),
    (/- ClassHash -/ [67,108,97,115,115,72,97,115,104], false, .ptr (.felt)),
    (/- FeeDAMode -/ [70,101,101,68,65,77,111,100,101], false, .uint 32),
    (/- NonceDAMode -/ [78,111,110,99,101,68,65,77,111,100,101], false, .uint 32),
    (/- PaymasterData -/ [80,97,121,109,97,115,116,101,114,68,97,116,97], false, .slice (.felt)),
    (/- SenderAddress -/ [83,101,110,100,101,114,65,100,100,114,101,115,115], false, .ptr (.felt)),
    (/- ResourceBounds -/ [82,101,115,111,117,114,99,101,66,111,117,110,100,115], false, .map (.uint 32) (.struct [
    (/- MaxAmount -/ [77,97,120,65,109,111,117,110,116], false, .uint 64),
    (/- MaxPricePerUnit -/ [77,97,120,80,114,105,99,101,80,101,114,85,110,105,116], false, .ptr (.felt))])),
    (/- TransactionHash -/ [84,114,97,110,115,97,99,116,105,111,110,72,97,115,104], false, .ptr (.felt)),
    (/- CompiledClassHash -/ [67,111,109,112,105,108,101,100,67,108,97,115,115,72,97,115,104], false, .ptr (.felt)),
    (/- TransactionSignature -/ [84,114,97,110,115,97,99,116,105,111,110,83,105,103,110,97,116,117,114,101], false, .slice (.felt)),
    (/- AccountDeploymentData -/ [65,99,99,111,117,110,116,68,101,112,108,111,121,109,101,110,116,68,97,116,97], false, .slice (.felt))]),
  (65537, .struct [
    (/- Version -/ [86,101,114,115,105,111,110], false, .ptr (.felt)),
    (/- ClassHash -/ [67,108,97,115,115,72,97,115,104], false, .ptr (.felt)),
    (/- ContractAddress -/ [67,111,110,116,114,97,99,116,65,100,100,114,101,115,115], false, .ptr (.felt)),
    (/- TransactionHash -/ [84,114,97,110,115,97,99,116,105,111,110,72,97,115,104], false, .ptr (.felt)),
    (/- ConstructorCallData -/ [67,111,110,115,116,114,117,99,116,111,114,67,97,108,108,68,97,116,97], false, .slice (.felt)),
    (/- ContractAddressSalt -/ [67,111,110,116,114,97,99,116,65,100,100,114,101,115,115,83,97,108,116], false, .ptr (.felt))]),
  (65538, .struct [
    (/- Tip -/ [84,105,112], false, .uint 64),
    (/- Nonce -/ [78,111,110,99,101], false, .ptr (.felt)),
    (/- MaxFee -/ [77,97,120,70,101,101], false, .ptr (.felt)),
    (/- Version -/ [86,101,114,115,105,111,110], false, .ptr (.felt)),
    (/- CallData -/ [67,97,108,108,68,97,116,97], false, .slice (.felt)),
    (/- FeeDAMode -/ [70,101,101,68,65,77,111,100,101], false, .uint 32),
    (/- ProofFacts -/ [80,114,111,111,102,70,97,99,116,115], true, .slice (.felt)),
    (/- NonceDAMode -/ [78,111,110,99,101,68,65,77,111,100,101], false, .uint 32),
    (/- PaymasterData -/ [80,97,121,109,97,115,116,101,114,68,97,116,97], false, .slice (.felt)),
    (/- SenderAddress -/ [83,101,110,100,101,114,65,100,100,114,101,115,115], false, .ptr (.felt)),
    (/- ResourceBounds -/ [82,101,115,111,117,114,99,101,66,111,117,110,100,115], false, .map (.uint 32) (.struct [
    (/- MaxAmount -/ [77,97,120,65,109,111,117,110,116], false, .uint 64),
    (/- MaxPricePerUnit -/ [77,97,120,80,114,105,99,101,80,101,114,85,110,105,116], false, .ptr (.felt))])),
    (/- ContractAddress -/ [67,111,110,116,114,97,99,116,65,100,100,114,101,115,115], false, .ptr (.felt)),
    (/- TransactionHash -/ [84,114,97,110,115,97,99,116,105,111,110,72,97,115,104], false, .ptr (.felt)),
    (/- EntryPointSelector -/ [69,110,116,114,121,80,111,105,110,116,83,101,108,101,99,116,111,114], false, .ptr (.felt)),
    (/- TransactionSignature -/ [84,114,97,110,115,97,99,116,105,111,110,83,105,103,110,97,116,117,114,101], false, .slice (.felt)),
    (/- AccountDeploymentData -/ [65,99,99,111,117,110,116,68,101,112,108,111,121,109,101,110,116,68,97,116,97], false, .slice (.felt))]),
  (65539, .struct [
    (/- Nonce -/ [78,111,110,99,101], false, .ptr (.felt)),
    (/- Version -/ [86,101,114,115,105,111,110], false, .ptr (.felt)),
    (/- CallData -/ [67,97,108,108,68,97,116,97], false, .slice (.felt)),
    (/- ContractAddress -/ [67,111,110,116,114,97,99,116,65,100,100,114,101,115,115], false, .ptr (.felt)),
    (/- TransactionHash -/ [84,114,97,110,115,97,99,116,105,111,110,72,97,115,104], false, .ptr (.felt)),
    (/- EntryPointSelector -/ [69,110,116,114,121,80,111,105,110,116,83,101,108,101,99,116,111,114], false, .ptr (.felt))]),
  (65540, .struct [
    (/- Tip -/ [84,105,112], false, .uint 64),
    (/- Nonce -/ [78,111,110,99,101], false, .ptr (.felt)),
    (/- MaxFee -/ [77,97,120,70,101,101], false, .ptr (.felt)),
    (/- Version -/ [86,101,114,115,105,111,110], false, .ptr (.felt)),
    (/- ClassHash -/ [67,108,97,115,115,72,97,115,104], false, .ptr (.felt)),
    (/- FeeDAMode -/ [70,101,101,68,65,77,111,100,101], false, .uint 32),
    (/- NonceDAMode -/ [78,111,110,99,101,68,65,77,111,100,101], false, .uint 32),
    (/- PaymasterData -/ [80,97,121,109,97,115,116,101,114,68,97,116,97], false, .slice (.felt)),
    (/- ResourceBounds -/ [82,101,115,111,117,114,99,101,66,111,117,110,100,115], false, .map (.uint 32) (.struct [
    (/- MaxAmount -/ [77,97,120,65,109,111,117,110,116], false, .uint 64),
    (/- MaxPricePerUnit -/ [77,97,120,80,114,105,99,101,80,101,114,85,110,105,116], false, .ptr (.felt))])),
    (/- ContractAddress -/ [67,111,110,116,114,97,99,116,65,100,100,114,101,115,115], false, .ptr (.felt)),
    (/- TransactionHash -/ [84,114,97,110,115,97,99,116,105,111,110,72,97,115,104], false, .ptr (.felt)),
    (/- ConstructorCallData -/ [67,111,110,115,116,114,117,99,116,111,114,67,97,108,108,68,97,116,97], false, .slice (.felt)),
    (/- ContractAddressSalt -/ [67,111,110,116,114,97,99,116,65,100,100,114,101,115,115,83,97,108,116], false, .ptr (.felt)),
    (/- TransactionSignature -/ [84,114,97,110,115,97,99,116,105,111,110,83,105,103,110,97,116,117,114,101], false, .slice (.felt))])]

def tTransactionReceipt : GoType :=
  .struct [
    (/- Fee -/ [70,101,101], false, .ptr (.felt)),
    (/- Events -/ [69,118,101,110,116,115], false, .slice (.ptr (.struct [
    (/- Data -/ [68,97,116,97], false, .slice (.felt)),
    (/- From -/ [70,114,111,109], false, .ptr (.felt)),
    (/- Keys -/ [75,101,121,115], false, .slice (.felt))]))),
    (/- FeeUnit -/ [70,101,101,85,110,105,116], false, .uint 8),
    (/- Reverted -/ [82,101,118,101,114,116,101,100], false, .bool),
    (/- RevertReason -/ [82,101,118,101,114,116,82,101,97,115,111,110], false, .str),
    (/- L1ToL2Message -/ [76,49,84,111,76,50,77,101,115,115,97,103,101], false, .ptr (.struct [
    (/- To -/ [84,111], false, .ptr (.felt)),
    (/- From -/ [70,114,111,109], false, .bytes),
    (/- Nonce -/ [78,111,110,99,101], false, .ptr (.felt)),
    (/- Payload -/ [80,97,121,108,111,97,100], false, .slice (.felt)),
    (/- Selector -/ [83,101,108,101,99,116,111,114], false, .ptr (.felt))])),
    (/- L2ToL1Message -/ [76,50,84,111,76,49,77,101,115,115,97,103,101], false, .slice (.ptr (.struct [
    (/- To -/ [84,111], false, .bytes),
    (/- From -/ [70,114,111,109], false, .ptr (.felt)),
    (/- Payload -/ [80,97,121,108,111,97,100], false, .slice (.felt))]))),
    (/- TransactionHash -/ [84,114,97,110,115,97,99,116,105,111,110,72,97,115,104], false, .ptr (.felt)),
    (/- ExecutionResources -/ [69,120,101,99,117,116,105,111,110,82,101,115,111,117,114,99,101,115], false, .ptr (.struct [
    (/- Steps -/ [83,116,101,112,115], false, .uint 64),
    (/- MemoryHoles -/ [77,101,109,111,114,121,72,111,108,101,115], false, .uint 64),
    (/- DataAvailability -/ [68,97,116,97,65,118,97,105,108,97,98,105,108,105,116,121], false, .ptr (.struct [
    (/- L1Gas -/ [76,49,71,97,115], false, .uint 64),
    (/- L1DataGas -/ [76,49,68,97,116,97,71,97,115], false, .uint 64)])),
    (/- TotalGasConsumed -/ [84,111,116,97,108,71,97,115,67,111,110,115,117,109,101,100], false, .ptr (.struct [
    (/- L1Gas -/ [76,49,71,97,115], false, .uint 64),
    (/- L2Gas -/ [76,50,71,97,115], false, .uint 64),
    (/- L1DataGas -/ [76,49,68,97,116,97,71,97,115], false, .uint 64)])),
    (/- BuiltinInstanceCounter -/ [66,117,105,108,116,105,110,73,110,115,116,97,110,99,101,67,111,117,110,116,101,114], false, .struct [
    (/- EcOp -/ [69,99,79,112], false, .uint 64),
    (/- Ecsda -/ [69,99,115,100,97], false, .uint 64),
    (/- AddMod -/ [65,100,100,77,111,100], false, .uint 64),
    (/- Keccak -/ [75,101,99,99,97,107], false, .uint 64),
    (/- MulMod -/ [77,117,108,77,111,100], false, .uint 64),
    (/- Output -/ [79,117,116,112,117,116], false, .uint 64),
    (/- Bitwise -/ [66,105,116,119,105,115,101], false, .uint 64),
    (/- Pedersen -/ [80,101,100,101,114,115,101,110], false, .uint 64),
    (/- Poseidon -/ [80,111,115,101,105,100,111,110], false, .uint 64),
    (/- RangeCheck -/ [82,97,110,103,101,67,104,101,99,107], false, .uint 64),
    (/- RangeCheck96 -/ [82,97,110,103,101,67,104,101,99,107,57,54], false, .uint 64),
    (/- SegmentArena -/ [83,101,103,109,101,110,116,65,114,101,110,97], false, .uint 64)])]))]

def tStateUpdate : GoType :=
  .struct [
    (/- NewRoot -/ [78,101,119,82,111,111,116], false, .ptr (.felt)),
    (/- OldRoot -/ [79,108,100,82,111,111,116], false, .ptr (.felt)),
    (/- BlockHash -/ [66,108,111,99,107,72,97,115,104], false, .ptr (.felt)),
    (/- StateDiff -/ [83,116,97,116,101,68,105,102,102], false, .ptr (.struct [
    (/- Nonces -/ [78,111,110,99,101,115], false, .map (.felt) (.ptr (.felt))),
    (/- StorageDiffs -/ [83,116,111,114,97,103,101,68,105,102,102,115], false, .map (.felt) (.map (.felt) (.ptr (.felt)))),
    (/- MigratedClasses -/ [77,105,103,114,97,116,101,100,67,108,97,115,115,101,115], false, .map (.felt) (.felt)),
    (/- ReplacedClasses -/ [82,101,112,108,97,99,101,100,67,108,97,115,115,101,115], false, .map (.felt) (.ptr (.felt))),
    (/- DeclaredV0Classes -/ [68,101,99,108,97,114,101,100,86,48,67,108,97,115,115,101,115], false, .slice (.ptr (.felt))),
    (/- DeclaredV1Classes -/ [68,101,99,108,97,114,101,100,86,49,67,108,97,115,115,101,115], false, .map (.felt) (.ptr (.felt))),
    (/- DeployedContracts -/ [68,101,112,108,111,121,101,100,67,111,110,116,114,97,99,116,115], false, .map (.felt) (.ptr (.felt)))]))]

def tBlockCommitments : GoType :=
  .struct [
    (/- EventCommitment -/ [69,118,101,110,116,67,111,109,109,105,116,109,101,110,116], false, .ptr (.felt)),
    (/- StateDiffLength -/ [83,116,97,116,101,68,105,102,102,76,101,110,103,116,104], false, .uint 64),
    (/- ReceiptCommitment -/ [82,101,99,101,105,112,116,67,111,109,109,105,116,109,101,110,116], false, .ptr (.felt)),
    (/- StateDiffCommitment -/ [83,116,97,116,101,68,105,102,102,67,111,109,109,105,116,109,101,110,116], false, .ptr (.felt)),
    (/- TransactionCommitment -/ [84,114,97,110,115,97,99,116,105,111,110,67,111,109,109,105,116,109,101,110,116], false, .ptr (.felt))]

def tL1Head : GoType :=
  .struct [
    (/- BlockHash -/ [66,108,111,99,107,72,97,115,104], false, .ptr (.felt)),
    (/- StateRoot -/ [83,116,97,116,101,82,111,111,116], false, .ptr (.felt)),
    (/- BlockNumber -/ [66,108,111,99,107,78,117,109,98,101,114], false, .uint 64)]

def tClassDefinition : GoType :=
  .iface [
  (65541, .struct [
    (/- Abi -/ [65,98,105], false, .bytes),
    (/- Program -/ [80,114,111,103,114,97,109], false, .str),
    (/- Externals -/ [69,120,116,101,114,110,97,108,115], false, .slice (.struct [
    (/- Offset -/ [79,102,102,115,101,116], false, .ptr (.felt)),
    (/- Selector -/ [83,101,108,101,99,116,111,114], false, .ptr (.felt))])),
    (/- L1Handlers -/ [76,49,72,97,110,100,108,101,114,115], false, .slice (.struct [
    (/- Offset -/ [79,102,102,115,101,116], false, .ptr (.felt)),
    (/- Selector -/ [83,101,108,101,99,116,111,114], false, .ptr (.felt))])),
    (/- Constructors -/ [67,111,110,115,116,114,117,99,116,111,114,115], false, .slice (.struct [
    (/- Offset -/ [79,102,102,115,101,116], false, .ptr (.felt)),
    (/- Selector -/ [83,101,108,101,99,116,111,114], false, .ptr (.felt))]))]),
  (65542, .struct [
    (/- Abi -/ [65,98,105], false, .str),
    (/- AbiHash -/ [65,98,105,72,97,115,104], false, .ptr (.felt)),
    (/- Program -/ [80,114,111,103,114,97,109], false, .slice (.felt)),
    (/- Compiled -/ [67,111,109,112,105,108,101,100], false, .ptr (.struct [
    (/- Hints -/ [72,105,110,116,115], false, .bytes),
    (/- Prime -/ [80,114,105,109,101], false, .raw),
    (/- Bytecode -/ [66,121,116,101,99,111,100,101], false, .slice (.felt)),
    (/- External -/ [69,120,116,101,114,110,97,108], false, .slice (.struct [
    (/- Offset -/ [79,102,102,115,101,116], false, .uint 64),
    (/- Builtins -/ [66,117,105,108,116,105,110,115], false, .slice (.str)),
    (/- Selector -/ [83,101,108,101,99,116,111,114], false, .ptr (.felt))])),
    (/- L1Handler -/ [76,49,72,97,110,100,108,101,114], false, .slice (.struct [
    (/- Offset -/ [79,102,102,115,101,116], false, .uint 64),
    (/- Builtins -/ [66,117,105,108,116,105,110,115], false, .slice (.str)),
    (/- Selector -/ [83,101,108,101,99,116,111,114], false, .ptr (.felt))])),
    (/- Constructor -/ [67,111,110,115,116,114,117,99,116,111,114], false, .slice (.struct [
    (/- Offset -/ [79,102,102,115,101,116], false, .uint 64),
    (/- Builtins -/ [66,117,105,108,116,105,110,115], false, .slice (.str)),
    (/- Selector -/ [83,101,108,101,99,116,111,114], false, .ptr (.felt))])),
    (/- PythonicHints -/ [80,121,116,104,111,110,105,99,72,105,110,116,115], false, .bytes),
    (/- CompilerVersion -/ [67,111,109,112,105,108,101,114,86,101,114,115,105,111,110], false, .str),
    (/- BytecodeSegmentLengths -/ [66,121,116,101,99,111,100,101,83,101,103,109,101,110,116,76,101,110,103,116,104,115], false, .raw)])),
    (/- EntryPoints -/ [69,110,116,114,121,80,111,105,110,116,115], false, .struct [
    (/- External -/ [69,120,116,101,114,110,97,108], false, .slice (.struct [
    (/- Index -/ [73,110,100,101,120], false, .uint 64),
    (/- Selector -/ [83,101,108,101,99,116,111,114], false, .ptr (.felt))])),
    (/- L1Handler -/ [76,49,72,97,110,100,108,101,114], false, .slice (.struct [
    (/- Index -/ [73,110,100,101,120], false, .uint 64),
    (/- Selector -/ [83,101,108,101,99,116,111,114], false, .ptr (.felt))])),
    (/- Constructor -/ [67,111,110,115,116,114,117,99,116,111,114], false, .slice (.struct [
    (/- Index -/ [73,110,100,101,120], false, .uint 64),
    (/- Selector -/ [83,101,108,101,99,116,111,114], false, .ptr (.felt))]))]),
    (/- ProgramHash -/ [80,114,111,103,114,97,109,72,97,115,104], false, .ptr (.felt)),
    (/- SemanticVersion -/ [83,101,109,97,110,116,105,99,86,101,114,115,105,111,110], false, .str)])]


/-! ### Projections (core/partial_cbor.go) -/

/-- Insert a field into a list sorted canonically (length of the key, then bytewise). -/
def insertField (f : Bytes × Bool × GoType) : List (Bytes × Bool × GoType) → List (Bytes × Bool × GoType)
  | [] => [f]
  | x :: xs => if keyLt f.1 x.1 then f :: x :: xs else x :: insertField f xs

def sortFields : List (Bytes × Bool × GoType) → List (Bytes × Bool × GoType)
  | [] => []
  | f :: fs => insertField f (sortFields fs)

def lookupShadow (key : Bytes) : List (Bytes × GoType) → Option GoType
  | [] => none
  | (k, t) :: rest => if k == key then some t else lookupShadow key rest

/-- Go's field resolution for `struct { skeleton; Wanted T … }`: a shallower field hides an
embedded one with the same key; every other skeleton key stays, typed `discardedCBOR`. A shadow
field whose key is NOT a skeleton key (e.g. a forgotten `cbor:"gasprice"` tag) is simply one more
key — which never occurs in a stored record. -/
def projection (skeleton : List Bytes) (shadow : List (Bytes × GoType)) : GoType :=
  .struct (sortFields (
    (skeleton.filter (fun k => (lookupShadow k shadow).isNone)).map (fun k => (k, false, GoType.discard)) ++
    shadow.map (fun (k, t) => (k, false, t))))

def asciiKey (s : List Char) : Bytes := s.map (fun c => UInt8.ofNat c.toNat)

/-- `discardedHeaderSkeleton`: field names, with the two `cbor:"…"` renames. -/
def headerSkeleton : List Bytes := [
  /- Hash -/ [72,97,115,104], /- ParentHash -/ [80,97,114,101,110,116,72,97,115,104], /- Number -/ [78,117,109,98,101,114],
  /- GlobalStateRoot -/ [71,108,111,98,97,108,83,116,97,116,101,82,111,111,116],
  /- SequencerAddress -/ [83,101,113,117,101,110,99,101,114,65,100,100,114,101,115,115],
  /- TransactionCount -/ [84,114,97,110,115,97,99,116,105,111,110,67,111,117,110,116],
  /- EventCount -/ [69,118,101,110,116,67,111,117,110,116], /- Timestamp -/ [84,105,109,101,115,116,97,109,112],
  /- ProtocolVersion -/ [80,114,111,116,111,99,111,108,86,101,114,115,105,111,110],
  /- EventsBloom -/ [69,118,101,110,116,115,66,108,111,111,109], /- gasprice -/ [103,97,115,112,114,105,99,101],
  /- Signatures -/ [83,105,103,110,97,116,117,114,101,115], /- gaspricestrk -/ [103,97,115,112,114,105,99,101,115,116,114,107],
  /- L1DAMode -/ [76,49,68,65,77,111,100,101], /- L1DataGasPrice -/ [76,49,68,97,116,97,71,97,115,80,114,105,99,101],
  /- L2GasPrice -/ [76,50,71,97,115,80,114,105,99,101]]

def kHash : Bytes := [72,97,115,104]
def kGlobalStateRoot : Bytes := [71,108,111,98,97,108,83,116,97,116,101,82,111,111,116]
def kTransactionCount : Bytes := [84,114,97,110,115,97,99,116,105,111,110,67,111,117,110,116]
def kTimestamp : Bytes := [84,105,109,101,115,116,97,109,112]
def kEventsBloom : Bytes := [69,118,101,110,116,115,66,108,111,111,109]

def pHeaderHash : GoType := projection headerSkeleton [(kHash, .ptr .felt)]
def pHeaderGlobalStateRoot : GoType := projection headerSkeleton [(kGlobalStateRoot, .ptr .felt)]
def pHeaderTransactionCount : GoType := projection headerSkeleton [(kTransactionCount, .uint 64)]
def pHeaderTimestamp : GoType := projection headerSkeleton [(kTimestamp, .ptr (.uint 64))]
def pHeaderEventsBloom : GoType := projection headerSkeleton [(kEventsBloom, .raw)]
def pHeaderHashAndStateRoot : GoType :=
  projection headerSkeleton [(kHash, .ptr .felt), (kGlobalStateRoot, .ptr .felt)]

/-- `discardedReceiptSkeleton`. -/
def receiptSkeleton : List Bytes := [
  /- Fee -/ [70,101,101], /- FeeUnit -/ [70,101,101,85,110,105,116], /- Events -/ [69,118,101,110,116,115],
  /- ExecutionResources -/ [69,120,101,99,117,116,105,111,110,82,101,115,111,117,114,99,101,115],
  /- L1ToL2Message -/ [76,49,84,111,76,50,77,101,115,115,97,103,101], /- L2ToL1Message -/ [76,50,84,111,76,49,77,101,115,115,97,103,101],
  /- TransactionHash -/ [84,114,97,110,115,97,99,116,105,111,110,72,97,115,104],
  /- Reverted -/ [82,101,118,101,114,116,101,100], /- RevertReason -/ [82,101,118,101,114,116,82,101,97,115,111,110]]

def kReverted : Bytes := [82,101,118,101,114,116,101,100]
def kRevertReason : Bytes := [82,101,118,101,114,116,82,101,97,115,111,110]
def kEvents : Bytes := [69,118,101,110,116,115]
def kTransactionHash : Bytes := [84,114,97,110,115,97,99,116,105,111,110,72,97,115,104]

def tEvent : GoType :=
  .ptr (.struct [
    (/- Data -/ [68,97,116,97], false, .slice (.felt)),
    (/- From -/ [70,114,111,109], false, .ptr (.felt)),
    (/- Keys -/ [75,101,121,115], false, .slice (.felt))])

def pReceiptExecutionStatus : GoType := projection receiptSkeleton [(kReverted, .bool), (kRevertReason, .str)]
def pReceiptEvents : GoType := projection receiptSkeleton [(kEvents, .slice tEvent), (kTransactionHash, .ptr .felt)]

/-- `transactionHashProjection`: the union of the keys of all five transaction types, everything
but `TransactionHash` discarded; `TransactionHash` is a `felt.Felt` VALUE here (a pointer in the
transaction structs). The decoder ignores the tag because the projection type is not registered. -/
def txUnionKeys : List Bytes := [
  /- ContractAddressSalt -/ [67,111,110,116,114,97,99,116,65,100,100,114,101,115,115,83,97,108,116],
  /- ContractAddress -/ [67,111,110,116,114,97,99,116,65,100,100,114,101,115,115],
  /- ClassHash -/ [67,108,97,115,115,72,97,115,104],
  /- ConstructorCallData -/ [67,111,110,115,116,114,117,99,116,111,114,67,97,108,108,68,97,116,97],
  /- Version -/ [86,101,114,115,105,111,110], /- MaxFee -/ [77,97,120,70,101,101],
  /- TransactionSignature -/ [84,114,97,110,115,97,99,116,105,111,110,83,105,103,110,97,116,117,114,101],
  /- Nonce -/ [78,111,110,99,101], /- ResourceBounds -/ [82,101,115,111,117,114,99,101,66,111,117,110,100,115],
  /- Tip -/ [84,105,112], /- PaymasterData -/ [80,97,121,109,97,115,116,101,114,68,97,116,97],
  /- NonceDAMode -/ [78,111,110,99,101,68,65,77,111,100,101], /- FeeDAMode -/ [70,101,101,68,65,77,111,100,101],
  /- CallData -/ [67,97,108,108,68,97,116,97],
  /- EntryPointSelector -/ [69,110,116,114,121,80,111,105,110,116,83,101,108,101,99,116,111,114],
  /- SenderAddress -/ [83,101,110,100,101,114,65,100,100,114,101,115,115],
  /- AccountDeploymentData -/ [65,99,99,111,117,110,116,68,101,112,108,111,121,109,101,110,116,68,97,116,97],
  /- ProofFacts -/ [80,114,111,111,102,70,97,99,116,115],
  /- CompiledClassHash -/ [67,111,109,112,105,108,101,100,67,108,97,115,115,72,97,115,104]]

def pTransactionHash : GoType := projection txUnionKeys [(kTransactionHash, .felt)]

/-! ### Descriptions (compared with reflection on the real Go types) -/

def keyString (k : Bytes) : String := String.ofList (k.map (fun b => Char.ofNat b.toNat))

mutual
def descType : GoType → String
  | .uint bits => "u" ++ toString bits
  | .bool => "bool"
  | .str => "str"
  | .bytes => "bytes"
  | .felt => "felt"
  | .raw => "raw"
  | .ptr t => "ptr(" ++ descType t ++ ")"
  | .slice t => "slice(" ++ descType t ++ ")"
  | .map k v => "map(" ++ descType k ++ "," ++ descType v ++ ")"
  | .struct fs => "struct{" ++ descFields fs ++ "}"
  | .iface alts => "iface{" ++ descAlts alts ++ "}"
  | .discard => "disc"
def descFields : List (Bytes × Bool × GoType) → String
  | [] => ""
  | [(k, om, t)] => keyString k ++ ":" ++ (if om then "1" else "0") ++ ":" ++ descType t
  | (k, om, t) :: f :: fs => keyString k ++ ":" ++ (if om then "1" else "0") ++ ":" ++ descType t ++ ";" ++ descFields (f :: fs)
def descAlts : List (Nat × GoType) → String
  | [] => ""
  | [(tag, t)] => toString tag ++ ":" ++ descType t
  | (tag, t) :: a :: alts => toString tag ++ ":" ++ descType t ++ ";" ++ descAlts (a :: alts)
end

/-- Tables by name (driver requests). -/
def tableByName : String → Option GoType
  | "Header" => some tHeader
  | "Transaction" => some tTransaction
  | "TransactionReceipt" => some tTransactionReceipt
  | "StateUpdate" => some tStateUpdate
  | "BlockCommitments" => some tBlockCommitments
  | "L1Head" => some tL1Head
  | "ClassDefinition" => some tClassDefinition
  | "headerHashProjection" => some pHeaderHash
  | "headerGlobalStateRootProjection" => some pHeaderGlobalStateRoot
  | "headerTransactionCountProjection" => some pHeaderTransactionCount
  | "headerTimestampProjection" => some pHeaderTimestamp
  | "headerEventsBloomProjection" => some pHeaderEventsBloom
  | "headerHashAndStateRootProjection" => some pHeaderHashAndStateRoot
  | "receiptExecutionStatusProjection" => some pReceiptExecutionStatus
  | "receiptEventsProjection" => some pReceiptEvents
  | "transactionHashProjection" => some pTransactionHash
  | _ => none

end Juno.C07
