import JunoModel.C07.Proofs
import JunoModel.C07.ProofsBlob
import JunoModel.C07.ProofsVal
import JunoModel.C07.ProofsBin
/-!
C07 — property theorems (statements only; helper lemmas are in `Proofs*.lean`).
Every theorem in this module is an obligation listed in evidence/C07.json with its axioms.
-/
namespace Juno.C07.Props
open Juno.C07

/-! ## 1. Bytes ↔ CBOR data model -/

/-- Decoding the canonical encoding of any data item gives the item back, whatever follows it
(`UnmarshalFirst`); by induction on the item, no bound on size or nesting. -/
theorem cbor_roundtrip (v : Cbor) (rest : Bytes) (hwf : v.wf = true) :
    decodeFirst (v.encode ++ rest) = some (v, rest) :=
  decodeFirst_encode v rest hwf

/-- `Unmarshal (Marshal v) = v`. -/
theorem cbor_roundtrip_exact (v : Cbor) (hwf : v.wf = true) : decodeAll v.encode = some v :=
  decodeAll_encode v hwf

/-- Two different data items never share an encoding. -/
theorem encode_injective (a b : Cbor) (ha : a.wf = true) (hb : b.wf = true) (h : a.encode = b.encode) : a = b :=
  encode_inj a b ha hb h


/-! ### Decoder limits (finding: values above a limit are written and can never be read)

`cbor_roundtrip` is about the decoder without resource limits. The real one refuses items with more
than `maxArray` elements, `maxMap` pairs or `maxNest` nested arrays/maps/tags, while the encoder
writes anything: the round trip holds exactly for the values within the limits. -/

/-- Within the limits the limited decoder is the identity on encoded values … -/
theorem limited_roundtrip (l : DecLimits) (v : Cbor) (hwf : v.wf = true) (h : v.within l l.maxNest = true) :
    decodeAllLimited l v.encode = some v := by
  simp [decodeAllLimited, decodeAll_encode v hwf, h]

/-- … and above any of them it rejects what the encoder wrote (full statement `∀ v, decodeAllLimited l
v.encode = some v` is false: `limits_witness`). -/
theorem limited_rejects (l : DecLimits) (v : Cbor) (hwf : v.wf = true) (h : v.within l l.maxNest = false) :
    decodeAllLimited l v.encode = none := by
  simp [decodeAllLimited, decodeAll_encode v hwf, h]

/-- Any map with more pairs than `maxMap`, any array with more elements than `maxArray`. -/
theorem limited_rejects_big (l : DecLimits) :
    (∀ kvs : List (Cbor × Cbor), (Cbor.map kvs).wf = true → l.maxMap < kvs.length →
      decodeAllLimited l (Cbor.map kvs).encode = none) ∧
    (∀ xs : List Cbor, (Cbor.array xs).wf = true → l.maxArray < xs.length →
      decodeAllLimited l (Cbor.array xs).encode = none) := by
  constructor
  · intro kvs hwf h
    apply limited_rejects l _ hwf
    simp [Cbor.within]
    intro _ h2; omega
  · intro xs hwf h
    apply limited_rejects l _ hwf
    simp [Cbor.within]
    intro _ h2; omega

/-- Concrete witness with the library defaults juno runs with for maps and nesting: three nested
arrays under a limit of two levels (the 33-level item the harness replays is the same shape). -/
theorem limits_witness :
    (Cbor.array [.array [.array [.uint 1]]]).wf = true ∧
    (decodeAll (Cbor.array [.array [.array [.uint 1]]]).encode).isSome = true ∧
    (decodeAllLimited ⟨10485760, 131072, 3⟩ (Cbor.array [.array [.array [.uint 1]]]).encode).isSome = true ∧
    (decodeAllLimited ⟨10485760, 131072, 2⟩ (Cbor.array [.array [.array [.uint 1]]]).encode).isNone = true := by
  decide

/-! ## 2. The per-block blob of transactions and receipts

`encT/decT`, `encR/decR` are the item codecs; the only thing assumed of them is that decoding
the exact bytes of an encoded item gives the item back (instantiated with the CBOR codec above in
section 3). No relation between the number of transactions and receipts is needed. -/

section Blob
variable {α β : Type} (encT : α → Bytes) (encR : β → Bytes) (decT : Bytes → Option α) (decR : Bytes → Option β)

/-- What is written for a block can be read back as a blob (header + data), for every block
including the empty one. -/
theorem blob_unmarshal_marshal (txs : List α) (rcs : List β)
    (h1 : txs.length < 18446744073709551616) (h2 : rcs.length < 18446744073709551616)
    (h3 : (concatEnc encT txs ++ concatEnc encR rcs).length < 18446744073709551616) :
    Blob.unmarshal (Blob.build encT encR txs rcs).marshal = some (Blob.build encT encR txs rcs) :=
  unmarshal_marshal _ (build_wf encT encR txs rcs h1 h2 h3)

/-- Transaction by (block, index): index `i` of the stored bytes is `txs[i]` — first, last, any. -/
theorem blob_get_tx (txs : List α) (rcs : List β) (hT : ∀ a ∈ txs, decT (encT a) = some a)
    (h1 : txs.length < 18446744073709551616) (h2 : rcs.length < 18446744073709551616)
    (h3 : (concatEnc encT txs ++ concatEnc encR rcs).length < 18446744073709551616)
    (i : Nat) (h : i < txs.length) :
    readBlob (Blob.build encT encR txs rcs).marshal (fun b => b.getTx decT i) = .ok txs[i] := by
  simp only [readBlob, blob_unmarshal_marshal encT encR txs rcs h1 h2 h3]
  exact getTx_build encT encR decT txs rcs hT i h

/-- Receipt by (block, index). -/
theorem blob_get_rc (txs : List α) (rcs : List β) (hR : ∀ a ∈ rcs, decR (encR a) = some a)
    (h1 : txs.length < 18446744073709551616) (h2 : rcs.length < 18446744073709551616)
    (h3 : (concatEnc encT txs ++ concatEnc encR rcs).length < 18446744073709551616)
    (i : Nat) (h : i < rcs.length) :
    readBlob (Blob.build encT encR txs rcs).marshal (fun b => b.getRc decR i) = .ok rcs[i] := by
  simp only [readBlob, blob_unmarshal_marshal encT encR txs rcs h1 h2 h3]
  exact getRc_build encT encR decR txs rcs hR i h

/-- An index past the end is `ErrKeyNotFound` (never a neighbour's bytes, never a panic). -/
theorem blob_get_out_of_range (txs : List α) (rcs : List β)
    (h1 : txs.length < 18446744073709551616) (h2 : rcs.length < 18446744073709551616)
    (h3 : (concatEnc encT txs ++ concatEnc encR rcs).length < 18446744073709551616) (i : Nat) :
    (txs.length ≤ i → readBlob (Blob.build encT encR txs rcs).marshal (fun b => b.getTx decT i) = .notFound) ∧
    (rcs.length ≤ i → readBlob (Blob.build encT encR txs rcs).marshal (fun b => b.getRc decR i) = .notFound) := by
  simp only [readBlob, blob_unmarshal_marshal encT encR txs rcs h1 h2 h3]
  exact ⟨getTx_build_notFound encT encR decT txs rcs i, getRc_build_notFound encT encR decR txs rcs i⟩

/-- All transactions / all receipts of a block, in order (hence also the counts). -/
theorem blob_all (txs : List α) (rcs : List β)
    (hT : ∀ a ∈ txs, decT (encT a) = some a) (hR : ∀ a ∈ rcs, decR (encR a) = some a)
    (h1 : txs.length < 18446744073709551616) (h2 : rcs.length < 18446744073709551616)
    (h3 : (concatEnc encT txs ++ concatEnc encR rcs).length < 18446744073709551616) :
    readBlob (Blob.build encT encR txs rcs).marshal (fun b => b.allTx decT) = .ok txs ∧
    readBlob (Blob.build encT encR txs rcs).marshal (fun b => b.allRc decR) = .ok rcs := by
  simp only [readBlob, blob_unmarshal_marshal encT encR txs rcs h1 h2 h3]
  exact ⟨allTx_build encT encR decT txs rcs hT, allRc_build encT encR decR txs rcs hR⟩


/-- For ANY item decoder — the full one or a projection — the bytes it is handed for index `i` are
exactly the encoding of item `i` (so every per-record statement of sections 3 and 4 lifts to the
stored block). -/
theorem blob_item_slice {γ : Type} (dec : Bytes → Option γ) (txs : List α) (rcs : List β)
    (h1 : txs.length < 18446744073709551616) (h2 : rcs.length < 18446744073709551616)
    (h3 : (concatEnc encT txs ++ concatEnc encR rcs).length < 18446744073709551616) (i : Nat) :
    (∀ h : i < txs.length, readBlob (Blob.build encT encR txs rcs).marshal (fun b => b.getTx dec i) =
        Res.ofOption (dec (encT txs[i]))) ∧
    (∀ h : i < rcs.length, readBlob (Blob.build encT encR txs rcs).marshal (fun b => b.getRc dec i) =
        Res.ofOption (dec (encR rcs[i]))) := by
  simp only [readBlob, blob_unmarshal_marshal encT encR txs rcs h1 h2 h3]
  exact ⟨fun h => getTx_build_raw encT encR dec txs rcs i h, fun h => getRc_build_raw encT encR dec txs rcs i h⟩

/-- Offsets: `indexed.Write` records for item `i` the base plus the length of everything before
it; offsets never decrease, consecutive offsets are one item apart, every item lies inside the data. -/
theorem offsets_spec (enc : α → Bytes) (items : List α) (base : Nat) :
    (∀ i, i < items.length →
      (offsets enc base items).getD i 0 = base + (concatEnc enc (items.take i)).length) ∧
    (∀ i j, i ≤ j → j < items.length → (offsets enc base items).getD i 0 ≤ (offsets enc base items).getD j 0) ∧
    (∀ i (h : i < items.length),
      (offsets enc base items).getD i 0 + (enc items[i]).length ≤ base + (concatEnc enc items).length) :=
  ⟨fun i h => offsets_getD enc items base i h, fun i j hij hj => offsets_mono enc items base i j hij hj,
   fun i h => offsets_inbounds enc items base i h⟩

/-- The blob that `NewBlockTransactions` builds is exactly: transaction offsets from 0, receipt
offsets from the end of the transactions, data = all transactions then all receipts. -/
theorem blob_layout (txs : List α) (rcs : List β) :
    Blob.build encT encR txs rcs =
      { txIdx := offsets encT 0 txs,
        rcIdx := offsets encR (concatEnc encT txs).length rcs,
        data := concatEnc encT txs ++ concatEnc encR rcs } :=
  build_eq encT encR txs rcs

end Blob


/-! ## 3. Go values ↔ CBOR by type tables (struct field tables, tags, maps, nil vs empty)

`okType t`: a well-formed record type (all of juno's tables are, by `decide` below).
`wt cfg t v`: `v` is a value of type `t` in the canonical representation (see SpecVal.lean).
`cfg.rejectInvalidUTF8` is the decoder option `DecOptions.UTF8` in effect. -/

/-- **Encoding then decoding any storable value is the identity** — nil and empty slices / maps /
byte strings kept apart, every struct field back in its place, interface values back under the
same concrete type — for every table and every value, by induction on the type. -/
theorem value_roundtrip (cfg : DecCfg) (t : GoType) (v : GoVal) (hok : okType t = true) (hw : wt cfg t v = true) :
    ∃ c, encodeVal t v = some c ∧ decodeVal cfg t c = some v :=
  rt_val cfg t v hok hw

/-- The same down to the stored bytes: `Unmarshal (Marshal v) = v`. `fitsVal v`: every length and
integer in `v` is below 2^64 (what CBOR can express; true of any value in memory). -/
theorem value_roundtrip_bytes (cfg : DecCfg) (t : GoType) (v : GoVal) (hok : okType t = true)
    (hw : wt cfg t v = true) (hf : fitsVal v = true) :
    ∃ bs, marshalVal t v = some bs ∧ unmarshalVal cfg t bs = some v :=
  rt_bytes_fits cfg t v hok hw hf

/-- The encoder only emits well-formed canonical items (so `cbor_roundtrip` applies to them). -/
theorem encoded_values_well_formed (t : GoType) (v : GoVal) (c : Cbor) (hok : okType t = true)
    (hf : fitsVal v = true) (h : encodeVal t v = some c) : c.wf = true :=
  enc_wf t v c hok hf h

/-- Struct level: the encoded entries of a struct, preceded by any entries with other keys, decode
back to the same field values; fields dropped by `omitempty` come back as their (nil) zero value. -/
theorem struct_roundtrip (cfg : DecCfg) (fs : List (Bytes × Bool × GoType)) (vs : List GoVal)
    (hok : okFields fs = true) (hd : keysDistinct fs = true) (hw : wtFields cfg fs vs = true) :
    ∃ es, encodeFields fs vs = some es ∧
      ∀ pre, (∀ k, keyAbsent k fs = false → mapLookup (.text k) pre = none) →
        decodeFields cfg fs (pre ++ es) = some vs := by
  obtain ⟨es, h1, _, h3⟩ := rt_fields cfg fs vs hok hd hw
  exact ⟨es, h1, h3⟩

/-- Every table of the model is a well-formed record type (so the theorems above apply to headers,
all five transaction kinds, receipts, state updates, commitments, L1 head, both class kinds). -/
theorem tables_ok :
    okType tHeader = true ∧ okType tTransaction = true ∧ okType tTransactionReceipt = true ∧
    okType tStateUpdate = true ∧ okType tBlockCommitments = true ∧ okType tL1Head = true ∧
    okType tClassDefinition = true := by
  decide

/-! ### Strings that are not valid UTF-8 (defect found in round 1, fixed in /repo by c6c3e35)

Go strings are arbitrary bytes and the encoder writes them as they are. The decoder option
`DecOptions.UTF8` decides whether such a text string decodes. encoder/encoder.go now sets
`UTF8DecodeInvalid` (`cfg = ⟨false⟩`): the round trip holds for EVERY value the write path accepts
(`value_roundtrip_all_strings`, full strength). Under the library default (`cfg = ⟨true⟩`, the
code before the fix) it holds only for valid UTF-8 (`value_roundtrip_strict_utf8`) and
`invalid_utf8_stored_but_unreadable` is the proved counterexample; the harness replays the same
receipt on the real code and reports the violation again should the option be lost. -/

/-- The configured decoder (lenient): round trip for every value, no condition on strings. -/
theorem value_roundtrip_all_strings (t : GoType) (v : GoVal) (hok : okType t = true) (hw : wt ⟨false⟩ t v = true) :
    ∃ c, encodeVal t v = some c ∧ decodeVal ⟨false⟩ t c = some v :=
  rt_val ⟨false⟩ t v hok hw

/-- A strict decoder round-trips exactly the values whose strings are valid UTF-8 (`wt ⟨true⟩`). -/
theorem value_roundtrip_strict_utf8 (t : GoType) (v : GoVal) (hok : okType t = true) (hw : wt ⟨true⟩ t v = true) :
    ∃ c, encodeVal t v = some c ∧ decodeVal ⟨true⟩ t c = some v :=
  rt_val ⟨true⟩ t v hok hw

/-- The receipt `{Reverted: true, RevertReason: "\xff"}` (all else nil/zero). -/
def badReceipt : GoVal :=
  .struct [.nil, .nil, .uint 0, .bool true, .str [0xff], .nil, .nil, .nil, .nil]

/-- Witness: the encoder accepts the receipt, the strict decoder rejects its own output, the
lenient decoder does not. The same receipt is replayed on the real code by the harness
(`string-with-invalid-utf8-stored-but-unreadable`). -/
theorem invalid_utf8_stored_but_unreadable :
    wt ⟨false⟩ tTransactionReceipt badReceipt = true ∧
    (marshalVal tTransactionReceipt badReceipt).isSome = true ∧
    ((marshalVal tTransactionReceipt badReceipt).bind (unmarshalVal ⟨true⟩ tTransactionReceipt)).isNone = true ∧
    ((marshalVal tTransactionReceipt badReceipt).bind (unmarshalVal ⟨false⟩ tTransactionReceipt)).isSome = true := by
  decide

/-! ## 4. The partial decoders agree with the full decoder

On EVERY record the full decoder accepts — whatever its keys, their order, duplicates, nulls —
not only on records the current encoder writes. -/

/-- General form: a struct type `ps` whose fields are discards or fields of `ts` (same key, same
type) reads, for each such key, exactly what the full type `ts` reads. -/
theorem projection_agrees (cfg : DecCfg) (ts ps : List (Bytes × Bool × GoType)) (hok : projOK ts ps = true)
    (key : Bytes) (ty : GoType) (h1 : fieldType key ts = some ty) (h2 : fieldType key ps = some ty)
    (bs : Bytes) (hv : GoVal) (h : unmarshalVal cfg (.struct ts) bs = some hv) :
    projField cfg (.struct ps) key bs = getField (.struct ts) key hv :=
  projField_agrees cfg ts ps hok key ty h1 h2 bs hv h

/-- And it never fails where the full decoder succeeds. -/
theorem projection_succeeds (cfg : DecCfg) (kvs : List (Cbor × Cbor)) (ts ps : List (Bytes × Bool × GoType))
    (vs : List GoVal) (hT : decodeFields cfg ts kvs = some vs) (hok : projOK ts ps = true) :
    ∃ ws, decodeFields cfg ps kvs = some ws :=
  decodeFields_proj_succeeds cfg kvs ts vs hT ps hok

/-- The header projections of core/partial_cbor.go (hash, state root, transaction count, events
bloom, hash + state root): each returns the field of the fully decoded header. The skeleton's
`cbor:"gasprice"` / `cbor:"gaspricestrk"` renames are part of `projOK … = true`. -/
theorem header_projections_agree (cfg : DecCfg) (bs : Bytes) (hv : GoVal)
    (h : unmarshalVal cfg tHeader bs = some hv) :
    projField cfg pHeaderHash kHash bs = getField tHeader kHash hv ∧
    projField cfg pHeaderGlobalStateRoot kGlobalStateRoot bs = getField tHeader kGlobalStateRoot hv ∧
    projField cfg pHeaderTransactionCount kTransactionCount bs = getField tHeader kTransactionCount hv ∧
    projField cfg pHeaderEventsBloom kEventsBloom bs = getField tHeader kEventsBloom hv ∧
    projField cfg pHeaderHashAndStateRoot kHash bs = getField tHeader kHash hv ∧
    projField cfg pHeaderHashAndStateRoot kGlobalStateRoot bs = getField tHeader kGlobalStateRoot hv :=
  ⟨projField_agrees cfg (fieldsOf tHeader) (fieldsOf pHeaderHash) (by decide) kHash (.ptr .felt) rfl rfl bs hv h,
   projField_agrees cfg (fieldsOf tHeader) (fieldsOf pHeaderGlobalStateRoot) (by decide) kGlobalStateRoot (.ptr .felt) rfl rfl bs hv h,
   projField_agrees cfg (fieldsOf tHeader) (fieldsOf pHeaderTransactionCount) (by decide) kTransactionCount (.uint 64) rfl rfl bs hv h,
   projField_agrees cfg (fieldsOf tHeader) (fieldsOf pHeaderEventsBloom) (by decide) kEventsBloom .raw rfl rfl bs hv h,
   projField_agrees cfg (fieldsOf tHeader) (fieldsOf pHeaderHashAndStateRoot) (by decide) kHash (.ptr .felt) rfl rfl bs hv h,
   projField_agrees cfg (fieldsOf tHeader) (fieldsOf pHeaderHashAndStateRoot) (by decide) kGlobalStateRoot (.ptr .felt) rfl rfl bs hv h⟩

/-- The receipt projections: execution status (Reverted, RevertReason) and events (Events,
TransactionHash) are the fields of the fully decoded receipt. -/
theorem receipt_projections_agree (cfg : DecCfg) (bs : Bytes) (hv : GoVal)
    (h : unmarshalVal cfg tTransactionReceipt bs = some hv) :
    projField cfg pReceiptExecutionStatus kReverted bs = getField tTransactionReceipt kReverted hv ∧
    projField cfg pReceiptExecutionStatus kRevertReason bs = getField tTransactionReceipt kRevertReason hv ∧
    projField cfg pReceiptEvents kEvents bs = getField tTransactionReceipt kEvents hv ∧
    projField cfg pReceiptEvents kTransactionHash bs = getField tTransactionReceipt kTransactionHash hv :=
  ⟨projField_agrees cfg (fieldsOf tTransactionReceipt) (fieldsOf pReceiptExecutionStatus) (by decide) kReverted .bool rfl rfl bs hv h,
   projField_agrees cfg (fieldsOf tTransactionReceipt) (fieldsOf pReceiptExecutionStatus) (by decide) kRevertReason .str rfl rfl bs hv h,
   projField_agrees cfg (fieldsOf tTransactionReceipt) (fieldsOf pReceiptEvents) (by decide) kEvents (.slice tEvent) rfl rfl bs hv h,
   projField_agrees cfg (fieldsOf tTransactionReceipt) (fieldsOf pReceiptEvents) (by decide) kTransactionHash (.ptr .felt) rfl rfl bs hv h⟩


/-- Projection tables up to pointer-ness (`projOKc`): the two projections whose wanted field is the
pointer / pointee version of the record's field are covered too. -/
theorem all_projections_well_formed :
    projOKc (fieldsOf tHeader) (fieldsOf pHeaderTimestamp) = true ∧
    projOK (fieldsOf tHeader) (fieldsOf pHeaderHash) = true ∧
    projOK (fieldsOf tHeader) (fieldsOf pHeaderGlobalStateRoot) = true ∧
    projOK (fieldsOf tHeader) (fieldsOf pHeaderTransactionCount) = true ∧
    projOK (fieldsOf tHeader) (fieldsOf pHeaderEventsBloom) = true ∧
    projOK (fieldsOf tHeader) (fieldsOf pHeaderHashAndStateRoot) = true ∧
    projOK (fieldsOf tTransactionReceipt) (fieldsOf pReceiptExecutionStatus) = true ∧
    projOK (fieldsOf tTransactionReceipt) (fieldsOf pReceiptEvents) = true := by
  decide

/-- `GetBlockHeaderTimestampByNumber`: the projection holds `*uint64` where the header holds
`uint64`, so it can tell "absent / null" (reported as an error) from 0; when it returns a value it
is the timestamp of the fully decoded header — on every record the full decoder accepts. -/
theorem timestamp_projection_agrees (cfg : DecCfg) (bs : Bytes) (hv : GoVal)
    (h : unmarshalVal cfg tHeader bs = some hv) :
    getBlockHeaderTimestamp cfg bs = none ∨ getBlockHeaderTimestamp cfg bs = getField tHeader kTimestamp hv :=
  timestamp_agrees cfg bs hv h


/-- … and on every header the node itself wrote it is never the error: the accessor returns the
stored timestamp (the key is always present — `Timestamp` is not `omitempty` — and never null). -/
theorem timestamp_projection_on_stored (cfg : DecCfg) (vs : List GoVal) (hw : wt cfg tHeader (.struct vs) = true)
    (hf : fitsVal (.struct vs) = true) :
    ∃ bs v, marshalVal tHeader (.struct vs) = some bs ∧ getField tHeader kTimestamp (.struct vs) = some v ∧
      v ≠ .nil ∧ getBlockHeaderTimestamp cfg bs = some v :=
  timestamp_on_stored cfg vs hw hf

/-- General form of the above: a pointer-typed projection of a non-`omitempty`, non-nullable field
always finds the stored field on encoder-written records. -/
theorem pointer_projection_on_stored (cfg : DecCfg) (ts ps : List (Bytes × Bool × GoType)) (key : Bytes) (t : GoType)
    (hok : okType (.struct ts) = true) (h1 : fieldType key ts = some t) (ho : fieldOm key ts = false)
    (h2 : fieldType key ps = some (.ptr t)) (hnn : nonNull t = true) (hpc : projOKc ts ps = true)
    (vs : List GoVal) (hw : wt cfg (.struct ts) (.struct vs) = true) :
    ∃ es v, encodeVal (.struct ts) (.struct vs) = some (.map es) ∧
      getField (.struct ts) key (.struct vs) = some v ∧ fieldOfItem cfg ps key (.map es) = some v ∧
      (encodeVal t v).isSome = true :=
  ptr_projection_on_stored cfg ts ps key t hok h1 ho h2 hnn hpc vs hw

/-- `GetTransactionHashesByBlockNumber`, per record: the projection names the union of the fields
of all five transaction types and holds `TransactionHash` by value; the record is tag-wrapped.
Whichever transaction type the full decoder finds under the tag, the projection reads that
transaction's `TransactionHash` (a nil hash reads as zero, which the accessor reports as missing). -/
theorem txhash_projection_agrees (cfg : DecCfg) (bs : Bytes) (i : Nat) (tv : GoVal)
    (h : unmarshalVal cfg tTransaction bs = some (.iface i tv)) :
    ∃ tg fs, txAlts[i]? = some (tg, .struct fs) ∧
      projField cfg pTransactionHash kTransactionHash bs =
        (getField (.struct fs) kTransactionHash tv).map feltOrZero :=
  txhash_agrees cfg bs i tv h


/-! ## 5. Composition: a stored block, read back typed -/

/-- Encoding of an item of type `t` as the blob writer sees it. -/
def encItem (t : GoType) (v : GoVal) : Bytes := (marshalVal t v).getD []

/-- Transactions and receipts as typed values, written as a block, read back by (block, index)
with the full decoders: what was stored — for every block size, every index, all five
transaction kinds. -/
theorem stored_block_readback (cfg : DecCfg) (txs rcs : List GoVal)
    (hT : ∀ a ∈ txs, wt cfg tTransaction a = true ∧ fitsVal a = true)
    (hR : ∀ a ∈ rcs, wt cfg tTransactionReceipt a = true ∧ fitsVal a = true)
    (h1 : txs.length < 18446744073709551616) (h2 : rcs.length < 18446744073709551616)
    (h3 : (concatEnc (encItem tTransaction) txs ++ concatEnc (encItem tTransactionReceipt) rcs).length < 18446744073709551616)
    (i : Nat) :
    (∀ h : i < txs.length,
      readBlob (Blob.build (encItem tTransaction) (encItem tTransactionReceipt) txs rcs).marshal
        (fun b => b.getTx (unmarshalVal cfg tTransaction) i) = .ok txs[i]) ∧
    (∀ h : i < rcs.length,
      readBlob (Blob.build (encItem tTransaction) (encItem tTransactionReceipt) txs rcs).marshal
        (fun b => b.getRc (unmarshalVal cfg tTransactionReceipt) i) = .ok rcs[i]) := by
  have key : ∀ (t : GoType) (a : GoVal), okType t = true → wt cfg t a = true →
      fitsVal a = true → unmarshalVal cfg t (encItem t a) = some a := by
    intro t a hok hw hf
    obtain ⟨bs, e1, e2⟩ := rt_bytes_fits cfg t a hok hw hf
    simp only [encItem, e1, Option.getD_some]
    exact e2
  constructor
  · intro h
    exact blob_get_tx (encItem tTransaction) (encItem tTransactionReceipt) (unmarshalVal cfg tTransaction) txs rcs
      (fun a ha => key tTransaction a tables_ok.2.1 (hT a ha).1 (hT a ha).2) h1 h2 h3 i h
  · intro h
    exact blob_get_rc (encItem tTransaction) (encItem tTransactionReceipt) (unmarshalVal cfg tTransactionReceipt) txs rcs
      (fun a ha => key tTransactionReceipt a tables_ok.2.2.1 (hR a ha).1 (hR a ha).2) h1 h2 h3 i h


/-! ## 6. Binary codecs and database keys (db/schema.go, core/class.go, core/accessors.go) -/

/-- Block numbers, (number, index) pairs and the declared-class wrapper decode to what was encoded. -/
theorem binary_roundtrips (n i : Nat) (cls : Bytes) (hn : n < 18446744073709551616) (hi : i < 18446744073709551616) :
    decNumber (encNumber n) = some n ∧ decNumIndex (encNumIndex n i) = some (n, i) ∧
    decDeclared (encDeclared n cls) = some (n, cls) :=
  ⟨decNumber_enc n hn, decNumIndex_enc n i hn hi, decDeclared_enc n cls hn⟩

/-- `ClassCasmHashMetadata`: `UnmarshalBinary (MarshalBinary m) = m` for all four shapes (declared
with V2 / with V1, migrated or not). -/
theorem casm_metadata_roundtrip (m : CasmMeta) (hd : m.declaredAt < 18446744073709551616)
    (hm : m.migratedAt < 18446744073709551616) (h2 : m.v2.length = 32)
    (h1 : ∀ h, m.v1 = some h → h.length = 32) : CasmMeta.unmarshal m.marshal = some m :=
  casmMeta_roundtrip m hd hm h2 h1

/-- Keys: within a bucket two block numbers never share a key — neither with the 8-byte big-endian
keys (headers, state updates, commitments) nor with the variable-length CBOR keys of the
block-transactions bucket —, hash-keyed entries differ when the hashes differ, and keys of
different buckets differ. So a read of record X can only return what was written for X. -/
theorem keys_injective (b b' n m : Nat) (s s' : Bytes) (hn : n < 18446744073709551616) (hm : m < 18446744073709551616) :
    (keyByNumber b n = keyByNumber b m → n = m) ∧
    (keyBlockTransactions n = keyBlockTransactions m → n = m) ∧
    (keyByHash b s = keyByHash b s' → s = s') ∧
    (b < 256 → b' < 256 → b ≠ b' → dbKey b s ≠ dbKey b' s') :=
  ⟨keyByNumber_inj b n m hn hm, keyBlockTransactions_inj n m hn hm, dbKey_suffix_inj b s s',
   fun h1 h2 h3 => dbKey_bucket_ne b b' s s' h1 h2 h3⟩

/-! ## Non-vacuity -/

example : (Cbor.map [(.text [0x61], .array [.uint 500, .nint 0, .simple 22]), (.uint 1, .tag 65538 (.bytes [1, 2]))]).wf = true := by
  decide
example : (Cbor.map [(.uint 1, .array [.uint 500])]).encode = [0xa1, 0x01, 0x81, 0x19, 0x01, 0xf4] := by decide
example : (Blob.build (fun (b : Bytes) => b) (fun (b : Bytes) => b) [[1, 2], [3]] [[4], [5, 6]]) =
    { txIdx := [0, 2], rcIdx := [3, 4], data := [1, 2, 3, 4, 5, 6] } := by decide
example : (Blob.build (fun (b : Bytes) => b) (fun (b : Bytes) => b) [] []).marshal = [0xa0] := by decide
example : readBlob [0xa2, 0x01, 0x82, 0x00, 0x02, 0x02, 0x82, 0x03, 0x04, 1, 2, 3, 4, 5, 6]
    (fun b => b.getTx some 1) = .ok [3] := by decide

-- typed layer: a header with a hash, number 7, everything else nil/zero/empty, is well-typed,
-- and the hash projection reads the hash out of its encoding
def exHeader : GoVal :=
  .struct [.felt 1 2 3 4, .uint 7, .uint 0, .nil, .uint 99, .uint 0, .nil, .nil, .list [.list [.nil], .nil], .raw .null, .nil,
           .nil, .nil, .str [0x30], .nil, .uint 3]
example : wt ⟨true⟩ tHeader exHeader = true := by decide
set_option maxRecDepth 8000 in
example : ((marshalVal tHeader exHeader).bind (fun bs => getBlockHeaderHash ⟨true⟩ bs)).isSome = true := by decide
set_option maxRecDepth 8000 in
example : ((marshalVal tHeader exHeader).bind (fun bs => getBlockTransactionCount ⟨true⟩ bs)).isSome = true := by decide
-- a map value in canonical key order
example : wt ⟨true⟩ (.map .felt (.ptr .felt)) (.map [(.felt 0 0 0 0, .nil), (.felt 5 0 0 0, .felt 1 1 1 1)]) = true := by decide
example : projOK (fieldsOf tHeader) (fieldsOf pHeaderTimestamp) = false := by decide  -- *uint64 vs uint64: not the same type

example : CasmMeta.unmarshal (CasmMeta.marshal ⟨5, List.replicate 32 7, 9, some (List.replicate 32 1)⟩) =
    some ⟨5, List.replicate 32 7, 9, some (List.replicate 32 1)⟩ := by decide
example : keyBlockTransactions 24 = [40, 0x18, 0x18] ∧ keyByNumber bBlockHeadersByNumber 258 = [8, 0, 0, 0, 0, 0, 0, 1, 2] := by decide

end Juno.C07.Props
