import JunoModel.C07.Proofs
import JunoModel.C07.ProofsBlob
import JunoModel.C07.ProofsVal
import JunoModel.C07.ProofsBin
import JunoModel.C07.ProofsStore
import JunoModel.C07.ProofsChain
import JunoModel.C07.ProofsPrune
import JunoModel.C07.ProofsPerm
import JunoModel.C07.ProofsLayout
import JunoModel.C07.ProofsCasm
/-!
C07 — property theorems (statements only; helper lemmas are in `Proofs*.lean`).
Every theorem in this module is an obligation listed in evidence/C07.json with its axioms.
-/
namespace Juno.C07.Props
open Juno.C07

/-! ## 1. Bytes ↔ CBOR data model -/

/-- Decoding the canonical encoding of any data item gives the item back, whatever follows it
(`UnmarshalFirst`); by induction on the item, no bound on size or nesting. -/
theorem cbor_roundtrip (v : Cbor) (rest : Bytes) (hwf : v.wf = true) :
    decodeFirst (v.encode ++ rest) = some (v, rest) :=
  decodeFirst_encode v rest hwf

/-- `Unmarshal (Marshal v) = v`. -/
theorem cbor_roundtrip_exact (v : Cbor) (hwf : v.wf = true) : decodeAll v.encode = some v :=
  decodeAll_encode v hwf

/-- Two different data items never share an encoding. -/
theorem encode_injective (a b : Cbor) (ha : a.wf = true) (hb : b.wf = true) (h : a.encode = b.encode) : a = b :=
  encode_inj a b ha hb h


/-! ### Decoder limits — regression witness for a FIXED defect (b59796a)

The real decoder is `decodeAll` restricted to items within `DecOptions.MaxArrayElements /
MaxMapPairs / MaxNestedLevels` (`decodeAllLimited`, Model.lean; the definitional lemmas
`limited_roundtrip / limited_rejects / limited_rejects_big` are in Proofs.lean, not obligations).
Before b59796a juno ran with the library defaults 131072 pairs / 32 levels; it now runs
10485760 / 10485760 / 1024 (probed by the harness on every run, nesting counting convention
compared with the model). The witness below is the shape of the old counterexample at a small
limit; it is kept so that the defect has a proved negation, not as a statement about today's code. -/

/-- An item nested one level deeper than the decoder allows is written by the encoder (it decodes
without limits) and rejected by the limited decoder. -/
theorem nesting_limit_rejects_own_output_before_b59796a :
    (Cbor.array [.array [.array [.uint 1]]]).wf = true ∧
    (decodeAll (Cbor.array [.array [.array [.uint 1]]]).encode).isSome = true ∧
    (decodeAllLimited ⟨10485760, 131072, 3⟩ (Cbor.array [.array [.array [.uint 1]]]).encode).isSome = true ∧
    (decodeAllLimited ⟨10485760, 131072, 2⟩ (Cbor.array [.array [.array [.uint 1]]]).encode).isNone = true := by
  decide

/-! ## 2. The per-block blob of transactions and receipts

`encT/decT`, `encR/decR` are the item codecs; the only thing assumed of them is that decoding
the exact bytes of an encoded item gives the item back (instantiated with the CBOR codec above in
section 3). No relation between the number of transactions and receipts is needed. Counts and
offsets are Go `int`s: all size hypotheses are `< 2^63` (the header decoder rejects larger values). -/

section Blob
variable {α β : Type} (encT : α → Bytes) (encR : β → Bytes) (decT : Bytes → Option α) (decR : Bytes → Option β)

/-- What is written for a block can be read back as a blob (header + data), for every block
including the empty one. -/
theorem blob_unmarshal_marshal (txs : List α) (rcs : List β)
    (h1 : txs.length < 9223372036854775808) (h2 : rcs.length < 9223372036854775808)
    (h3 : (concatEnc encT txs ++ concatEnc encR rcs).length < 9223372036854775808) :
    Blob.unmarshal (Blob.build encT encR txs rcs).marshal = some (Blob.build encT encR txs rcs) :=
  unmarshal_marshal _ (build_wf encT encR txs rcs h1 h2 h3)

/-- Transaction by (block, index): index `i` of the stored bytes is `txs[i]` — first, last, any. -/
theorem blob_get_tx (txs : List α) (rcs : List β) (hT : ∀ a ∈ txs, decT (encT a) = some a)
    (h1 : txs.length < 9223372036854775808) (h2 : rcs.length < 9223372036854775808)
    (h3 : (concatEnc encT txs ++ concatEnc encR rcs).length < 9223372036854775808)
    (i : Nat) (h : i < txs.length) :
    readBlob (Blob.build encT encR txs rcs).marshal (fun b => b.getTx decT i) = .ok txs[i] := by
  simp only [readBlob, blob_unmarshal_marshal encT encR txs rcs h1 h2 h3]
  exact getTx_build encT encR decT txs rcs hT i h

/-- Receipt by (block, index). -/
theorem blob_get_rc (txs : List α) (rcs : List β) (hR : ∀ a ∈ rcs, decR (encR a) = some a)
    (h1 : txs.length < 9223372036854775808) (h2 : rcs.length < 9223372036854775808)
    (h3 : (concatEnc encT txs ++ concatEnc encR rcs).length < 9223372036854775808)
    (i : Nat) (h : i < rcs.length) :
    readBlob (Blob.build encT encR txs rcs).marshal (fun b => b.getRc decR i) = .ok rcs[i] := by
  simp only [readBlob, blob_unmarshal_marshal encT encR txs rcs h1 h2 h3]
  exact getRc_build encT encR decR txs rcs hR i h

/-- An index past the end is `ErrKeyNotFound` (never a neighbour's bytes, never a panic). -/
theorem blob_get_out_of_range (txs : List α) (rcs : List β)
    (h1 : txs.length < 9223372036854775808) (h2 : rcs.length < 9223372036854775808)
    (h3 : (concatEnc encT txs ++ concatEnc encR rcs).length < 9223372036854775808) (i : Nat) :
    (txs.length ≤ i → readBlob (Blob.build encT encR txs rcs).marshal (fun b => b.getTx decT i) = .notFound) ∧
    (rcs.length ≤ i → readBlob (Blob.build encT encR txs rcs).marshal (fun b => b.getRc decR i) = .notFound) := by
  simp only [readBlob, blob_unmarshal_marshal encT encR txs rcs h1 h2 h3]
  exact ⟨getTx_build_notFound encT encR decT txs rcs i, getRc_build_notFound encT encR decR txs rcs i⟩

/-- All transactions / all receipts of a block, in order (hence also the counts). -/
theorem blob_all (txs : List α) (rcs : List β)
    (hT : ∀ a ∈ txs, decT (encT a) = some a) (hR : ∀ a ∈ rcs, decR (encR a) = some a)
    (h1 : txs.length < 9223372036854775808) (h2 : rcs.length < 9223372036854775808)
    (h3 : (concatEnc encT txs ++ concatEnc encR rcs).length < 9223372036854775808) :
    readBlob (Blob.build encT encR txs rcs).marshal (fun b => b.allTx decT) = .ok txs ∧
    readBlob (Blob.build encT encR txs rcs).marshal (fun b => b.allRc decR) = .ok rcs := by
  simp only [readBlob, blob_unmarshal_marshal encT encR txs rcs h1 h2 h3]
  exact ⟨allTx_build encT encR decT txs rcs hT, allRc_build encT encR decR txs rcs hR⟩


/-- For ANY item decoder — the full one or a projection — the bytes it is handed for index `i` are
exactly the encoding of item `i` (so every per-record statement of sections 3 and 4 lifts to the
stored block). -/
theorem blob_item_slice {γ : Type} (dec : Bytes → Option γ) (txs : List α) (rcs : List β)
    (h1 : txs.length < 9223372036854775808) (h2 : rcs.length < 9223372036854775808)
    (h3 : (concatEnc encT txs ++ concatEnc encR rcs).length < 9223372036854775808) (i : Nat) :
    (∀ h : i < txs.length, readBlob (Blob.build encT encR txs rcs).marshal (fun b => b.getTx dec i) =
        Res.ofOption (dec (encT txs[i]))) ∧
    (∀ h : i < rcs.length, readBlob (Blob.build encT encR txs rcs).marshal (fun b => b.getRc dec i) =
        Res.ofOption (dec (encR rcs[i]))) := by
  simp only [readBlob, blob_unmarshal_marshal encT encR txs rcs h1 h2 h3]
  exact ⟨fun h => getTx_build_raw encT encR dec txs rcs i h, fun h => getRc_build_raw encT encR dec txs rcs i h⟩

/-- Offsets: `indexed.Write` records for item `i` the base plus the length of everything before
it; offsets never decrease, consecutive offsets are one item apart, every item lies inside the data. -/
theorem offsets_spec (enc : α → Bytes) (items : List α) (base : Nat) :
    (∀ i, i < items.length →
      (offsets enc base items).getD i 0 = base + (concatEnc enc (items.take i)).length) ∧
    (∀ i j, i ≤ j → j < items.length → (offsets enc base items).getD i 0 ≤ (offsets enc base items).getD j 0) ∧
    (∀ i (h : i < items.length),
      (offsets enc base items).getD i 0 + (enc items[i]).length ≤ base + (concatEnc enc items).length) :=
  ⟨fun i h => offsets_getD enc items base i h, fun i j hij hj => offsets_mono enc items base i j hij hj,
   fun i h => offsets_inbounds enc items base i h⟩

end Blob


/-! ## 3. Go values ↔ CBOR by type tables (struct field tables, tags, maps, nil vs empty)

`okType t`: a well-formed record type (all of juno's tables are, by `decide` below).
`wt cfg t v`: `v` is a value of type `t` in the canonical representation (see SpecVal.lean).
`cfg.rejectInvalidUTF8` is the decoder option `DecOptions.UTF8` in effect. -/

/-- **Encoding then decoding a storable value is the identity** — nil and empty slices / maps /
byte strings kept apart, every struct field back in its place, interface values back under the
same concrete type — for every table, by induction on the type.

`wt` picks ONE representative per stored value, and says so here because it decides what "any
storable value" means:
 * a Go map is its entry list in the encoder's key order (a map has no order of its own);
 * strings are valid UTF-8 only if the decoder insists (`cfg`; the configured decoder does not);
 * an `omitempty` field that is EMPTY must be nil. This is a real restriction: the one
   `omitempty` field of the record types, `InvokeTransaction.ProofFacts`, does NOT come back as
   stored when it is empty-but-not-nil. The unrestricted statement is
   `struct_roundtrip_omitempty` (decoded = normal form of stored) with the witness
   `omitempty_empty_slice_comes_back_nil`; see there for why this is not a defect of juno;
 * `raw` leaves (`Header.EventsBloom`, `CasmClass.Prime`, `BytecodeSegmentLengths`) are opaque items:
   for them the statement is the identity by definition — their codecs are covered by the
   byte-level comparison and the read-back oracle only (listed as not covered in the notes). -/
theorem value_roundtrip (cfg : DecCfg) (t : GoType) (v : GoVal) (hok : okType t = true) (hw : wt cfg t v = true) :
    ∃ c, encodeVal t v = some c ∧ decodeVal cfg t c = some v :=
  rt_val cfg t v hok hw

/-- The same down to the stored bytes: `Unmarshal (Marshal v) = v`. `fitsVal v`: every length and
integer in `v` is below 2^64 (what CBOR can express; true of any value in memory). -/
theorem value_roundtrip_bytes (cfg : DecCfg) (t : GoType) (v : GoVal) (hok : okType t = true)
    (hw : wt cfg t v = true) (hf : fitsVal v = true) :
    ∃ bs, marshalVal t v = some bs ∧ unmarshalVal cfg t bs = some v :=
  rt_bytes_fits cfg t v hok hw hf

/-- The encoder only emits well-formed canonical items (so `cbor_roundtrip` applies to them). -/
theorem encoded_values_well_formed (t : GoType) (v : GoVal) (c : Cbor) (hok : okType t = true)
    (hf : fitsVal v = true) (h : encodeVal t v = some c) : c.wf = true :=
  enc_wf t v c hok hf h

/-- Struct level: the encoded entries of a struct, preceded by any entries with other keys, decode
back to the same field values; fields dropped by `omitempty` come back as their (nil) zero value. -/
theorem struct_roundtrip (cfg : DecCfg) (fs : List (Bytes × Bool × GoType)) (vs : List GoVal)
    (hok : okFields fs = true) (hd : keysDistinct fs = true) (hw : wtFields cfg fs vs = true) :
    ∃ es, encodeFields fs vs = some es ∧
      ∀ pre, (∀ k, keyAbsent k fs = false → mapLookup (.text k) pre = none) →
        decodeFields cfg fs (pre ++ es) = some vs := by
  obtain ⟨es, h1, _, h3⟩ := rt_fields cfg fs vs hok hd hw
  exact ⟨es, h1, h3⟩

/-- **A Go map has no order, and the stored bytes do not depend on one**: `wt` (and with it
`value_roundtrip`) fixes the entries of a map in the encoder's key order; this is the missing half —
ANY two listings of the same entries (a permutation) with pairwise distinct encoded keys, as the keys
of a Go map are, encode to the same item. (`sortEntries` is an insertion sort by a strict total
order on the encoded keys: length first, then bytewise.) -/
theorem map_encoding_order_independent (k v : GoType) (es es' : List (GoVal × GoVal)) (hp : es.Perm es')
    (cs : List (Cbor × Cbor)) (h : mapOpt2 (encodeVal k) (encodeVal v) es = some cs)
    (hn : (cs.map (fun e => e.1.encode)).Nodup) :
    encodeVal (.map k v) (.map es) = encodeVal (.map k v) (.map es') :=
  encodeVal_map_perm k v es es' hp cs h hn

/-- Every table of the model is a well-formed record type (so the theorems above apply to headers,
all five transaction kinds, receipts, state updates, commitments, L1 head, both class kinds). -/
theorem tables_ok :
    okType tHeader = true ∧ okType tTransaction = true ∧ okType tTransactionReceipt = true ∧
    okType tStateUpdate = true ∧ okType tBlockCommitments = true ∧ okType tL1Head = true ∧
    okType tClassDefinition = true := by
  decide

/-! ### `omitempty`: the stored value and its normal form

`value_roundtrip` asks an empty `omitempty` field to be nil. Without that hypothesis the round trip
is NOT the identity: -/

/-- Struct round trip without the restriction: field values are well-typed one by one
(`wtFieldsLoose`), `omitempty` fields may hold anything; the decoded fields are `normFields` of the
stored ones — equal, except that an empty `omitempty` field comes back as the zero value (nil). -/
theorem struct_roundtrip_omitempty (cfg : DecCfg) (fs : List (Bytes × Bool × GoType)) (vs : List GoVal)
    (hok : okFields fs = true) (hd : keysDistinct fs = true) (hw : wtFieldsLoose cfg fs vs = true) :
    ∃ es, encodeFields fs vs = some es ∧
      ∀ pre, (∀ k, keyAbsent k fs = false → mapLookup (.text k) pre = none) →
        decodeFields cfg fs (pre ++ es) = some (normFields fs vs) := by
  obtain ⟨es, h1, _, h3⟩ := rt_fields_norm cfg fs vs hok hd hw
  exact ⟨es, h1, h3⟩

/-- `InvokeTransaction{TransactionHash: 1, Version: 3, ProofFacts: []felt.Felt{}}` (field order of
the table: Tip, Nonce, MaxFee, Version, CallData, FeeDAMode, ProofFacts, …). -/
def invokeEmptyProofFacts : GoVal :=
  .iface 2 (.struct [.uint 0, .nil, .nil, .felt 3 0 0 0, .nil, .uint 0, .list [], .uint 0, .nil, .nil, .nil, .nil,
    .felt 1 0 0 0, .nil, .nil, .nil])

def proofFactsOf : GoVal → Option GoVal
  | .iface _ (.struct vs) => vs[6]?
  | _ => none

def isNilVal : GoVal → Bool
  | .nil => true
  | _ => false

set_option maxRecDepth 8000 in
/-- Witness that the full-strength statement "decode (encode v) = v for every v the encoder
accepts" is FALSE for `omitempty`: the transaction above is written, reads back, and its
`ProofFacts` is nil where an empty non-nil slice was stored (same on the real code: `codec` phase).
Decision (CONVENTIONS §5): not a defect of juno. The property asks for the nil-vs-empty distinctions
"the hashes depend on"; `invokeTransactionHash` only tests `len(ProofFacts) > 0`, `omitempty` is
what lets records written before the field existed decode, and `rpc/v10.AdaptTransaction` turns nil
back into `[]` on output. The oracle therefore compares read-back with the NORMAL FORM of what was
stored (`equal.go`), which is exactly `struct_roundtrip_omitempty`. -/
theorem omitempty_empty_slice_comes_back_nil :
    (proofFactsOf invokeEmptyProofFacts).map isNilVal = some false ∧
    wt ⟨false⟩ tTransaction invokeEmptyProofFacts = false ∧
    (((marshalVal tTransaction invokeEmptyProofFacts).bind (unmarshalVal ⟨false⟩ tTransaction)).bind
      proofFactsOf).map isNilVal = some true := by
  decide

/-! ### Strings that are not valid UTF-8 — regression witness for a FIXED defect (c6c3e35)

Go strings are arbitrary bytes and the encoder writes them as they are; `DecOptions.UTF8` decides
whether such a text string decodes. encoder/encoder.go now sets `UTF8DecodeInvalid`
(`cfg = ⟨false⟩`): `value_roundtrip` at that `cfg` has no condition on strings and is the statement
about the current code. With the library default (`⟨true⟩`, the code before the fix) the round
trip needs valid UTF-8, and the theorem below is the proved counterexample; the harness replays the
same receipt on the real code and reports the violation again should the option be lost. -/

/-- The receipt `{Reverted: true, RevertReason: "\xff"}` (all else nil/zero). -/
def badReceipt : GoVal :=
  .struct [.nil, .nil, .uint 0, .bool true, .str [0xff], .nil, .nil, .nil, .nil]

/-- Witness: the encoder accepts the receipt, the strict decoder rejects its own output, the
lenient decoder does not. The same receipt is replayed on the real code by the harness
(`string-with-invalid-utf8-stored-but-unreadable`). -/
theorem invalid_utf8_unreadable_before_c6c3e35 :
    wt ⟨false⟩ tTransactionReceipt badReceipt = true ∧
    (marshalVal tTransactionReceipt badReceipt).isSome = true ∧
    ((marshalVal tTransactionReceipt badReceipt).bind (unmarshalVal ⟨true⟩ tTransactionReceipt)).isNone = true ∧
    ((marshalVal tTransactionReceipt badReceipt).bind (unmarshalVal ⟨false⟩ tTransactionReceipt)).isSome = true := by
  decide

/-! ## 4. The partial decoders agree with the full decoder

On EVERY record the full decoder accepts — whatever its keys, their order, duplicates, nulls —
not only on records the current encoder writes. -/

/-- General form: a struct type `ps` whose fields are discards or fields of `ts` (same key, same
type) reads, for each such key, exactly what the full type `ts` reads. -/
theorem projection_agrees (cfg : DecCfg) (ts ps : List (Bytes × Bool × GoType)) (hok : projOK ts ps = true)
    (key : Bytes) (ty : GoType) (h1 : fieldType key ts = some ty) (h2 : fieldType key ps = some ty)
    (bs : Bytes) (hv : GoVal) (h : unmarshalVal cfg (.struct ts) bs = some hv) :
    projField cfg (.struct ps) key bs = getField (.struct ts) key hv :=
  projField_agrees cfg ts ps hok key ty h1 h2 bs hv h

/-- And it never fails where the full decoder succeeds. -/
theorem projection_succeeds (cfg : DecCfg) (kvs : List (Cbor × Cbor)) (ts ps : List (Bytes × Bool × GoType))
    (vs : List GoVal) (hT : decodeFields cfg ts kvs = some vs) (hok : projOK ts ps = true) :
    ∃ ws, decodeFields cfg ps kvs = some ws :=
  decodeFields_proj_succeeds cfg kvs ts vs hT ps hok

/-- The header projections of core/partial_cbor.go (hash, state root, transaction count, events
bloom, hash + state root): each returns the field of the fully decoded header. The skeleton's
`cbor:"gasprice"` / `cbor:"gaspricestrk"` renames are part of `projOK … = true`. -/
theorem header_projections_agree (cfg : DecCfg) (bs : Bytes) (hv : GoVal)
    (h : unmarshalVal cfg tHeader bs = some hv) :
    projField cfg pHeaderHash kHash bs = getField tHeader kHash hv ∧
    projField cfg pHeaderGlobalStateRoot kGlobalStateRoot bs = getField tHeader kGlobalStateRoot hv ∧
    projField cfg pHeaderTransactionCount kTransactionCount bs = getField tHeader kTransactionCount hv ∧
    projField cfg pHeaderEventsBloom kEventsBloom bs = getField tHeader kEventsBloom hv ∧
    projField cfg pHeaderHashAndStateRoot kHash bs = getField tHeader kHash hv ∧
    projField cfg pHeaderHashAndStateRoot kGlobalStateRoot bs = getField tHeader kGlobalStateRoot hv :=
  ⟨projField_agrees cfg (fieldsOf tHeader) (fieldsOf pHeaderHash) (by decide) kHash (.ptr .felt) rfl rfl bs hv h,
   projField_agrees cfg (fieldsOf tHeader) (fieldsOf pHeaderGlobalStateRoot) (by decide) kGlobalStateRoot (.ptr .felt) rfl rfl bs hv h,
   projField_agrees cfg (fieldsOf tHeader) (fieldsOf pHeaderTransactionCount) (by decide) kTransactionCount (.uint 64) rfl rfl bs hv h,
   projField_agrees cfg (fieldsOf tHeader) (fieldsOf pHeaderEventsBloom) (by decide) kEventsBloom .raw rfl rfl bs hv h,
   projField_agrees cfg (fieldsOf tHeader) (fieldsOf pHeaderHashAndStateRoot) (by decide) kHash (.ptr .felt) rfl rfl bs hv h,
   projField_agrees cfg (fieldsOf tHeader) (fieldsOf pHeaderHashAndStateRoot) (by decide) kGlobalStateRoot (.ptr .felt) rfl rfl bs hv h⟩

/-- The receipt projections: execution status (Reverted, RevertReason) and events (Events,
TransactionHash) are the fields of the fully decoded receipt. -/
theorem receipt_projections_agree (cfg : DecCfg) (bs : Bytes) (hv : GoVal)
    (h : unmarshalVal cfg tTransactionReceipt bs = some hv) :
    projField cfg pReceiptExecutionStatus kReverted bs = getField tTransactionReceipt kReverted hv ∧
    projField cfg pReceiptExecutionStatus kRevertReason bs = getField tTransactionReceipt kRevertReason hv ∧
    projField cfg pReceiptEvents kEvents bs = getField tTransactionReceipt kEvents hv ∧
    projField cfg pReceiptEvents kTransactionHash bs = getField tTransactionReceipt kTransactionHash hv :=
  ⟨projField_agrees cfg (fieldsOf tTransactionReceipt) (fieldsOf pReceiptExecutionStatus) (by decide) kReverted .bool rfl rfl bs hv h,
   projField_agrees cfg (fieldsOf tTransactionReceipt) (fieldsOf pReceiptExecutionStatus) (by decide) kRevertReason .str rfl rfl bs hv h,
   projField_agrees cfg (fieldsOf tTransactionReceipt) (fieldsOf pReceiptEvents) (by decide) kEvents (.slice tEvent) rfl rfl bs hv h,
   projField_agrees cfg (fieldsOf tTransactionReceipt) (fieldsOf pReceiptEvents) (by decide) kTransactionHash (.ptr .felt) rfl rfl bs hv h⟩


/-- Projection tables up to pointer-ness (`projOKc`): the two projections whose wanted field is the
pointer / pointee version of the record's field are covered too. -/
theorem all_projections_well_formed :
    projOKc (fieldsOf tHeader) (fieldsOf pHeaderTimestamp) = true ∧
    projOK (fieldsOf tHeader) (fieldsOf pHeaderHash) = true ∧
    projOK (fieldsOf tHeader) (fieldsOf pHeaderGlobalStateRoot) = true ∧
    projOK (fieldsOf tHeader) (fieldsOf pHeaderTransactionCount) = true ∧
    projOK (fieldsOf tHeader) (fieldsOf pHeaderEventsBloom) = true ∧
    projOK (fieldsOf tHeader) (fieldsOf pHeaderHashAndStateRoot) = true ∧
    projOK (fieldsOf tTransactionReceipt) (fieldsOf pReceiptExecutionStatus) = true ∧
    projOK (fieldsOf tTransactionReceipt) (fieldsOf pReceiptEvents) = true := by
  decide

/-- `GetBlockHeaderTimestampByNumber`: the projection holds `*uint64` where the header holds
`uint64`, so it can tell "absent / null" (reported as an error) from 0; when it returns a value it
is the timestamp of the fully decoded header — on every record the full decoder accepts. -/
theorem timestamp_projection_agrees (cfg : DecCfg) (bs : Bytes) (hv : GoVal)
    (h : unmarshalVal cfg tHeader bs = some hv) :
    getBlockHeaderTimestamp cfg bs = none ∨ getBlockHeaderTimestamp cfg bs = getField tHeader kTimestamp hv :=
  timestamp_agrees cfg bs hv h


/-- … and on every header the node itself wrote it is never the error: the accessor returns the
stored timestamp (the key is always present — `Timestamp` is not `omitempty` — and never null). -/
theorem timestamp_projection_on_stored (cfg : DecCfg) (vs : List GoVal) (hw : wt cfg tHeader (.struct vs) = true)
    (hf : fitsVal (.struct vs) = true) :
    ∃ bs v, marshalVal tHeader (.struct vs) = some bs ∧ getField tHeader kTimestamp (.struct vs) = some v ∧
      v ≠ .nil ∧ getBlockHeaderTimestamp cfg bs = some v :=
  timestamp_on_stored cfg vs hw hf

/-- General form of the above: a pointer-typed projection of a non-`omitempty`, non-nullable field
always finds the stored field on encoder-written records. -/
theorem pointer_projection_on_stored (cfg : DecCfg) (ts ps : List (Bytes × Bool × GoType)) (key : Bytes) (t : GoType)
    (hok : okType (.struct ts) = true) (h1 : fieldType key ts = some t) (ho : fieldOm key ts = false)
    (h2 : fieldType key ps = some (.ptr t)) (hnn : nonNull t = true) (hpc : projOKc ts ps = true)
    (vs : List GoVal) (hw : wt cfg (.struct ts) (.struct vs) = true) :
    ∃ es v, encodeVal (.struct ts) (.struct vs) = some (.map es) ∧
      getField (.struct ts) key (.struct vs) = some v ∧ fieldOfItem cfg ps key (.map es) = some v ∧
      (encodeVal t v).isSome = true :=
  ptr_projection_on_stored cfg ts ps key t hok h1 ho h2 hnn hpc vs hw

/-- `GetTransactionHashesByBlockNumber`, per record: the projection names the union of the fields
of all five transaction types and holds `TransactionHash` by value; the record is tag-wrapped.
Whichever transaction type the full decoder finds under the tag, the projection reads that
transaction's `TransactionHash` (a nil hash reads as zero, which the accessor reports as missing). -/
theorem txhash_projection_agrees (cfg : DecCfg) (bs : Bytes) (i : Nat) (tv : GoVal)
    (h : unmarshalVal cfg tTransaction bs = some (.iface i tv)) :
    ∃ tg fs, txAlts[i]? = some (tg, .struct fs) ∧
      projField cfg pTransactionHash kTransactionHash bs =
        (getField (.struct fs) kTransactionHash tv).map feltOrZero :=
  txhash_agrees cfg bs i tv h


/-! ## 5. Composition: a stored block, read back typed -/

/-- Encoding of an item of type `t` as the blob writer sees it. -/
def encItem (t : GoType) (v : GoVal) : Bytes := (marshalVal t v).getD []

/-- Transactions and receipts as typed values, written as a block, read back by (block, index)
with the full decoders: what was stored — for every block size, every index, all five
transaction kinds. -/
theorem stored_block_readback (cfg : DecCfg) (txs rcs : List GoVal)
    (hT : ∀ a ∈ txs, wt cfg tTransaction a = true ∧ fitsVal a = true)
    (hR : ∀ a ∈ rcs, wt cfg tTransactionReceipt a = true ∧ fitsVal a = true)
    (h1 : txs.length < 9223372036854775808) (h2 : rcs.length < 9223372036854775808)
    (h3 : (concatEnc (encItem tTransaction) txs ++ concatEnc (encItem tTransactionReceipt) rcs).length < 9223372036854775808)
    (i : Nat) :
    (∀ h : i < txs.length,
      readBlob (Blob.build (encItem tTransaction) (encItem tTransactionReceipt) txs rcs).marshal
        (fun b => b.getTx (unmarshalVal cfg tTransaction) i) = .ok txs[i]) ∧
    (∀ h : i < rcs.length,
      readBlob (Blob.build (encItem tTransaction) (encItem tTransactionReceipt) txs rcs).marshal
        (fun b => b.getRc (unmarshalVal cfg tTransactionReceipt) i) = .ok rcs[i]) := by
  have key : ∀ (t : GoType) (a : GoVal), okType t = true → wt cfg t a = true →
      fitsVal a = true → unmarshalVal cfg t (encItem t a) = some a := by
    intro t a hok hw hf
    obtain ⟨bs, e1, e2⟩ := rt_bytes_fits cfg t a hok hw hf
    simp only [encItem, e1, Option.getD_some]
    exact e2
  constructor
  · intro h
    exact blob_get_tx (encItem tTransaction) (encItem tTransactionReceipt) (unmarshalVal cfg tTransaction) txs rcs
      (fun a ha => key tTransaction a tables_ok.2.1 (hT a ha).1 (hT a ha).2) h1 h2 h3 i h
  · intro h
    exact blob_get_rc (encItem tTransaction) (encItem tTransactionReceipt) (unmarshalVal cfg tTransactionReceipt) txs rcs
      (fun a ha => key tTransactionReceipt a tables_ok.2.2.1 (hR a ha).1 (hR a ha).2) h1 h2 h3 i h


/-! ### Compositions the property names: the accessors on what the node stored -/

/-- Header projections on a STORED header: for every well-typed header value, the bytes
`WriteBlockHeader` stores give, through each projection, the field of the header that was stored
(`GetBlockHeaderHashByNumber`, `GetGlobalStateRootByBlockNumber`, `GetBlockTransactionCountByNumber`,
`GetBlockHeaderEventsBloomByNumber`; a nil pointer field is then reported as "missing" by `nonNil`). -/
theorem stored_header_projections (cfg : DecCfg) (hv : GoVal) (hw : wt cfg tHeader hv = true)
    (hf : fitsVal hv = true) :
    ∃ bs, marshalVal tHeader hv = some bs ∧ unmarshalVal cfg tHeader bs = some hv ∧
      projField cfg pHeaderHash kHash bs = getField tHeader kHash hv ∧
      projField cfg pHeaderGlobalStateRoot kGlobalStateRoot bs = getField tHeader kGlobalStateRoot hv ∧
      projField cfg pHeaderTransactionCount kTransactionCount bs = getField tHeader kTransactionCount hv ∧
      projField cfg pHeaderEventsBloom kEventsBloom bs = getField tHeader kEventsBloom hv := by
  obtain ⟨bs, e1, e2⟩ := rt_bytes_fits cfg tHeader hv (by decide) hw hf
  obtain ⟨a, b, c, d, _, _⟩ := header_projections_agree cfg bs hv e2
  exact ⟨bs, e1, e2, a, b, c, d⟩

/-- Per-receipt execution status and per-transaction events of a STORED block, by index: the
partial decoder applied to item `i` of the blob gives the fields of receipt `i` that was stored. -/
theorem stored_block_receipt_projections (cfg : DecCfg) (txs rcs : List GoVal)
    (hR : ∀ a ∈ rcs, wt cfg tTransactionReceipt a = true ∧ fitsVal a = true)
    (h1 : txs.length < 9223372036854775808) (h2 : rcs.length < 9223372036854775808)
    (h3 : (concatEnc (encItem tTransaction) txs ++ concatEnc (encItem tTransactionReceipt) rcs).length < 9223372036854775808)
    (i : Nat) (h : i < rcs.length) :
    let stored := (Blob.build (encItem tTransaction) (encItem tTransactionReceipt) txs rcs).marshal
    readBlob stored (fun b => b.getRc (projField cfg pReceiptExecutionStatus kReverted) i) =
      Res.ofOption (getField tTransactionReceipt kReverted rcs[i]) ∧
    readBlob stored (fun b => b.getRc (projField cfg pReceiptExecutionStatus kRevertReason) i) =
      Res.ofOption (getField tTransactionReceipt kRevertReason rcs[i]) ∧
    readBlob stored (fun b => b.getRc (projField cfg pReceiptEvents kEvents) i) =
      Res.ofOption (getField tTransactionReceipt kEvents rcs[i]) ∧
    readBlob stored (fun b => b.getRc (projField cfg pReceiptEvents kTransactionHash) i) =
      Res.ofOption (getField tTransactionReceipt kTransactionHash rcs[i]) := by
  intro stored
  have hr := hR rcs[i] (List.getElem_mem h)
  obtain ⟨bs, e1, e2⟩ := rt_bytes_fits cfg tTransactionReceipt rcs[i] (by decide) hr.1 hr.2
  have henc : encItem tTransactionReceipt rcs[i] = bs := by simp [encItem, e1]
  obtain ⟨a, b, c, d⟩ := receipt_projections_agree cfg bs rcs[i] e2
  have sl := fun {γ : Type} (dec : Bytes → Option γ) =>
    (blob_item_slice (encItem tTransaction) (encItem tTransactionReceipt) dec txs rcs h1 h2 h3 i).2 h
  refine ⟨?_, ?_, ?_, ?_⟩ <;> (rw [sl, henc]) <;> simp only [a, b, c, d]

/-- All transactions / all receipts of a stored block, typed (hence the counts). -/
theorem stored_block_all (cfg : DecCfg) (txs rcs : List GoVal)
    (hT : ∀ a ∈ txs, wt cfg tTransaction a = true ∧ fitsVal a = true)
    (hR : ∀ a ∈ rcs, wt cfg tTransactionReceipt a = true ∧ fitsVal a = true)
    (h1 : txs.length < 9223372036854775808) (h2 : rcs.length < 9223372036854775808)
    (h3 : (concatEnc (encItem tTransaction) txs ++ concatEnc (encItem tTransactionReceipt) rcs).length < 9223372036854775808) :
    let stored := (Blob.build (encItem tTransaction) (encItem tTransactionReceipt) txs rcs).marshal
    readBlob stored (fun b => b.allTx (unmarshalVal cfg tTransaction)) = .ok txs ∧
    readBlob stored (fun b => b.allRc (unmarshalVal cfg tTransactionReceipt)) = .ok rcs := by
  intro stored
  have key : ∀ (t : GoType) (a : GoVal), okType t = true → wt cfg t a = true →
      fitsVal a = true → unmarshalVal cfg t (encItem t a) = some a := by
    intro t a hok hw hf
    obtain ⟨bs, e1, e2⟩ := rt_bytes_fits cfg t a hok hw hf
    simp only [encItem, e1, Option.getD_some]
    exact e2
  exact blob_all (encItem tTransaction) (encItem tTransactionReceipt) (unmarshalVal cfg tTransaction)
    (unmarshalVal cfg tTransactionReceipt) txs rcs
    (fun a ha => key tTransaction a tables_ok.2.1 (hT a ha).1 (hT a ha).2)
    (fun a ha => key tTransactionReceipt a tables_ok.2.2.1 (hR a ha).1 (hR a ha).2) h1 h2 h3

/-- A declared class: the stored bytes (`encoder.Marshal` of the binary wrapper) give back the
declaration height and, through the class decoder, the class. -/
theorem declared_class_readback (cfg : DecCfg) (at_ : Nat) (cls : GoVal) (h : at_ < 18446744073709551616)
    (hw : wt cfg tClassDefinition cls = true) (hf : fitsVal cls = true) :
    ∃ bs, marshalVal tClassDefinition cls = some bs ∧
      (decDeclared (encDeclared at_ bs)).map (fun (a, b) => (a, unmarshalVal cfg tClassDefinition b)) =
        some (at_, some cls) := by
  obtain ⟨bs, e1, e2⟩ := rt_bytes_fits cfg tClassDefinition cls (by decide) hw hf
  exact ⟨bs, e1, by simp [decDeclared_enc at_ bs h, e2]⟩

/-! ## 6. Binary codecs and database keys (db/schema.go, core/class.go, core/accessors.go) -/

/-- Block numbers, (number, index) pairs and the declared-class wrapper decode to what was encoded. -/
theorem binary_roundtrips (n i : Nat) (cls : Bytes) (hn : n < 18446744073709551616) (hi : i < 18446744073709551616) :
    decNumber (encNumber n) = some n ∧ decNumIndex (encNumIndex n i) = some (n, i) ∧
    decDeclared (encDeclared n cls) = some (n, cls) :=
  ⟨decNumber_enc n hn, decNumIndex_enc n i hn hi, decDeclared_enc n cls hn⟩

/-- `ClassCasmHashMetadata`: `UnmarshalBinary (MarshalBinary m) = m` for all four shapes (declared
with V2 / with V1, migrated or not). -/
theorem casm_metadata_roundtrip (m : CasmMeta) (hd : m.declaredAt < 18446744073709551616)
    (hm : m.migratedAt < 18446744073709551616) (h2 : m.v2.length = 32)
    (h1 : ∀ h, m.v1 = some h → h.length = 32) : CasmMeta.unmarshal m.marshal = some m :=
  casmMeta_roundtrip m hd hm h2 h1

/-- Keys: within a bucket two block numbers never share a key — neither with the 8-byte big-endian
keys (headers, state updates, commitments) nor with the variable-length CBOR keys of the
block-transactions bucket —, hash-keyed entries differ when the hashes differ, and keys of
different buckets differ. (That a read of record X returns what was written for X, among many
blocks, is `store_history_reads`, which uses these facts.) -/
theorem keys_injective (b b' n m : Nat) (s s' : Bytes) (hn : n < 18446744073709551616) (hm : m < 18446744073709551616) :
    (keyByNumber b n = keyByNumber b m → n = m) ∧
    (keyBlockTransactions n = keyBlockTransactions m → n = m) ∧
    (keyByHash b s = keyByHash b s' → s = s') ∧
    (b < 256 → b' < 256 → b ≠ b' → dbKey b s ≠ dbKey b' s') :=
  ⟨keyByNumber_inj b n m hn hm, keyBlockTransactions_inj n m hn hm, dbKey_suffix_inj b s s',
   fun h1 h2 h3 => dbKey_bucket_ne b b' s s' h1 h2 h3⟩

/-! ## 7. The store: several blocks, by-hash lookups, revert and reorg

`Store` = association list (most recent write first); `writeBlock` = the writes of
`writeBlockContent` in its order; `deleteBlock` = the deletes of `deleteBlockContent` +
`DeleteTransactionsAndReceipts`; readers = core/accessors.go incl. the two-step by-hash ones
(ModelStore.lean). `BlockRec.ok`: number and transaction count fit 64 bits, no duplicate
transaction hash / L1 message hash inside the block. `Indep a b`: different number and hash, no
shared transaction hash or L1 message hash. -/

/-- One block, any prior store: header by number and by hash, state update by number and by hash,
commitments, the blob, the (block, index) of every transaction hash, every L1 message hash. -/
theorem store_block_reads (s : Store) (b : BlockRec) (hok : b.ok) : Reads (writeBlock s b) b :=
  block_reads s b hok

/-- **Every block the node stores**: after any history of pairwise independent block writes, each
block of the history still reads back through every reader (induction over the history; uses the
injectivity of the key encodings). -/
theorem store_history_reads (bs : List BlockRec) (s : Store) (hok : ∀ b ∈ bs, b.ok) (hp : bs.Pairwise Indep) :
    ∀ a ∈ bs, Reads (writeAll s bs) a :=
  history_reads bs s hok hp

/-- Revert: nothing of the removed block resolves any more (by number, by block hash, by any of
its transaction hashes, by its L1 message hashes), independent blocks are untouched. -/
theorem store_revert (s : Store) (b : BlockRec) :
    getHeaderByNumber (deleteBlock s b) b.number = none ∧
    getHeaderByHash (deleteBlock s b) b.hash = none ∧
    getStateUpdateByHash (deleteBlock s b) b.hash = none ∧
    (∀ {α : Type} (dec : Bytes → Option α), ∀ th ∈ b.txHashes, getTxByHash dec (deleteBlock s b) th = .notFound) ∧
    (∀ m t, (m, t) ∈ b.l1 → getL1TxHash (deleteBlock s b) m = none) ∧
    (∀ a, a.number < 18446744073709551616 → b.number < 18446744073709551616 → Indep a b → Reads s a →
      Reads (deleteBlock s b) a) := by
  obtain ⟨h1, _, h3, h4, _, _, h7, h8, h9⟩ := delete_reads s b
  exact ⟨h1, h3, h4, h7, h8, h9⟩

/-- Reorg: the block stored in place of a removed one (same height allowed) reads back, and the
removed block's hash and transaction hashes are not-found — they never resolve to the new block. -/
theorem store_reorg (s : Store) (b b' : BlockRec) (hok : b'.ok) :
    Reads (writeBlock (deleteBlock s b) b') b' ∧
    (∀ {α : Type} (dec : Bytes → Option α), ∀ th ∈ b.txHashes, th ∉ b'.txHashes →
      getTxByHash dec (writeBlock (deleteBlock s b) b') th = .notFound) ∧
    (b.hash ≠ b'.hash → getHeaderByHash (writeBlock (deleteBlock s b) b') b.hash = none) := by
  obtain ⟨h1, _, h3, h4⟩ := replace_reads s b b' hok
  exact ⟨h1, h3, h4⟩

/-- Transaction and receipt BY HASH, end to end: typed transactions and receipts → blob bytes →
store → hash ↦ (block, index) ↦ blob ↦ item ↦ full decoder = what was stored. -/
theorem stored_transaction_by_hash (cfg : DecCfg) (s : Store) (b : BlockRec) (txs rcs : List GoVal) (hok : b.ok)
    (hblob : b.blob = (Blob.build (encItem tTransaction) (encItem tTransactionReceipt) txs rcs).marshal)
    (hlen : b.txHashes.length = txs.length)
    (hT : ∀ a ∈ txs, wt cfg tTransaction a = true ∧ fitsVal a = true)
    (hR : ∀ a ∈ rcs, wt cfg tTransactionReceipt a = true ∧ fitsVal a = true)
    (h1 : txs.length < 9223372036854775808) (h2 : rcs.length < 9223372036854775808)
    (h3 : (concatEnc (encItem tTransaction) txs ++ concatEnc (encItem tTransactionReceipt) rcs).length < 9223372036854775808)
    (i : Nat) (hi : i < txs.length) :
    getTxByHash (unmarshalVal cfg tTransaction) (writeBlock s b) (b.txHashes[i]'(hlen ▸ hi)) = .ok txs[i] ∧
    (∀ h : i < rcs.length,
      getRcByHash (unmarshalVal cfg tTransactionReceipt) (writeBlock s b) (b.txHashes[i]'(hlen ▸ hi)) = .ok rcs[i]) := by
  obtain ⟨_, _, _, r4, _, _, _, r8, _⟩ := block_reads s b hok
  have loc := r8 i (hlen ▸ hi)
  have rb := stored_block_readback cfg txs rcs hT hR h1 h2 h3 i
  constructor
  · simp only [getTxByHash, loc, r4, hblob]
    exact rb.1 hi
  · intro h
    simp only [getRcByHash, loc, r4, hblob]
    exact rb.2 h

/-! ### `felt.Slice`: the hand-written copy of the array header -/

/-- `encodeCBORArrayHeader` (core/felt/slice.go) writes the canonical head for every length that
fits `uint32`, `decodeCBORArrayHeader` reads it back, and at 2^32 the `uint32(len(s))` conversion
truncates (the explicit limit of the hand-written codec). -/
theorem felt_slice_header (n : Nat) (rest : Bytes) (h : n < 4294967296) :
    sliceHeader n = head 4 n ∧ decSliceHeader (sliceHeader n ++ rest) = some (n, (sliceHeader n).length) ∧
    sliceHeader 4294967296 ≠ head 4 4294967296 :=
  ⟨sliceHeader_eq_head n h, decSliceHeader_sliceHeader n rest h, sliceHeader_truncates.2⟩

/-! ## 8. Round 4: the glue between the modelled core and the public API

`ModelChain.lean` transcribes the extractors (`extractTransactionAndReceipt`, `extractAll…`),
the `uint64 → int` index conversion of the by-index accessors, `AllMapped` with its reused value,
`GetBlockByNumber` / `BlockByHash` / `Head` / `Receipt`, `DeleteTransactionsAndReceipts` and
`deleteBlockContent` as they are written — driven by the STORED header and blob —, `RevertHead`
and the chain-height bookkeeping. -/

/-- **By-index accessors take a `uint64`** and convert it with `int(index)`: on a stored block every
index below the count reads that item and EVERY other 64-bit value — including those `int()` turns
negative (≥ 2^63) — is `ErrKeyNotFound`; never a neighbour, never a wrapped-around item. -/
theorem stored_block_by_u64_index (cfg : DecCfg) (txs rcs : List GoVal)
    (hT : ∀ a ∈ txs, wt cfg tTransaction a = true ∧ fitsVal a = true)
    (hR : ∀ a ∈ rcs, wt cfg tTransactionReceipt a = true ∧ fitsVal a = true)
    (h1 : txs.length < 9223372036854775808) (h2 : rcs.length < 9223372036854775808)
    (h3 : (concatEnc (encItem tTransaction) txs ++ concatEnc (encItem tTransactionReceipt) rcs).length < 9223372036854775808)
    (u : Nat) (hu : u < 18446744073709551616) :
    let stored := (Blob.build (encItem tTransaction) (encItem tTransactionReceipt) txs rcs).marshal
    readBlob stored (fun b => b.getTxAt (unmarshalVal cfg tTransaction) u) =
      (if h : u < txs.length then .ok txs[u] else .notFound) ∧
    readBlob stored (fun b => b.getRcAt (unmarshalVal cfg tTransactionReceipt) u) =
      (if h : u < rcs.length then .ok rcs[u] else .notFound) ∧
    readBlob stored (fun b => b.getTxAndRcAt (unmarshalVal cfg tTransaction) (unmarshalVal cfg tTransactionReceipt) u) =
      (if h : u < txs.length ∧ u < rcs.length then .ok (txs[u]'h.1, rcs[u]'h.2) else .notFound) := by
  intro stored
  have key : ∀ (t : GoType) (a : GoVal), okType t = true → wt cfg t a = true →
      fitsVal a = true → unmarshalVal cfg t (encItem t a) = some a := by
    intro t a hok hw hf
    obtain ⟨bs, e1, e2⟩ := rt_bytes_fits cfg t a hok hw hf
    simp only [encItem, e1, Option.getD_some]
    exact e2
  have kT := fun a ha => key tTransaction a tables_ok.2.1 (hT a ha).1 (hT a ha).2
  have kR := fun a ha => key tTransactionReceipt a tables_ok.2.2.1 (hR a ha).1 (hR a ha).2
  have l1 : txs.length ≤ twoP63 := by unfold twoP63; omega
  have l2 : rcs.length ≤ twoP63 := by unfold twoP63; omega
  simp only [stored, readBlob, blob_unmarshal_marshal (encItem tTransaction) (encItem tTransactionReceipt) txs rcs h1 h2 h3]
  refine ⟨?_, ?_, getTxAndRcAt_build _ _ _ _ txs rcs kT kR l1 l2 u hu⟩
  · rw [getTxAt_build _ _ _ txs rcs l1 u hu]
    by_cases h : u < txs.length
    · simp only [h, dite_true]; exact getTx_build _ _ _ txs rcs kT u h
    · simp only [h, dite_false]; exact getTx_build_notFound _ _ _ txs rcs u (by omega)
  · rw [getRcAt_build _ _ _ txs rcs l2 u hu]
    by_cases h : u < rcs.length
    · simp only [h, dite_true]; exact getRc_build _ _ _ txs rcs kR u h
    · simp only [h, dite_false]; exact getRc_build_notFound _ _ _ txs rcs u (by omega)

/-- **Transaction hashes of a stored block** (`GetTransactionHashesByBlockNumber`: the by-value
hash projection mapped over the blob by `AllMapped`): when every stored transaction carries a
non-zero hash the accessor returns exactly the hashes, in order; if one of them is zero (or nil)
the accessor FAILS — it never returns a shorter or patched-up list. -/
theorem stored_block_tx_hashes (cfg : DecCfg) (txs rcs : List GoVal)
    (hT : ∀ a ∈ txs, (∃ i tv, a = .iface i tv) ∧ wt cfg tTransaction a = true ∧ fitsVal a = true)
    (h1 : txs.length < 9223372036854775808) (h2 : rcs.length < 9223372036854775808)
    (h3 : (concatEnc (encItem tTransaction) txs ++ concatEnc (encItem tTransactionReceipt) rcs).length < 9223372036854775808) :
    let stored := (Blob.build (encItem tTransaction) (encItem tTransactionReceipt) txs rcs).marshal
    ((∀ a ∈ txs, ∃ h, txHashField a = some h ∧ h ≠ .felt 0 0 0 0) →
      ∃ hs, readBlob stored (fun b => b.allTxHashes cfg) = .ok hs ∧ hs.length = txs.length ∧
        ∀ i (hi : i < txs.length) (hj : i < hs.length), txHashField txs[i] = some hs[i]) ∧
    ((∃ a ∈ txs, txHashField a = some (.felt 0 0 0 0)) →
      readBlob stored (fun b => b.allTxHashes cfg) = .decodeErr) := by
  intro stored
  have e : readBlob stored (fun b => b.allTxHashes cfg) =
      mapItems (fun j a => (txHashField a).bind (nonZeroHash j)) 0 txs := by
    simp only [stored, readBlob, blob_unmarshal_marshal (encItem tTransaction) (encItem tTransactionReceipt) txs rcs h1 h2 h3,
      Blob.allTxHashes, txSection_build]
    rw [sliceMap_tx_build]
    apply mapItems_congr
    intro a ha j
    obtain ⟨⟨i, tv, rfl⟩, hw, hf⟩ := hT a ha
    obtain ⟨bs, e1, e2⟩ := projHash_of_stored cfg i tv hw hf
    simp only [encItem, e1, Option.getD_some, e2]
  rw [e]
  constructor
  · intro hall
    refine ⟨txs.map (fun a => (txHashField a).getD .nil), ?_, by simp, ?_⟩
    · apply mapItems_all_some
      intro a ha j
      obtain ⟨h, e1, e2⟩ := hall a ha
      simp [e1, nonZeroHash_of_ne j h e2]
    · intro i hi hj
      obtain ⟨h, e1, _⟩ := hall txs[i] (List.getElem_mem hi)
      simp [e1]
  · rintro ⟨a, ha, hz⟩
    exact mapItems_fail _ txs 0 ⟨a, ha, fun j => by simp [hz, nonZeroHash]⟩

/-- **Events and execution status of a whole stored block** (`GetTransactionEventsByBlockNumber`
through `AllMapped`): the list of (Events, TransactionHash) of every stored receipt, in order —
same length as the receipts, entry `i` made of the two fields of receipt `i`. -/
theorem stored_block_events_all (cfg : DecCfg) (txs rcs : List GoVal)
    (hR : ∀ a ∈ rcs, wt cfg tTransactionReceipt a = true ∧ fitsVal a = true)
    (h1 : txs.length < 9223372036854775808) (h2 : rcs.length < 9223372036854775808)
    (h3 : (concatEnc (encItem tTransaction) txs ++ concatEnc (encItem tTransactionReceipt) rcs).length < 9223372036854775808) :
    ∃ es, readBlob (Blob.build (encItem tTransaction) (encItem tTransactionReceipt) txs rcs).marshal
        (fun b => b.allEvents cfg) = .ok es ∧ es.length = rcs.length ∧
      ∀ i (hi : i < rcs.length) (hj : i < es.length), eventsOf rcs[i] = some es[i] := by
  have e : readBlob (Blob.build (encItem tTransaction) (encItem tTransactionReceipt) txs rcs).marshal
      (fun b => b.allEvents cfg) = mapItems (fun _ a => eventsOf a) 0 rcs := by
    simp only [readBlob, blob_unmarshal_marshal (encItem tTransaction) (encItem tTransactionReceipt) txs rcs h1 h2 h3,
      Blob.allEvents]
    rw [sliceMap_rc_build]
    apply mapItems_congr
    intro a ha j
    obtain ⟨bs, e1, e2⟩ := rt_bytes_fits cfg tTransactionReceipt a (by decide) (hR a ha).1 (hR a ha).2
    obtain ⟨_, _, c, d⟩ := receipt_projections_agree cfg bs a e2
    simp only [encItem, e1, Option.getD_some, getTransactionEvents, c, d, eventsOf]
    cases getField tTransactionReceipt kEvents a <;> cases getField tTransactionReceipt kTransactionHash a <;> rfl
  rw [e]
  refine ⟨rcs.map (fun a => (eventsOf a).getD (.nil, .nil)), ?_, by simp, ?_⟩
  · apply mapItems_all_some
    intro a ha j
    obtain ⟨ev, hev⟩ := (receipt_fields_some cfg a (hR a ha).1).1
    simp [hev]
  · intro i hi hj
    obtain ⟨ev, hev⟩ := (receipt_fields_some cfg rcs[i] (hR _ (List.getElem_mem hi)).1).1
    simp [hev]

/-- **`AllMapped` / `Iter` decode every element into ONE reused value**; because that value is reset
to the zero value before each element (lazy_slice.go:73, :89) the result is the map of FRESH
decodes — for any decode-into function `decInto` (the CBOR library merges into what the value
already holds), any extractor `f`, any offsets and data. -/
theorem allmapped_reset_is_fresh {σ ρ : Type} (decInto : σ → Bytes → Option σ) (zero : σ) (f : Nat → σ → Option ρ)
    (idx : List Nat) (data : Bytes) :
    sliceAllMapped decInto zero f idx data = sliceMap (decInto zero) f idx data :=
  reuse_reset_eq decInto zero f idx data idx.length 0 zero

/-- Decoding into the ZERO value is the ordinary decode, for every flat struct of scalars (so
`allmapped_reset_is_fresh` instantiates to the execution-status projection the accessor uses). -/
theorem decode_into_zero_is_fresh (cfg : DecCfg) (fs : List (Bytes × Bool × GoType)) (kvs : List (Cbor × Cbor))
    (h : allScalar fs = true) : decodeFieldsInto cfg fs (zeroFields fs) kvs = decodeFields cfg fs kvs :=
  decodeFieldsInto_zero cfg fs kvs h

def rcReverted : Bytes := (Cbor.map [(.text kReverted, .simple 21), (.text kRevertReason, .text [0x78])]).encode
def rcOldFormat : Bytes := (Cbor.map [(.text [0x46, 0x65, 0x65], .simple 22)]).encode
def statusPairs : Res (List (List GoVal)) → Option (List (Bool × Bytes))
  | .ok vs => some (vs.filterMap (fun v => match v with | [.bool b, .str r] => some (b, r) | _ => none))
  | _ => none
/-- The stored receipts: #0 reverted with reason "x", #1 written before the two fields existed. With
the reset #1 reads (false, ""); WITHOUT it #1 inherits (true, "x") from its neighbour. -/
theorem allmapped_without_reset_leaks :
    statusPairs (sliceAllReuseFrom (statusInto ⟨false⟩) [.bool false, .str []] true (fun _ v => some v)
      [0, rcReverted.length] (rcReverted ++ rcOldFormat) [.bool false, .str []] 0 2) = some [(true, [0x78]), (false, [])] ∧
    statusPairs (sliceAllReuseFrom (statusInto ⟨false⟩) [.bool false, .str []] false (fun _ v => some v)
      [0, rcReverted.length] (rcReverted ++ rcOldFormat) [.bool false, .str []] 0 2) = some [(true, [0x78]), (true, [0x78])] := by
  decide

/-- **Whole block by number and by hash** (`GetBlockByNumber`, `Blockchain.BlockByHash`): on any
store from which block `b` reads back, with `b`'s blob holding the typed transactions and receipts
and `b`'s header bytes decoding to `hv`: the header and both lists, as stored. -/
theorem store_block_by_number_and_hash (cfg : DecCfg) (s : Store) (b : BlockRec) (hr : Reads s b) (hv : GoVal)
    (hH : unmarshalVal cfg tHeader b.header = some hv) (txs rcs : List GoVal)
    (hblob : b.blob = (Blob.build (encItem tTransaction) (encItem tTransactionReceipt) txs rcs).marshal)
    (hT : ∀ a ∈ txs, wt cfg tTransaction a = true ∧ fitsVal a = true)
    (hR : ∀ a ∈ rcs, wt cfg tTransactionReceipt a = true ∧ fitsVal a = true)
    (h1 : txs.length < 9223372036854775808) (h2 : rcs.length < 9223372036854775808)
    (h3 : (concatEnc (encItem tTransaction) txs ++ concatEnc (encItem tTransactionReceipt) rcs).length < 9223372036854775808) :
    getBlockByNumber (unmarshalVal cfg tHeader) (unmarshalVal cfg tTransaction) (unmarshalVal cfg tTransactionReceipt)
      s b.number = .ok (hv, txs, rcs) ∧
    getBlockByHash (unmarshalVal cfg tHeader) (unmarshalVal cfg tTransaction) (unmarshalVal cfg tTransactionReceipt)
      s b.hash = .ok (hv, txs, rcs) := by
  have key : ∀ (t : GoType) (a : GoVal), okType t = true → wt cfg t a = true →
      fitsVal a = true → unmarshalVal cfg t (encItem t a) = some a := by
    intro t a hok hw hf
    obtain ⟨bs, e1, e2⟩ := rt_bytes_fits cfg t a hok hw hf
    simp only [encItem, e1, Option.getD_some]
    exact e2
  apply getBlock_reads _ _ _ s b hr hv hH txs rcs
  rw [hblob]
  simp only [readBlob, blob_unmarshal_marshal (encItem tTransaction) (encItem tTransactionReceipt) txs rcs h1 h2 h3]
  exact allTxAndRc_build _ _ _ _ txs rcs
    (fun a ha => key tTransaction a tables_ok.2.1 (hT a ha).1 (hT a ha).2)
    (fun a ha => key tTransactionReceipt a tables_ok.2.2.1 (hR a ha).1 (hR a ha).2)

/-- **`Blockchain.Receipt`** (hash ↦ (number, index) ↦ receipt, then the block hash through the
header-hash projection): the stored receipt together with the hash and number of ITS block. -/
theorem receipt_by_hash_with_block {β : Type} (dec : Bytes → Option β) (hashOf : Bytes → Option Bytes) (s : Store)
    (b : BlockRec) (hr : Reads s b) (hh : hashOf b.header = some b.hash) (i : Nat) (hi : i < b.txHashes.length) (r : β)
    (hrc : readBlob b.blob (fun bl => bl.getRcAt dec i) = .ok r) :
    getReceiptByHash dec hashOf s b.txHashes[i] = .ok (r, b.hash, b.number) :=
  getReceiptByHash_reads dec hashOf s b hr hh i hi r hrc

/-- **The revert is driven by what is stored, and finds exactly what was written**:
`deleteBlockContent` reads the block hash out of the stored header (projection) and the
transaction / L1-message hashes out of the stored blob (full decoder, `Iter`); when those bytes say
what was written for `b` (`StoredAs`) the result is the specification of part 7 — every key of
`b` deleted — plus the chain-height bookkeeping (n−1, or deleted for genesis). -/
theorem revert_finds_stored_entries (hashOf : Bytes → Option Bytes) (txKeys : Bytes → Option TxKeys) (s : Store)
    (b : BlockRec) (hh : getHeaderByNumber s b.number = some b.header) (hb : getBlobByNumber s b.number = some b.blob)
    (hs : StoredAs hashOf txKeys b) :
    deleteBlockContent hashOf txKeys s b.number = .ok (revertBlockSpec s b) :=
  deleteBlockContent_eq hashOf txKeys s b hh hb hs

/-- … and the record the model derives from the stored bytes alone (`BlockRec.ofStored`: hash from
the header projection, index entries from the typed transactions of the blob) always satisfies
`StoredAs` for the typed readers the driver runs. -/
theorem derived_record_is_stored_as (cfg : DecCfg) (l1 : List (Bytes × Bytes)) (n : Nat) (hdr blob su comm : Bytes)
    (b : BlockRec) (h : BlockRec.ofStored cfg l1 n hdr blob su comm = some b) :
    b.number = n ∧ b.header = hdr ∧ b.blob = blob ∧ b.stateUpdate = su ∧ b.commitments = comm ∧
    StoredAs (hashOfHeader cfg) (txKeysTyped cfg l1) b :=
  ofStored_storedAs cfg l1 n hdr blob su comm b h

/-- **Every reachable state.** Start from the empty store; apply ANY sequence of `Store` (of a
well-formed block that follows the head and shares no hash with the chain) and `RevertHead`
operations. Then every block of the resulting chain reads back through every reader (by number, by
hash, transaction locations, L1 message hashes), the chain height is the head's number, and
`RevertHead` as the code runs it (everything looked up in the store) performs exactly the model's
revert step. Induction over the operation list. -/
theorem chain_reachable_reads (ops : List ChainOp) (hv : validOps [] ops) :
    let st := runOps ([], []) ops
    (∀ a ∈ st.2, Reads st.1 a) ∧
    (∀ b rest, st.2 = b :: rest → getChainHeight st.1 = some b.number ∧ getHeadsHeader st.1 = some b.header) ∧
    (∀ b rest hashOf txKeys, st.2 = b :: rest → StoredAs hashOf txKeys b →
      revertHead hashOf txKeys st.1 = .ok (runOp st .revert).1) := by
  intro st
  have hi : ChainInv st.1 st.2 := chainInv_ops ops ([], []) chainInv_empty hv
  refine ⟨hi.reads, ?_, ?_⟩
  · intro b rest h
    have hi' : ChainInv st.1 (b :: rest) := h ▸ hi
    exact ⟨hi.height b rest h, (getHead_inv (fun _ => some ()) (fun (_ : Bytes) => some ()) (fun (_ : Bytes) => some ()) st.1 b rest hi').2⟩
  · intro b rest hashOf txKeys h hs
    have hi' : ChainInv st.1 (b :: rest) := h ▸ hi
    have := revertHead_eq hashOf txKeys st.1 b rest hi' hs
    rw [this]
    have : st = (st.1, b :: rest) := by rw [← h]
    rw [this]

/-- After the revert step nothing of the removed head resolves (by number, by block hash, by any of
its transaction hashes, by its L1 message hashes) — the height bookkeeping does not bring it back. -/
theorem revert_removes_head (s : Store) (b : BlockRec) :
    getHeaderByNumber (revertBlockSpec s b) b.number = none ∧
    getHeaderByHash (revertBlockSpec s b) b.hash = none ∧
    getStateUpdateByHash (revertBlockSpec s b) b.hash = none ∧
    getBlobByNumber (revertBlockSpec s b) b.number = none ∧
    (∀ {α : Type} (dec : Bytes → Option α), ∀ th ∈ b.txHashes, getTxByHash dec (revertBlockSpec s b) th = .notFound) ∧
    (∀ m t, (m, t) ∈ b.l1 → getL1TxHash (revertBlockSpec s b) m = none) :=
  revert_removes s b

/-! ## 9. Round 4: range deletes between ENCODED keys (db/typed/prefix `DeleteRange`, pruner)

`PruneBlockDataUpto` and the history-pruner migration delete whole ranges of blocks with one
`DeleteRange(startKey, endKey)` per bucket, the bounds being the encodings of two block numbers:
8-byte big-endian for headers / commitments / state updates, canonical CBOR — 1, 2, 3, 5 or 9 bytes
— for the block-transactions bucket. The database compares keys bytewise. -/

/-- **Both key encodings are order-preserving**: bytewise comparison of the encoded keys is
numeric comparison of the block numbers, for all 64-bit numbers — across every width boundary of
the CBOR head (23|24, 255|256, 65535|65536, 2^32). -/
theorem key_encodings_order_preserving (b n m : Nat) (hn : n < 18446744073709551616) (hm : m < 18446744073709551616) :
    bytesLt (keyByNumber b n) (keyByNumber b m) = decide (n < m) ∧
    bytesLt (keyBlockTransactions n) (keyBlockTransactions m) = decide (n < m) :=
  ⟨bytesLt_keyByNumber b n m hn hm, bytesLt_keyBlockTransactions n m hn hm⟩

/-- `PruneBlockDataUpto(end)`, bucket by bucket: commitments, state update and block transactions
of block `n` are gone iff `n < end`; the header iff `n + BlockHashLag < end` (the carve-out the
`get_block_hash` syscall needs); what is not gone is untouched. -/
theorem prune_block_data_exact (s : Store) (endx n : Nat) (he : endx < 18446744073709551616) (hn : n < 18446744073709551616) :
    getCommitmentsByNumber (pruneBlockDataUpto s endx) n = (if n < endx then none else getCommitmentsByNumber s n) ∧
    getStateUpdateByNumber (pruneBlockDataUpto s endx) n = (if n < endx then none else getStateUpdateByNumber s n) ∧
    getHeaderByNumber (pruneBlockDataUpto s endx) n = (if n + blockHashLag < endx then none else getHeaderByNumber s n) ∧
    getBlobByNumber (pruneBlockDataUpto s endx) n = (if n < endx then none else getBlobByNumber s n) :=
  prune_get_byNumber s endx n he hn

/-- … and every block at or above the bound still reads back through every reader (by number, by
hash, transaction locations, L1 message hashes). -/
theorem prune_keeps_retained_blocks (s : Store) (endx : Nat) (a : BlockRec) (he : endx < 18446744073709551616)
    (ha : a.number < 18446744073709551616) (hge : endx ≤ a.number) (hr : Reads s a) :
    Reads (pruneBlockDataUpto s endx) a :=
  prune_keeps s endx a he ha hge hr

/-- **The history-pruner migration — a second writer of the reverse lookups — keeps every retained
block readable through every reader.** The migration prunes below the cutoff (range deletes), WIPES
the hash → number, transaction-hash → (number, index) and L1-message → transaction-hash buckets,
re-seeds the entry of the block just below the cutoff from its header, and its restorer rebuilds
the entries of blocks `floor … height` from the stored state updates (block hash) and stored blobs
(its own copy of the index loop of `WriteTransactionsAndReceipts` / `WriteL1HandlerMsgHashes`).
For ANY store in which the retained blocks read back (`kept`: the blocks in order, each with what
its stored blob decodes to), the migration succeeds and every retained block STILL reads back — by
number, by hash, every transaction location (so an L1 handler anywhere in a block does not shift
its neighbours), every L1 message hash. By induction over the retained blocks. -/
theorem history_pruner_migration_keeps_retained (hdrHash suHash : Bytes → Option Bytes) (txKeys : Bytes → Option TxKeys)
    (s : Store) (floor height : Nat) (c : BlockRec) (h : Bytes) (kept : List (BlockRec × List TxKeys))
    (hfl : 1 ≤ floor) (hfh : floor ≤ height) (hc : getHeaderByNumber s (floor - 1) = some c.header)
    (hch : hdrHash c.header = some h) (hlen : floor + kept.length = height + 1) (hh : height < 18446744073709551616)
    (hnum : ∀ i (hi : i < kept.length), kept[i].1.number = floor + i)
    (hall : ∀ p ∈ kept, p.1.ok ∧ Reads s p.1 ∧ suHash p.1.stateUpdate = some p.1.hash ∧ RestoresAs txKeys p.1 p.2)
    (hpw : (kept.map (·.1)).Pairwise Indep) :
    ∃ s', hpMigrate hdrHash suHash txKeys s floor height = .ok s' ∧ ∀ p ∈ kept, Reads s' p.1 :=
  hpMigrate_keeps hdrHash suHash txKeys s floor height c h kept hfl hfh hc hch hlen hh hnum hall hpw

/-! ## 10. Round 5: databases written by an EARLIER binary, and the code that upgrades them

`ModelLayout.lean` transcribes `dbutils.UpperBound`, the prefix scan of `db/typed/prefix`
(`NewIterator(prefix, withUpperBound)`: the live entries of `[prefix, UpperBound(prefix))` in key
order), the per-transaction layout of earlier binaries (buckets 10 / 11, key = bucket ‖ be64(number) ‖
be64(index); `txlayout.TransactionLayoutPerTx`) and `blocktransactions.Migrator.Migrate`
(`ingestBlock` + `validateCount`, ranges of 10 blocks, `deleteOldBlockRangeData`,
`backfillEmptyBlocks`, `clearOldBuckets`). -/

/-- **A prefix scan visits exactly the keys that carry the prefix** — also when the prefix ends in
0xff bytes (`UpperBound` drops them and increments the byte before) and when it is all 0xff or empty
(no upper bound): the iterator's range `[prefix, UpperBound(prefix))` = the keys with that prefix. -/
theorem prefix_scan_range_is_the_prefix (p k : Bytes) : inIterRange p k = isPrefix p k :=
  inIterRange_eq_isPrefix p k

/-- **`scan` returns the live entries under the prefix, each once, in strictly increasing key
order** — and is the only such list (so any reader that consumes it positionally, like the
per-transaction layout's, sees index order). -/
theorem prefix_scan_returns_live_entries_in_key_order (s : Store) (p : Bytes) :
    (∀ k v, (k, v) ∈ s.scan p ↔ isPrefix p k = true ∧ s.get k = some v) ∧
    (s.scan p).Pairwise (fun a b => bytesLt a.1 b.1 = true) ∧
    (∀ l : List (Bytes × Bytes), l.Pairwise (fun a b => bytesLt a.1 b.1 = true) →
      (∀ k v, (k, v) ∈ l ↔ isPrefix p k = true ∧ s.get k = some v) → s.scan p = l) :=
  ⟨mem_scan s p, scan_sorted s p, scan_unique s p⟩

/-- **What an earlier binary stored, its readers return** (`TransactionLayoutPerTx`): after the old
writer put a block's items one per key, the block's scans return the transactions and the first
`len(txs)` receipts in index order — whatever other blocks the store holds (block numbers whose
big-endian form ends in 0xff included) —, by-index reads return item `i`, and no bucket other than
9 / 10 / 11 changed. -/
theorem old_layout_write_then_read (s : Store) (n : Nat) (hs txs rcs : List Bytes) (hlen : txs.length ≤ rcs.length)
    (hl : rcs.length ≤ 18446744073709551616)
    (h10 : OldItems s bTxsByNumIdx n []) (h11 : OldItems s bRcsByNumIdx n []) :
    ∃ s', writePerTx s n hs txs rcs = .ok s' ∧
      scanBlockValues s' bTxsByNumIdx n = txs ∧ scanBlockValues s' bRcsByNumIdx n = rcs.take txs.length ∧
      (∀ i (hi : i < txs.length), getPerTxItem s' bTxsByNumIdx n i = some txs[i] ∧
        getPerTxItem s' bRcsByNumIdx n i = some (rcs[i]'(by omega))) ∧
      (∀ b suf, b ≠ UInt8.ofNat bTxIndexByHash → b ≠ UInt8.ofNat bTxsByNumIdx → b ≠ UInt8.ofNat bRcsByNumIdx →
        s'.get (b :: suf) = s.get (b :: suf)) := by
  obtain ⟨s', h1, h2, h3, h4, h5, h6⟩ := writePerTx_old_items s n hs txs rcs hlen hl h10 h11
  refine ⟨s', h1, h4, h5, ?_, h6⟩
  intro i hi
  refine ⟨h2.1 i hi, ?_⟩
  have := h3.1 i (by simp; omega)
  simpa [getPerTxItem] using this

/-- The scan of ANY block held in the old layout (items `0 … len-1` under its prefix and nothing else
under it) returns the items in index order. -/
theorem old_layout_block_scan (s : Store) (bucket n : Nat) (vals : List Bytes) (h : OldItems s bucket n vals)
    (hl : vals.length ≤ 18446744073709551616) : scanBlockValues s bucket n = vals :=
  scan_old_items s bucket n vals h hl

/-- **The upgrade of one block** (`ingestor.ingestBlock`): a block held in the old layout as the
encodings of typed transactions and receipts, with a header count that agrees, gets EXACTLY the
combined entry `WriteTransactionsAndReceipts` stores for those transactions and receipts — the
`stored` bytes every blob theorem above (`stored_block_readback`, `stored_block_by_u64_index`,
`stored_block_all`, `stored_block_tx_hashes`, …) is about. -/
theorem migration_ingests_old_block (cfg : DecCfg) (txCount : Bytes → Option Nat) (s : Store) (n c : Nat)
    (txs rcs : List GoVal) (hb : Bytes)
    (hT : ∀ a ∈ txs, wt cfg tTransaction a = true ∧ fitsVal a = true)
    (hR : ∀ a ∈ rcs, wt cfg tTransactionReceipt a = true ∧ fitsVal a = true)
    (hh : getHeaderByNumber s n = some hb) (hc : txCount hb = some c) (hc63 : c < 9223372036854775808)
    (ht : OldItems s bTxsByNumIdx n (txs.map (encItem tTransaction)))
    (hr : OldItems s bRcsByNumIdx n (rcs.map (encItem tTransactionReceipt)))
    (hlt : txs.length = c) (hlr : rcs.length = c) (hnb : getBlobByNumber s n = none) :
    ingestBlock txCount s n = .ok (s.put (keyBlockTransactions n)
      (Blob.build (encItem tTransaction) (encItem tTransactionReceipt) txs rcs).marshal) := by
  have ne : ∀ (t : GoType) (a : GoVal), okType t = true → wt cfg t a = true → fitsVal a = true → encItem t a ≠ [] := by
    intro t a hok hw hf
    obtain ⟨bs, e1, e2⟩ := rt_bytes_fits cfg t a hok hw hf
    simp only [encItem, e1, Option.getD_some]
    intro hnil
    rw [hnil] at e2
    simp [unmarshalVal, decodeAll, decodeFirst, decode] at e2
  rw [ingestBlock_old txCount s n c _ _ hb hh hc hc63 ht hr (by simpa using hlt) (by simpa using hlr) hnb,
    build_raw_eq (encItem tTransaction) (encItem tTransactionReceipt) txs rcs
      (fun a ha => ne _ a tables_ok.2.1 (hT a ha).1 (hT a ha).2)
      (fun a ha => ne _ a tables_ok.2.2.1 (hR a ha).1 (hR a ha).2)]

/-- A block an interrupted earlier run already migrated (no old entries, combined entry present) is
left exactly as it is; a header count that disagrees with the stored entries makes the upgrade
REFUSE (it never writes an entry that contradicts the header). -/
theorem migration_keeps_migrated_and_refuses_mismatch (txCount : Bytes → Option Nat) (s : Store) (n c : Nat) (hb : Bytes)
    (hh : getHeaderByNumber s n = some hb) (hc : txCount hb = some c) :
    (∀ blob, OldItems s bTxsByNumIdx n [] → OldItems s bRcsByNumIdx n [] → getBlobByNumber s n = some blob →
      ingestBlock txCount s n = .ok s) ∧
    (∀ txs rcs, c < 9223372036854775808 → OldItems s bTxsByNumIdx n txs → OldItems s bRcsByNumIdx n rcs →
      txs.length < 9223372036854775808 → rcs.length < 9223372036854775808 → (txs.length ≠ c ∨ rcs.length ≠ c) →
      getBlobByNumber s n = none → ingestBlock txCount s n = .decodeErr) :=
  ⟨fun blob h1 h2 h3 => ingestBlock_already_migrated txCount s n c hb blob hh hc h1 h2 h3,
   fun txs rcs h0 h1 h2 h3 h4 h5 h6 => ingestBlock_count_disagrees txCount s n c txs rcs hb hh hc h0 h1 h2 h3 h4 h5 h6⟩

/-- **One pass of the upgrade over any mix of old and already migrated blocks** (`migrateBlockRange`,
ranges of `batchSize = 10`, any `first ≤ height`): it succeeds; every old block's combined entry is
the blob of its raw items, every migrated block keeps its entry; nothing is left under the old
prefixes of the range; blocks outside the range and every other bucket are untouched; nothing
appears in the old buckets. Induction over the ranges and, inside, over the blocks. -/
theorem migration_pass_any_mix (txCount : Bytes → Option Nat) (D : Nat → Option (List Bytes × List Bytes)) (s : Store)
    (first h : Nat) (hh : h + 1 < 18446744073709551616)
    (hst : ∀ m, first ≤ m → m ≤ h → BlockState txCount D s m) :
    ∃ s', migratePass txCount s first h = .ok s' ∧ PassPost D s s' first h :=
  passLoop_spec txCount D _ s first h hh (by intro _; simp only [batchSize]; omega) hst

/-- **The whole upgrade** (`Migrator.Migrate`): see `btLoop_spec`. Every old block `first … h` ends
with the combined entry of its raw items, migrated blocks keep theirs, retained blocks below `first`
that have no entry get the empty blob, the old buckets end empty, and EVERY OTHER BUCKET — headers,
hash → number, transaction hash → (number, index), state updates, commitments, L1 message hashes,
chain height — IS UNTOUCHED (so every by-number / by-hash reader of parts 7–9 reads what it read
before, now through the combined entry). -/
theorem block_transactions_migration_upgrades_database (txCount txCountP : Bytes → Option Nat)
    (D : Nat → Option (List Bytes × List Bytes)) (s : Store) (first h o fuel : Nat) (oo : Option Nat) (hfuel : 2 ≤ fuel)
    (hh : h + 1 < 18446744073709551616) (hfh : first ≤ h) (hof : o ≤ first)
    (hheight : getChainHeight s = some h)
    (hfirst : firstBlockToMigrate s = .ok (some first))
    (hold : oldestRetained s = .ok oo) (ho : oo.getD 0 = o)
    (hst : ∀ m, first ≤ m → m ≤ h → BlockState txCount D s m)
    (hcover : ∀ b suf, (b = bTxsByNumIdx ∨ b = bRcsByNumIdx) → s.get (dbKey b suf) ≠ none →
      ∃ n x, first ≤ n ∧ n ≤ h ∧ dbKey b suf = prefixNum b n ++ x)
    (hlow : ∀ m, o ≤ m → m < first → (getBlobByNumber s m).isSome = true ∨
      ∃ hb, getHeaderByNumber s m = some hb ∧ txCountP hb = some 0) :
    ∃ s', btMigrate txCount txCountP s fuel = .ok s' ∧
      (∀ n, first ≤ n → n ≤ h → getBlobByNumber s' n = (match newBlob D n with | some b => some b | none => getBlobByNumber s n)) ∧
      (∀ n, o ≤ n → n < first → getBlobByNumber s' n = (match getBlobByNumber s n with | some b => some b | none => some emptyBlob)) ∧
      (∀ b suf, (b = bTxsByNumIdx ∨ b = bRcsByNumIdx) → s'.get (dbKey b suf) = none) ∧
      (∀ b' suf, b' < 256 → b' ≠ bTxsByNumIdx → b' ≠ bRcsByNumIdx → b' ≠ bBlockTransactions →
        s'.get (dbKey b' suf) = s.get (dbKey b' suf)) := by
  simp only [btMigrate, hheight]
  exact btLoop_spec txCount txCountP D s first h o fuel oo hfuel hh hfh hof hfirst hold ho hst hcover hlow

/-- … composed with the blob theorems: after the upgrade a block that was held in the old layout
as typed transactions and receipts reads back through the by-index accessors of the COMBINED layout
— item `u` for every index below the count, `ErrKeyNotFound` for every other 64-bit value. -/
theorem upgraded_block_reads_back (cfg : DecCfg) (s' : Store) (D : Nat → Option (List Bytes × List Bytes)) (n : Nat)
    (txs rcs : List GoVal)
    (hD : D n = some (txs.map (encItem tTransaction), rcs.map (encItem tTransactionReceipt)))
    (hblob : getBlobByNumber s' n = (match newBlob D n with | some b => some b | none => none))
    (hT : ∀ a ∈ txs, wt cfg tTransaction a = true ∧ fitsVal a = true)
    (hR : ∀ a ∈ rcs, wt cfg tTransactionReceipt a = true ∧ fitsVal a = true)
    (h1 : txs.length < 9223372036854775808) (h2 : rcs.length < 9223372036854775808)
    (h3 : (concatEnc (encItem tTransaction) txs ++ concatEnc (encItem tTransactionReceipt) rcs).length < 9223372036854775808)
    (u : Nat) (hu : u < 18446744073709551616) :
    ∃ stored, getBlobByNumber s' n = some stored ∧
      readBlob stored (fun b => b.getTxAt (unmarshalVal cfg tTransaction) u) =
        (if h : u < txs.length then .ok txs[u] else .notFound) ∧
      readBlob stored (fun b => b.getRcAt (unmarshalVal cfg tTransactionReceipt) u) =
        (if h : u < rcs.length then .ok rcs[u] else .notFound) := by
  have ne : ∀ (t : GoType) (a : GoVal), okType t = true → wt cfg t a = true → fitsVal a = true → encItem t a ≠ [] := by
    intro t a hok hw hf
    obtain ⟨bs, e1, e2⟩ := rt_bytes_fits cfg t a hok hw hf
    simp only [encItem, e1, Option.getD_some]
    intro hnil
    rw [hnil] at e2
    simp [unmarshalVal, decodeAll, decodeFirst, decode] at e2
  have hb : newBlob D n = some (Blob.build (encItem tTransaction) (encItem tTransactionReceipt) txs rcs).marshal := by
    simp only [newBlob, hD, Option.map_some]
    rw [build_raw_eq (encItem tTransaction) (encItem tTransactionReceipt) txs rcs
      (fun a ha => ne _ a tables_ok.2.1 (hT a ha).1 (hT a ha).2)
      (fun a ha => ne _ a tables_ok.2.2.1 (hR a ha).1 (hR a ha).2)]
  rw [hb] at hblob
  have := stored_block_by_u64_index cfg txs rcs hT hR h1 h2 h3 u hu
  exact ⟨_, hblob, this.1, this.2.1⟩

/-! ## 11. Round 6: the compiled-class hash of a declared class, at every height

`ModelCasm.lean` transcribes the methods of `core.ClassCasmHashMetadata` (`CasmHash`, `CasmHashAt`,
`Migrate`, `Unmigrate`, `IsMigrated(At)`, `IsDeclaredWithV2`), the bucket accessors, what a block
does to the bucket (`storeCasmHashMetadata`, both protocol paths; `revertCasmHashMetadata`) and the
three readers on top (`StateReader.CompiledClassHash`, `CompiledClassHashV2`, `CompiledClassHashAt` /
`stateHistory.CompiledClassHash`). "Declared classes … return values equal to what was stored": the
hash a block declared for a class is what every reader returns for the heights at which it was in
force — also after a later block migrated the class, and after a reorg. -/

/-- **The three periods of a class declared with the V1 hash at `d` and migrated at `k`**: not found
below `d`, the declared (V1) hash on `[d, k)`, the V2 hash from `k` on; the head reader returns V2;
un-migrating gives back exactly the declared record. Un-migrated and V2-declared records have two
periods. For every height `h`. -/
theorem casm_hash_timeline (d k : Nat) (v1 v2 : Bytes) (hk : d < k) (h : Nat) :
    ∃ m, (CasmMeta.declaredV1 d v1 v2).migrate k = .ok m ∧
      m.casmHashAt h = (if h < d then none else if h < k then some v1 else some v2) ∧
      m.casmHash = v2 ∧ m.unmigrate = .ok (CasmMeta.declaredV1 d v1 v2) ∧
      (CasmMeta.declaredV1 d v1 v2).casmHashAt h = (if h < d then none else some v1) ∧
      (CasmMeta.declaredV1 d v1 v2).casmHash = v1 ∧
      (CasmMeta.declaredV2 d v2).casmHashAt h = (if h < d then none else some v2) ∧
      (CasmMeta.declaredV2 d v2).casmHash = v2 := by
  have hm : (CasmMeta.declaredV1 d v1 v2).migrate k = .ok { CasmMeta.declaredV1 d v1 v2 with migratedAt := k } :=
    (migrate_ok_iff _ k _).mpr ⟨by simp [CasmMeta.declaredV1], hk, rfl, rfl⟩
  obtain ⟨a, b, c⟩ := migrated_hashes (CasmMeta.declaredV1 d v1 v2) k (by simp [CasmMeta.declaredV1]) hk rfl h
  have c' := c v1 rfl
  have hd2 := declMeta_hashes true d ⟨[], v2, true, []⟩ h
  refine ⟨_, hm, ?_, b, unmigrate_migrate _ _ k hm, c', by simp [CasmMeta.declaredV1, CasmMeta.casmHash, CasmMeta.isMigrated],
    hd2.1, hd2.2.1⟩
  rw [a, c']
  by_cases h1 : h < d
  · have : h < k := by omega
    simp [h1, this, CasmMeta.declaredV1]
  · simp [h1, CasmMeta.declaredV1]

/-- **`Migrate` / `Unmigrate` succeed exactly when they should**: migration needs a V1 hash, a height
strictly after the declaration and no earlier migration, and changes only `migratedAt`; each refusal
has its own error, in the code's order; `Unmigrate` undoes a successful `Migrate` exactly. -/
theorem casm_migrate_refusals (m : CasmMeta) (a : Nat) :
    (∀ m', m.migrate a = .ok m' ↔ (m.v1 ≠ none ∧ m.declaredAt < a ∧ m.migratedAt = 0 ∧ m' = { m with migratedAt := a })) ∧
    (m.v1 = none → m.migrate a = .error .v2Declared) ∧
    (m.v1 ≠ none → a ≤ m.declaredAt → m.migrate a = .error .beforeDeclared) ∧
    (m.v1 ≠ none → m.declaredAt < a → m.migratedAt > 0 → m.migrate a = .error .alreadyMigrated) ∧
    (m.migratedAt = 0 → m.unmigrate = .error .notMigrated) ∧
    (∀ m', m.migrate a = .ok m' → m'.unmigrate = .ok m) :=
  ⟨migrate_ok_iff m a, (migrate_error m a).1, (migrate_error m a).2.1, (migrate_error m a).2.2, (unmigrate_spec m).2,
   fun m' h => unmigrate_migrate m m' a h⟩

/-- **Every record the node can reach** — a declared record (either constructor) after ANY sequence
of migrations, un-migrations (refused ones included) and write / read-back round trips — is stored
and read back unchanged, keeps its declaration height and both hashes, and answers `CasmHashAt` by
the three periods; from the later of declaration and migration on, `CasmHashAt` agrees with the head
reader `CasmHash`. Induction over the operation list. -/
theorem casm_reachable_records (m0 : CasmMeta) (ops : List CasmOp) (h : Nat)
    (h0 : (∃ d v1 v2, m0 = CasmMeta.declaredV1 d v1 v2 ∧ v1.length = 32) ∨ (∃ d v2, m0 = CasmMeta.declaredV2 d v2))
    (hd : m0.declaredAt < 18446744073709551616) (h2 : m0.v2.length = 32)
    (ho : ∀ a, CasmOp.migrate a ∈ ops → a < 18446744073709551616) :
    let m := m0.applyAll ops
    CasmMeta.unmarshal m.marshal = some m ∧ m.declaredAt = m0.declaredAt ∧ m.v1 = m0.v1 ∧ m.v2 = m0.v2 ∧
    (m.migratedAt > 0 → m0.v1 ≠ none ∧ m0.declaredAt < m.migratedAt) ∧
    m.casmHashAt h =
      (if h < m0.declaredAt then none
       else match m0.v1 with
         | none => some m0.v2
         | some h1 => if m.migratedAt = 0 ∨ h < m.migratedAt then some h1 else some m0.v2) ∧
    (m0.declaredAt ≤ h → m.migratedAt ≤ h → m.casmHashAt h = some m.casmHash) := by
  have hs : m0.SizesOK ∧ m0.Inv := by
    rcases h0 with ⟨d, v1, v2, e, hl⟩ | ⟨d, v2, e⟩
    · subst e
      refine ⟨⟨hd, by simp [CasmMeta.declaredV1], h2, ?_⟩, ?_, ?_⟩
      · intro x hx; simp [CasmMeta.declaredV1] at hx; subst hx; exact hl
      · intro hx; simp [CasmMeta.declaredV1] at hx
      · intro hx; simp [CasmMeta.declaredV1] at hx
    · subst e
      refine ⟨⟨hd, by simp [CasmMeta.declaredV2], h2, ?_⟩, ?_, ?_⟩
      · intro x hx; simp [CasmMeta.declaredV2] at hx
      · intro _; rfl
      · intro hx; simp [CasmMeta.declaredV2] at hx
  obtain ⟨a1, a2, a3, a4, a5⟩ := applyAll_keeps ops m0 hs.1 hs.2 ho
  intro m
  refine ⟨CasmMeta.reload_id _ a1, a3, a4, a5, ?_, ?_, fun q1 q2 => casmHash_eq_at _ h (by rw [a3]; exact q1) q2⟩
  · intro hp
    refine ⟨?_, ?_⟩
    · intro hv
      have hz : (m0.applyAll ops).migratedAt = 0 := a2.1 (a4.trans hv)
      have hp' : (m0.applyAll ops).migratedAt > 0 := hp
      omega
    · have := a2.2 hp
      rw [a3] at this
      exact this
  · have := casmHashAt_periods (m0.applyAll ops) h
    rw [a3, a4, a5] at this
    exact this

/-- **What a block declares is what the readers return** (`storeCasmHashMetadata`, both protocol
paths, then `CompiledClassHash(At|V2)`): after block `n` is stored, every class it declares is not
found below `n` and has the DECLARED hash from `n` on (and at the head); every class it migrates
keeps every answer it gave below `n` and has its V2 hash from `n` on; the records of all other
classes, and every other bucket, are untouched. For any diff with distinct class hashes. -/
theorem casm_block_store_reads (isV2 : Bool) (r w w' : Store) (n : Nat) (d : CasmDiff)
    (hn : n < 18446744073709551616) (hnd : d.keys.Nodup)
    (hsz : ∀ e ∈ d.declared, e.casm.length = 32 ∧ e.v2computed.length = 32)
    (hok : storeCasm isV2 r w n d = .ok w') :
    (∀ e ∈ d.declared, e.defOk = true ∧
      (∀ x, compiledClassHashAt w' e.classHash x = if x < n then none else some e.casm) ∧
      compiledClassHash w' e.classHash = some e.casm ∧
      compiledClassHashV2 w' e.classHash = some (if isV2 then e.casm else e.v2computed)) ∧
    (isV2 = true → ∀ h ∈ d.migrated, ∃ m h1, getCasmMeta r h = .ok m ∧ m.v1 = some h1 ∧ m.declaredAt < n ∧
      (∀ x, compiledClassHashAt w' h x = if x < n then compiledClassHashAt r h x else some m.v2) ∧
      (∀ x, x < n → compiledClassHashAt w' h x = if x < m.declaredAt then none else some h1) ∧
      compiledClassHash w' h = some m.v2) ∧
    (∀ k, k ∉ (writtenKeys isV2 d).map keyCasm → w'.get k = w.get k) := by
  obtain ⟨r1, r2, r3⟩ := storeCasm_reads isV2 r w w' n d hn hnd hsz (fun h _ m hg => getCasmMeta_sizes r h m hg) hok
  refine ⟨?_, ?_, r3⟩
  · intro e he
    obtain ⟨a, b⟩ := r1 e he
    refine ⟨a, ?_, ?_, ?_⟩
    · intro x; simp only [compiledClassHashAt, b]; exact (declMeta_hashes isV2 n e x).1
    · simp only [compiledClassHash, b]; rw [(declMeta_hashes isV2 n e 0).2.1]
    · simp only [compiledClassHashV2, b]; rw [(declMeta_hashes isV2 n e 0).2.2]
  · intro hv h hh
    obtain ⟨m, a, b, c, e, f⟩ := r2 hv h hh
    cases hv1 : m.v1 with
    | none => exact absurd hv1 b
    | some h1 =>
      refine ⟨m, h1, a, hv1, c, ?_, ?_, ?_⟩
      · intro x
        simp only [compiledClassHashAt, f, a]
        exact (migrated_hashes m n b c e x).1
      · intro x hx
        simp only [compiledClassHashAt, f]
        rw [(migrated_hashes m n b c e x).1, (migrated_hashes m n b c e x).2.2 h1 hv1]
        simp [hx]
      · simp only [compiledClassHash, f]
        rw [(migrated_hashes m n b c e 0).2.1]

/-- **A reorg puts the bucket back**: `revertCasmHashMetadata` of the block just stored succeeds and
every class reads exactly as before the block (declared classes are gone again, migrated classes are
un-migrated), all other keys untouched. (`habs`: a block never declares a class that already has a
record — `State.Update` refuses re-declarations; `hv1`: blocks below 0.14.1 carry no migrations.) -/
theorem casm_revert_restores (isV2 : Bool) (s s' : Store) (n : Nat) (d : CasmDiff)
    (hn : n < 18446744073709551616) (hnd : d.keys.Nodup)
    (hsz : ∀ e ∈ d.declared, e.casm.length = 32 ∧ e.v2computed.length = 32)
    (hv1 : isV2 = false → d.migrated = [])
    (habs : ∀ e ∈ d.declared, s.get (keyCasm e.classHash) = none)
    (hok : storeCasm isV2 s s n d = .ok s') :
    ∃ s'', revertCasm s' s' d = .ok s'' ∧
      (∀ h x, compiledClassHashAt s'' h x = compiledClassHashAt s h x ∧ compiledClassHash s'' h = compiledClassHash s h ∧
        compiledClassHashV2 s'' h = compiledClassHashV2 s h) ∧
      (∀ k, k ∉ d.keys.map keyCasm → s''.get k = s.get k) := by
  obtain ⟨s'', a, b, c⟩ := revertCasm_restores isV2 s s' n d hn hnd hsz (fun h _ m hg => getCasmMeta_sizes s h m hg) hv1 habs hok
  refine ⟨s'', a, ?_, c⟩
  intro h x
  simp only [compiledClassHashAt, compiledClassHash, compiledClassHashV2, b h]
  exact ⟨trivial, trivial, trivial⟩

/-- **The history is append-only** — lifted over ALL chains: store any blocks `n, n+1, …` (any mix of
protocol paths, declarations and migrations; each block valid in the state it is stored on: distinct
class hashes, declared classes without a record yet), split the list anywhere: what the historical
reader answers for a height covered by the first part is, after ALL blocks, exactly what it answered
right after the first part was stored — no later block changes what an earlier height reads — and in
particular heights below `n` read as in the initial store. By induction over the block list, from ANY
initial store (no assumption on the records it holds: whatever `UnmarshalBinary` accepts has 64-bit
heights and 32-byte hashes, `unmarshal_sizes`). -/
theorem casm_history_append_only (pre post : List CasmBlock) (s sf : Store) (n : Nat)
    (hok : RunOK s n (pre ++ post)) (hr : runCasm s n (pre ++ post) = .ok sf) :
    ∃ sm, runCasm s n pre = .ok sm ∧ runCasm sm (n + pre.length) post = .ok sf ∧
      (∀ c x, x < n + pre.length → compiledClassHashAt sf c x = compiledClassHashAt sm c x) ∧
      (∀ c x, x < n → compiledClassHashAt sf c x = compiledClassHashAt s c x) := by
  have hs := storeSizesOK_all s
  obtain ⟨sm, a, b⟩ := runCasm_append pre post s sf n hr
  have hokm := runOK_append pre post s sm n hok a
  have hokp : RunOK s n pre := by
    clear hr b hokm a
    induction pre generalizing s n with
    | nil => trivial
    | cons x xs ih =>
      refine ⟨hok.1, ?_⟩
      intro s' h1
      exact ih s' (n + 1) (hok.2 s' h1) (storeCasm_sizes x.isV2 s s' n x.diff hok.1.1 hok.1.2.1 hok.1.2.2.1 hs h1)
  obtain ⟨p1, p2⟩ := runCasm_keeps_history pre s sm n hokp hs a
  obtain ⟨q1, q2⟩ := runCasm_keeps_history post sm sf (n + pre.length) hokm p1 b
  refine ⟨sm, a, b, q2, ?_⟩
  intro c x hx
  rw [q2 c x (by omega), p2 c x hx]

/-! ## Non-vacuity -/

example : (Cbor.map [(.text [0x61], .array [.uint 500, .nint 0, .simple 22]), (.uint 1, .tag 65538 (.bytes [1, 2]))]).wf = true := by
  decide
example : (Cbor.map [(.uint 1, .array [.uint 500])]).encode = [0xa1, 0x01, 0x81, 0x19, 0x01, 0xf4] := by decide
example : (Blob.build (fun (b : Bytes) => b) (fun (b : Bytes) => b) [[1, 2], [3]] [[4], [5, 6]]) =
    { txIdx := [0, 2], rcIdx := [3, 4], data := [1, 2, 3, 4, 5, 6] } := by decide
example : (Blob.build (fun (b : Bytes) => b) (fun (b : Bytes) => b) [] []).marshal = [0xa0] := by decide
example : readBlob [0xa2, 0x01, 0x82, 0x00, 0x02, 0x02, 0x82, 0x03, 0x04, 1, 2, 3, 4, 5, 6]
    (fun b => b.getTx some 1) = .ok [3] := by decide

-- typed layer: a header with a hash, number 7, everything else nil/zero/empty, is well-typed,
-- and the hash projection reads the hash out of its encoding
def exHeader : GoVal :=
  .struct [.felt 1 2 3 4, .uint 7, .uint 0, .nil, .uint 99, .uint 0, .nil, .nil, .list [.list [.nil], .nil], .raw .null, .nil,
           .nil, .nil, .str [0x30], .nil, .uint 3]
example : wt ⟨true⟩ tHeader exHeader = true := by decide
set_option maxRecDepth 8000 in
example : ((marshalVal tHeader exHeader).bind (fun bs => getBlockHeaderHash ⟨true⟩ bs)).isSome = true := by decide
set_option maxRecDepth 8000 in
example : ((marshalVal tHeader exHeader).bind (fun bs => getBlockTransactionCount ⟨true⟩ bs)).isSome = true := by decide
-- a map value in canonical key order
example : wt ⟨true⟩ (.map .felt (.ptr .felt)) (.map [(.felt 0 0 0 0, .nil), (.felt 5 0 0 0, .felt 1 1 1 1)]) = true := by decide
example : projOK (fieldsOf tHeader) (fieldsOf pHeaderTimestamp) = false := by decide  -- *uint64 vs uint64: not the same type

example : CasmMeta.unmarshal (CasmMeta.marshal ⟨5, List.replicate 32 7, 9, some (List.replicate 32 1)⟩) =
    some ⟨5, List.replicate 32 7, 9, some (List.replicate 32 1)⟩ := by decide
example : keyBlockTransactions 24 = [40, 0x18, 0x18] ∧ keyByNumber bBlockHeadersByNumber 258 = [8, 0, 0, 0, 0, 0, 0, 1, 2] := by decide

-- a well-typed invoke v3 transaction with a ResourceBounds map (keys in canonical order), a state
-- update with felt-keyed maps, a Cairo-0 class: the typed theorems are not vacuous on any table
def exInvoke : GoVal :=
  .iface 2 (.struct [.uint 5, .felt 9 0 0 0, .nil, .felt 3 0 0 0, .list [.felt 1 2 3 4], .uint 1, .nil, .uint 0, .list [],
    .felt 7 7 7 7, .map [(.uint 1, .struct [.uint 10, .felt 1 0 0 0]), (.uint 2, .struct [.uint 20, .nil])],
    .nil, .felt 1 0 0 0, .nil, .list [.felt 0 0 0 1], .list []])
example : wt ⟨false⟩ tTransaction exInvoke = true ∧ fitsVal exInvoke = true := by decide
def exStateUpdate : GoVal :=
  .struct [.felt 1 1 1 1, .felt 0 0 0 0, .felt 2 2 2 2, .struct [.map [(.felt 0 0 0 0, .felt 1 0 0 0), (.felt 5 0 0 0, .nil)],
    .map [(.felt 1 0 0 0, .map [(.felt 2 0 0 0, .felt 3 0 0 0)])], .nil, .map [], .list [.nil, .felt 4 0 0 0], .nil, .nil]]
example : wt ⟨false⟩ tStateUpdate exStateUpdate = true ∧ fitsVal exStateUpdate = true := by decide
def exCairo0 : GoVal :=
  .iface 0 (.struct [.bytes [0x5b, 0x5d], .str [0x78], .list [.struct [.felt 1 0 0 0, .nil]], .list [], .nil])
example : wt ⟨false⟩ tClassDefinition exCairo0 = true ∧ fitsVal exCairo0 = true := by decide
-- two independent blocks in one store
def exBlockA : BlockRec := ⟨7, [0xaa], [1], [0xa0], [[0x11], [0x12]], [([0x77], [0x11])], [2], [3]⟩
def exBlockB : BlockRec := ⟨8, [0xbb], [4], [0xa0], [[0x21]], [], [5], [6]⟩
example : getHeaderByHash (writeAll [] [exBlockA, exBlockB]) [0xaa] = some [1] ∧
    getTxLocation (writeAll [] [exBlockA, exBlockB]) [0x12] = some (7, 1) ∧
    getTxLocation (writeBlock (deleteBlock (writeAll [] [exBlockA, exBlockB]) exBlockA) ⟨7, [0xcc], [9], [0xa0], [[0x31]], [], [2], [3]⟩) [0x12] = none := by
  decide

-- round 4: index conversion, pair extractor, hash projection, a chain with a revert and a
-- replacement, a record derived from stored bytes

example : intOfU64 9223372036854775808 < 0 ∧ intOfU64 18446744073709551615 = -1 ∧ intOfU64 5 = 5 := by decide
example : readBlob [0xa2, 0x01, 0x82, 0x00, 0x02, 0x02, 0x82, 0x03, 0x04, 1, 2, 3, 4, 5, 6]
    (fun b => b.getTxAt some 18446744073709551615) = .notFound ∧
  readBlob [0xa2, 0x01, 0x82, 0x00, 0x02, 0x02, 0x82, 0x03, 0x04, 1, 2, 3, 4, 5, 6]
    (fun b => b.getTxAndRcAt some some 1) = .ok ([3], [5, 6]) := by decide
example : (match txHashField exInvoke with | some (.felt 1 0 0 0) => true | _ => false) = true := by decide

def exB0 : BlockRec := ⟨0, [0xa0], [1], [0xa0], [[0x11]], [([0x77], [0x11])], [2], [3]⟩
def exB1 : BlockRec := ⟨1, [0xa1], [4], [0xa0], [[0x21], [0x22]], [], [5], [6]⟩
def exB1' : BlockRec := ⟨1, [0xb1], [7], [0xa0], [[0x31]], [], [8], [9]⟩
example : validOps [] [.store exB0, .store exB1, .revert, .store exB1'] := by
  simp [validOps, validOp, chainAfter, BlockRec.ok, Indep, exB0, exB1, exB1']
example : getChainHeight (runOps ([], []) [.store exB0, .store exB1, .revert, .store exB1']).1 = some 1 ∧
    getTxLocation (runOps ([], []) [.store exB0, .store exB1, .revert, .store exB1']).1 [0x21] = none ∧
    getTxLocation (runOps ([], []) [.store exB0, .store exB1, .revert, .store exB1']).1 [0x31] = some (1, 0) ∧
    getChainHeight (runOps ([], []) [.store exB0, .revert]).1 = none := by decide

set_option maxRecDepth 20000 in
example : ((marshalVal tHeader exHeader).bind (fun hb => (marshalVal tTransaction exInvoke).bind (fun tb =>
    BlockRec.ofStored ⟨false⟩ [] 7 hb (Blob.build id id [tb] []).marshal [] []))).isSome = true := by decide

-- range deletes: CBOR keys of 23 / 24 / 255 / 256 are ordered, a prune at 24 removes block 23's blob and keeps block 24's
example : bytesLt (keyBlockTransactions 23) (keyBlockTransactions 24) = true ∧ bytesLt (keyBlockTransactions 255) (keyBlockTransactions 256) = true ∧
    bytesLt (keyBlockTransactions 256) (keyBlockTransactions 24) = false := by decide
example : getBlobByNumber (pruneBlockDataUpto [(keyBlockTransactions 23, [1]), (keyBlockTransactions 24, [2]), (keyByNumber bBlockHeadersByNumber 14, [3]),
      (keyByNumber bBlockHeadersByNumber 13, [4])] 24) 23 = none ∧
    getBlobByNumber (pruneBlockDataUpto [(keyBlockTransactions 23, [1]), (keyBlockTransactions 24, [2])] 24) 24 = some [2] ∧
    getHeaderByNumber (pruneBlockDataUpto [(keyByNumber bBlockHeadersByNumber 14, [3]), (keyByNumber bBlockHeadersByNumber 13, [4])] 24) 14 = some [3] ∧
    getHeaderByNumber (pruneBlockDataUpto [(keyByNumber bBlockHeadersByNumber 14, [3]), (keyByNumber bBlockHeadersByNumber 13, [4])] 24) 13 = none := by decide

-- the history-pruner migration on a three-block store (abstract codecs)

def exTxKeys : Bytes → Option TxKeys
  | [0x22] => some ⟨[0x22], some [0x99]⟩
  | [x] => some ⟨[x], none⟩
  | _ => none
def exM0 : BlockRec := ⟨0, [0xa0], [0xa0], (Blob.build id id ([[0x11]] : List Bytes) ([] : List Bytes)).marshal, [[0x11]], [], [0xa0], [1]⟩
def exM1 : BlockRec := ⟨1, [0xa1], [0xa1], (Blob.build id id ([[0x22], [0x23]] : List Bytes) ([] : List Bytes)).marshal, [[0x22], [0x23]], [([0x99], [0x22])], [0xa1], [2]⟩
def exM2 : BlockRec := ⟨2, [0xa2], [0xa2], (Blob.build id id ([] : List Bytes) ([] : List Bytes)).marshal, [], [], [0xa2], [3]⟩
-- an L1 handler FIRST in block 1: its neighbour keeps index 1; block 0 is pruned and its hash entry re-seeded
example : (match hpMigrate some some exTxKeys (writeAll [] [exM0, exM1, exM2]) 1 2 with
    | .ok s' => decide (getTxLocation s' [0x23] = some (1, 1) ∧ getTxLocation s' [0x22] = some (1, 0) ∧
        getL1TxHash s' [0x99] = some [0x22] ∧ getNumberByHash s' [0xa0] = some 0 ∧ getTxLocation s' [0x11] = none ∧
        getBlobByNumber s' 0 = none ∧ getHeaderByHash s' [0xa2] = some [0xa2])
    | _ => false) = true := by decide
example : RestoresAs exTxKeys exM1 [⟨[0x22], some [0x99]⟩, ⟨[0x23], none⟩] := by
  exact ⟨rfl, rfl, rfl⟩

-- a map listed in two orders encodes to the same bytes
example : marshalVal (.map .felt (.ptr .felt)) (.map [(.felt 5 0 0 0, .felt 1 1 1 1), (.felt 0 0 0 0, .nil)]) =
    marshalVal (.map .felt (.ptr .felt)) (.map [(.felt 0 0 0 0, .nil), (.felt 5 0 0 0, .felt 1 1 1 1)]) := by decide

-- round 5: prefixes ending in 0xff, the old layout, the upgrade

example : upperBound [10, 0, 255] = some [10, 1] ∧ upperBound [255, 255] = none ∧ upperBound [] = none ∧
    inIterRange [10, 0, 255] [10, 0, 255, 7] = true ∧ inIterRange [10, 0, 255] [10, 1] = false ∧
    inIterRange [255, 255] [255, 255, 255] = true := by decide
example : keyNumIdx bTxsByNumIdx 255 1 = [10, 0, 0, 0, 0, 0, 0, 0, 255, 0, 0, 0, 0, 0, 0, 0, 1] ∧
    prefixNum bRcsByNumIdx 65535 = [11, 0, 0, 0, 0, 0, 0, 255, 255] := by decide
-- block 255 written by the old writer into an empty store: its scan returns the transactions
example : ∃ s', writePerTx [] 255 [] [[1], [2]] [[3], [4]] = .ok s' ∧ scanBlockValues s' bTxsByNumIdx 255 = [[1], [2]] ∧
    getPerTxItem s' bRcsByNumIdx 255 1 = some [4] := by
  have e : ∀ b, OldItems ([] : Store) b 255 [] :=
    fun b => ⟨by intro i hi; simp at hi, by intro k _ hg; simp [Store.get] at hg⟩
  obtain ⟨s', h1, h2, _, h4, _⟩ := old_layout_write_then_read [] 255 [] [[1], [2]] [[3], [4]] (by simp) (by simp) (e _) (e _)
  exact ⟨s', h1, h2, (h4 1 (by simp)).2⟩

-- a one-block database of an earlier binary (header, commitments, height, one transaction and its
-- receipt in the old buckets): every hypothesis of the upgrade theorem holds, and the theorem
-- gives the combined entry
def exOld : Store :=
  [(keyNumIdx bRcsByNumIdx 0 0, [3]), (keyNumIdx bTxsByNumIdx 0 0, [1]), (keyByNumber bBlockHeadersByNumber 0, [0xa0]),
   (keyByNumber bBlockCommitments 0, [9]), (dbKey bChainHeight [], encNumber 0)]
def exD : Nat → Option (List Bytes × List Bytes) := fun n => if n = 0 then some ([[1]], [[3]]) else none
example : ∃ s', btMigrate (fun _ => some 1) (fun _ => some 1) exOld 2 = .ok s' ∧
    getBlobByNumber s' 0 = some (Blob.build encRaw encRaw [[1]] [[3]]).marshal ∧
    s'.get (keyNumIdx bTxsByNumIdx 0 0) = none ∧ getHeaderByNumber s' 0 = some [0xa0] := by
  have exOld_nodup : (exOld.map (·.1)).Nodup := by decide
  have exOld_state : BlockState (fun _ => some 1) exD exOld 0 := by
    refine ⟨[0xa0], 1, by decide, rfl, by decide, ?_⟩
    show OldItems exOld bTxsByNumIdx 0 [[1]] ∧ OldItems exOld bRcsByNumIdx 0 [[3]] ∧ _
    refine ⟨OldItems_concrete _ _ _ _ (by decide) (by decide), OldItems_concrete _ _ _ _ (by decide) (by decide), rfl, rfl, by decide⟩
  have hf : firstBlockToMigrate exOld = .ok (some 0) := by
    have e1 : exOld.scan [UInt8.ofNat bTxsByNumIdx] = [(keyNumIdx bTxsByNumIdx 0 0, [1])] :=
      scan_concrete _ _ _ exOld_nodup (by decide) (by decide) (by decide)
    have e2 : exOld.scan [UInt8.ofNat bRcsByNumIdx] = [(keyNumIdx bRcsByNumIdx 0 0, [3])] :=
      scan_concrete _ _ _ exOld_nodup (by decide) (by decide) (by decide)
    simp only [firstBlockToMigrate, firstNumberIn, e1, e2]
    decide
  have ho : oldestRetained exOld = .ok (some 0) := by
    have e : exOld.scan [UInt8.ofNat bBlockCommitments] = [(keyByNumber bBlockCommitments 0, [9])] :=
      scan_concrete _ _ _ exOld_nodup (by decide) (by decide) (by decide)
    simp only [oldestRetained, e]
    decide
  have hc : ∀ e ∈ exOld, (isPrefix [UInt8.ofNat bTxsByNumIdx] e.1 = true → isPrefix (prefixNum bTxsByNumIdx 0) e.1 = true) ∧
      (isPrefix [UInt8.ofNat bRcsByNumIdx] e.1 = true → isPrefix (prefixNum bRcsByNumIdx 0) e.1 = true) := by decide
  obtain ⟨s', h1, h2, _, h4, h5⟩ := block_transactions_migration_upgrades_database (fun _ => some 1) (fun _ => some 1) exD exOld
    0 0 0 2 (some 0) (by omega) (by omega) (by omega) (by omega) (by decide) hf ho rfl
    (by intro m a b; have : m = 0 := by omega
        subst this; exact exOld_state)
    (by
      intro b suf hb hg
      obtain ⟨v, hv⟩ := Option.ne_none_iff_exists'.mp hg
      have hm := get_some_mem _ _ _ hv
      have hp : isPrefix [UInt8.ofNat b] (dbKey b suf) = true := by simp [isPrefix, dbKey]
      rcases hb with rfl | rfl
      · obtain ⟨x, hx⟩ := isPrefix_iff_append _ _ ((hc _ hm).1 hp)
        exact ⟨0, x, by omega, by omega, hx⟩
      · obtain ⟨x, hx⟩ := isPrefix_iff_append _ _ ((hc _ hm).2 hp)
        exact ⟨0, x, by omega, by omega, hx⟩)
    (by intro m a b; omega)
  refine ⟨s', h1, ?_, h4 _ (be 8 0 ++ be 8 0) (Or.inl rfl), ?_⟩
  · have := h2 0 (by omega) (by omega)
    simpa [newBlob, exD] using this
  · have := h5 bBlockHeadersByNumber (be 8 0) (by decide) (by decide) (by decide) (by decide)
    simp only [getHeaderByNumber, keyByNumber, this]
    decide

-- round 6: the CASM-hash record. A class declared at 5 with the V1 hash and migrated at 9; the refusals; a block
-- that declares one class and migrates another, and its revert.
def exV1 : Bytes := List.replicate 32 1
def exV2 : Bytes := List.replicate 32 2
def exClsA : Bytes := List.replicate 32 9
def exClsB : Bytes := List.replicate 32 8
example : (match (CasmMeta.declaredV1 5 exV1 exV2).migrate 9 with
    | .ok m => m.casmHashAt 4 == none && m.casmHashAt 5 == some exV1 && m.casmHashAt 8 == some exV1 &&
        m.casmHashAt 9 == some exV2 && m.casmHash == exV2 && m.migratedAt == 9
    | .error _ => false) = true := by decide
example : (match (CasmMeta.declaredV2 5 exV2).migrate 9, (CasmMeta.declaredV1 5 exV1 exV2).migrate 5,
      (CasmMeta.declaredV1 5 exV1 exV2).unmigrate with
    | .error .v2Declared, .error .beforeDeclared, .error .notMigrated => true
    | _, _, _ => false) = true := by decide
example : ((CasmMeta.declaredV1 5 exV1 exV2).applyAll [.migrate 9, .reload, .migrate 12, .unmigrate, .unmigrate, .migrate 7]).migratedAt = 7 := by
  decide
def exCasmStore : Store := [(keyCasm exClsA, (CasmMeta.declaredV1 5 exV1 exV2).marshal)]
def exCasmDiff : CasmDiff := ⟨[⟨exClsB, exV2, true, exV2⟩], [exClsA]⟩
example : exCasmDiff.keys.Nodup := by decide
example : (match storeCasm true exCasmStore exCasmStore 9 exCasmDiff with
    | .ok s' => compiledClassHashAt s' exClsA 8 == some exV1 && compiledClassHashAt s' exClsA 9 == some exV2 &&
        compiledClassHashAt s' exClsB 8 == none && compiledClassHashAt s' exClsB 9 == some exV2 &&
        (match revertCasm s' s' exCasmDiff with
         | .ok s'' => compiledClassHashAt s'' exClsA 9 == some exV1 && compiledClassHash s'' exClsB == none
         | .error _ => false)
    | .error _ => false) = true := by decide
example : RunOK [] 5 [⟨false, ⟨[⟨exClsA, exV1, true, exV2⟩], []⟩⟩] := by
  refine ⟨⟨by decide, by decide, ?_, ?_⟩, fun _ _ => trivial⟩
  · intro e he; simp at he; subst he; decide
  · intro e he; simp [Store.get]
example : (match runCasm [] 5 [⟨false, ⟨[⟨exClsA, exV1, true, exV2⟩], []⟩⟩, ⟨true, ⟨[⟨exClsB, exV2, true, exV2⟩], [exClsA]⟩⟩] with
    | .ok s => compiledClassHashAt s exClsA 5 == some exV1 && compiledClassHashAt s exClsA 6 == some exV2 &&
        compiledClassHashAt s exClsB 5 == none && compiledClassHashAt s exClsB 6 == some exV2
    | .error _ => false) = true := by decide

end Juno.C07.Props
