import JunoModel.C07.ModelLayout
import JunoModel.C07.ProofsPrune
import JunoModel.C07.ProofsPerm
/-
C07 — proofs, part 10 (round 5): prefix scans, the per-transaction layout, the block-transactions
migration.
-/
namespace Juno.C07

/-! ### `UpperBound`: the iterator's range is exactly the keys that carry the prefix -/

theorem bytesLeq_nil (k : Bytes) : bytesLeq [] k = true := by
  simp [bytesLeq, bytesLt_nil_right]

theorem inIterRange_eq_isPrefix : ∀ (p k : Bytes), inIterRange p k = isPrefix p k
  | [], k => by simp [inIterRange, upperBound, isPrefix, bytesLeq_nil]
  | b :: rest, [] => by
    cases h : upperBound (b :: rest) <;> simp [inIterRange, isPrefix, bytesLeq, bytesLt, h]
  | b :: rest, c :: ks => by
    have ih := inIterRange_eq_isPrefix rest ks
    have hb : b.toNat < 256 := b.toNat_lt
    have hc : c.toNat < 256 := c.toNat_lt
    simp only [inIterRange, isPrefix, bytesLeq, bytesLt, upperBound] at ih ⊢
    rcases Nat.lt_trichotomy c.toNat b.toNat with hlt | heq | hgt
    · -- c < b: below the prefix
      have e1 : decide (c.toNat < b.toNat) = true := by simp; omega
      have e2 : (b.toNat == c.toNat) = false := by simp; omega
      cases hu : upperBound rest <;> simp [e1, e2]
    · -- c = b: decided by the tails
      have e1 : decide (c.toNat < b.toNat) = false := by simp; omega
      have e2 : (b.toNat == c.toNat) = true := by simp; omega
      have e3 : (c.toNat == b.toNat) = true := by simp; omega
      cases hu : upperBound rest with
      | some u =>
        simp only [hu] at ih ⊢
        rw [← ih]
        simp [bytesLt, e1, e2, e3]
      | none =>
        simp only [hu] at ih ⊢
        rw [← ih]
        by_cases hff : b.toNat = 255
        · have e6 : decide (c.toNat < 255) = false := by simp; omega
          have e7 : (c.toNat == 255) = true := by simp; omega
          have e8 : (255 == c.toNat) = true := by simp; omega
          simp [hff, e6, e7, e8]
        · have hm : (b.toNat + 1) % 256 = b.toNat + 1 := Nat.mod_eq_of_lt (by omega)
          have e4 : decide (c.toNat < b.toNat + 1) = true := by simp; omega
          simp [hff, bytesLt, hm, e1, e2, e3, e4]
    · -- c > b: above the upper bound (or no prefix match when there is none)
      have e1 : decide (c.toNat < b.toNat) = false := by simp; omega
      have e2 : (b.toNat == c.toNat) = false := by simp; omega
      have e3 : (c.toNat == b.toNat) = false := by simp; omega
      cases hu : upperBound rest with
      | some u => simp [bytesLt, e1, e2, e3]
      | none =>
        by_cases hff : b.toNat = 255
        · omega
        · have hm : (b.toNat + 1) % 256 = b.toNat + 1 := Nat.mod_eq_of_lt (by omega)
          have e4 : decide (c.toNat < b.toNat + 1) = false := by simp; omega
          simp [hu, hff, bytesLt, hm, e1, e2, e3, e4, bytesLt_nil_right]

/-! ### live entries -/

theorem mem_live : ∀ (s : Store) (k v : Bytes), (k, v) ∈ s.live ↔ s.get k = some v
  | [], k, v => by simp [Store.live, Store.get]
  | (k', v') :: rest, k, v => by
    have ih := mem_live rest k v
    simp only [Store.live, Store.get, List.mem_cons, List.mem_filter, Prod.mk.injEq]
    by_cases hk : k' = k
    · subst hk
      simp
      constructor
      · intro h; exact h.symm
      · intro h; exact h.symm
    · have h1 : (k' == k) = false := by simpa using hk
      have h2 : ¬ k = k' := fun h => hk h.symm
      simp [h1, h2, ih]

theorem live_keys_distinct : ∀ (s : Store), s.live.Pairwise (fun a b => a.1 ≠ b.1)
  | [] => by simp [Store.live]
  | (k', v') :: rest => by
    simp only [Store.live, List.pairwise_cons]
    constructor
    · intro e he
      simp only [List.mem_filter] at he
      intro h
      have := he.2
      simp at this
      exact this h.symm
    · exact (live_keys_distinct rest).filter _

/-! ### the order on keys -/

theorem bytesLeq_trans (a b c : Bytes) (h1 : bytesLeq a b = true) (h2 : bytesLeq b c = true) : bytesLeq a c = true := by
  simp only [bytesLeq, Bool.not_eq_true', ] at *
  cases hca : bytesLt c a with
  | false => rfl
  | true =>
    by_cases hab : a = b
    · subst hab; rw [hca] at h2; exact absurd h2 (by simp)
    · rcases bytesLt_total a b hab with h | h
      · have := bytesLt_trans c a b hca h
        rw [this] at h2; exact absurd h2 (by simp)
      · rw [h] at h1; exact absurd h1 (by simp)

theorem bytesLeq_total (a b : Bytes) : (bytesLeq a b || bytesLeq b a) = true := by
  simp only [bytesLeq, Bool.or_eq_true, Bool.not_eq_true']
  cases h : bytesLt b a with
  | false => left; rfl
  | true => right; exact bytesLt_asymm b a h

theorem bytesLt_of_leq_ne (a b : Bytes) (h : bytesLeq a b = true) (hne : a ≠ b) : bytesLt a b = true := by
  simp only [bytesLeq, Bool.not_eq_true'] at h
  rcases bytesLt_total a b hne with h' | h'
  · exact h'
  · rw [h'] at h; exact absurd h (by simp)

/-! ### `scan`: exactly the live entries under the prefix, strictly ordered by key -/

theorem mem_scan (s : Store) (p k v : Bytes) : (k, v) ∈ s.scan p ↔ isPrefix p k = true ∧ s.get k = some v := by
  unfold Store.scan
  rw [List.mem_mergeSort, mem_live, get_filter_key (fun x => inIterRange p x) s k, inIterRange_eq_isPrefix]
  by_cases h : isPrefix p k = true <;> simp [h]

theorem scan_sorted (s : Store) (p : Bytes) : (s.scan p).Pairwise (fun a b => bytesLt a.1 b.1 = true) := by
  unfold Store.scan
  have hle : ((Store.live (s.filter (fun e => inIterRange p e.1))).mergeSort kvLe).Pairwise (fun a b => kvLe a b = true) :=
    List.pairwise_mergeSort (le := kvLe) (fun a b c h1 h2 => bytesLeq_trans a.1 b.1 c.1 h1 h2)
      (fun a b => bytesLeq_total a.1 b.1) _
  have hne : ((Store.live (s.filter (fun e => inIterRange p e.1))).mergeSort kvLe).Pairwise (fun a b => a.1 ≠ b.1) :=
    (live_keys_distinct _).perm (List.mergeSort_perm _ _).symm (fun h => fun e => h e.symm)
  exact (hle.and hne).imp (fun ⟨h1, h2⟩ => bytesLt_of_leq_ne _ _ h1 h2)

/-- Any strictly ordered list with the same entries IS the scan. -/
theorem scan_unique (s : Store) (p : Bytes) (l : List (Bytes × Bytes))
    (hs : l.Pairwise (fun a b => bytesLt a.1 b.1 = true))
    (hm : ∀ k v, (k, v) ∈ l ↔ isPrefix p k = true ∧ s.get k = some v) : s.scan p = l := by
  have hs' := scan_sorted s p
  have nd : ∀ (l' : List (Bytes × Bytes)), l'.Pairwise (fun a b => bytesLt a.1 b.1 = true) → l'.Nodup := by
    intro l' h
    exact h.imp (fun {a b} hlt heq => by
      subst heq
      rw [bytesLt_irrefl] at hlt
      exact absurd hlt (by simp))
  have hperm : List.Perm (s.scan p) l := by
    rw [List.perm_ext_iff_of_nodup (nd _ hs') (nd _ hs)]
    intro ⟨k, v⟩
    rw [mem_scan, hm]
  apply List.Perm.eq_of_pairwise (le := fun a b => bytesLt a.1 b.1 = true) _ hs' hs hperm
  intro a b _ _ h1 h2
  have := bytesLt_asymm _ _ h1
  rw [this] at h2
  exact absurd h2 (by simp)

/-! ### the per-transaction layout: one block's items under its prefix -/

/-- Block `n` holds exactly the items `vals` in old bucket `bucket`: item `i` under the key
(n, i), and NO other live key under the block's prefix. -/
def OldItems (s : Store) (bucket n : Nat) (vals : List Bytes) : Prop :=
  (∀ i (hi : i < vals.length), s.get (keyNumIdx bucket n i) = some vals[i]) ∧
  (∀ k, isPrefix (prefixNum bucket n) k = true → s.get k ≠ none → ∃ i, i < vals.length ∧ k = keyNumIdx bucket n i)

def oldEntries (bucket n : Nat) : Nat → List Bytes → List (Bytes × Bytes)
  | _, [] => []
  | i, v :: vs => (keyNumIdx bucket n i, v) :: oldEntries bucket n (i + 1) vs

theorem keyNumIdx_eq (bucket n i : Nat) : keyNumIdx bucket n i = prefixNum bucket n ++ be 8 i := by
  simp [keyNumIdx, prefixNum, dbKey]

theorem isPrefix_refl_append : ∀ (p q : Bytes), isPrefix p (p ++ q) = true
  | [], q => by simp [isPrefix]
  | a :: p, q => by simp [isPrefix, isPrefix_refl_append p q]

theorem bytesLt_keyNumIdx (bucket n i j : Nat) (hi : i < 18446744073709551616) (hj : j < 18446744073709551616) :
    bytesLt (keyNumIdx bucket n i) (keyNumIdx bucket n j) = decide (i < j) := by
  rw [keyNumIdx_eq, keyNumIdx_eq, bytesLt_append_eq_len _ _ _ _ rfl, bytesLt_irrefl]
  simp only [Bool.false_or, beq_self_eq_true, Bool.true_and]
  exact bytesLt_be 8 i j (by simpa using hi) (by simpa using hj)

theorem keyNumIdx_inj (bucket n i j : Nat) (hi : i < 18446744073709551616) (hj : j < 18446744073709551616)
    (h : keyNumIdx bucket n i = keyNumIdx bucket n j) : i = j := by
  rw [keyNumIdx_eq, keyNumIdx_eq] at h
  exact be_inj_bounded 8 i j (by simpa using hi) (by simpa using hj) (List.append_cancel_left h)

theorem mem_oldEntries (bucket n : Nat) : ∀ (vals : List Bytes) (base : Nat) (k v : Bytes),
    (k, v) ∈ oldEntries bucket n base vals ↔ ∃ i, ∃ h : i < vals.length, k = keyNumIdx bucket n (base + i) ∧ v = vals[i]
  | [], base, k, v => by simp [oldEntries]
  | x :: xs, base, k, v => by
    simp only [oldEntries, List.mem_cons, Prod.mk.injEq, mem_oldEntries bucket n xs (base + 1) k v]
    constructor
    · rintro (⟨rfl, rfl⟩ | ⟨i, hi, rfl, rfl⟩)
      · exact ⟨0, by simp, by simp, by simp⟩
      · exact ⟨i + 1, by simp; omega, by congr 1; omega, by simp⟩
    · rintro ⟨i, hi, rfl, rfl⟩
      cases i with
      | zero => left; simp
      | succ j =>
        right
        exact ⟨j, by simp at hi; omega, by congr 1; omega, by simp⟩

theorem oldEntries_sorted (bucket n : Nat) : ∀ (vals : List Bytes) (base : Nat),
    base + vals.length ≤ 18446744073709551616 →
    (oldEntries bucket n base vals).Pairwise (fun a b => bytesLt a.1 b.1 = true)
  | [], _, _ => by simp [oldEntries]
  | x :: xs, base, h => by
    simp only [oldEntries, List.pairwise_cons]
    simp only [List.length_cons] at h
    refine ⟨?_, oldEntries_sorted bucket n xs (base + 1) (by omega)⟩
    rintro ⟨k, v⟩ hm
    obtain ⟨i, hi, rfl, _⟩ := (mem_oldEntries bucket n xs (base + 1) k v).mp hm
    rw [bytesLt_keyNumIdx bucket n base (base + 1 + i) (by omega) (by omega)]
    simp; omega

theorem oldEntries_values (bucket n : Nat) : ∀ (vals : List Bytes) (base : Nat),
    (oldEntries bucket n base vals).map (·.2) = vals
  | [], _ => by simp [oldEntries]
  | x :: xs, base => by simp [oldEntries, oldEntries_values bucket n xs (base + 1)]

/-- **The scan of one block of the per-transaction layout returns its items, in index order.** -/
theorem scan_old_items (s : Store) (bucket n : Nat) (vals : List Bytes) (h : OldItems s bucket n vals)
    (hl : vals.length ≤ 18446744073709551616) : scanBlockValues s bucket n = vals := by
  unfold scanBlockValues
  rw [scan_unique s _ (oldEntries bucket n 0 vals) (oldEntries_sorted bucket n vals 0 (by omega)) ?_, oldEntries_values]
  intro k v
  rw [mem_oldEntries]
  constructor
  · rintro ⟨i, hi, rfl, rfl⟩
    refine ⟨by rw [keyNumIdx_eq]; exact isPrefix_refl_append _ _, ?_⟩
    simpa using h.1 i hi
  · rintro ⟨hp, hg⟩
    obtain ⟨i, hi, rfl⟩ := h.2 k hp (by rw [hg]; simp)
    refine ⟨i, hi, by simp, ?_⟩
    have := h.1 i hi
    rw [this] at hg
    exact (Option.some.inj hg).symm

/-! ### `ingestBlock` -/

/-- A block in the per-transaction layout whose header count agrees with the stored entries: the
migration puts the blob laid out from the RAW stored items, in index order. -/
theorem ingestBlock_old (txCount : Bytes → Option Nat) (s : Store) (n c : Nat) (txs rcs : List Bytes) (hb : Bytes)
    (hh : getHeaderByNumber s n = some hb) (hc : txCount hb = some c) (hc63 : c < 9223372036854775808)
    (ht : OldItems s bTxsByNumIdx n txs) (hr : OldItems s bRcsByNumIdx n rcs)
    (hlt : txs.length = c) (hlr : rcs.length = c) (hnb : getBlobByNumber s n = none) :
    ingestBlock txCount s n = .ok (s.put (keyBlockTransactions n) (Blob.build encRaw encRaw txs rcs).marshal) := by
  have e1 := scan_old_items s bTxsByNumIdx n txs ht (by omega)
  have e2 := scan_old_items s bRcsByNumIdx n rcs hr (by omega)
  have e3 : intOfU64 c = (c : Int) := intOfU64_small c (by unfold twoP63; omega)
  simp only [ingestBlock, hh, hc, e1, e2, e3, hnb, hlt, hlr, Option.isSome_none, Bool.false_eq_true, if_false]
  by_cases h0 : c = 0
  · subst h0; simp
  · have : ¬ ((c : Int) ≤ 0) := by omega
    simp [h0]

/-- A block that an earlier (interrupted) run already migrated — no old entries left, the
combined entry present — is left exactly as it is (never overwritten with an empty entry). -/
theorem ingestBlock_already_migrated (txCount : Bytes → Option Nat) (s : Store) (n c : Nat) (hb blob : Bytes)
    (hh : getHeaderByNumber s n = some hb) (hc : txCount hb = some c)
    (ht : OldItems s bTxsByNumIdx n []) (hr : OldItems s bRcsByNumIdx n [])
    (hbl : getBlobByNumber s n = some blob) : ingestBlock txCount s n = .ok s := by
  have e1 := scan_old_items s bTxsByNumIdx n [] ht (by simp)
  have e2 := scan_old_items s bRcsByNumIdx n [] hr (by simp)
  simp [ingestBlock, hh, hc, e1, e2, hbl]

/-- The header's count disagrees with the number of stored entries (or entries are missing): the
migration refuses — it never writes a blob that would contradict the header. -/
theorem ingestBlock_count_disagrees (txCount : Bytes → Option Nat) (s : Store) (n c : Nat) (txs rcs : List Bytes) (hb : Bytes)
    (hh : getHeaderByNumber s n = some hb) (hc : txCount hb = some c) (hc63 : c < 9223372036854775808)
    (ht : OldItems s bTxsByNumIdx n txs) (hr : OldItems s bRcsByNumIdx n rcs)
    (hl1 : txs.length < 9223372036854775808) (hl2 : rcs.length < 9223372036854775808)
    (hne : txs.length ≠ c ∨ rcs.length ≠ c) (hnb : getBlobByNumber s n = none) :
    ingestBlock txCount s n = .decodeErr := by
  have e1 := scan_old_items s bTxsByNumIdx n txs ht (by omega)
  have e2 := scan_old_items s bRcsByNumIdx n rcs hr (by omega)
  have e3 : intOfU64 c = (c : Int) := intOfU64_small c (by unfold twoP63; omega)
  simp only [ingestBlock, hh, hc, e1, e2, e3, hnb, Option.isSome_none, Bool.false_eq_true, if_false]
  repeat' split
  all_goals first | rfl | omega

/-! ### the blob built from raw items = the blob the combined writer builds from the values -/

theorem writeItems_map {α : Type} (enc : α → Bytes) : ∀ (xs : List α) (buf : Bytes),
    writeItems (fun (b : Bytes) => b) buf (xs.map enc) = writeItems enc buf xs
  | [], _ => rfl
  | x :: xs, buf => by simp [writeItems, writeItems_map enc xs]

theorem writeItems_congr {α : Type} (f g : α → Bytes) : ∀ (xs : List α) (buf : Bytes), (∀ x ∈ xs, f x = g x) →
    writeItems f buf xs = writeItems g buf xs
  | [], _, _ => rfl
  | x :: xs, buf, h => by
    simp only [writeItems, h x (List.mem_cons_self ..)]
    rw [writeItems_congr f g xs _ (fun y hy => h y (List.mem_cons_of_mem _ hy))]

theorem encRaw_nonempty (v : Bytes) (h : v ≠ []) : encRaw v = v := by
  cases v with
  | nil => exact absurd rfl h
  | cons a as => simp [encRaw]

/-- Items stored one per key by the earlier binary, re-laid out by the migration from their raw
bytes = `NewBlockTransactions` on the values themselves (no item encodes to the empty string). -/
theorem build_raw_eq {α β : Type} (encT : α → Bytes) (encR : β → Bytes) (txs : List α) (rcs : List β)
    (hT : ∀ a ∈ txs, encT a ≠ []) (hR : ∀ a ∈ rcs, encR a ≠ []) :
    Blob.build encRaw encRaw (txs.map encT) (rcs.map encR) = Blob.build encT encR txs rcs := by
  have e1 : ∀ buf, writeItems encRaw buf (txs.map encT) = writeItems encT buf txs := by
    intro buf
    rw [writeItems_congr encRaw (fun b => b) _ buf (fun x hx => by
      obtain ⟨a, ha, rfl⟩ := List.mem_map.mp hx
      exact encRaw_nonempty _ (hT a ha)), writeItems_map]
  have e2 : ∀ buf, writeItems encRaw buf (rcs.map encR) = writeItems encR buf rcs := by
    intro buf
    rw [writeItems_congr encRaw (fun b => b) _ buf (fun x hx => by
      obtain ⟨a, ha, rfl⟩ := List.mem_map.mp hx
      exact encRaw_nonempty _ (hR a ha)), writeItems_map]
  simp only [Blob.build, e1, e2]

/-! ### the old writer establishes `OldItems` -/

theorem isPrefix_head (a : UInt8) (p k : Bytes) (h : isPrefix (a :: p) k = true) : ∃ ks, k = a :: ks := by
  cases k with
  | nil => simp [isPrefix] at h
  | cons c ks =>
    simp only [isPrefix, Bool.and_eq_true, beq_iff_eq] at h
    exact ⟨ks, by rw [UInt8.toNat_inj.mp h.1]⟩

theorem mem_perTxEntries (n : Nat) : ∀ (txs rcs : List Bytes) (base : Nat) (es : List (Bytes × Bytes)),
    perTxEntries n base txs rcs = some es → ∀ k v, (k, v) ∈ es ↔
      ∃ i, ∃ h1 : i < txs.length, ∃ h2 : i < rcs.length,
        (k = keyNumIdx bTxsByNumIdx n (base + i) ∧ v = txs[i]) ∨ (k = keyNumIdx bRcsByNumIdx n (base + i) ∧ v = rcs[i])
  | [], rcs, base, es, h, k, v => by
    simp only [perTxEntries, Option.some.injEq] at h
    subst h
    simp
  | t :: ts, [], base, es, h, k, v => by simp [perTxEntries] at h
  | t :: ts, r :: rs, base, es, h, k, v => by
    simp only [perTxEntries, Option.map_eq_some_iff] at h
    obtain ⟨es', he, rfl⟩ := h
    have ih := mem_perTxEntries n ts rs (base + 1) es' he k v
    simp only [List.mem_cons, Prod.mk.injEq, ih]
    constructor
    · rintro (⟨rfl, rfl⟩ | ⟨rfl, rfl⟩ | ⟨i, h1, h2, hh⟩)
      · exact ⟨0, by simp, by simp, Or.inl ⟨by simp, by simp⟩⟩
      · exact ⟨0, by simp, by simp, Or.inr ⟨by simp, by simp⟩⟩
      · refine ⟨i + 1, by simp; omega, by simp; omega, ?_⟩
        rcases hh with ⟨rfl, rfl⟩ | ⟨rfl, rfl⟩
        · exact Or.inl ⟨by congr 1; omega, by simp⟩
        · exact Or.inr ⟨by congr 1; omega, by simp⟩
    · rintro ⟨i, h1, h2, hh⟩
      cases i with
      | zero =>
        rcases hh with ⟨rfl, rfl⟩ | ⟨rfl, rfl⟩
        · left; simp
        · right; left; simp
      | succ j =>
        right; right
        refine ⟨j, by simp at h1; omega, by simp at h2; omega, ?_⟩
        rcases hh with ⟨rfl, rfl⟩ | ⟨rfl, rfl⟩
        · exact Or.inl ⟨by congr 1; omega, by simp⟩
        · exact Or.inr ⟨by congr 1; omega, by simp⟩

theorem perTxEntries_some (n : Nat) : ∀ (txs rcs : List Bytes) (base : Nat), txs.length ≤ rcs.length →
    ∃ es, perTxEntries n base txs rcs = some es
  | [], _, _, _ => ⟨[], rfl⟩
  | t :: ts, [], _, h => by simp at h
  | t :: ts, r :: rs, base, h => by
    obtain ⟨es, he⟩ := perTxEntries_some n ts rs (base + 1) (by simpa using h)
    exact ⟨(keyNumIdx bTxsByNumIdx n base, t) :: (keyNumIdx bRcsByNumIdx n base, r) :: es, by simp [perTxEntries, he]⟩

theorem keyNumIdx_bucket_ne (n i m j : Nat) : keyNumIdx bTxsByNumIdx n i ≠ keyNumIdx bRcsByNumIdx m j := by
  simp [keyNumIdx, dbKey, bTxsByNumIdx, bRcsByNumIdx]

theorem txIndexEntries_bucket (n : Nat) : ∀ (hs : List Bytes) (i : Nat) (e : Bytes × Bytes),
    e ∈ txIndexEntries n i hs → ∃ suf, e.1 = UInt8.ofNat bTxIndexByHash :: suf
  | [], _, e, h => by simp [txIndexEntries] at h
  | x :: xs, i, e, h => by
    simp only [txIndexEntries, List.mem_cons] at h
    rcases h with rfl | h
    · exact ⟨x, rfl⟩
    · exact txIndexEntries_bucket n xs (i + 1) e h

/-- **What the earlier binary's writer stored, the earlier layout's readers return**: after
`TransactionLayoutPerTx.WriteTransactionsAndReceipts` of a block into a store that held nothing
under the block's two prefixes, the block holds exactly the transactions (bucket 10) and the first
`len(txs)` receipts (bucket 11) — so the scans return them in index order — and every key of any
other bucket than 9 / 10 / 11 reads as before. -/
theorem writePerTx_old_items (s : Store) (n : Nat) (hs txs rcs : List Bytes) (hlen : txs.length ≤ rcs.length)
    (hl : rcs.length ≤ 18446744073709551616)
    (h10 : OldItems s bTxsByNumIdx n []) (h11 : OldItems s bRcsByNumIdx n []) :
    ∃ s', writePerTx s n hs txs rcs = .ok s' ∧ OldItems s' bTxsByNumIdx n txs ∧
      OldItems s' bRcsByNumIdx n (rcs.take txs.length) ∧
      scanBlockValues s' bTxsByNumIdx n = txs ∧ scanBlockValues s' bRcsByNumIdx n = rcs.take txs.length ∧
      (∀ b suf, b ≠ UInt8.ofNat bTxIndexByHash → b ≠ UInt8.ofNat bTxsByNumIdx → b ≠ UInt8.ofNat bRcsByNumIdx →
        s'.get (b :: suf) = s.get (b :: suf)) := by
  obtain ⟨es, he⟩ := perTxEntries_some n txs rcs 0 hlen
  have hm := mem_perTxEntries n txs rcs 0 es he
  refine ⟨(s.putAll (txIndexEntries n 0 hs)).putAll es, by simp [writePerTx, he], ?_⟩
  -- reads of the item keys
  have getTx : ∀ i (hi : i < txs.length), ((s.putAll (txIndexEntries n 0 hs)).putAll es).get (keyNumIdx bTxsByNumIdx n i) = some txs[i] := by
    intro i hi
    apply get_putAll_mem
    · exact (hm _ _).mpr ⟨i, hi, by omega, Or.inl ⟨by simp, rfl⟩⟩
    · intro v' hv'
      obtain ⟨j, h1, h2, hh⟩ := (hm _ _).mp hv'
      rcases hh with ⟨e, rfl⟩ | ⟨e, _⟩
      · have : i = 0 + j := keyNumIdx_inj _ n i (0 + j) (by omega) (by omega) e
        have : i = j := by omega
        subst this; rfl
      · exact absurd e (keyNumIdx_bucket_ne n i n (0 + j))
  have getRc : ∀ i (hi : i < txs.length), ((s.putAll (txIndexEntries n 0 hs)).putAll es).get (keyNumIdx bRcsByNumIdx n i) = some (rcs[i]'(by omega)) := by
    intro i hi
    apply get_putAll_mem
    · exact (hm _ _).mpr ⟨i, hi, by omega, Or.inr ⟨by simp, rfl⟩⟩
    · intro v' hv'
      obtain ⟨j, h1, h2, hh⟩ := (hm _ _).mp hv'
      rcases hh with ⟨e, _⟩ | ⟨e, rfl⟩
      · exact absurd e.symm (keyNumIdx_bucket_ne n (0 + j) n i)
      · have : i = 0 + j := keyNumIdx_inj _ n i (0 + j) (by omega) (by omega) e
        have : i = j := by omega
        subst this; rfl
  -- a key that is not an item key of this write reads from the store below the index entries
  have getOther : ∀ k, (∀ e ∈ es, e.1 ≠ k) → (∀ suf, k ≠ UInt8.ofNat bTxIndexByHash :: suf) →
      ((s.putAll (txIndexEntries n 0 hs)).putAll es).get k = s.get k := by
    intro k h1 h2
    rw [get_putAll_other _ es k h1, get_putAll_other s _ k]
    intro e hem heq
    obtain ⟨suf, hs'⟩ := txIndexEntries_bucket n hs 0 e hem
    exact h2 suf (by rw [← heq, hs'])
  have old10 : OldItems ((s.putAll (txIndexEntries n 0 hs)).putAll es) bTxsByNumIdx n txs := by
    refine ⟨getTx, ?_⟩
    intro k hp hg
    obtain ⟨ks, rfl⟩ := isPrefix_head _ _ k (by simpa [prefixNum, dbKey] using hp)
    by_cases hin : ∃ e ∈ es, e.1 = UInt8.ofNat bTxsByNumIdx :: ks
    · obtain ⟨⟨k', v'⟩, hem, hk⟩ := hin
      obtain ⟨j, h1, h2, hh⟩ := (hm _ _).mp hem
      rcases hh with ⟨e, _⟩ | ⟨e, _⟩
      · exact ⟨j, h1, by rw [← hk]; simpa using e⟩
      · exfalso
        simp only at hk
        rw [e] at hk
        simp [keyNumIdx, dbKey, bTxsByNumIdx, bRcsByNumIdx] at hk
    · exfalso
      have h1 : ∀ e ∈ es, e.1 ≠ UInt8.ofNat bTxsByNumIdx :: ks := fun e he heq => hin ⟨e, he, heq⟩
      rw [getOther _ h1 (by intro suf; simp [bTxsByNumIdx, bTxIndexByHash])] at hg
      obtain ⟨i, hi, _⟩ := h10.2 _ hp hg
      simp at hi
  have old11 : OldItems ((s.putAll (txIndexEntries n 0 hs)).putAll es) bRcsByNumIdx n (rcs.take txs.length) := by
    constructor
    · intro i hi
      have hi' : i < txs.length := by simp at hi; omega
      rw [getRc i hi']
      simp
    · intro k hp hg
      obtain ⟨ks, rfl⟩ := isPrefix_head _ _ k (by simpa [prefixNum, dbKey] using hp)
      by_cases hin : ∃ e ∈ es, e.1 = UInt8.ofNat bRcsByNumIdx :: ks
      · obtain ⟨⟨k', v'⟩, hem, hk⟩ := hin
        obtain ⟨j, h1, h2, hh⟩ := (hm _ _).mp hem
        rcases hh with ⟨e, _⟩ | ⟨e, _⟩
        · exfalso
          simp only at hk
          rw [e] at hk
          simp [keyNumIdx, dbKey, bTxsByNumIdx, bRcsByNumIdx] at hk
        · exact ⟨j, by simp; omega, by rw [← hk]; simpa using e⟩
      · exfalso
        have h1 : ∀ e ∈ es, e.1 ≠ UInt8.ofNat bRcsByNumIdx :: ks := fun e he heq => hin ⟨e, he, heq⟩
        rw [getOther _ h1 (by intro suf; simp [bRcsByNumIdx, bTxIndexByHash])] at hg
        obtain ⟨i, hi, _⟩ := h11.2 _ hp hg
        simp at hi
  refine ⟨old10, old11, scan_old_items _ _ n txs old10 (by omega), scan_old_items _ _ n _ old11 (by simp; omega), ?_⟩
  intro b suf hb9 hb10 hb11
  apply getOther
  · intro e hem heq
    obtain ⟨j, h1, h2, hh⟩ := (hm e.1 e.2).mp hem
    rcases hh with ⟨e', _⟩ | ⟨e', _⟩
    · rw [e'] at heq
      simp only [keyNumIdx, dbKey, List.cons.injEq] at heq
      exact hb10 heq.1.symm
    · rw [e'] at heq
      simp only [keyNumIdx, dbKey, List.cons.injEq] at heq
      exact hb11 heq.1.symm
  · intro suf' heq
    simp only [List.cons.injEq] at heq
    exact hb9 heq.1

end Juno.C07
