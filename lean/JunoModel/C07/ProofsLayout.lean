import JunoModel.C07.ModelLayout
import JunoModel.C07.ProofsPrune
import JunoModel.C07.ProofsPerm
/-
C07 — proofs, part 10 (round 5): prefix scans, the per-transaction layout, the block-transactions
migration.
-/
namespace Juno.C07

/-! ### `UpperBound`: the iterator's range is exactly the keys that carry the prefix -/

theorem bytesLeq_nil (k : Bytes) : bytesLeq [] k = true := by
  simp [bytesLeq, bytesLt_nil_right]

theorem inIterRange_eq_isPrefix : ∀ (p k : Bytes), inIterRange p k = isPrefix p k
  | [], k => by simp [inIterRange, upperBound, isPrefix, bytesLeq_nil]
  | b :: rest, [] => by
    cases h : upperBound (b :: rest) <;> simp [inIterRange, isPrefix, bytesLeq, bytesLt, h]
  | b :: rest, c :: ks => by
    have ih := inIterRange_eq_isPrefix rest ks
    have hb : b.toNat < 256 := b.toNat_lt
    have hc : c.toNat < 256 := c.toNat_lt
    simp only [inIterRange, isPrefix, bytesLeq, bytesLt, upperBound] at ih ⊢
    rcases Nat.lt_trichotomy c.toNat b.toNat with hlt | heq | hgt
    · -- c < b: below the prefix
      have e1 : decide (c.toNat < b.toNat) = true := by simp; omega
      have e2 : (b.toNat == c.toNat) = false := by simp; omega
      cases hu : upperBound rest <;> simp [e1, e2]
    · -- c = b: decided by the tails
      have e1 : decide (c.toNat < b.toNat) = false := by simp; omega
      have e2 : (b.toNat == c.toNat) = true := by simp; omega
      have e3 : (c.toNat == b.toNat) = true := by simp; omega
      cases hu : upperBound rest with
      | some u =>
        simp only [hu] at ih ⊢
        rw [← ih]
        simp [bytesLt, e1, e2, e3]
      | none =>
        simp only [hu] at ih ⊢
        rw [← ih]
        by_cases hff : b.toNat = 255
        · have e6 : decide (c.toNat < 255) = false := by simp; omega
          have e7 : (c.toNat == 255) = true := by simp; omega
          have e8 : (255 == c.toNat) = true := by simp; omega
          simp [hff, e6, e7, e8]
        · have hm : (b.toNat + 1) % 256 = b.toNat + 1 := Nat.mod_eq_of_lt (by omega)
          have e4 : decide (c.toNat < b.toNat + 1) = true := by simp; omega
          simp [hff, bytesLt, hm, e1, e2, e3, e4]
    · -- c > b: above the upper bound (or no prefix match when there is none)
      have e1 : decide (c.toNat < b.toNat) = false := by simp; omega
      have e2 : (b.toNat == c.toNat) = false := by simp; omega
      have e3 : (c.toNat == b.toNat) = false := by simp; omega
      cases hu : upperBound rest with
      | some u => simp [bytesLt, e1, e2, e3]
      | none =>
        by_cases hff : b.toNat = 255
        · omega
        · have hm : (b.toNat + 1) % 256 = b.toNat + 1 := Nat.mod_eq_of_lt (by omega)
          have e4 : decide (c.toNat < b.toNat + 1) = false := by simp; omega
          simp [hu, hff, bytesLt, hm, e1, e2, e3, e4, bytesLt_nil_right]

/-! ### live entries -/

theorem mem_live : ∀ (s : Store) (k v : Bytes), (k, v) ∈ s.live ↔ s.get k = some v
  | [], k, v => by simp [Store.live, Store.get]
  | (k', v') :: rest, k, v => by
    have ih := mem_live rest k v
    simp only [Store.live, Store.get, List.mem_cons, List.mem_filter, Prod.mk.injEq]
    by_cases hk : k' = k
    · subst hk
      simp
      constructor
      · intro h; exact h.symm
      · intro h; exact h.symm
    · have h1 : (k' == k) = false := by simpa using hk
      have h2 : ¬ k = k' := fun h => hk h.symm
      simp [h1, h2, ih]

theorem live_keys_distinct : ∀ (s : Store), s.live.Pairwise (fun a b => a.1 ≠ b.1)
  | [] => by simp [Store.live]
  | (k', v') :: rest => by
    simp only [Store.live, List.pairwise_cons]
    constructor
    · intro e he
      simp only [List.mem_filter] at he
      intro h
      have := he.2
      simp at this
      exact this h.symm
    · exact (live_keys_distinct rest).filter _

/-! ### the order on keys -/

theorem bytesLeq_trans (a b c : Bytes) (h1 : bytesLeq a b = true) (h2 : bytesLeq b c = true) : bytesLeq a c = true := by
  simp only [bytesLeq, Bool.not_eq_true', ] at *
  cases hca : bytesLt c a with
  | false => rfl
  | true =>
    by_cases hab : a = b
    · subst hab; rw [hca] at h2; exact absurd h2 (by simp)
    · rcases bytesLt_total a b hab with h | h
      · have := bytesLt_trans c a b hca h
        rw [this] at h2; exact absurd h2 (by simp)
      · rw [h] at h1; exact absurd h1 (by simp)

theorem bytesLeq_total (a b : Bytes) : (bytesLeq a b || bytesLeq b a) = true := by
  simp only [bytesLeq, Bool.or_eq_true, Bool.not_eq_true']
  cases h : bytesLt b a with
  | false => left; rfl
  | true => right; exact bytesLt_asymm b a h

theorem bytesLt_of_leq_ne (a b : Bytes) (h : bytesLeq a b = true) (hne : a ≠ b) : bytesLt a b = true := by
  simp only [bytesLeq, Bool.not_eq_true'] at h
  rcases bytesLt_total a b hne with h' | h'
  · exact h'
  · rw [h'] at h; exact absurd h (by simp)

/-! ### `scan`: exactly the live entries under the prefix, strictly ordered by key -/

theorem mem_scan (s : Store) (p k v : Bytes) : (k, v) ∈ s.scan p ↔ isPrefix p k = true ∧ s.get k = some v := by
  unfold Store.scan
  rw [List.mem_mergeSort, mem_live, get_filter_key (fun x => inIterRange p x) s k, inIterRange_eq_isPrefix]
  by_cases h : isPrefix p k = true <;> simp [h]

theorem scan_sorted (s : Store) (p : Bytes) : (s.scan p).Pairwise (fun a b => bytesLt a.1 b.1 = true) := by
  unfold Store.scan
  have hle : ((Store.live (s.filter (fun e => inIterRange p e.1))).mergeSort kvLe).Pairwise (fun a b => kvLe a b = true) :=
    List.pairwise_mergeSort (le := kvLe) (fun a b c h1 h2 => bytesLeq_trans a.1 b.1 c.1 h1 h2)
      (fun a b => bytesLeq_total a.1 b.1) _
  have hne : ((Store.live (s.filter (fun e => inIterRange p e.1))).mergeSort kvLe).Pairwise (fun a b => a.1 ≠ b.1) :=
    (live_keys_distinct _).perm (List.mergeSort_perm _ _).symm (fun h => fun e => h e.symm)
  exact (hle.and hne).imp (fun ⟨h1, h2⟩ => bytesLt_of_leq_ne _ _ h1 h2)

/-- Any strictly ordered list with the same entries IS the scan. -/
theorem scan_unique (s : Store) (p : Bytes) (l : List (Bytes × Bytes))
    (hs : l.Pairwise (fun a b => bytesLt a.1 b.1 = true))
    (hm : ∀ k v, (k, v) ∈ l ↔ isPrefix p k = true ∧ s.get k = some v) : s.scan p = l := by
  have hs' := scan_sorted s p
  have nd : ∀ (l' : List (Bytes × Bytes)), l'.Pairwise (fun a b => bytesLt a.1 b.1 = true) → l'.Nodup := by
    intro l' h
    exact h.imp (fun {a b} hlt heq => by
      subst heq
      rw [bytesLt_irrefl] at hlt
      exact absurd hlt (by simp))
  have hperm : List.Perm (s.scan p) l := by
    rw [List.perm_ext_iff_of_nodup (nd _ hs') (nd _ hs)]
    intro ⟨k, v⟩
    rw [mem_scan, hm]
  apply List.Perm.eq_of_pairwise (le := fun a b => bytesLt a.1 b.1 = true) _ hs' hs hperm
  intro a b _ _ h1 h2
  have := bytesLt_asymm _ _ h1
  rw [this] at h2
  exact absurd h2 (by simp)

/-! ### the per-transaction layout: one block's items under its prefix -/

/-- Block `n` holds exactly the items `vals` in old bucket `bucket`: item `i` under the key
(n, i), and NO other live key under the block's prefix. -/
def OldItems (s : Store) (bucket n : Nat) (vals : List Bytes) : Prop :=
  (∀ i (hi : i < vals.length), s.get (keyNumIdx bucket n i) = some vals[i]) ∧
  (∀ k, isPrefix (prefixNum bucket n) k = true → s.get k ≠ none → ∃ i, i < vals.length ∧ k = keyNumIdx bucket n i)

def oldEntries (bucket n : Nat) : Nat → List Bytes → List (Bytes × Bytes)
  | _, [] => []
  | i, v :: vs => (keyNumIdx bucket n i, v) :: oldEntries bucket n (i + 1) vs

theorem keyNumIdx_eq (bucket n i : Nat) : keyNumIdx bucket n i = prefixNum bucket n ++ be 8 i := by
  simp [keyNumIdx, prefixNum, dbKey]

theorem isPrefix_refl_append : ∀ (p q : Bytes), isPrefix p (p ++ q) = true
  | [], q => by simp [isPrefix]
  | a :: p, q => by simp [isPrefix, isPrefix_refl_append p q]

theorem bytesLt_keyNumIdx (bucket n i j : Nat) (hi : i < 18446744073709551616) (hj : j < 18446744073709551616) :
    bytesLt (keyNumIdx bucket n i) (keyNumIdx bucket n j) = decide (i < j) := by
  rw [keyNumIdx_eq, keyNumIdx_eq, bytesLt_append_eq_len _ _ _ _ rfl, bytesLt_irrefl]
  simp only [Bool.false_or, beq_self_eq_true, Bool.true_and]
  exact bytesLt_be 8 i j (by simpa using hi) (by simpa using hj)

theorem keyNumIdx_inj (bucket n i j : Nat) (hi : i < 18446744073709551616) (hj : j < 18446744073709551616)
    (h : keyNumIdx bucket n i = keyNumIdx bucket n j) : i = j := by
  rw [keyNumIdx_eq, keyNumIdx_eq] at h
  exact be_inj_bounded 8 i j (by simpa using hi) (by simpa using hj) (List.append_cancel_left h)

theorem mem_oldEntries (bucket n : Nat) : ∀ (vals : List Bytes) (base : Nat) (k v : Bytes),
    (k, v) ∈ oldEntries bucket n base vals ↔ ∃ i, ∃ h : i < vals.length, k = keyNumIdx bucket n (base + i) ∧ v = vals[i]
  | [], base, k, v => by simp [oldEntries]
  | x :: xs, base, k, v => by
    simp only [oldEntries, List.mem_cons, Prod.mk.injEq, mem_oldEntries bucket n xs (base + 1) k v]
    constructor
    · rintro (⟨rfl, rfl⟩ | ⟨i, hi, rfl, rfl⟩)
      · exact ⟨0, by simp, by simp, by simp⟩
      · exact ⟨i + 1, by simp; omega, by congr 1; omega, by simp⟩
    · rintro ⟨i, hi, rfl, rfl⟩
      cases i with
      | zero => left; simp
      | succ j =>
        right
        exact ⟨j, by simp at hi; omega, by congr 1; omega, by simp⟩

theorem oldEntries_sorted (bucket n : Nat) : ∀ (vals : List Bytes) (base : Nat),
    base + vals.length ≤ 18446744073709551616 →
    (oldEntries bucket n base vals).Pairwise (fun a b => bytesLt a.1 b.1 = true)
  | [], _, _ => by simp [oldEntries]
  | x :: xs, base, h => by
    simp only [oldEntries, List.pairwise_cons]
    simp only [List.length_cons] at h
    refine ⟨?_, oldEntries_sorted bucket n xs (base + 1) (by omega)⟩
    rintro ⟨k, v⟩ hm
    obtain ⟨i, hi, rfl, _⟩ := (mem_oldEntries bucket n xs (base + 1) k v).mp hm
    rw [bytesLt_keyNumIdx bucket n base (base + 1 + i) (by omega) (by omega)]
    simp; omega

theorem oldEntries_values (bucket n : Nat) : ∀ (vals : List Bytes) (base : Nat),
    (oldEntries bucket n base vals).map (·.2) = vals
  | [], _ => by simp [oldEntries]
  | x :: xs, base => by simp [oldEntries, oldEntries_values bucket n xs (base + 1)]

/-- **The scan of one block of the per-transaction layout returns its items, in index order.** -/
theorem scan_old_items (s : Store) (bucket n : Nat) (vals : List Bytes) (h : OldItems s bucket n vals)
    (hl : vals.length ≤ 18446744073709551616) : scanBlockValues s bucket n = vals := by
  unfold scanBlockValues
  rw [scan_unique s _ (oldEntries bucket n 0 vals) (oldEntries_sorted bucket n vals 0 (by omega)) ?_, oldEntries_values]
  intro k v
  rw [mem_oldEntries]
  constructor
  · rintro ⟨i, hi, rfl, rfl⟩
    refine ⟨by rw [keyNumIdx_eq]; exact isPrefix_refl_append _ _, ?_⟩
    simpa using h.1 i hi
  · rintro ⟨hp, hg⟩
    obtain ⟨i, hi, rfl⟩ := h.2 k hp (by rw [hg]; simp)
    refine ⟨i, hi, by simp, ?_⟩
    have := h.1 i hi
    rw [this] at hg
    exact (Option.some.inj hg).symm

/-! ### `ingestBlock` -/

/-- A block in the per-transaction layout whose header count agrees with the stored entries: the
migration puts the blob laid out from the RAW stored items, in index order. -/
theorem ingestBlock_old (txCount : Bytes → Option Nat) (s : Store) (n c : Nat) (txs rcs : List Bytes) (hb : Bytes)
    (hh : getHeaderByNumber s n = some hb) (hc : txCount hb = some c) (hc63 : c < 9223372036854775808)
    (ht : OldItems s bTxsByNumIdx n txs) (hr : OldItems s bRcsByNumIdx n rcs)
    (hlt : txs.length = c) (hlr : rcs.length = c) (hnb : getBlobByNumber s n = none) :
    ingestBlock txCount s n = .ok (s.put (keyBlockTransactions n) (Blob.build encRaw encRaw txs rcs).marshal) := by
  have e1 := scan_old_items s bTxsByNumIdx n txs ht (by omega)
  have e2 := scan_old_items s bRcsByNumIdx n rcs hr (by omega)
  have e3 : intOfU64 c = (c : Int) := intOfU64_small c (by unfold twoP63; omega)
  simp only [ingestBlock, hh, hc, e1, e2, e3, hnb, hlt, hlr, Option.isSome_none, Bool.false_eq_true, if_false]
  by_cases h0 : c = 0
  · subst h0; simp
  · have : ¬ ((c : Int) ≤ 0) := by omega
    simp [h0]

/-- A block that an earlier (interrupted) run already migrated — no old entries left, the
combined entry present — is left exactly as it is (never overwritten with an empty entry). -/
theorem ingestBlock_already_migrated (txCount : Bytes → Option Nat) (s : Store) (n c : Nat) (hb blob : Bytes)
    (hh : getHeaderByNumber s n = some hb) (hc : txCount hb = some c)
    (ht : OldItems s bTxsByNumIdx n []) (hr : OldItems s bRcsByNumIdx n [])
    (hbl : getBlobByNumber s n = some blob) : ingestBlock txCount s n = .ok s := by
  have e1 := scan_old_items s bTxsByNumIdx n [] ht (by simp)
  have e2 := scan_old_items s bRcsByNumIdx n [] hr (by simp)
  simp [ingestBlock, hh, hc, e1, e2, hbl]

/-- The header's count disagrees with the number of stored entries (or entries are missing): the
migration refuses — it never writes a blob that would contradict the header. -/
theorem ingestBlock_count_disagrees (txCount : Bytes → Option Nat) (s : Store) (n c : Nat) (txs rcs : List Bytes) (hb : Bytes)
    (hh : getHeaderByNumber s n = some hb) (hc : txCount hb = some c) (hc63 : c < 9223372036854775808)
    (ht : OldItems s bTxsByNumIdx n txs) (hr : OldItems s bRcsByNumIdx n rcs)
    (hl1 : txs.length < 9223372036854775808) (hl2 : rcs.length < 9223372036854775808)
    (hne : txs.length ≠ c ∨ rcs.length ≠ c) (hnb : getBlobByNumber s n = none) :
    ingestBlock txCount s n = .decodeErr := by
  have e1 := scan_old_items s bTxsByNumIdx n txs ht (by omega)
  have e2 := scan_old_items s bRcsByNumIdx n rcs hr (by omega)
  have e3 : intOfU64 c = (c : Int) := intOfU64_small c (by unfold twoP63; omega)
  simp only [ingestBlock, hh, hc, e1, e2, e3, hnb, Option.isSome_none, Bool.false_eq_true, if_false]
  repeat' split
  all_goals first | rfl | omega

/-! ### the blob built from raw items = the blob the combined writer builds from the values -/

theorem writeItems_map {α : Type} (enc : α → Bytes) : ∀ (xs : List α) (buf : Bytes),
    writeItems (fun (b : Bytes) => b) buf (xs.map enc) = writeItems enc buf xs
  | [], _ => rfl
  | x :: xs, buf => by simp [writeItems, writeItems_map enc xs]

theorem writeItems_congr {α : Type} (f g : α → Bytes) : ∀ (xs : List α) (buf : Bytes), (∀ x ∈ xs, f x = g x) →
    writeItems f buf xs = writeItems g buf xs
  | [], _, _ => rfl
  | x :: xs, buf, h => by
    simp only [writeItems, h x (List.mem_cons_self ..)]
    rw [writeItems_congr f g xs _ (fun y hy => h y (List.mem_cons_of_mem _ hy))]

theorem encRaw_nonempty (v : Bytes) (h : v ≠ []) : encRaw v = v := by
  cases v with
  | nil => exact absurd rfl h
  | cons a as => simp [encRaw]

/-- Items stored one per key by the earlier binary, re-laid out by the migration from their raw
bytes = `NewBlockTransactions` on the values themselves (no item encodes to the empty string). -/
theorem build_raw_eq {α β : Type} (encT : α → Bytes) (encR : β → Bytes) (txs : List α) (rcs : List β)
    (hT : ∀ a ∈ txs, encT a ≠ []) (hR : ∀ a ∈ rcs, encR a ≠ []) :
    Blob.build encRaw encRaw (txs.map encT) (rcs.map encR) = Blob.build encT encR txs rcs := by
  have e1 : ∀ buf, writeItems encRaw buf (txs.map encT) = writeItems encT buf txs := by
    intro buf
    rw [writeItems_congr encRaw (fun b => b) _ buf (fun x hx => by
      obtain ⟨a, ha, rfl⟩ := List.mem_map.mp hx
      exact encRaw_nonempty _ (hT a ha)), writeItems_map]
  have e2 : ∀ buf, writeItems encRaw buf (rcs.map encR) = writeItems encR buf rcs := by
    intro buf
    rw [writeItems_congr encRaw (fun b => b) _ buf (fun x hx => by
      obtain ⟨a, ha, rfl⟩ := List.mem_map.mp hx
      exact encRaw_nonempty _ (hR a ha)), writeItems_map]
  simp only [Blob.build, e1, e2]

/-! ### the old writer establishes `OldItems` -/

theorem isPrefix_head (a : UInt8) (p k : Bytes) (h : isPrefix (a :: p) k = true) : ∃ ks, k = a :: ks := by
  cases k with
  | nil => simp [isPrefix] at h
  | cons c ks =>
    simp only [isPrefix, Bool.and_eq_true, beq_iff_eq] at h
    exact ⟨ks, by rw [UInt8.toNat_inj.mp h.1]⟩

theorem mem_perTxEntries (n : Nat) : ∀ (txs rcs : List Bytes) (base : Nat) (es : List (Bytes × Bytes)),
    perTxEntries n base txs rcs = some es → ∀ k v, (k, v) ∈ es ↔
      ∃ i, ∃ h1 : i < txs.length, ∃ h2 : i < rcs.length,
        (k = keyNumIdx bTxsByNumIdx n (base + i) ∧ v = txs[i]) ∨ (k = keyNumIdx bRcsByNumIdx n (base + i) ∧ v = rcs[i])
  | [], rcs, base, es, h, k, v => by
    simp only [perTxEntries, Option.some.injEq] at h
    subst h
    simp
  | t :: ts, [], base, es, h, k, v => by simp [perTxEntries] at h
  | t :: ts, r :: rs, base, es, h, k, v => by
    simp only [perTxEntries, Option.map_eq_some_iff] at h
    obtain ⟨es', he, rfl⟩ := h
    have ih := mem_perTxEntries n ts rs (base + 1) es' he k v
    simp only [List.mem_cons, Prod.mk.injEq, ih]
    constructor
    · rintro (⟨rfl, rfl⟩ | ⟨rfl, rfl⟩ | ⟨i, h1, h2, hh⟩)
      · exact ⟨0, by simp, by simp, Or.inl ⟨by simp, by simp⟩⟩
      · exact ⟨0, by simp, by simp, Or.inr ⟨by simp, by simp⟩⟩
      · refine ⟨i + 1, by simp; omega, by simp; omega, ?_⟩
        rcases hh with ⟨rfl, rfl⟩ | ⟨rfl, rfl⟩
        · exact Or.inl ⟨by congr 1; omega, by simp⟩
        · exact Or.inr ⟨by congr 1; omega, by simp⟩
    · rintro ⟨i, h1, h2, hh⟩
      cases i with
      | zero =>
        rcases hh with ⟨rfl, rfl⟩ | ⟨rfl, rfl⟩
        · left; simp
        · right; left; simp
      | succ j =>
        right; right
        refine ⟨j, by simp at h1; omega, by simp at h2; omega, ?_⟩
        rcases hh with ⟨rfl, rfl⟩ | ⟨rfl, rfl⟩
        · exact Or.inl ⟨by congr 1; omega, by simp⟩
        · exact Or.inr ⟨by congr 1; omega, by simp⟩

theorem perTxEntries_some (n : Nat) : ∀ (txs rcs : List Bytes) (base : Nat), txs.length ≤ rcs.length →
    ∃ es, perTxEntries n base txs rcs = some es
  | [], _, _, _ => ⟨[], rfl⟩
  | t :: ts, [], _, h => by simp at h
  | t :: ts, r :: rs, base, h => by
    obtain ⟨es, he⟩ := perTxEntries_some n ts rs (base + 1) (by simpa using h)
    exact ⟨(keyNumIdx bTxsByNumIdx n base, t) :: (keyNumIdx bRcsByNumIdx n base, r) :: es, by simp [perTxEntries, he]⟩

theorem keyNumIdx_bucket_ne (n i m j : Nat) : keyNumIdx bTxsByNumIdx n i ≠ keyNumIdx bRcsByNumIdx m j := by
  simp [keyNumIdx, dbKey, bTxsByNumIdx, bRcsByNumIdx]

theorem txIndexEntries_bucket (n : Nat) : ∀ (hs : List Bytes) (i : Nat) (e : Bytes × Bytes),
    e ∈ txIndexEntries n i hs → ∃ suf, e.1 = UInt8.ofNat bTxIndexByHash :: suf
  | [], _, e, h => by simp [txIndexEntries] at h
  | x :: xs, i, e, h => by
    simp only [txIndexEntries, List.mem_cons] at h
    rcases h with rfl | h
    · exact ⟨x, rfl⟩
    · exact txIndexEntries_bucket n xs (i + 1) e h

/-- **What the earlier binary's writer stored, the earlier layout's readers return**: after
`TransactionLayoutPerTx.WriteTransactionsAndReceipts` of a block into a store that held nothing
under the block's two prefixes, the block holds exactly the transactions (bucket 10) and the first
`len(txs)` receipts (bucket 11) — so the scans return them in index order — and every key of any
other bucket than 9 / 10 / 11 reads as before. -/
theorem writePerTx_old_items (s : Store) (n : Nat) (hs txs rcs : List Bytes) (hlen : txs.length ≤ rcs.length)
    (hl : rcs.length ≤ 18446744073709551616)
    (h10 : OldItems s bTxsByNumIdx n []) (h11 : OldItems s bRcsByNumIdx n []) :
    ∃ s', writePerTx s n hs txs rcs = .ok s' ∧ OldItems s' bTxsByNumIdx n txs ∧
      OldItems s' bRcsByNumIdx n (rcs.take txs.length) ∧
      scanBlockValues s' bTxsByNumIdx n = txs ∧ scanBlockValues s' bRcsByNumIdx n = rcs.take txs.length ∧
      (∀ b suf, b ≠ UInt8.ofNat bTxIndexByHash → b ≠ UInt8.ofNat bTxsByNumIdx → b ≠ UInt8.ofNat bRcsByNumIdx →
        s'.get (b :: suf) = s.get (b :: suf)) := by
  obtain ⟨es, he⟩ := perTxEntries_some n txs rcs 0 hlen
  have hm := mem_perTxEntries n txs rcs 0 es he
  refine ⟨(s.putAll (txIndexEntries n 0 hs)).putAll es, by simp [writePerTx, he], ?_⟩
  -- reads of the item keys
  have getTx : ∀ i (hi : i < txs.length), ((s.putAll (txIndexEntries n 0 hs)).putAll es).get (keyNumIdx bTxsByNumIdx n i) = some txs[i] := by
    intro i hi
    apply get_putAll_mem
    · exact (hm _ _).mpr ⟨i, hi, by omega, Or.inl ⟨by simp, rfl⟩⟩
    · intro v' hv'
      obtain ⟨j, h1, h2, hh⟩ := (hm _ _).mp hv'
      rcases hh with ⟨e, rfl⟩ | ⟨e, _⟩
      · have : i = 0 + j := keyNumIdx_inj _ n i (0 + j) (by omega) (by omega) e
        have : i = j := by omega
        subst this; rfl
      · exact absurd e (keyNumIdx_bucket_ne n i n (0 + j))
  have getRc : ∀ i (hi : i < txs.length), ((s.putAll (txIndexEntries n 0 hs)).putAll es).get (keyNumIdx bRcsByNumIdx n i) = some (rcs[i]'(by omega)) := by
    intro i hi
    apply get_putAll_mem
    · exact (hm _ _).mpr ⟨i, hi, by omega, Or.inr ⟨by simp, rfl⟩⟩
    · intro v' hv'
      obtain ⟨j, h1, h2, hh⟩ := (hm _ _).mp hv'
      rcases hh with ⟨e, _⟩ | ⟨e, rfl⟩
      · exact absurd e.symm (keyNumIdx_bucket_ne n (0 + j) n i)
      · have : i = 0 + j := keyNumIdx_inj _ n i (0 + j) (by omega) (by omega) e
        have : i = j := by omega
        subst this; rfl
  -- a key that is not an item key of this write reads from the store below the index entries
  have getOther : ∀ k, (∀ e ∈ es, e.1 ≠ k) → (∀ suf, k ≠ UInt8.ofNat bTxIndexByHash :: suf) →
      ((s.putAll (txIndexEntries n 0 hs)).putAll es).get k = s.get k := by
    intro k h1 h2
    rw [get_putAll_other _ es k h1, get_putAll_other s _ k]
    intro e hem heq
    obtain ⟨suf, hs'⟩ := txIndexEntries_bucket n hs 0 e hem
    exact h2 suf (by rw [← heq, hs'])
  have old10 : OldItems ((s.putAll (txIndexEntries n 0 hs)).putAll es) bTxsByNumIdx n txs := by
    refine ⟨getTx, ?_⟩
    intro k hp hg
    obtain ⟨ks, rfl⟩ := isPrefix_head _ _ k (by simpa [prefixNum, dbKey] using hp)
    by_cases hin : ∃ e ∈ es, e.1 = UInt8.ofNat bTxsByNumIdx :: ks
    · obtain ⟨⟨k', v'⟩, hem, hk⟩ := hin
      obtain ⟨j, h1, h2, hh⟩ := (hm _ _).mp hem
      rcases hh with ⟨e, _⟩ | ⟨e, _⟩
      · exact ⟨j, h1, by rw [← hk]; simpa using e⟩
      · exfalso
        simp only at hk
        rw [e] at hk
        simp [keyNumIdx, dbKey, bTxsByNumIdx, bRcsByNumIdx] at hk
    · exfalso
      have h1 : ∀ e ∈ es, e.1 ≠ UInt8.ofNat bTxsByNumIdx :: ks := fun e he heq => hin ⟨e, he, heq⟩
      rw [getOther _ h1 (by intro suf; simp [bTxsByNumIdx, bTxIndexByHash])] at hg
      obtain ⟨i, hi, _⟩ := h10.2 _ hp hg
      simp at hi
  have old11 : OldItems ((s.putAll (txIndexEntries n 0 hs)).putAll es) bRcsByNumIdx n (rcs.take txs.length) := by
    constructor
    · intro i hi
      have hi' : i < txs.length := by simp at hi; omega
      rw [getRc i hi']
      simp
    · intro k hp hg
      obtain ⟨ks, rfl⟩ := isPrefix_head _ _ k (by simpa [prefixNum, dbKey] using hp)
      by_cases hin : ∃ e ∈ es, e.1 = UInt8.ofNat bRcsByNumIdx :: ks
      · obtain ⟨⟨k', v'⟩, hem, hk⟩ := hin
        obtain ⟨j, h1, h2, hh⟩ := (hm _ _).mp hem
        rcases hh with ⟨e, _⟩ | ⟨e, _⟩
        · exfalso
          simp only at hk
          rw [e] at hk
          simp [keyNumIdx, dbKey, bTxsByNumIdx, bRcsByNumIdx] at hk
        · exact ⟨j, by simp; omega, by rw [← hk]; simpa using e⟩
      · exfalso
        have h1 : ∀ e ∈ es, e.1 ≠ UInt8.ofNat bRcsByNumIdx :: ks := fun e he heq => hin ⟨e, he, heq⟩
        rw [getOther _ h1 (by intro suf; simp [bRcsByNumIdx, bTxIndexByHash])] at hg
        obtain ⟨i, hi, _⟩ := h11.2 _ hp hg
        simp at hi
  refine ⟨old10, old11, scan_old_items _ _ n txs old10 (by omega), scan_old_items _ _ n _ old11 (by simp; omega), ?_⟩
  intro b suf hb9 hb10 hb11
  apply getOther
  · intro e hem heq
    obtain ⟨j, h1, h2, hh⟩ := (hm e.1 e.2).mp hem
    rcases hh with ⟨e', _⟩ | ⟨e', _⟩
    · rw [e'] at heq
      simp only [keyNumIdx, dbKey, List.cons.injEq] at heq
      exact hb10 heq.1.symm
    · rw [e'] at heq
      simp only [keyNumIdx, dbKey, List.cons.injEq] at heq
      exact hb11 heq.1.symm
  · intro suf' heq
    simp only [List.cons.injEq] at heq
    exact hb9 heq.1

/-! ### frames: which keys a step of the migration touches -/

theorem isPrefix_iff_append : ∀ (p k : Bytes), isPrefix p k = true → ∃ x, k = p ++ x
  | [], k, _ => ⟨k, rfl⟩
  | a :: p, [], h => by simp [isPrefix] at h
  | a :: p, c :: ks, h => by
    simp only [isPrefix, Bool.and_eq_true, beq_iff_eq] at h
    obtain ⟨x, rfl⟩ := isPrefix_iff_append p ks h.2
    exact ⟨x, by rw [UInt8.toNat_inj.mp h.1]; rfl⟩

theorem get_put (s : Store) (k v k' : Bytes) : (s.put k v).get k' = if k = k' then some v else s.get k' := by
  by_cases h : k = k'
  · subst h; simp [Store.put, Store.get]
  · have : (k == k') = false := by simpa using h
    simp [Store.put, Store.get, this, h]

theorem putAll_append (s : Store) : ∀ (a b : List (Bytes × Bytes)), s.putAll (a ++ b) = (s.putAll a).putAll b
  | [], b => rfl
  | (k, v) :: a, b => by simp [Store.putAll, putAll_append (s.put k v) a b]

theorem in_range_prefixed (b lo hi n : Nat) (x : Bytes) (hlo : lo < 18446744073709551616)
    (hhi : hi < 18446744073709551616) (hn : n < 18446744073709551616) :
    (bytesLeq (keyByNumber b lo) (prefixNum b n ++ x) && bytesLt (prefixNum b n ++ x) (keyByNumber b hi)) =
      decide (lo ≤ n ∧ n < hi) := by
  have len : ∀ m, (prefixNum b n).length = (keyByNumber b m).length := by
    intro m; simp [prefixNum, keyByNumber, dbKey, be_length]
  have e1 : bytesLt (prefixNum b n ++ x) (keyByNumber b lo) = bytesLt (keyByNumber b n) (keyByNumber b lo) := by
    have := bytesLt_append_eq_len (prefixNum b n) (keyByNumber b lo) x [] (len lo)
    rw [List.append_nil] at this
    rw [this, bytesLt_nil_right]
    simp [prefixNum, keyByNumber]
  have e2 : bytesLt (prefixNum b n ++ x) (keyByNumber b hi) = bytesLt (keyByNumber b n) (keyByNumber b hi) := by
    have := bytesLt_append_eq_len (prefixNum b n) (keyByNumber b hi) x [] (len hi)
    rw [List.append_nil] at this
    rw [this, bytesLt_nil_right]
    simp [prefixNum, keyByNumber]
  simp only [bytesLeq, e1, e2, bytesLt_keyByNumber b n lo hn hlo, bytesLt_keyByNumber b n hi hn hhi]
  by_cases h1 : n < lo <;> by_cases h2 : n < hi <;> simp [h1, h2] <;> omega

theorem prefixNum_dbKey (b n : Nat) (x : Bytes) : prefixNum b n ++ x = dbKey b (be 8 n ++ x) := by
  simp [prefixNum, dbKey]

theorem get_deleteOldRange_prefixed (s : Store) (b : Nat) (hb : b = bTxsByNumIdx ∨ b = bRcsByNumIdx) (lo hi n : Nat) (x : Bytes)
    (hlo : lo < 18446744073709551616) (hhi : hi + 1 < 18446744073709551616) (hn : n < 18446744073709551616) :
    (deleteOldRange s lo hi).get (prefixNum b n ++ x) = if lo ≤ n ∧ n ≤ hi then none else s.get (prefixNum b n ++ x) := by
  have hm : (hi + 1) % twoP64 = hi + 1 := Nat.mod_eq_of_lt (by unfold twoP64; omega)
  simp only [deleteOldRange, hm]
  rcases hb with rfl | rfl
  · rw [prefixNum_dbKey, get_delRangeByNumber_other _ bRcsByNumIdx bTxsByNumIdx _ _ _ (by decide) (by decide) (by decide),
      ← prefixNum_dbKey, delRangeByNumber, get_delRange, in_range_prefixed _ lo (hi + 1) n x hlo hhi hn]
    by_cases h : lo ≤ n ∧ n ≤ hi
    · have : lo ≤ n ∧ n < hi + 1 := by omega
      simp [h, this]
    · have : ¬ (lo ≤ n ∧ n < hi + 1) := by omega
      simp [h, this]
  · rw [delRangeByNumber, get_delRange, in_range_prefixed _ lo (hi + 1) n x hlo hhi hn]
    by_cases h : lo ≤ n ∧ n ≤ hi
    · have : lo ≤ n ∧ n < hi + 1 := by omega
      simp [h, this]
    · have : ¬ (lo ≤ n ∧ n < hi + 1) := by omega
      simp only [h, this, decide_false, Bool.false_eq_true, if_false]
      rw [prefixNum_dbKey, get_delRangeByNumber_other _ bTxsByNumIdx bRcsByNumIdx _ _ _ (by decide) (by decide) (by decide)]

theorem get_deleteOldRange_other (s : Store) (b' lo hi : Nat) (suf : Bytes) (hb' : b' < 256)
    (h10 : b' ≠ bTxsByNumIdx) (h11 : b' ≠ bRcsByNumIdx) :
    (deleteOldRange s lo hi).get (dbKey b' suf) = s.get (dbKey b' suf) := by
  simp only [deleteOldRange]
  rw [get_delRangeByNumber_other _ bRcsByNumIdx b' _ _ suf (by decide) hb' (fun h => h11 h.symm),
    get_delRangeByNumber_other _ bTxsByNumIdx b' _ _ suf (by decide) hb' (fun h => h10 h.symm)]

theorem get_deleteOldRange_mono (s : Store) (lo hi : Nat) (k : Bytes) :
    (deleteOldRange s lo hi).get k = none ∨ (deleteOldRange s lo hi).get k = s.get k := by
  simp only [deleteOldRange, delRangeByNumber, get_delRange]
  split
  · left; rfl
  · split
    · left; rfl
    · right; rfl

/-! ### one pass of the migration over a database with old, already migrated and empty blocks -/

/-- What the database holds for block `n` before the pass: `D n = some (txs, rcs)` — the
per-transaction layout with exactly these items, a header whose count agrees, no combined entry;
`D n = none` — already migrated (no old entries, the combined entry present). -/
def BlockState (txCount : Bytes → Option Nat) (D : Nat → Option (List Bytes × List Bytes)) (s : Store) (n : Nat) : Prop :=
  ∃ hb c, getHeaderByNumber s n = some hb ∧ txCount hb = some c ∧ c < 9223372036854775808 ∧
    match D n with
    | some (txs, rcs) => OldItems s bTxsByNumIdx n txs ∧ OldItems s bRcsByNumIdx n rcs ∧ txs.length = c ∧ rcs.length = c ∧
        getBlobByNumber s n = none
    | none => OldItems s bTxsByNumIdx n [] ∧ OldItems s bRcsByNumIdx n [] ∧ (getBlobByNumber s n).isSome = true

/-- `s'` holds for block `n` what `s` holds (header, combined entry, everything under its two old prefixes). -/
def SameBlock (s s' : Store) (n : Nat) : Prop :=
  getHeaderByNumber s' n = getHeaderByNumber s n ∧ getBlobByNumber s' n = getBlobByNumber s n ∧
  (∀ x, s'.get (prefixNum bTxsByNumIdx n ++ x) = s.get (prefixNum bTxsByNumIdx n ++ x)) ∧
  (∀ x, s'.get (prefixNum bRcsByNumIdx n ++ x) = s.get (prefixNum bRcsByNumIdx n ++ x))

theorem SameBlock.refl (s : Store) (n : Nat) : SameBlock s s n := ⟨rfl, rfl, fun _ => rfl, fun _ => rfl⟩

theorem SameBlock.trans {s s1 s2 : Store} {n : Nat} (h1 : SameBlock s s1 n) (h2 : SameBlock s1 s2 n) : SameBlock s s2 n :=
  ⟨h2.1.trans h1.1, h2.2.1.trans h1.2.1, fun x => (h2.2.2.1 x).trans (h1.2.2.1 x), fun x => (h2.2.2.2 x).trans (h1.2.2.2 x)⟩

theorem OldItems_congr (s s' : Store) (b n : Nat) (vals : List Bytes)
    (h : ∀ x, s'.get (prefixNum b n ++ x) = s.get (prefixNum b n ++ x)) (ho : OldItems s b n vals) : OldItems s' b n vals := by
  constructor
  · intro i hi
    rw [keyNumIdx_eq, h, ← keyNumIdx_eq]
    exact ho.1 i hi
  · intro k hp hg
    obtain ⟨x, rfl⟩ := isPrefix_iff_append _ _ hp
    rw [h] at hg
    exact ho.2 _ hp hg

theorem BlockState_congr (txCount : Bytes → Option Nat) (D : Nat → Option (List Bytes × List Bytes)) (s s' : Store) (n : Nat)
    (hs : SameBlock s s' n) (h : BlockState txCount D s n) : BlockState txCount D s' n := by
  obtain ⟨hb, c, h1, h2, h3, h4⟩ := h
  refine ⟨hb, c, by rw [hs.1]; exact h1, h2, h3, ?_⟩
  cases hD : D n with
  | none =>
    simp only [hD] at h4 ⊢
    exact ⟨OldItems_congr s s' _ n _ hs.2.2.1 h4.1, OldItems_congr s s' _ n _ hs.2.2.2 h4.2.1, by rw [hs.2.1]; exact h4.2.2⟩
  | some p =>
    obtain ⟨txs, rcs⟩ := p
    simp only [hD] at h4 ⊢
    exact ⟨OldItems_congr s s' _ n _ hs.2.2.1 h4.1, OldItems_congr s s' _ n _ hs.2.2.2 h4.2.1, h4.2.2.1, h4.2.2.2.1,
      by rw [hs.2.1]; exact h4.2.2.2.2⟩

def newBlob (D : Nat → Option (List Bytes × List Bytes)) (n : Nat) : Option Bytes :=
  (D n).map fun p => (Blob.build encRaw encRaw p.1 p.2).marshal

/-- The combined entries one block / a run of blocks adds. -/
def blobPut (D : Nat → Option (List Bytes × List Bytes)) (n : Nat) : List (Bytes × Bytes) :=
  match newBlob D n with
  | some b => [(keyBlockTransactions n, b)]
  | none => []

def blobPuts (D : Nat → Option (List Bytes × List Bytes)) : Nat → Nat → List (Bytes × Bytes)
  | _, 0 => []
  | n, k + 1 => blobPut D n ++ blobPuts D (n + 1) k

theorem ingestBlock_state (txCount : Bytes → Option Nat) (D : Nat → Option (List Bytes × List Bytes)) (s : Store) (n : Nat)
    (h : BlockState txCount D s n) : ingestBlock txCount s n = .ok (s.putAll (blobPut D n)) := by
  obtain ⟨hb, c, h1, h2, h3, h4⟩ := h
  cases hD : D n with
  | none =>
    simp only [hD] at h4
    obtain ⟨blob, hbl⟩ := Option.isSome_iff_exists.mp h4.2.2
    rw [ingestBlock_already_migrated txCount s n c hb blob h1 h2 h4.1 h4.2.1 hbl]
    simp [blobPut, newBlob, hD, Store.putAll]
  | some p =>
    obtain ⟨txs, rcs⟩ := p
    simp only [hD] at h4
    rw [ingestBlock_old txCount s n c txs rcs hb h1 h2 h3 h4.1 h4.2.1 h4.2.2.1 h4.2.2.2.1 h4.2.2.2.2]
    simp [blobPut, newBlob, hD, Store.putAll]

theorem mem_blobPuts (D : Nat → Option (List Bytes × List Bytes)) : ∀ (k n : Nat) (e : Bytes × Bytes),
    e ∈ blobPuts D n k → ∃ m b, n ≤ m ∧ m < n + k ∧ newBlob D m = some b ∧ e = (keyBlockTransactions m, b)
  | 0, _, e, h => by simp [blobPuts] at h
  | k + 1, n, e, h => by
    simp only [blobPuts, List.mem_append] at h
    rcases h with h | h
    · unfold blobPut at h
      cases hb : newBlob D n with
      | none => simp [hb] at h
      | some b =>
        simp only [hb, List.mem_singleton] at h
        exact ⟨n, b, by omega, by omega, hb, h⟩
    · obtain ⟨m, b, h1, h2, h3, h4⟩ := mem_blobPuts D k (n + 1) e h
      exact ⟨m, b, by omega, by omega, h3, h4⟩

/-- Combined entries of OTHER blocks do not touch what block `n` holds. -/
theorem sameBlock_putAll (s : Store) (es : List (Bytes × Bytes)) (n : Nat) (hn : n < 18446744073709551616)
    (h : ∀ e ∈ es, ∃ m, m ≠ n ∧ m < 18446744073709551616 ∧ e.1 = keyBlockTransactions m) : SameBlock s (s.putAll es) n := by
  refine ⟨?_, ?_, ?_, ?_⟩
  · apply get_putAll_other
    intro e he heq
    obtain ⟨m, _, _, hk⟩ := h e he
    rw [hk] at heq
    simp [keyBlockTransactions, keyByNumber, dbKey, bBlockTransactions, bBlockHeadersByNumber] at heq
  · apply get_putAll_other
    intro e he heq
    obtain ⟨m, hne, hm, hk⟩ := h e he
    rw [hk] at heq
    exact hne (keyBlockTransactions_inj m n hm hn heq)
  · intro x
    apply get_putAll_other
    intro e he heq
    obtain ⟨m, _, _, hk⟩ := h e he
    rw [hk] at heq
    simp [keyBlockTransactions, prefixNum, dbKey, bBlockTransactions, bTxsByNumIdx] at heq
  · intro x
    apply get_putAll_other
    intro e he heq
    obtain ⟨m, _, _, hk⟩ := h e he
    rw [hk] at heq
    simp [keyBlockTransactions, prefixNum, dbKey, bBlockTransactions, bRcsByNumIdx] at heq

theorem ingestFrom_state (txCount : Bytes → Option Nat) (D : Nat → Option (List Bytes × List Bytes)) :
    ∀ (k n : Nat) (s : Store), n + k ≤ 18446744073709551616 →
      (∀ m, n ≤ m → m < n + k → BlockState txCount D s m) →
      ingestFrom txCount s n k = .ok (s.putAll (blobPuts D n k))
  | 0, _, s, _, _ => by simp [ingestFrom, blobPuts, Store.putAll]
  | k + 1, n, s, hb, h => by
    simp only [ingestFrom, ingestBlock_state txCount D s n (h n (by omega) (by omega)), Res.bind, blobPuts, putAll_append]
    apply ingestFrom_state txCount D k (n + 1) _ (by omega)
    intro m h1 h2
    apply BlockState_congr txCount D s _ m _ (h m (by omega) (by omega))
    apply sameBlock_putAll s _ m (by omega)
    intro e he
    unfold blobPut at he
    cases hbn : newBlob D n with
    | none => simp [hbn] at he
    | some b =>
      simp only [hbn, List.mem_singleton] at he
      exact ⟨n, by omega, by omega, by rw [he]⟩

/-- What a pass over the blocks `lo … hi` leaves, relative to the store it started from. -/
structure PassPost (D : Nat → Option (List Bytes × List Bytes)) (s s' : Store) (lo hi : Nat) : Prop where
  /-- an old block's combined entry is the blob built from its raw items; an already migrated one keeps its entry -/
  blob : ∀ n, lo ≤ n → n ≤ hi → getBlobByNumber s' n = (match newBlob D n with | some b => some b | none => getBlobByNumber s n)
  /-- nothing is left under the blocks' old prefixes -/
  gone : ∀ n, lo ≤ n → n ≤ hi → ∀ b, (b = bTxsByNumIdx ∨ b = bRcsByNumIdx) → ∀ x, s'.get (prefixNum b n ++ x) = none
  /-- blocks outside the range are as they were -/
  same : ∀ n, n < 18446744073709551616 → (n < lo ∨ hi < n) → SameBlock s s' n
  /-- every other bucket is as it was -/
  other : ∀ b' suf, b' < 256 → b' ≠ bTxsByNumIdx → b' ≠ bRcsByNumIdx → b' ≠ bBlockTransactions →
    s'.get (dbKey b' suf) = s.get (dbKey b' suf)
  /-- nothing appears in the old buckets -/
  mono : ∀ b suf, (b = bTxsByNumIdx ∨ b = bRcsByNumIdx) → s'.get (dbKey b suf) = none ∨ s'.get (dbKey b suf) = s.get (dbKey b suf)

theorem mem_blobPuts_of (D : Nat → Option (List Bytes × List Bytes)) : ∀ (k n m : Nat) (b : Bytes),
    n ≤ m → m < n + k → newBlob D m = some b → (keyBlockTransactions m, b) ∈ blobPuts D n k
  | 0, n, m, b, h1, h2, _ => by omega
  | k + 1, n, m, b, h1, h2, h3 => by
    simp only [blobPuts, List.mem_append]
    by_cases hm : m = n
    · subst hm
      left
      simp [blobPut, h3]
    · right
      exact mem_blobPuts_of D k (n + 1) m b (by omega) (by omega) h3

theorem blobPuts_keys (D : Nat → Option (List Bytes × List Bytes)) (k n : Nat) (e : Bytes × Bytes) (he : e ∈ blobPuts D n k) :
    ∃ suf, e.1 = dbKey bBlockTransactions suf := by
  obtain ⟨m, b, _, _, _, rfl⟩ := mem_blobPuts D k n e he
  exact ⟨_, rfl⟩

theorem range_post (txCount : Bytes → Option Nat) (D : Nat → Option (List Bytes × List Bytes)) (s : Store) (lo hi : Nat)
    (hlh : lo ≤ hi) (hh : hi + 1 < 18446744073709551616) :
    PassPost D s (deleteOldRange (s.putAll (blobPuts D lo (hi + 1 - lo))) lo hi) lo hi := by
  have hne40 : ∀ (b' : Nat) (suf : Bytes) (e : Bytes × Bytes), b' < 256 → b' ≠ bBlockTransactions →
      e ∈ blobPuts D lo (hi + 1 - lo) → e.1 ≠ dbKey b' suf := by
    intro b' suf e hb' hne he heq
    obtain ⟨suf', hk⟩ := blobPuts_keys D _ _ e he
    rw [hk] at heq
    simp only [dbKey, List.cons.injEq] at heq
    have := congrArg UInt8.toNat heq.1
    rw [u8_toNat_ofNat _ (by decide), u8_toNat_ofNat _ hb'] at this
    exact hne this.symm
  have sameOut : ∀ n, n < 18446744073709551616 → (n < lo ∨ hi < n) → SameBlock s (s.putAll (blobPuts D lo (hi + 1 - lo))) n := by
    intro n hn hout
    apply sameBlock_putAll s _ n hn
    intro e he
    obtain ⟨m, b, h1, h2, _, rfl⟩ := mem_blobPuts D _ _ e he
    exact ⟨m, by omega, by omega, rfl⟩
  constructor
  · intro n h1 h2
    have : getBlobByNumber (deleteOldRange (s.putAll (blobPuts D lo (hi + 1 - lo))) lo hi) n =
        (s.putAll (blobPuts D lo (hi + 1 - lo))).get (keyBlockTransactions n) := by
      simp only [getBlobByNumber, keyBlockTransactions]
      exact get_deleteOldRange_other _ bBlockTransactions lo hi _ (by decide) (by decide) (by decide)
    rw [this]
    cases hb : newBlob D n with
    | some b =>
      simp only
      apply get_putAll_mem _ _ _ _ (mem_blobPuts_of D _ lo n b h1 (by omega) hb)
      intro v' hv'
      obtain ⟨m, b', _, h4, h5, h6⟩ := mem_blobPuts D _ _ _ hv'
      simp only [Prod.mk.injEq] at h6
      have : n = m := keyBlockTransactions_inj n m (by omega) (by omega) h6.1
      subst this
      rw [hb] at h5
      rw [h6.2]; exact (Option.some.inj h5).symm
    | none =>
      simp only [getBlobByNumber]
      apply get_putAll_other
      intro e he heq
      obtain ⟨m, b', _, h4, h5, rfl⟩ := mem_blobPuts D _ _ e he
      have : m = n := keyBlockTransactions_inj m n (by omega) (by omega) heq
      subst this
      rw [hb] at h5; exact absurd h5 (by simp)
  · intro n h1 h2 b hb x
    rw [get_deleteOldRange_prefixed _ b hb lo hi n x (by omega) hh (by omega)]
    simp [h1, h2]
  · intro n hn hout
    apply (sameOut n hn hout).trans
    refine ⟨?_, ?_, ?_, ?_⟩
    · simp only [getHeaderByNumber, keyByNumber]
      exact get_deleteOldRange_other _ bBlockHeadersByNumber lo hi _ (by decide) (by decide) (by decide)
    · simp only [getBlobByNumber, keyBlockTransactions]
      exact get_deleteOldRange_other _ bBlockTransactions lo hi _ (by decide) (by decide) (by decide)
    · intro x
      rw [get_deleteOldRange_prefixed _ _ (Or.inl rfl) lo hi n x (by omega) hh hn]
      have : ¬ (lo ≤ n ∧ n ≤ hi) := by omega
      simp [this]
    · intro x
      rw [get_deleteOldRange_prefixed _ _ (Or.inr rfl) lo hi n x (by omega) hh hn]
      have : ¬ (lo ≤ n ∧ n ≤ hi) := by omega
      simp [this]
  · intro b' suf hb' h10 h11 h40
    rw [get_deleteOldRange_other _ b' lo hi suf hb' h10 h11]
    exact get_putAll_other _ _ _ (fun e he => hne40 b' suf e hb' h40 he)
  · intro b suf hb
    have e : (s.putAll (blobPuts D lo (hi + 1 - lo))).get (dbKey b suf) = s.get (dbKey b suf) := by
      apply get_putAll_other
      intro e he
      rcases hb with rfl | rfl
      · exact hne40 _ suf e (by decide) (by decide) he
      · exact hne40 _ suf e (by decide) (by decide) he
    rw [← e]
    exact get_deleteOldRange_mono _ lo hi _

theorem PassPost.comp {D : Nat → Option (List Bytes × List Bytes)} {s s1 s2 : Store} {lo e hi : Nat}
    (h1 : PassPost D s s1 lo e) (h2 : PassPost D s1 s2 (e + 1) hi) (hle : lo ≤ e + 1) (heh : e ≤ hi)
    (hhi : hi < 18446744073709551616) :
    PassPost D s s2 lo hi := by
  constructor
  · intro n a b
    by_cases hn : n ≤ e
    · rw [(h2.same n (by omega) (Or.inl (by omega))).2.1]
      exact h1.blob n a hn
    · rw [h2.blob n (by omega) b]
      cases newBlob D n with
      | some b => rfl
      | none => exact (h1.same n (by omega) (Or.inr (by omega))).2.1
  · intro n a b bk hbk x
    by_cases hn : n ≤ e
    · have sm := h2.same n (by omega) (Or.inl (by omega))
      rcases hbk with rfl | rfl
      · rw [sm.2.2.1]; exact h1.gone n a hn _ (Or.inl rfl) x
      · rw [sm.2.2.2]; exact h1.gone n a hn _ (Or.inr rfl) x
    · exact h2.gone n (by omega) b bk hbk x
  · intro n hn hout
    exact (h1.same n hn (by omega)).trans (h2.same n hn (by omega))
  · intro b' suf hb' h10 h11 h40
    rw [h2.other b' suf hb' h10 h11 h40, h1.other b' suf hb' h10 h11 h40]
  · intro b suf hb
    rcases h2.mono b suf hb with h | h
    · left; exact h
    · rw [h]; exact h1.mono b suf hb

/-- **One pass of the migration** (`migrateBlockRange`: ranges of `batchSize` blocks, each ingested
and its old entries range-deleted) over ANY mix of blocks in the per-transaction layout and blocks
already migrated: it succeeds, every old block gets the blob built from its raw items, every
migrated block keeps its entry, the old prefixes of the range are empty, nothing else changes. -/
theorem passLoop_spec (txCount : Bytes → Option Nat) (D : Nat → Option (List Bytes × List Bytes)) :
    ∀ (k : Nat) (s : Store) (start h : Nat), h + 1 < 18446744073709551616 → (start ≤ h → (h - start) / 10 < k) →
      (∀ m, start ≤ m → m ≤ h → BlockState txCount D s m) →
      ∃ s', passLoop txCount s start h k = .ok s' ∧ PassPost D s s' start h
  | 0, s, start, h, _, hk, _ => by
    have hgt : h < start := by
      by_cases hc : start ≤ h
      · exact absurd (hk hc) (by omega)
      · omega
    exact ⟨s, rfl, ⟨fun n a b => by omega, fun n a b => by omega, fun n _ _ => SameBlock.refl s n,
      fun _ _ _ _ _ _ => rfl, fun _ _ _ => Or.inr rfl⟩⟩
  | k + 1, s, start, h, hh, hk, hst => by
    by_cases hgt : start > h
    · refine ⟨s, by simp [passLoop, hgt], ⟨fun n a b => by omega, fun n a b => by omega, fun n _ _ => SameBlock.refl s n,
        fun _ _ _ _ _ _ => rfl, fun _ _ _ => Or.inr rfl⟩⟩
    · have hle : start ≤ h := by omega
      obtain ⟨e, hedef⟩ : ∃ e, e = min (start + batchSize - 1) h := ⟨_, rfl⟩
      have he : e ≤ h := by rw [hedef]; exact Nat.min_le_right _ _
      have he9 : e ≤ start + 9 := by
        rw [hedef]; have := Nat.min_le_left (start + batchSize - 1) h; simp only [batchSize] at this ⊢; omega
      have hs : start ≤ e := by rw [hedef]; simp [batchSize, Nat.le_min]; omega
      have hcase : (e = start + 9 ∧ start + 9 < h) ∨ e = h := by
        rw [hedef]
        by_cases hl : start + batchSize - 1 < h
        · left; simp only [batchSize] at hl ⊢; exact ⟨Nat.min_eq_left (by omega), by omega⟩
        · right; exact Nat.min_eq_right (by omega)
      have hr : ingestBlockRange txCount s start (min (start + batchSize - 1) h) =
          .ok (deleteOldRange (s.putAll (blobPuts D start (e + 1 - start))) start e) := by
        rw [← hedef]
        simp only [ingestBlockRange]
        rw [ingestFrom_state txCount D _ start s (by omega) (fun m h1 h2 => hst m h1 (by omega))]
        rfl
      have post := range_post txCount D s start e hs (by omega)
      have hst1 : ∀ m, start + batchSize ≤ m → m ≤ h → BlockState txCount D
          (deleteOldRange (s.putAll (blobPuts D start (e + 1 - start))) start e) m := by
        intro m h1 h2
        apply BlockState_congr txCount D s _ m _ (hst m (by simp only [batchSize] at h1; omega) h2)
        apply post.same m (by omega)
        right
        simp only [batchSize] at h1
        omega
      obtain ⟨s', hrun, hpost⟩ := passLoop_spec txCount D k
        (deleteOldRange (s.putAll (blobPuts D start (e + 1 - start))) start e)
        (start + batchSize) h hh
        (by intro hc; have := hk hle; simp only [batchSize] at hc ⊢; omega) hst1
      refine ⟨s', by simp only [passLoop, hgt, if_false, hr, Res.bind]; exact hrun, ?_⟩
      rcases hcase with ⟨he1, hlt⟩ | he2
      · have hb : start + batchSize = e + 1 := by simp only [batchSize]; omega
        rw [hb] at hpost
        exact post.comp hpost (by omega) (by omega) (by omega)
      · -- the remaining call starts above the height: it returns its store unchanged
        have hpost' : PassPost D (deleteOldRange (s.putAll (blobPuts D start (e + 1 - start))) start e) s' (e + 1) h :=
          ⟨fun n a b => by omega, fun n a b => by omega,
            fun n hn hout => hpost.same n hn (by simp only [batchSize]; omega),
            hpost.other, hpost.mono⟩
        exact post.comp hpost' (by omega) (by omega) (by omega)

/-! ### the whole migration -/

theorem scan_congr (s s' : Store) (p : Bytes) (h : ∀ k, isPrefix p k = true → s'.get k = s.get k) : s'.scan p = s.scan p := by
  apply scan_unique s' p (s.scan p) (scan_sorted s p)
  intro k v
  rw [mem_scan]
  constructor
  · rintro ⟨h1, h2⟩; exact ⟨h1, by rw [h k h1]; exact h2⟩
  · rintro ⟨h1, h2⟩; exact ⟨h1, by rw [← h k h1]; exact h2⟩

theorem scan_empty (s : Store) (p : Bytes) (h : ∀ k, isPrefix p k = true → s.get k = none) : s.scan p = [] := by
  apply scan_unique s p [] (by simp)
  intro k v
  constructor
  · intro hm; simp at hm
  · rintro ⟨h1, h2⟩; rw [h k h1] at h2; exact absurd h2 (by simp)

theorem isPrefix_bucket (b : Nat) (k : Bytes) (h : isPrefix [UInt8.ofNat b] k = true) : ∃ suf, k = dbKey b suf := by
  obtain ⟨x, rfl⟩ := isPrefix_iff_append _ _ h
  exact ⟨x, rfl⟩

theorem firstNumberIn_empty (s : Store) (b : Nat) (h : ∀ suf, s.get (dbKey b suf) = none) : firstNumberIn s b = .ok none := by
  have : s.scan [UInt8.ofNat b] = [] := by
    apply scan_empty
    intro k hk
    obtain ⟨suf, rfl⟩ := isPrefix_bucket b k hk
    exact h suf
  simp [firstNumberIn, this]

theorem get_wipeBucket_self (s : Store) (b : Nat) (suf : Bytes) (hb : b + 1 < 256) : (wipeBucket s b).get (dbKey b suf) = none := by
  rw [wipeBucket, get_delRange]
  have t1 := u8_toNat_ofNat b (by omega)
  have t3 := u8_toNat_ofNat (b + 1) hb
  have : (bytesLeq [UInt8.ofNat b] (dbKey b suf) && bytesLt (dbKey b suf) [UInt8.ofNat (b + 1)]) = true := by
    simp only [dbKey, bytesLeq, bytesLt, t1, t3, bytesLt_nil_right]
    simp
  rw [this]
  rfl

/-- `backfillEmptyBlocks` over the blocks `n, n+1, …`: every block that has no combined entry has a
header whose (projected) transaction count is 0. All of them end with a combined entry — the one
they had, or the empty blob — and nothing else changes. -/
theorem backfillFrom_spec (txCountP : Bytes → Option Nat) : ∀ (k n : Nat) (s : Store), n + k ≤ 18446744073709551616 →
    (∀ m, n ≤ m → m < n + k → (getBlobByNumber s m).isSome = true ∨
      ∃ hb, getHeaderByNumber s m = some hb ∧ txCountP hb = some 0) →
    ∃ s', backfillFrom txCountP s n k = .ok s' ∧
      (∀ m, n ≤ m → m < n + k → getBlobByNumber s' m = (match getBlobByNumber s m with | some b => some b | none => some emptyBlob)) ∧
      (∀ key, (∀ m, n ≤ m → m < n + k → key ≠ keyBlockTransactions m) → s'.get key = s.get key)
  | 0, n, s, _, _ => ⟨s, rfl, fun m a b => by omega, fun _ _ => rfl⟩
  | k + 1, n, s, hb, h => by
    rcases hbl : getBlobByNumber s n with _ | blob
    · -- no combined entry: the header says 0 transactions, the empty blob is written
      rcases h n (by omega) (by omega) with h0 | ⟨hdr, h1, h2⟩
      · rw [hbl] at h0; exact absurd h0 (by simp)
      · have hstep : ∀ m, n + 1 ≤ m → m < n + 1 + k →
            getBlobByNumber (s.put (keyBlockTransactions n) emptyBlob) m = getBlobByNumber s m ∧
            getHeaderByNumber (s.put (keyBlockTransactions n) emptyBlob) m = getHeaderByNumber s m := by
          intro m a b
          constructor
          · simp only [getBlobByNumber, get_put]
            have : keyBlockTransactions n ≠ keyBlockTransactions m := fun e => by
              have := keyBlockTransactions_inj n m (by omega) (by omega) e; omega
            simp [this]
          · simp only [getHeaderByNumber, get_put]
            have : keyBlockTransactions n ≠ keyByNumber bBlockHeadersByNumber m := by
              simp [keyBlockTransactions, keyByNumber, dbKey, bBlockTransactions, bBlockHeadersByNumber]
            simp [this]
        obtain ⟨s', hr, hblobs, hother⟩ := backfillFrom_spec txCountP k (n + 1) (s.put (keyBlockTransactions n) emptyBlob) (by omega)
          (by
            intro m a b
            rw [(hstep m a b).1, (hstep m a b).2]
            exact h m (by omega) (by omega))
        refine ⟨s', by simp [backfillFrom, hbl, h1, h2]; exact hr, ?_, ?_⟩
        · intro m a b
          by_cases hm : m = n
          · subst hm
            rw [hbl]
            have := hother (keyBlockTransactions m) (fun m' a' b' e => by
              have := keyBlockTransactions_inj m m' (by omega) (by omega) e; omega)
            simp only [getBlobByNumber, this, get_put]
            simp
          · rw [hblobs m (by omega) (by omega), (hstep m (by omega) (by omega)).1]
        · intro key hk
          rw [hother key (fun m a b => hk m (by omega) (by omega)), get_put]
          have : keyBlockTransactions n ≠ key := fun e => hk n (by omega) (by omega) e.symm
          simp [this]
    · obtain ⟨s', hr, hblobs, hother⟩ := backfillFrom_spec txCountP k (n + 1) s (by omega) (fun m a b => h m (by omega) (by omega))
      refine ⟨s', by simp [backfillFrom, hbl]; exact hr, ?_, ?_⟩
      · intro m a b
        by_cases hm : m = n
        · subst hm
          rw [hbl]
          have := hother (keyBlockTransactions m) (fun m' a' b' e => by
            have := keyBlockTransactions_inj m m' (by omega) (by omega) e; omega)
          simp only [getBlobByNumber] at hbl ⊢
          rw [this, hbl]
        · exact hblobs m (by omega) (by omega)
      · intro key hk
        exact hother key (fun m a b => hk m (by omega) (by omega))

theorem oldestRetained_congr (s s' : Store) (h : ∀ suf, s'.get (dbKey bBlockCommitments suf) = s.get (dbKey bBlockCommitments suf)) :
    oldestRetained s' = oldestRetained s := by
  have : s'.scan [UInt8.ofNat bBlockCommitments] = s.scan [UInt8.ofNat bBlockCommitments] := by
    apply scan_congr
    intro k hk
    obtain ⟨suf, rfl⟩ := isPrefix_bucket _ k hk
    exact h suf
  simp [oldestRetained, this]

theorem newBlob_none_iff (D : Nat → Option (List Bytes × List Bytes)) (n : Nat) : newBlob D n = none ↔ D n = none := by
  simp [newBlob]

/-- **The whole upgrade** (`Migrator.Migrate` after the chain height is read): a database whose
blocks `first … h` are each either in the per-transaction layout (header count = number of stored
entries) or already migrated, whose old buckets hold nothing outside those blocks, and whose
earlier retained blocks `o … first-1` have a combined entry or an empty header. Two turns of the
loop: the pass rewrites `first … h`, the second turn finds the old buckets empty, back-fills the
empty blocks below `first` and clears the old buckets. Result: every old block's combined entry is
the blob of its raw items, migrated blocks keep theirs, blocks without transactions get the empty
blob, the old buckets are empty and EVERY OTHER BUCKET IS UNTOUCHED. -/
theorem btLoop_spec (txCount txCountP : Bytes → Option Nat) (D : Nat → Option (List Bytes × List Bytes)) (s : Store)
    (first h o fuel : Nat) (oo : Option Nat) (hfuel : 2 ≤ fuel) (hh : h + 1 < 18446744073709551616) (hfh : first ≤ h)
    (hof : o ≤ first) (hfirst : firstBlockToMigrate s = .ok (some first))
    (hold : oldestRetained s = .ok oo) (ho : oo.getD 0 = o)
    (hst : ∀ m, first ≤ m → m ≤ h → BlockState txCount D s m)
    (hcover : ∀ b suf, (b = bTxsByNumIdx ∨ b = bRcsByNumIdx) → s.get (dbKey b suf) ≠ none →
      ∃ n x, first ≤ n ∧ n ≤ h ∧ dbKey b suf = prefixNum b n ++ x)
    (hlow : ∀ m, o ≤ m → m < first → (getBlobByNumber s m).isSome = true ∨
      ∃ hb, getHeaderByNumber s m = some hb ∧ txCountP hb = some 0) :
    ∃ s', btLoop txCount txCountP s h fuel = .ok s' ∧
      (∀ n, first ≤ n → n ≤ h → getBlobByNumber s' n = (match newBlob D n with | some b => some b | none => getBlobByNumber s n)) ∧
      (∀ n, o ≤ n → n < first → getBlobByNumber s' n = (match getBlobByNumber s n with | some b => some b | none => some emptyBlob)) ∧
      (∀ b suf, (b = bTxsByNumIdx ∨ b = bRcsByNumIdx) → s'.get (dbKey b suf) = none) ∧
      (∀ b' suf, b' < 256 → b' ≠ bTxsByNumIdx → b' ≠ bRcsByNumIdx → b' ≠ bBlockTransactions →
        s'.get (dbKey b' suf) = s.get (dbKey b' suf)) := by
  obtain ⟨f1, rfl⟩ : ∃ f1, fuel = f1 + 2 := ⟨fuel - 2, by omega⟩
  -- turn 1: the pass
  obtain ⟨s1, hpass, post⟩ := passLoop_spec txCount D ((h - first) / batchSize + 1) s first h hh
    (by intro _; simp only [batchSize]; omega) hst
  -- the old buckets are empty afterwards
  have hgone : ∀ b suf, (b = bTxsByNumIdx ∨ b = bRcsByNumIdx) → s1.get (dbKey b suf) = none := by
    intro b suf hb
    rcases post.mono b suf hb with hn | he
    · exact hn
    · by_cases hs : s.get (dbKey b suf) = none
      · rw [he]; exact hs
      · obtain ⟨n, x, h1, h2, hk⟩ := hcover b suf hb hs
        rw [hk]
        exact post.gone n h1 h2 b hb x
  have hf1 : firstBlockToMigrate s1 = .ok none := by
    simp [firstBlockToMigrate, firstNumberIn_empty s1 _ (fun suf => hgone _ suf (Or.inl rfl)),
      firstNumberIn_empty s1 _ (fun suf => hgone _ suf (Or.inr rfl)), Res.bind]
  -- turn 2: back-fill from the oldest retained block
  have hold1 : oldestRetained s1 = .ok oo := by
    rw [oldestRetained_congr s s1 (fun suf => post.other _ suf (by decide) (by decide) (by decide) (by decide))]
    exact hold
  obtain ⟨s2, hback, hblobs, hother⟩ := backfillFrom_spec txCountP (h + 1 - o) o s1 (by omega)
    (by
      intro m a b
      by_cases hm : m < first
      · have sm := post.same m (by omega) (Or.inl hm)
        rw [sm.2.1, sm.1]
        exact hlow m a hm
      · left
        rw [post.blob m (by omega) (by omega)]
        cases hb : newBlob D m with
        | some b => rfl
        | none =>
          obtain ⟨_, _, _, _, _, h4⟩ := hst m (by omega) (by omega)
          rw [(newBlob_none_iff D m).mp hb] at h4
          exact h4.2.2)
  refine ⟨clearOldBuckets s2, ?_, ?_, ?_, ?_, ?_⟩
  · have hnf : ¬ first > h := by omega
    simp only [btLoop, hfirst, Res.bind, hnf, if_false, migratePass, hpass, hf1, backfillEmptyBlocks, hold1, ho, hback, Res.map]
  · intro n a b
    have e1 : getBlobByNumber (clearOldBuckets s2) n = getBlobByNumber s2 n := by
      simp only [getBlobByNumber, clearOldBuckets, keyBlockTransactions]
      rw [get_wipeBucket_other _ bRcsByNumIdx bBlockTransactions _ (by decide) (by decide) (by decide),
        get_wipeBucket_other _ bTxsByNumIdx bBlockTransactions _ (by decide) (by decide) (by decide)]
    rw [e1, hblobs n (by omega) (by omega), post.blob n a b]
    cases hb : newBlob D n with
    | some b => rfl
    | none =>
      obtain ⟨_, _, _, _, _, h4⟩ := hst n a b
      rw [(newBlob_none_iff D n).mp hb] at h4
      obtain ⟨blob, hbl⟩ := Option.isSome_iff_exists.mp h4.2.2
      simp [hbl]
  · intro n a b
    have e1 : getBlobByNumber (clearOldBuckets s2) n = getBlobByNumber s2 n := by
      simp only [getBlobByNumber, clearOldBuckets, keyBlockTransactions]
      rw [get_wipeBucket_other _ bRcsByNumIdx bBlockTransactions _ (by decide) (by decide) (by decide),
        get_wipeBucket_other _ bTxsByNumIdx bBlockTransactions _ (by decide) (by decide) (by decide)]
    rw [e1, hblobs n (by omega) (by omega), (post.same n (by omega) (Or.inl b)).2.1]
  · intro b suf hb
    simp only [clearOldBuckets]
    rcases hb with rfl | rfl
    · rw [get_wipeBucket_other _ bRcsByNumIdx bTxsByNumIdx _ (by decide) (by decide) (by decide)]
      exact get_wipeBucket_self _ _ _ (by decide)
    · exact get_wipeBucket_self _ _ _ (by decide)
  · intro b' suf hb' h10 h11 h40
    simp only [clearOldBuckets]
    rw [get_wipeBucket_other _ bRcsByNumIdx b' _ (by decide) hb' (fun e => h11 e.symm),
      get_wipeBucket_other _ bTxsByNumIdx b' _ (by decide) hb' (fun e => h10 e.symm),
      hother _ (fun m _ _ e => by
        simp only [keyBlockTransactions, dbKey, List.cons.injEq] at e
        have := congrArg UInt8.toNat e.1
        rw [u8_toNat_ofNat _ hb', u8_toNat_ofNat _ (by decide)] at this
        exact h40 this),
      post.other b' suf hb' h10 h11 h40]

/-! ### concrete stores (for the non-vacuity examples): everything by `decide` -/

theorem get_some_mem : ∀ (s : Store) (k v : Bytes), s.get k = some v → (k, v) ∈ s
  | [], _, _, h => by simp [Store.get] at h
  | (k', v') :: rest, k, v, h => by
    simp only [Store.get] at h
    by_cases hk : (k' == k) = true
    · simp only [hk, if_true, Option.some.injEq] at h
      have : k' = k := by simpa using hk
      subst this; subst h
      exact List.mem_cons_self ..
    · have hk' : (k' == k) = false := by simpa using hk
      simp only [hk'] at h
      exact List.mem_cons_of_mem _ (get_some_mem rest k v h)

theorem get_of_mem_nodup : ∀ (s : Store) (k v : Bytes), (s.map (·.1)).Nodup → (k, v) ∈ s → s.get k = some v
  | [], _, _, _, h => by simp at h
  | (k', v') :: rest, k, v, hnd, hm => by
    simp only [List.map_cons, List.nodup_cons] at hnd
    rcases List.mem_cons.mp hm with h | h
    · simp only [Prod.mk.injEq] at h
      obtain ⟨rfl, rfl⟩ := h
      simp [Store.get]
    · have hne : k' ≠ k := by
        intro e; subst e
        exact hnd.1 (List.mem_map.mpr ⟨(k', v), h, rfl⟩)
      have : (k' == k) = false := by simpa using hne
      simp only [Store.get, this]
      exact get_of_mem_nodup rest k v hnd.2 h

theorem scan_concrete (s : Store) (p : Bytes) (l : List (Bytes × Bytes)) (hnd : (s.map (·.1)).Nodup)
    (hs : l.Pairwise (fun a b => bytesLt a.1 b.1 = true))
    (h1 : ∀ e ∈ l, e ∈ s ∧ isPrefix p e.1 = true) (h2 : ∀ e ∈ s, isPrefix p e.1 = true → e ∈ l) : s.scan p = l := by
  apply scan_unique s p l hs
  intro k v
  constructor
  · intro hm
    exact ⟨(h1 _ hm).2, get_of_mem_nodup s k v hnd (h1 _ hm).1⟩
  · rintro ⟨hp, hg⟩
    exact h2 _ (get_some_mem s k v hg) hp

theorem OldItems_concrete (s : Store) (b n : Nat) (vals : List Bytes)
    (h1 : ∀ i (hi : i < vals.length), s.get (keyNumIdx b n i) = some vals[i])
    (h2 : ∀ e ∈ s, isPrefix (prefixNum b n) e.1 = true → ∃ i, i < vals.length ∧ e.1 = keyNumIdx b n i) : OldItems s b n vals := by
  refine ⟨h1, ?_⟩
  intro k hp hg
  obtain ⟨v, hv⟩ := Option.ne_none_iff_exists'.mp hg
  exact h2 _ (get_some_mem s k v hv) hp

end Juno.C07
