import JunoModel.C07.ModelCasm
import JunoModel.C07.ProofsBin
import JunoModel.C07.ProofsStore
/-! C07 — helper lemmas, part 11 (round 6): the CASM-hash metadata record and its life cycle. -/
namespace Juno.C07

/-- What `MarshalBinary` / `UnmarshalBinary` can carry: 64-bit heights, 32-byte hashes. -/
def CasmMeta.SizesOK (m : CasmMeta) : Prop :=
  m.declaredAt < 18446744073709551616 ∧ m.migratedAt < 18446744073709551616 ∧ m.v2.length = 32 ∧
  ∀ h, m.v1 = some h → h.length = 32

/-- The invariant of every record the node can hold: a class declared with V2 is never migrated, a
migration lies strictly after the declaration. -/
def CasmMeta.Inv (m : CasmMeta) : Prop :=
  (m.v1 = none → m.migratedAt = 0) ∧ (m.migratedAt > 0 → m.declaredAt < m.migratedAt)

theorem CasmMeta.reload_id (m : CasmMeta) (h : m.SizesOK) : CasmMeta.unmarshal m.marshal = some m :=
  casmMeta_roundtrip m h.1 h.2.1 h.2.2.1 h.2.2.2

/-! ### methods -/

theorem migrate_ok_iff (m : CasmMeta) (a : Nat) (m' : CasmMeta) :
    m.migrate a = .ok m' ↔ (m.v1 ≠ none ∧ m.declaredAt < a ∧ m.migratedAt = 0 ∧ m' = { m with migratedAt := a }) := by
  unfold CasmMeta.migrate CasmMeta.isDeclaredWithV2 CasmMeta.isMigrated
  cases hv : m.v1 with
  | none => simp
  | some h1 =>
    by_cases h2 : a ≤ m.declaredAt
    · simp [h2]; omega
    · by_cases h3 : m.migratedAt > 0
      · simp [h2, h3]; omega
      · have : m.migratedAt = 0 := by omega
        simp [h2, this]
        constructor
        · intro h; exact ⟨by omega, h.symm⟩
        · intro h; exact h.2.symm

theorem migrate_error (m : CasmMeta) (a : Nat) :
    (m.v1 = none → m.migrate a = .error .v2Declared) ∧
    (m.v1 ≠ none → a ≤ m.declaredAt → m.migrate a = .error .beforeDeclared) ∧
    (m.v1 ≠ none → m.declaredAt < a → m.migratedAt > 0 → m.migrate a = .error .alreadyMigrated) := by
  unfold CasmMeta.migrate CasmMeta.isDeclaredWithV2 CasmMeta.isMigrated
  refine ⟨?_, ?_, ?_⟩
  · intro h; simp [h]
  · intro h h2
    cases hv : m.v1 with
    | none => exact absurd hv h
    | some _ => simp [h2]
  · intro h h2 h3
    cases hv : m.v1 with
    | none => exact absurd hv h
    | some _ =>
      have : ¬ a ≤ m.declaredAt := by omega
      simp [this, h3]

theorem unmigrate_spec (m : CasmMeta) :
    (m.migratedAt > 0 → m.unmigrate = .ok { m with migratedAt := 0 }) ∧
    (m.migratedAt = 0 → m.unmigrate = .error .notMigrated) := by
  unfold CasmMeta.unmigrate CasmMeta.isMigrated
  constructor
  · intro h; simp [h]
  · intro h; simp [h]

theorem unmigrate_migrate (m m' : CasmMeta) (a : Nat) (h : m.migrate a = .ok m') : m'.unmigrate = .ok m := by
  obtain ⟨_, h2, h3, h4⟩ := (migrate_ok_iff m a m').mp h
  subst h4
  have : a > 0 := by omega
  rw [(unmigrate_spec _).1 (by simpa using this)]
  obtain ⟨d, v2, mig, v1⟩ := m
  simp only at h3
  subst h3
  rfl

/-- `CasmHashAt` on a record satisfying the invariant: the three periods of a class's life. -/
theorem casmHashAt_periods (m : CasmMeta) (h : Nat) :
    m.casmHashAt h =
      if h < m.declaredAt then none
      else match m.v1 with
        | none => some m.v2
        | some h1 => if m.migratedAt = 0 ∨ h < m.migratedAt then some h1 else some m.v2 := by
  unfold CasmMeta.casmHashAt CasmMeta.isMigratedAt
  by_cases h0 : h < m.declaredAt
  · have : m.declaredAt > h := h0
    simp [this]
  · have : ¬ m.declaredAt > h := by omega
    simp only [this, if_false]
    cases m.v1 with
    | none => rfl
    | some h1 =>
      by_cases hz : m.migratedAt = 0
      · simp [hz]
      · by_cases hl : h < m.migratedAt
        · have : ¬ m.migratedAt ≤ h := by omega
          simp [this, hl]
        · have h1' : m.migratedAt ≤ h := by omega
          have h2' : m.migratedAt > 0 := by omega
          simp [h1', h2', hz, hl]

theorem casmHash_eq_at (m : CasmMeta) (h : Nat) (hd : m.declaredAt ≤ h) (hm : m.migratedAt ≤ h) :
    m.casmHashAt h = some m.casmHash := by
  rw [casmHashAt_periods m h]
  have : ¬ h < m.declaredAt := by omega
  simp only [this, if_false]
  unfold CasmMeta.casmHash CasmMeta.isMigrated
  cases m.v1 with
  | none => rfl
  | some h1 =>
    by_cases hz : m.migratedAt = 0
    · simp [hz]
    · have h2 : ¬ h < m.migratedAt := by omega
      have h3 : m.migratedAt > 0 := by omega
      simp [hz, h2, h3]

/-! ### reachable records -/

theorem apply_keeps (m : CasmMeta) (o : CasmOp) (hs : m.SizesOK) (hi : m.Inv)
    (ho : ∀ a, o = .migrate a → a < 18446744073709551616) :
    (m.apply o).SizesOK ∧ (m.apply o).Inv ∧ (m.apply o).declaredAt = m.declaredAt ∧ (m.apply o).v1 = m.v1 ∧
    (m.apply o).v2 = m.v2 := by
  cases o with
  | migrate a =>
    simp only [CasmMeta.apply]
    cases hm : m.migrate a with
    | error e => exact ⟨hs, hi, rfl, rfl, rfl⟩
    | ok m' =>
      obtain ⟨h1, h2, h3, h4⟩ := (migrate_ok_iff m a m').mp hm
      subst h4
      refine ⟨⟨hs.1, ho a rfl, hs.2.2.1, hs.2.2.2⟩, ⟨?_, ?_⟩, rfl, rfl, rfl⟩
      · intro hv; exact absurd hv h1
      · intro _; exact h2
  | unmigrate =>
    simp only [CasmMeta.apply]
    cases hm : m.unmigrate with
    | error e => exact ⟨hs, hi, rfl, rfl, rfl⟩
    | ok m' =>
      unfold CasmMeta.unmigrate at hm
      split at hm
      · cases hm
      · cases hm
        refine ⟨⟨hs.1, by simp, hs.2.2.1, hs.2.2.2⟩, ⟨fun _ => rfl, ?_⟩, rfl, rfl, rfl⟩
        intro h; simp at h
  | reload =>
    have e : m.apply .reload = m := by simp [CasmMeta.apply, m.reload_id hs]
    rw [e]
    exact ⟨hs, hi, rfl, rfl, rfl⟩

theorem applyAll_keeps (ops : List CasmOp) : ∀ (m : CasmMeta), m.SizesOK → m.Inv →
    (∀ a, CasmOp.migrate a ∈ ops → a < 18446744073709551616) →
    (m.applyAll ops).SizesOK ∧ (m.applyAll ops).Inv ∧ (m.applyAll ops).declaredAt = m.declaredAt ∧
    (m.applyAll ops).v1 = m.v1 ∧ (m.applyAll ops).v2 = m.v2 := by
  induction ops with
  | nil => intro m hs hi _; exact ⟨hs, hi, rfl, rfl, rfl⟩
  | cons o os ih =>
    intro m hs hi ho
    obtain ⟨a1, a2, a3, a4, a5⟩ := apply_keeps m o hs hi (fun a e => ho a (by simp [e]))
    obtain ⟨b1, b2, b3, b4, b5⟩ := ih (m.apply o) a1 a2 (fun a hm => ho a (List.mem_cons_of_mem _ hm))
    exact ⟨b1, b2, b3.trans a3, b4.trans a4, b5.trans a5⟩

/-! ### the bucket -/

theorem nodup_map_inj {α β : Type} (f : α → β) (hf : ∀ a b, f a = f b → a = b) (l : List α) (h : l.Nodup) :
    (l.map f).Nodup := by
  rw [List.Nodup, List.pairwise_map]
  exact List.Pairwise.imp (fun hab hc => hab (hf _ _ hc)) h

theorem keyCasm_inj (a b : Bytes) (h : keyCasm a = keyCasm b) : a = b := dbKey_suffix_inj _ _ _ h

theorem getCasmMeta_of_get (s : Store) (h : Bytes) (m : CasmMeta) (hs : m.SizesOK)
    (hg : s.get (keyCasm h) = some m.marshal) : getCasmMeta s h = .ok m := by
  simp [getCasmMeta, hg, m.reload_id hs]

theorem declEntries_ok (isV2 : Bool) (n : Nat) : ∀ (l : List CasmDecl) (de : List (Bytes × Bytes)),
    declEntries isV2 n l = .ok de →
    de = l.map (fun e => (keyCasm e.classHash, (declMeta isV2 n e).marshal)) ∧ ∀ e ∈ l, e.defOk = true
  | [], de, h => by simp [declEntries] at h; subst h; simp
  | e :: es, de, h => by
    simp only [declEntries] at h
    cases hd : e.defOk with
    | false => simp [hd] at h
    | true =>
      simp only [hd, Bool.not_true, Bool.false_eq_true, if_false] at h
      cases hr : declEntries isV2 n es with
      | error x => simp [hr] at h
      | ok r =>
        simp only [hr, Except.ok.injEq] at h
        obtain ⟨i1, i2⟩ := declEntries_ok isV2 n es r hr
        subst h
        refine ⟨by simp [i1], ?_⟩
        intro e' he'
        rcases List.mem_cons.mp he' with h1 | h1
        · subst h1; exact hd
        · exact i2 e' h1

theorem declEntries_total (isV2 : Bool) (n : Nat) : ∀ (l : List CasmDecl), (∀ e ∈ l, e.defOk = true) →
    declEntries isV2 n l = .ok (l.map (fun e => (keyCasm e.classHash, (declMeta isV2 n e).marshal)))
  | [], _ => rfl
  | e :: es, h => by
    have h1 := h e (List.mem_cons_self ..)
    have h2 := declEntries_total isV2 n es (fun e' he' => h e' (List.mem_cons_of_mem _ he'))
    simp [declEntries, h1, h2]

/-- What the migrated loop writes: one entry per class, the stored record with `migratedAt := n`. -/
theorem migEntries_ok (r : Store) (n : Nat) : ∀ (l : List Bytes) (me : List (Bytes × Bytes)),
    migEntries r n l = .ok me →
    me.map (·.1) = l.map keyCasm ∧
    ∀ h ∈ l, ∃ m m', getCasmMeta r h = .ok m ∧ m.migrate n = .ok m' ∧ (keyCasm h, m'.marshal) ∈ me
  | [], me, h => by simp [migEntries] at h; subst h; simp
  | x :: xs, me, h => by
    simp only [migEntries] at h
    cases hg : getCasmMeta r x with
    | error e => simp [hg] at h
    | ok m =>
      simp only [hg] at h
      cases hm : m.migrate n with
      | error e => simp [hm] at h
      | ok m' =>
        simp only [hm] at h
        cases hr : migEntries r n xs with
        | error e => simp [hr] at h
        | ok rest =>
          simp only [hr, Except.ok.injEq] at h
          obtain ⟨i1, i2⟩ := migEntries_ok r n xs rest hr
          subst h
          refine ⟨by simp [i1], ?_⟩
          intro h' hh'
          rcases List.mem_cons.mp hh' with e | e
          · subst e; exact ⟨m, m', hg, hm, List.mem_cons_self ..⟩
          · obtain ⟨a, b, c1, c2, c3⟩ := i2 h' e
            exact ⟨a, b, c1, c2, List.mem_cons_of_mem _ c3⟩

theorem unmigEntries_ok (r : Store) : ∀ (l : List Bytes) (ue : List (Bytes × Bytes)),
    unmigEntries r l = .ok ue →
    ue.map (·.1) = l.map keyCasm ∧
    ∀ h ∈ l, ∃ m m', getCasmMeta r h = .ok m ∧ m.unmigrate = .ok m' ∧ (keyCasm h, m'.marshal) ∈ ue
  | [], ue, h => by simp [unmigEntries] at h; subst h; simp
  | x :: xs, ue, h => by
    simp only [unmigEntries] at h
    cases hg : getCasmMeta r x with
    | error e => simp [hg] at h
    | ok m =>
      simp only [hg] at h
      cases hm : m.unmigrate with
      | error e => simp [hm] at h
      | ok m' =>
        simp only [hm] at h
        cases hr : unmigEntries r xs with
        | error e => simp [hr] at h
        | ok rest =>
          simp only [hr, Except.ok.injEq] at h
          obtain ⟨i1, i2⟩ := unmigEntries_ok r xs rest hr
          subst h
          refine ⟨by simp [i1], ?_⟩
          intro h' hh'
          rcases List.mem_cons.mp hh' with e | e
          · subst e; exact ⟨m, m', hg, hm, List.mem_cons_self ..⟩
          · obtain ⟨a, b, c1, c2, c3⟩ := i2 h' e
            exact ⟨a, b, c1, c2, List.mem_cons_of_mem _ c3⟩

/-- The un-migration succeeds on every class whose stored record is migrated. -/
theorem unmigEntries_total (r : Store) : ∀ (l : List Bytes),
    (∀ h ∈ l, ∃ m, getCasmMeta r h = .ok m ∧ m.migratedAt > 0) → ∃ ue, unmigEntries r l = .ok ue
  | [], _ => ⟨[], rfl⟩
  | x :: xs, h => by
    obtain ⟨m, hg, hm⟩ := h x (List.mem_cons_self ..)
    obtain ⟨rest, hr⟩ := unmigEntries_total r xs (fun h' hh' => h h' (List.mem_cons_of_mem _ hh'))
    refine ⟨(keyCasm x, ({ m with migratedAt := 0 } : CasmMeta).marshal) :: rest, ?_⟩
    simp [unmigEntries, hg, (unmigrate_spec m).1 hm, hr]

theorem entries_unique (es : List (Bytes × Bytes)) (hn : (es.map (·.1)).Nodup) (k v v' : Bytes)
    (h1 : (k, v) ∈ es) (h2 : (k, v') ∈ es) : v' = v := by
  induction es with
  | nil => simp at h1
  | cons e es ih =>
    simp only [List.map_cons, List.nodup_cons] at hn
    rcases List.mem_cons.mp h1 with a | a <;> rcases List.mem_cons.mp h2 with b | b
    · rw [← a] at b; simpa using b
    · subst a
      exact absurd (List.mem_map.mpr ⟨(k, v'), b, rfl⟩) hn.1
    · subst b
      exact absurd (List.mem_map.mpr ⟨(k, v), a, rfl⟩) hn.1
    · exact ih hn.2 a b


/-! ### what a block does to the bucket -/

def CasmDiff.keys (d : CasmDiff) : List Bytes := d.declared.map (·.classHash) ++ d.migrated

/-- The class hashes whose record `storeCasmHashMetadata` writes. -/
def writtenKeys (isV2 : Bool) (d : CasmDiff) : List Bytes :=
  if isV2 then d.keys else d.declared.map (·.classHash)

theorem declMeta_sizes (isV2 : Bool) (n : Nat) (e : CasmDecl) (hn : n < 18446744073709551616)
    (h1 : e.casm.length = 32) (h2 : e.v2computed.length = 32) : (declMeta isV2 n e).SizesOK := by
  cases isV2
  · refine ⟨hn, by simp [declMeta, CasmMeta.declaredV1], by simpa [declMeta, CasmMeta.declaredV1] using h2, ?_⟩
    intro h hh
    simp [declMeta, CasmMeta.declaredV1] at hh
    subst hh; exact h1
  · refine ⟨hn, by simp [declMeta, CasmMeta.declaredV2], by simpa [declMeta, CasmMeta.declaredV2] using h1, ?_⟩
    intro h hh
    simp [declMeta, CasmMeta.declaredV2] at hh

theorem storeCasm_entries (isV2 : Bool) (r w w' : Store) (n : Nat) (d : CasmDiff)
    (hok : storeCasm isV2 r w n d = .ok w') :
    ∃ es, w' = w.putAll es ∧ es.map (·.1) = (writtenKeys isV2 d).map keyCasm ∧
      (∀ e ∈ d.declared, e.defOk = true ∧ (keyCasm e.classHash, (declMeta isV2 n e).marshal) ∈ es) ∧
      (isV2 = true → ∀ h ∈ d.migrated, ∃ m m', getCasmMeta r h = .ok m ∧ m.migrate n = .ok m' ∧
        (keyCasm h, m'.marshal) ∈ es) := by
  unfold storeCasm at hok
  cases hd : declEntries isV2 n d.declared with
  | error x => simp [hd] at hok
  | ok de =>
    obtain ⟨d1, d2⟩ := declEntries_ok isV2 n _ de hd
    simp only [hd] at hok
    cases isV2 with
    | false =>
      simp only [Bool.false_eq_true, if_false, Except.ok.injEq] at hok
      refine ⟨de, hok.symm, ?_, ?_, ?_⟩
      · simp [writtenKeys, d1]
      · intro e he
        refine ⟨d2 e he, ?_⟩
        rw [d1]; exact List.mem_map.mpr ⟨e, he, rfl⟩
      · intro h; cases h
    | true =>
      simp only [if_true] at hok
      cases hm : migEntries r n d.migrated with
      | error x => simp [hm] at hok
      | ok me =>
        obtain ⟨m1, m2⟩ := migEntries_ok r n _ me hm
        simp only [hm, Except.ok.injEq] at hok
        refine ⟨de ++ me, hok.symm, ?_, ?_, ?_⟩
        · simp [writtenKeys, CasmDiff.keys, d1, m1]
        · intro e he
          refine ⟨d2 e he, List.mem_append_left _ ?_⟩
          rw [d1]; exact List.mem_map.mpr ⟨e, he, rfl⟩
        · intro _ h hh
          obtain ⟨a, b, c1, c2, c3⟩ := m2 h hh
          exact ⟨a, b, c1, c2, List.mem_append_right _ c3⟩

theorem writtenKeys_nodup (isV2 : Bool) (d : CasmDiff) (hnd : d.keys.Nodup) : (writtenKeys isV2 d).Nodup := by
  cases isV2
  · simp only [writtenKeys, Bool.false_eq_true, if_false]
    exact (List.nodup_append.mp hnd).1
  · simpa [writtenKeys] using hnd

theorem storeCasm_reads (isV2 : Bool) (r w w' : Store) (n : Nat) (d : CasmDiff)
    (hn : n < 18446744073709551616) (hnd : d.keys.Nodup)
    (hsz : ∀ e ∈ d.declared, e.casm.length = 32 ∧ e.v2computed.length = 32)
    (hst : ∀ h ∈ d.migrated, ∀ m, getCasmMeta r h = .ok m → m.SizesOK)
    (hok : storeCasm isV2 r w n d = .ok w') :
    (∀ e ∈ d.declared, e.defOk = true ∧ getCasmMeta w' e.classHash = .ok (declMeta isV2 n e)) ∧
    (isV2 = true → ∀ h ∈ d.migrated, ∃ m, getCasmMeta r h = .ok m ∧ m.v1 ≠ none ∧ m.declaredAt < n ∧
      m.migratedAt = 0 ∧ getCasmMeta w' h = .ok { m with migratedAt := n }) ∧
    (∀ k, k ∉ (writtenKeys isV2 d).map keyCasm → w'.get k = w.get k) := by
  obtain ⟨es, e1, e2, e3, e4⟩ := storeCasm_entries isV2 r w w' n d hok
  have hnk : (es.map (·.1)).Nodup := by
    rw [e2]; exact nodup_map_inj keyCasm keyCasm_inj _ (writtenKeys_nodup isV2 d hnd)
  subst e1
  refine ⟨?_, ?_, ?_⟩
  · intro e he
    obtain ⟨a, b⟩ := e3 e he
    refine ⟨a, getCasmMeta_of_get _ _ _ (declMeta_sizes isV2 n e hn (hsz e he).1 (hsz e he).2) ?_⟩
    exact get_putAll_mem w es _ _ b (fun v' hv' => entries_unique es hnk _ _ _ b hv')
  · intro hv h hh
    obtain ⟨m, m', c1, c2, c3⟩ := e4 hv h hh
    obtain ⟨f1, f2, f3, f4⟩ := (migrate_ok_iff m n m').mp c2
    have hs := hst h hh m c1
    refine ⟨m, c1, f1, f2, f3, ?_⟩
    rw [← f4]
    refine getCasmMeta_of_get _ _ _ ?_ (get_putAll_mem w es _ _ c3 (fun v' hv' => entries_unique es hnk _ _ _ c3 hv'))
    subst f4
    exact ⟨hs.1, hn, hs.2.2.1, hs.2.2.2⟩
  · intro k hk
    apply get_putAll_other
    intro e he heq
    apply hk
    rw [← e2, ← heq]
    exact List.mem_map.mpr ⟨e, he, rfl⟩

theorem revertCasm_restores (isV2 : Bool) (s s' : Store) (n : Nat) (d : CasmDiff)
    (hn : n < 18446744073709551616) (hnd : d.keys.Nodup)
    (hsz : ∀ e ∈ d.declared, e.casm.length = 32 ∧ e.v2computed.length = 32)
    (hst : ∀ h ∈ d.migrated, ∀ m, getCasmMeta s h = .ok m → m.SizesOK)
    (hv1 : isV2 = false → d.migrated = [])
    (habs : ∀ e ∈ d.declared, s.get (keyCasm e.classHash) = none)
    (hok : storeCasm isV2 s s n d = .ok s') :
    ∃ s'', revertCasm s' s' d = .ok s'' ∧ (∀ h, getCasmMeta s'' h = getCasmMeta s h) ∧
      (∀ k, k ∉ d.keys.map keyCasm → s''.get k = s.get k) := by
  obtain ⟨r1, r2, r3⟩ := storeCasm_reads isV2 s s s' n d hn hnd hsz hst hok
  have hmig : ∀ h ∈ d.migrated, ∃ m, getCasmMeta s h = .ok m ∧ m.declaredAt < n ∧ m.migratedAt = 0 ∧
      getCasmMeta s' h = .ok { m with migratedAt := n } := by
    intro h hh
    cases isV2 with
    | false => rw [hv1 rfl] at hh; simp at hh
    | true =>
      obtain ⟨m, a, _, c, e, f⟩ := r2 rfl h hh
      exact ⟨m, a, c, e, f⟩
  obtain ⟨ue, hue⟩ := unmigEntries_total s' d.migrated (by
    intro h hh
    obtain ⟨m, _, c, _, f⟩ := hmig h hh
    exact ⟨_, f, by simp; omega⟩)
  obtain ⟨u1, u2⟩ := unmigEntries_ok s' _ ue hue
  have hnk : (ue.map (·.1)).Nodup := by
    rw [u1]; exact nodup_map_inj keyCasm keyCasm_inj _ (List.nodup_append.mp hnd).2.1
  have hwk : ∀ k, k ∉ d.keys.map keyCasm → k ∉ (writtenKeys isV2 d).map keyCasm := by
    intro k hk hc
    apply hk
    cases isV2 with
    | false =>
      simp only [writtenKeys, Bool.false_eq_true, if_false] at hc
      obtain ⟨x, hx, e⟩ := List.mem_map.mp hc
      exact List.mem_map.mpr ⟨x, by simp only [CasmDiff.keys]; exact List.mem_append_left _ hx, e⟩
    | true => simpa [writtenKeys] using hc
  have hother : ∀ k, k ∉ d.keys.map keyCasm →
      ((s'.delAll (d.declared.map (fun e => keyCasm e.classHash))).putAll ue).get k = s.get k := by
    intro k hk
    rw [get_putAll_other, get_delAll]
    · have : k ∉ d.declared.map (fun e => keyCasm e.classHash) := by
        intro hc
        apply hk
        obtain ⟨x, hx, e⟩ := List.mem_map.mp hc
        exact List.mem_map.mpr ⟨x.classHash, by
          simp only [CasmDiff.keys]; exact List.mem_append_left _ (List.mem_map.mpr ⟨x, hx, rfl⟩), e⟩
      simp only [this, if_false]
      exact r3 k (hwk k hk)
    · intro e he heq
      apply hk
      have : e.1 ∈ ue.map (·.1) := List.mem_map.mpr ⟨e, he, rfl⟩
      rw [u1, heq] at this
      obtain ⟨x, hx, ex⟩ := List.mem_map.mp this
      exact List.mem_map.mpr ⟨x, by simp only [CasmDiff.keys]; exact List.mem_append_right _ hx, ex⟩
  refine ⟨_, by simp [revertCasm, hue], ?_, hother⟩
  intro h
  by_cases hd : h ∈ d.declared.map (·.classHash)
  · -- a declared class: deleted again, and it was absent before
    obtain ⟨e, he, ee⟩ := List.mem_map.mp hd
    have hnm : h ∉ d.migrated := by
      intro hc
      have := (List.nodup_append.mp hnd).2.2 h hd h hc
      exact this rfl
    have g1 : ((s'.delAll (d.declared.map (fun e => keyCasm e.classHash))).putAll ue).get (keyCasm h) = none := by
      rw [get_putAll_other, get_delAll]
      · have : keyCasm h ∈ d.declared.map (fun e => keyCasm e.classHash) :=
          List.mem_map.mpr ⟨e, he, by rw [← ee]⟩
        simp [this]
      · intro x hx heq
        have : x.1 ∈ ue.map (·.1) := List.mem_map.mpr ⟨x, hx, rfl⟩
        rw [u1, heq] at this
        obtain ⟨y, hy, ey⟩ := List.mem_map.mp this
        exact hnm (keyCasm_inj _ _ ey ▸ hy)
    have g2 : s.get (keyCasm h) = none := by rw [← ee]; exact habs e he
    simp [getCasmMeta, g1, g2]
  · by_cases hm : h ∈ d.migrated
    · obtain ⟨m, a, c, e, f⟩ := hmig h hm
      obtain ⟨m1, m2, b1, b2, b3⟩ := u2 h hm
      rw [f] at b1
      cases b1
      have hpos : n > 0 := by omega
      rw [(unmigrate_spec _).1 (by simpa using hpos)] at b2
      cases b2
      have hm0 : ({ ({ m with migratedAt := n } : CasmMeta) with migratedAt := 0 } : CasmMeta) = m := by
        obtain ⟨x1, x2, x3, x4⟩ := m
        simp only at e
        subst e
        rfl
      rw [hm0] at b3
      rw [a]
      exact getCasmMeta_of_get _ _ _ (hst h hm m a)
        (get_putAll_mem _ ue _ _ b3 (fun v' hv' => entries_unique ue hnk _ _ _ b3 hv'))
    · have hk : keyCasm h ∉ d.keys.map keyCasm := by
        intro hc
        obtain ⟨x, hx, ex⟩ := List.mem_map.mp hc
        have := keyCasm_inj _ _ ex
        subst this
        simp only [CasmDiff.keys] at hx
        rcases List.mem_append.mp hx with q | q
        · exact hd q
        · exact hm q
      simp only [getCasmMeta, hother _ hk]


/-! ### through the readers -/

theorem declMeta_hashes (isV2 : Bool) (n : Nat) (e : CasmDecl) (h : Nat) :
    (declMeta isV2 n e).casmHashAt h = (if h < n then none else some e.casm) ∧
    (declMeta isV2 n e).casmHash = e.casm ∧
    (declMeta isV2 n e).v2 = (if isV2 then e.casm else e.v2computed) := by
  cases isV2 <;>
    simp only [declMeta, CasmMeta.declaredV1, CasmMeta.declaredV2, CasmMeta.casmHashAt, CasmMeta.casmHash,
      CasmMeta.isMigratedAt, CasmMeta.isMigrated, Bool.false_eq_true, if_false, if_true] <;>
    by_cases hh : h < n <;> simp [hh] <;> omega

theorem migrated_hashes (m : CasmMeta) (n : Nat) (hv : m.v1 ≠ none) (hd : m.declaredAt < n) (hm : m.migratedAt = 0)
    (x : Nat) :
    ({ m with migratedAt := n } : CasmMeta).casmHashAt x = (if x < n then m.casmHashAt x else some m.v2) ∧
    ({ m with migratedAt := n } : CasmMeta).casmHash = m.v2 ∧
    (∀ h1, m.v1 = some h1 → m.casmHashAt x = if x < m.declaredAt then none else some h1) := by
  obtain ⟨d, v2, mig, v1⟩ := m
  simp only at hv hd hm
  subst hm
  cases v1 with
  | none => exact absurd rfl hv
  | some h1 =>
    have hn : n > 0 := by omega
    refine ⟨?_, ?_, ?_⟩
    · simp only [CasmMeta.casmHashAt, CasmMeta.isMigratedAt]
      by_cases h0 : d > x
      · have : x < n := by omega
        simp [h0, this]
      · by_cases hx : x < n
        · have : ¬ n ≤ x := by omega
          simp [h0, hx, this]
        · have : n ≤ x := by omega
          simp [h0, hx, this, hn]
    · simp [CasmMeta.casmHash, CasmMeta.isMigrated, hn]
    · intro h1' e
      cases e
      simp only [CasmMeta.casmHashAt, CasmMeta.isMigratedAt]
      by_cases h0 : d > x
      · simp [h0]
      · simp [h0]


/-! ### whatever `UnmarshalBinary` accepts has 64-bit heights and 32-byte hashes -/

theorem foldl_be_lt : ∀ (bs : Bytes) (a : Nat),
    bs.foldl (fun a b => a * 256 + b.toNat) a < (a + 1) * 256 ^ bs.length
  | [], a => by simp
  | b :: t, a => by
    simp only [List.foldl_cons, List.length_cons]
    have h := foldl_be_lt t (a * 256 + b.toNat)
    have hb : b.toNat < 256 := b.toNat_lt
    have h2 : (a * 256 + b.toNat + 1) * 256 ^ t.length ≤ ((a + 1) * 256) * 256 ^ t.length :=
      Nat.mul_le_mul_right _ (by omega)
    calc _ < (a * 256 + b.toNat + 1) * 256 ^ t.length := h
      _ ≤ ((a + 1) * 256) * 256 ^ t.length := h2
      _ = (a + 1) * 256 ^ (t.length + 1) := by rw [Nat.pow_succ, Nat.mul_assoc, Nat.mul_comm 256]

theorem fromBE_lt (bs : Bytes) : fromBE bs < 256 ^ bs.length := by
  have := foldl_be_lt bs 0
  simpa [fromBE] using this

theorem fromBE_take8_lt (bs : Bytes) : fromBE (bs.take 8) < 18446744073709551616 := by
  have h := fromBE_lt (bs.take 8)
  have hl : (bs.take 8).length ≤ 8 := by simp; omega
  have : 256 ^ (bs.take 8).length ≤ 256 ^ 8 := Nat.pow_le_pow_right (by omega) hl
  have e : (256 : Nat) ^ 8 = 18446744073709551616 := by decide
  omega

theorem unmarshal_sizes (bs : Bytes) (m : CasmMeta) (h : CasmMeta.unmarshal bs = some m) : m.SizesOK := by
  unfold CasmMeta.unmarshal at h
  split at h
  · cases h
  · rename_i hlen
    have hv2 : ((bs.drop 8).take 32).length = 32 := by simp; omega
    dsimp only at h
    split at h
    · cases h
    · rename_i f r hr
      split at h
      · cases h
      · rename_i mig r2 hmig
        have hmg : mig < 18446744073709551616 := by
          split at hmig
          · split at hmig
            · cases hmig
            · cases hmig; exact fromBE_take8_lt r
          · cases hmig; decide
        split at h
        · cases h
        · rename_i g r3 hr3
          split at h
          · split at h
            · cases h
            · rename_i hl3
              cases h
              refine ⟨fromBE_take8_lt bs, hmg, hv2, ?_⟩
              intro x hx
              cases hx
              simp; omega
          · cases h
            refine ⟨fromBE_take8_lt bs, hmg, hv2, ?_⟩
            intro x hx
            cases hx


theorem getCasmMeta_sizes (s : Store) (h : Bytes) (m : CasmMeta) (hg : getCasmMeta s h = .ok m) : m.SizesOK := by
  unfold getCasmMeta at hg
  split at hg
  · cases hg
  · rename_i bs _
    split at hg
    · rename_i m' hm
      cases hg
      exact unmarshal_sizes bs _ hm
    · cases hg

/-! ### histories: a later block never changes what an earlier height reads -/

/-- Every record of the bucket decodes to something `MarshalBinary` can carry. -/
def StoreSizesOK (s : Store) : Prop := ∀ h m, getCasmMeta s h = .ok m → m.SizesOK

theorem storeSizesOK_nil : StoreSizesOK [] := by
  intro h m hg; simp [getCasmMeta, Store.get] at hg

/-- … which holds for EVERY store: the decoder itself guarantees it. -/
theorem storeSizesOK_all (s : Store) : StoreSizesOK s := fun h m hg => getCasmMeta_sizes s h m hg

/-- What one block needs (besides succeeding): distinct class hashes, 32-byte hashes, and declared
classes that have no record yet (`State.Update` refuses re-declarations). -/
def BlockOK (s : Store) (n : Nat) (b : CasmBlock) : Prop :=
  n < 18446744073709551616 ∧ b.diff.keys.Nodup ∧
  (∀ e ∈ b.diff.declared, e.casm.length = 32 ∧ e.v2computed.length = 32) ∧
  (∀ e ∈ b.diff.declared, s.get (keyCasm e.classHash) = none)

theorem storeCasm_sizes (isV2 : Bool) (s s' : Store) (n : Nat) (d : CasmDiff)
    (hn : n < 18446744073709551616) (hnd : d.keys.Nodup)
    (hsz : ∀ e ∈ d.declared, e.casm.length = 32 ∧ e.v2computed.length = 32)
    (hs : StoreSizesOK s) (hok : storeCasm isV2 s s n d = .ok s') : StoreSizesOK s' := by
  obtain ⟨r1, r2, r3⟩ := storeCasm_reads isV2 s s s' n d hn hnd hsz (fun h _ m hg => hs h m hg) hok
  intro h m hg
  by_cases hw : keyCasm h ∈ (writtenKeys isV2 d).map keyCasm
  · obtain ⟨x, hx, ex⟩ := List.mem_map.mp hw
    have := keyCasm_inj _ _ ex
    subst this
    cases isV2 with
    | false =>
      simp only [writtenKeys, Bool.false_eq_true, if_false] at hx
      obtain ⟨e, he, ee⟩ := List.mem_map.mp hx
      have := (r1 e he).2
      rw [ee, hg] at this
      cases this
      exact declMeta_sizes false n e hn (hsz e he).1 (hsz e he).2
    | true =>
      simp only [writtenKeys, if_true, CasmDiff.keys] at hx
      rcases List.mem_append.mp hx with q | q
      · obtain ⟨e, he, ee⟩ := List.mem_map.mp q
        have := (r1 e he).2
        rw [ee, hg] at this
        cases this
        exact declMeta_sizes true n e hn (hsz e he).1 (hsz e he).2
      · obtain ⟨m0, a, _, _, _, f⟩ := r2 rfl x q
        rw [hg] at f
        cases f
        have := hs x m0 a
        exact ⟨this.1, hn, this.2.2.1, this.2.2.2⟩
  · have : getCasmMeta s' h = getCasmMeta s h := by simp only [getCasmMeta, r3 _ hw]
    exact hs h m (this ▸ hg)

/-- One block leaves every answer for heights below it as it was. -/
theorem storeCasm_keeps_history (b : CasmBlock) (s s' : Store) (n : Nat) (hb : BlockOK s n b) (hs : StoreSizesOK s)
    (hok : storeCasm b.isV2 s s n b.diff = .ok s') (c : Bytes) (x : Nat) (hx : x < n) :
    compiledClassHashAt s' c x = compiledClassHashAt s c x := by
  obtain ⟨hn, hnd, hsz, habs⟩ := hb
  obtain ⟨r1, r2, r3⟩ := storeCasm_reads b.isV2 s s s' n b.diff hn hnd hsz (fun h _ m hg => hs h m hg) hok
  by_cases hw : keyCasm c ∈ (writtenKeys b.isV2 b.diff).map keyCasm
  · obtain ⟨y, hy, ey⟩ := List.mem_map.mp hw
    have := keyCasm_inj _ _ ey
    subst this
    have declared_case : ∀ e ∈ b.diff.declared, e.classHash = y →
        compiledClassHashAt s' y x = compiledClassHashAt s y x := by
      intro e he ee
      have h1 := (r1 e he).2
      rw [ee] at h1
      have h2 : s.get (keyCasm y) = none := by rw [← ee]; exact habs e he
      have hL : compiledClassHashAt s' y x = (declMeta b.isV2 n e).casmHashAt x := by
        simp only [compiledClassHashAt, h1]
      have hR : compiledClassHashAt s y x = none := by simp [compiledClassHashAt, getCasmMeta, h2]
      rw [hL, hR, (declMeta_hashes b.isV2 n e x).1]
      simp [hx]
    cases hv : b.isV2 with
    | false =>
      rw [hv] at hy
      simp only [writtenKeys, Bool.false_eq_true, if_false] at hy
      obtain ⟨e, he, ee⟩ := List.mem_map.mp hy
      exact declared_case e he ee
    | true =>
      rw [hv] at hy
      simp only [writtenKeys, if_true, CasmDiff.keys] at hy
      rcases List.mem_append.mp hy with q | q
      · obtain ⟨e, he, ee⟩ := List.mem_map.mp q
        exact declared_case e he ee
      · obtain ⟨m0, a, b1, c1, e1, f⟩ := r2 hv y q
        simp only [compiledClassHashAt, f, a]
        rw [(migrated_hashes m0 n b1 c1 e1 x).1]
        simp [hx]
  · simp only [compiledClassHashAt, getCasmMeta, r3 _ hw]

/-- Validity of a run: every block meets `BlockOK` in the state it is stored on. -/
def RunOK : Store → Nat → List CasmBlock → Prop
  | _, _, [] => True
  | s, n, b :: bs => BlockOK s n b ∧ ∀ s', storeCasm b.isV2 s s n b.diff = .ok s' → RunOK s' (n + 1) bs

theorem runCasm_keeps_history : ∀ (bs : List CasmBlock) (s sf : Store) (n : Nat), RunOK s n bs → StoreSizesOK s →
    runCasm s n bs = .ok sf → StoreSizesOK sf ∧ ∀ c x, x < n → compiledClassHashAt sf c x = compiledClassHashAt s c x
  | [], s, sf, n, _, hs, hr => by
    simp only [runCasm, Except.ok.injEq] at hr
    subst hr
    exact ⟨hs, fun _ _ _ => rfl⟩
  | b :: bs, s, sf, n, hok, hs, hr => by
    simp only [runCasm] at hr
    cases h1 : storeCasm b.isV2 s s n b.diff with
    | error e => simp [h1] at hr
    | ok s' =>
      simp only [h1] at hr
      obtain ⟨hb, hrest⟩ := hok
      have hs' := storeCasm_sizes b.isV2 s s' n b.diff hb.1 hb.2.1 hb.2.2.1 hs h1
      obtain ⟨i1, i2⟩ := runCasm_keeps_history bs s' sf (n + 1) (hrest s' h1) hs' hr
      refine ⟨i1, ?_⟩
      intro c x hx
      rw [i2 c x (by omega)]
      exact storeCasm_keeps_history b s s' n hb hs h1 c x hx

theorem runCasm_append : ∀ (pre post : List CasmBlock) (s sf : Store) (n : Nat),
    runCasm s n (pre ++ post) = .ok sf → ∃ sm, runCasm s n pre = .ok sm ∧ runCasm sm (n + pre.length) post = .ok sf
  | [], post, s, sf, n, h => ⟨s, rfl, by simpa using h⟩
  | b :: pre, post, s, sf, n, h => by
    simp only [List.cons_append, runCasm] at h
    cases h1 : storeCasm b.isV2 s s n b.diff with
    | error e => simp [h1] at h
    | ok s' =>
      simp only [h1] at h
      obtain ⟨sm, a, c⟩ := runCasm_append pre post s' sf (n + 1) h
      refine ⟨sm, by simp [runCasm, h1, a], ?_⟩
      have : n + (b :: pre).length = n + 1 + pre.length := by simp; omega
      rw [this]; exact c

theorem runOK_append : ∀ (pre post : List CasmBlock) (s sm : Store) (n : Nat), RunOK s n (pre ++ post) →
    runCasm s n pre = .ok sm → RunOK sm (n + pre.length) post
  | [], post, s, sm, n, h, hr => by
    simp only [runCasm, Except.ok.injEq] at hr
    subst hr
    simpa using h
  | b :: pre, post, s, sm, n, h, hr => by
    simp only [runCasm] at hr
    cases h1 : storeCasm b.isV2 s s n b.diff with
    | error e => simp [h1] at hr
    | ok s' =>
      simp only [h1] at hr
      have := runOK_append pre post s' sm (n + 1) (h.2 s' h1) hr
      have e : n + (b :: pre).length = n + 1 + pre.length := by simp; omega
      rw [e]; exact this

theorem runCasm_sizes : ∀ (bs : List CasmBlock) (s sf : Store) (n : Nat), RunOK s n bs → StoreSizesOK s →
    runCasm s n bs = .ok sf → StoreSizesOK sf :=
  fun bs s sf n a b c => (runCasm_keeps_history bs s sf n a b c).1

end Juno.C07
