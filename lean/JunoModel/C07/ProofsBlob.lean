import JunoModel.C07.ModelBlob
import JunoModel.C07.Proofs
/-! C07 — helper lemmas, part 2: the indexed blob. -/
namespace Juno.C07

/-- Start offsets of consecutive items laid out from `base`. -/
def offsets {α : Type} (enc : α → Bytes) : Nat → List α → List Nat
  | _, [] => []
  | base, x :: xs => base :: offsets enc (base + (enc x).length) xs

/-- The concatenated encodings. -/
def concatEnc {α : Type} (enc : α → Bytes) : List α → Bytes
  | [] => []
  | x :: xs => enc x ++ concatEnc enc xs

theorem offsets_length {α : Type} (enc : α → Bytes) : ∀ (items : List α) (base : Nat),
    (offsets enc base items).length = items.length
  | [], _ => rfl
  | _ :: xs, base => by simp [offsets, offsets_length enc xs]

theorem writeItems_eq {α : Type} (enc : α → Bytes) : ∀ (items : List α) (buf : Bytes),
    writeItems enc buf items = (offsets enc buf.length items, buf ++ concatEnc enc items)
  | [], buf => by simp [writeItems, offsets, concatEnc]
  | x :: xs, buf => by
    simp [writeItems, offsets, concatEnc, writeItems_eq enc xs (buf ++ enc x), List.append_assoc]

theorem sliceGet_cons_succ {α : Type} (dec : Bytes → Option α) (a : Nat) (idx : List Nat) (data : Bytes) (j : Nat) :
    sliceGet dec (a :: idx) data (j + 1) = sliceGet dec idx data j := by
  simp [sliceGet, sliceBounds]

theorem take_drop_mid (pre mid post : Bytes) :
    ((pre ++ (mid ++ post)).take (pre.length + mid.length)).drop pre.length = mid := by
  rw [← List.append_assoc, List.take_append_of_le_length (by simp)]
  have : pre.length + mid.length = (pre ++ mid).length := by simp
  rw [this, List.take_length, List.drop_left]

theorem sliceGet_eq {α : Type} (dec : Bytes → Option α) (idx : List Nat) (data : Bytes) (i s e : Nat)
    (hi : i < idx.length) (hs : idx.getD i 0 = s)
    (he : (if i + 1 < idx.length then idx.getD (i + 1) 0 else data.length) = e)
    (hse : s ≤ e) (hel : e ≤ data.length) :
    sliceGet dec idx data i =
      Res.ofOption (dec ((data.take e).drop s)) := by
  unfold sliceGet sliceBounds
  simp only [hi, if_true, hs, he, hse, hel, and_self]

theorem sliceGet_offsets {α : Type} (enc : α → Bytes) (dec : Bytes → Option α) :
    ∀ (items : List α) (pre : Bytes) (i : Nat) (h : i < items.length)
      (_ : ∀ a ∈ items, dec (enc a) = some a),
      sliceGet dec (offsets enc pre.length items) (pre ++ concatEnc enc items) i = .ok items[i]
  | [], _, _, h, _ => by simp at h
  | x :: xs, pre, 0, _, hdec => by
    have hmid := take_drop_mid pre (enc x) (concatEnc enc xs)
    rw [sliceGet_eq dec _ _ 0 pre.length (pre.length + (enc x).length) (by simp [offsets]) (by simp [offsets])
      (by cases xs <;> simp [offsets, concatEnc]) (by omega) (by simp [concatEnc])]
    simp only [concatEnc, hmid, hdec x (List.mem_cons_self ..)]
    rfl
  | x :: xs, pre, j + 1, h, hdec => by
    have ih := sliceGet_offsets enc dec xs (pre ++ enc x) j (by simpa using h)
      (fun a ha => hdec a (List.mem_cons_of_mem _ ha))
    simp only [offsets, concatEnc, sliceGet_cons_succ]
    simp only [List.length_append, List.append_assoc] at ih
    rw [ih]
    simp

theorem sliceGet_notFound {α : Type} (dec : Bytes → Option α) (idx : List Nat) (data : Bytes) (i : Nat)
    (h : idx.length ≤ i) : sliceGet dec idx data i = .notFound := by
  simp [sliceGet]; omega

/-- Reading all items gives back the sequence. -/
theorem sliceAllFrom_offsets {α : Type} (enc : α → Bytes) (dec : Bytes → Option α)
    (items : List α) (hdec : ∀ a ∈ items, dec (enc a) = some a) (pre : Bytes) :
    ∀ (k i : Nat), i + k = items.length →
      sliceAllFrom dec (offsets enc pre.length items) (pre ++ concatEnc enc items) i k = .ok (items.drop i)
  | 0, i, h => by
    have : items.drop i = [] := List.drop_eq_nil_of_le (by omega)
    simp [sliceAllFrom, this]
  | k + 1, i, h => by
    have hi : i < items.length := by omega
    simp only [sliceAllFrom, sliceGet_offsets enc dec items pre i hi hdec,
      sliceAllFrom_offsets enc dec items hdec pre k (i + 1) (by omega)]
    rw [List.drop_eq_getElem_cons hi]

theorem sliceAll_offsets {α : Type} (enc : α → Bytes) (dec : Bytes → Option α)
    (items : List α) (hdec : ∀ a ∈ items, dec (enc a) = some a) (pre : Bytes) :
    sliceAll dec (offsets enc pre.length items) (pre ++ concatEnc enc items) = .ok items := by
  simp [sliceAll, offsets_length, sliceAllFrom_offsets enc dec items hdec pre items.length 0 (by simp)]


variable {α β : Type}

theorem build_eq (encT : α → Bytes) (encR : β → Bytes) (txs : List α) (rcs : List β) :
    Blob.build encT encR txs rcs =
      { txIdx := offsets encT 0 txs,
        rcIdx := offsets encR (concatEnc encT txs).length rcs,
        data := concatEnc encT txs ++ concatEnc encR rcs } := by
  simp [Blob.build, writeItems_eq]

/-- The transactions section of a built blob is exactly the concatenated transactions. -/
theorem txSection_build (encT : α → Bytes) (encR : β → Bytes) (txs : List α) (rcs : List β) :
    (Blob.build encT encR txs rcs).txSection = some (concatEnc encT txs) := by
  rw [build_eq]
  cases rcs with
  | nil => simp [Blob.txSection, offsets, concatEnc]
  | cons r rs => simp [Blob.txSection, offsets]

theorem getTx_build (encT : α → Bytes) (encR : β → Bytes) (decT : Bytes → Option α)
    (txs : List α) (rcs : List β) (hT : ∀ a ∈ txs, decT (encT a) = some a) (i : Nat) (h : i < txs.length) :
    (Blob.build encT encR txs rcs).getTx decT i = .ok txs[i] := by
  unfold Blob.getTx
  rw [txSection_build]
  have := sliceGet_offsets encT decT txs [] i h hT
  simpa [build_eq] using this

theorem getTx_build_notFound (encT : α → Bytes) (encR : β → Bytes) (decT : Bytes → Option α)
    (txs : List α) (rcs : List β) (i : Nat) (h : txs.length ≤ i) :
    (Blob.build encT encR txs rcs).getTx decT i = .notFound := by
  unfold Blob.getTx
  rw [txSection_build]
  apply sliceGet_notFound
  simp [build_eq, offsets_length]; exact h

theorem getRc_build (encT : α → Bytes) (encR : β → Bytes) (decR : Bytes → Option β)
    (txs : List α) (rcs : List β) (hR : ∀ a ∈ rcs, decR (encR a) = some a) (i : Nat) (h : i < rcs.length) :
    (Blob.build encT encR txs rcs).getRc decR i = .ok rcs[i] := by
  unfold Blob.getRc
  have := sliceGet_offsets encR decR rcs (concatEnc encT txs) i h hR
  simpa [build_eq] using this

theorem getRc_build_notFound (encT : α → Bytes) (encR : β → Bytes) (decR : Bytes → Option β)
    (txs : List α) (rcs : List β) (i : Nat) (h : rcs.length ≤ i) :
    (Blob.build encT encR txs rcs).getRc decR i = .notFound := by
  unfold Blob.getRc
  apply sliceGet_notFound
  simp [build_eq, offsets_length]; exact h

theorem allTx_build (encT : α → Bytes) (encR : β → Bytes) (decT : Bytes → Option α)
    (txs : List α) (rcs : List β) (hT : ∀ a ∈ txs, decT (encT a) = some a) :
    (Blob.build encT encR txs rcs).allTx decT = .ok txs := by
  unfold Blob.allTx
  rw [txSection_build]
  have := sliceAll_offsets encT decT txs hT []
  simpa [build_eq] using this

theorem allRc_build (encT : α → Bytes) (encR : β → Bytes) (decR : Bytes → Option β)
    (txs : List α) (rcs : List β) (hR : ∀ a ∈ rcs, decR (encR a) = some a) :
    (Blob.build encT encR txs rcs).allRc decR = .ok rcs := by
  unfold Blob.allRc
  have := sliceAll_offsets encR decR rcs hR (concatEnc encT txs)
  simpa [build_eq] using this


/-- Offsets and counts fit Go's `int` (63 bits; always true of a blob held in memory). -/
def Blob.wf (b : Blob) : Bool :=
  decide (b.txIdx.length < 9223372036854775808) && decide (b.rcIdx.length < 9223372036854775808) &&
  b.txIdx.all (fun n => decide (n < 9223372036854775808)) && b.rcIdx.all (fun n => decide (n < 9223372036854775808))

theorem wfList_map_uint : ∀ (is : List Nat), is.all (fun n => decide (n < 9223372036854775808)) = true →
    wfList (is.map Cbor.uint) = true
  | [], _ => rfl
  | n :: is, h => by
    simp at h
    have : n < 18446744073709551616 := by omega
    simp [wfList, Cbor.wf, this]
    exact wfList_map_uint is (by simpa using h.2)

theorem decUints_map : ∀ (is : List Nat), is.all (fun n => decide (n < 9223372036854775808)) = true →
    decUints (is.map Cbor.uint) = some is
  | [], _ => rfl
  | n :: is, h => by
    simp at h
    simp [decUints, h.1, decUints_map is (by simpa using h.2)]

theorem idxCbor_wf (is : List Nat) (hl : is.length < 9223372036854775808)
    (h : is.all (fun n => decide (n < 9223372036854775808)) = true) : (idxCbor is).wf = true := by
  have : is.length < 18446744073709551616 := by omega
  simp [idxCbor, Cbor.wf, this, wfList_map_uint is h]

theorem header_wf (b : Blob) (h : b.wf = true) : b.header.wf = true := by
  simp [Blob.wf] at h
  obtain ⟨⟨⟨h1, h2⟩, h3⟩, h4⟩ := h
  have w1 := idxCbor_wf b.txIdx h1 (by simpa using h3)
  have w2 := idxCbor_wf b.rcIdx h2 (by simpa using h4)
  unfold Blob.header
  cases ht : b.txIdx.isEmpty <;> cases hr : b.rcIdx.isEmpty <;>
    simp [Cbor.wf, wfPairs, w1, w2]

theorem header_fields (b : Blob) (hw : b.wf = true) :
    ∃ kvs, b.header = .map kvs ∧ decIdxField 1 kvs = some b.txIdx ∧ decIdxField 2 kvs = some b.rcIdx := by
  simp [Blob.wf] at hw
  obtain ⟨⟨⟨_, _⟩, h3⟩, h4⟩ := hw
  have d1 := decUints_map b.txIdx (by simpa using h3)
  have d2 := decUints_map b.rcIdx (by simpa using h4)
  refine ⟨_, rfl, ?_, ?_⟩
  · cases ht : b.txIdx with
    | nil => cases hr : b.rcIdx <;> simp [decIdxField, mapLookup, Cbor.beq]
    | cons t ts =>
      cases hr : b.rcIdx <;>
        simp_all [decIdxField, mapLookup, Cbor.beq, decIdx, idxCbor]
  · cases ht : b.txIdx with
    | nil =>
      cases hr : b.rcIdx <;>
        simp_all [decIdxField, mapLookup, Cbor.beq, decIdx, idxCbor]
    | cons t ts =>
      cases hr : b.rcIdx <;>
        simp_all [decIdxField, mapLookup, Cbor.beq, decIdx, idxCbor]

/-- `Unmarshal (Marshal b) = b` for every blob (index lists nil or not: `omitempty` drops the
empty ones and the decoder leaves them nil, which is the same list). -/
theorem unmarshal_marshal (b : Blob) (h : b.wf = true) : Blob.unmarshal b.marshal = some b := by
  obtain ⟨kvs, hk, h1, h2⟩ := header_fields b h
  unfold Blob.unmarshal Blob.marshal
  rw [decodeFirst_encode _ _ (header_wf b h), hk]
  simp [h1, h2]


theorem concatEnc_append (enc : α → Bytes) : ∀ (xs ys : List α),
    concatEnc enc (xs ++ ys) = concatEnc enc xs ++ concatEnc enc ys
  | [], ys => rfl
  | x :: xs, ys => by simp [concatEnc, concatEnc_append enc xs ys]

/-- Offset `i` is the base plus the total length of the items before `i`. -/
theorem offsets_getD (enc : α → Bytes) : ∀ (items : List α) (base i : Nat), i < items.length →
    (offsets enc base items).getD i 0 = base + (concatEnc enc (items.take i)).length
  | [], _, _, h => by simp at h
  | x :: xs, base, 0, _ => by simp [offsets, concatEnc]
  | x :: xs, base, i + 1, h => by
    have := offsets_getD enc xs (base + (enc x).length) i (by simpa using h)
    simp only [offsets, List.getD_cons_succ, this, List.take_succ_cons, concatEnc, List.length_append]; omega

theorem concatEnc_take_le (enc : α → Bytes) (items : List α) (i j : Nat) (h : i ≤ j) :
    (concatEnc enc (items.take i)).length ≤ (concatEnc enc (items.take j)).length := by
  have : items.take j = items.take i ++ (items.take j).drop i := by
    have := List.take_append_drop i (items.take j)
    rw [List.take_take, Nat.min_eq_left h] at this
    exact this.symm
  rw [this, concatEnc_append]; simp

theorem concatEnc_take_le_all (enc : α → Bytes) (items : List α) (i : Nat) :
    (concatEnc enc (items.take i)).length ≤ (concatEnc enc items).length := by
  have := concatEnc_take_le enc items i items.length
  by_cases h : i ≤ items.length
  · simpa using this h
  · rw [List.take_of_length_le (by omega)]; exact Nat.le_refl _

/-- Offsets never decrease. -/
theorem offsets_mono (enc : α → Bytes) (items : List α) (base i j : Nat) (hij : i ≤ j) (hj : j < items.length) :
    (offsets enc base items).getD i 0 ≤ (offsets enc base items).getD j 0 := by
  rw [offsets_getD enc items base i (by omega), offsets_getD enc items base j hj]
  have := concatEnc_take_le enc items i j hij
  omega

/-- Consecutive offsets differ by exactly the length of the item between them. -/
theorem offsets_succ (enc : α → Bytes) (items : List α) (base i : Nat) (h : i + 1 < items.length) :
    (offsets enc base items).getD (i + 1) 0 = (offsets enc base items).getD i 0 + (enc (items[i]'(by omega))).length := by
  rw [offsets_getD enc items base i (by omega), offsets_getD enc items base (i + 1) h]
  have : items.take (i + 1) = items.take i ++ [items[i]'(by omega)] := by
    rw [List.take_add_one]; simp [List.getElem?_eq_getElem (show i < items.length by omega)]
  rw [this, concatEnc_append]; simp [concatEnc]; omega

/-- Every offset lies inside the data. -/
theorem offsets_inbounds (enc : α → Bytes) (items : List α) (base i : Nat) (h : i < items.length) :
    (offsets enc base items).getD i 0 + (enc items[i]).length ≤ base + (concatEnc enc items).length := by
  rw [offsets_getD enc items base i h]
  have h1 : items.take (i + 1) = items.take i ++ [items[i]] := by
    rw [List.take_add_one]; simp [List.getElem?_eq_getElem h]
  have h2 := concatEnc_take_le_all enc items (i + 1)
  rw [h1, concatEnc_append] at h2
  simp [concatEnc] at h2
  omega

theorem offsets_all_le (enc : α → Bytes) : ∀ (items : List α) (base : Nat) (n : Nat),
    n ∈ offsets enc base items → n ≤ base + (concatEnc enc items).length
  | [], _, _, h => by simp [offsets] at h
  | x :: xs, base, n, h => by
    simp [offsets] at h
    rcases h with h | h
    · omega
    · have := offsets_all_le enc xs _ n h
      simp [concatEnc]; omega

theorem build_wf (encT : α → Bytes) (encR : β → Bytes) (txs : List α) (rcs : List β)
    (h1 : txs.length < 9223372036854775808) (h2 : rcs.length < 9223372036854775808)
    (h3 : (concatEnc encT txs ++ concatEnc encR rcs).length < 9223372036854775808) :
    (Blob.build encT encR txs rcs).wf = true := by
  rw [build_eq]
  simp only [Blob.wf, offsets_length, h1, h2, decide_true, Bool.true_and, Bool.and_eq_true, List.all_eq_true,
    decide_eq_true_eq]
  simp at h3
  constructor
  · intro n hn
    have := offsets_all_le encT txs 0 n hn
    omega
  · intro n hn
    have := offsets_all_le encR rcs _ n hn
    omega




/-- The slice handed to the item decoder is exactly the encoding of item `i` — for ANY decoder
(full or partial). -/
theorem sliceGet_offsets_raw {α γ : Type} (enc : α → Bytes) (dec : Bytes → Option γ) :
    ∀ (items : List α) (pre : Bytes) (i : Nat) (h : i < items.length),
      sliceGet dec (offsets enc pre.length items) (pre ++ concatEnc enc items) i = Res.ofOption (dec (enc items[i]))
  | [], _, _, h => by simp at h
  | x :: xs, pre, 0, _ => by
    have hmid := take_drop_mid pre (enc x) (concatEnc enc xs)
    rw [sliceGet_eq dec _ _ 0 pre.length (pre.length + (enc x).length) (by simp [offsets]) (by simp [offsets])
      (by cases xs <;> simp [offsets, concatEnc]) (by omega) (by simp [concatEnc])]
    simp only [concatEnc, hmid]
    rfl
  | x :: xs, pre, j + 1, h => by
    have ih := sliceGet_offsets_raw enc dec xs (pre ++ enc x) j (by simpa using h)
    simp only [offsets, concatEnc, sliceGet_cons_succ]
    simp only [List.length_append, List.append_assoc] at ih
    rw [ih]
    simp

theorem getTx_build_raw {α β γ : Type} (encT : α → Bytes) (encR : β → Bytes) (dec : Bytes → Option γ)
    (txs : List α) (rcs : List β) (i : Nat) (h : i < txs.length) :
    (Blob.build encT encR txs rcs).getTx dec i = Res.ofOption (dec (encT txs[i])) := by
  unfold Blob.getTx
  rw [txSection_build]
  have := sliceGet_offsets_raw encT dec txs [] i h
  simpa [build_eq] using this

theorem getRc_build_raw {α β γ : Type} (encT : α → Bytes) (encR : β → Bytes) (dec : Bytes → Option γ)
    (txs : List α) (rcs : List β) (i : Nat) (h : i < rcs.length) :
    (Blob.build encT encR txs rcs).getRc dec i = Res.ofOption (dec (encR rcs[i])) := by
  unfold Blob.getRc
  have := sliceGet_offsets_raw encR dec rcs (concatEnc encT txs) i h
  simpa [build_eq] using this


end Juno.C07
