import JunoModel.C07.ModelChain
/-
C07 — model, part 9 (round 4): the SECOND writer and the range deleter of the block records.

  db/typed/prefix/tag.go            hasPrefix.DeleteRange(startKey, endKey): a byte-range delete between two
                                    ENCODED keys (8-byte big-endian numbers; canonical CBOR numbers for the
                                    block-transactions bucket)
  pruner/accessors.go               PruneBlockDataUpto (headers keep a BlockHashLag window)
  migration/historyprunner          setupBeforeStager (prune + wipe the three reverse-lookup buckets),
                                    setupBeforeRestorer (seed hash → number of block floor-1 from its header),
                                    restorer.Run (rebuild hash → number from the stored STATE UPDATE's block
                                    hash, hash → (number, index) and L1 message entries from the stored blob)

The restorer is a second copy of the index-writing logic of `WriteTransactionsAndReceipts` /
`WriteL1HandlerMsgHashes` / `WriteBlockHeader`; after the migration every retained block must read
back through the by-hash accessors exactly as before. State history, aggregated bloom filters and
the scratch space are outside the block-record buckets and not modelled (C16 / C18).
Core Lean only.
-/
namespace Juno.C07

def bytesLeq (a b : Bytes) : Bool := !(bytesLt b a)

/-- `Batch.DeleteRange(start, end)`: every key `k` with `start ≤ k < end`, bytewise. -/
def Store.delRange (s : Store) (lo hi : Bytes) : Store :=
  s.filter (fun e => !(bytesLeq lo e.1 && bytesLt e.1 hi))

/-- `hasPrefix.DeleteRange` on a bucket keyed by 8-byte big-endian block numbers. -/
def delRangeByNumber (s : Store) (bucket lo hi : Nat) : Store :=
  s.delRange (keyByNumber bucket lo) (keyByNumber bucket hi)

/-- `BlockTransactionsBucket.Prefix().DeleteRange`: the bounds are canonical CBOR numbers. -/
def delRangeBlockTransactions (s : Store) (lo hi : Nat) : Store :=
  s.delRange (keyBlockTransactions lo) (keyBlockTransactions hi)

def blockHashLag : Nat := 10

/-- `pruner.PruneBlockDataUpto(w, end)` on the block-record buckets: commitments, state updates and
block transactions below `end`; headers only below `end - BlockHashLag`. -/
def pruneBlockDataUpto (s : Store) (endx : Nat) : Store :=
  let headerEnd := if endx > blockHashLag then endx - blockHashLag else 0
  let s1 := delRangeByNumber s bBlockHeadersByNumber 0 headerEnd
  let s2 := delRangeByNumber s1 bBlockCommitments 0 endx
  let s3 := delRangeByNumber s2 bStateUpdatesByBlockNumber 0 endx
  delRangeBlockTransactions s3 0 endx

/-- `wipeBucket(batch, b)`: `DeleteRange([b], UpperBound([b]))` = everything under the bucket byte. -/
def wipeBucket (s : Store) (b : Nat) : Store := s.delRange [UInt8.ofNat b] [UInt8.ofNat (b + 1)]

/-- The index writes of `restorer.Run` for the transactions of one block, in its order: for each
transaction `hash ↦ (n, idx)`, then for an L1 handler `message hash ↦ hash`, then `idx++`. -/
def restoreEntries (s : Store) (n : Nat) : Nat → List TxKeys → Store
  | _, [] => s
  | i, k :: ks =>
    let s1 := s.put (keyByHash bTxIndexByHash k.hash) (encNumIndex n i)
    let s2 := match k.msg with
      | some m => s1.put (keyByHash bL1HandlerTxnHashByMsgHash m) k.hash
      | none => s1
    restoreEntries s2 n (i + 1) ks

/-- `restorer.Run(blockNumber)` on the block records: the state update must be there (its
`BlockHash` keys the hash → number entry — `suHash`, `none` for a nil hash), then the blob is read
with the full decoder and iterated. -/
def restoreBlock (suHash : Bytes → Option Bytes) (txKeys : Bytes → Option TxKeys) (s : Store) (n : Nat) : Res Store :=
  match getStateUpdateByNumber s n with
  | none => .notFound
  | some su =>
    match suHash su with
    | none => .decodeErr
    | some h =>
      let s1 := s.put (keyByHash bBlockHeaderNumbersByHash h) (encNumber n)
      match getBlobByNumber s n with
      | none => .notFound
      | some blob => (readBlob blob (fun b => b.allTx txKeys)).map fun ks => restoreEntries s1 n 0 ks

/-- `migrateRange(from, to)` with the restorer: blocks `n, n+1, …` (`k` of them). -/
def restoreRange (suHash : Bytes → Option Bytes) (txKeys : Bytes → Option TxKeys) : Store → Nat → Nat → Res Store
  | s, _, 0 => .ok s
  | s, n, k + 1 => (restoreBlock suHash txKeys s n).bind fun s' => restoreRange suHash txKeys s' (n + 1) k

/-- The history-pruner migration on the block-record buckets, for a cutoff `floor ≥ 1` and chain
height `height`: prune below the cutoff, wipe the reverse lookups, seed `hash ↦ floor-1` from the
header of block `floor-1` (full decoder; `hdrHash`), rebuild the lookups of `floor … height`. -/
def hpMigrate (hdrHash suHash : Bytes → Option Bytes) (txKeys : Bytes → Option TxKeys) (s : Store) (floor height : Nat) :
    Res Store :=
  let s1 := wipeBucket (wipeBucket (wipeBucket (pruneBlockDataUpto s floor) bTxIndexByHash) bL1HandlerTxnHashByMsgHash)
    bBlockHeaderNumbersByHash
  match getHeaderByNumber s1 (floor - 1) with
  | none => .notFound
  | some hb =>
    match hdrHash hb with
    | none => .decodeErr
    | some h =>
      restoreRange suHash txKeys (s1.put (keyByHash bBlockHeaderNumbersByHash h) (encNumber (floor - 1))) floor
        (height + 1 - floor)

/-! ### typed instances for the driver -/

def kBlockHash : Bytes := [66, 108, 111, 99, 107, 72, 97, 115, 104]

/-- `GetBlockHeaderByNumber(...).Hash` (full decoder). -/
def fullHeaderHash (cfg : DecCfg) (hdr : Bytes) : Option Bytes :=
  match unmarshalVal cfg tHeader hdr with
  | some hv =>
    match getField tHeader kHash hv with
    | some (.felt a b c d) => some (feltBytes a b c d)
    | _ => none
  | none => none

/-- `GetStateUpdateByBlockNum(...).BlockHash` (full decoder). -/
def stateUpdateHash (cfg : DecCfg) (su : Bytes) : Option Bytes :=
  match unmarshalVal cfg tStateUpdate su with
  | some sv =>
    match getField tStateUpdate kBlockHash sv with
    | some (.felt a b c d) => some (feltBytes a b c d)
    | _ => none
  | none => none

end Juno.C07
