import JunoModel.C07.ModelChain
import JunoModel.C07.ProofsStore
import JunoModel.C07.ProofsBlob
import JunoModel.C07.ProofsVal
namespace Juno.C07

/-! ### `int(index)` -/

theorem intOfU64_small (u : Nat) (h : u < twoP63) : intOfU64 u = (u : Int) := by
  have : u % twoP64 = u := Nat.mod_eq_of_lt (by unfold twoP63 at h; unfold twoP64; omega)
  simp [intOfU64, this, h]

theorem intOfU64_neg (u : Nat) (h1 : twoP63 ≤ u) (h2 : u < twoP64) : intOfU64 u < 0 := by
  have : u % twoP64 = u := Nat.mod_eq_of_lt h2
  have h3 : ¬ u < twoP63 := by omega
  simp only [intOfU64, this, h3, if_false]
  unfold twoP64 at h2 ⊢
  omega

/-- A `uint64` index reads item `u` when it is in range and is not-found otherwise — in
particular for every `u ≥ 2^63`, which `int(u)` turns negative. -/
theorem sliceGetInt_u64 {α : Type} (dec : Bytes → Option α) (idx : List Nat) (data : Bytes) (u : Nat)
    (hu : u < twoP64) (hl : idx.length ≤ twoP63) :
    sliceGetInt dec idx data (intOfU64 u) = if u < idx.length then sliceGet dec idx data u else .notFound := by
  by_cases h : u < twoP63
  · rw [intOfU64_small u h]
    have : ¬ ((u : Int) < 0) := by omega
    simp only [sliceGetInt, this, if_false, Int.toNat_natCast]
    by_cases h2 : u < idx.length
    · simp [h2]
    · simp only [h2, if_false]
      exact sliceGet_notFound dec idx data u (by omega)
  · have hn := intOfU64_neg u (by omega) hu
    have h2 : ¬ u < idx.length := by omega
    simp [sliceGetInt, hn, h2]

variable {α β : Type}

theorem getTxAt_build (encT : α → Bytes) (encR : β → Bytes) {γ : Type} (dec : Bytes → Option γ)
    (txs : List α) (rcs : List β) (hl : txs.length ≤ twoP63) (u : Nat) (hu : u < twoP64) :
    (Blob.build encT encR txs rcs).getTxAt dec u = (Blob.build encT encR txs rcs).getTx dec u := by
  unfold Blob.getTxAt Blob.getTx
  rw [txSection_build]
  simp only
  rw [sliceGetInt_u64 dec _ _ u hu (by simpa [build_eq, offsets_length] using hl)]
  by_cases h : u < (Blob.build encT encR txs rcs).txIdx.length
  · simp [h]
  · simp only [h, if_false]
    exact (sliceGet_notFound dec _ _ u (by omega)).symm

theorem getRcAt_build (encT : α → Bytes) (encR : β → Bytes) {γ : Type} (dec : Bytes → Option γ)
    (txs : List α) (rcs : List β) (hl : rcs.length ≤ twoP63) (u : Nat) (hu : u < twoP64) :
    (Blob.build encT encR txs rcs).getRcAt dec u = (Blob.build encT encR txs rcs).getRc dec u := by
  unfold Blob.getRcAt Blob.getRc
  rw [sliceGetInt_u64 dec _ _ u hu (by simpa [build_eq, offsets_length] using hl)]
  by_cases h : u < (Blob.build encT encR txs rcs).rcIdx.length
  · simp [h]
  · simp only [h, if_false]
    exact (sliceGet_notFound dec _ _ u (by omega)).symm

/-! ### `AllMapped` with the reset = map of fresh decodes -/

theorem reuse_reset_eq {σ ρ : Type} (decInto : σ → Bytes → Option σ) (zero : σ) (f : Nat → σ → Option ρ)
    (idx : List Nat) (data : Bytes) : ∀ (k i : Nat) (cur : σ),
    sliceAllReuseFrom decInto zero true f idx data cur i k = sliceMapFrom (decInto zero) f idx data i k
  | 0, _, _ => by simp [sliceAllReuseFrom, sliceMapFrom]
  | k + 1, i, cur => by
    simp only [sliceAllReuseFrom, sliceMapFrom, if_true]
    cases sliceGet (decInto zero) idx data i with
    | ok v =>
      simp only
      cases f i v with
      | none => rfl
      | some r => simp only; rw [reuse_reset_eq decInto zero f idx data k (i + 1) v]
    | notFound => rfl
    | decodeErr => rfl
    | panic => rfl

/-! ### mapping over the items of a built section -/

/-- Specification: map `g` (given the index) over the items, the first failure is an error. -/
def mapItems {α ρ : Type} (g : Nat → α → Option ρ) : Nat → List α → Res (List ρ)
  | _, [] => .ok []
  | i, a :: as =>
    match g i a with
    | some r => (mapItems g (i + 1) as).map (r :: ·)
    | none => .decodeErr

theorem sliceMapFrom_offsets {α γ ρ : Type} (enc : α → Bytes) (dec : Bytes → Option γ) (f : Nat → γ → Option ρ)
    (items : List α) (pre : Bytes) : ∀ (k i : Nat), i + k = items.length →
    sliceMapFrom dec f (offsets enc pre.length items) (pre ++ concatEnc enc items) i k =
      mapItems (fun j a => (dec (enc a)).bind (f j)) i (items.drop i)
  | 0, i, h => by
    have : items.drop i = [] := List.drop_eq_nil_of_le (by omega)
    simp [sliceMapFrom, mapItems, this]
  | k + 1, i, h => by
    have hi : i < items.length := by omega
    rw [List.drop_eq_getElem_cons hi]
    simp only [sliceMapFrom, mapItems, sliceGet_offsets_raw enc dec items pre i hi]
    cases hd : dec (enc items[i]) with
    | none => simp [Res.ofOption]
    | some v =>
      simp only [Res.ofOption, Option.bind_some]
      cases f i v with
      | none => rfl
      | some r => simp only; rw [sliceMapFrom_offsets enc dec f items pre k (i + 1) (by omega)]

theorem sliceMap_offsets {α γ ρ : Type} (enc : α → Bytes) (dec : Bytes → Option γ) (f : Nat → γ → Option ρ)
    (items : List α) (pre : Bytes) :
    sliceMap dec f (offsets enc pre.length items) (pre ++ concatEnc enc items) =
      mapItems (fun j a => (dec (enc a)).bind (f j)) 0 items := by
  have := sliceMapFrom_offsets enc dec f items pre items.length 0 (by simp)
  simpa [sliceMap, offsets_length] using this

theorem mapItems_all_some {α ρ : Type} (g : Nat → α → Option ρ) (h : α → ρ) : ∀ (items : List α) (i : Nat),
    (∀ a ∈ items, ∀ j, g j a = some (h a)) → mapItems g i items = .ok (items.map h)
  | [], _, _ => rfl
  | a :: as, i, hall => by
    simp only [mapItems, hall a (List.mem_cons_self ..) i,
      mapItems_all_some g h as (i + 1) (fun x hx => hall x (List.mem_cons_of_mem _ hx)), Res.map, List.map_cons]

theorem mapItems_ok_or_err {α ρ : Type} (g : Nat → α → Option ρ) : ∀ (items : List α) (i : Nat),
    (∃ rs, mapItems g i items = .ok rs) ∨ mapItems g i items = .decodeErr
  | [], _ => Or.inl ⟨[], rfl⟩
  | a :: as, i => by
    simp only [mapItems]
    cases g i a with
    | none => exact Or.inr rfl
    | some r =>
      rcases mapItems_ok_or_err g as (i + 1) with ⟨rs, h⟩ | h
      · exact Or.inl ⟨r :: rs, by simp [h, Res.map]⟩
      · exact Or.inr (by simp [h, Res.map])

/-- One item on which `g` fails (at every index) makes the whole read fail: never a shorter or a
patched-up list. -/
theorem mapItems_fail {α ρ : Type} (g : Nat → α → Option ρ) : ∀ (items : List α) (i : Nat),
    (∃ a ∈ items, ∀ j, g j a = none) → mapItems g i items = .decodeErr
  | [], _, h => by obtain ⟨a, ha, _⟩ := h; simp at ha
  | a :: as, i, h => by
    obtain ⟨x, hx, hg⟩ := h
    simp only [mapItems]
    cases hga : g i a with
    | none => rfl
    | some r =>
      rcases List.mem_cons.mp hx with rfl | hx'
      · rw [hg i] at hga; cases hga
      · simp [mapItems_fail g as (i + 1) ⟨x, hx', hg⟩, Res.map]

theorem mapItems_ok_length {α ρ : Type} (g : Nat → α → Option ρ) : ∀ (items : List α) (i : Nat) (rs : List ρ),
    mapItems g i items = .ok rs →
    rs.length = items.length ∧ ∀ j (hj : j < items.length) (hr : j < rs.length), g (i + j) items[j] = some rs[j]
  | [], _, rs, h => by
    simp only [mapItems, Res.ok.injEq] at h
    subst h
    exact ⟨rfl, fun j hj => by simp at hj⟩
  | a :: as, i, rs, h => by
    simp only [mapItems] at h
    cases hg : g i a with
    | none => simp [hg] at h
    | some r =>
      simp only [hg] at h
      cases hrec : mapItems g (i + 1) as with
      | ok rs' =>
        simp only [hrec, Res.map, Res.ok.injEq] at h
        subst h
        obtain ⟨hl, hrest⟩ := mapItems_ok_length g as (i + 1) rs' hrec
        refine ⟨by simp [hl], ?_⟩
        intro j hj hr
        cases j with
        | zero => simpa using hg
        | succ j =>
          have := hrest j (by simpa using hj) (by simpa using hr)
          have e : i + 1 + j = i + (j + 1) := by omega
          rw [e] at this
          simpa using this
      | notFound => simp [hrec, Res.map] at h
      | decodeErr => simp [hrec, Res.map] at h
      | panic => simp [hrec, Res.map] at h

/-! ### `delAll` only depends on the SET of keys -/

theorem delAll_eq_filter (s : Store) : ∀ (ks : List Bytes), s.delAll ks = s.filter (fun e => !ks.contains e.1)
  | [] => by
    simp only [Store.delAll, List.contains_nil, Bool.not_false]
    exact (List.filter_eq_self.mpr (by simp)).symm
  | k :: ks => by
    rw [Store.delAll, delAll_eq_filter (s.del k) ks, Store.del, List.filter_filter]
    congr 1
    funext e
    by_cases h : e.1 = k
    · simp [h]
    · have h1 : (e.1 == k) = false := by simpa using h
      simp [h1, h]

theorem delAll_congr (s : Store) (ks ks' : List Bytes) (h : ∀ k, k ∈ ks ↔ k ∈ ks') : s.delAll ks = s.delAll ks' := by
  rw [delAll_eq_filter, delAll_eq_filter]
  congr 1
  funext e
  have : ks.contains e.1 = ks'.contains e.1 := by
    rw [Bool.eq_iff_iff]; simp [h e.1]
  rw [this]

/-! ### the revert, driven by the stored header and blob, removes exactly the block's entries -/

/-- What the stored bytes of block `b` must say for the data-driven revert to find `b`'s keys:
the header projection yields `b`'s hash, and the transactions decoded from `b`'s blob carry `b`'s
transaction hashes (in order) and L1 message hashes. -/
structure StoredAs (hashOf : Bytes → Option Bytes) (txKeys : Bytes → Option TxKeys) (b : BlockRec) : Prop where
  hash : hashOf b.header = some b.hash
  txs : ∃ ks, readBlob b.blob (fun bl => bl.allTx txKeys) = .ok ks ∧ ks.map (·.hash) = b.txHashes ∧
    ks.filterMap (·.msg) = b.l1.map (·.1)

theorem mem_flatMap_keys (ks : List TxKeys) (k : Bytes) :
    k ∈ ks.flatMap TxKeys.keys ↔
      (∃ h ∈ ks.map (·.hash), k = keyByHash bTxIndexByHash h) ∨
      (∃ m ∈ ks.filterMap (·.msg), k = keyByHash bL1HandlerTxnHashByMsgHash m) := by
  induction ks with
  | nil => simp
  | cons x xs ih =>
    simp only [List.flatMap_cons, List.mem_append, ih, List.map_cons, List.mem_cons]
    cases hm : x.msg with
    | none =>
      simp only [TxKeys.keys, hm, List.mem_cons, List.not_mem_nil, or_false, List.filterMap_cons]
      constructor
      · rintro (h | h | h)
        · exact Or.inl ⟨x.hash, Or.inl rfl, h⟩
        · obtain ⟨y, hy, e⟩ := h; exact Or.inl ⟨y, Or.inr hy, e⟩
        · exact Or.inr h
      · rintro (⟨y, hy | hy, e⟩ | h)
        · subst hy; exact Or.inl e
        · exact Or.inr (Or.inl ⟨y, hy, e⟩)
        · exact Or.inr (Or.inr h)
    | some m =>
      simp only [TxKeys.keys, hm, List.mem_cons, List.not_mem_nil, or_false, List.filterMap_cons]
      constructor
      · rintro ((h | h) | h | h)
        · exact Or.inl ⟨x.hash, Or.inl rfl, h⟩
        · exact Or.inr ⟨m, Or.inl rfl, h⟩
        · obtain ⟨y, hy, e⟩ := h; exact Or.inl ⟨y, Or.inr hy, e⟩
        · obtain ⟨y, hy, e⟩ := h; exact Or.inr ⟨y, Or.inr hy, e⟩
      · rintro (⟨y, hy | hy, e⟩ | ⟨y, hy | hy, e⟩)
        · subst hy; exact Or.inl (Or.inl e)
        · exact Or.inr (Or.inl ⟨y, hy, e⟩)
        · subst hy; exact Or.inl (Or.inr e)
        · exact Or.inr (Or.inr ⟨y, hy, e⟩)

/-- **`deleteBlockContent` finds, in the store, exactly the entries `writeBlockContent` made**: with
the block's header and blob in place, the data-driven revert equals the specification
`deleteBlock` (all of the block's keys) followed by the chain-height bookkeeping. -/
theorem deleteBlockContent_eq (hashOf : Bytes → Option Bytes) (txKeys : Bytes → Option TxKeys) (s : Store) (b : BlockRec)
    (hh : getHeaderByNumber s b.number = some b.header) (hb : getBlobByNumber s b.number = some b.blob)
    (hs : StoredAs hashOf txKeys b) :
    deleteBlockContent hashOf txKeys s b.number = .ok (revertBlockSpec s b) := by
  obtain ⟨ks, hks, htx, hl1⟩ := hs.txs
  simp only [deleteBlockContent, hh, hs.hash, deleteTxsAndReceiptsKeys, hb, hks, Res.map, revertBlockSpec, deleteBlock]
  congr 2
  apply delAll_congr
  intro k
  simp only [List.mem_append, List.mem_cons, List.not_mem_nil, or_false, mem_flatMap_keys, htx, hl1, mem_blockKeys,
    List.mem_map]
  constructor <;> intro h <;> grind

/-! ### the chain-height key and the block keys -/

theorem Indep.symm {a b : BlockRec} (h : Indep a b) : Indep b a := by
  obtain ⟨h1, h2, h3, h4⟩ := h
  exact ⟨fun e => h1 e.symm, fun e => h2 e.symm, fun x hx hxa => h3 x hxa hx, fun x hx hxa => h4 x hxa hx⟩

theorem heightKey_not_blockKey (a : BlockRec) : dbKey bChainHeight [] ∉ blockKeys a := by
  intro h
  rw [mem_blockKeys] at h
  rcases h with h | h | h | ⟨x, _, h⟩ | ⟨x, y, _, h⟩ | h | h <;> (keys_simp; simp at h)

theorem entry_height (b : BlockRec) (v' : Bytes) (h : (dbKey bChainHeight [], v') ∈ blockEntries b) :
    v' = encNumber b.number := by
  rw [mem_blockEntries] at h
  rcases h with h | h | h | h | h | h | ⟨m, t, _, h⟩ | h
  · keys_simp; simp at h
  · keys_simp; simp at h
  · obtain ⟨i, hi, h1, _⟩ := txIndexEntries_inv _ _ _ _ _ h; keys_simp; simp at h1
  · keys_simp; simp at h
  · keys_simp; simp at h
  · keys_simp; simp at h
  · keys_simp; simp at h
  · simp at h; exact h

/-- `writeBlockContent` ends with `WriteChainHeight(block.Number)`. -/
theorem height_after_write (s : Store) (b : BlockRec) (hn : b.number < 18446744073709551616) :
    getChainHeight (writeBlock s b) = some b.number := by
  unfold getChainHeight writeBlock
  rw [get_putAll_mem s _ _ (encNumber b.number) (by rw [mem_blockEntries]; simp) (entry_height b)]
  exact decNumber_enc _ hn

theorem get_fixHeight_other (s : Store) (n : Nat) (k : Bytes) (hk : k ≠ dbKey bChainHeight []) :
    (fixHeight s n).get k = s.get k := by
  unfold fixHeight
  split
  · rw [get_del]
    have : ¬ dbKey bChainHeight [] = k := fun h => hk h.symm
    simp [this]
  · have : (dbKey bChainHeight [] == k) = false := by simpa using (fun h : dbKey bChainHeight [] = k => hk h.symm)
    simp [Store.put, Store.get, this]

theorem reads_fixHeight (s : Store) (a : BlockRec) (n : Nat) (hr : Reads s a) : Reads (fixHeight s n) a :=
  reads_congr s _ a (fun k hk => get_fixHeight_other s n k (fun e => heightKey_not_blockKey a (e ▸ hk))) hr

theorem height_fixHeight (s : Store) (n : Nat) (h0 : n ≠ 0) (hn : n < 18446744073709551616) :
    getChainHeight (fixHeight s n) = some (n - 1) := by
  simp only [getChainHeight, fixHeight, h0, if_false, Store.put, Store.get, beq_self_eq_true, if_true, Option.bind_some]
  exact decNumber_enc _ (by omega)

theorem height_fixHeight_genesis (s : Store) : getChainHeight (fixHeight s 0) = none := by
  simp [getChainHeight, fixHeight, get_del]

/-! ### any sequence of `Store` / `RevertHead` -/

/-- Block numbers of the chain (head first) go down by one. -/
def Consec : List BlockRec → Prop
  | [] => True
  | [_] => True
  | b :: a :: rest => b.number = a.number + 1 ∧ Consec (a :: rest)

/-- What holds of (store, chain) in every reachable state. -/
structure ChainInv (s : Store) (chain : List BlockRec) : Prop where
  reads : ∀ a ∈ chain, Reads s a
  small : ∀ a ∈ chain, a.number < 18446744073709551616
  indep : chain.Pairwise Indep
  consec : Consec chain
  height : ∀ b rest, chain = b :: rest → getChainHeight s = some b.number

/-- The chain component of `runOp` does not depend on the store. -/
def chainAfter (chain : List BlockRec) : ChainOp → List BlockRec
  | .store b => b :: chain
  | .revert => chain.tail

theorem runOp_chain (st : Store × List BlockRec) (op : ChainOp) : (runOp st op).2 = chainAfter st.2 op := by
  cases op with
  | store b => rfl
  | revert => cases h : st.2 <;> simp [runOp, chainAfter, h]

/-- What `verifyBlockSuccession` and the uniqueness of hashes give for a block about to be stored:
it is well-formed, shares no hash / transaction hash / message hash with a block of the chain, and
its number is the head's plus one. -/
def validOp (chain : List BlockRec) : ChainOp → Prop
  | .store b => b.ok ∧ (∀ a ∈ chain, Indep a b) ∧ (∀ a rest, chain = a :: rest → b.number = a.number + 1)
  | .revert => True

def validOps : List BlockRec → List ChainOp → Prop
  | _, [] => True
  | chain, op :: ops => validOp chain op ∧ validOps (chainAfter chain op) ops

theorem chainInv_step (st : Store × List BlockRec) (op : ChainOp) (hi : ChainInv st.1 st.2) (hv : validOp st.2 op) :
    ChainInv (runOp st op).1 (runOp st op).2 := by
  obtain ⟨s, chain⟩ := st
  cases op with
  | store b =>
    obtain ⟨hok, hind, hnum⟩ := hv
    simp only [runOp]
    refine ⟨?_, ?_, ?_, ?_, ?_⟩
    · intro a ha
      rcases List.mem_cons.mp ha with rfl | ha'
      · exact block_reads s a hok
      · exact reads_frame s a b (hi.small a ha') hok.1 (hind a ha') (hi.reads a ha')
    · intro a ha
      rcases List.mem_cons.mp ha with rfl | ha'
      · exact hok.1
      · exact hi.small a ha'
    · exact List.pairwise_cons.mpr ⟨fun a ha => (hind a ha).symm, hi.indep⟩
    · cases hc : chain with
      | nil => simp [Consec]
      | cons a rest => exact ⟨hnum a rest hc, hc ▸ hi.consec⟩
    · intro b' rest h
      simp only [List.cons.injEq] at h
      rw [← h.1]
      exact height_after_write s b hok.1
  | revert =>
    cases hc : chain with
    | nil => simpa [runOp, hc] using hc ▸ hi
    | cons b rest =>
      simp only [runOp]
      have hp := List.pairwise_cons.mp (hc ▸ hi.indep)
      have hbs : b.number < 18446744073709551616 := hi.small b (by simp [hc])
      refine ⟨?_, ?_, hp.2, ?_, ?_⟩
      · intro a ha
        apply reads_fixHeight
        exact (delete_reads s b).2.2.2.2.2.2.2.2 a (hi.small a (by simp [hc, ha])) hbs (hp.1 a ha).symm
          (hi.reads a (by simp [hc, ha]))
      · intro a ha; exact hi.small a (by simp [hc, ha])
      · have := hc ▸ hi.consec
        cases rest with
        | nil => simp [Consec]
        | cons a r => exact this.2
      · intro a r h
        subst h
        have hcs := hc ▸ hi.consec
        have e : b.number = a.number + 1 := hcs.1
        have : getChainHeight (fixHeight (deleteBlock s b) b.number) = some (b.number - 1) :=
          height_fixHeight _ _ (by omega) hbs
        unfold revertBlockSpec
        rw [this, e]
        simp

/-- **Every reachable state**: from any state satisfying the invariant (the empty store with the
empty chain does), after ANY sequence of valid `Store` / `RevertHead` operations, every block of
the chain reads back through every reader and the chain height is the head's number. -/
theorem chainInv_ops : ∀ (ops : List ChainOp) (st : Store × List BlockRec), ChainInv st.1 st.2 → validOps st.2 ops →
    ChainInv (runOps st ops).1 (runOps st ops).2
  | [], _, hi, _ => hi
  | op :: ops, st, hi, hv => by
    simp only [runOps]
    apply chainInv_ops ops (runOp st op) (chainInv_step st op hi hv.1)
    rw [runOp_chain]
    exact hv.2

theorem chainInv_empty : ChainInv [] [] :=
  ⟨fun a h => by simp at h, fun a h => by simp at h, List.Pairwise.nil, trivial, fun b r h => by simp at h⟩

/-- The removed head does not resolve after the revert, whatever the height bookkeeping did. -/
theorem revert_removes (s : Store) (b : BlockRec) :
    getHeaderByNumber (revertBlockSpec s b) b.number = none ∧
    getHeaderByHash (revertBlockSpec s b) b.hash = none ∧
    getStateUpdateByHash (revertBlockSpec s b) b.hash = none ∧
    getBlobByNumber (revertBlockSpec s b) b.number = none ∧
    (∀ {α : Type} (dec : Bytes → Option α), ∀ th ∈ b.txHashes, getTxByHash dec (revertBlockSpec s b) th = .notFound) ∧
    (∀ m t, (m, t) ∈ b.l1 → getL1TxHash (revertBlockSpec s b) m = none) := by
  obtain ⟨d1, d2, _, _, d5, d6, _, d8, _⟩ := delete_reads s b
  have other : ∀ k, k ∈ blockKeys b → (revertBlockSpec s b).get k = (deleteBlock s b).get k := fun k hk =>
    get_fixHeight_other _ _ k (fun e => heightKey_not_blockKey b (e ▸ hk))
  have k1 := other _ ((mem_blockKeys b _).mpr (Or.inl rfl))
  have k2 := other _ ((mem_blockKeys b _).mpr (Or.inr (Or.inl rfl)))
  have k4 := other _ ((mem_blockKeys b _).mpr (Or.inr (Or.inr (Or.inr (Or.inr (Or.inr (Or.inl rfl)))))))
  have n2 : getNumberByHash (revertBlockSpec s b) b.hash = none := by
    unfold getNumberByHash; rw [k2]; exact d2
  have loc : ∀ th ∈ b.txHashes, getTxLocation (revertBlockSpec s b) th = none := by
    intro th hth
    unfold getTxLocation
    rw [other _ ((mem_blockKeys b _).mpr (Or.inr (Or.inr (Or.inr (Or.inl ⟨th, hth, rfl⟩)))))]
    exact d6 th hth
  refine ⟨k1.trans d1, by simp [getHeaderByHash, n2], by simp [getStateUpdateByHash, n2], k4.trans d5,
    fun dec th hth => by simp [getTxByHash, loc th hth], ?_⟩
  intro m t hm
  unfold getL1TxHash
  rw [other _ ((mem_blockKeys b _).mpr (Or.inr (Or.inr (Or.inr (Or.inr (Or.inl ⟨m, t, hm, rfl⟩))))))]
  exact d8 m t hm

/-- `RevertHead` as the code runs it (height, state update and header looked up, hash and keys read
from the stored bytes) performs exactly the `.revert` step of the chain model. -/
theorem revertHead_eq (hashOf : Bytes → Option Bytes) (txKeys : Bytes → Option TxKeys) (s : Store) (b : BlockRec)
    (rest : List BlockRec) (hi : ChainInv s (b :: rest)) (hs : StoredAs hashOf txKeys b) :
    revertHead hashOf txKeys s = .ok (runOp (s, b :: rest) .revert).1 := by
  obtain ⟨r1, _, _, r4, r5, _⟩ := hi.reads b (List.mem_cons_self ..)
  simp only [revertHead, hi.height b rest rfl, r5, r1, runOp]
  exact deleteBlockContent_eq hashOf txKeys s b r1 r4 hs

/-! ### extractors on a built blob -/

section Extract
variable {α β : Type}

theorem getTxAndRcAt_build (encT : α → Bytes) (encR : β → Bytes) (decT : Bytes → Option α) (decR : Bytes → Option β)
    (txs : List α) (rcs : List β) (hT : ∀ a ∈ txs, decT (encT a) = some a) (hR : ∀ a ∈ rcs, decR (encR a) = some a)
    (h1 : txs.length ≤ twoP63) (h2 : rcs.length ≤ twoP63) (u : Nat) (hu : u < twoP64) :
    (Blob.build encT encR txs rcs).getTxAndRcAt decT decR u =
      if h : u < txs.length ∧ u < rcs.length then .ok (txs[u]'h.1, rcs[u]'h.2) else .notFound := by
  unfold Blob.getTxAndRcAt
  rw [getTxAt_build encT encR decT txs rcs h1 u hu, getRcAt_build encT encR decR txs rcs h2 u hu]
  by_cases ht : u < txs.length
  · rw [getTx_build encT encR decT txs rcs hT u ht]
    by_cases hr : u < rcs.length
    · rw [getRc_build encT encR decR txs rcs hR u hr]
      simp [Res.bind, Res.map, ht, hr]
    · rw [getRc_build_notFound encT encR decR txs rcs u (by omega)]
      simp [Res.bind, Res.map, hr]
  · rw [getTx_build_notFound encT encR decT txs rcs u (by omega)]
    simp [Res.bind, ht]

theorem allTxAndRc_build (encT : α → Bytes) (encR : β → Bytes) (decT : Bytes → Option α) (decR : Bytes → Option β)
    (txs : List α) (rcs : List β) (hT : ∀ a ∈ txs, decT (encT a) = some a) (hR : ∀ a ∈ rcs, decR (encR a) = some a) :
    (Blob.build encT encR txs rcs).allTxAndRc decT decR = .ok (txs, rcs) := by
  simp [Blob.allTxAndRc, allTx_build encT encR decT txs rcs hT, allRc_build encT encR decR txs rcs hR, Res.bind, Res.map]

/-- Mapping ANY per-item decoder + extractor over the transactions of a built blob = mapping it
over the stored transactions' encodings. -/
theorem sliceMap_tx_build {γ ρ : Type} (encT : α → Bytes) (encR : β → Bytes) (dec : Bytes → Option γ)
    (f : Nat → γ → Option ρ) (txs : List α) (rcs : List β) :
    sliceMap dec f (Blob.build encT encR txs rcs).txIdx (concatEnc encT txs) =
      mapItems (fun j a => (dec (encT a)).bind (f j)) 0 txs := by
  have := sliceMap_offsets encT dec f txs []
  simpa [build_eq] using this

theorem sliceMap_rc_build {γ ρ : Type} (encT : α → Bytes) (encR : β → Bytes) (dec : Bytes → Option γ)
    (f : Nat → γ → Option ρ) (txs : List α) (rcs : List β) :
    sliceMap dec f (Blob.build encT encR txs rcs).rcIdx (Blob.build encT encR txs rcs).data =
      mapItems (fun j a => (dec (encR a)).bind (f j)) 0 rcs := by
  have := sliceMap_offsets encR dec f rcs (concatEnc encT txs)
  simpa [build_eq] using this

end Extract

/-! ### whole-block readers over the store -/

theorem getBlock_reads {γ α β : Type} (decH : Bytes → Option γ) (decT : Bytes → Option α) (decR : Bytes → Option β)
    (s : Store) (b : BlockRec) (hr : Reads s b) (h : γ) (hH : decH b.header = some h) (txs : List α) (rcs : List β)
    (hblob : readBlob b.blob (fun bl => bl.allTxAndRc decT decR) = .ok (txs, rcs)) :
    getBlockByNumber decH decT decR s b.number = .ok (h, txs, rcs) ∧
    getBlockByHash decH decT decR s b.hash = .ok (h, txs, rcs) := by
  obtain ⟨r1, r2, _, r4, _⟩ := hr
  have e : getBlockByNumber decH decT decR s b.number = .ok (h, txs, rcs) := by
    simp [getBlockByNumber, r1, hH, r4, hblob, Res.map]
  exact ⟨e, by simp [getBlockByHash, r2, e]⟩

theorem getHead_inv {γ α β : Type} (decH : Bytes → Option γ) (decT : Bytes → Option α) (decR : Bytes → Option β)
    (s : Store) (b : BlockRec) (rest : List BlockRec) (hi : ChainInv s (b :: rest)) :
    getHead decH decT decR s = getBlockByNumber decH decT decR s b.number ∧ getHeadsHeader s = some b.header := by
  have hh := hi.height b rest rfl
  obtain ⟨r1, _⟩ := hi.reads b (List.mem_cons_self ..)
  exact ⟨by simp [getHead, hh], by simp [getHeadsHeader, hh, r1]⟩

theorem getReceiptByHash_reads {β : Type} (dec : Bytes → Option β) (hashOf : Bytes → Option Bytes) (s : Store)
    (b : BlockRec) (hr : Reads s b) (hh : hashOf b.header = some b.hash) (i : Nat) (hi : i < b.txHashes.length) (r : β)
    (hrc : readBlob b.blob (fun bl => bl.getRcAt dec i) = .ok r) :
    getReceiptByHash dec hashOf s b.txHashes[i] = .ok (r, b.hash, b.number) := by
  obtain ⟨r1, _, _, r4, _, _, _, r8, _⟩ := hr
  simp [getReceiptByHash, r8 i hi, r4, hrc, Res.bind, r1, hh]

/-! ### typed: the hash projection and the events projection on stored items -/

/-- `tx.Hash()` as the by-value projection sees it: the `TransactionHash` field of whichever
concrete transaction type the value has, nil read as zero. -/
def txHashField : GoVal → Option GoVal
  | .iface i tv =>
    match txAlts[i]? with
    | some (_, t) => (getField t kTransactionHash tv).map feltOrZero
    | none => none
  | _ => none

theorem projHash_of_stored (cfg : DecCfg) (i : Nat) (tv : GoVal) (hw : wt cfg tTransaction (.iface i tv) = true)
    (hf : fitsVal (.iface i tv) = true) :
    ∃ bs, marshalVal tTransaction (.iface i tv) = some bs ∧
      projField cfg pTransactionHash kTransactionHash bs = txHashField (.iface i tv) := by
  obtain ⟨bs, e1, e2⟩ := rt_bytes_fits cfg tTransaction (.iface i tv) (by decide) hw hf
  obtain ⟨tg, fs, ha, hp⟩ := txhash_agrees cfg bs i tv e2
  exact ⟨bs, e1, by simp [txHashField, ha, hp]⟩

theorem nonZeroHash_of_ne (j : Nat) (h : GoVal) (hne : h ≠ .felt 0 0 0 0) : nonZeroHash j h = some h := by
  unfold nonZeroHash
  split
  · exact absurd rfl hne
  · rfl

theorem mapItems_congr {α ρ : Type} (g g' : Nat → α → Option ρ) : ∀ (items : List α) (i : Nat),
    (∀ a ∈ items, ∀ j, g j a = g' j a) → mapItems g i items = mapItems g' i items
  | [], _, _ => rfl
  | a :: as, i, h => by
    simp only [mapItems, h a (List.mem_cons_self ..) i,
      mapItems_congr g g' as (i + 1) (fun x hx => h x (List.mem_cons_of_mem _ hx))]

/-- (Events, TransactionHash) of a receipt value. -/
def eventsOf (rc : GoVal) : Option (GoVal × GoVal) :=
  match getField tTransactionReceipt kEvents rc, getField tTransactionReceipt kTransactionHash rc with
  | some a, some b => some (a, b)
  | _, _ => none

/-- (Reverted, RevertReason) of a receipt value. -/
def statusOf (rc : GoVal) : Option (GoVal × GoVal) :=
  match getField tTransactionReceipt kReverted rc, getField tTransactionReceipt kRevertReason rc with
  | some a, some b => some (a, b)
  | _, _ => none

theorem wtFields_length (cfg : DecCfg) : ∀ (fs : List (Bytes × Bool × GoType)) (vs : List GoVal),
    wtFields cfg fs vs = true → vs.length = fs.length
  | [], [], _ => rfl
  | [], _ :: _, h => by simp [wtFields] at h
  | _ :: _, [], h => by simp [wtFields] at h
  | (_, _, _) :: fs, _ :: vs, h => by
    simp only [wtFields, Bool.and_eq_true] at h
    simp [wtFields_length cfg fs vs h.2]

/-- A well-typed receipt has all its fields: the two projections always find theirs. -/
theorem receipt_fields_some (cfg : DecCfg) (rc : GoVal) (hw : wt cfg tTransactionReceipt rc = true) :
    (∃ e, eventsOf rc = some e) ∧ (∃ e, statusOf rc = some e) := by
  cases rc with
  | struct vs =>
    have hl : vs.length = 9 := by
      have := wtFields_length cfg _ vs (by simpa [tTransactionReceipt, wt] using hw)
      simpa using this
    match vs, hl with
    | [v0, v1, v2, v3, v4, v5, v6, v7, v8], _ =>
      exact ⟨⟨(v1, v7), by simp [eventsOf, getField, tTransactionReceipt, fieldIndex, kEvents, kTransactionHash]⟩,
        ⟨(v3, v4), by simp [statusOf, getField, tTransactionReceipt, fieldIndex, kReverted, kRevertReason]⟩⟩
  | _ => simp [tTransactionReceipt, wt] at hw

/-! ### a record derived from the stored bytes satisfies `StoredAs` -/

theorem filterMap_msg_fst : ∀ (ks : List TxKeys),
    (ks.filterMap (fun k => k.msg.map (fun m => (m, k.hash)))).map (·.1) = ks.filterMap (·.msg)
  | [] => rfl
  | k :: ks => by
    cases hm : k.msg with
    | none => simp [hm, filterMap_msg_fst ks]
    | some m => simp [hm, filterMap_msg_fst ks]

theorem ofStored_storedAs (cfg : DecCfg) (l1 : List (Bytes × Bytes)) (n : Nat) (hdr blob su comm : Bytes) (b : BlockRec)
    (h : BlockRec.ofStored cfg l1 n hdr blob su comm = some b) :
    b.number = n ∧ b.header = hdr ∧ b.blob = blob ∧ b.stateUpdate = su ∧ b.commitments = comm ∧
    StoredAs (hashOfHeader cfg) (txKeysTyped cfg l1) b := by
  unfold BlockRec.ofStored at h
  cases hh : hashOfHeader cfg hdr with
  | none => simp [hh] at h
  | some hash =>
    cases hk : readBlob blob (fun b => b.allTx (txKeysTyped cfg l1)) with
    | ok ks =>
      simp only [hh, hk, Option.some.injEq] at h
      subst h
      exact ⟨rfl, rfl, rfl, rfl, rfl, ⟨hh, ks, hk, rfl, (filterMap_msg_fst ks).symm⟩⟩
    | notFound => simp [hh, hk] at h
    | decodeErr => simp [hh, hk] at h
    | panic => simp [hh, hk] at h

/-! ### decode-into -/

def allScalar : List (Bytes × Bool × GoType) → Bool
  | [] => true
  | (_, _, t) :: fs => scalarType t && allScalar fs

/-- Decoding into the ZERO value is the ordinary (fresh) decode. -/
theorem decodeFieldsInto_zero (cfg : DecCfg) : ∀ (fs : List (Bytes × Bool × GoType)) (kvs : List (Cbor × Cbor)),
    allScalar fs = true → decodeFieldsInto cfg fs (zeroFields fs) kvs = decodeFields cfg fs kvs
  | [], _, _ => by simp [decodeFieldsInto, decodeFields]
  | (key, om, t) :: fs, kvs, h => by
    simp only [allScalar, Bool.and_eq_true] at h
    have ih := decodeFieldsInto_zero cfg fs kvs h.2
    simp only [zeroFields, decodeFieldsInto, h.1, if_true, ih, decodeFields]
    cases hl : mapLookup (Cbor.text key) kvs with
    | none => cases decodeFields cfg fs kvs <;> rfl
    | some c =>
      have hz : decodeVal cfg t (.simple 22) = some (zeroVal t) ∧ decodeVal cfg t (.simple 23) = some (zeroVal t) := by
        cases t <;> simp_all [scalarType, decodeVal, zeroVal]
      by_cases h22 : c = .simple 22
      · subst h22; simp only [hz.1]; cases decodeFields cfg fs kvs <;> rfl
      · by_cases h23 : c = .simple 23
        · subst h23; simp only [hz.2]; cases decodeFields cfg fs kvs <;> rfl
        · have : (match c with
              | .simple 22 => some (zeroVal t)
              | .simple 23 => some (zeroVal t)
              | c => decodeVal cfg t c) = decodeVal cfg t c := by
            split <;> simp_all
          simp only [this]
          cases decodeVal cfg t c <;> cases decodeFields cfg fs kvs <;> rfl


end Juno.C07
