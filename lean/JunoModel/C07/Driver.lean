import JunoModel.Common.Proto
import JunoModel.C07.Model
import JunoModel.C07.ModelBlob
import JunoModel.C07.ModelVal
import JunoModel.C07.Tables
import JunoModel.C07.ModelAccess
import JunoModel.C07.ModelBin
/-! Line-protocol driver for the C07 model (`lake build c07drv`).

Requests (hex = lower-case hex, `-` = empty byte string):
  dec <hex>                 decode exactly one CBOR item and re-encode it     → `ok <hex>` | `err`
  first <hex>               decode the first item, report how many bytes it took → `ok <n>` | `err`
  build <n> <m> <hex>*      lay out n transactions then m receipts (already encoded items) and
                            marshal the blob                                  → `ok <hex>`
  blob <hex>                unmarshal a stored blob                           → `ok t=<i,..> r=<i,..> d=<len>` | `err`
  tx <hex> <i> / rc <hex> <i>   bytes of item i of a stored blob              → `ok <hex>` | `notfound` | `err` | `panic`
  alltx <hex> / allrc <hex>     all item byte strings                         → `ok <hex>,<hex>..` | …
  type <Name>               description of the model's type table             → `ok <desc>`
  enc <Name> <value…>       encode a Go value (value syntax below) with the table → `ok <hex>` | `err`
  decv <Name> <strict|lenient> <hex>   decode bytes into a value of the table's type → `ok <value…>` | `err`
  acc <accessor> <strict|lenient> <hex>  a partial-decoder accessor on one stored record → `ok <value…>` | `err`
  utf8 <hex>                is the byte string valid UTF-8                    → `true` | `false`
  fsh <n>                   header felt.Slice.MarshalCBOR writes for n elements → `ok <hex>`
  unfsh <hex>               decodeCBORArrayHeader                              → `ok <n> <consumed>` | `none`
  key num <bucket> <n> | key bt <n>     database key of a block number            → `ok <hex>`
  numidx <n> <i>            BlockNumIndexKey bytes                             → `ok <hex>`
  declared <at> <hex>       stored bytes of a DeclaredClassDefinition (class item given) → `ok <hex>`
  casm <declaredAt> <v2 hex> <migratedAt> <v1 hex | n>   ClassCasmHashMetadata.MarshalBinary → `ok <hex>`
  uncasm <hex>              ClassCasmHashMetadata.UnmarshalBinary              → `ok <declaredAt> <v2> <migratedAt> <v1|n>` | `err`
  lim <maxArray> <maxMap> <maxNest> <hex>   does the limited decoder accept the item → `ok` | `rejected` | `err`

Value syntax (prefix form, space separated):
  n | _ | u<dec> | T | F | s<hex> | b<hex> | f<hex>,<hex>,<hex>,<hex> | r<hex of the item's CBOR>
  L<k> v*k | S<k> v*k | M<k> (key value)*k | I<idx> v
-/
open Juno.Proto Juno.C07

def showNats (xs : List Nat) : String := ",".intercalate (xs.map toString)

def showRes {α : Type} (f : α → String) : Res α → String
  | .ok a => "ok " ++ f a
  | .notFound => "notfound"
  | .decodeErr => "err"
  | .panic => "panic"

def hexAll? : List String → Option (List Bytes)
  | [] => some []
  | w :: ws => do
    let b ← hexToBytes? w
    let bs ← hexAll? ws
    pure (b :: bs)

def raw : Bytes → Option Bytes := some

/-! ### value syntax -/

def hexNat? (s : String) : Option Nat := hexToNat? s

mutual
def parseVal : Nat → List String → Option (GoVal × List String)
  | 0, _ => none
  | _ + 1, [] => none
  | fuel + 1, tok :: rest =>
    match tok.toList with
    | ['n'] => some (.nil, rest)
    | ['_'] => some (.unit, rest)
    | ['T'] => some (.bool true, rest)
    | ['F'] => some (.bool false, rest)
    | 'u' :: ds => (String.ofList ds).toNat?.map (fun n => (GoVal.uint n, rest))
    | 's' :: hs => (hexToBytes? (String.ofList hs)).map (fun b => (GoVal.str b, rest))
    | 'b' :: hs => (hexToBytes? (String.ofList hs)).map (fun b => (GoVal.bytes b, rest))
    | 'r' :: hs =>
      match hexToBytes? (String.ofList hs) with
      | some b => (decodeAll b).map (fun c => (GoVal.raw c, rest))
      | none => none
    | 'f' :: hs =>
      match (String.ofList hs).splitOn "," with
      | [a, b, c, d] =>
        match hexNat? a, hexNat? b, hexNat? c, hexNat? d with
        | some a, some b, some c, some d => some (.felt a b c d, rest)
        | _, _, _, _ => none
      | _ => none
    | 'L' :: ds =>
      match (String.ofList ds).toNat? with
      | some k => (parseVals fuel k rest).map (fun (xs, r) => (GoVal.list xs, r))
      | none => none
    | 'S' :: ds =>
      match (String.ofList ds).toNat? with
      | some k => (parseVals fuel k rest).map (fun (xs, r) => (GoVal.struct xs, r))
      | none => none
    | 'M' :: ds =>
      match (String.ofList ds).toNat? with
      | some k => (parsePairs fuel k rest).map (fun (xs, r) => (GoVal.map xs, r))
      | none => none
    | 'I' :: ds =>
      match (String.ofList ds).toNat? with
      | some i => (parseVal fuel rest).map (fun (v, r) => (GoVal.iface i v, r))
      | none => none
    | _ => none
def parseVals : Nat → Nat → List String → Option (List GoVal × List String)
  | _, 0, toks => some ([], toks)
  | 0, _ + 1, _ => none
  | fuel + 1, k + 1, toks =>
    match parseVal fuel toks with
    | some (v, r) =>
      match parseVals fuel k r with
      | some (vs, r') => some (v :: vs, r')
      | none => none
    | none => none
def parsePairs : Nat → Nat → List String → Option (List (GoVal × GoVal) × List String)
  | _, 0, toks => some ([], toks)
  | 0, _ + 1, _ => none
  | fuel + 1, k + 1, toks =>
    match parseVal fuel toks with
    | some (a, r) =>
      match parseVal fuel r with
      | some (b, r') =>
        match parsePairs fuel k r' with
        | some (ps, r'') => some ((a, b) :: ps, r'')
        | none => none
      | none => none
    | none => none
end

def parseValue (toks : List String) : Option GoVal :=
  match parseVal (2 * toks.length + 2) toks with
  | some (v, []) => some v
  | _ => none

mutual
def showVal : GoVal → List String
  | .nil => ["n"]
  | .unit => ["_"]
  | .uint n => ["u" ++ toString n]
  | .bool b => [if b then "T" else "F"]
  | .str s => ["s" ++ bytesToHex s]
  | .bytes b => ["b" ++ bytesToHex b]
  | .felt a b c d => ["f" ++ natToHex a ++ "," ++ natToHex b ++ "," ++ natToHex c ++ "," ++ natToHex d]
  | .raw c => ["r" ++ bytesToHex c.encode]
  | .list xs => ("L" ++ toString xs.length) :: showVals xs
  | .struct vs => ("S" ++ toString vs.length) :: showVals vs
  | .map kvs => ("M" ++ toString kvs.length) :: showPairs kvs
  | .iface i v => ("I" ++ toString i) :: showVal v
def showVals : List GoVal → List String
  | [] => []
  | v :: vs => showVal v ++ showVals vs
def showPairs : List (GoVal × GoVal) → List String
  | [] => []
  | (a, b) :: ps => showVal a ++ (showVal b ++ showPairs ps)
end

def showValue (v : GoVal) : String := " ".intercalate (showVal v)

def cfgOf? : String → Option DecCfg
  | "strict" => some ⟨true⟩
  | "lenient" => some ⟨false⟩
  | _ => none

def showOpt (r : Option GoVal) : String :=
  match r with
  | some v => "ok " ++ showValue v
  | none => "err"

def showOpt2 (r : Option (GoVal × GoVal)) : String :=
  match r with
  | some (a, b) => "ok " ++ showValue a ++ " " ++ showValue b
  | none => "err"

def accessor (name : String) (cfg : DecCfg) (bs : Bytes) : Option String :=
  match name with
  | "GetBlockHeaderHashByNumber" => some (showOpt (getBlockHeaderHash cfg bs))
  | "GetGlobalStateRootByBlockNumber" => some (showOpt (getGlobalStateRoot cfg bs))
  | "GetBlockTransactionCountByNumber" => some (showOpt (getBlockTransactionCount cfg bs))
  | "GetBlockHeaderTimestampByNumber" => some (showOpt (getBlockHeaderTimestamp cfg bs))
  | "GetBlockHeaderEventsBloomByNumber" => some (showOpt (getBlockHeaderEventsBloom cfg bs))
  | "ExecutionStatus" => some (showOpt2 (getExecutionStatus cfg bs))
  | "TransactionEvents" => some (showOpt2 (getTransactionEvents cfg bs))
  | "TransactionHash" => some (showOpt (getTransactionHash cfg bs))
  | _ => none

def step (s : Unit) (line : String) : Unit × String :=
  match words line with
  | ["type", name] =>
    match tableByName name with
    | some t => (s, "ok " ++ descType t)
    | none => (s, "bad-op")
  | "enc" :: name :: toks =>
    match tableByName name, parseValue toks with
    | some t, some v =>
      match marshalVal t v with
      | some bs => (s, "ok " ++ bytesToHex bs)
      | none => (s, "err")
    | _, _ => (s, "bad-op")
  | ["decv", name, mode, h] =>
    match tableByName name, cfgOf? mode, hexToBytes? h with
    | some t, some cfg, some bs => (s, showOpt (unmarshalVal cfg t bs))
    | _, _, _ => (s, "bad-op")
  | ["acc", name, mode, h] =>
    match cfgOf? mode, hexToBytes? h with
    | some cfg, some bs =>
      match accessor name cfg bs with
      | some out => (s, out)
      | none => (s, "bad-op")
    | _, _ => (s, "bad-op")
  | ["fsh", n] =>
    match n.toNat? with
    | some n => (s, "ok " ++ bytesToHex (sliceHeader n))
    | none => (s, "bad-op")
  | ["unfsh", h] =>
    match hexToBytes? h with
    | some bs =>
      match decSliceHeader bs with
      | some (n, k) => (s, s!"ok {n} {k}")
      | none => (s, "none")
    | none => (s, "bad-op")
  | ["key", "num", b, n] =>
    match b.toNat?, n.toNat? with
    | some b, some n => (s, "ok " ++ bytesToHex (keyByNumber b n))
    | _, _ => (s, "bad-op")
  | ["key", "bt", n] =>
    match n.toNat? with
    | some n => (s, "ok " ++ bytesToHex (keyBlockTransactions n))
    | none => (s, "bad-op")
  | ["numidx", n, i] =>
    match n.toNat?, i.toNat? with
    | some n, some i => (s, "ok " ++ bytesToHex (encNumIndex n i))
    | _, _ => (s, "bad-op")
  | ["declared", a, h] =>
    match a.toNat?, hexToBytes? h with
    | some a, some cls => (s, "ok " ++ bytesToHex (encDeclared a cls).encode)
    | _, _ => (s, "bad-op")
  | ["casm", d, v2, m, v1] =>
    match d.toNat?, hexToBytes? v2, m.toNat?, (if v1 == "n" then some none else (hexToBytes? v1).map some) with
    | some d, some v2, some m, some v1 => (s, "ok " ++ bytesToHex (CasmMeta.marshal ⟨d, v2, m, v1⟩))
    | _, _, _, _ => (s, "bad-op")
  | ["uncasm", h] =>
    match hexToBytes? h with
    | some bs =>
      match CasmMeta.unmarshal bs with
      | some m => (s, s!"ok {m.declaredAt} {bytesToHex m.v2} {m.migratedAt} " ++
          (match m.v1 with | some h => bytesToHex h | none => "n"))
      | none => (s, "err")
    | none => (s, "bad-op")
  | ["lim", a, m, n, h] =>
    match a.toNat?, m.toNat?, n.toNat?, hexToBytes? h with
    | some a, some m, some n, some bs =>
      match decodeAll bs with
      | some _ => (s, if (decodeAllLimited ⟨a, m, n⟩ bs).isSome then "ok" else "rejected")
      | none => (s, "err")
    | _, _, _, _ => (s, "bad-op")
  | ["utf8", h] =>
    match hexToBytes? h with
    | some bs => (s, toString (utf8Valid bs))
    | none => (s, "bad-op")
  | ["dec", h] =>
    match hexToBytes? h with
    | some bs =>
      match decodeAll bs with
      | some v => (s, "ok " ++ bytesToHex v.encode)
      | none => (s, "err")
    | none => (s, "bad-op")
  | ["first", h] =>
    match hexToBytes? h with
    | some bs =>
      match decodeFirst bs with
      | some (_, rest) => (s, "ok " ++ toString (bs.length - rest.length))
      | none => (s, "err")
    | none => (s, "bad-op")
  | "build" :: n :: m :: items =>
    match n.toNat?, m.toNat?, hexAll? items with
    | some n, some m, some bs =>
      if bs.length = n + m then
        let b := Blob.build id id (bs.take n) (bs.drop n)
        (s, "ok " ++ bytesToHex b.marshal)
      else (s, "bad-op")
    | _, _, _ => (s, "bad-op")
  | ["blob", h] =>
    match hexToBytes? h with
    | some bs =>
      match Blob.unmarshal bs with
      | some b => (s, s!"ok t={showNats b.txIdx} r={showNats b.rcIdx} d={b.data.length}")
      | none => (s, "err")
    | none => (s, "bad-op")
  | [op, h, i] =>
    match hexToBytes? h, i.toNat? with
    | some bs, some i =>
      if op == "tx" then (s, showRes bytesToHex (readBlob bs (fun b => b.getTx raw i)))
      else if op == "rc" then (s, showRes bytesToHex (readBlob bs (fun b => b.getRc raw i)))
      else (s, "bad-op")
    | _, _ => (s, "bad-op")
  | [op, h] =>
    match hexToBytes? h with
    | some bs =>
      let showAll := fun (xs : List Bytes) => ",".intercalate (xs.map bytesToHex)
      if op == "alltx" then (s, showRes showAll (readBlob bs (fun b => b.allTx raw)))
      else if op == "allrc" then (s, showRes showAll (readBlob bs (fun b => b.allRc raw)))
      else (s, "bad-op")
    | none => (s, "bad-op")
  | _ => (s, "bad-op")

def main : IO Unit := loop step ()
